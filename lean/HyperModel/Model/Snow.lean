/-
Model of the consensus wrapper `snow.VM` / `snow.StatefulBlock` (properties C20, C21).
Core Lean only (linked into the driver executables).

Transcribed Go code (pinned commit of /repo):
* `snow/block.go`       verifyWithContext, verify, Accept, queueAccept, processAccept, accept, Reject
* `snow/vm.go`          GetBlock, GetBlockByHeight, ParseBlock, buildBlock, SetPreference, LastAccepted,
                        setLastAccepted, setLastProcessed, startAsyncAccepter
* `snow/chain_index.go` makeConsensusIndex (fresh index), reprocessFromOutputToInput,
                        ConsensusIndex.GetLastAccepted / GetPreferredBlock
* `snow/statesync.go`   StartStateSync, FinishStateSync, verifyProcessingBlocks
* `snow/health.go`      vmReadinessHealthCheck, unresolvedBlockHealthCheck
* `internal/cache/fifo.go` FIFO.Put / Get;  avalanchego `cache.LRU` Put / Get (parsed blocks)
* `chainindex/chain_index.go` UpdateLastAccepted / GetBlock / GetBlockIDAtHeight (the persistent index the
  harness hands to the VM)

The inner chain (`snow.Chain`) is the harness's logging chain: an `Output` carries the list of
block ids executed so far, `VerifyBlock` fails exactly on blocks flagged `invalid`.
`StatefulBlock` objects have pointer identity in Go; here they live in a heap `objs` and are
named by handles.  The async accepter goroutine is two atomic steps: `deq` (receive from the
channel + `GetBlock(parent)`) and `fin` (`chain.AcceptBlock` + notify + `setLastProcessed`);
neither takes `chainLock`, so they may be placed anywhere between engine ops.
-/
namespace HyperModel.Snow

abbrev Map (α : Type) := Nat → Option α
def Map.empty {α} : Map α := fun _ => none
def Map.set {α} (m : Map α) (k : Nat) (v : Option α) : Map α := fun j => if j = k then v else m j

@[simp] theorem Map.set_same {α} (m : Map α) (k v) : (m.set k v) k = v := by simp [Map.set]
theorem Map.set_other {α} (m : Map α) (k v j) (h : j ≠ k) : (m.set k v) j = m j := by simp [Map.set, h]
theorem Map.set_apply {α} (m : Map α) (k v j) : (m.set k v) j = if j = k then v else m j := rfl

structure Blk where
  id : Nat
  parent : Nat
  height : Nat
  invalid : Bool
  /-- embedded P-Chain context (`GetContext().PChainHeight`), `none` = nil -/
  pctx : Option Nat := none
deriving DecidableEq, Repr, Inhabited

/-- inner chain `Output`: the block and the ids executed up to and including it -/
structure Out where
  blk : Blk
  st : List Nat
deriving DecidableEq, Repr, Inhabited

/-- inner chain `Accepted` -/
structure Acc where
  blk : Blk
  st : List Nat
deriving DecidableEq, Repr, Inhabited

/-- marker the logging chain uses for the state of an empty (nil) parent output -/
def nilMark : Nat := 999999999
def nilBlk : Blk := ⟨nilMark, nilMark, 0, false, none⟩

/-- logging chain `VerifyBlock(parent, block)` -/
def chainVerify (po : Option Out) (b : Blk) : Option Out :=
  if b.invalid then none
  else some ⟨b, (match po with | some o => o.st | none => [nilMark]) ++ [b.id]⟩

/-- logging chain `AcceptBlock(acceptedParent, output)` (never fails) -/
def chainAccept (_pa : Option Acc) (o : Option Out) : Acc :=
  match o with
  | some o => ⟨o.blk, o.st⟩
  | none => ⟨nilBlk, []⟩

/-- logging chain `BuildBlock(blockContext, parent)`: child of the parent output embedding the
given P-Chain context, id chosen by the harness -/
def chainBuild (po : Option Out) (newId : Nat) (c : Option Nat) : Option (Blk × Out) :=
  match po with
  | none => none
  | some p =>
    let b : Blk := ⟨newId, p.blk.id, p.blk.height + 1, false, c⟩
    some (b, ⟨b, p.st ++ [newId]⟩)

/-- `StatefulBlock` -/
structure Obj where
  blk : Blk
  verified : Bool := false
  out : Option Out := none
  accepted : Bool := false
  acc : Option Acc := none
deriving DecidableEq, Repr, Inhabited

inductive Event where
  | cParse (b : Blk)
  | cBuild (po : Option Out) (res : Option Out)
  | cVerify (po : Option Out) (b : Blk) (res : Option Out)
  | cAccept (pa : Option Acc) (o : Option Out) (res : Acc)
  | nVerified (o : Out)
  | nAccepted (a : Acc)
  | nRejected (o : Option Out)
  | nPreAccepted (b : Blk)
  | nPreRejected (b : Blk)
deriving DecidableEq, Repr

/-! ### `internal/cache/fifo.go` -/
structure Fifo where
  cap : Nat
  order : List Nat
  m : Map Nat

/-- `FIFO.Put`: an existing key keeps its queue position, a new key evicts the oldest when full -/
def Fifo.put (f : Fifo) (k v : Nat) : Fifo :=
  match f.m k with
  | some _ => { f with m := f.m.set k (some v) }
  | none =>
    if f.order.length = f.cap then
      match f.order with
      | [] => { f with order := [k], m := f.m.set k (some v) }
      | old :: rest => { f with order := rest ++ [k], m := (f.m.set old none).set k (some v) }
    else { f with order := f.order ++ [k], m := f.m.set k (some v) }

/-! ### avalanchego `cache.LRU` over `linked.Hashmap` (parsed blocks) -/
structure Lru where
  size : Nat
  es : List (Nat × Nat)

def Lru.find (es : List (Nat × Nat)) (k : Nat) : Option Nat :=
  match es with
  | [] => none
  | (j, v) :: r => if j = k then some v else Lru.find r k

/-- `LRU.Put`: drops the oldest entry when full (even if the key is present), then moves/appends -/
def Lru.put (c : Lru) (k v : Nat) : Lru :=
  let es := if c.es.length = c.size then c.es.tail else c.es
  { c with es := es.filter (fun e => e.1 ≠ k) ++ [(k, v)] }

/-- `LRU.Get`: a hit becomes most recently used -/
def Lru.get (c : Lru) (k : Nat) : Lru × Option Nat :=
  match Lru.find c.es k with
  | none => (c, none)
  | some v => ({ c with es := c.es.filter (fun e => e.1 ≠ k) ++ [(k, v)] }, some v)

/-! ### `chainindex.ChainIndex` -/
structure Index where
  window : Nat
  byHeight : Map Blk
  hid : Map Nat
  idh : Map Nat

def Index.getBlock (ix : Index) (id : Nat) : Option Blk :=
  match ix.idh id with
  | none => none
  | some h => ix.byHeight h

/-- `UpdateLastAccepted` (as of /repo commit 6de9247: a missing prune target is not an error, the
batch is written without deletions); the `Option` is kept for the callers' error branch, which
this index never takes -/
def Index.update (ix : Index) (b : Blk) : Option Index :=
  let w : Index := { ix with byHeight := ix.byHeight.set b.height (some b),
                             hid := ix.hid.set b.height (some b.id),
                             idh := ix.idh.set b.id (some b.height) }
  if ix.window = 0 ∨ b.height ≤ ix.window then some w
  else
    let e := b.height - ix.window
    match ix.hid e with
    | none => some w
    | some did =>
      some { w with byHeight := w.byHeight.set e none, idh := w.idh.set did none, hid := w.hid.set e none }

def acceptedQueueSize : Nat := 16

structure State where
  objs : Map Obj := Map.empty
  nobj : Nat := 0
  vb : Map Nat := Map.empty          -- verifiedBlocks: id ↦ handle
  vbKeys : List Nat := []            -- superset of the keys of `vb` (for enumeration)
  accByID : Fifo := ⟨1, [], Map.empty⟩
  accByHeight : Fifo := ⟨1, [], Map.empty⟩
  parsed : Lru := ⟨1, []⟩
  idx : Index := ⟨0, Map.empty, Map.empty, Map.empty⟩
  lastAccepted : Nat := 0
  lastProcessed : Option Nat := none
  preferred : Nat := 0
  ready : Bool := true
  queue : List Nat := []
  inflight : Option (Nat × Option Acc) := none
  unresolved : Option (List Nat) := none
  crashed : Bool := false
  log : List Event := []

def State.obj (s : State) (h : Nat) : Obj := (s.objs h).getD default
def State.emit (s : State) (e : Event) : State := { s with log := s.log ++ [e] }
def State.setObj (s : State) (h : Nat) (o : Obj) : State := { s with objs := s.objs.set h (some o) }
def State.alloc (s : State) (o : Obj) : State × Nat :=
  ({ s with objs := s.objs.set s.nobj (some o), nobj := s.nobj + 1 }, s.nobj)
def State.vbSet (s : State) (id h : Nat) : State :=
  { s with vb := s.vb.set id (some h), vbKeys := if id ∈ s.vbKeys then s.vbKeys else id :: s.vbKeys }
def State.vbDel (s : State) (id : Nat) : State := { s with vb := s.vb.set id none }

/-- `setLastAccepted` -/
def State.setLastAccepted (s : State) (h : Nat) : State :=
  let b := (s.obj h).blk
  { s with lastAccepted := h,
           accByHeight := s.accByHeight.put b.height b.id,
           accByID := s.accByID.put b.id h }

inductive Found where
  | obj (h : Nat)
  | bare (b : Blk)
  | missing
deriving DecidableEq, Repr

/-- `VM.GetBlock`: verified map, accepted cache, then the index (a bare input block) -/
def State.getBlock (s : State) (id : Nat) : Found :=
  match s.vb id with
  | some h => .obj h
  | none =>
    match s.accByID.m id with
    | some h => .obj h
    | none =>
      match s.idx.getBlock id with
      | some b => .bare b
      | none => .missing

def State.view (s : State) : Found → Option Obj
  | .obj h => some (s.obj h)
  | .bare b => some { blk := b }
  | .missing => none

/-- hand an object to the engine: a block read from the index is a fresh object -/
def State.materialize (s : State) : Found → State × Option Nat
  | .obj h => (s, some h)
  | .bare b => let (s', h) := s.alloc { blk := b }; (s', some h)
  | .missing => (s, none)

/-- configuration + fresh index holding only the initial last accepted block (`Initialize`,
`makeConsensusIndex`, `notifyAccepted` on startup) -/
def init (cacheCap parsedCap window : Nat) (g : Blk) (ready : Bool) : State :=
  let ix : Index := ⟨window, Map.empty.set g.height (some g), Map.empty.set g.height (some g.id),
                     Map.empty.set g.id (some g.height)⟩
  let o : Obj := if ready then ⟨g, true, some ⟨g, [g.id]⟩, true, some ⟨g, [g.id]⟩⟩ else { blk := g }
  let s : State := { objs := Map.empty.set 0 (some o), nobj := 1,
                     accByID := ⟨max cacheCap 1, [], Map.empty⟩, accByHeight := ⟨max cacheCap 1, [], Map.empty⟩,
                     parsed := ⟨max parsedCap 1, []⟩, idx := ix, ready := ready,
                     lastProcessed := if ready then some 0 else none, preferred := g.id }
  let s := s.setLastAccepted 0
  if ready then s.emit (.nAccepted ⟨g, [g.id]⟩) else s.emit (.nPreAccepted g)

/-- `verifyPChainCtx(provided, inner)`: both nil, or both present with equal heights -/
def ctxOK (provided inner : Option Nat) : Bool := provided == inner

inductive Op where
  | build (newId : Nat) (c : Option Nat)
  | parse (b : Blk)
  | verify (h : Nat) (c : Option Nat)
  | accept (h : Nat)
  | reject (h : Nat)
  | pref (id : Nat)
  | get (id : Nat)
  | getH (height : Nat)
  | last
  | deq
  | fin
  | start (b : Blk)
  | finish (input : Blk) (st : List Nat)
  | health
  | ciLast
  | ciPref
deriving DecidableEq, Repr

inductive Res where
  | ok
  | handle (h : Nat)
  | id (n : Nat)
  | err (why : String)
  | health (ready : Bool) (unresolved : Option Nat)
  | acc (a : Acc)
  | out (o : Out)
deriving DecidableEq, Repr

/-- `VM.buildBlock` (`BuildBlock` = nil context, `BuildBlockWithContext`) -/
def build (s : State) (newId : Nat) (c : Option Nat) : State × Res :=
  let f := s.getBlock s.preferred
  match s.view f with
  | none => (s, .err "notfound")
  | some p =>
    match chainBuild p.out newId c with
    | none => (s.emit (.cBuild p.out none), .err "build")
    | some (b, o) =>
      let s1 := (s.emit (.cBuild p.out (some o))).alloc ⟨b, true, some o, false, none⟩
      ({ s1.1 with parsed := s1.1.parsed.put b.id s1.2 }, .handle s1.2)

/-- `VM.ParseBlock`, cache miss: `chain.ParseBlock`, `NewInputBlock`, `parsedBlocks.Put` -/
def parseNew (s : State) (b : Blk) : State × Res :=
  let s1 := (s.emit (.cParse b)).alloc { blk := b }
  ({ s1.1 with parsed := s1.1.parsed.put b.id s1.2 }, .handle s1.2)

/-- `VM.ParseBlock` -/
def parse (s : State) (b : Blk) : State × Res :=
  match s.getBlock b.id with
  | .missing =>
    match (s.parsed.get b.id).2 with
    | some h => ({ s with parsed := (s.parsed.get b.id).1 }, .handle h)
    | none => parseNew { s with parsed := (s.parsed.get b.id).1 } b
  | f =>
    match s.materialize f with
    | (s, some h) => (s, .handle h)
    | (s, none) => (s, .err "notfound")

/-- `StatefulBlock.verifyWithContext(pChainCtx)` (`Verify` = nil context) -/
def verify (s : State) (h : Nat) (c : Option Nat) : State × Res :=
  let o := s.obj h
  if !s.ready then (s.vbSet o.blk.id h, .ok)
  else if o.verified then
    (if ctxOK c o.blk.pctx then (s.vbSet o.blk.id h, .ok) else (s, .err "ctx"))
  else
    match s.view (s.getBlock o.blk.parent) with
    | none => (s, .err "notfound")
    | some p =>
      if !p.verified then (s, .err "parent")
      else if !ctxOK c o.blk.pctx then (s, .err "ctx")
      else
        let r := chainVerify p.out o.blk
        let s := s.emit (.cVerify p.out o.blk r)
        match r with
        | none => (s, .err "invalid")
        | some out =>
          let s := s.setObj h { o with out := some out, verified := true }
          let s := s.emit (.nVerified out)
          (s.vbSet o.blk.id h, .ok)

/-- `StatefulBlock.Accept` (the send on the full channel would block the engine: `would-block`) -/
def accept (s : State) (h : Nat) : State × Res :=
  let o := s.obj h
  if s.ready && s.queue.length ≥ acceptedQueueSize then (s, .err "would-block")
  else if s.ready && !o.verified then (s, .err "unverified")
  else
    match s.idx.update o.blk with
    | none => (s, .err "index")
    | some ix =>
      let s := { s with idx := ix }
      let s := if s.ready then { s with queue := s.queue ++ [h] } else s.emit (.nPreAccepted o.blk)
      let s := s.vbDel o.blk.id
      (s.setLastAccepted h, .ok)

/-- `StatefulBlock.Reject`; the pre-rejected subscriber of `verifyProcessingBlocks` resolves -/
def reject (s : State) (h : Nat) : State × Res :=
  let o := s.obj h
  let s := s.vbDel o.blk.id
  if !o.verified then
    let s := s.emit (.nPreRejected o.blk)
    ({ s with unresolved := s.unresolved.map (fun u => u.filter (· ≠ o.blk.id)) }, .ok)
  else (s.emit (.nRejected o.out), .ok)

/-- `VM.GetBlock` as called by the engine -/
def get (s : State) (id : Nat) : State × Res :=
  match s.materialize (s.getBlock id) with
  | (s, some h) => (s, .handle h)
  | (s, none) => (s, .err "notfound")

/-- height → id as `GetBlockByHeight` resolves it: accepted-by-height cache, then the index -/
def State.idAtHeight (s : State) (height : Nat) : Option Nat :=
  match s.accByHeight.m height with
  | some id => some id
  | none => s.idx.hid height

/-- `VM.GetBlockByHeight` -/
def getH (s : State) (height : Nat) : State × Res :=
  if (s.obj s.lastAccepted).blk.height = height then (s, .handle s.lastAccepted)
  else
    match s.idAtHeight height with
    | none => (s, .err "notfound")
    | some id =>
      match s.accByID.m id with
      | some h => (s, .handle h)
      | none => get s id

/-- accepter: receive from `acceptedQueue`, `GetBlock(parent)` (first half of `processAccept`) -/
def deq (s : State) : State × Res :=
  match s.inflight, s.queue with
  | none, h :: rest =>
    match s.view (s.getBlock (s.obj h).blk.parent) with
    | none => ({ s with crashed := true }, .err "crash")
    | some p => ({ s with queue := rest, inflight := some (h, p.acc) }, .ok)
  | _, _ => (s, .err "idle")

/-- accepter: `b.accept(parent.Accepted)`, notify, `setLastProcessed` (second half) -/
def fin (s : State) : State × Res :=
  match s.inflight with
  | none => (s, .err "idle")
  | some (h, pa) =>
    let o := s.obj h
    let a := chainAccept pa o.out
    let s := s.emit (.cAccept pa o.out a)
    let s := s.setObj h { o with acc := some a, accepted := true }
    let s := s.emit (.nAccepted a)
    ({ s with lastProcessed := some h, inflight := none }, .ok)

/-- `StartStateSync` -/
def start (s : State) (b : Blk) : State × Res :=
  match s.idx.update b with
  | none => (s, .err "index")
  | some ix =>
    let s := { s with idx := ix, ready := false }
    let (s, h) := s.alloc { blk := b }
    (s.setLastAccepted h, .ok)

/-- the loop of `reprocessFromOutputToInput` (fuel = height distance; index heights are exact) -/
def reprocessLoop (ix : Index) (target : Blk) : Nat → Out → Acc → List Event → Option (Out × Acc) × List Event
  | 0, out, acc, ev => (if target.height > out.blk.height then none else some (out, acc), ev)
  | fuel + 1, out, acc, ev =>
    if target.height > out.blk.height then
      match ix.byHeight (out.blk.height + 1) with
      | none => (none, ev)
      | some b =>
        let r := chainVerify (some out) b
        let ev := ev ++ [.cVerify (some out) b r]
        match r with
        | none => (none, ev)
        | some out' =>
          let ev := ev ++ [.nVerified out']
          let acc' := chainAccept (some acc) (some out')
          let ev := ev ++ [.cAccept (some acc) (some out') acc', .nAccepted acc']
          reprocessLoop ix target fuel out' acc' ev
    else (some (out, acc), ev)

/-- `reprocessFromOutputToInput` -/
def reprocess (ix : Index) (target : Blk) (out : Out) (acc : Acc) : Option (Out × Acc) × List Event :=
  if target.height < out.blk.height ∨ out.blk.id ≠ acc.blk.id then (none, [])
  else reprocessLoop ix target (target.height - out.blk.height) out acc []

def insertByHeight (s : State) (h : Nat) : List Nat → List Nat
  | [] => [h]
  | x :: r =>
    let a := (s.obj h).blk
    let b := (s.obj x).blk
    if a.height < b.height ∨ (a.height = b.height ∧ a.id ≤ b.id) then h :: x :: r
    else x :: insertByHeight s h r

/-- the processing blocks (values of `verifiedBlocks`) sorted by height (ties by id: the real
order of equal heights is unspecified, the harness canonicalises the same way) -/
def State.processingSorted (s : State) : List Nat :=
  (s.vbKeys.filterMap s.vb).foldr (insertByHeight s) []

/-- loop body of `verifyProcessingBlocks`; the flag records the fatal parent-fetch error -/
def reverifyOne (acc : State × List Nat × Bool) (h : Nat) : State × List Nat × Bool :=
  let (s, bad, failed) := acc
  if failed then acc else
  let o := s.obj h
  match s.view (s.getBlock o.blk.parent) with
  | none => (s, bad, true)
  | some p =>
    if !p.verified then (s, bad ++ [o.blk.id], false)
    else
      let r := chainVerify p.out o.blk
      let s := s.emit (.cVerify p.out o.blk r)
      match r with
      | none => (s, bad ++ [o.blk.id], false)
      | some out =>
        let s := s.setObj h { o with out := some out, verified := true }
        (s.emit (.nVerified out), bad, false)

/-- `FinishStateSync` after the last accepted block is populated: `setLastProcessed`,
`verifyProcessingBlocks`, register the unresolved-blocks checker, `ready = true` -/
def finishTail (s : State) : State × Res :=
  let s := { s with lastProcessed := some s.lastAccepted }
  match s.processingSorted.foldl reverifyOne (s, [], false) with
  | (s, _, true) => (s, .err "parentfetch")
  | (s, bad, false) =>
    match s.unresolved with
    | some _ => (s, .err "duplicate-checker")
    | none => ({ s with unresolved := some bad, ready := true }, .ok)

/-- `FinishStateSync(input, output, accepted)` with `output = accepted = ⟨input, st⟩` -/
def finish (s : State) (input : Blk) (st : List Nat) : State × Res :=
  if s.ready then (s, .err "ready")
  else
    let la := s.obj s.lastAccepted
    if input.id = la.blk.id then
      finishTail (s.setObj s.lastAccepted { la with out := some ⟨input, st⟩, verified := true,
                                                    acc := some ⟨input, st⟩, accepted := true })
    else
      match reprocess s.idx la.blk ⟨input, st⟩ ⟨input, st⟩ with
      | (none, ev) => ({ s with log := s.log ++ ev }, .err "reprocess")
      | (some (o, a), ev) =>
        let s := { s with log := s.log ++ ev }
        let (s, h) := s.alloc ⟨la.blk, true, some o, true, some a⟩
        finishTail (s.setLastAccepted h)

/-- `VM.HealthCheck`: readiness checker and (once registered) unresolved-blocks checker -/
def health (s : State) : Res := .health s.ready (s.unresolved.map List.length)

/-- the error value of `VM.HealthCheck` (`errors.Join` of the checkers' errors):
`vmReadinessHealthCheck` fails with `errVMNotReady` iff not ready, `unresolvedBlockHealthCheck`
fails with `errUnresolvedBlocks` iff its set is non-empty. Returns (err ≠ nil, Is notReady, Is unresolved) -/
def healthErr (s : State) : Bool × Bool × Bool :=
  let nr := !s.ready
  let un := match s.unresolved with | some u => decide (u.length > 0) | none => false
  (nr || un, nr, un)

/-- `ConsensusIndex.GetLastAccepted` -/
def ciLast (s : State) : Res :=
  match s.lastProcessed with
  | none => .err "unpopulated"
  | some h => if (s.obj h).accepted then (match (s.obj h).acc with | some a => .acc a | none => .err "nil") else .err "unpopulated"

/-- `ConsensusIndex.GetPreferredBlock` -/
def ciPref (s : State) : Res :=
  match s.view (s.getBlock s.preferred) with
  | none => .err "notfound"
  | some p => if p.verified then (match p.out with | some o => .out o | none => .err "nil") else .err "unverified"

def step (s : State) (op : Op) : State × Res :=
  if s.crashed then (s, .err "dead") else
  match op with
  | .build n c => build s n c
  | .parse b => parse s b
  | .verify h c => if h < s.nobj then verify s h c else (s, .err "bad-handle")
  | .accept h => if h < s.nobj then accept s h else (s, .err "bad-handle")
  | .reject h => if h < s.nobj then reject s h else (s, .err "bad-handle")
  | .pref id => ({ s with preferred := id }, .ok)
  | .get id => get s id
  | .getH ht => getH s ht
  | .last => (s, .id (s.obj s.lastAccepted).blk.id)
  | .deq => deq s
  | .fin => fin s
  | .start b => start s b
  | .finish b st => finish s b st
  | .health => (s, health s)
  | .ciLast => (s, ciLast s)
  | .ciPref => (s, ciPref s)


/-! ## The consensus engine's side: what it tracks and which calls it may make (`EngineOK`) -/

structure Eng where
  /-- objects whose `Verify` returned nil and that are not yet decided -/
  processing : List Nat := []
  /-- the engine's last accepted block -/
  lastAcc : Blk := default
  /-- ids of decided blocks (accepted, rejected, initial, sync target) -/
  decided : List Nat := []
  /-- `Accept` decisions in order -/
  accepts : List Blk := []
  /-- `Reject` decisions in order -/
  rejects : List Blk := []
  /-- successful `Verify` decisions for which the VM was ready and the object not yet verified -/
  verifs : List Blk := []
  syncing : Bool := false
  synced : Bool := false
  /-- sync target and the blocks accepted since `StartStateSync` -/
  syncChain : List Blk := []

def Eng.init (g : Blk) (ready : Bool) : Eng :=
  { lastAcc := g, decided := [g.id], syncing := !ready, syncChain := if ready then [] else [g] }

def Eng.procIds (e : Eng) (s : State) : List Nat := e.processing.map fun p => (s.obj p).blk.id

def Eng.prefOK (e : Eng) (s : State) (id : Nat) : Bool :=
  id == e.lastAcc.id || (e.procIds s).contains id

/-- number of accepted blocks the accepter has not finished -/
def State.pending (s : State) : Nat := s.queue.length + (if s.inflight.isSome then 1 else 0)

/-- the calls a snowman engine may make in the current state (`EngineOK` = every call of the
sequence satisfies this) -/
def pre (s : State) (e : Eng) : Op → Bool
  | .build _ _ => e.prefOK s s.preferred
  | .verify h _ =>
    let b := (s.obj h).blk
    h < s.nobj && !e.processing.contains h && !e.decided.contains b.id && !(e.procIds s).contains b.id &&
    ((b.parent == e.lastAcc.id && b.height == e.lastAcc.height + 1) ||
      e.processing.any fun p => (s.obj p).blk.id == b.parent && b.height == (s.obj p).blk.height + 1)
  | .accept h =>
    let b := (s.obj h).blk
    e.processing.contains h && b.parent == e.lastAcc.id && b.height == e.lastAcc.height + 1 && !b.invalid &&
    (s.idx.window == 0 || s.pending + 1 < s.idx.window)
  | .reject h =>
    let b := (s.obj h).blk
    e.processing.contains h && b.parent != e.lastAcc.id && !(e.procIds s).contains b.parent
  | .pref id => e.prefOK s id
  | .start b =>
    !e.syncing && !e.synced && e.processing.isEmpty && s.queue.isEmpty && s.inflight.isNone && !b.invalid &&
    (b == e.lastAcc || b.height > e.lastAcc.height)
  | .finish b _ =>
    -- the target was accepted since sync started and target+1..tip is still within index retention
    !e.syncing || (e.syncChain.contains b && (s.idx.window == 0 || e.lastAcc.height - b.height ≤ s.idx.window))
  | _ => true

/-- the engine's bookkeeping after a call returned `r` (`s` is the VM state before the call) -/
def Eng.upd (e : Eng) (s : State) (op : Op) (r : Res) : Eng :=
  match op, r with
  | .verify h _, .ok =>
    { e with processing := e.processing ++ [h],
             verifs := if s.ready && !(s.obj h).verified then e.verifs ++ [(s.obj h).blk] else e.verifs }
  | .accept h, .ok =>
    let b := (s.obj h).blk
    { e with processing := e.processing.erase h, lastAcc := b, decided := e.decided ++ [b.id],
             accepts := e.accepts ++ [b],
             syncChain := if e.syncing then e.syncChain ++ [b] else e.syncChain }
  | .reject h, .ok =>
    let b := (s.obj h).blk
    { e with processing := e.processing.erase h, decided := e.decided ++ [b.id], rejects := e.rejects ++ [b] }
  | .start b, .ok =>
    { e with syncing := true, lastAcc := b, decided := e.decided ++ [b.id], syncChain := [b] }
  | .finish _ _, .ok => { e with syncing := false, synced := true }
  | _, _ => e

/-- VM and engine side by side -/
structure Sys where
  s : State
  e : Eng

def Sys.init (cacheCap parsedCap window : Nat) (g : Blk) (ready : Bool) : Sys :=
  ⟨HyperModel.Snow.init cacheCap parsedCap window g ready, Eng.init g ready⟩

def Sys.step (y : Sys) (op : Op) : Sys :=
  let (s', r) := HyperModel.Snow.step y.s op
  ⟨s', y.e.upd y.s op r⟩

/-- `EngineOK` for a call sequence from a given system state -/
def engineOK : Sys → List Op → Bool
  | _, [] => true
  | y, op :: rest => pre y.s y.e op && engineOK (y.step op) rest

def Sys.run (y : Sys) (ops : List Op) : Sys := ops.foldl Sys.step y

end HyperModel.Snow
