import HyperModel.Model.BlockExec
/-
Model of `chain/builder.go: BuildBlock` and of block verification (`chain/processor.go: Execute`)
for property C02. Core Lean only.

The builder's executor tasks are sequentialised in the order in which they take `blockLock`
(= the order of `blockTransactions`); the schedule is a parameter (`sched`) over which the theorem
quantifies. What is builder-only is explicit: the `IsRepeat` skip, the size cap with restore of the
rest of the batch, the PreExecute-failure drop, Consume *after* execution with skip / stop-at-target,
the restore list, the stream batches, and the metadata view over a *fake* parent storage made from
the parent header. The verifier is `VerifyExpiryReplayProtection` (no tx of an ancestor inside the
validity window, no tx twice in the block) + C01's `execSeq` + `createBlockContext` +
`writeBlockContext`.

Schedule: `sched` maps the txs handed to the executor in one batch to the order in which their
closures took `blockLock`, each with a flag "the executor skipped the closure" (`e.err != nil` when
the task was dequeued). A closure that is *not* skipped runs to the end even if another task has set
`stop` in the meantime (a real in-flight task does). The theorems quantify over all such schedules,
including ones the executor can never produce (e.g. skipping without an error).
-/
namespace HyperModel.Builder
open HyperModel.BlockExec

structure BCtx where
  parent : Store
  /-- unit prices of `parentFeeManager.ComputeNext(nextTime, r)` (same call on both sides; C13) -/
  prices : Dims
  maxUnits : Dims
  /-- `r.GetWindowTargetUnits()` -/
  targetUnits : Dims
  /-- `config.TargetTxsSize` -/
  targetTxsSize : Nat
  minBlockGap : Nat
  minEmptyBlockGap : Nat
  /-- parent *header* (`parent.Hght`, `parent.Tmstmp`) and `parentFeeManager.Bytes()` -/
  parentHeight : Nat
  parentTs : Nat
  parentFee : Val
  /-- `time.Now().UnixMilli()` -/
  now : Nat
  /-- metadata keys -/
  hk : Key
  tk : Key
  fk : Key
  /-- `feeManager.Bytes()` as a function of (prices, consumed, timestamp) -/
  feeEnc : Dims → Dims → Nat → Val
  /-- tx ids contained in an ancestor block inside the validity window: what `IsRepeat` marks
  and what `VerifyExpiryReplayProtection` rejects -/
  seen : Nat → Bool

def BCtx.exec (c : BCtx) (txs : List Tx) : Ctx :=
  { parent := c.parent, prices := c.prices, maxUnits := c.maxUnits, txs := txs }

structure BState where
  diff : Diff
  consumed : Dims
  block : List Tx
  results : List Result
  restorable : List Tx
  /-- `stop = true` / `errBlockFull` -/
  stop : Bool
  /-- an executor task returned another error: `BuildBlock` fails -/
  failed : Bool

def BState.init (c : BCtx) : BState :=
  { diff := emptyDiff, consumed := zeros c.maxUnits, block := [], results := [], restorable := [],
    stop := false, failed := false }

/-- main goroutine over one streamed batch: size cap (restore the rest of the batch), duplicate skip,
drop of a tx whose `StateKeys` returns an error ("should not happen": checked at admission).
Returns the txs handed to the executor and the restored tail. -/
def admitBatch (c : BCtx) : Nat → List Tx → List Tx × List Tx
  | _, [] => ([], [])
  | size, m :: rest =>
    let size' := size + m.size
    if size' > c.targetTxsSize then ([], m :: rest)
    else
      let r := admitBatch c size' rest
      if c.seen m.id then r else if !m.keysOk then r else (m :: r.1, r.2)

/-- one executor task of the builder (closure of `e.Run` in `BuildBlock`) -/
def procTx (c : BCtx) (s : BState) (x : Tx × Bool) : BState :=
  let t := x.1
  if x.2 then
    -- `e.err != nil`: the closure is skipped, the tx stays in `pending` and is restored
    { s with restorable := s.restorable ++ [t] }
  else
    match runTx (c.exec []) t s.diff with
    | .abort .pre => s                                   -- PreExecute failed: dropped
    | .abort .exec => { s with failed := true, restorable := s.restorable ++ [t] }
    | .ok ls =>
      match failDim s.consumed t.units c.maxUnits with
      | some d =>
        let s' := { s with restorable := s.restorable ++ [t] }
        if s.consumed.getD d 0 ≥ c.targetUnits.getD d 0 then { s' with stop := true } else s'
      | none =>
        { s with diff := merge s.diff ls.pend, consumed := addDims s.consumed t.units,
                 block := s.block ++ [t], results := s.results ++ [mkResult t ls] }

/-- the streaming loop; `sched` is the order in which the executor runs the admitted txs -/
def buildLoop (c : BCtx) (sched : List Tx → List (Tx × Bool)) : BState → List (List Tx) → BState
  | s, [] => s
  | s, b :: rest =>
    if s.stop || s.failed then s
    else
      let a := admitBatch c 0 b
      let s1 := (sched a.1).foldl (procTx c) { s with restorable := s.restorable ++ a.2 }
      buildLoop c sched s1 rest

def metaScopeB (c : BCtx) : Key → Perm :=
  fun k => if k = c.hk ∨ k = c.tk ∨ k = c.fk then pWrite else 0

/-- the builder's metadata view reads the parent *header* instead of the parent state -/
def fakeStore (c : BCtx) : Store :=
  fun k => if k = c.hk then some c.parentHeight else if k = c.tk then some c.parentTs
    else if k = c.fk then some c.parentFee else none

/-- three `tsv.Insert`s and `tsv.Commit()` -/
def writeMeta (pf : Key → Perm) (store : Store) (c : BCtx) (d : Diff) (h t f : Val) : Option Diff :=
  let base := baseGet store d
  match vInsert pf base emptyDiff c.hk h with
  | none => none
  | some p1 =>
    match vInsert pf base p1 c.tk t with
    | none => none
    | some p2 =>
      match vInsert pf base p2 c.fk f with
      | none => none
      | some p3 => some (merge d p3)

structure Built where
  txs : List Tx
  height : Nat
  ts : Nat
  diff : Diff
  results : List Result
  consumed : Dims
  restorable : List Tx

def build (c : BCtx) (sched : List Tx → List (Tx × Bool)) (batches : List (List Tx)) : Option Built :=
  if c.now < c.parentTs + c.minBlockGap then none
  else
    let s := buildLoop c sched (BState.init c) batches
    if s.failed then none
    else if s.block.isEmpty && c.now < c.parentTs + c.minEmptyBlockGap then none
    else
      match writeMeta (metaScopeB c) (fakeStore c) c s.diff (c.parentHeight + 1) c.now
          (c.feeEnc c.prices s.consumed c.now) with
      | none => none
      | some d =>
        some { txs := s.block, height := c.parentHeight + 1, ts := c.now, diff := d,
               results := s.results, consumed := s.consumed, restorable := s.restorable }

structure Verified where
  post : Store
  results : List Result
  consumed : Dims

/-- `VerifyExpiryReplayProtection`: no tx of the block is in an ancestor inside the validity
window, and no tx id occurs twice in the block -/
def replayFree (c : BCtx) (txs : List Tx) : Bool :=
  !txs.any (fun t => c.seen t.id) && decide ((txs.map (·.id)).Nodup)

/-- `Processor.Execute` on the same parent view: `createBlockContext` (parent *state*),
replay protection, `executeTxs`, `writeBlockContext` through a CompletePermissions view over
empty storage -/
def verify (c : BCtx) (b : Built) : Option Verified :=
  match c.parent c.hk, c.parent c.tk with
  | some ph, some pt =>
    if b.height ≠ ph + 1 then none
    else if !replayFree c b.txs then none
    -- executeTxs: `tx.StateKeys` error → `f.Stop(); e.Stop(); return err`
    else if b.txs.any (fun t => !t.keysOk) then none
    else if b.ts < pt + c.minBlockGap then none
    else if b.txs.isEmpty && b.ts < pt + c.minEmptyBlockGap then none
    else
      match execSeq (c.exec b.txs) with
      | none => none
      | some (d, rs, u) =>
        match writeMeta (fun _ => pAll) (fun _ => none) c d b.height b.ts (c.feeEnc c.prices u b.ts) with
        | none => none
        | some d' => some { post := applyDiff c.parent d', results := rs, consumed := u }
  | _, _ => none

end HyperModel.Builder
