import HyperModel.Model.EHeap
/-!
# Model of `internal/mempool/mempool.go` (`Mempool[T]`), with `internal/list/list.go`

Core Lean only. Every exported method of `Mempool` runs under `m.mu` for its whole body, so
each method is one atomic step and "concurrent prepare/stream/finish calls" are exactly the
op sequences of this model. The only blocking behaviour is `StartStreaming` while
`streamLock` is held (it then blocks *holding `m.mu`*, freezing the mempool): a guarded step.
`FinishStreaming` while `streamLock` is not held is a Go fatal error
("sync: unlock of unlocked mutex"): also a guarded step.

* `queue *list.List[T]` — the doubly linked list is modelled by its content `List Item` in
  list order; `PushBack`/`PushFront`/`First`/`Remove(elem)`. The expiry heap stores
  `*list.Element` pointers; the model's heap stores the element's value, and
  `queue.Remove(elem)` removes the queue entry with the element's ID (element identity = ID as
  long as the queue holds no two items with one ID, which is theorem `no_dup_ids`; `Remove` of
  an element that is no longer in the list is a no-op in Go (`e.list == l`) and here).
* `owned map[codec.Address]int` — `Sponsor → Nat`, an absent key reads 0; `removeFromOwned`
  (absent: nothing; 1: delete; else decrement) is truncated subtraction of 1.
* `streamedItems set.Set[ids.ID]` — `Option (List ID)` (`none` = nil map). `set.Add` on a nil
  set allocates it, so `Stream`/`PrepareStream` outside `StartStreaming` create the set.
* `pendingSize int` — `Int` (`Remove` subtracts the size of the *passed* item).
* limits are `Nat` (`New` panics for a negative `maxSize`).
* `Top`'s callback `f` is a parameter: the list of its answers `(cont, restore, err)` in call
  order; when the list is exhausted `f` answers `(false, false, nil)`. `targetDuration` is a
  parameter of the environment (wall clock): modelled as never elapsing (the harness passes an
  hour).
-/
namespace HyperModel.Mempool
open HyperModel.Heap HyperModel.EHeap

abbrev Sponsor := Nat

/-- what the mempool reads of a `T`: `GetID`, `GetSponsor`, `Size`, `GetExpiry` -/
structure Item where
  id : ID
  sponsor : Sponsor
  size : Nat
  expiry : Int
  deriving Repr, BEq, DecidableEq, Inhabited

instance : ExpItem Item := ⟨Item.id, Item.expiry⟩

structure State where
  maxSize : Nat
  maxSponsor : Nat
  pendingSize : Int
  queue : List Item
  eh : EHeap Item
  owned : Sponsor → Nat
  /-- `streamLock` is held -/
  streamLocked : Bool
  streamed : Option (List ID)
  nextStream : List Item
  nextStreamFetched : Bool

/-- `mempool.New(tracer, maxSize, maxSponsorSize)` -/
def State.init (maxSize maxSponsor : Nat) : State :=
  { maxSize, maxSponsor, pendingSize := 0, queue := [], eh := EHeap.new, owned := fun _ => 0,
    streamLocked := false, streamed := none, nextStream := [], nextStreamFetched := false }

/-- `list.List.Remove(elem)` for the element holding the item with this ID -/
def qRemove (q : List Item) (id : ID) : List Item := q.eraseP (fun x => x.id == id)

/-- `removeFromOwned(item)` -/
def removeFromOwned (owned : Sponsor → Nat) (s : Sponsor) : Sponsor → Nat :=
  fun j => if j = s then owned s - 1 else owned j

/-- `m.streamedItems != nil && m.streamedItems.Contains(itemID)` -/
def streamedHas (s : Option (List ID)) (id : ID) : Bool :=
  match s with
  | some l => l.contains id
  | none => false

/-- one iteration of the loop in `Mempool.add(items, front)` -/
def State.add1 (m : State) (front : Bool) (item : Item) : State :=
  if streamedHas m.streamed item.id then m
  else if m.eh.has item.id then m
  else if m.owned item.sponsor = m.maxSponsor then m
  else if m.queue.length = m.maxSize then m
  else
    { m with
      queue := if front then item :: m.queue else m.queue ++ [item],
      eh := m.eh.add item,
      owned := fun j => if j = item.sponsor then m.owned item.sponsor + 1 else m.owned j,
      pendingSize := m.pendingSize + item.size }

/-- `Mempool.add(items, front)` -/
def State.addAll (m : State) (front : Bool) (items : List Item) : State :=
  items.foldl (fun m it => m.add1 front it) m

/-- `Mempool.PeekNext` -/
def State.peekNext (m : State) : Option Item := m.queue.head?

/-- `Mempool.popNext` -/
def State.popNext (m : State) : State × Option Item :=
  match m.queue with
  | [] => (m, none)
  | v :: rest =>
    ({ m with
       queue := rest,
       eh := (m.eh.remove v.id).1,
       owned := removeFromOwned m.owned v.sponsor,
       pendingSize := m.pendingSize - v.size }, some v)

/-- one iteration of the loop in `Mempool.Remove(items)`. Owned count and size are taken from
the *passed* item, the queue element from the heap. -/
def State.remove1 (m : State) (item : Item) : State :=
  match m.eh.remove item.id with
  | (_, none) => m
  | (eh, some elem) =>
    { m with
      eh := eh,
      queue := qRemove m.queue elem.id,
      owned := removeFromOwned m.owned item.sponsor,
      pendingSize := m.pendingSize - item.size }

/-- `Mempool.Remove(items)` -/
def State.remove (m : State) (items : List Item) : State := items.foldl State.remove1 m

/-- `Mempool.SetMinTimestamp(t)` -/
def State.setMinTimestamp (m : State) (t : Int) : State × List Item :=
  let (eh, removedElems) := m.eh.setMin t
  let m' := removedElems.foldl (fun (m : State) (v : Item) =>
      { m with
        queue := qRemove m.queue v.id,
        owned := removeFromOwned m.owned v.sponsor,
        pendingSize := m.pendingSize - v.size }) { m with eh := eh }
  (m', removedElems)

/-- answers of `Top`'s callback -/
structure Answer where
  cont : Bool
  restore : Bool
  err : Bool
  deriving Repr, BEq, DecidableEq

/-- loop of `Mempool.Top`: returns state, visited items, restorable items, error flag.
Fuel = `eh.Len()` at entry (each iteration pops one item). -/
def State.topLoop : Nat → State → List Answer → List Item → List Item → State × List Item × List Item × Bool
  | 0, m, _, visited, restorable => (m, visited, restorable, false)
  | fuel + 1, m, answers, visited, restorable =>
    if m.eh.len = 0 then (m, visited, restorable, false)
    else
      match m.popNext with
      | (m1, none) =>
        -- unreachable (queue and heap hold the same items); Go would call f on a zero value
        (m1, visited, restorable, false)
      | (m1, some next) =>
        let a := answers.headD ⟨false, false, false⟩
        let restorable := if a.restore then restorable ++ [next] else restorable
        if !a.cont || a.err then (m1, visited ++ [next], restorable, a.err)
        else State.topLoop fuel m1 answers.tail (visited ++ [next]) restorable

/-- `Mempool.Top(ctx, targetDuration, f)`; output: items `f` was called on, and whether an
error was returned. -/
def State.top (m : State) (answers : List Answer) : State × List Item × Bool :=
  let (m1, visited, restorable, err) := State.topLoop m.eh.len m answers [] []
  (m1.addAll true restorable, visited, err)

/-- `Mempool.StartStreaming`: `none` = blocks (streamLock held). -/
def State.startStreaming (m : State) : Option State :=
  if m.streamLocked then none
  else some { m with streamLocked := true, streamed := some [] }

/-- `set.Add(id)` on `streamedItems` (allocates a nil set) -/
def streamedAdd (s : Option (List ID)) (id : ID) : Option (List ID) :=
  match s with
  | none => some [id]
  | some l => if l.contains id then some l else some (l ++ [id])

/-- `Mempool.streamItems(count)` -/
def State.streamItems : Nat → State → List Item → State × List Item
  | 0, m, txs => (m, txs)
  | count + 1, m, txs =>
    match m.popNext with
    | (_, none) => (m, txs)
    | (m1, some item) =>
      State.streamItems count { m1 with streamed := streamedAdd m1.streamed item.id } (txs ++ [item])

/-- `Mempool.PrepareStream(count)` -/
def State.prepareStream (m : State) (count : Nat) : State :=
  let (m1, txs) := State.streamItems count m []
  { m1 with nextStream := txs, nextStreamFetched := true }

/-- `Mempool.Stream(count)` -/
def State.stream (m : State) (count : Nat) : State × List Item :=
  if m.nextStreamFetched then
    ({ m with nextStream := [], nextStreamFetched := false }, m.nextStream)
  else State.streamItems count m []

/-- `Mempool.FinishStreaming(restorable)`: `none` = fatal error (streamLock not held). -/
def State.finishStreaming (m : State) (restorable : List Item) : Option (State × Nat) :=
  if !m.streamLocked then none
  else
    let m1 := ({ m with streamed := none } : State).addAll true restorable
    let (m2, restored) :=
      if m1.nextStreamFetched then
        ({ (m1.addAll true m1.nextStream) with nextStream := [], nextStreamFetched := false },
          restorable.length + m1.nextStream.length)
      else (m1, restorable.length)
    some ({ m2 with streamLocked := false }, restored)

/-- `Mempool.Has` -/
def State.has (m : State) (id : ID) : Bool := m.eh.has id
/-- `Mempool.Len` -/
def State.len (m : State) : Nat := m.eh.len
/-- `Mempool.Size` -/
def State.size (m : State) : Int := m.pendingSize

/-- The operations of the op-sequence model. -/
inductive Op where
  | add (items : List Item)
  | remove (items : List Item)
  | setMin (t : Int)
  | popNext
  | peekNext
  | has (id : ID)
  | len
  | size
  | startStreaming
  | prepareStream (n : Nat)
  | stream (n : Nat)
  | finishStreaming (restorable : List Item)
  | top (answers : List Answer)
  deriving Repr

/-- Observable result of an operation. -/
inductive Out where
  | unit
  | items (l : List Item)
  | item (o : Option Item)
  | bool (b : Bool)
  | nat (n : Nat)
  | int (n : Int)
  | topOut (visited : List Item) (err : Bool)
  /-- the call does not return (`StartStreaming` while streaming) / crashes the process
  (`FinishStreaming` while not streaming); the state is left as it was -/
  | blocked
  deriving Repr, BEq, DecidableEq

def State.step (m : State) : Op → State × Out
  | .add items => (m.addAll false items, .unit)
  | .remove items => (m.remove items, .unit)
  | .setMin t => let r := m.setMinTimestamp t; (r.1, .items r.2)
  | .popNext => let r := m.popNext; (r.1, .item r.2)
  | .peekNext => (m, .item m.peekNext)
  | .has id => (m, .bool (m.has id))
  | .len => (m, .nat m.len)
  | .size => (m, .int m.size)
  | .startStreaming =>
    match m.startStreaming with
    | some m' => (m', .unit)
    | none => (m, .blocked)
  | .prepareStream n => (m.prepareStream n, .unit)
  | .stream n => let r := m.stream n; (r.1, .items r.2)
  | .finishStreaming restorable =>
    match m.finishStreaming restorable with
    | some (m', n) => (m', .nat n)
    | none => (m, .blocked)
  | .top answers => let r := m.top answers; (r.1, .topOut r.2.1 r.2.2)

/-- state after a whole op sequence -/
def State.run (m : State) (ops : List Op) : State := ops.foldl (fun m op => (m.step op).1) m

end HyperModel.Mempool
