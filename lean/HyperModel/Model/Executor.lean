/-!
# Model of `internal/executor/executor.go` (C08)

COARSE relation of the parallel executor. It merges several critical sections / atomic
operations of the code into one step each. These merges are a choice of granularity, NOT a
consequence of the code's locking, and no commutation (mover) argument is given for them;
the faithful relation, one step per critical section / atomic operation, is
`Model/ExecutorFine.lean`, over which the property's claims are proved again
(`Props/C08.lean`, theorems `…_fine`). What is merged here:

* `Run(keys, f)` is one step (`Step.run`) although it consists of a header, one region per key
  under the owner's lock `lt.l`, and the final counter adjustment, and other goroutines run
  in between.
* A worker's `<-e.executable` (:62) and `e.err.Load()` (:120) are one step (`Step.start` when
  no error is recorded, `Step.skip` otherwise).
* The end of a task body, the CAS on `e.err` (:125-126), the deregistrations from the readers
  sets of the tasks it read (each under that *other* task's lock, :96-100), the notification
  region under `t.l` (:104-113) and `outstanding.Done()` are one step (`Step.finish`, or the
  second half of `Step.skip`).
  The order in which `for _, bt := range t.blocked` visits the map is not determined in Go:
  the step carries the order (`order`) in which the newly executable tasks are sent to the
  channel; every permutation is enabled.
* `Stop` = CAS on `err`; `Wait` returns when `outstanding` is zero (the three operations of
  `Wait` — `outstanding.Wait()`, `close(executable)`, `workers.Wait()`, `err.Load()` — are one
  step; listed under assumptions).

State components mirror the fields of `Executor` / `task`; `log` is history (ghost) only.
Sets (`blocked`, `readers`) are characteristic functions, `reading` is a list.
`executed j` of the code is `status j ∈ {done, skipped}`.
-/
namespace HyperModel.Executor

/-- one entry of `state.Keys`; `read = (v == state.Read)` (any other permission byte takes
the exclusive branch of `Run`). -/
structure KeyReq where
  key : Nat
  read : Bool
deriving DecidableEq, Repr

inductive Status where
  | waiting   -- registered, dependencies > 0
  | queued    -- sent to `executable`
  | dequeued  -- received by a worker, `e.err.Load()` not done yet   (finest relation only)
  | running   -- body `t.f()` in progress
  | ending (ran : Bool)  -- body over (or skipped): deregistration / notification pending (finest relation only)
  | done      -- body ran, `t.executed = true`
  | skipped   -- dequeued after an error: body not run, `t.executed = true`
deriving DecidableEq, Repr

inductive Err where
  | task (i : Nat)   -- error returned by task i
  | stopped          -- ErrStopped
deriving DecidableEq, Repr

inductive Event where
  | start (j : Nat)
  | fin (j : Nat) (fail : Bool)
  | skip (j : Nat)
  | stop
deriving DecidableEq, Repr

structure State where
  workers : Nat
  /-- `e.tasks` -/
  n : Nat
  keys : Nat → List KeyReq
  status : Nat → Status
  /-- `t.dependencies` (signed, as in the code) -/
  deps : Nat → Int
  /-- `blocked d j` : `j ∈ d.blocked` -/
  blocked : Nat → Nat → Bool
  /-- `readers o r` : `r ∈ o.readers` -/
  readers : Nat → Nat → Bool
  /-- `t.reading` (ids) -/
  reading : Nat → List Nat
  /-- `e.nodes` -/
  nodes : Nat → Option Nat
  /-- `e.executable` (FIFO) -/
  queue : List Nat
  /-- `e.err` -/
  err : Option Err
  /-- value returned by `Wait`, once it returned -/
  waited : Option (Option Err)
  /-- history, newest first -/
  log : List Event

def init (workers : Nat) : State :=
  { workers, n := 0, keys := fun _ => [], status := fun _ => .waiting, deps := fun _ => 0,
    blocked := fun _ _ => false, readers := fun _ _ => false, reading := fun _ => [],
    nodes := fun _ => none, queue := [], err := none, waited := none, log := [] }

/-- `t.executed` -/
def executed (s : State) (j : Nat) : Bool :=
  s.status j == .done || s.status j == .skipped

/-- the body of the task is over (or will never run): it has returned, or the task was
skipped. In the coarse relation this coincides with `executed`. -/
def ended (s : State) (j : Nat) : Bool :=
  match s.status j with
  | .ending _ => true
  | .done => true
  | .skipped => true
  | _ => false

def ins (x : Nat) (l : List Nat) : List Nat := if x ∈ l then l else x :: l

/-- One iteration of `for k, v := range keys` in `Run` for the new task `t`;
`ds` is the local set `dependencies`. -/
def regKey (t : Nat) (acc : State × List Nat) (kr : KeyReq) : State × List Nat :=
  let s := acc.1
  let ds := acc.2
  match s.nodes kr.key with
  | none => ({ s with nodes := fun k => if k = kr.key then some t else s.nodes k }, ds)
  | some lt =>
    -- under lt.l
    let acc1 : State × List Nat :=
      if kr.read then
        ({ s with
            reading := fun x => if x = t then ins lt (s.reading t) else s.reading x
            readers := fun o r => if o = lt ∧ r = t then true else s.readers o r }, ds)
      else
        -- `for _, rt := range lt.readers { if rt.id == id {continue}; rt.blocked[id] = t; dependencies.Add(rt.id) }`
        let rs := (List.range s.n).filter (fun r => s.readers lt r && r != t)
        ({ s with
            blocked := fun d j => if j = t ∧ d ∈ rs then true else s.blocked d j
            nodes := fun k => if k = kr.key then some t else s.nodes k },
          rs.foldl (fun a r => ins r a) ds)
    let s1 := acc1.1
    -- `if !lt.executed { lt.blocked[id] = t; dependencies.Add(lt.id) }`
    if executed s1 lt then acc1
    else ({ s1 with blocked := fun d j => if j = t ∧ d = lt then true else s1.blocked d j },
          ins lt acc1.2)

/-- `Run(keys, f)`: the whole call (the counter is set to `maxDependencies` first and then
reduced by `maxDependencies - |dependencies|`; nothing can decrement it in between at this
granularity, so it ends at `|dependencies|`). -/
def register (s : State) (ks : List KeyReq) : State :=
  let t := s.n
  let s0 : State := { s with
    n := s.n + 1
    keys := fun x => if x = t then ks else s.keys x
    status := fun x => if x = t then .waiting else s.status x
    reading := fun x => if x = t then [] else s.reading x }
  let r := ks.foldl (regKey t) (s0, [])
  let s1 := r.1
  let d : Int := r.2.length
  if d > 0 then { s1 with deps := fun x => if x = t then d else s1.deps x }
  else { s1 with
          deps := fun x => if x = t then d else s1.deps x
          status := fun x => if x = t then .queued else s1.status x
          queue := s1.queue ++ [t] }

/-- tasks that the completion of `d` makes executable: `bt.dependencies.Add(-1) > 0` is false -/
def ready (s : State) (d : Nat) : List Nat :=
  (List.range s.n).filter (fun j => s.blocked d j && decide (s.deps j - 1 ≤ 0))

/-- deferred section of `runTask` for task `d`, which ends in status `st`. -/
def complete (s : State) (d : Nat) (st : Status) (order : List Nat) : State :=
  { s with
    readers := fun o r => if r = d ∧ o ∈ s.reading d then false else s.readers o r
    reading := fun x => if x = d then [] else s.reading x
    deps := fun j => if s.blocked d j then s.deps j - 1 else s.deps j
    status := fun j => if j = d then st
                       else if s.blocked d j && decide (s.deps j - 1 ≤ 0) then .queued
                       else s.status j
    queue := s.queue ++ order
    blocked := fun x j => if x = d then false else s.blocked x j }

inductive Step where
  | run (keys : List KeyReq)
  | start (j : Nat)
  | skip (j : Nat) (order : List Nat)
  | finish (j : Nat) (fail : Bool) (order : List Nat)
  | stop
  | wait
deriving DecidableEq, Repr

def numRunning (s : State) : Nat :=
  ((List.range s.n).filter (fun j => s.status j == .running)).length

/-- `order` is an arrangement (permutation) of `l` -/
def isArrangement (order l : List Nat) : Bool := order.isPerm l

def keysNodup : List KeyReq → Bool
  | [] => true
  | k :: ks => !(ks.any (·.key == k.key)) && keysNodup ks

def allExecuted (s : State) : Bool := (List.range s.n).all (executed s)

def isEnabled (s : State) (st : Step) : Bool :=
  s.waited.isNone &&
  match st with
  | .run ks => keysNodup ks           -- `state.Keys` is a map: key names are distinct
  | .start j => s.queue.head? == some j && decide (numRunning s < s.workers) && s.err.isNone
  | .skip j order =>
      s.queue.head? == some j && decide (numRunning s < s.workers) && s.err.isSome
        && isArrangement order (ready s j)
  | .finish j _ order => decide (j < s.n) && s.status j == .running && isArrangement order (ready s j)
  | .stop => true
  | .wait => allExecuted s

def cas (e : Option Err) (x : Err) : Option Err :=
  match e with
  | none => some x
  | some y => some y

def apply (s : State) : Step → State
  | .run ks => register s ks
  | .start j =>
      { s with queue := s.queue.tail
               status := fun x => if x = j then .running else s.status x
               log := .start j :: s.log }
  | .skip j order =>
      let s1 := { s with queue := s.queue.tail, log := .skip j :: s.log }
      complete s1 j .skipped order
  | .finish j fail order =>
      let s1 := { s with err := if fail then cas s.err (.task j) else s.err
                         log := .fin j fail :: s.log }
      complete s1 j .done order
  | .stop => { s with err := cas s.err .stopped, log := .stop :: s.log }
  | .wait => { s with waited := some s.err }

/-- canonical enabled internal steps (the `order` of a completion is the sorted one; every
other arrangement is enabled too, see `isEnabled`). Client steps `run`/`stop` are always
enabled before `Wait` returned and are not listed. -/
def enabled (s : State) : List Step :=
  if s.waited.isSome then [] else
  (match s.queue.head? with
    | some j =>
      if numRunning s < s.workers then
        (if s.err.isNone then [Step.start j] else [Step.skip j (ready s j)])
      else []
    | none => []) ++
  ((List.range s.n).filter (fun j => s.status j == .running)).flatMap
      (fun j => [Step.finish j false (ready s j), Step.finish j true (ready s j)]) ++
  (if allExecuted s then [Step.wait] else [])

inductive Reachable (w : Nat) : State → Prop where
  | init : Reachable w (init w)
  | step {s : State} (st : Step) : Reachable w s → isEnabled s st = true → Reachable w (apply s st)

/-- `i` and `j` share a key and at least one of them needs more than read access -/
def conflictKeys (a b : List KeyReq) : Bool :=
  a.any fun x => b.any fun y => x.key == y.key && (!x.read || !y.read)

end HyperModel.Executor
