/-
Wire rules of the canoto-generated codecs used by `chain/*.canoto.go` (canoto v0.15.0) and the
hand-written wrappers around them (`chain/transaction.go`, `chain/stateless_block.go`,
`chain/transaction_marshaller.go`, `chain/result.go`, `chain/executed_block.go`).
Properties C15 and C14.  Core Lean only (linked into the driver executables).

Layout:
* varints: `uvarint` = `binary.AppendUvarint`, `readUint64` = `canoto.ReadUint[uint64]`
  (`binary.Uvarint` + the padded-zero check), `readTag` = `canoto.ReadTag`;
* one flat canoto message: `decodeLoop` is the `for canoto.HasNext(&r)` loop of every generated
  `UnmarshalCanotoFrom` (tag, `field < minField`, `switch field`, wire type, field reader,
  `minField = field+1`), `encode` is `MarshalCanotoInto`. The `switch field` is the `Spec`
  argument; the per-kind field readers are `readField`;
* nested messages are kept as raw bytes by the flat layer and decoded by the typed layer
  afterwards (the generated code decodes them inline; accept/reject and values are the same,
  only the order in which errors are discovered differs, and errors are not distinguished here);
* typed layer: `Base`, `Tx` (SerializeTx + the registered action/auth parsers, which are
  *parameters*), `Block`/`StatelessBlock`, `Result`, `ExecutionResults`, `ExecutedBlock`,
  `BatchedTransactions`.
-/
namespace HyperModel.Canoto

abbrev Bytes := List UInt8

/-! ## varints -/

/-- `binary.AppendUvarint` (used by `canoto.AppendUint`). -/
def uvarint (n : Nat) : Bytes :=
  if n < 128 then [UInt8.ofNat n] else UInt8.ofNat (n % 128 + 128) :: uvarint (n / 128)
decreasing_by omega

/-- `canoto.SizeUint`: `(bits.Len64(v)+6)/7`, 1 for 0 — written as the equivalent recursion. -/
def sizeUint (n : Nat) : Nat :=
  if n < 128 then 1 else 1 + sizeUint (n / 128)
decreasing_by omega

/-- `binary.Uvarint` followed by the checks of `canoto.ReadUint[uint64]`; `i` is the index of
the byte being read.  `none` = `io.ErrUnexpectedEOF` (buffer ends inside the varint),
`ErrOverflow` (more than 10 bytes, or 10th byte > 1) or `ErrPaddedZeroes` (more than one byte
and the last byte is 0). -/
def readUvarintAux : Nat → Bytes → Option (Nat × Bytes)
  | _, [] => none
  | i, b :: rest =>
    if i = 10 then none
    else if b.toNat < 128 then
      if i = 9 ∧ b.toNat > 1 then none
      else if i > 0 ∧ b.toNat = 0 then none
      else some (b.toNat, rest)
    else
      match readUvarintAux (i + 1) rest with
      | none => none
      | some (x, r) => some (b.toNat % 128 + 128 * x, r)

/-- `canoto.ReadUint[uint64]` -/
def readUint64 (b : Bytes) : Option (Nat × Bytes) := readUvarintAux 0 b

/-- wire types: Varint = 0, I64 = 1, Len = 2, I32 = 5 (`WireType.IsValid`) -/
def validWire (w : Nat) : Bool := w == 0 || w == 1 || w == 2 || w == 5

/-- `canoto.ReadTag`: `ReadUint[uint32]` (overflow above 2^32-1), wire type = low 3 bits. -/
def readTag (b : Bytes) : Option (Nat × Nat × Bytes) :=
  match readUint64 b with
  | none => none
  | some (v, rest) =>
    if v ≥ 2 ^ 32 then none
    else if !validWire (v % 8) then none
    else some (v / 8, v % 8, rest)

/-- A one-byte tag `canoto.Tag(f, wt)`; every tag of `chain/*.canoto.go` is one byte
(field numbers ≤ 6). -/
def tagByte (f wt : Nat) : UInt8 := UInt8.ofNat (f * 8 + wt)

/-! ## field kinds -/

/-- The field kinds that occur in `chain/*.canoto.go`, by their wire behaviour.
* `uvar`: `canoto:"int,…"`/`"uint,…"` — a varint (zig-zag is applied by the typed layer);
* `bool`; `fixed64`: `fint64` (8 bytes little endian, kept as the 8 bytes);
* `bytes`: `bytes`, and `value`/`pointer` sub-messages (length-delimited, empty rejected);
* `fixedBytes n`: `fixed bytes` (`ids.ID`, n = 32) and `fixed repeated fint64`
  (`fees.Dimensions`, packed, n = 40): length must be exactly `n`, all-zero rejected;
* `repBytes`: `repeated bytes`, `repeated pointer`, `repeated field`: consecutive entries with
  the same tag, empty entries allowed. -/
inductive Kind
  | uvar | bool | fixed64 | bytes | fixedBytes (n : Nat) | repBytes
  deriving DecidableEq, Repr

inductive FVal
  | num (n : Nat) | bytes (b : Bytes) | list (l : List Bytes)
  deriving DecidableEq, Repr

def Kind.wire : Kind → Nat
  | .uvar => 0 | .bool => 0 | .fixed64 => 1 | _ => 2

/-- `canoto.IsZero` on a byte array -/
def allZero (b : Bytes) : Bool := b.all (· == 0)

/-- `canoto.AppendBytes` -/
def lenPrefixed (b : Bytes) : Bytes := uvarint b.length ++ b

/-- `canoto.ReadBytes` -/
def readBytes (b : Bytes) : Option (Bytes × Bytes) :=
  match readUint64 b with
  | none => none
  | some (len, rest) => if len > rest.length then none else some (rest.take len, rest.drop len)

/-- The repeated-bytes reader (`case 2` of SerializeTx, `case 5` of Block, …): first entry, then
`canoto.CountBytes` (entries while `HasPrefix(r.B, tag)`), then one `ReadBytes` per entry.
Counting and reading perform the same checks, so they are merged into one recursion. -/
def readRep (tag : UInt8) : Nat → Bytes → Option (List Bytes × Bytes)
  | 0, _ => none
  | fuel + 1, b =>
    match readBytes b with
    | none => none
    | some (e, rest) =>
      match rest with
      | [] => some ([e], [])
      | t :: rest1 =>
        if t = tag then
          match readRep tag fuel rest1 with
          | none => none
          | some (es, r) => some (e :: es, r)
        else some ([e], t :: rest1)

/-- The body of one `case` of the generated `switch field`, after the wire-type check. -/
def readField (f : Nat) : Kind → Bytes → Option (FVal × Bytes)
  | .uvar, b =>
    match readUint64 b with
    | none => none
    | some (v, rest) => if v = 0 then none else some (.num v, rest)       -- ErrZeroValue
  | .bool, b =>
    match b with
    | [] => none                                                          -- ErrUnexpectedEOF
    | x :: rest =>
      if x.toNat > 1 then none                                            -- ErrInvalidBool
      else if x.toNat = 0 then none                                       -- ErrZeroValue
      else some (.num 1, rest)
  | .fixed64, b =>
    if b.length < 8 then none
    else if allZero (b.take 8) then none
    else some (.bytes (b.take 8), b.drop 8)
  | .bytes, b =>
    match readBytes b with
    | none => none
    | some (v, rest) => if v.isEmpty then none else some (.bytes v, rest)
  | .fixedBytes n, b =>
    match readUint64 b with
    | none => none
    | some (len, rest) =>
      if len ≠ n then none                                                -- ErrInvalidLength
      else if n > rest.length then none
      else if allZero (rest.take n) then none
      else some (.bytes (rest.take n), rest.drop n)
  | .repBytes, b =>
    match readRep (tagByte f 2) (b.length + 1) b with
    | none => none
    | some (l, r) => some (.list l, r)

/-- What `MarshalCanotoInto` appends for a non-zero field. -/
def encEntry (f : Nat) : Kind → FVal → Bytes
  | .uvar, .num n => tagByte f 0 :: uvarint n
  | .bool, .num _ => [tagByte f 0, 1]
  | .fixed64, .bytes b => tagByte f 1 :: b
  | .bytes, .bytes b => tagByte f 2 :: lenPrefixed b
  | .fixedBytes _, .bytes b => tagByte f 2 :: lenPrefixed b
  | .repBytes, .list l => l.flatMap fun e => tagByte f 2 :: lenPrefixed e
  | _, _ => []

/-- A value a field reader can produce: well-shaped, in range, and not the zero value. -/
def okVal : Kind → FVal → Bool
  | .uvar, .num n => decide (0 < n) && decide (n < 2 ^ 64)
  | .bool, .num n => n == 1
  | .fixed64, .bytes b => b.length == 8 && !allZero b
  | .bytes, .bytes b => !b.isEmpty && decide (b.length < 2 ^ 64)
  | .fixedBytes n, .bytes b => b.length == n && !allZero b && decide (n < 2 ^ 64)
  | .repBytes, .list l => !l.isEmpty && l.all fun e => decide (e.length < 2 ^ 64)
  | _, _ => false

/-! ## one flat message -/

/-- The `switch field` of a generated unmarshaller: field number ↦ kind. -/
abbrev Spec := Nat → Option Kind

/-- Decoded message: the fields present on the wire in wire order. -/
abbrev Msg := List (Nat × FVal)

/-- The `for canoto.HasNext(&r)` loop.  `fuel` bounds the number of iterations (each one
consumes at least the tag byte). -/
def decodeLoop (spec : Spec) : Nat → Nat → Bytes → Option Msg
  | _, _, [] => some []
  | 0, _, _ :: _ => none
  | fuel + 1, minField, b :: bs =>
    match readTag (b :: bs) with
    | none => none
    | some (field, wt, rest) =>
      if field < minField then none                        -- ErrInvalidFieldOrder
      else
        match spec field with
        | none => none                                     -- ErrUnknownField
        | some k =>
          if wt ≠ k.wire then none                         -- ErrUnexpectedWireType
          else
            match readField field k rest with
            | none => none
            | some (v, rest') =>
              match decodeLoop spec fuel (field + 1) rest' with
              | none => none
              | some m => some ((field, v) :: m)

def decode (spec : Spec) (b : Bytes) : Option Msg := decodeLoop spec b.length 0 b

def encode (spec : Spec) (m : Msg) : Bytes :=
  m.flatMap fun fv => match spec fv.1 with
    | some k => encEntry fv.1 k fv.2
    | none => []

/-- The messages `decode` can produce: strictly increasing known fields with `okVal` values. -/
def validMsg (spec : Spec) : Nat → Msg → Bool
  | _, [] => true
  | lo, (f, v) :: rest =>
    decide (lo ≤ f) && (match spec f with | some k => okVal k v | none => false) && validMsg spec (f + 1) rest

/-- every field number of the spec has a one-byte tag -/
def SpecOK (spec : Spec) : Prop := ∀ f k, spec f = some k → 1 ≤ f ∧ f < 16

/-! ### field access (absent = zero value) -/

def getNum (m : Msg) (f : Nat) : Nat := match m.lookup f with | some (.num n) => n | _ => 0
def getBytes (m : Msg) (f : Nat) : Bytes := match m.lookup f with | some (.bytes b) => b | _ => []
def getList (m : Msg) (f : Nat) : List Bytes := match m.lookup f with | some (.list l) => l | _ => []
def zeros (n : Nat) : Bytes := List.replicate n 0
/-- a fixed-size array field: absent = all zero -/
def getFixed (m : Msg) (f n : Nat) : Bytes := match m.lookup f with | some (.bytes b) => b | _ => zeros n

/-! ### building a message from a record (what `MarshalCanotoInto` does: zero fields omitted) -/

def optNum (f n : Nat) : Msg := if n = 0 then [] else [(f, .num n)]
def optBytes (f : Nat) (b : Bytes) : Msg := if b.isEmpty then [] else [(f, .bytes b)]
def optFixed (f : Nat) (b : Bytes) : Msg := if allZero b then [] else [(f, .bytes b)]
def optList (f : Nat) (l : List Bytes) : Msg := if l.isEmpty then [] else [(f, .list l)]

/-! ## specs of the chain messages (the `switch field` of each generated file) -/

/-- base.canoto.go: Timestamp `int,1`, ChainID `fixed bytes,2`, MaxFee `fint64,3` -/
def baseSpec : Spec | 1 => some .uvar | 2 => some (.fixedBytes 32) | 3 => some .fixed64 | _ => none
/-- transaction_codec.canoto.go: Base `value,1`, Actions `repeated bytes,2`, Auth `bytes,3` -/
def txSpec : Spec | 1 => some .bytes | 2 => some .repBytes | 3 => some .bytes | _ => none
/-- stateless_block.canoto.go: Prnt, Tmstmp, Hght, BlockContext `pointer,4`, Txs `repeated pointer,5`, StateRoot -/
def blockSpec : Spec
  | 1 => some (.fixedBytes 32) | 2 => some .fixed64 | 3 => some .fixed64
  | 4 => some .bytes | 5 => some .repBytes | 6 => some (.fixedBytes 32) | _ => none
/-- avalanchego snow/engine/snowman/block Context: PChainHeight `uint,1` -/
def ctxSpec : Spec | 1 => some .uvar | _ => none
/-- result.canoto.go Result: Success `bool,1`, Error `bytes,2`, Outputs `repeated bytes,3`,
Units `fixed repeated fint64,4` (5 × 8 bytes packed), Fee `fint64,5` -/
def resultSpec : Spec
  | 1 => some .bool | 2 => some .bytes | 3 => some .repBytes | 4 => some (.fixedBytes 40)
  | 5 => some .fixed64 | _ => none
/-- result.canoto.go ExecutionResults: Results `repeated field,1`, UnitPrices, UnitsConsumed -/
def execResultsSpec : Spec
  | 1 => some .repBytes | 2 => some (.fixedBytes 40) | 3 => some (.fixedBytes 40) | _ => none
/-- executed_block.canoto.go: Block `pointer,1`, ExecutionResults `pointer,2` -/
def executedBlockSpec : Spec | 1 => some .bytes | 2 => some .bytes | _ => none
/-- transaction_marshaller.canoto.go BatchedTransactions: Transactions `repeated pointer,1` -/
def batchSpec : Spec | 1 => some .repBytes | _ => none

/-! ## typed layer -/

/-- A registered parser (`codec.TypeParser.Unmarshal` + the type's `Bytes()`), a parameter. -/
structure Parser (α : Type) where
  parse : Bytes → Option α
  bytes : α → Bytes

/-- `AppendInt`: zig-zag -/
def zigzag (i : Int) : Nat := if i ≥ 0 then (2 * i).toNat else (2 * (-i - 1) + 1).toNat
/-- `ReadInt[int64]` after the varint -/
def unzigzag (n : Nat) : Int := if n % 2 = 0 then (n / 2 : Nat) else -((n / 2 : Nat) : Int) - 1

structure Base where
  timestamp : Int
  chainID : Bytes      -- [32]byte
  maxFee : Bytes       -- uint64 as its 8 little-endian bytes
  deriving DecidableEq, Repr

def Base.toMsg (b : Base) : Msg :=
  optNum 1 (zigzag b.timestamp) ++ optFixed 2 b.chainID ++ optFixed 3 b.maxFee

/-- `(*Base).MarshalCanoto` -/
def encodeBase (b : Base) : Bytes := encode baseSpec b.toMsg

/-- `(*Base).UnmarshalCanotoFrom` -/
def decodeBase (b : Bytes) : Option Base :=
  match decode baseSpec b with
  | none => none
  | some m => some { timestamp := unzigzag (getNum m 1), chainID := getFixed m 2 32, maxFee := getFixed m 3 8 }

/-- The decoded transaction together with the cached fields `UnmarshalCanotoFrom` sets. -/
structure Tx (A Au : Type) where
  base : Base
  actions : List A
  auth : Au
  deriving Repr

/-- `SerializeTx{Base, Actions, Auth}` as a message: Base omitted when its encoding is empty. -/
def serializeTxMsg (baseBytes : Bytes) (actions : List Bytes) (auth : Bytes) : Msg :=
  optBytes 1 baseBytes ++ optList 2 actions ++ optBytes 3 auth

/-- `NewTransaction(base, actions, auth).Bytes()` -/
def encodeTx {A Au} (pa : Parser A) (pu : Parser Au) (t : Tx A Au) : Bytes :=
  encode txSpec (serializeTxMsg (encodeBase t.base) (t.actions.map pa.bytes) (pu.bytes t.auth))

/-- `NewTxData(base, actions).UnsignedBytes()`: SerializeTx without the Auth field -/
def encodeUnsigned {A Au} (pa : Parser A) (t : Tx A Au) : Bytes :=
  encode txSpec (serializeTxMsg (encodeBase t.base) (t.actions.map pa.bytes) [])

def mapM? {α β} (f : α → Option β) : List α → Option (List β)
  | [] => some []
  | a :: as => match f a with
    | none => none
    | some b => match mapM? f as with
      | none => none
      | some bs => some (b :: bs)

/-- `(*Transaction).UnmarshalCanotoFrom`: SerializeTx, then `ParseAction` per entry, then
`ParseAuth` (also called on an empty auth). -/
def decodeTx {A Au} (pa : Parser A) (pu : Parser Au) (b : Bytes) : Option (Tx A Au) :=
  match decode txSpec b with
  | none => none
  | some m =>
    match decodeBase (getBytes m 1) with
    | none => none
    | some base =>
      match mapM? pa.parse (getList m 2) with
      | none => none
      | some actions =>
        match pu.parse (getBytes m 3) with
        | none => none
        | some auth => some { base, actions, auth }

/-- The `unsignedBytes` computed by `UnmarshalCanotoFrom`: the input minus the auth suffix
(`len(tag) + SizeBytes(auth)`), or the whole input when the auth field is empty. -/
def unsignedSlice (b : Bytes) (authBytes : Bytes) : Bytes :=
  if authBytes.isEmpty then b
  else b.take (b.length - (1 + (sizeUint authBytes.length + authBytes.length)))

/-- raw auth bytes of an accepted transaction (`serializeTx.Auth`) -/
def rawAuth (b : Bytes) : Bytes := match decode txSpec b with | some m => getBytes m 3 | none => []

/-! ### blocks, batches, results -/

/-- `BatchedTransactionSerializer.Unmarshal` / the Txs field of a block: every entry must be a
non-nil (non-empty) transaction. -/
def decodeTxs {A Au} (pa : Parser A) (pu : Parser Au) (es : List Bytes) : Option (List (Tx A Au)) :=
  mapM? (fun e => if e.isEmpty then none else decodeTx pa pu e) es

structure Block (A Au : Type) where
  prnt : Bytes          -- [32]byte
  tmstmp : Bytes        -- int64, 8 LE bytes
  hght : Bytes          -- uint64, 8 LE bytes
  pChainHeight : Nat    -- BlockContext (nil and &Context{0} both encode as absent): 0 = absent
  txs : List (Tx A Au)
  stateRoot : Bytes
  deriving Repr

def blockMsg (prnt tmstmp hght ctx : Bytes) (txs : List Bytes) (root : Bytes) : Msg :=
  optFixed 1 prnt ++ optFixed 2 tmstmp ++ optFixed 3 hght ++ optBytes 4 ctx ++ optList 5 txs ++ optFixed 6 root

def encodeCtx (h : Nat) : Bytes := encode ctxSpec (optNum 1 h)

/-- `NewStatelessBlock(…).GetBytes()` -/
def encodeBlock {A Au} (pa : Parser A) (pu : Parser Au) (blk : Block A Au) : Bytes :=
  encode blockSpec (blockMsg blk.prnt blk.tmstmp blk.hght (encodeCtx blk.pChainHeight)
    (blk.txs.map (encodeTx pa pu)) blk.stateRoot)

/-- `UnmarshalBlock` = `(*StatelessBlock).UnmarshalCanotoFrom` -/
def decodeBlock {A Au} (pa : Parser A) (pu : Parser Au) (b : Bytes) : Option (Block A Au) :=
  match decode blockSpec b with
  | none => none
  | some m =>
    match decode ctxSpec (getBytes m 4) with
    | none => none
    | some c =>
      match decodeTxs pa pu (getList m 5) with
      | none => none
      | some txs => some { prnt := getFixed m 1 32, tmstmp := getFixed m 2 8, hght := getFixed m 3 8,
                           pChainHeight := getNum c 1, txs, stateRoot := getFixed m 6 32 }

/-- `BatchedTransactionSerializer.Marshal` -/
def encodeBatch {A Au} (pa : Parser A) (pu : Parser Au) (txs : List (Tx A Au)) : Bytes :=
  encode batchSpec (optList 1 (txs.map (encodeTx pa pu)))

/-- `BatchedTransactionSerializer.Unmarshal` -/
def decodeBatch {A Au} (pa : Parser A) (pu : Parser Au) (b : Bytes) : Option (List (Tx A Au)) :=
  match decode batchSpec b with
  | none => none
  | some m => decodeTxs pa pu (getList m 1)

structure Result where
  success : Bool
  error : Bytes
  outputs : List Bytes
  units : Bytes        -- fees.Dimensions: 5 × uint64 LE = 40 bytes
  fee : Bytes          -- uint64, 8 LE bytes
  deriving DecidableEq, Repr

def Result.toMsg (r : Result) : Msg :=
  optNum 1 (if r.success then 1 else 0) ++ optBytes 2 r.error ++ optList 3 r.outputs ++
    optFixed 4 r.units ++ optFixed 5 r.fee

/-- `(*Result).Marshal` -/
def encodeResult (r : Result) : Bytes := encode resultSpec r.toMsg

/-- `UnmarshalResult` -/
def decodeResult (b : Bytes) : Option Result :=
  match decode resultSpec b with
  | none => none
  | some m => some { success := getNum m 1 == 1, error := getBytes m 2, outputs := getList m 3,
                     units := getFixed m 4 40, fee := getFixed m 5 8 }

structure ExecResults where
  results : List Result     -- a nil entry and an all-zero Result both encode as an empty entry
  unitPrices : Bytes
  unitsConsumed : Bytes
  deriving DecidableEq, Repr

/-- `(*ExecutionResults).Marshal` -/
def encodeExecResults (e : ExecResults) : Bytes :=
  encode execResultsSpec (optList 1 (e.results.map encodeResult) ++ optFixed 2 e.unitPrices ++ optFixed 3 e.unitsConsumed)

/-- `ParseExecutionResults` -/
def decodeExecResults (b : Bytes) : Option ExecResults :=
  match decode execResultsSpec b with
  | none => none
  | some m =>
    match mapM? decodeResult (getList m 1) with
    | none => none
    | some rs => some { results := rs, unitPrices := getFixed m 2 40, unitsConsumed := getFixed m 3 40 }

/-- `ExecutedBlock`: an absent (`nil`/empty) block or results pointer is `none`. -/
structure ExecutedBlock (A Au : Type) where
  block : Option (Block A Au)
  results : Option ExecResults
  deriving Repr

def optEnc {α} (enc : α → Bytes) : Option α → Bytes | none => [] | some a => enc a

/-- `(*ExecutedBlock).Marshal` -/
def encodeExecutedBlock {A Au} (pa : Parser A) (pu : Parser Au) (e : ExecutedBlock A Au) : Bytes :=
  encode executedBlockSpec (optBytes 1 (optEnc (encodeBlock pa pu) e.block) ++ optBytes 2 (optEnc encodeExecResults e.results))

def optDec {α} (dec : Bytes → Option α) (b : Bytes) : Option (Option α) :=
  if b.isEmpty then some none else match dec b with | none => none | some a => some (some a)

/-- `UnmarshalExecutedBlock` -/
def decodeExecutedBlock {A Au} (pa : Parser A) (pu : Parser Au) (b : Bytes) : Option (ExecutedBlock A Au) :=
  match decode executedBlockSpec b with
  | none => none
  | some m =>
    match optDec (decodeBlock pa pu) (getBytes m 1) with
    | none => none
    | some blk =>
      match optDec decodeExecResults (getBytes m 2) with
      | none => none
      | some rs => some { block := blk, results := rs }

end HyperModel.Canoto
