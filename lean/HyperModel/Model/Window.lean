/-
Model of `internal/window/window.go` (`Roll`, `Sum`, `Update`) — properties C13 (and C12).
Core Lean only.

A `window.Window` is `[WindowSize*8]byte` holding `WindowSize` big-endian `uint64` slots.
All accesses of the Go code are at multiples of 8 bytes, so the model works on the decoded
slots (`List Nat`, slot 0 first, read with `slot`, missing entries are 0); the byte encoding
is `Fees.wordsToBytes` (property `bytes_roundtrip`).
-/
namespace HyperModel.Window

/-- `window.WindowSize` -/
def windowSize : Nat := 10

def two64 : Nat := 2 ^ 64
/-- `consts.MaxUint64` -/
def maxU64 : Nat := 2 ^ 64 - 1

abbrev Window := List Nat

def slot (w : Window) (i : Nat) : Nat := w.getD i 0

/-- `[WindowSliceSize]byte{}` -/
def zeros : Window := List.replicate windowSize 0

/-- `Roll(w, roll)`: `res := zeroes; if roll > WindowSize {return res}; copy(res[:], w[roll*8:])`,
i.e. slot `i` of the result is slot `i+roll` of `w` while that exists, 0 behind. (The byte
offset `roll*8` wraps for huge `roll`, but it is only used when `roll ≤ WindowSize`.) -/
def roll (w : Window) (r : Nat) : Window :=
  if r > windowSize then zeros
  else (List.range windowSize).map fun i => if i + r < windowSize then slot w (i + r) else 0

/-- the loop of `Sum`: checked addition, `MaxUint64` is returned at the first overflow -/
def sumLoop : List Nat → Nat → Nat
  | [], s => s
  | x :: xs, s => if s + x < two64 then sumLoop xs (s + x) else maxU64

/-- `Sum(w)` -/
def sum (w : Window) : Nat := sumLoop ((List.range windowSize).map (slot w)) 0

/-- `Update(&w, start, unitsConsumed)` with `start = 8*i`: slot `i` becomes
`min(slot i + unitsConsumed, MaxUint64)` -/
def update (w : Window) (i : Nat) (v : Nat) : Window :=
  (List.range windowSize).map fun j =>
    if j = i then (if slot w i + v < two64 then slot w i + v else maxU64) else slot w j

end HyperModel.Window
