import HyperModel.Model.Keys
import HyperModel.Model.Perm
/-!
Model of `state/tstate/tstate.go` (`TState`) and `state/tstate/tstate_view.go` (`TStateView`)
as they stand in /repo after the repair of `Remove` (commit "fix: tstate view Remove must
record the delete of a key re-created in the same view"). Properties C04, C05, C40.
Core Lean only.

Representation choices (everything else is line by line):
* Go maps are total functions `Key → Option α` (`none` = key not in the map).
* `maybe.Maybe[[]byte]` is `Option Val`: `some v` = `maybe.Some(v)`, `none` = `maybe.Nothing`.
* `ts.ops` (a slice appended at the end) is kept newest-first, so `ops[:restorePoint]` is
  `ops.drop (ops.length - restorePoint)` and `Rollback`'s downward loop walks the list head first.
* `[]byte(nil)` and `[]byte{}` are both `[]`; the code only ever compares values with
  `bytes.Equal` and the distinction is not observable through the API.
* `state.Immutable.GetValue` may return a value, `database.ErrNotFound`, or another error.
-/
namespace HyperModel.TState
open HyperModel.Keys (Bytes)
open HyperModel.Perm (Perm)

abbrev Key := Bytes
abbrev Val := Bytes

/-- a Go `map[string]α` -/
abbrev GoMap (α : Type) := Key → Option α

def GoMap.set {α} (m : GoMap α) (k : Key) (x : α) : GoMap α := fun j => if j = k then some x else m j
def GoMap.del {α} (m : GoMap α) (k : Key) : GoMap α := fun j => if j = k then none else m j

/-- result of `state.Immutable.GetValue` -/
inductive StoRes where
  | val (v : Val)
  | notFound
  | fail
  deriving DecidableEq, Repr

inductive OpType where
  | createOp | insertOp | removeOp
  deriving DecidableEq, Repr

/-- `type op struct` -/
structure Op where
  t : OpType
  k : Key
  pastV : Val
  pastAllocates : Option Nat
  pastWrites : Option Nat

/-- `type TState struct` (the mutex is not modelled: a view is used by one goroutine, and
`Commit` holds the lock for its whole body). -/
structure TS where
  ops : Nat
  changedKeys : GoMap (Option Val)

/-- `tstate.New` -/
def TS.new : TS := { ops := 0, changedKeys := fun _ => none }

/-- `type TStateView struct` -/
structure View where
  ts : TS
  pendingChangedKeys : GoMap (Option Val)
  ops : List Op
  scope : Key → Perm → Bool
  storage : Key → StoRes
  allocates : GoMap Nat
  writes : GoMap Nat

/-- `TState.NewView` -/
def TS.newView (ts : TS) (scope : Key → Perm → Bool) (storage : Key → StoRes) : View :=
  { ts := ts, pendingChangedKeys := fun _ => none, ops := [], scope := scope, storage := storage,
    allocates := fun _ => none, writes := fun _ => none }

/-- results of the view's operations, as the harness canonicalises them -/
inductive Out where
  | val (v : Val)     -- GetValue: value, nil
  | notFound          -- GetValue: database.ErrNotFound
  | ok                -- Insert/Remove: nil
  | perm              -- ErrInvalidKeyOrPermission
  | badValue          -- ErrInvalidKeyValue
  | stoErr            -- error passed through from storage
  | idx (n : Nat)     -- OpIndex
  | done              -- Rollback (no result)
  | badOp             -- precondition of Rollback violated (not executed)
  deriving DecidableEq, Repr

/-- result of the unexported `getValue` -/
inductive GetRes where
  | found (v : Val)
  | notFound
  | fail
  deriving DecidableEq, Repr

/-- `TStateView.checkScope` -/
def View.checkScope (s : View) (k : Key) (p : Perm) : Bool := s.scope k p

/-- `TStateView.getValue`: pending changes of the view, then `TState.getChangedValue`
(the block-level changed keys), then the parent storage. -/
def View.getValue (s : View) (key : Key) : GetRes :=
  match s.pendingChangedKeys key with
  | some none => .notFound
  | some (some v) => .found v
  | none =>
    match s.ts.changedKeys key with      -- ts.ts.getChangedValue: (v, changed, exists)
    | some (some v) => .found v
    | some none => .notFound
    | none =>
      match s.storage key with
      | .val v => .found v
      | .notFound => .notFound
      | .fail => .fail

/-- `TStateView.GetValue` -/
def View.get (s : View) (key : Key) : Out :=
  if !s.checkScope key Perm.read then .perm
  else match s.getValue key with
    | .found v => .val v
    | .notFound => .notFound
    | .fail => .stoErr

/-- `TStateView.isUnchanged`; `none` = the error return. -/
def View.isUnchanged (s : View) (key : Key) (nval : Val) (nexists : Bool) : Option Bool :=
  match s.ts.changedKeys key with
  | some cv =>
    let «exists» := cv.isSome
    let v := cv.getD []
    some ((!«exists» && !nexists) || («exists» && nexists && decide (v = nval)))
  | none =>
    match s.storage key with
    | .val scopeVal => some (nexists && decide (scopeVal = nval))
    | .notFound => some (!nexists)
    | .fail => none

/-- the common tail of `Insert`: append the op, set the pending value, and clear all
bookkeeping of the key when the value is back to the parent's. -/
def View.finishInsert (s : View) (op : Op) (allocates writes : GoMap Nat) (k : Key) (value : Val)
    (isUnchanged : Bool) : View :=
  if isUnchanged then
    { s with ops := op :: s.ops, allocates := allocates.del k, writes := writes.del k,
             pendingChangedKeys := (s.pendingChangedKeys.set k (some value)).del k }
  else
    { s with ops := op :: s.ops, allocates := allocates, writes := writes,
             pendingChangedKeys := s.pendingChangedKeys.set k (some value) }

/-- `TStateView.Insert` -/
def View.insert (s : View) (key : Key) (value : Val) : View × Out :=
  if !s.checkScope key Perm.write then (s, .perm) else
  if !Keys.verifyValue key value then (s, .badValue) else
  let valueChunks := (Keys.numChunks value).getD 0   -- "not possible to fail"
  match s.isUnchanged key value true with
  | none => (s, .stoErr)
  | some isUnchanged =>
    match s.getValue key with
    | .fail => (s, .stoErr)
    | .found past =>
      if past = value then (s, .ok)      -- "No change, so this isn't an op."
      else
        let op : Op := { t := .insertOp, k := key, pastV := past,
                         pastAllocates := s.allocates key, pastWrites := s.writes key }
        (s.finishInsert op s.allocates (s.writes.set key valueChunks) key value isUnchanged, .ok)
    | .notFound =>
      if !s.checkScope key Perm.allocate then (s, .perm)
      else
        let op : Op := { t := .createOp, k := key, pastV := [],
                         pastAllocates := s.allocates key, pastWrites := s.writes key }
        let keyChunks := (Keys.maxChunks key).getD 0   -- "not possible to fail"
        (s.finishInsert op (s.allocates.set key keyChunks) (s.writes.set key valueChunks)
            key value isUnchanged, .ok)

/-- `TStateView.Remove` (repaired): always records the tombstone; `isUnchanged` clears it. -/
def View.remove (s : View) (key : Key) : View × Out :=
  if !s.checkScope key Perm.write then (s, .perm) else
  match s.getValue key with
  | .fail => (s, .stoErr)
  | .notFound => (s, .ok)               -- "We do not update writes if the key does not exist."
  | .found past =>
    match s.isUnchanged key [] false with
    | none => (s, .stoErr)
    | some isUnchanged =>
      let op : Op := { t := .removeOp, k := key, pastV := past,
                       pastAllocates := s.allocates key, pastWrites := s.writes key }
      if isUnchanged then
        ({ s with ops := op :: s.ops,
                  allocates := (s.allocates.del key).del key,
                  writes := (s.writes.set key 0).del key,
                  pendingChangedKeys := (s.pendingChangedKeys.set key none).del key }, .ok)
      else
        ({ s with ops := op :: s.ops,
                  allocates := s.allocates.del key,
                  writes := s.writes.set key 0,
                  pendingChangedKeys := s.pendingChangedKeys.set key none }, .ok)

/-- one iteration of the loop in `TStateView.Rollback` (the `switch op.t`) -/
def View.undo (s : View) (op : Op) : View :=
  match op.t with
  | .createOp =>
    match op.pastWrites with
    | some pw =>
      { s with allocates := s.allocates.del op.k, writes := s.writes.set op.k pw,
               pendingChangedKeys := s.pendingChangedKeys.set op.k none }
    | none =>
      { s with allocates := s.allocates.del op.k, writes := s.writes.del op.k,
               pendingChangedKeys := s.pendingChangedKeys.del op.k }
  | .insertOp =>
    match op.pastWrites with
    | some pw =>
      { s with writes := s.writes.set op.k pw,
               pendingChangedKeys := s.pendingChangedKeys.set op.k (some op.pastV) }
    | none =>
      { s with writes := s.writes.del op.k,
               pendingChangedKeys := s.pendingChangedKeys.del op.k }
  | .removeOp =>
    let allocates := match op.pastAllocates with
      | some pa => s.allocates.set op.k pa
      | none => s.allocates
    match op.pastWrites with
    | some pw =>
      { s with allocates := allocates, writes := s.writes.set op.k pw,
               pendingChangedKeys := s.pendingChangedKeys.set op.k (some op.pastV) }
    | none =>
      { s with allocates := allocates, writes := s.writes.del op.k,
               pendingChangedKeys := s.pendingChangedKeys.del op.k }

/-- the loop `for i := len(ts.ops)-1; i >= restorePoint; i--` over the newest-first list:
the head has index `rest.length`. -/
def View.rollbackLoop (restorePoint : Nat) : List Op → View → View
  | [], s => s
  | op :: rest, s =>
    if restorePoint ≤ rest.length then rollbackLoop restorePoint rest (s.undo op) else s

/-- `TStateView.Rollback(restorePoint)` for `0 ≤ restorePoint ≤ len(ts.ops)`. Outside that
range Go panics (negative, or beyond the slice capacity) or re-extends the slice over stale
entries; callers only pass earlier `OpIndex()` results, and the harness never leaves the range. -/
def View.rollback (s : View) (restorePoint : Nat) : View :=
  { View.rollbackLoop restorePoint s.ops s with ops := s.ops.drop (s.ops.length - restorePoint) }

/-- `TStateView.OpIndex` -/
def View.opIndex (s : View) : Nat := s.ops.length

/-- `TStateView.Commit` -/
def View.commit (s : View) : View :=
  { s with ts := { ops := s.ts.ops + s.ops.length,
                   changedKeys := fun k => match s.pendingChangedKeys k with
                     | some v => some v
                     | none => s.ts.changedKeys k } }

/-- operations a program performs on a view -/
inductive VOp where
  | get (k : Key)
  | insert (k : Key) (v : Val)
  | remove (k : Key)
  | opIndex
  | rollback (n : Nat)

def View.step (s : View) : VOp → View × Out
  | .get k => (s, s.get k)
  | .insert k v => s.insert k v
  | .remove k => s.remove k
  | .opIndex => (s, .idx s.opIndex)
  | .rollback n => if n ≤ s.ops.length then (s.rollback n, .done) else (s, .badOp)

/-- run a list of operations, collecting the outputs -/
def View.run (s : View) : List VOp → View × List Out
  | [] => (s, [])
  | o :: rest =>
    let (s', out) := s.step o
    let (s'', outs) := s'.run rest
    (s'', out :: outs)

/-- One transaction-like use of a `TState`: a fresh view with its scope, a program, and
whether the view is committed at the end (a failed transaction is dropped instead). -/
structure Tx where
  scope : Key → Perm → Bool
  prog : List VOp
  commit : Bool

def TS.runTx (ts : TS) (storage : Key → StoRes) (tx : Tx) : TS × List Out :=
  let (s, outs) := (ts.newView tx.scope storage).run tx.prog
  (if tx.commit then s.commit.ts else ts, outs)

def TS.runHistory (ts : TS) (storage : Key → StoRes) : List Tx → TS × List (List Out)
  | [] => (ts, [])
  | tx :: rest =>
    let (ts', outs) := ts.runTx storage tx
    let (ts'', outss) := ts'.runHistory storage rest
    (ts'', outs :: outss)


/-! ### block level: `Transaction.Execute` and the loop of `Processor.executeTxs`, without fees

Used by C05's block tie (real `Processor.Execute` with a balance handler that charges nothing
and declares no sponsor keys). Actions are `chaintest.TestAction`s: declared keys, keys read in
order, then key/value pairs written in order; the first failing access fails the action. -/

structure Act where
  decl : List (Key × Perm)
  reads : List Key
  writes : List (Key × Val)

/-- the accesses of `TestAction.Execute`, in order -/
def Act.ops (a : Act) : List VOp :=
  a.reads.map VOp.get ++ a.writes.map (fun kv => VOp.insert kv.1 kv.2)

/-- does the output mean the Go call returned a nil error? -/
def Out.isOk : Out → Bool
  | .val _ => true
  | .ok => true
  | _ => false

/-- run accesses until one returns an error (`some` = that error) -/
def View.runUntilFail (s : View) : List VOp → View × Option Out
  | [] => (s, none)
  | o :: rest =>
    let (s', out) := s.step o
    if out.isOk then s'.runUntilFail rest else (s', some out)

/-- `Transaction.Execute` after the fee: `actionStart := ts.OpIndex()`, the actions in order, and
`ts.Rollback(actionStart)` when one fails (`some` = the error recorded in the `Result`). -/
def View.execTx (s : View) (acts : List Act) : View × Option Out :=
  let actionStart := s.opIndex
  match s.runUntilFail (acts.map Act.ops).flatten with
  | (s', none) => (s', none)
  | (s', some e) => (s'.rollback actionStart, some e)

/-- the body of the closure in `Processor.executeTxs`, run in block order (the sequential
reference the executor must be equivalent to, C01): scope = the transaction's own declared keys
(`Transaction.StateKeys`; `none` = its error, which fails the whole block), storage = the parent
restricted to those keys (what the fetcher hands over), `Execute`, `Commit`. -/
def TS.execBlock (ts : TS) (parent : Key → Option Val) : List (List Act) → Option (TS × List (Option Out))
  | [] => some (ts, [])
  | tx :: rest =>
    match Perm.stateKeys (tx.map Act.decl) with
    | none => none
    | some keys =>
      let storage : Key → StoRes := fun k =>
        if (keys k).isSome then (match parent k with | some v => .val v | none => .notFound) else .notFound
      let (s, r) := (ts.newView keys.has storage).execTx tx
      match s.commit.ts.execBlock parent rest with
      | none => none
      | some (ts', rs) => some (ts', r :: rs)

end HyperModel.TState
