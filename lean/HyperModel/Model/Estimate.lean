import HyperModel.Model.Canoto
import HyperModel.Generated.FactsC14
/-
Model of `chain/transaction.go: EstimateUnits` (with fixes/C14-estimate-framing.patch applied:
per-action and auth framing accounted) and `(*Transaction).Units` (property C14).
Core Lean only.  The encoded size of the signed transaction comes from `Model/Canoto.lean`.
-/
namespace HyperModel.Estimate
open HyperModel.Canoto
open HyperModel.Generated.C14 (maxBaseSize)

/-- the getters of `chain.Rules` used by the two functions -/
structure Rules where
  baseCompute : Nat
  keyRead : Nat
  valRead : Nat
  keyAlloc : Nat
  valAlloc : Nat
  keyWrite : Nat
  valWrite : Nat
  sponsorChunks : List Nat       -- GetSponsorStateKeysMaxChunks()

/-- What the two functions ask of actions / auth (interfaces `chain.Action`, `chain.Auth`,
`chain.AuthFactory`, `chain.BalanceHandler`); `chunks` is `keys.MaxChunks`. -/
structure Env (A Au : Type) where
  pa : Parser A
  pu : Parser Au
  compute : A → Nat               -- action.ComputeUnits(r)
  keys : A → Bytes → Bytes → List Bytes   -- action.StateKeys(actor, actionID): the keys of a Go map
  actor : Au → Bytes              -- auth.Actor()
  actionID : Bytes → Nat → Bytes  -- chain.CreateActionID(txID, i)
  txID : Bytes → Bytes            -- utils.ToID(tx bytes)
  chunks : Bytes → Option Nat     -- keys.MaxChunks(k) / DecodeChunks: `none` for a key shorter than 2 bytes
  authCompute : Au → Nat          -- auth.ComputeUnits(r)
  sponsorKeys : Au → List Bytes   -- bh.SponsorStateKeys(auth.Sponsor())

def maxU64 : Nat := 2 ^ 64 - 1

/-- `math.Uint64Operator.Value()`: an error as soon as any partial sum/product overflowed; all
operands are non-negative, so that is exactly when the total exceeds MaxUint64. -/
def checked (n : Nat) : Option Nat := if n ≤ maxU64 then some n else none

def sum (l : List Nat) : Nat := l.foldr (· + ·) 0

/-- the storage loop: `Add(keyUnits); MulAdd(maxChunks, valueUnits)` per key -/
def storage (keyU valU : Nat) (chunks : List Nat) : Nat := sum (chunks.map fun c => keyU + c * valU)

/-- bytes one action occupies in the signed tx: `len(tag) + canoto.SizeBytes(actionBytes)` -/
def actionFrame (size : Nat) : Nat := 1 + (sizeUint size + size)

/-- bandwidth estimate of the repaired `EstimateUnits` (plain uint64 additions: wraps) -/
def estBandwidth (sizes : List Nat) (authBw : Nat) : Nat :=
  (maxBaseSize + 1 + sum (sizes.map actionFrame) + (1 + sizeUint authBw + authBw)) % 2 ^ 64

/-- bandwidth estimate of the *unrepaired* function (kept for the counterexample) -/
def estBandwidthUnrepaired (sizes : List Nat) (authBw : Nat) : Nat :=
  (maxBaseSize + 1 + sum sizes + authBw) % 2 ^ 64

structure Dims where
  bandwidth : Nat
  compute : Nat
  read : Nat
  allocate : Nat
  write : Nat
  deriving DecidableEq, Repr

/-- `for i, action := range actions`: the actions with their index -/
def withIdx {α} : Nat → List α → List (α × Nat)
  | _, [] => []
  | i, a :: as => (a, i) :: withIdx (i + 1) as

/-- `ids.Empty`, the placeholder tx id `EstimateUnits` derives the action ids from -/
def emptyID : Bytes := zeros 32

/-- `EstimateUnits(r, actions, authFactory)`; `addr = authFactory.Address()`,
`authBw, authCompute = authFactory.MaxUnits()` -/
def estimateUnits {A Au} (env : Env A Au) (r : Rules) (actions : List A) (addr : Bytes)
    (authBw authCompute : Nat) : Option Dims :=
  let bandwidth := estBandwidth (actions.map fun a => (env.pa.bytes a).length) authBw
  -- per action: `action.StateKeys(actor, CreateActionID(ids.Empty, uint8(i))).ChunkSizes()`, appended
  -- (keys shared between actions are counted once per action); `!ok` → ErrInvalidKeyValue
  match mapM? (fun ai => mapM? env.chunks (env.keys ai.1 addr (env.actionID emptyID ai.2))) (withIdx 0 actions) with
  | none => none
  | some css =>
    let chunks := css.flatten ++ r.sponsorChunks
    match checked (r.baseCompute + sum (actions.map env.compute) + authCompute) with
    | none => none
    | some compute =>
      match checked (storage r.keyRead r.valRead chunks) with
      | none => none
      | some reads =>
        match checked (storage r.keyAlloc r.valAlloc chunks) with
        | none => none
        | some allocs =>
          match checked (storage r.keyWrite r.valWrite chunks) with
          | none => none
          | some writes => some ⟨bandwidth, compute, reads, allocs, writes⟩

/-- the key set of `StateKeys`: a Go map, i.e. the distinct keys -/
def dedup : List Bytes → List Bytes
  | [] => []
  | k :: ks => if k ∈ ks then dedup ks else k :: dedup ks

/-- `(*Transaction).StateKeys(bh)`: action `i` is asked with `CreateActionID(t.GetID(), uint8(i))` -/
def stateKeys {A Au} (env : Env A Au) (t : Tx A Au) : List Bytes :=
  dedup ((withIdx 0 t.actions).flatMap
      (fun ai => env.keys ai.1 (env.actor t.auth) (env.actionID (env.txID (encodeTx env.pa env.pu t)) ai.2))
    ++ env.sponsorKeys t.auth)

/-- `(*Transaction).Units(bh, r)`; bandwidth is `len(tx.Bytes())`.  `StateKeys` fails
(`Keys.Add` → ErrInvalidKeyValue) on a key shorter than 2 bytes, exactly when `MaxChunks` does. -/
def units {A Au} (env : Env A Au) (r : Rules) (t : Tx A Au) : Option Dims :=
  match mapM? env.chunks (stateKeys env t) with
  | none => none
  | some chunks =>
    match checked (r.baseCompute + sum (t.actions.map env.compute) + env.authCompute t.auth) with
    | none => none
    | some compute =>
      match checked (storage r.keyRead r.valRead chunks) with
      | none => none
      | some reads =>
        match checked (storage r.keyAlloc r.valAlloc chunks) with
        | none => none
        | some allocs =>
          match checked (storage r.keyWrite r.valWrite chunks) with
          | none => none
          | some writes => some ⟨(encodeTx env.pa env.pu t).length, compute, reads, allocs, writes⟩

def Dims.le (a b : Dims) : Prop :=
  a.bandwidth ≤ b.bandwidth ∧ a.compute ≤ b.compute ∧ a.read ≤ b.read ∧ a.allocate ≤ b.allocate ∧ a.write ≤ b.write

/-! ## GenerateTransaction -/

/-- `fees.MulSum(prices, d)` as a number -/
def mulSum (p d : Dims) : Nat :=
  p.bandwidth * d.bandwidth + p.compute * d.compute + p.read * d.read + p.allocate * d.allocate + p.write * d.write

/-- `fees.MulSum`: `math.Mul` / `math.Add` fail on overflow; operands are non-negative, so an
error is returned exactly when the total exceeds MaxUint64. -/
def mulSumChecked (p d : Dims) : Option Nat := checked (mulSum p d)

/-- uint64 ↔ its 8 little-endian bytes (`AppendFint64` / `ReadFint64`) -/
def le64 (n : Nat) : Bytes :=
  [UInt8.ofNat (n % 256), UInt8.ofNat (n / 256 % 256), UInt8.ofNat (n / 65536 % 256),
   UInt8.ofNat (n / 16777216 % 256), UInt8.ofNat (n / 4294967296 % 256),
   UInt8.ofNat (n / 1099511627776 % 256), UInt8.ofNat (n / 281474976710656 % 256),
   UInt8.ofNat (n / 72057594037927936 % 256)]
def ofLE64 (b : Bytes) : Nat := b.foldr (fun x a => a * 256 + x.toNat) 0

/-- `chain.AuthFactory` -/
structure Factory (Au : Type) where
  sign : Bytes → Au        -- Sign(unsignedBytes)
  address : Bytes          -- Address()
  maxBandwidth : Nat       -- MaxUnits()
  maxCompute : Nat

/-- `chain.RuleFactory` and what `GenerateTransactionManual` reads from the rules -/
structure RuleSource where
  rulesAt : Int → Rules    -- GetRules(t)
  chainID : Int → Bytes    -- GetRules(t).GetChainID()
  expiry : Int → Int       -- utils.UnixRMilli(t, GetRules(t).GetValidityWindow())

/-- `GenerateTransaction(ruleFactory, unitPrices, timestamp, actions, authFactory)`:
`rules := GetRules(timestamp)`; `units := EstimateUnits(rules, actions, authFactory)`;
`maxFee := MulSum(unitPrices, units)`; then `GenerateTransactionManual`: `NewTxData(Base{expiry,
chain id, maxFee}, actions).Sign(authFactory)`. -/
def generateTransaction {A Au} (env : Env A Au) (rs : RuleSource) (prices : Dims) (timestamp : Int)
    (actions : List A) (fac : Factory Au) : Option (Tx A Au) :=
  match estimateUnits env (rs.rulesAt timestamp) actions fac.address fac.maxBandwidth fac.maxCompute with
  | none => none
  | some est =>
    match mulSumChecked prices est with
    | none => none
    | some maxFee =>
      let base : Base := { timestamp := rs.expiry timestamp, chainID := rs.chainID timestamp, maxFee := le64 maxFee }
      let unsigned := encode txSpec (serializeTxMsg (encodeBase base) (actions.map env.pa.bytes) [])
      some { base, actions, auth := fac.sign unsigned }

end HyperModel.Estimate
