/-!
# Model of `internal/validitywindow/validitywindow.go` (C09)

Transcription of `TimeValidityWindow`: `Accept`, `AcceptHistorical`,
`VerifyExpiryReplayProtection`, `IsRepeat`, `isRepeat`, `populate`, `Complete`,
`calculateOldestAllowed`, for a constant validity window `W`.

`seen` (`*emap.EMap`) is modelled as an abstract set-with-expiry `Seen` (`add`, `setMin`,
`contains`); that the heap/bucket implementation refines this set is property C25 (other
owner). Quirks of `emap.add` that are observable through the window are kept:
* an item with expiry `0` is never stored;
* an id that is already present keeps its *first* expiry.

Block ids / tx ids are `Nat` (ids.ID is a hash; only equality matters). The chain index is a
partial map block id → block (`ChainIndex.GetExecutionBlock`, `none` = any error).
Core Lean only (linked into `driver_C09`).
-/
namespace HyperModel.ValidityWindow

/-- `emap.Item`: `GetID`, `GetExpiry`. -/
structure Tx where
  id : Nat
  expiry : Int
deriving Repr, DecidableEq, Inhabited

/-- `ExecutionBlock[T]`: `GetID`, `GetParent`, `GetTimestamp`, `GetHeight`, `GetContainers`. -/
structure Block where
  id : Nat
  parent : Nat
  ts : Int
  height : Nat
  txs : List Tx
deriving Repr, DecidableEq, Inhabited

/-- `ChainIndex.GetExecutionBlock` (`none` = error / not found). -/
abbrev Index := Nat → Option Block

/-- Abstract `emap.EMap`: id ↦ expiry under which the id is stored. (A structure around the
lookup function so that `add` is evaluated when it is applied, not at every later lookup.) -/
structure Seen where
  get : Nat → Option Int

namespace Seen

def empty : Seen := ⟨fun _ => none⟩

/-- `EMap.add(id, t)`: `t == 0` → return; already seen → return; else store. -/
def add (s : Seen) (id : Nat) (e : Int) : Seen :=
  if e = 0 then s
  else match s.get id with
    | some _ => s
    | none => ⟨fun j => if j = id then some e else s.get j⟩

/-- `EMap.Add(items)`. -/
def addAll (s : Seen) : List Tx → Seen
  | [] => s
  | t :: rest => addAll (s.add t.id t.expiry) rest

/-- `EMap.SetMin(t)`: removes every bucket (hence every id) with expiry `< t`. -/
def setMin (s : Seen) (t : Int) : Seen := ⟨fun j =>
  match s.get j with
  | some e => if e < t then none else some e
  | none => none⟩

def contains (s : Seen) (id : Nat) : Bool := (s.get id).isSome

end Seen

/-- The mutable part of `TimeValidityWindow`. -/
structure VW where
  seen : Seen
  lastAccepted : Nat

/-- State right after the struct literal in `NewTimeValidityWindow` (before `populate`). -/
def VW.fresh : VW := { seen := Seen.empty, lastAccepted := 0 }

/-- `calculateOldestAllowed` for the constant window `W`: `max(0, timestamp - W)`.
(int64 wrap of the subtraction is not modelled: timestamps and windows are far below 2^62.) -/
def oldestAllowed (W ts : Int) : Int := max 0 (ts - W)

/-- `Accept`: `seen.SetMin(blk.ts)`, `seen.Add(blk.containers)`, `lastAcceptedBlockHeight = blk.height`. -/
def accept (v : VW) (b : Block) : VW :=
  { seen := (v.seen.setMin b.ts).addAll b.txs, lastAccepted := b.height }

/-- `AcceptHistorical`: only `seen.Add(blk.containers)`. -/
def acceptHistorical (v : VW) (b : Block) : VW :=
  { v with seen := v.seen.addAll b.txs }

/-- `ExecutionBlock.Contains(id)`. -/
def blockContains (b : Block) (id : Nat) : Bool := b.txs.any (fun t => t.id == id)

/-- The marking loop shared by `EMap.Contains(items, marker, stop)` and the loop over
`containers` inside `isRepeat`: skip already marked indices, mark index `i` when `has id`,
and with `stop` return at the first new mark. Returns the marker and "returned early". -/
def markFrom (has : Nat → Bool) (stop : Bool) : Nat → List Tx → List Nat → List Nat × Bool
  | _, [], m => (m, false)
  | i, tx :: rest, m =>
    if m.contains i then markFrom has stop (i + 1) rest m
    else if has tx.id then
      if stop then (i :: m, true) else markFrom has stop (i + 1) rest (i :: m)
    else markFrom has stop (i + 1) rest m

/-- Result of `isRepeat`: marker and whether the parent fetch failed (the marker is returned
in both cases, as in Go). `fuel` models nothing in Go (the Go loop is unbounded); running out
of fuel is reported as `err` and cannot happen when `fuel > height` on a well-formed index. -/
inductive Walk where
  | ok (m : List Nat)
  | err (m : List Nat)
deriving Repr, DecidableEq

/-- `isRepeat(ancestorBlk, oldestAllowed, containers, stop)` with its three exits. -/
def isRepeat (idx : Index) (v : VW) (oldest : Int) (txs : List Tx) (stop : Bool) :
    Nat → Block → List Nat → Walk
  | 0, _, m => .err m
  | fuel + 1, a, m =>
    if a.ts < oldest then .ok m                                             -- exit 1
    else if a.height ≤ v.lastAccepted ∨ a.height = 0 then
      .ok (markFrom v.seen.contains stop 0 txs m).1                          -- exit 2
    else
      let r := markFrom (blockContains a) stop 0 txs m
      if r.2 then .ok r.1                                                   -- `if stop { return }`
      else match idx a.parent with
        | none => .err r.1                                                  -- exit 3 (error)
        | some p => isRepeat idx v oldest txs stop fuel p r.1

/-- `IsRepeat(parentBlk, currentTimestamp, containers)` (`stop = false`). -/
def isRepeatAPI (idx : Index) (W : Int) (v : VW) (fuel : Nat) (parent : Block) (now : Int)
    (txs : List Tx) : Walk :=
  isRepeat idx v (oldestAllowed W now) txs false fuel parent []

/-- The tx selection of `Builder.BuildBlock` for one mempool batch (chain/builder.go): one
`IsRepeat(parent, nextTime, txs)` for the batch; a marked tx is skipped (`dup.Contains(i)`, index
into the batch as streamed); an unmarked tx is included iff it passes `PreExecute` at `nextTime`
(C10's expiry interval; the other reasons for dropping a tx — fees, state keys, block limits —
are outside this model). `none`: `IsRepeat` failed, the batch is restored and nothing is built
from it. -/
def builderSelectFrom (W now : Int) (m : List Nat) : Nat → List Tx → List Tx
  | _, [] => []
  | i, t :: rest =>
    if m.contains i then builderSelectFrom W now m (i + 1) rest
    else if now ≤ t.expiry ∧ t.expiry ≤ now + W then t :: builderSelectFrom W now m (i + 1) rest
    else builderSelectFrom W now m (i + 1) rest

def builderSelect (idx : Index) (W : Int) (v : VW) (fuel : Nat) (parent : Block) (now : Int)
    (txs : List Tx) : Option (List Tx) :=
  match isRepeatAPI idx W v fuel parent now txs with
  | .ok m => some (builderSelectFrom W now m 0 txs)
  | .err _ => none

/-- The in-block duplicate check (first loop of `VerifyExpiryReplayProtection`). -/
def hasDup : List Nat → Bool
  | [] => false
  | x :: xs => xs.contains x || hasDup xs

inductive Verdict where
  | ok | dupInBlock | dupAncestor | missingParent | walkErr
deriving Repr, DecidableEq

def Verdict.str : Verdict → String
  | .ok => "ok" | .dupInBlock => "dup-block" | .dupAncestor => "dup-anc"
  | .missingParent => "no-parent" | .walkErr => "walk-err"

/-- `VerifyExpiryReplayProtection(blk)`. -/
def verifyERP (idx : Index) (W : Int) (v : VW) (fuel : Nat) (b : Block) : Verdict :=
  if b.height ≤ v.lastAccepted then .ok
  else if hasDup (b.txs.map (·.id)) then .dupInBlock
  else match idx b.parent with
    | none => .missingParent
    | some p =>
      match isRepeat idx v (oldestAllowed W b.ts) b.txs true fuel p [] with
      | .err _ => .walkErr
      | .ok m => if m.length > 0 then .dupAncestor else .ok

/-- C10's expiry interval as `Processor.Execute` applies it to every tx of a block, with the exact
(unrounded, millisecond) block timestamp: `b.ts ≤ expiry ≤ b.ts + W`. -/
def txsValidAt (W : Int) (b : Block) : Bool :=
  b.txs.all fun t => decide (b.ts ≤ t.expiry) && decide (t.expiry ≤ b.ts + W)

/-- The part of `Processor.Execute` (isNormalOp) that concerns C09: first
`VerifyExpiryReplayProtection`, then every tx's expiry check; `none` = the block executes. -/
def executeVerdict (idx : Index) (W : Int) (v : VW) (fuel : Nat) (b : Block) : String :=
  match verifyERP idx W v fuel b with
  | .ok => if txsValidAt W b then "ok" else "tx-invalid"
  | e => e.str

/-- The parent walk of `populate`; `acc` is the list built so far, *oldest first* (Go appends
and reverses afterwards). Returns the chronological list and `fullValidityWindow`. -/
def populateWalk (idx : Index) (oldest : Int) : Nat → Block → List Block → List Block × Bool
  | 0, _, acc => (acc, false)
  | fuel + 1, cur, acc =>
    if cur.height = 0 then (acc, true)
    else match idx cur.parent with
      | none => (acc, false)
      | some p =>
        if p.ts < oldest then (p :: acc, true)
        else populateWalk idx oldest fuel p (p :: acc)

/-- `populate(block)`: walk, then `Accept` every collected block in chronological order.
Returns the new state, the chronological block list (`parents` after `slices.Reverse`) and
`fullValidityWindow`. -/
def populate (idx : Index) (W : Int) (v : VW) (fuel : Nat) (head : Block) :
    VW × List Block × Bool :=
  let r := populateWalk idx (oldestAllowed W head.ts) fuel head [head]
  (r.1.foldl accept v, r.1, r.2)

/-- `NewTimeValidityWindow(head)`. -/
def newWindow (idx : Index) (W : Int) (fuel : Nat) (head : Block) : VW :=
  (populate idx W VW.fresh fuel head).1

end HyperModel.ValidityWindow
