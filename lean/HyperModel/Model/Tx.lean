/-!
# Model of transaction execution (`chain/transaction.go`) and of the two balance handlers

Core Lean only (this file is linked into the drivers of C03, C06 and C07).

The state view is **not** the detailed `TStateView` (pending map, op log with past values,
`allocates`/`writes`): it is the abstract specification that `TStateView` refines — a total map
`Key → Option Val`, the declared scope, and a stack of snapshots (`opIndex` pushes the visible
map, `rollback n` restores snapshot `n`). That the real view behaves like this map for every
sequence of `GetValue/Insert/Remove/OpIndex/Rollback` is the refinement theorem of property C04
(`view_refines`, `rollback_restores`); every theorem proved over this file relies on it. The
differential tie of C03/C06/C07 nevertheless runs the *real* `TStateView`.
-/
namespace HyperModel.Tx

abbrev Bytes := List UInt8
abbrev Key := Bytes
abbrev Val := Bytes
abbrev Addr := Bytes
/-- visible state: `none` = `database.ErrNotFound` -/
abbrev Store := Key → Option Val

def upd (m : Store) (k : Key) (x : Option Val) : Store := fun j => if j = k then x else m j

/-- canonical error classes (the Go harness maps real errors to the same names) -/
inductive Err where
  | perm            -- tstate.ErrInvalidKeyOrPermission
  | notfound        -- database.ErrNotFound
  | badvalue        -- tstate.ErrInvalidKeyValue
  | insufficient    -- balance.ErrInsufficientBalance
  | invalidbalance  -- morpheus storage.ErrInvalidBalance
  | overflow        -- safemath.ErrOverflow
  | parse           -- database.ParseUInt64: wrong size
  | script          -- error returned by a scripted action / chaintest.ErrTestActionExecute
  | valuezero       -- actions.ErrOutputValueZero
  | memo            -- actions.ErrOutputMemoTooLarge
  | units           -- Transaction.Units failed
  | chainid | misaligned | expired | future   -- Base.Execute
  | toomany | actionrange | authrange         -- PreExecute
  | blockunits      -- chain.ErrInvalidUnitsConsumed (block limits)
  | duplicate       -- chain.ErrDuplicateTx
  | badauth         -- Auth.Verify failed
  deriving DecidableEq, Repr, Inhabited

def Err.name : Err → String
  | .perm => "perm" | .notfound => "notfound" | .badvalue => "badvalue"
  | .insufficient => "insufficient" | .invalidbalance => "invalidbalance"
  | .overflow => "overflow" | .parse => "parse" | .script => "script"
  | .valuezero => "valuezero" | .memo => "memo" | .units => "units"
  | .chainid => "chainid" | .misaligned => "misaligned" | .expired => "expired"
  | .future => "future" | .toomany => "toomany" | .actionrange => "actionrange"
  | .authrange => "authrange" | .blockunits => "blockunits" | .duplicate => "duplicate"
  | .badauth => "badauth"

/-! ## `state.Permissions` -/
def permRead : Nat := 1
def permAllocate : Nat := 3
def permWrite : Nat := 5
def permAll : Nat := 7
/-- `Permissions.Has`: `require &^ p == 0` -/
def has (p req : Nat) : Bool := (req &&& p) == req

/-! ## `keys.MaxChunks / NumChunks / VerifyValue` (chunk size 64) -/
def maxChunks (k : Key) : Option Nat :=
  if k.length < 2 then none
  else some ((k.getD (k.length - 2) 0).toNat * 256 + (k.getD (k.length - 1) 0).toNat)

def numChunks (len : Nat) : Option Nat :=
  if len = 0 then some 0
  else if len / 64 + 1 > 65535 then none else some (len / 64 + 1)

def verifyValue (k : Key) (x : Val) : Bool :=
  match numChunks x.length, maxChunks k with
  | some vc, some kc => vc ≤ kc
  | _, _ => false

/-! ## The abstract view (specification of `tstate.TStateView`) -/
structure View where
  cur : Store
  scope : Key → Nat
  cps : List Store := []

/-- `TStateView.GetValue` -/
def View.get (v : View) (k : Key) : Except Err Val :=
  if !has (v.scope k) permRead then .error .perm
  else match v.cur k with
    | none => .error .notfound
    | some x => .ok x

/-- `TStateView.Insert` (`none` = nil error) -/
def View.insert (v : View) (k : Key) (x : Val) : View × Option Err :=
  if !has (v.scope k) permWrite then (v, some .perm)
  else if !verifyValue k x then (v, some .badvalue)
  else match v.cur k with
    | some _ => ({ v with cur := upd v.cur k (some x) }, none)
    | none =>
      if !has (v.scope k) permAllocate then (v, some .perm)
      else ({ v with cur := upd v.cur k (some x) }, none)

/-- `TStateView.Remove` -/
def View.remove (v : View) (k : Key) : View × Option Err :=
  if !has (v.scope k) permWrite then (v, some .perm)
  else ({ v with cur := upd v.cur k none }, none)

/-- `TStateView.OpIndex`: the checkpoint is the visible map at this point. -/
def View.opIndex (v : View) : View × Nat :=
  ({ v with cps := v.cps ++ [v.cur] }, v.cps.length)

/-- `TStateView.Rollback restorePoint` -/
def View.rollback (v : View) (n : Nat) : View :=
  match v.cps[n]? with
  | some s => { v with cur := s, cps := v.cps.take n }
  | none => v

/-! ## Programs over `state.Mutable`

Any deterministic action (or balance handler method) that touches the state only through the
`state.Mutable` interface is a tree of `GetValue/Insert/Remove` calls whose continuation may
depend on every returned value or error, ending in an output or an error. -/
inductive Prog where
  | done (out : Val)
  | fail (e : Err)
  | get (k : Key) (cont : Except Err Val → Prog)
  | insert (k : Key) (x : Val) (cont : Option Err → Prog)
  | remove (k : Key) (cont : Option Err → Prog)

def Prog.run : Prog → View → View × Except Err Val
  | .done o, v => (v, .ok o)
  | .fail e, v => (v, .error e)
  | .get k c, v => (c (v.get k)).run v
  | .insert k x c, v => (c (v.insert k x).2).run (v.insert k x).1
  | .remove k c, v => (c (v.remove k).2).run (v.remove k).1

/-! ## uint64 helpers (`database.PackUInt64/ParseUInt64`, `safemath`) -/
def u64 : Nat := 18446744073709551616

def encU64 (n : Nat) : Val :=
  [UInt8.ofNat (n / 72057594037927936), UInt8.ofNat (n / 281474976710656),
   UInt8.ofNat (n / 1099511627776), UInt8.ofNat (n / 4294967296),
   UInt8.ofNat (n / 16777216), UInt8.ofNat (n / 65536), UInt8.ofNat (n / 256), UInt8.ofNat n]

def decU64 (v : Val) : Option Nat :=
  match v with
  | [a, b, c, d, e, f, g, h] =>
    some (a.toNat * 72057594037927936 + b.toNat * 281474976710656 + c.toNat * 1099511627776
      + d.toNat * 4294967296 + e.toNat * 16777216 + f.toNat * 65536 + g.toNat * 256 + h.toNat)
  | _ => none

def addU64 (a b : Nat) : Option Nat := if a + b < u64 then some (a + b) else none
def mulU64 (a b : Nat) : Option Nat := if a * b < u64 then some (a * b) else none
def subU64 (a b : Nat) : Option Nat := if b ≤ a then some (a - b) else none

/-- `internal/fees.Manager.Fee`: Σ price·units with overflow checks, dimension by dimension. -/
def feeOf : List Nat → List Nat → Nat → Option Nat
  | p :: ps, u :: us, fee =>
    match mulU64 p u with
    | none => none
    | some c =>
      match addU64 c fee with
      | none => none
      | some f => feeOf ps us f
  | _, _, fee => some fee

/-! ## Balance handlers -/
inductive Handler where
  | pfx (p : Bytes)   -- state/balance.PrefixBalanceHandler
  | morpheus          -- examples/morpheusvm/storage.BalanceHandler
  deriving DecidableEq

/-- `BalanceKey`: prefix ++ address ++ uint16(BalanceChunks = 1) -/
def Handler.key : Handler → Addr → Key
  | .pfx p, a => p ++ (a ++ [0, 1])
  | .morpheus, a => [3] ++ (a ++ [0, 1])

/-- `storage.innerGetBalance` -/
def mInner (r : Except Err Val) : Except Err (Nat × Bool) :=
  match r with
  | .error .notfound => .ok (0, false)
  | .error e => .error e
  | .ok v => match decU64 v with
    | none => .error .parse
    | some n => .ok (n, true)

/-- `storage.SubBalance` followed by `cont newBalance` -/
def mSub (key : Key) (amount : Nat) (cont : Nat → Prog) : Prog :=
  .get key fun r =>
    match mInner r with
    | .error _ => .fail .invalidbalance        -- `!ok` is tested before `err`
    | .ok (_, false) => .fail .invalidbalance
    | .ok (bal, true) =>
      match subU64 bal amount with
      | none => .fail .invalidbalance
      | some nbal =>
        if nbal = 0 then
          .remove key fun | some e => .fail e | none => cont 0
        else
          .insert key (encU64 nbal) fun | some e => .fail e | none => cont nbal

/-- `storage.AddBalance` followed by `cont newBalance` -/
def mAdd (key : Key) (amount : Nat) (cont : Nat → Prog) : Prog :=
  .get key fun r =>
    match mInner r with
    | .error e => .fail e
    | .ok (bal, _) =>
      match addU64 bal amount with
      | none => .fail .invalidbalance
      | some nbal => .insert key (encU64 nbal) fun | some e => .fail e | none => cont nbal

/-- `PrefixBalanceHandler.Deduct` -/
def pfxDeduct (key : Key) (amount : Nat) : Prog :=
  .get key fun r =>
    match r with
    | .error .notfound => .fail .insufficient
    | .error e => .fail e
    | .ok bytes =>
      match decU64 bytes with
      | none => .fail .parse
      | some bal =>
        if bal < amount then .fail .insufficient
        else .insert key (encU64 (bal - amount)) fun | some e => .fail e | none => .done []

/-- `BalanceHandler.Deduct(sponsor, view, amount)` -/
def Handler.deduct (h : Handler) (a : Addr) (amount : Nat) : Prog :=
  match h with
  | .pfx _ => pfxDeduct (h.key a) amount
  | .morpheus => mSub (h.key a) amount fun _ => .done []

/-- `BalanceHandler.GetBalance` over an immutable view -/
def Handler.getBalance (h : Handler) (a : Addr) (v : View) : Except Err Nat :=
  match h with
  | .pfx _ =>
    match v.get (h.key a) with
    | .error .notfound => .ok 0
    | .error e => .error e
    | .ok bytes => match decU64 bytes with
      | none => .error .parse
      | some n => .ok n
  | .morpheus => (mInner (v.get (h.key a))).map (·.1)

/-- `BalanceHandler.CanDeduct` (`none` = nil error) -/
def Handler.canDeduct (h : Handler) (a : Addr) (v : View) (amount : Nat) : Option Err :=
  match h.getBalance a v with
  | .error e => some e
  | .ok bal =>
    if bal < amount then
      some (match h with | .pfx _ => .insufficient | .morpheus => .invalidbalance)
    else none

/-! ## Transactions -/
structure Action where
  prog : Prog
  /-- `ValidRange` -/
  start : Int := -1
  stop : Int := -1

structure Tx where
  sponsor : Addr
  actions : List Action
  /-- result of `Transaction.Units(bh, r)` **for the rules `r` in force at the call** (a function
  of size, compute units, declared keys and the rules' unit parameters: C12). The drivers pass,
  for every decision point, the units under that decision's rules (admission: rules at
  submission time; builder / processor: rules of the block's timestamp). -/
  units : Option (List Nat)
  maxFee : Nat := 0
  chainID : Nat := 0
  timestamp : Int := 0
  authStart : Int := -1
  authStop : Int := -1

structure Rules where
  chainID : Nat := 0
  validityWindow : Int := 60000
  maxActions : Nat := 16

structure Result where
  success : Bool
  error : Option Err
  outputs : List Val
  units : List Nat
  fee : Nat

/-- The action loop of `Transaction.Execute`. -/
def runActions (units : List Nat) (fee start : Nat) : List Action → View → List Val → View × Result
  | [], v, outs => (v, { success := true, error := none, outputs := outs, units, fee })
  | a :: rest, v, outs =>
    match a.prog.run v with
    | (v', .error e) =>
      (v'.rollback start, { success := false, error := some e, outputs := outs, units, fee })
    | (v', .ok o) => runActions units fee start rest v' (outs ++ [o])

/-- `Transaction.Execute`. `.error` = the Go function returns `(nil, err)`. -/
def txExecute (h : Handler) (prices : List Nat) (tx : Tx) (v : View) : View × Except Err Result :=
  match tx.units with
  | none => (v, .error .units)
  | some units =>
    match feeOf prices units 0 with
    | none => (v, .error .overflow)
    | some fee =>
      match (h.deduct tx.sponsor fee).run v with
      | (v1, .error e) => (v1, .error e)
      | (v1, .ok _) =>
        let r := runActions units fee v1.opIndex.2 tx.actions v1.opIndex.1 []
        (r.1, .ok r.2)

/-- `validitywindow.VerifyTimestamp` with divisor 1000 -/
def verifyTimestamp (txTs now window : Int) : Option Err :=
  if txTs % 1000 != 0 then some .misaligned
  else if txTs < now then some .expired
  else if txTs > now + window then some .future
  else none

def rangeBad (start stop now : Int) : Bool :=
  (start ≥ 0 && now < start) || (stop ≥ 0 && now > stop)

/-- `Transaction.PreExecute` (`none` = nil error). Note: `tx.maxFee` is not read. -/
def preExecute (r : Rules) (h : Handler) (prices : List Nat) (tx : Tx) (v : View) (now : Int) :
    Option Err :=
  if tx.chainID ≠ r.chainID then some .chainid else
  match verifyTimestamp tx.timestamp now r.validityWindow with
  | some e => some e
  | none =>
    if tx.actions.length > r.maxActions then some .toomany
    else if tx.actions.any (fun a => rangeBad a.start a.stop now) then some .actionrange
    else if rangeBad tx.authStart tx.authStop now then some .authrange
    else match tx.units with
      | none => some .units
      | some units =>
        match feeOf prices units 0 with
        | none => some .overflow
        | some fee => h.canDeduct tx.sponsor v fee

/-- `fees.Manager.Consume(units, maxUnits)`: new consumption or `none` when a limit is hit. -/
def consume : List Nat → List Nat → List Nat → Option (List Nat)
  | c :: cs, u :: us, l :: ls =>
    match addU64 c u with
    | none => none
    | some n => if n > l then none else (consume cs us ls).map (n :: ·)
  | _, _, _ => some []

inductive Outcome where
  | preErr (e : Err)     -- PreExecute failed: not executed
  | execErr (e : Err)    -- Execute returned an error: never committed
  | done (r : Result)    -- executed and committed

/-- What the processor's / builder's per-transaction closure does with one transaction on the
block-level visible state `cur`: fresh view with the declared scope, `PreExecute`, `Execute`,
`Commit` only if both returned nil errors. -/
def processTx (r : Rules) (h : Handler) (prices : List Nat) (now : Int)
    (scope : Key → Nat) (tx : Tx) (cur : Store) : Store × Outcome :=
  let v : View := { cur, scope }
  match preExecute r h prices tx v now with
  | some e => (cur, .preErr e)
  | none =>
    match txExecute h prices tx v with
    | (_, .error e) => (cur, .execErr e)
    | (v', .ok res) => (v'.cur, .done res)

/-! ## The block-level layer (`tstate.TState`): view → block diff → parent storage

All transactions of a block share one `TState` over the same parent storage. A view is created
over the block's visible map (`getValue`: pending → `TState.changedKeys` → storage);
`TStateView.Commit` publishes the view's pending changes — the keys whose visible value in the
view differs from the value the view was created over — into `changedKeys`. (That `pending` is
exactly this difference is C04's invariant.) -/
structure Block where
  parent : Store
  /-- `TState.changedKeys`: `none` = untouched, `some none` = deleted, `some (some v)` = written -/
  diff : Key → Option (Option Val) := fun _ => none

/-- `TState.getChangedValue` falling back to the parent storage -/
def Block.visible (b : Block) : Store := fun k =>
  match b.diff k with
  | some x => x
  | none => b.parent k

/-- `TStateView.Commit` of a view whose visible map is `cur` -/
def Block.commit (b : Block) (cur : Store) : Block :=
  { b with diff := fun k => if cur k = b.visible k then b.diff k else some (cur k) }

/-- one transaction of a block: view over the block's visible map, commit on success only -/
def processTxB (r : Rules) (h : Handler) (prices : List Nat) (now : Int)
    (scope : Key → Nat) (tx : Tx) (b : Block) : Block × Outcome :=
  match processTx r h prices now scope tx b.visible with
  | (cur', .done res) => (b.commit cur', .done res)
  | (_, o) => (b, o)

/-! ## Inclusion decisions (C07) -/

/-- `Builder.BuildBlock` closure: the tx is appended to the block iff `PreExecute` and `Execute`
return nil and the block limits admit its units. -/
def builderIncludes (r : Rules) (h : Handler) (prices : List Nat) (now : Int) (scope : Key → Nat)
    (consumed maxUnits : List Nat) (tx : Tx) (cur : Store) : Option Result :=
  match processTx r h prices now scope tx cur with
  | (_, .done res) => if (consume consumed res.units maxUnits).isSome then some res else none
  | _ => none

/-- One iteration of the builder's per-transaction closure on the block being built (state =
block-level layer + units consumed so far): `PreExecute`, `Execute`, then the capacity check
`feeManager.Consume(result.Units, maxUnits)`; only a transaction that passes all three is
committed to the block state and appended (`some result`). A transaction that does not fit is
skipped (restored to the mempool) and must leave the built state untouched. (The early-stop
heuristic "dimension above window target" is not modelled: the harness keeps the target high.) -/
def builderStep (r : Rules) (h : Handler) (prices : List Nat) (now : Int) (maxUnits : List Nat)
    (p : (Key → Nat) × Tx) (s : Block × List Nat) : (Block × List Nat) × Option Result :=
  match processTx r h prices now p.1 p.2 s.1.visible with
  | (cur', .done res) =>
    match consume s.2 res.units maxUnits with
    | some c' => ((s.1.commit cur', c'), some res)
    | none => (s, none)
  | _ => (s, none)

/-- The one case in which the builder's closure returns an error instead of skipping:
`PreExecute` passed but `Execute` returned an error ("unexpected post-execution error",
builder.go: `restore = true; return err`). `executor.Wait` then returns that error and
`BuildBlock` **returns it: the whole build is aborted, no block is produced**. -/
def builderAbort (r : Rules) (h : Handler) (prices : List Nat) (now : Int)
    (p : (Key → Nat) × Tx) (s : Block × List Nat) : Option Err :=
  match processTx r h prices now p.1 p.2 s.1.visible with
  | (_, .execErr e) => some e
  | _ => none

/-- the builder's loop over the streamed transactions, in order. `.error e` = `BuildBlock`
returns the error `e` (build aborted). -/
def builderBlock (r : Rules) (h : Handler) (prices : List Nat) (now : Int) (maxUnits : List Nat) :
    List ((Key → Nat) × Tx) → Block × List Nat →
    Except Err ((Block × List Nat) × List (Option Result))
  | [], s => .ok (s, [])
  | p :: rest, s =>
    match builderAbort r h prices now p s with
    | some e => .error e
    | none =>
      let st := builderStep r h prices now maxUnits p s
      match builderBlock r h prices now maxUnits rest st.1 with
      | .error e => .error e
      | .ok out => .ok (out.1, st.2 :: out.2)

/-- `Processor.executeTxs` for one transaction with the reason of a rejection: units consumed
first (`ErrInvalidUnitsConsumed`), then `PreExecute` and `Execute`; any error makes the block
invalid. -/
def processorOutcome (r : Rules) (h : Handler) (prices : List Nat) (now : Int) (scope : Key → Nat)
    (consumed maxUnits : List Nat) (tx : Tx) (cur : Store) : Except Err (Store × List Nat × Result) :=
  match tx.units with
  | none => .error .units
  | some units =>
    match consume consumed units maxUnits with
    | none => .error .blockunits
    | some c' =>
      match processTx r h prices now scope tx cur with
      | (cur', .done res) => .ok (cur', c', res)
      | (_, .preErr e) => .error e
      | (_, .execErr e) => .error e

/-- `Processor.Execute` on a block: every transaction in order on the block-level layer; the
first error rejects the block. -/
def processorBlock (r : Rules) (h : Handler) (prices : List Nat) (now : Int) (maxUnits : List Nat) :
    List ((Key → Nat) × Tx) → Block × List Nat → Except Err ((Block × List Nat) × List Result)
  | [], s => .ok (s, [])
  | p :: rest, s =>
    match processorOutcome r h prices now p.1 s.2 maxUnits p.2 s.1.visible with
    | .error e => .error e
    | .ok (cur', c', res) =>
      match processorBlock r h prices now maxUnits rest (s.1.commit cur', c') with
      | .error e => .error e
      | .ok out => .ok (out.1, res :: out.2)

/-- `Processor.executeTxs`: units consumed first, then `PreExecute` and `Execute`; any error
makes the block invalid. -/
def processorAccepts (r : Rules) (h : Handler) (prices : List Nat) (now : Int) (scope : Key → Nat)
    (consumed maxUnits : List Nat) (tx : Tx) (cur : Store) : Option Result :=
  match tx.units with
  | none => none
  | some units =>
    if (consume consumed units maxUnits).isNone then none else
    match processTx r h prices now scope tx cur with
    | (_, .done res) => some res
    | _ => none

/-- `PreExecutor.PreExecute` (mempool admission): repeat check, state keys, auth, then
`Transaction.PreExecute` at the next block's prices. -/
def admitOutcome (r : Rules) (h : Handler) (prices : List Nat) (now : Int) (scope : Key → Nat)
    (isRepeat authOk : Bool) (tx : Tx) (cur : Store) : Option Err :=
  if isRepeat then some .duplicate
  else if tx.units.isNone then some .units   -- (StateKeys invalid: same failure as Units)
  else if !authOk then some .badauth
  else preExecute r h prices tx { cur, scope } now

def admits (r : Rules) (h : Handler) (prices : List Nat) (now : Int) (scope : Key → Nat)
    (isRepeat authOk : Bool) (tx : Tx) (cur : Store) : Bool :=
  !isRepeat && tx.units.isSome && authOk && (preExecute r h prices tx { cur, scope } now).isNone

/-! ## Scripted actions (the harness' test action) -/
inductive Step where
  | read (k : Key)
  | write (k : Key) (x : Val)
  | del (k : Key)
  | fail

/-- Runs the steps in order, stops at the first error; output = concatenation of the values read. -/
def scriptProg : List Step → Val → Prog
  | [], acc => .done acc
  | .read k :: rest, acc => .get k fun | .error e => .fail e | .ok x => scriptProg rest (acc ++ x)
  | .write k x :: rest, acc => .insert k x fun | some e => .fail e | none => scriptProg rest acc
  | .del k :: rest, acc => .remove k fun | some e => .fail e | none => scriptProg rest acc
  | .fail :: _, _ => .fail .script

end HyperModel.Tx
