/-
Model of `fees/set.go: LargestSet` and the helpers it uses from `fees/dimension.go`
(`Add`, `Dimensions.CanAdd`) — property C33. Core Lean only (linked into the driver).

The model transcribes the code **with the repair `fixes/C33-largestset-compaction.patch`**
(two-pointer compaction). The compaction loop of the unrepaired code is transcribed too
(`compactOrig`), so that its defect is a theorem (`Props.C33.c33_original_counterexample`).

Machine integers: every `uint64` is a `Nat` `< 2^64`; the checked additions of
avalanchego `math.Add` are modelled by `checkedAdd` (`none` = overflow error).
-/
namespace HyperModel.LargestSet

/-- `fees.FeeDimensions` -/
def feeDimensions : Nat := 5

def two64 : Nat := 2 ^ 64

/-- `fees.Dimensions` (`[FeeDimensions]uint64`). Components are read with `get`, so a list of
any length denotes an array (missing entries are 0, extra ones are ignored). -/
abbrev Dims := List Nat

def get (d : Dims) (k : Nat) : Nat := d.getD k 0

/-- `Dimensions{}` -/
def zero : Dims := List.replicate feeDimensions 0

/-- avalanchego `math.Add[uint64]`: error iff the sum does not fit in 64 bits -/
def checkedAdd (a b : Nat) : Option Nat := if a + b < two64 then some (a + b) else none

/-- `Dimensions.CanAdd(a, l)`: for each dimension `consumed, err := Add(d[i], a[i])`;
`err != nil → false`; `consumed > l[i] → false`. -/
def canAdd (d a l : Dims) : Bool :=
  (List.range feeDimensions).all fun k =>
    match checkedAdd (get d k) (get a k) with
    | none => false
    | some c => !(decide (c > get l k))

/-- `fees.Add(a, b)`: component-wise checked addition, `none` = the error return -/
def add (a b : Dims) : Option Dims :=
  if (List.range feeDimensions).all (fun k => (checkedAdd (get a k) (get b k)).isSome) then
    some ((List.range feeDimensions).map fun k => get a k + get b k)
  else none

/-- `int64(x)` for a `uint64` x, then squared by `d.Mul(d, d)`: the conversion is a
reinterpretation of the bits, so values `≥ 2^63` become negative; only the square is used. -/
def sqInt64 (x : Nat) : Nat :=
  let a := if x < 2 ^ 63 then x else two64 - x
  a * a

/-- the `size` big.Int of one input vector: `Σ_k (65536 * int64(d[k])^2) / int64(limit[k])^2`
over the dimensions with `limit[k] > 0` (both squares are non-negative, so `big.Int.Div`
is floor division). -/
def weight (limit d : Dims) : Nat :=
  ((List.range feeDimensions).map fun k =>
    if get limit k > 0 then (sqInt64 (get d k) * 65536) / sqInt64 (get limit k) else 0).sum

/-- `dimensions[i]` -/
def dimAt (dims : List Dims) (i : Nat) : Dims := dims.getD i zero

/-- insertion step of the stable sort: `x` (which preceded everything in the list) goes in
front of the first element whose weight is not smaller -/
def ins (w : Nat → Nat) (x : Nat) : List Nat → List Nat
  | [] => [x]
  | y :: ys => if w x ≤ w y then x :: y :: ys else y :: ins w x ys

/-- stable sort by ascending weight (the result of `sort.SliceStable` is determined by its
specification: sorted, and equal elements keep their order) -/
def isort (w : Nat → Nat) : List Nat → List Nat
  | [] => []
  | x :: xs => ins w x (isort w xs)

/-- `outIndices` after `sort.SliceStable(... weights[a] < weights[b])`: the indices
`0..n-1` stably sorted by ascending weight. -/
def sortedIdx (dims : List Dims) (limit : Dims) : List Nat :=
  isort (fun i => weight limit (dimAt dims i)) (List.range dims.length)

/-- The greedy loop: walks the sorted indices, overwrites an index whose vector cannot be
added with the sentinel `n = len(dimensions)`, otherwise adds the vector to the
accumulator. `none` = the `return []uint64{}, Dimensions{}` after an `Add` error. -/
def mark (dims : List Dims) (limit : Dims) (n : Nat) : List Nat → Dims → Option (List Nat × Dims)
  | [], acc => some ([], acc)
  | i :: rest, acc =>
    if canAdd acc (dimAt dims i) limit then
      match add acc (dimAt dims i) with
      | none => none
      | some acc' =>
        match mark dims limit n rest acc' with
        | none => none
        | some (ms, t) => some (i :: ms, t)
    else
      match mark dims limit n rest acc with
      | none => none
      | some (ms, t) => some (n :: ms, t)

/-- repaired compaction (two-pointer copy of every entry that is not the sentinel) -/
def compact (n : Nat) (ms : List Nat) : List Nat := ms.filter (· != n)

/-- `LargestSet(dimensions, limit)` (repaired code) -/
def largestSet (dims : List Dims) (limit : Dims) : List Nat × Dims :=
  match mark dims limit dims.length (sortedIdx dims limit) zero with
  | none => ([], zero)
  | some (ms, t) => (compact dims.length ms, t)

/-! ### The compaction loop of the unrepaired code, transcribed statement by statement

```go
j := 0
for i := 0; i < len(out)-j; i++ {
    if out[i] == n { j++; i--; continue }
    out[i] = out[i+j]
}
out = out[:len(out)-j]
```
`i--; continue` followed by the loop's `i++` leaves `i` unchanged. -/
def compactOrigLoop (n : Nat) : Nat → List Nat → Nat → Nat → List Nat
  | 0, out, _, j => out.take (out.length - j)
  | fuel + 1, out, i, j =>
    if i < out.length - j then
      if out.getD i 0 == n then compactOrigLoop n fuel out i (j + 1)
      else compactOrigLoop n fuel (out.set i (out.getD (i + j) 0)) (i + 1) j
    else out.take (out.length - j)

def compactOrig (n : Nat) (ms : List Nat) : List Nat :=
  compactOrigLoop n (2 * ms.length + 1) ms 0 0

/-- `LargestSet` as it is in the unrepaired tree -/
def largestSetOrig (dims : List Dims) (limit : Dims) : List Nat × Dims :=
  match mark dims limit dims.length (sortedIdx dims limit) zero with
  | none => ([], zero)
  | some (ms, t) => (compactOrig dims.length ms, t)

end HyperModel.LargestSet
