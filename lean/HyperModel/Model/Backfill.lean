import HyperModel.Model.ValidityWindow
/-!
# Model of the validity-window backfill (C22)

Transcribes `BlockFetcherClient.FetchBlocks` (internal/validitywindow/client.go) and
`Syncer.Start` with its consumer goroutine (internal/validitywindow/syncer.go), driven by an
*adversarial list of peer events*: every loop iteration of the client that reaches
`FetchBlocksFromPeer` consumes one event = (the value `minTimestamp` holds from then on, the
peer's answer: an error or a list of raw byte strings). Nothing is assumed about the raw
strings; `parse` (the `BlockParser`) is a parameter.

`fixed = true` models the repaired loop (fixes/C22-stop-at-genesis.patch: also stop when
`lastBlock.GetHeight() == 0`); `fixed = false` is the code as found, which never terminates
once `lastBlock` is a genesis block whose timestamp is not below `minTimestamp`.
Core Lean only.
-/
namespace HyperModel.Backfill
open HyperModel.ValidityWindow

abbrev Raw := List UInt8

/-- A peer's answer to one `FetchBlocksFromPeer` call. `err` covers errors, timeouts and
"no node sampled" (all of them: back off and retry). -/
inductive Resp where
  | err
  | blocks (raws : List Raw)
deriving Repr

structure Event where
  newMin : Int
  resp : Resp
deriving Repr

/-- State of the `FetchBlocks` goroutine. -/
structure Client where
  last : Block            -- c.lastBlock
  min : Int               -- current value of *minTimestamp
  reqHeight : Nat         -- req.BlockHeight (uint64)
  reqMin : Int            -- req.MinTimestamp (written once, never refreshed)
  closed : Bool           -- close(resultChan) executed
  emitted : List Block    -- blocks sent on resultChan, in order

/-- `blk.GetHeight() - 1` on `uint64`. -/
def predU64 (h : Nat) : Nat := (h + 2 ^ 64 - 1) % 2 ^ 64

/-- First lines of the goroutine. -/
def Client.init (start : Block) (min : Int) : Client :=
  { last := start, min := min, reqHeight := predU64 start.height, reqMin := min,
    closed := false, emitted := [] }

/-- The stop test: `lastBlock.GetTimestamp() < minTimestamp.Load()`; the repaired code also
stops at height 0. -/
def stopCond (fixed : Bool) (b : Block) (min : Int) : Bool :=
  decide (b.ts < min) || (fixed && b.height == 0)

/-- Has the goroutine closed the channel, or will it at the top of the next iteration? -/
def Client.isClosed (fixed : Bool) (c : Client) : Bool := c.closed || stopCond fixed c.last c.min

/-- The `for _, raw := range response.Blocks` loop. -/
def processBlocks (fixed : Bool) (parse : Raw → Option Block) : Client → Nat → List Raw → Client
  | c, _, [] => c
  | c, expected, raw :: rest =>
    match parse raw with
    | none => c                                           -- parse error: break
    | some b =>
      if expected ≠ b.id then c                           -- not the expected parent: break
      else
        let c' := { c with last := b, emitted := c.emitted ++ [b] }
        if stopCond fixed b c.min then { c' with closed := true }
        else processBlocks fixed parse { c' with reqHeight := predU64 b.height } b.parent rest

/-- One iteration of the outer `for`. -/
def Client.step (fixed : Bool) (parse : Raw → Option Block) (c : Client) (ev : Event) : Client :=
  if c.isClosed fixed then { c with closed := true }
  else
    let c1 := { c with min := ev.newMin }
    match ev.resp with
    | .err => c1
    | .blocks raws => processBlocks fixed parse c1 c1.last.parent raws

def Client.run (fixed : Bool) (parse : Raw → Option Block) (c : Client) : List Event → Client
  | [] => c
  | ev :: rest => Client.run fixed parse (c.step fixed parse ev) rest

/-- `Syncer` state visible to the property. -/
structure Sync where
  vw : VW
  saved : List Block          -- SaveHistorical calls that succeeded, in order
  failed : Bool               -- errSaveHistoricalBlocks raised (consumer goroutine gone)
  consumed : Nat              -- number of emitted blocks already handed to the consumer
  client : Option Client      -- none: no fetch was started (window complete from local blocks)
  oldest : Block              -- s.oldestBlock = validityBlocks[0] of `backfillFromExisting`
  fwdDone : Bool              -- `UpdateSyncTarget` saw the full window: `Close()` (done + cancel)
  pendingMin : Option Int     -- value stored into `minTimestamp` by `UpdateSyncTarget` while the
                              -- client is parked in a fetch; the client reads it after that fetch

/-- `Syncer.Start(target)`: `backfillFromExisting` (= `populate`), then either done or start
fetching from `oldestBlock = validityBlocks[0]`. -/
def Sync.start (idx : Index) (W : Int) (v : VW) (fuel : Nat) (target : Block) : Sync :=
  let r := populate idx W v fuel target
  let oldest := r.2.1.head?.getD target
  { vw := r.1, saved := [], failed := false, consumed := 0, oldest := oldest, fwdDone := false,
    pendingMin := none,
    client := if r.2.2 then none else some (Client.init oldest (oldestAllowed W target.ts)) }

/-- The forward-completion test of `Syncer.accept`:
`blk.GetTimestamp() - s.oldestBlock.GetTimestamp() > validityWindow` (strict). -/
def forwardRule (W : Int) (oldest blk : Block) : Bool := decide (blk.ts - oldest.ts > W)

/-- `UpdateSyncTarget(target)`: `accept(target)` (rule above, then `TimeValidityWindow.Accept`);
when the window has been seen, `Close()`; otherwise store the new minimum timestamp. -/
def Sync.target (W : Int) (s : Sync) (t : Block) : Sync :=
  if forwardRule W s.oldest t then { s with vw := accept s.vw t, fwdDone := true }
  else { s with vw := accept s.vw t, pendingMin := some (oldestAllowed W t.ts) }

/-- The minimum timestamp the client sees after the fetch it is parked in: an explicit value
(environment), else what `UpdateSyncTarget` stored meanwhile, else unchanged. -/
def Sync.effMin (s : Sync) (explicit : Option Int) : Int :=
  match explicit, s.pendingMin, s.client with
  | some m, _, _ => m
  | none, some m, _ => m
  | none, none, some c => c.min
  | none, none, none => 0

/-- The consumer goroutine: `SaveHistorical` (fails from index `failAt` on) then
`AcceptHistorical`, for every block received from the channel. -/
def Sync.consume (failAt : Option Nat) (s : Sync) : List Block → Sync
  | [] => s
  | b :: rest =>
    if s.failed then s
    else if failAt == some s.consumed then { s with failed := true }
    else Sync.consume failAt
      { s with vw := acceptHistorical s.vw b, saved := s.saved ++ [b], consumed := s.consumed + 1 } rest

/-- One peer event followed by the consumer draining the channel. After `Close()` the fetch
context is cancelled: the client goroutine exits without taking another answer. -/
def Sync.step (fixed : Bool) (parse : Raw → Option Block) (failAt : Option Nat) (s : Sync)
    (ev : Event) : Sync :=
  if s.fwdDone then s else
  match s.client with
  | none => s
  | some c =>
    let c' := c.step fixed parse ev
    Sync.consume failAt { s with client := some c', pendingMin := none } (c'.emitted.drop s.consumed)

def Sync.run (fixed : Bool) (parse : Raw → Option Block) (failAt : Option Nat) (s : Sync) :
    List Event → Sync
  | [] => s
  | ev :: rest => Sync.run fixed parse failAt (s.step fixed parse failAt ev) rest

/-- `doneChan` closed: no fetch needed, forward sync saw the window, or the channel was closed
and drained. -/
def Sync.done (fixed : Bool) (s : Sync) : Bool :=
  s.fwdDone ||
  match s.client with
  | none => true
  | some c => c.isClosed fixed && !s.failed

end HyperModel.Backfill
