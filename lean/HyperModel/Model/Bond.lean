/-!
# Fee bonds (C38) — `internal/chain/bond.go` (`Bonder`) and `x/fdsmr/node.go` (`Node`)

Transcription of the *repaired* `Bonder.Bond` (see `/verif/fixes/C38-bond-idempotent.patch`:
a transaction that already has a fee record is not bonded a second time) together with the
code as it was before the repair (`bondOrig`), which is kept for the counterexample theorem.

Modelling decisions (trusted base of C38):
* a transaction ID identifies the transaction's content (`utils.ToID` = SHA-256 of the signed
  bytes, which contain the sponsor, the expiry and the size): the db is keyed by the `Tx`
  value itself;
* the bonder db (`memdb`/`pebble`) is a finite map with atomic batches: `pending` per sponsor
  (absent = 0) and one fee record per tx ID;
* the max balance is read from the state view (`mutable.GetValue`), absent = 0;
* the fdsmr pending-expiry heap (`internal/eheap`, modelled in detail for C25) is used here only
  as a set keyed by tx ID: `Add` of an ID that is present is a no-op (`innerHeap.Push`),
  `SetMin v` removes and returns exactly the items with `expiry < v` (the pop order does not
  matter: the unbonds commute), `Has` is membership;
* `uint64` arithmetic: `safemath.Mul/Add` fail on overflow, `pendingBalance -= fee` wraps.
-/
namespace HyperModel.Bond

/-- 2^64 -/
def U64 : Nat := 18446744073709551616

structure Tx where
  nonce : Nat
  sponsor : Nat
  size : Nat
  expiry : Int
deriving DecidableEq, Repr

abbrev Recs := List (Tx × Nat)

/-- `db.Get(txID)` -/
def getRec : Recs → Tx → Option Nat
  | [], _ => none
  | (k, v) :: rest, t => if k = t then some v else getRec rest t

/-- `batch.Delete(txID)` -/
def delRec : Recs → Tx → Recs
  | [], _ => []
  | (k, v) :: rest, t => if k = t then delRec rest t else (k, v) :: delRec rest t

/-- Σ of the recorded fees of sponsor `a` -/
def sumFor : Recs → Nat → Nat
  | [], _ => 0
  | (k, v) :: rest, a => (if k.sponsor = a then v else 0) + sumFor rest a

/-- The bonder database. -/
structure Db where
  pending : Nat → Nat
  recs : Recs

def Db.empty : Db := { pending := fun _ => 0, recs := [] }

def setAt (f : Nat → Nat) (k v : Nat) : Nat → Nat := fun j => if j = k then v else f j

/-- `Bonder.Bond` after the repair: idempotent per tx ID. `maxBal` is the value read from the
state view for the tx's sponsor. Returns the new db and the `bool` result. -/
def bond (db : Db) (maxBal : Nat) (tx : Tx) (rate : Nat) : Db × Bool :=
  match getRec db.recs tx with
  | some _ => (db, true)                                   -- already bonded: nothing to do
  | none =>
    let pending := db.pending tx.sponsor
    let fee := tx.size * rate
    if U64 ≤ fee then (db, false)                          -- safemath.Mul overflow
    else if U64 ≤ pending + fee then (db, false)           -- safemath.Add overflow
    else if maxBal < pending + fee then (db, false)        -- updatedBalance > maxBalance
    else ({ pending := setAt db.pending tx.sponsor (pending + fee),
            recs := (tx, fee) :: db.recs }, true)

/-- `Bonder.Bond` before the repair: always adds the fee and overwrites the single record. -/
def bondOrig (db : Db) (maxBal : Nat) (tx : Tx) (rate : Nat) : Db × Bool :=
  let pending := db.pending tx.sponsor
  let fee := tx.size * rate
  if U64 ≤ fee then (db, false)
  else if U64 ≤ pending + fee then (db, false)
  else if maxBal < pending + fee then (db, false)
  else ({ pending := setAt db.pending tx.sponsor (pending + fee),
          recs := (tx, fee) :: delRec db.recs tx }, true)

/-- `Bonder.Unbond`: a no-op when the tx has no fee record; otherwise `pending -= fee`
(wrapping `uint64` subtraction) and the record is deleted, in one batch. -/
def unbond (db : Db) (tx : Tx) : Db :=
  match getRec db.recs tx with
  | none => db
  | some fee =>
    { pending := setAt db.pending tx.sponsor ((db.pending tx.sponsor + U64 - fee) % U64),
      recs := delRec db.recs tx }

/-- fdsmr `Node` + the state view's max-balance keys. -/
structure Node where
  db : Db
  maxBal : Nat → Nat
  heap : List Tx

def Node.init : Node := { db := Db.empty, maxBal := fun _ => 0, heap := [] }

/-- `ExpiryHeap.Add` (a present ID is not added again). -/
def heapAdd (h : List Tx) (t : Tx) : List Tx := if t ∈ h then h else h ++ [t]

/-- `Bonder.SetMaxBalance` -/
def setMax (n : Node) (s m : Nat) : Node := { n with maxBal := setAt n.maxBal s m }

/-- `Node.BuildChunk`'s loop: bond each tx, track the bonded ones in the heap *inside the loop*
and pass them on. Second component: the txs handed to the inner DSMR. The inner
`DSMR.BuildChunk` is called after the loop and its error is returned unchanged: when it fails
(duplicate chunk, rate limit, signing/storage error) the node state is the same as when it
succeeds — the txs are bonded *and tracked*, so that expiry/accept still release them
(`Op.buildFail`). -/
def buildChunk (bondF : Db → Nat → Tx → Nat → Db × Bool) (n : Node) (rate : Nat) : List Tx → Node × List Tx
  | [] => (n, [])
  | tx :: rest =>
    let r := bondF n.db (n.maxBal tx.sponsor) tx rate
    if r.2 then
      let q := buildChunk bondF { n with db := r.1, heap := heapAdd n.heap tx } rate rest
      (q.1, tx :: q.2)
    else buildChunk bondF { n with db := r.1 } rate rest

/-- `Node.Accept` of a block with timestamp `ts` whose executed chunks contain `txs`:
unbond everything `SetMin ts` removed, then unbond the executed txs that are (still) in the heap. -/
def accept (n : Node) (ts : Int) (txs : List Tx) : Node :=
  let expired := n.heap.filter (fun t => decide (t.expiry < ts))
  let heap' := n.heap.filter (fun t => !decide (t.expiry < ts))
  let db1 := expired.foldl unbond n.db
  let db2 := txs.foldl (fun db tx => if tx ∈ heap' then unbond db tx else db) db1
  { n with db := db2, heap := heap' }

/-- Node-level histories. -/
inductive Op where
  | setmax (s m : Nat)
  | build (rate : Nat) (txs : List Tx)
  /-- a `BuildChunk` whose inner `DSMR.BuildChunk` returns an error -/
  | buildFail (rate : Nat) (txs : List Tx)
  | accept (ts : Int) (txs : List Tx)

def step (n : Node) : Op → Node
  | .setmax s m => setMax n s m
  | .build rate txs => (buildChunk bond n rate txs).1
  | .buildFail rate txs => (buildChunk bond n rate txs).1
  | .accept ts txs => accept n ts txs

def run (n : Node) (ops : List Op) : Node := ops.foldl step n

/-- The same with the unrepaired `Bond`. -/
def stepOrig (n : Node) : Op → Node
  | .setmax s m => setMax n s m
  | .build rate txs => (buildChunk bondOrig n rate txs).1
  | .buildFail rate txs => (buildChunk bondOrig n rate txs).1
  | .accept ts txs => accept n ts txs

def runOrig (n : Node) (ops : List Op) : Node := ops.foldl stepOrig n

/-! ## Abstract specification: the set of unsettled bonds -/

/-- What the property talks about: the bonded transactions that are neither accepted nor
expired, each with the fee of its bonding; nothing else (no db, no heap, no subtraction). -/
structure Spec where
  maxBal : Nat → Nat
  unsettled : Recs

def Spec.init : Spec := { maxBal := fun _ => 0, unsettled := [] }

def Spec.pending (s : Spec) (a : Nat) : Nat := sumFor s.unsettled a

/-- one transaction offered for bonding -/
def Spec.offer (s : Spec) (rate : Nat) (tx : Tx) : Spec × Bool :=
  if (getRec s.unsettled tx).isSome then (s, true)
  else
    let fee := tx.size * rate
    if fee < U64 ∧ s.pending tx.sponsor + fee < U64 ∧ s.pending tx.sponsor + fee ≤ s.maxBal tx.sponsor
    then ({ s with unsettled := (tx, fee) :: s.unsettled }, true)
    else (s, false)

def Spec.build (s : Spec) (rate : Nat) : List Tx → Spec × List Tx
  | [] => (s, [])
  | tx :: rest =>
    let r := s.offer rate tx
    let q := Spec.build r.1 rate rest
    (q.1, if r.2 then tx :: q.2 else q.2)

/-- settlement: everything that expired before `ts` or was executed in the block -/
def Spec.accept (s : Spec) (ts : Int) (txs : List Tx) : Spec :=
  { s with unsettled := s.unsettled.filter (fun p => !decide (p.1.expiry < ts) && !decide (p.1 ∈ txs)) }

def Spec.step (s : Spec) : Op → Spec
  | .setmax a m => { s with maxBal := setAt s.maxBal a m }
  | .build rate txs => (s.build rate txs).1
  | .buildFail rate txs => (s.build rate txs).1   -- bonded is bonded, whether or not the chunk was built
  | .accept ts txs => s.accept ts txs

def Spec.run (s : Spec) (ops : List Op) : Spec := ops.foldl Spec.step s

end HyperModel.Bond
