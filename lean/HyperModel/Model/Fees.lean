import HyperModel.Model.Window
/-
Model of `internal/fees/manager.go` — properties C13 (fee-market rule, byte layout) and C12
(`Consume`). Core Lean only.

`computeNextPriceWindow` is transcribed **with the repair
`fixes/C13-fee-price-128bit.patch`** (`mulDivDiv`, saturating `baseDelta * (since/WindowSize)`).
The arithmetic of the unrepaired code (64-bit wrap-around of `previousPrice * delta` and of
`baseDelta *= since/WindowSize`) is transcribed as `nextPriceOrig`, so that its defect is a
theorem (`Props.C13.c13_wrap_witness`).

Machine integers are `Nat`s `< 2^64`; wrap-around is written `% two64`, checked operations
return `Option`. A run-time panic (integer division by zero) is `none`.
-/
namespace HyperModel.Fees
open HyperModel.Window

/-- `fees.FeeDimensions` -/
def feeDimensions : Nat := 5

/-- `fees.Dimensions`, read with `dget` (missing entries are 0) -/
abbrev Dims := List Nat
def dget (d : Dims) (k : Nat) : Nat := d.getD k 0

/-- avalanchego `math.Add[uint64]` -/
def checkedAdd (a b : Nat) : Option Nat := if a + b < two64 then some (a + b) else none

/-! ## Byte layout of `Manager.raw`

`[timestamp][price₀][window₀ (10 slots)][lastConsumed₀] … [price₄][window₄][lastConsumed₄]`,
every field a big-endian `uint64`: 61 words = 488 bytes. All accesses are word-aligned, so
the manager state is modelled as its list of words (`Raw`); `wordsToBytes` / `bytesToWords`
is the `binary.BigEndian` encoding. -/

abbrev Raw := List Nat

/-- words per dimension: `dimensionStateLen / 8 = 1 + WindowSize + 1` -/
def dimWords : Nat := 1 + windowSize + 1
/-- `len(raw) / 8` -/
def rawWords : Nat := 1 + feeDimensions * dimWords

def getWord (r : Raw) (i : Nat) : Nat := r.getD i 0

/-- `binary.BigEndian.PutUint64` -/
def be64 (n : Nat) : List UInt8 :=
  [UInt8.ofNat (n / 2 ^ 56 % 256), UInt8.ofNat (n / 2 ^ 48 % 256), UInt8.ofNat (n / 2 ^ 40 % 256),
   UInt8.ofNat (n / 2 ^ 32 % 256), UInt8.ofNat (n / 2 ^ 24 % 256), UInt8.ofNat (n / 2 ^ 16 % 256),
   UInt8.ofNat (n / 2 ^ 8 % 256), UInt8.ofNat (n % 256)]

/-- `binary.BigEndian.Uint64` -/
def readBE64 (a b c d e f g h : UInt8) : Nat :=
  a.toNat * 2 ^ 56 + b.toNat * 2 ^ 48 + c.toNat * 2 ^ 40 + d.toNat * 2 ^ 32 +
  e.toNat * 2 ^ 24 + f.toNat * 2 ^ 16 + g.toNat * 2 ^ 8 + h.toNat

def wordsToBytes : Raw → List UInt8
  | [] => []
  | w :: ws => be64 w ++ wordsToBytes ws

def bytesToWords : List UInt8 → Raw
  | a :: b :: c :: d :: e :: f :: g :: h :: rest => readBE64 a b c d e f g h :: bytesToWords rest
  | _ => []

/-- `NewManager(nil)`: all zero -/
def emptyRaw : Raw := List.replicate rawWords 0

/-- word index of `unitPrice(d)`: byte `8 + dimensionStateLen*d` -/
def priceIdx (d : Nat) : Nat := 1 + dimWords * d
/-- word index of slot `i` of `window(d)` -/
def windowIdx (d i : Nat) : Nat := 1 + dimWords * d + 1 + i
/-- word index of `lastConsumed(d)` -/
def consumedIdx (d : Nat) : Nat := 1 + dimWords * d + 1 + windowSize

def timestamp (r : Raw) : Nat := getWord r 0
def unitPrice (r : Raw) (d : Nat) : Nat := getWord r (priceIdx d)
def window (r : Raw) (d : Nat) : Window := (List.range windowSize).map fun i => getWord r (windowIdx d i)
def lastConsumed (r : Raw) (d : Nat) : Nat := getWord r (consumedIdx d)
def setUnitPrice (r : Raw) (d v : Nat) : Raw := r.set (priceIdx d) v
def setLastConsumed (r : Raw) (d v : Nat) : Raw := r.set (consumedIdx d) v

/-- the state a `Manager` encodes -/
structure DimState where
  price : Nat
  window : Window
  consumed : Nat
deriving Repr, DecidableEq

structure FeeState where
  ts : Nat
  dims : List DimState
deriving Repr, DecidableEq

def encodeDim (s : DimState) : Raw :=
  s.price :: ((List.range windowSize).map (slot s.window) ++ [s.consumed])

def encodeDims : List DimState → Raw
  | [] => []
  | s :: ss => encodeDim s ++ encodeDims ss

def encode (s : FeeState) : Raw := s.ts :: encodeDims s.dims

def decodeDim (r : Raw) (d : Nat) : DimState :=
  { price := unitPrice r d, window := window r d, consumed := lastConsumed r d }

def decode (r : Raw) : FeeState :=
  { ts := timestamp r, dims := (List.range feeDimensions).map (decodeDim r) }

/-! ## Price rule -/

/-- `math/bits.Mul64`: (hi, lo) of the 128-bit product -/
def mul64 (a b : Nat) : Nat × Nat := ((a * b) / two64, (a * b) % two64)

/-- `math/bits.Div64(hi, lo, y)` for `y ≠ 0` and `hi < y` (otherwise it panics; the model
is only evaluated under that precondition — `Props.C13.mulDivDiv_pre`): the quotient of
`hi·2^64 + lo` by `y`. -/
def div64 (hi lo y : Nat) : Nat := ((hi * two64 + lo) / y) % two64

/-- `mulDivDiv(a, b, c, d)` of the repair; `none` = division-by-zero panic -/
def mulDivDiv (a b c d : Nat) : Option Nat :=
  if c = 0 then none else
  let (hi, lo) := mul64 a b
  let qhi := hi / c
  let qlo := div64 (hi % c) lo c
  if d ≠ 0 ∧ qhi ≥ d then some maxU64
  else if d = 0 then none
  else some (div64 qhi qlo d)

/-- the price part of `computeNextPriceWindow` (repaired), given `total = Sum(window)` -/
def nextPrice (total price target denom minPrice since : Nat) : Option Nat :=
  let clampMin (p : Nat) : Nat := if p < minPrice then minPrice else p
  if total > target then
    match mulDivDiv price (total - target) target denom with
    | none => none
    | some bd0 =>
      let bd := if bd0 < 1 then 1 else bd0
      -- math.Add(nextPrice, baseDelta); overflow → MaxUint64
      some (clampMin (if price + bd < two64 then price + bd else maxU64))
  else if total < target then
    match mulDivDiv price (target - total) target denom with
    | none => none
    | some bd0 =>
      let bd := if bd0 < 1 then 1 else bd0
      let bd :=
        if since > windowSize then
          let (hi, lo) := mul64 bd (since / windowSize)
          if hi ≠ 0 then maxU64 else lo
        else bd
      -- math.Sub(nextPrice, baseDelta); underflow → 0
      some (clampMin (if price < bd then 0 else price - bd))
  else some (clampMin price)

/-- the same part of the **unrepaired** code: `x := previousPrice * delta` and
`baseDelta *= since / WindowSize` are 64-bit multiplications that wrap -/
def nextPriceOrig (total price target denom minPrice since : Nat) : Option Nat :=
  let clampMin (p : Nat) : Nat := if p < minPrice then minPrice else p
  if total > target then
    if target = 0 ∨ denom = 0 then none else
    let x := (price * (total - target)) % two64
    let bd0 := x / target / denom
    let bd := if bd0 < 1 then 1 else bd0
    some (clampMin (if price + bd < two64 then price + bd else maxU64))
  else if total < target then
    if target = 0 ∨ denom = 0 then none else
    let x := (price * (target - total)) % two64
    let bd0 := x / target / denom
    let bd := if bd0 < 1 then 1 else bd0
    let bd := if since > windowSize then (bd * (since / windowSize)) % two64 else bd
    some (clampMin (if price < bd then 0 else price - bd))
  else some (clampMin price)

/-- the window part of `computeNextPriceWindow`: roll by `since`, then add the parent's
consumption into slot `WindowSize-1-since` when `since < WindowSize` -/
def nextWindow (w : Window) (consumed since : Nat) : Window :=
  let nw := roll w since
  if since < windowSize then update nw (windowSize - 1 - since) consumed else nw

/-- `computeNextPriceWindow` (repaired) -/
def computeNextPriceWindow (w : Window) (consumed price target denom minPrice since : Nat) :
    Option (Nat × Window) :=
  let nw := nextWindow w consumed since
  match nextPrice (sum nw) price target denom minPrice since with
  | none => none
  | some p => some (p, nw)

/-- `int64(x)` of a `uint64` -/
def toInt64 (x : Nat) : Int := if x < 2 ^ 63 then (x : Int) else (x : Int) - (two64 : Int)

/-- `uint64(x)` of an `int64` (or of a wrapped `int64` difference) -/
def toUint64 (x : Int) : Nat := (x % (two64 : Int)).toNat

/-- the per-dimension loop of `ComputeNext` -/
def computeNextDims (r : Raw) (targets denoms mins : Dims) (since : Nat) : List Nat → Option Raw
  | [] => some []
  | d :: rest =>
    match computeNextPriceWindow (window r d) (lastConsumed r d) (unitPrice r d)
        (dget targets d) (dget denoms d) (dget mins d) since with
    | none => none
    | some (p, nw) =>
      match computeNextDims r targets denoms mins since rest with
      | none => none
      | some tail => some (encodeDim { price := p, window := nw, consumed := 0 } ++ tail)

/-- `Manager.ComputeNext(currTime, rules)`; `currTime` is an `int64` in milliseconds,
`/ MillisecondsPerSecond` truncates toward zero, the difference wraps, `since` is its
`uint64` reinterpretation. `lastConsumed` of the result is 0. -/
def computeNext (r : Raw) (currTime : Int) (targets denoms mins : Dims) : Option Raw :=
  let lastSec := toInt64 (timestamp r)
  let currSec := currTime.tdiv 1000
  let since := toUint64 (currSec - lastSec)
  match computeNextDims r targets denoms mins since (List.range feeDimensions) with
  | none => none
  | some ds => some (toUint64 currSec :: ds)

/-! ## `Consume` (C12) -/

/-- first loop of `Consume`: the first dimension that overflows or exceeds the limit -/
def consumeCheck (r : Raw) (d l : Dims) : List Nat → Option Nat
  | [] => none
  | i :: rest =>
    match checkedAdd (lastConsumed r i) (dget d i) with
    | none => some i
    | some c => if c > dget l i then some i else consumeCheck r d l rest

/-- second loop ("commit"): returns the failing dimension, if an addition overflowed, and
the raw state as far as it was written -/
def consumeCommit (d : Dims) : List Nat → Raw → Option Nat × Raw
  | [], r => (none, r)
  | i :: rest, r =>
    match checkedAdd (lastConsumed r i) (dget d i) with
    | none => (some i, r)
    | some c => consumeCommit d rest (setLastConsumed r i c)

/-- `Manager.Consume(d, l)` → `((ok, dimension), state afterwards)` -/
def consume (r : Raw) (d l : Dims) : (Bool × Nat) × Raw :=
  match consumeCheck r d l (List.range feeDimensions) with
  | some i => ((false, i), r)
  | none =>
    match consumeCommit d (List.range feeDimensions) r with
    | (some i, r') => ((false, i), r')
    | (none, r') => ((true, 0), r')

/-- `Manager.UnitsConsumed()` -/
def unitsConsumed (r : Raw) : Dims := (List.range feeDimensions).map (lastConsumed r)

/-- `Manager.UnitPrices()` -/
def unitPrices (r : Raw) : Dims := (List.range feeDimensions).map (unitPrice r)

/-- `Manager.Fee(d)`: `Σ price_i * d_i` with checked `Mul`/`Add`; `none` = overflow error -/
def feeLoop (r : Raw) (d : Dims) : List Nat → Nat → Option Nat
  | [], fee => some fee
  | i :: rest, fee =>
    if unitPrice r i * dget d i < two64 then
      match checkedAdd (unitPrice r i * dget d i) fee with
      | none => none
      | some f => feeLoop r d rest f
    else none

def fee (r : Raw) (d : Dims) : Option Nat := feeLoop r d (List.range feeDimensions) 0

end HyperModel.Fees
