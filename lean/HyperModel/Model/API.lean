import HyperModel.Generated.FactsC30
/-
Model of the read-only action APIs vs on-chain execution (property C30) — core Lean only.

  api/jsonrpc/server.go : `ExecuteActions` (one view per action, scoped to that action's
                          declared keys, over storage + the shared committed diff),
                          `SimulateActions` (one view with the recording scope `SimulatedKeys`)
  state/keys.go         : `Permissions.Has`, `Keys.Add`, `SimulatedKeys.Has`
  state/tstate          : `GetValue / Insert / Remove` scope checks (the view itself is taken as
                          a map with checkpoints — property C04)
  chain/transaction.go  : `Transaction.Execute` (fee first, then all actions in ONE view scoped
                          to the union of the declared keys, rollback to the post-fee state on
                          the first failing action)

Actions are programs over the `state.Mutable` interface (deep embedding), so that "any action"
is quantified over. A permission error aborts the action (assumption: actions return the
errors of the state interface).
-/
namespace HyperModel.API

abbrev Key := Nat
abbrev Val := Nat
abbrev Out := List Nat
abbrev State := Key → Option Val

/-- `state.Permissions` bits: Read = 1, Allocate = 2|Read, Write = 4|Read -/
structure Perm where
  r : Bool
  a : Bool
  w : Bool
  deriving DecidableEq, Repr

namespace Perm
def none : Perm := ⟨false, false, false⟩
def read : Perm := ⟨true, false, false⟩
def allocate : Perm := ⟨true, true, false⟩
def write : Perm := ⟨true, false, true⟩
def all : Perm := ⟨true, true, true⟩
/-- `k[key] |= permission` -/
def or (p q : Perm) : Perm := ⟨p.r || q.r, p.a || q.a, p.w || q.w⟩
/-- `p.Has(require)`: `require &^ p == 0` -/
def has (p require : Perm) : Bool := (!require.r || p.r) && (!require.a || p.a) && (!require.w || p.w)
def toNat (p : Perm) : Nat := (if p.r then 1 else 0) + (if p.a then 2 else 0) + (if p.w then 4 else 0)
def ofNat (n : Nat) : Perm := ⟨n % 2 == 1, (n / 2) % 2 == 1, (n / 4) % 2 == 1⟩
end Perm

/-- `state.Keys` as a total function (absent key = no permission) -/
abbrev Scope := Key → Perm

def Scope.empty : Scope := fun _ => Perm.none
/-- `Keys.Add` -/
def Scope.add (sc : Scope) (k : Key) (p : Perm) : Scope := fun j => if j = k then (sc j).or p else sc j
def Scope.union (a b : Scope) : Scope := fun k => (a k).or (b k)
/-- pointwise `Has` -/
def Scope.le (a b : Scope) : Prop := ∀ k p, (a k).has p = true → (b k).has p = true

def upd (s : State) (k : Key) (v : Option Val) : State := fun j => if j = k then v else s j

/-- an action's `Execute`, as a program over `state.Mutable` -/
inductive Prog
  | ret (out : Out)
  | fail (e : Nat)
  | get (k : Key) (cont : Option Val → Prog)
  | put (k : Key) (v : Val) (cont : Prog)
  | del (k : Key) (cont : Prog)

inductive Res
  | ok (out : Out)
  | err (e : Nat)
  /-- `tstate.ErrInvalidKeyOrPermission` -/
  | perm
  deriving DecidableEq, Repr

/-- run a program in a `TStateView` with scope `sc` whose visible content is `s`
(`GetValue`: Read; `Insert`: Write, and Allocate when the key does not exist; `Remove`: Write) -/
def run (sc : Scope) : Prog → State → Res × State
  | .ret o, s => (.ok o, s)
  | .fail e, s => (.err e, s)
  | .get k c, s => if (sc k).has Perm.read then run sc (c (s k)) s else (.perm, s)
  | .put k v c, s =>
    if !(sc k).has Perm.write then (.perm, s) else
    match s k with
    | some _ => run sc c (upd s k (some v))
    | none => if (sc k).has Perm.allocate then run sc c (upd s k (some v)) else (.perm, s)
  | .del k c, s => if !(sc k).has Perm.write then (.perm, s) else run sc c (upd s k none)

/-- the same under `state.SimulatedKeys`: every check passes and is recorded -/
def runRec : Prog → State → Scope → Res × State × Scope
  | .ret o, s, rc => (.ok o, s, rc)
  | .fail e, s, rc => (.err e, s, rc)
  | .get k c, s, rc => runRec (c (s k)) s (rc.add k Perm.read)
  | .put k v c, s, rc =>
    match s k with
    | some _ => runRec c (upd s k (some v)) (rc.add k Perm.write)
    | none => runRec c (upd s k (some v)) ((rc.add k Perm.write).add k Perm.allocate)
  | .del k c, s, rc => runRec c (upd s k none) (rc.add k Perm.write)

/-- an action instantiated at its actor: declared `StateKeys` and `Execute` -/
structure Action where
  keys : Scope
  prog : Prog

/-- outputs produced so far, and the error that stopped the list (if any) -/
abbrev Reply := List Out × Option Res

/-- `JSONRPCServer.ExecuteActions`: each action in its own view scoped to its own declared
keys, committed into the shared diff; the first failing action ends the call with
`reply.Error` set and the outputs so far. -/
def executeActions (s : State) : List Action → Reply
  | [] => ([], none)
  | a :: rest =>
    match run a.keys a.prog s with
    | (.ok o, s') => let (os, e) := executeActions s' rest; (o :: os, e)
    | (r, _) => ([], some r)

/-- the action loop of `Transaction.Execute`: ONE view with the transaction's scope -/
def txLoop (sc : Scope) (s : State) : List Action → Reply
  | [] => ([], none)
  | a :: rest =>
    match run sc a.prog s with
    | (.ok o, s') => let (os, e) := txLoop sc s' rest; (o :: os, e)
    | (r, _) => ([], some r)

/-- `Transaction.StateKeys`: union of the actions' keys and the sponsor's fee keys -/
def txScope (acts : List Action) (sponsor : Scope) : Scope :=
  fun k => (acts.foldl (fun p a => p.or (a.keys k)) Perm.none).or (sponsor k)

/-- `Transaction.Execute` outputs: `none` = the fee could not be deducted (Execute errors);
otherwise the action loop runs on the post-fee state `deduct s`. -/
def onchain (deduct : State → Option State) (sponsor : Scope) (s : State) (acts : List Action) :
    Option Reply :=
  (deduct s).map fun s' => txLoop (txScope acts sponsor) s' acts

/-- `JSONRPCServer.SimulateActions`: one recording view; per action the output and the keys
recorded while it ran (`clear(scope)` between actions); any failing action fails the call. -/
def simulateActions (s : State) : List Prog → Option (List (Out × Scope))
  | [] => some []
  | p :: rest =>
    match runRec p s Scope.empty with
    | (.ok o, s', rc) => (simulateActions s' rest).map ((o, rc) :: ·)
    | _ => none

/-! ### the entry points with their admission checks

`ExecuteActions` rejects an empty list and a list longer than `rules.GetMaxActionsPerTx()`;
a transaction with too many actions fails `PreExecute` (`ErrTooManyActions`).
`SimulateActions` rejects only the empty list: it has NO upper bound, so lists above the limit
simulate although they can never be on chain (outside the property's quantifier "up to the
action limit"; tie-checked, see `simulate_above_limit` in Props). -/

def maxActions : Nat := HyperModel.Generated.C30.maxActionsPerTx

def executeActionsRPC (s : State) (acts : List Action) : Option Reply :=
  if acts.isEmpty || acts.length > maxActions then none else some (executeActions s acts)

def simulateActionsRPC (s : State) (progs : List Prog) : Option (List (Out × Scope)) :=
  if progs.isEmpty then none else simulateActions s progs

inductive TxRes
  | tooMany
  | unpayable
  | executed (r : Reply)

def onchainTx (deduct : State → Option State) (sponsor : Scope) (s : State) (acts : List Action) : TxRes :=
  if acts.length > maxActions then .tooMany else
  match onchain deduct sponsor s acts with
  | none => .unpayable
  | some r => .executed r

/-! ### the reference VM's `Transfer` as a program (examples/morpheusvm) -/

def u64max : Nat := 2 ^ 64 - 1

/-- `Transfer.Execute` for actor `a`, receiver `t`, value `v` (keys = account numbers;
errors: 1 = value zero, 2 = invalid balance). Balances are never stored as 0 (the key is
removed). -/
def transferProg (a t v : Nat) : Prog :=
  if v = 0 then .fail 1 else
  .get a fun sb =>
    match sb with
    | none => .fail 2
    | some bal =>
      if bal < v then .fail 2 else
      let nb := bal - v
      let after := Prog.get t fun rb =>
        let rbal := rb.getD 0
        if rbal + v > u64max then .fail 2 else .put t (rbal + v) (.ret [nb, rbal + v])
      if nb = 0 then .del a after else .put a nb after

/-- `Transfer.StateKeys` -/
def transferKeys (a t : Nat) : Scope := (Scope.empty.add a Perm.write).add t Perm.all

def transfer (a t v : Nat) : Action := ⟨transferKeys a t, transferProg a t v⟩

/-- morpheus `BalanceHandler.Deduct` (`SubBalance`) and `SponsorStateKeys` -/
def deductFee (sp fee : Nat) (s : State) : Option State :=
  match s sp with
  | none => none
  | some bal => if bal < fee then none else
    if bal - fee = 0 then some (upd s sp none) else some (upd s sp (some (bal - fee)))

def sponsorKeys (sp : Nat) : Scope := Scope.empty.add sp Perm.write

/-! ### the framework's `chaintest.TestAction` as a program -/

/-- `for _, key := range t.ReadKeys { GetValue }` (a missing key is an error: 3 = not found) -/
def readsThen : List Key → Prog → Prog
  | [], c => c
  | k :: r, c => .get k fun v => match v with | none => .fail 3 | some _ => readsThen r c

/-- `for i, key := range t.WriteKeys { Insert }` -/
def writesThen : List (Key × Val) → Prog → Prog
  | [], c => c
  | (k, v) :: r, c => .put k v (writesThen r c)

/-- `TestAction.Execute` (9 = ErrTestActionExecute; the output is empty) -/
def testProg (execErr : Bool) (reads : List Key) (writes : List (Key × Val)) : Prog :=
  if execErr then .fail 9 else readsThen reads (writesThen writes (.ret []))

/-- `TestAction.StateKeys`: the specified keys, later entries overwrite earlier ones -/
def testKeys (ks : List (Key × Perm)) : Scope :=
  ks.foldl (fun sc kp => fun j => if j = kp.1 then kp.2 else sc j) Scope.empty

def testAction (ks : List (Key × Perm)) (execErr : Bool) (reads : List Key) (writes : List (Key × Val)) : Action :=
  ⟨testKeys ks, testProg execErr reads writes⟩

end HyperModel.API
