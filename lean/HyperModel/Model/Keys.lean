import HyperModel.Generated.FactsC40
/-!
Model of `keys/keys.go` (properties C40, C04, C05). Core Lean only.
The constants `chunkSize`, `consts.MaxUint16`, `consts.Uint16Len` are read from the running
Go code (`Generated/FactsC40.lean`), never typed in here.
-/
namespace HyperModel.Keys
open HyperModel.Generated.C40 (chunkSize maxUint16 uint16Len)

abbrev Bytes := List UInt8

/-- `keys.Valid(key)`: `len(key) >= consts.Uint16Len` -/
def valid (key : Bytes) : Bool := decide (uint16Len ≤ key.length)

/-- `binary.BigEndian.Uint16(b)`: the first two bytes of `b`, big endian (Go panics on a
shorter slice; callers guard with the length test, so the `0` arm is unreachable). -/
def be16 : Bytes → Nat
  | hi :: lo :: _ => hi.toNat * 256 + lo.toNat
  | _ => 0

/-- `keys.MaxChunks(key)`; `none` is Go's `(0, false)` -/
def maxChunks (key : Bytes) : Option Nat :=
  if key.length < uint16Len then none
  else some (be16 (key.drop (key.length - uint16Len)))

/-- `keys.numChunks(valueLen)` for a non-negative length; `none` is Go's `(0, false)` -/
def numChunksLen (valueLen : Nat) : Option Nat :=
  if valueLen = 0 then some 0
  else
    let raw := valueLen / chunkSize + 1
    if raw > maxUint16 then none else some raw

/-- `keys.numChunks(valueLen int)` on all of Go's `int`, including the negative lengths
`Encode` can be handed: Go's `/` truncates toward zero, the `raw > MaxUint16` test is signed
and the final `uint16(raw)` conversion wraps. -/
def numChunksInt (valueLen : Int) : Option Nat :=
  if 0 ≤ valueLen then numChunksLen valueLen.toNat
  else
    let raw : Int := -(((-valueLen).toNat / chunkSize : Nat) : Int) + 1
    some (raw % 65536).toNat

/-- `keys.NumChunks(value)` -/
def numChunks (value : Bytes) : Option Nat := numChunksLen value.length

/-- `keys.Verify(maxKeySize uint32, maxValueChunks uint16, key)`;
`uint32(len(key))` truncates. -/
def verify (maxKeySize maxValueChunks : Nat) (key : Bytes) : Bool :=
  if key.length % 2 ^ 32 > maxKeySize then false
  else match maxChunks key with
    | none => false
    | some keyChunks => decide (keyChunks ≤ maxValueChunks)

/-- `keys.VerifyValue(key, value)` with the value given by its length -/
def verifyValueLen (key : Bytes) (valueLen : Nat) : Bool :=
  match numChunksLen valueLen with
  | none => false
  | some valueChunks =>
    match maxChunks key with
    | none => false
    | some keyChunks => decide (valueChunks ≤ keyChunks)

/-- `keys.VerifyValue(key, value)` -/
def verifyValue (key value : Bytes) : Bool := verifyValueLen key value.length

/-- `binary.BigEndian.AppendUint16(nil, uint16(n))` -/
def u16be (n : Nat) : Bytes := [UInt8.ofNat (n / 256 % 256), UInt8.ofNat (n % 256)]

/-- `keys.Encode(key, maxSize)`; `none` is Go's `(nil, false)` -/
def encodeInt (key : Bytes) (maxSize : Int) : Option Bytes :=
  match numChunksInt maxSize with
  | none => none
  | some c => some (key ++ u16be c)

/-- `keys.Encode(key, maxSize)` for a non-negative size -/
def encode (key : Bytes) (maxSize : Nat) : Option Bytes :=
  match numChunksLen maxSize with
  | none => none
  | some c => some (key ++ u16be c)

/-- `keys.EncodeChunks(key, maxChunks uint16)` -/
def encodeChunks (key : Bytes) (maxChunks : Nat) : Bytes := key ++ u16be maxChunks

/-- `keys.DecodeChunks(key)` (the literal `2`, not `consts.Uint16Len`) -/
def decodeChunks (key : Bytes) : Option Nat :=
  if key.length < 2 then none else some (be16 (key.drop (key.length - 2)))

end HyperModel.Keys
