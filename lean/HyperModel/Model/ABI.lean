/-
Model of the *type description round trip* of the ABI (property C29) — core Lean only.

  abi/abi.go                      : `describeStruct`, `describeTypedStruct` (`describe`)
  abi/dynamic/reflect_marshal.go  : `getReflectType` (`reflectType`)

Go type → `describe` → ABI (names as strings) → `reflectType` → `reflect.StructOf` type.
`shape` is what avalanchego's linear codec and `encoding/json` depend on: field order, kinds,
array lengths, JSON names, and which leaves are named (text-marshalling) types.
Strings are `List Char` so that the prefix / regex parsing is ordinary list code.
-/
namespace HyperModel.ABI

abbrev Name := List Char

inductive Prim | u8 | u16 | u32 | u64 | i8 | i16 | i32 | i64 | str
  deriving DecidableEq, Repr

def Prim.name : Prim → Name
  | .u8 => "uint8".toList | .u16 => "uint16".toList | .u32 => "uint32".toList
  | .u64 => "uint64".toList | .i8 => "int8".toList | .i16 => "int16".toList
  | .i32 => "int32".toList | .i64 => "int64".toList | .str => "string".toList

def allPrims : List Prim := [.str, .u8, .u16, .u32, .u64, .i8, .i16, .i32, .i64]

def addressName : Name := "Address".toList
def boolName : Name := "bool".toList

/-- what `reflect.StructField` carries for one field -/
structure FieldMeta where
  goName : Name
  /-- `strings.Split(tag.Get("json"), ",")[0]` when the json tag is non-empty -/
  jsonTag : Option Name
  /-- tag `serialize:"true"` -/
  serialize : Bool
  /-- `field.Anonymous` -/
  embedded : Bool
  deriving DecidableEq, Repr

mutual
/-- Go types as far as `describeStruct` distinguishes them -/
inductive GoTy
  | prim (p : Prim)
  | bool
  /-- `codec.Address` (named `[33]byte`, text-marshalled) -/
  | address
  /-- any other named non-struct type (`state.Permissions`, `codec.Bytes`, `ids.ID`, …) -/
  | named (n : Name) (under : GoTy)
  | slice (t : GoTy)
  | array (n : Nat) (t : GoTy)
  | ptr (t : GoTy)
  | map (k v : GoTy)
  /-- struct; name `[]` = anonymous (as produced by `reflect.StructOf`) -/
  | struct (n : Name) (fs : Fields)
inductive Fields
  | nil
  | cons (m : FieldMeta) (t : GoTy) (rest : Fields)
end

def Fields.append : Fields → Fields → Fields
  | .nil, g => g
  | .cons m t r, g => .cons m t (r.append g)

def Fields.toList : Fields → List (FieldMeta × GoTy)
  | .nil => []
  | .cons m t r => (m, t) :: r.toList

def Fields.ofList : List (FieldMeta × GoTy) → Fields
  | [] => .nil
  | (m, t) :: r => .cons m t (Fields.ofList r)

/-! ### describe (abi/abi.go) -/

structure AType where
  name : Name
  fields : List (Name × Name)   -- (field name, type name)
  deriving DecidableEq, Repr

abbrev ABI := List AType

def natDigits (n : Nat) : Name := (Nat.toDigits 10 n)

/-- the `for fieldType.Name() == ""` loop: the printed type name; `none` = the loop panics
(`Elem()` of an anonymous struct). Pointers and maps are spelled `[]` like slices. -/
def typeName : GoTy → Option Name
  | .prim p => some p.name
  | .bool => some boolName
  | .address => some addressName
  | .named n _ => some n
  | .struct n _ => if n = [] then none else some n
  | .slice t => (typeName t).map (['[', ']'] ++ ·)
  | .array n t => (typeName t).map (('[' :: natDigits n) ++ ']' :: ·)
  | .ptr t => (typeName t).map (['[', ']'] ++ ·)
  | .map _ v => (typeName v).map (['[', ']'] ++ ·)

/-- the type left after the loop -/
def peel : GoTy → GoTy
  | .slice t => peel t
  | .array _ t => peel t
  | .ptr t => peel t
  | .map _ v => peel v
  | t => t

/-- `fieldName`: the json tag's first part when the tag is non-empty, else the Go name -/
def descName (m : FieldMeta) : Name := m.jsonTag.getD m.goName

/-- `describeStruct`: the field list (embedded structs flattened, untagged fields skipped) -/
def describeFields : Fields → Option (List (Name × Name))
  | .nil => some []
  | .cons m t rest =>
    if !m.serialize then describeFields rest else
    match m.embedded, t with
    | true, .struct _ fs' =>
      match describeFields fs', describeFields rest with
      | some a, some b => some (a ++ b)
      | _, _ => none
    | _, _ =>
      match typeName t, describeFields rest with
      | some tn, some b => some ((descName m, tn) :: b)
      | _, _ => none

mutual
/-- all named struct types reachable from a type through serialised fields
(`otherStructsSeen`, transitively: the work list of `describeTypedStruct`) -/
def structsOf : GoTy → List (Name × Fields)
  | .struct n fs => (n, fs) :: structsOfFields fs
  | .slice t => structsOf t
  | .array _ t => structsOf t
  | .ptr t => structsOf t
  | .map _ v => structsOf v
  | _ => []
def structsOfFields : Fields → List (Name × Fields)
  | .nil => []
  | .cons m t rest =>
    if !m.serialize then structsOfFields rest else
    if m.embedded then
      (match t with
        | .struct _ fs' => structsOfFields fs'
        | .slice t' => structsOf t'
        | .array _ t' => structsOf t'
        | .ptr t' => structsOf t'
        | .map _ v => structsOf v
        | _ => []) ++ structsOfFields rest
    else structsOf t ++ structsOfFields rest
end

/-- `describeTypedStruct` for one top-level struct: one ABI type per reachable struct
(order and duplicates are not observable through `FindTypeByName`, which takes the first). -/
def describeAll : List (Name × Fields) → Option ABI
  | [] => some []
  | (n, fs) :: r =>
    match describeFields fs, describeAll r with
    | some fl, some rest => some ({ name := n, fields := fl } :: rest)
    | _, _ => none

def describe (t : GoTy) : Option ABI :=
  match t with
  | .struct _ _ => describeAll (structsOf t)
  | _ => none

/-! ### reflectType (abi/dynamic/reflect_marshal.go: getReflectType) -/

def isDigit (c : Char) : Bool := c.isDigit

/-- `strconv.Atoi` on a digit string -/
def parseNat (ds : List Char) : Nat := Nat.ofDigitChars 10 ds 0

/-- `strings.HasPrefix(s, "[]")` / `TrimPrefix` -/
def slicePrefix? (s : Name) : Option Name :=
  match s with
  | a :: b :: rest => if a = '[' ∧ b = ']' then some rest else none
  | _ => none

/-- `fixedSizeArrayRegex = ^\[(\d+)\](.+)$` -/
def arrayRegex (s : Name) : Option (Nat × Name) :=
  match s with
  | '[' :: rest =>
    let ds := rest.takeWhile isDigit
    match rest.dropWhile isDigit with
    | ']' :: tail => if ds ≠ [] ∧ tail ≠ [] then some (parseNat ds, tail) else none
    | _ => none
  | _ => none

def upper (c : Char) : Char := if 'a' ≤ c ∧ c ≤ 'z' then Char.ofNat (c.toNat - 32) else c
def lower (c : Char) : Char := if 'A' ≤ c ∧ c ≤ 'Z' then Char.ofNat (c.toNat + 32) else c

/-- `cases.Title(language.English).String(name)` on ASCII identifier-like names -/
def title : Name → Name
  | [] => []
  | c :: cs => upper c :: cs.map lower

def isLetter (c : Char) : Bool := ('a' ≤ c && c ≤ 'z') || ('A' ≤ c && c ≤ 'Z') || c == '_'

/-- `reflect.StructOf` accepts a field name iff it is a valid exported identifier -/
def validGoName (n : Name) : Bool :=
  match n with
  | [] => false
  | c :: cs => ('A' ≤ c && c ≤ 'Z') && cs.all (fun d => isLetter d || isDigit d)

/-- field names for which `reflect.StructOf` does not panic: valid, exported, pairwise distinct -/
def namesOK (ns : List Name) : Bool := ns.all validGoName && ns.Nodup

inductive RErr | notFound | panic
  deriving DecidableEq, Repr

def dynMeta (fname : Name) : FieldMeta :=
  { goName := title fname, jsonTag := some fname, serialize := true, embedded := false }

def findType (abi : ABI) (n : Name) : Option AType := abi.find? (fun t => t.name == n)

/-- the `for i, field := range abiType.Fields` loop, `rt` = the recursive call -/
def mapFields (rt : Name → Except RErr GoTy) : List (Name × Name) → Except RErr (List (FieldMeta × GoTy))
  | [] => .ok []
  | (fn, tn) :: r =>
    match rt tn with
    | .error e => .error e
    | .ok t =>
      match mapFields rt r with
      | .error e => .error e
      | .ok l => .ok ((dynMeta fn, t) :: l)

/-- `getReflectType(abiTypeName, abi, cache)`; `fuel` bounds the recursion (the Go code does not
terminate on a recursive ABI). The cache is not observable. -/
def reflectType (abi : ABI) : Nat → Name → Except RErr GoTy
  | 0, _ => .error .notFound
  | fuel + 1, s =>
    match allPrims.find? (fun p => p.name == s) with
    | some p => .ok (.prim p)
    | none =>
    if s == boolName then .ok .bool else
    if s == addressName then .ok .address else
    match slicePrefix? s with
    | some rest => (reflectType abi fuel rest).map .slice
    | none =>
    match arrayRegex s with
    | some (n, rest) => (reflectType abi fuel rest).map (.array n)
    | none =>
    match findType abi s with
    | none => .error .notFound
    | some ty =>
      match mapFields (reflectType abi fuel) ty.fields with
      | .error e => .error e
      | .ok fl =>
        if namesOK (ty.fields.map (fun f => title f.1)) then .ok (.struct [] (Fields.ofList fl))
        else .error .panic

/-! ### shape -/

/-- JSON object key of a field as `encoding/json` sees it (`json:",…"` keeps the Go name) -/
def jsonName (m : FieldMeta) : Name :=
  match m.jsonTag with
  | some [] => m.goName
  | some n => n
  | none => m.goName

mutual
/-- the shape, as a normal form inside `GoTy`: struct and Go field names erased, JSON name made
explicit, embedded untagged structs flattened. -/
def shape : GoTy → GoTy
  | .prim p => .prim p
  | .bool => .bool
  | .address => .address
  | .named n u => .named n (shape u)
  | .slice t => .slice (shape t)
  | .array n t => .array n (shape t)
  | .ptr t => .ptr (shape t)
  | .map k v => .map (shape k) (shape v)
  | .struct _ fs => .struct [] (shapeFields fs)
def shapeFields : Fields → Fields
  | .nil => .nil
  | .cons m t rest =>
    let st := shape t
    let r := shapeFields rest
    let plain := Fields.cons
      { goName := [], jsonTag := some (jsonName m), serialize := m.serialize, embedded := false } st r
    match t with
    | .struct _ fs' =>
      if m.embedded && m.jsonTag.isNone then (shapeFields fs').append r else plain
    | _ => plain
end

mutual
def depth : GoTy → Nat
  | .named _ u => depth u + 1
  | .slice t => depth t + 1
  | .array _ t => depth t + 1
  | .ptr t => depth t + 1
  | .map k v => max (depth k) (depth v) + 1
  | .struct _ fs => depthFields fs + 1
  | _ => 1
def depthFields : Fields → Nat
  | .nil => 0
  | .cons _ t r => max (depth t) (depthFields r)
end

end HyperModel.ABI
