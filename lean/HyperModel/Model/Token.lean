import HyperModel.Model.Tx
/-!
# Model of the reference token VM (`examples/morpheusvm`)

`actions/transfer.go: Transfer.Execute` over `storage.SubBalance/AddBalance` (delete at zero,
overflow/underflow errors), executed by `Transaction.Execute` (`Model/Tx.lean`) with the
morpheus balance handler. Core Lean only. The state view is the abstract map-with-checkpoints
of `Model/Tx.lean` (relies on C04's refinement theorem).
-/
namespace HyperModel.Token
open HyperModel.Tx

/-- `storage.BalanceKey` -/
def bkey (a : Addr) : Key := Handler.morpheus.key a

/-- `TransferResult.Bytes()`: type id 0, then the two balances (linear codec, big endian) -/
def transferResult (sender receiver : Nat) : Val := [0] ++ (encU64 sender ++ encU64 receiver)

/-- `Transfer.Execute(actor)` for `Transfer{To, Value, Memo}` (only the memo length matters) -/
def transferProg (actor to : Addr) (value memoLen : Nat) : Prog :=
  if value = 0 then .fail .valuezero
  else if memoLen > 256 then .fail .memo
  else mSub (bkey actor) value fun sb => mAdd (bkey to) value fun rb => .done (transferResult sb rb)

structure Transfer where
  to : Addr
  value : Nat
  memoLen : Nat := 0

def Transfer.action (actor : Addr) (t : Transfer) : Action := { prog := transferProg actor t.to t.value t.memoLen }

/-- balance of an account as `storage.GetBalance` reports it when the record is well formed
(`0` when the key is absent); a malformed record counts as `0` (it can never be spent or
overwritten: every read of it fails). -/
def balOf (m : Store) (a : Addr) : Nat :=
  match m (bkey a) with
  | none => 0
  | some v => (decU64 v).getD 0

/-- total supply over a list of accounts -/
def total (m : Store) (accts : List Addr) : Nat := (accts.map (balOf m)).sum

/-- A block as the sequential semantics sees it: transactions applied one after the other to
the block-level state; a transaction whose `PreExecute`/`Execute` errors is not committed
(the builder skips it; for the processor the whole block is invalid). Returns the final state
and the fees of the committed transactions. -/
def runBlock (r : Rules) (prices : List Nat) (now : Int) :
    List ((Key → Nat) × Tx) → Store → Store × List Nat
  | [], cur => (cur, [])
  | (scope, tx) :: rest, cur =>
    match processTx r .morpheus prices now scope tx cur with
    | (cur', .done res) =>
      let out := runBlock r prices now rest cur'
      (out.1, res.fee :: out.2)
    | (cur', _) => runBlock r prices now rest cur'

/-- the same block executed on the layered state (one `TState` over the parent storage): every
transaction runs in a view over the block's visible map and commits into the block diff. -/
def runBlockB (r : Rules) (prices : List Nat) (now : Int) :
    List ((Key → Nat) × Tx) → Block → Block × List Nat
  | [], b => (b, [])
  | (scope, tx) :: rest, b =>
    match processTxB r .morpheus prices now scope tx b with
    | (b', .done res) =>
      let out := runBlockB r prices now rest b'
      (out.1, res.fee :: out.2)
    | (b', _) => runBlockB r prices now rest b'

end HyperModel.Token
