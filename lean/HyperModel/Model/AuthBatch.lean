/-
Model of block signature verification (property C16). Core Lean only.

Transcribes
* `auth/ed25519.go`: `ED25519AuthEngine.GetBatchVerifier`, `ED25519Batch.Add`, `ED25519Batch.Done`
* `chain/auth_batch.go`: `NewAuthBatch`, `AuthBatch.Add`, `authBatchWorker.start`, `AuthBatch.Done`
* `chain/processor.go`: `NewExecutionBlock` (authCounts), `verifySignatures`, `waitSignatures`
* the contract of a `workers.Job` (property C26): every submitted task runs at most once, the
  job reports an error iff some executed task failed, and if none fails all of them ran.

Cryptography is a parameter: `verify1 : α → Bool` says whether an item (digest, auth) verifies
one-by-one (`Auth.Verify`); a batch task over items `xs` is assumed to succeed iff
`xs.all verify1` (the single assumed law of `ed25519consensus.BatchVerifier`).
-/
namespace HyperModel.AuthBatch

/-- `ed25519.MinBatchSize` -/
def minBatchSize : Nat := 4

/-- auth type ids (`auth/consts.go`) -/
def ed25519ID : Nat := 0
def secp256r1ID : Nat := 1
def blsID : Nat := 2

/-- `auth.DefaultEngines()`: only ed25519 has a batch verifier -/
def defaultBatched (ty : Nat) : Bool := ty == ed25519ID

/-- `max(count/cores, ed25519.MinBatchSize)` (`GetBatchVerifier`); Go integer division,
`cores ≥ 1` (`count / 0` would panic in Go; Lean's `n / 0 = 0` is never used: see `Props.C16`). -/
def batchSizeOf (cores count : Nat) : Nat := max (count / cores) minBatchSize

/-- `ED25519Batch`. `batch = none` is the nil pointer; `some xs` a batch object holding `xs`. -/
structure EdBatch (α : Type) where
  batchSize : Nat
  total : Nat
  counter : Nat := 0
  totalCounter : Nat := 0
  batch : Option (List α) := none

/-- `ED25519Batch.Add`: returns the new state and the batch handed out for verification, if any.
Quirk kept: when the batch is full and `totalCounter ≥ total`, `b.batch` keeps pointing at the
batch that was just handed out. -/
def EdBatch.add {α} (b : EdBatch α) (x : α) : EdBatch α × Option (List α) :=
  let cur := (b.batch.getD []) ++ [x]          -- NewBatch if nil; batch.Add
  let counter := b.counter + 1
  let totalCounter := b.totalCounter + 1
  if counter = b.batchSize then
    let next := if totalCounter < b.total then some [] else some cur
    ({ b with counter := 0, totalCounter := totalCounter, batch := next }, some cur)
  else
    ({ b with counter := counter, totalCounter := totalCounter, batch := some cur }, none)

/-- `ED25519Batch.Done` -/
def EdBatch.done {α} (b : EdBatch α) : List (List α) :=
  match b.batch with
  | none => []
  | some xs => [xs]

/-- `authBatchWorker.start`: feed the items of one auth type in order; collect the batches that
`Add` hands to `job.Go`. -/
def feed {α} (b : EdBatch α) : List α → EdBatch α × List (List α)
  | [] => (b, [])
  | x :: xs =>
    let (b1, o) := b.add x
    let (b2, rest) := feed b1 xs
    (b2, o.toList ++ rest)

/-- Batches submitted for one batched auth type whose items (in block order) are `xs`:
those handed out during `Add` and the one handed out by `Done`. -/
def typeEarly {α} (cores : Nat) (xs : List α) : List (List α) :=
  (feed { batchSize := batchSizeOf cores xs.length, total := xs.length } xs).2

def typeDone {α} (cores : Nat) (xs : List α) : List (List α) :=
  (feed { batchSize := batchSizeOf cores xs.length, total := xs.length } xs).1.done

def typeTasks {α} (cores : Nat) (xs : List α) : List (List α) :=
  typeEarly cores xs ++ typeDone cores xs

/-- the auth type ids occurring in a block, each once (keys of `authCounts`) -/
def typesOf {α} (ty : α → Nat) (items : List α) : List Nat := (items.map ty).eraseDups

/-- All tasks submitted to the signature job for a block (`verifySignatures` + `AuthBatch.Done`),
each task given as the list of items it verifies: one singleton per item of an unbatched type
(`job.Go(auth.Verify)`), and the batches of every batched type
(`authCounts[t]` = number of items of type `t`, `cores = job.Workers()`). The order of tasks is
irrelevant to the job's result and not modelled (map iteration, goroutines). -/
def blockTasks {α} (ty : α → Nat) (batched : Nat → Bool) (cores : Nat) (items : List α) : List (List α) :=
  ((items.filter fun x => !batched (ty x)).map fun x => [x]) ++
  ((typesOf ty items).filter batched).flatMap fun t => typeTasks cores (items.filter fun x => ty x == t)

/-- a task succeeds iff every item in it verifies (assumed law of batch verification;
for a singleton this is `Auth.Verify`). -/
def taskOk {α} (verify1 : α → Bool) (task : List α) : Bool := task.all verify1

/-- Contract of `workers.Job` (C26) for submitted tasks `tasks`: `executed` are the tasks that
ran, in any order (a sub-multiset of `tasks`, so each at most once), `err` the reported outcome. -/
structure JobRun {α} (verify1 : α → Bool) (tasks executed : List (List α)) (err : Bool) : Prop where
  at_most_once : ∃ rest, (executed ++ rest).Perm tasks
  err_iff : err = true ↔ ∃ t ∈ executed, taskOk verify1 t = false
  all_ran_if_none_fails : (∀ t ∈ executed, taskOk verify1 t = true) → executed.Perm tasks

/-- The deterministic outcome used by the driver: `waitSignatures` returns nil. -/
def blockSigOk {α} (ty : α → Nat) (batched : Nat → Bool) (verify1 : α → Bool) (cores : Nat)
    (items : List α) : Bool :=
  (blockTasks ty batched cores items).all (taskOk verify1)

/-- A transaction as seen by block signature verification: the digest that is checked is the
transaction's *unsigned* bytes (`tx.UnsignedBytes()`), not its full bytes. -/
structure SigTx (M A : Type) where
  unsigned : M
  signedBytes : M
  auth : A

/-- the loop of `Processor.verifySignatures`: `batchVerifier.Add(tx.UnsignedBytes(), tx.Auth)`
for every transaction of the block, in block order -/
def blockItems {M A} (txs : List (SigTx M A)) : List (M × A) := txs.map fun tx => (tx.unsigned, tx.auth)

/-- `verifySignatures` + `waitSignatures` on a block: `verify msg auth` is `Auth.Verify(msg)`,
`tyOf auth` is `Auth.GetTypeID()` (`NewExecutionBlock` counts auth types over all txs). -/
def verifyBlockSigs {M A} (verify : M → A → Bool) (tyOf : A → Nat) (batched : Nat → Bool)
    (cores : Nat) (txs : List (SigTx M A)) : Bool :=
  blockSigOk (fun x => tyOf x.2) batched (fun x => verify x.1 x.2) cores (blockItems txs)

/-- One signature job on a pool: the submitted tasks, the tasks that ran, the reported verdict. -/
structure JobObs (α : Type) where
  tasks : List (List α)
  executed : List (List α)
  err : Bool

/-- Contract of `workers.Workers` for several jobs created on the SAME pool, in any order of
creation, submission and completion (blocks whose `Execute` returned early while their signature
job was still running, the next block's job already created, …): verdicts are *per job* — each
job's error is determined by its own executed tasks only (C26 `jobs_sequential` +
`error_iff_some_failed`); no error leaks into, or is wiped by, another job. -/
def PoolRun {α} (verify1 : α → Bool) (jobs : List (JobObs α)) : Prop :=
  ∀ j ∈ jobs, JobRun verify1 j.tasks j.executed j.err

end HyperModel.AuthBatch
