/-!
# Model of `internal/heap` (heap.go + inner_heap.go) on top of GOROOT `container/heap`

Core Lean only. Line-by-line transcription; names of the mirrored Go functions are given in
the doc comments.

## Encoding of the Go pointer graph

`innerHeap.items` is a `[]*Entry` and `innerHeap.lookup` a `map[ids.ID]*Entry` holding the
*same* pointers (`Push` stores the pointer in both, `Pop` deletes it from both). The model
keeps the entry objects (including their mutable `Index` field, which only `Swap` and the
caller of `Push` ever write) inline in the array `items`, and keeps the *key set* of
`lookup` as `lookup : ID → Bool`. `Get id` dereferences `lookup[id]`; because that pointer is
an element of `items`, the model finds it as the entry of `items` whose `id` is `id`
(`Array.find?`). That the two views agree (keys of `lookup` = ids in `items`, pairwise
distinct) is not assumed: it is theorem `heap_inv_preserved` in `Props/C25.lean`, and the tie
compares `Get/Has/Items` of the real structure after every operation.

IDs are natural numbers (the harness maps them to `ids.ID`s injectively); `V` is `int64`
in both users, modelled as `Int` (only compared, never computed with).
-/
namespace HyperModel.Heap

abbrev ID := Nat

/-- `heap.Entry[I,V]` -/
structure Entry (α : Type) where
  id : ID
  item : α
  val : Int
  /-- Go `Index int`; written by `Swap` and by whoever builds the entry for `Push`. -/
  index : Nat
  deriving Repr, BEq, DecidableEq

instance {α} [Inhabited α] : Inhabited (Entry α) := ⟨⟨0, default, 0, 0⟩⟩

/-- `innerHeap[I,V]` (and the `Heap` wrapper, which has no state of its own). -/
structure Heap (α : Type) where
  isMin : Bool
  items : Array (Entry α)
  /-- key set of the Go map `lookup` -/
  lookup : ID → Bool

variable {α : Type} [Inhabited α]

/-- `heap.New(items, isMinHeap)` -/
def Heap.new (isMin : Bool) : Heap α := { isMin := isMin, items := #[], lookup := fun _ => false }

/-- `innerHeap.Len` -/
def Heap.len (h : Heap α) : Nat := h.items.size

/-- `innerHeap.Less(i, j)` on the raw array. -/
def less (isMin : Bool) (a : Array (Entry α)) (i j : Nat) : Bool :=
  if isMin then decide (a[i]!.val < a[j]!.val) else decide (a[i]!.val > a[j]!.val)

/-- `innerHeap.Swap(i, j)`:
`items[i], items[j] = items[j], items[i]; items[i].Index = i; items[j].Index = j`. -/
def swap (a : Array (Entry α)) (i j : Nat) : Array (Entry α) :=
  let ei := a[i]!
  let ej := a[j]!
  (a.setIfInBounds i { ej with index := i }).setIfInBounds j { ei with index := j }

/-- `container/heap.up(h, j)`:
```
for { i := (j - 1) / 2 // parent
      if i == j || !h.Less(j, i) { break }
      h.Swap(i, j); j = i }
```
(`(0-1)/2 = 0` both in Go's truncating int division and in `Nat`.) -/
def up (isMin : Bool) (a : Array (Entry α)) (j : Nat) : Array (Entry α) :=
  let i := (j - 1) / 2
  if i = j ∨ less isMin a j i = false then a
  else up isMin (swap a i j) i
termination_by j
decreasing_by omega

/-- loop of `container/heap.down(h, i0, n)`; returns the array and the final `i`:
```
for { j1 := 2*i + 1
      if j1 >= n || j1 < 0 { break }          // j1 < 0 only after int overflow: unreachable
      j := j1
      if j2 := j1 + 1; j2 < n && h.Less(j2, j1) { j = j2 }
      if !h.Less(j, i) { break }
      h.Swap(i, j); i = j }
```
-/
def downLoop (isMin : Bool) (a : Array (Entry α)) (i n : Nat) : Array (Entry α) × Nat :=
  let j1 := 2 * i + 1
  if j1 ≥ n then (a, i)
  else
    let j := if j1 + 1 < n ∧ less isMin a (j1 + 1) j1 = true then j1 + 1 else j1
    if less isMin a j i = false then (a, i)
    else downLoop isMin (swap a i j) j n
termination_by n - i
decreasing_by all_goals (simp only [j] at *; split <;> omega)

/-- `container/heap.down(h, i0, n)` (`return i > i0`). -/
def down (isMin : Bool) (a : Array (Entry α)) (i0 n : Nat) : Array (Entry α) × Bool :=
  let r := downLoop isMin a i0 n
  (r.1, decide (r.2 > i0))

/-- `innerHeap.Get` (see the header for the pointer encoding). -/
def Heap.get (h : Heap α) (id : ID) : Option (Entry α) :=
  if h.lookup id then h.items.find? (fun e => e.id == id) else none

/-- `innerHeap.Has` -/
def Heap.has (h : Heap α) (id : ID) : Bool := h.lookup id

/-- `innerHeap.Push(x)`: ignored if the ID is already a key of `lookup`. -/
def Heap.innerPush (h : Heap α) (e : Entry α) : Heap α :=
  if h.has e.id then h
  else { h with items := h.items.push e, lookup := fun j => if j = e.id then true else h.lookup j }

/-- `innerHeap.Pop()`: drops the last array slot and its `lookup` key; returns it. -/
def Heap.innerPop (h : Heap α) : Heap α × Entry α :=
  let item := h.items[h.items.size - 1]!
  ({ h with items := h.items.pop, lookup := fun j => if j = item.id then false else h.lookup j }, item)

/-- `Heap.Push(e)` = `container/heap.Push(h.ih, e)` = `ih.Push(e); up(ih, ih.Len()-1)`.
Note that `up` also runs when `ih.Push` ignored a duplicate ID. -/
def Heap.push (h : Heap α) (e : Entry α) : Heap α :=
  let h1 := h.innerPush e
  { h1 with items := up h1.isMin h1.items (h1.items.size - 1) }

/-- `Heap.Pop()`: `nil` on an empty heap, otherwise `container/heap.Pop`:
`n := h.Len()-1; h.Swap(0, n); down(h, 0, n); return h.Pop()`. -/
def Heap.pop (h : Heap α) : Heap α × Option (Entry α) :=
  if h.items.size = 0 then (h, none)
  else
    let n := h.items.size - 1
    let a := swap h.items 0 n
    let a := (down h.isMin a 0 n).1
    let r := ({ h with items := a } : Heap α).innerPop
    (r.1, some r.2)

/-- `Heap.Remove(index)`: `nil` if `index >= len`, otherwise `container/heap.Remove`:
```
n := h.Len() - 1
if n != i { h.Swap(i, n); if !down(h, i, n) { up(h, i) } }
return h.Pop()
```
-/
def Heap.remove (h : Heap α) (i : Nat) : Heap α × Option (Entry α) :=
  if i ≥ h.items.size then (h, none)
  else
    let n := h.items.size - 1
    let a :=
      if n ≠ i then
        let a := swap h.items i n
        let d := down h.isMin a i n
        if d.2 = false then up h.isMin d.1 i else d.1
      else h.items
    let r := ({ h with items := a } : Heap α).innerPop
    (r.1, some r.2)

/-- `Heap.First()` -/
def Heap.first (h : Heap α) : Option (Entry α) :=
  if h.items.size = 0 then none else some h.items[0]!

end HyperModel.Heap
