import HyperModel.Generated.FactsC34
/-!
Model of `utils/utils.go: FormatBalance / ParseBalance` (property C34) **with the repair of
`/verif/fixes/C34-balance-integer-arithmetic.patch`** (committed in /repo as f4579f3) (integer arithmetic instead of
float64).  Core Lean only.  Strings are lists of bytes (`Nat`); `'0' = 48`, `'.' = 46`.
-/
namespace HyperModel.Balance
open HyperModel.Generated.C34 (decimals)

abbrev Str := List Nat

def maxUint64 : Nat := 2 ^ 64 - 1

/-- `balanceUnit`: `unit := 1; for i := 0; i < Decimals; i++ { unit *= 10 }` -/
def unit : Nat := 10 ^ decimals

/-- `strconv.FormatUint(n, 10)`: decimal digits, most significant first, `0 ↦ "0"`. -/
def fmtUint (n : Nat) : Str :=
  if n < 10 then [48 + n] else fmtUint (n / 10) ++ [48 + n % 10]
termination_by n
decreasing_by omega

/-- `FormatBalance`:
`frac := FormatUint(bal % unit)`; `FormatUint(bal / unit) + "." + Repeat("0", Decimals-len(frac)) + frac` -/
def formatBalance (bal : Nat) : Str :=
  let frac := fmtUint (bal % unit)
  fmtUint (bal / unit) ++ [46] ++ List.replicate (decimals - frac.length) 48 ++ frac

/-- `strings.Cut(s, ".")`: text before and after the first `.` (after = "" if there is none) -/
def cut : Str → Str × Str
  | [] => ([], [])
  | c :: r => if c = 46 then ([], r) else let (a, b) := cut r; (c :: a, b)

inductive Err | syntax | range
  deriving DecidableEq, Repr

/-- the digit loop of `ParseBalance`:
`if c < '0' || c > '9' → ErrSyntax; d := c - '0'; if v > (MaxUint64-d)/10 → ErrRange; v = v*10 + d` -/
def accumulate : Str → Nat → Except Err Nat
  | [], v => .ok v
  | c :: r, v =>
    if c < 48 ∨ c > 57 then .error .syntax
    else
      let d := c - 48
      if v > (maxUint64 - d) / 10 then .error .range
      else accumulate r (v * 10 + d)

/-- `ParseBalance` -/
def parseBalance (bal : Str) : Except Err Nat :=
  let (whole, frac) := cut bal
  if (whole.length = 0 ∧ frac.length = 0) ∨ frac.length > decimals then .error .syntax
  else
    let digits := whole ++ frac ++ List.replicate (decimals - frac.length) 48
    accumulate digits 0

end HyperModel.Balance
