import HyperModel.Model.TState
import HyperModel.Spec.CheckpointMap
import HyperModel.Proofs.TState
/-!
# C04 The transactional state view behaves like a key-value map with checkpoints

Model: `Model/TState.lean` (the repaired `TStateView.Remove` of /repo commit efedb9d).
Spec: `Spec/CheckpointMap.lean` (`CM`: underlying map, visible map, stack of snapshots).
All theorems quantify over every parent map, every block-level `changedKeys` map (any
`TState`), every scope and every operation list; the parent storage is a map (`stoOf parent`,
it answers a value or `ErrNotFound`). `storage_error_no_change` covers storages that fail.
-/
namespace HyperModel.Props.C04
open HyperModel.TState HyperModel.Spec HyperModel.Perm HyperModel.TStateProofs

/-- a fresh view of `ts` over the parent map `parent` -/
abbrev fresh (ts : TS) (parent : KV) (scope : Key → Perm → Bool) : View :=
  ts.newView scope (stoOf parent)

theorem fresh_rel (ts : TS) (parent : KV) (scope : Key → Perm → Bool) (prog : List VOp) :
    Rel ((fresh ts parent scope).run prog).1
        ((CM.init (underlying ts.changedKeys parent)).run scope prog).1 ∧
    Frame (fresh ts parent scope) ((fresh ts parent scope).run prog).1 :=
  let h := run_refines prog (rel_init ts scope parent)
  ⟨h.1, h.2.2⟩

/-- **C04 (reads, results, op index).** For every `TState`, parent map, scope and operation
list (get / insert / remove / opIndex / rollback, in any order and number, including re-creating
deleted keys and deleting re-created keys), the real view's outputs — every value read, every
not-found, every error, every op index — are exactly the outputs of the map-with-checkpoints
spec opened on `block-level changes over parent`. -/
theorem view_refines (ts : TS) (parent : KV) (scope : Key → Perm → Bool) (prog : List VOp) :
    ((fresh ts parent scope).run prog).2 =
      ((CM.init (underlying ts.changedKeys parent)).run scope prog).2 :=
  (run_refines prog (rel_init ts scope parent)).2.1

/-- After any operation list, what a read of `k` returns is the spec's visible value
(`perm` if the scope has no read permission on `k`). -/
theorem get_after (ts : TS) (parent : KV) (scope : Key → Perm → Bool) (prog : List VOp) (k : Key) :
    ((fresh ts parent scope).run prog).1.get k =
      (if !scope k Perm.read then Out.perm
       else match ((CM.init (underlying ts.changedKeys parent)).run scope prog).1.cur k with
         | some v => .val v
         | none => .notFound) := by
  have h := fresh_rel ts parent scope prog
  have hsc : ((fresh ts parent scope).run prog).1.scope = scope := h.2.2.2
  rw [get_eq _ h.1.nofail, hsc, ← h.1.hcur]
  rfl

/-- The spec's rollback, stated by index: returning to checkpoint `n < #checkpoints` makes the
`n`-th snapshot ever taken (counting from the oldest, `0`-based) the visible map. -/
theorem popTo_index (n : Nat) : ∀ (cur : KV) (snaps : List KV) (h : n < snaps.length),
    popTo n cur snaps = (snaps[snaps.length - 1 - n]'(by omega), snaps.drop (snaps.length - n))
  | _, [], h => by simp at h
  | cur, m :: ms, h => by
    simp only [popTo]
    simp only [List.length_cons] at h
    have h1 : n ≤ ms.length := by omega
    simp only [h1, if_true]
    by_cases h2 : n < ms.length
    · rw [popTo_index n m ms h2]
      have e1 : (m :: ms).length - 1 - n = (ms.length - 1 - n) + 1 := by simp; omega
      have e2 : (m :: ms).length - n = (ms.length - n) + 1 := by simp; omega
      simp only [e1, e2, List.getElem_cons_succ, List.drop_succ_cons]
    · have h3 : n = ms.length := by omega
      subst h3
      rw [popTo_self _ _ _ (Nat.le_refl _)]
      simp

/-- **C04 (rollback).** Take any history `p1`, note the checkpoint `c = OpIndex()`, run any
further operations `p2` that do not themselves roll back below `c`; then `Rollback(c)` restores
exactly what was visible at the checkpoint: the op index is `c` again, every key — whether or
not the scope may read it (`getValue` is the unscoped lookup: pending, block-level, parent) —
resolves as it did then, hence every scoped `GetValue` too, and the view's pending-change map is
the one it had at the checkpoint. -/
theorem rollback_restores (ts : TS) (parent : KV) (scope : Key → Perm → Bool) (p1 p2 : List VOp) :
    let s1 := ((fresh ts parent scope).run p1).1
    let s2 := (s1.run p2).1
    (∀ n, VOp.rollback n ∈ p2 → s1.opIndex ≤ n) →
      s1.opIndex ≤ s2.opIndex ∧ (s2.rollback s1.opIndex).opIndex = s1.opIndex ∧
      (∀ k, (s2.rollback s1.opIndex).getValue k = s1.getValue k) ∧
      (∀ k, (s2.rollback s1.opIndex).get k = s1.get k) ∧
      (∀ k, (s2.rollback s1.opIndex).pendingChangedKeys k = s1.pendingChangedKeys k) := by
  intro s1 s2 hp
  have h1 := run_refines p1 (rel_init ts scope parent)
  have h2 := run_refines p2 h1.1
  generalize hm1 : ((CM.init (underlying ts.changedKeys parent)).run (fresh ts parent scope).scope p1).1 = m1 at h1 h2
  generalize hm2 : (m1.run s1.scope p2).1 = m2 at h2
  have R1 : Rel s1 m1 := h1.1
  have R2 : Rel s2 m2 := h2.1
  have l1 : s1.ops.length = m1.snaps.length := LogC_length R1.log
  have l2 : s2.ops.length = m2.snaps.length := LogC_length R2.log
  have hk : Keep m1.snaps.length m1 m2 := by
    rw [← hm2]
    exact keep_run s1.scope p2 (keep_refl m1) (fun n hn => by rw [← l1]; exact hp n hn)
  have hc : s1.opIndex ≤ s2.opIndex := by
    simp only [View.opIndex, l1, l2]; exact hk.1
  have R3 := rollback_refines R2 s1.opIndex hc
  have hpop : popTo s1.opIndex m2.cur m2.snaps = (m1.cur, m1.snaps) := by
    simp only [View.opIndex, l1]; exact hk.2
  rw [hpop] at R3
  have hvis : vis (s2.rollback s1.opIndex) = vis s1 := by rw [← R3.hcur, ← R1.hcur]
  have hbase : m2.base = m1.base := by
    rw [R2.hbase, R1.hbase]; exact (show Frame s1 s2 from h2.2.2).base
  refine ⟨hc, ?_, ?_, ?_, ?_⟩
  · have := LogC_length R3.log
    simp only [View.opIndex] at this ⊢
    rw [this, l1]
  · intro k
    rw [getValue_eq _ R3.nofail, getValue_eq _ R1.nofail, hvis]
  · intro k
    have hsc : (s2.rollback s1.opIndex).scope = s1.scope :=
      (rollback_frame s2 s1.opIndex).2.2.trans h2.2.2.2.2
    rw [get_eq _ R3.nofail, get_eq _ R1.nofail, hsc, hvis]
  · intro k
    rw [pending_eq_diff R3 k, pending_eq_diff R1 k]
    simp only [CM.diff, hbase]

/-- Bookkeeping invariant (the `writes` map of `KeyOperations()`): after any operation list a
key has a recorded write exactly when it has a pending change. -/
theorem writes_track_pending (ts : TS) (parent : KV) (scope : Key → Perm → Bool) (prog : List VOp) (k : Key) :
    (((fresh ts parent scope).run prog).1.writes k).isSome =
      (((fresh ts parent scope).run prog).1.pendingChangedKeys k).isSome :=
  ((fresh_rel ts parent scope prog).1.good.dom k).symm

/-- Invariant behind the commit theorem: after any operation list the view's pending map is
exactly the diff between the visible and the underlying state (a pending entry always differs
from the underlying value; every differing key has a pending entry carrying its value). -/
theorem pending_is_exact_diff (ts : TS) (parent : KV) (scope : Key → Perm → Bool) (prog : List VOp) (k : Key) :
    ((fresh ts parent scope).run prog).1.pendingChangedKeys k =
      (let m := ((CM.init (underlying ts.changedKeys parent)).run scope prog).1
       if m.cur k = underlying ts.changedKeys parent k then none else some (m.cur k)) := by
  have h := fresh_rel ts parent scope prog
  rw [pending_eq_diff h.1 k]
  simp only [CM.diff, rel_base_init h.1 h.2]

/-- **C04 (commit).** Committing after any operation list publishes exactly the keys whose
visible value differs from the underlying state (block-level changes over parent), with those
values (`some none` = deleted); every other entry of the block-level map is left as it was, and
`TState.ops` grows by the view's op index. -/
theorem commit_publishes_exact_diff (ts : TS) (parent : KV) (scope : Key → Perm → Bool) (prog : List VOp) :
    (∀ k, ((fresh ts parent scope).run prog).1.commit.ts.changedKeys k =
        (let m := ((CM.init (underlying ts.changedKeys parent)).run scope prog).1
         if m.cur k = underlying ts.changedKeys parent k then ts.changedKeys k else some (m.cur k))) ∧
    ((fresh ts parent scope).run prog).1.commit.ts.ops =
      ts.ops + ((CM.init (underlying ts.changedKeys parent)).run scope prog).1.snaps.length := by
  have h := fresh_rel ts parent scope prog
  have hts : ((fresh ts parent scope).run prog).1.ts = ts := h.2.1
  constructor
  · intro k
    rw [commit_of_rel h.1 k, rel_base_init h.1 h.2, hts]
  · simp only [View.commit, hts, LogC_length h.1.log]

/-- Consequence: the next view opened on the committed `TState` has as its underlying state
exactly what was visible in the committed view. -/
theorem commit_then_underlying (ts : TS) (parent : KV) (scope : Key → Perm → Bool) (prog : List VOp) :
    underlying ((fresh ts parent scope).run prog).1.commit.ts.changedKeys parent =
      ((CM.init (underlying ts.changedKeys parent)).run scope prog).1.cur := by
  funext k
  have h : ((fresh ts parent scope).run prog).1.commit.ts.changedKeys k =
      if ((CM.init (underlying ts.changedKeys parent)).run scope prog).1.cur k =
          underlying ts.changedKeys parent k
      then ts.changedKeys k
      else some (((CM.init (underlying ts.changedKeys parent)).run scope prog).1.cur k) :=
    (commit_publishes_exact_diff ts parent scope prog).1 k
  show (match ((fresh ts parent scope).run prog).1.commit.ts.changedKeys k with
        | some x => x | none => parent k) = _
  rw [h]
  by_cases heq : ((CM.init (underlying ts.changedKeys parent)).run scope prog).1.cur k =
      underlying ts.changedKeys parent k
  · rw [if_pos heq]; exact heq.symm
  · rw [if_neg heq]

/-- histories at spec level: each transaction opens a checkpointed map on the current
underlying state; a committed one replaces the underlying state by what it made visible. -/
def specHistory (under : KV) : List Tx → List (List Out)
  | [] => []
  | tx :: rest =>
    let r := (CM.init under).run tx.scope tx.prog
    r.2 :: specHistory (if tx.commit then r.1.cur else under) rest

/-- **C04 (histories of views on one `TState`).** Any sequence of views (each with its own
scope and program, committed or abandoned) produces exactly the outputs of the spec. -/
theorem history_refines (parent : KV) : ∀ (h : List Tx) (ts : TS),
    (ts.runHistory (stoOf parent) h).2 = specHistory (underlying ts.changedKeys parent) h
  | [], _ => rfl
  | tx :: rest, ts => by
    simp only [TS.runHistory, TS.runTx, specHistory]
    have hv := view_refines ts parent tx.scope tx.prog
    have hc := commit_then_underlying ts parent tx.scope tx.prog
    simp only [fresh] at hv hc
    rw [hv]
    congr 1
    cases hcm : tx.commit with
    | true =>
      simp only [if_true]
      rw [history_refines parent rest, hc]
    | false =>
      simp only [Bool.false_eq_true, if_false]
      rw [history_refines parent rest]

/-- An operation that returns a storage error (the parent storage failed) leaves the view
exactly as it was — for every storage, scope and state. -/
theorem storage_error_no_change (s : View) (o : VOp) (h : (s.step o).2 = .stoErr) : (s.step o).1 = s := by
  cases o with
  | get k => rfl
  | opIndex => rfl
  | rollback n => simp only [View.step] at h ⊢; split at h <;> simp_all
  | insert k v =>
    simp only [View.step, View.insert] at h ⊢
    repeat' split at h
    all_goals simp_all
  | remove k =>
    simp only [View.step, View.remove] at h ⊢
    repeat' split at h
    all_goals simp_all

/-! ### non-vacuity and the regression witness -/

/-- the key `"b" ++ 0x0001` and the parent `{k ↦ 09}` of the C04/C06 witness -/
def wk : Key := [0x62, 0x00, 0x01]
def wparent : KV := fun k => if k = wk then some [9] else none
def wprog : List VOp := [.remove wk, .insert wk [5], .remove wk, .get wk, .opIndex]

/-- the witness of the repaired defect: `Remove k; Insert k 5; Remove k; Get k` on a parent
holding `k ↦ 9` now reads "not found" (the unrepaired code returned `9`). -/
theorem witness_repaired :
    ((fresh TS.new wparent fullAccess).run wprog).2 = [.ok, .ok, .ok, .notFound, .idx 3] := by
  decide

/-- `rollback_restores` is not vacuous: a program with rollbacks at or above the checkpoint -/
example : ∀ n, VOp.rollback n ∈ [VOp.insert wk [5], .rollback 1, .remove wk] → 1 ≤ n := by
  intro n h; simp at h; omega

example : ((fresh TS.new wparent fullAccess).run [.remove wk]).1.opIndex = 1 := by decide

end HyperModel.Props.C04
