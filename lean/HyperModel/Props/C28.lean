import HyperModel.Model.Address
import HyperModel.Proofs.Address
/-!
# C28 Address text encoding round-trips and rejects malformed input

Model: `Model/Address.lean` = `codec/address.go` as of /repo commit 8bfec18 ("reject address
strings whose payload is not exactly AddressLen bytes" = `fixes/C28-address-length-check.patch`).
`H` is `hashing.Checksum(·, checksumLen)` (SHA-256 tail), an arbitrary function returning
`checksumLen` bytes.  Strings and byte slices are lists of bytes (`Nat < 256`).

`parse_accepts_only_full_length` was violated before /repo 8bfec18: `0x010203 ++ H(010203)`
was accepted as the address `010203 00…00`.  The witness stays first in the harness corpus (it
is now rejected with `ErrInvalidSize`; a regression is flagged by the oracle key
`wrong-length-payload-accepted`); `parse_rejects_wrong_length` states the current behaviour.
-/
namespace HyperModel.Props.C28
open HyperModel.Address HyperModel.Proofs.Address
open HyperModel.Generated.C28 (addressLen checksumLen)

/-- `H` returns `checksumLen` real bytes (true of `hashing.Checksum(·, 4)`). -/
def ChecksumFn (H : Bytes → Bytes) : Prop :=
  ∀ b, (H b).length = checksumLen ∧ ∀ x ∈ H b, x < 256

/-- the payload/checksum split of `fromChecksum` recovers `p` and `H p` from `p ++ H p` -/
theorem fromChecksum_of_decode {H : Bytes → Bytes} (hH : ChecksumFn H) {s p : Bytes}
    (h : hexDecode (stripPrefix s) = some (p ++ H p)) : fromChecksum H s = .ok p := by
  have hl := (hH p).1
  unfold fromChecksum
  simp only [h]
  have h1 : ¬ ((p ++ H p).length < checksumLen) := by simp [hl]
  rw [if_neg h1]
  have h2 : (p ++ H p).length - checksumLen = p.length := by simp [hl]
  simp only [h2, List.take_left', List.drop_left', if_true]

theorem fromChecksum_ok {H : Bytes → Bytes} {s p : Bytes} (h : fromChecksum H s = .ok p) :
    hexDecode (stripPrefix s) = some (p ++ H p) := by
  unfold fromChecksum at h
  cases hd : hexDecode (stripPrefix s) with
  | none => simp [hd] at h
  | some d =>
    simp only [hd] at h
    by_cases hlt : d.length < checksumLen
    · simp [hlt] at h
    · rw [if_neg hlt] at h
      by_cases hck : d.drop (d.length - checksumLen) = H (d.take (d.length - checksumLen))
      · simp only [hck, if_true] at h
        have hp : p = d.take (d.length - checksumLen) := by
          injection h with h; exact h.symm
        subst hp
        rw [← hck, List.take_append_drop]
      · simp [hck] at h

/-- **Exact characterisation of acceptance.** `StringToAddress(s)` succeeds with `a` iff
`a` has full length and `s` — after the optional `0x` — hex-decodes to `a ++ checksum(a)`. -/
theorem parse_ok_iff {H : Bytes → Bytes} (hH : ChecksumFn H) (s a : Bytes) :
    parse H s = .ok a ↔
      a.length = addressLen ∧ hexDecode (stripPrefix s) = some (a ++ H a) := by
  constructor
  · intro h
    unfold parse at h
    cases hf : fromChecksum H s with
    | error e => simp [hf] at h
    | ok d =>
      simp only [hf] at h
      by_cases hl : d.length ≠ addressLen
      · simp [hl] at h
      · rw [if_neg hl] at h
        have : a = d := by injection h with h; exact h.symm
        subst this
        exact ⟨by simpa using hl, fromChecksum_ok hf⟩
  · rintro ⟨hl, hd⟩
    unfold parse
    rw [fromChecksum_of_decode hH hd]
    simp [hl]

/-- **C28 (a)** every address formats to a string that parses back to the same address. -/
theorem parse_format {H : Bytes → Bytes} (hH : ChecksumFn H) (a : Bytes)
    (hlen : a.length = addressLen) (hbytes : ∀ x ∈ a, x < 256) :
    parse H (format H a) = .ok a := by
  rw [parse_ok_iff hH]
  refine ⟨hlen, ?_⟩
  have : stripPrefix (format H a) = hexEncode (a ++ H a) := rfl
  rw [this]
  apply hexDecode_hexEncode
  intro x hx
  rcases List.mem_append.mp hx with hx | hx
  · exact hbytes x hx
  · exact (hH a).2 x hx

/-- **C28 (b)** parsing accepts only the checksummed encoding of exactly one full-length
address: whenever `parse` succeeds, the result has `AddressLen` bytes and the input text —
lower-casing `A`–`F`, with the `0x` prefix put (back) in front — is *literally*
`format H a`, the string `Address.String()` prints.  In particular a payload of any other
length, a wrong checksum, or a non-hex character is rejected. -/
theorem parse_accepts_only_full_length {H : Bytes → Bytes} (s a : Bytes)
    (h : parse H s = .ok a) :
    a.length = addressLen ∧ (∀ x ∈ a, x < 256) ∧
      48 :: 120 :: (stripPrefix s).map lowerHex = format H a := by
  have h' : a.length = addressLen ∧ hexDecode (stripPrefix s) = some (a ++ H a) := by
    unfold parse at h
    cases hf : fromChecksum H s with
    | error e => simp [hf] at h
    | ok d =>
      simp only [hf] at h
      by_cases hl : d.length ≠ addressLen
      · simp [hl] at h
      · rw [if_neg hl] at h
        have : a = d := by injection h with h; exact h.symm
        subst this
        exact ⟨by simpa using hl, fromChecksum_ok hf⟩
  obtain ⟨hl, hd⟩ := h'
  obtain ⟨henc, hb, _⟩ := hexDecode_some _ _ hd
  refine ⟨hl, fun x hx => hb x (List.mem_append_left _ hx), ?_⟩
  unfold format
  rw [henc]

/-- the accepted address is unique, and two addresses never share a text -/
theorem format_injective {H : Bytes → Bytes} (hH : ChecksumFn H) (a b : Bytes)
    (ha : a.length = addressLen) (hb : b.length = addressLen)
    (hab : ∀ x ∈ a, x < 256) (hbb : ∀ x ∈ b, x < 256)
    (h : format H a = format H b) : a = b := by
  have h1 := parse_format hH a ha hab
  have h2 := parse_format hH b hb hbb
  rw [h] at h1
  rw [h1] at h2
  injection h2

/-- wrong length with a valid checksum (accepted before /repo 8bfec18) is rejected -/
theorem parse_rejects_wrong_length {H : Bytes → Bytes} (hH : ChecksumFn H) (s p : Bytes)
    (hd : hexDecode (stripPrefix s) = some (p ++ H p)) (hl : p.length ≠ addressLen) :
    parse H s = .error .size := by
  unfold parse
  rw [fromChecksum_of_decode hH hd]
  simp [hl]

/-- invalid hex is rejected -/
theorem parse_rejects_bad_hex {H : Bytes → Bytes} (s : Bytes)
    (hd : hexDecode (stripPrefix s) = none) : parse H s = .error .hex := by
  simp [parse, fromChecksum, hd]

/-- a checksum that is not `H payload` is rejected -/
theorem parse_rejects_bad_checksum {H : Bytes → Bytes} (s d : Bytes)
    (hd : hexDecode (stripPrefix s) = some d) (hlen : checksumLen ≤ d.length)
    (hck : d.drop (d.length - checksumLen) ≠ H (d.take (d.length - checksumLen))) :
    parse H s = .error .badsum := by
  have : ¬ d.length < checksumLen := by omega
  simp [parse, fromChecksum, hd, this, hck]

/-! non-vacuity / witnesses with a concrete `H` (constant checksum `de ad be ef`) -/
private def H0 : Bytes → Bytes := fun _ => [0xde, 0xad, 0xbe, 0xef]
example : ChecksumFn H0 := by
  intro b; refine ⟨rfl, ?_⟩; intro x hx; simp [H0] at hx; omega

example : parse H0 (format H0 (List.replicate 33 7)) = .ok (List.replicate 33 7) := by rfl
/-- the design-time witness `0x010203 ++ H(010203)` is rejected by the repaired code -/
example : parse H0 (48 :: 120 :: hexEncode ([1, 2, 3] ++ H0 [1, 2, 3])) = .error .size := by rfl
example : parse H0 [48, 120, 48, 48, 48, 48] = .error .missing := by rfl
example : parse H0 [48, 120, 103] = .error .hex := by rfl

end HyperModel.Props.C28
