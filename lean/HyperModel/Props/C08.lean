import HyperModel.Proofs.Executor
import HyperModel.Proofs.ExecutorFine
/-!
# C08 The parallel executor never runs conflicting tasks concurrently or out of order

All theorems quantify over every reachable state of the coarse atomic-step relation of
`Model/Executor.lean` (`Reachable w s`): any worker count `w`, any sequence of `Run` calls with
arbitrary key lists (distinct key names per task, as `state.Keys` is a map), any interleaving
of registration, worker dequeues, task completions with any result, `Stop` and `Wait`, and any
order in which a completing task sends its newly executable dependents to the channel.
`s.log` is the history (newest event first).

Two relations:

* The COARSE relation (`Model/Executor.lean`): `Run` is one step, dequeue + `err.Load` is one
  step, and the end of a body + error CAS + all deregistrations + the notification section +
  `outstanding.Done()` is one step. These merges are NOT justified by the locks of the code
  (the deregistrations run under the *other* tasks' locks in separate regions, the CAS and the
  `err.Load` are separate atomic operations) and no mover argument is given: the theorems
  `conflict_order` … `no_deadlock` below are theorems about that coarse relation only.
* The FINEST relation (`Model/ExecutorFine.lean`): one step per critical section / atomic
  operation of `executor.go` (header / one step per key / counter adjustment of `Run`;
  dequeue; `err.Load`; end of body + CAS; one step per reader deregistration; the notification
  section; `Stop`; `Wait`), everything interleaved. The `…_fine` theorems are the property's
  claims over that relation; what is merged there is listed in the header of the model file.
-/
namespace HyperModel.Props.C08
open HyperModel.Executor

/-- Any two queued tasks `i < j` that share a key, at least one of them with more than read
access: in every run, whenever `j` has started, `i` had ended before (the end event of `i`
is older in the log than the start event of `j`). -/
theorem conflict_order {w : Nat} {s : State} (hr : Reachable w s) {i j : Nat} (hij : i < j)
    (hc : conflictKeys (s.keys i) (s.keys j) = true) {l1 l2 : List Event}
    (hl : s.log = l1 ++ Event.start j :: l2) : ∃ f, Event.fin i f ∈ l2 :=
  ((full_reachable hr).lg.l_order l1 l2 j hl).2.2 i hij hc

/-- … and they never run concurrently: in no reachable state are both bodies in progress. -/
theorem no_overlap {w : Nat} {s : State} (hr : Reachable w s) {i j : Nat} (hij : i < j)
    (hj : j < s.n) (hc : conflictKeys (s.keys i) (s.keys j) = true)
    (hi : s.status i = .running) : s.status j = .waiting := by
  have h := (full_reachable hr).inv
  rcases h.safe i j hij hj hc with a | a
  · unfold ended at a; rw [hi] at a; cases a
  · obtain ⟨x, hx⟩ := a.has_blocker
    exact (h.blk x j hx).2.2.2

theorem waited_inv {w : Nat} {s : State} (hr : Reachable w s) :
    ∀ e, s.waited = some e → e = s.err ∧ allExecuted s = true := by
  induction hr with
  | init => intro e h; cases h
  | @step s st _ hen ih =>
    have hw : s.waited = none := by
      simp only [isEnabled, Bool.and_eq_true, Option.isNone_iff_eq_none] at hen
      exact hen.1
    intro e he
    cases st with
    | run ks =>
      have := (register_frame s ks).2.2.2.1
      rw [show (apply s (.run ks)) = register s ks from rfl, this, hw] at he; cases he
    | start j => rw [show (apply s (.start j)).waited = s.waited from rfl, hw] at he; cases he
    | skip j o => rw [show (apply s (.skip j o)).waited = s.waited from rfl, hw] at he; cases he
    | finish j f o => rw [show (apply s (.finish j f o)).waited = s.waited from rfl, hw] at he; cases he
    | stop => rw [show (apply s .stop).waited = s.waited from rfl, hw] at he; cases he
    | wait =>
      simp only [isEnabled, Bool.and_eq_true] at hen
      have : (apply s .wait).waited = some s.err := rfl
      rw [this] at he
      cases he
      exact ⟨rfl, hen.2⟩

/-- Every task body starts at most once, always; and when `Wait` has returned nil (no task
failed, no stop), every queued task has started exactly once and has ended. -/
theorem exactly_once {w : Nat} {s : State} (hr : Reachable w s) :
    (∀ j, s.log.count (.start j) ≤ 1) ∧
    (s.waited = some none → ∀ j, j < s.n →
      s.log.count (.start j) = 1 ∧ ∃ f, Event.fin j f ∈ s.log) := by
  have h := full_reachable hr
  constructor
  · intro j; rw [h.lg.l_cnt j]; split <;> omega
  · intro hw j hj
    obtain ⟨he, hall⟩ := waited_inv hr none hw
    have hex : executed s j = true := by
      simp only [allExecuted, List.all_eq_true, List.mem_range] at hall
      exact hall j hj
    rw [executed_iff] at hex
    rcases hex with a | a
    · exact ⟨by rw [h.lg.l_cnt j, a]; simp, h.lg.l_fin j a⟩
    · have := h.lg.l_skip j a
      rw [← he] at this; cases this

/-- After an earlier task failed or the executor was stopped no further task body starts:
in every run, nothing older than a start event in the log is a failure or a stop. -/
theorem skip_after_error {w : Nat} {s : State} (hr : Reachable w s) {j : Nat}
    {l1 l2 : List Event} (hl : s.log = l1 ++ Event.start j :: l2) : firstErr l2 = none :=
  ((full_reachable hr).lg.l_order l1 l2 j hl).2.1

/-- `Wait` returns the first error recorded (failure of a task or stop), nil if there is none. -/
theorem wait_returns_first_error {w : Nat} {s : State} (hr : Reachable w s) {e : Option Err}
    (hw : s.waited = some e) : e = firstErr s.log := by
  rw [(waited_inv hr e hw).1]
  exact (full_reachable hr).lg.l_err

/-- `Run` stays possible after a failure or `Stop` (until `Wait` returned): the relation
registers such tasks like any other (`apply s (.run ks)` is total — no panic, no blocking),
and by `skip_after_error` / `no_deadlock` / `wait_returns_first_error`, which quantify over
these states too, they are dequeued and skipped, never started, and `Wait` still returns the
first error. -/
theorem run_enabled_after_error {s : State} {ks : List KeyReq} (hw : s.waited = none)
    (hk : keysNodup ks = true) : isEnabled s (.run ks) = true := by
  simp [isEnabled, hw, hk]

/-- every step offered by `enabled` is a step of the relation -/
theorem enabled_sound {s : State} {st : Step} (h : st ∈ enabled s) : isEnabled s st = true := by
  unfold enabled at h
  split at h
  · cases h
  · rename_i hw
    have hw' : s.waited.isNone = true := by
      cases hs : s.waited with
      | none => rfl
      | some x => rw [hs] at hw; simp at hw
    simp only [List.mem_append, List.mem_flatMap, List.mem_filter, List.mem_range] at h
    rcases h with (h | h) | h
    · split at h
      · rename_i j hj
        split at h
        · rename_i hn
          split at h
          · rename_i he
            simp only [List.mem_singleton] at h
            subst h
            simp [isEnabled, hw', hj, hn, he]
          · rename_i he
            simp only [List.mem_singleton] at h
            subst h
            have : s.err.isSome = true := by
              cases hs : s.err with
              | none => rw [hs] at he; simp at he
              | some x => rfl
            simp [isEnabled, hw', hj, hn, this, isArrangement, List.isPerm_iff]
        · cases h
      · cases h
    · obtain ⟨j, ⟨hj, hrun⟩, hm⟩ := h
      simp only [List.mem_cons, List.not_mem_nil, or_false] at hm
      rcases hm with rfl | rfl <;>
        simp [isEnabled, hw', hj, isArrangement, List.isPerm_iff] <;> simpa using hrun
    · split at h
      · rename_i ha
        simp only [List.mem_singleton] at h
        subst h
        simp [isEnabled, hw', ha]
      · cases h

theorem exists_min {P : Nat → Prop} [DecidablePred P] :
    ∀ m, (∃ j, j < m ∧ P j) → ∃ j, j < m ∧ P j ∧ ∀ i, i < j → ¬ P i := by
  intro m
  induction m with
  | zero => rintro ⟨j, hj, _⟩; omega
  | succ m ih =>
    rintro ⟨j, hj, hp⟩
    by_cases hlow : ∃ j, j < m ∧ P j
    · obtain ⟨j', h1, h2, h3⟩ := ih hlow
      exact ⟨j', by omega, h2, h3⟩
    · have hjm : j = m := by
        by_cases e : j < m
        · exact absurd ⟨j, e, hp⟩ hlow
        · omega
      subst hjm
      exact ⟨j, hj, hp, fun i hi hpi => hlow ⟨i, hi, hpi⟩⟩

/-- No deadlock, COARSE relation only: in every reachable state in which `Wait` has not
returned, with at least one worker, a step of the executor itself is enabled (a worker can
dequeue, a running body can end, or `Wait` can return). Only "some step is enabled" is
proved (no ranking argument that all tasks get completed), and the coarse relation has an
unbounded channel and no `maxDependencies`, so the deadlock causes named in the code's
comments are not reachable here; see `no_deadlock_fine` for the finest relation and its
stated assumptions. -/
theorem no_deadlock {w : Nat} {s : State} (hr : Reachable w s) (hw : 0 < w)
    (hwait : s.waited = none) : ∃ st, st ∈ enabled s ∧ isEnabled s st = true := by
  suffices h : ∃ st, st ∈ enabled s from by
    obtain ⟨st, hst⟩ := h; exact ⟨st, hst, enabled_sound hst⟩
  have h := full_reachable hr
  have hworkers : s.workers = w := by
    clear hwait h
    induction hr with
    | init => rfl
    | @step s st _ hen ih =>
      cases st with
      | run ks => rw [show apply s (.run ks) = register s ks from rfl, (register_frame s ks).2.2.2.2.1]; exact ih
      | start j => exact ih
      | skip j o => exact ih
      | finish j f o => exact ih
      | stop => exact ih
      | wait => exact ih
  have hnw : s.waited.isSome = false := by rw [hwait]; rfl
  unfold enabled
  simp only [hnw, Bool.false_eq_true, if_false]
  by_cases hall : allExecuted s = true
  · exact ⟨.wait, by simp [hall]⟩
  · -- some registered task is not executed; take the least one
    have hex : ∃ j, j < s.n ∧ executed s j = false := by
      simp only [allExecuted, List.all_eq_true, List.mem_range] at hall
      apply Classical.byContradiction
      intro hne
      apply hall
      intro x hx
      cases hxe : executed s x with
      | true => rfl
      | false => exact absurd ⟨x, hx, hxe⟩ hne
    obtain ⟨j, hjn, hje, hmin⟩ := exists_min s.n hex
    have hnotw : s.status j ≠ .waiting := by
      intro hwj
      obtain ⟨_, hpos⟩ := h.inv.cnt j hjn hwj
      unfold cnt at hpos
      obtain ⟨d, _, hd⟩ := List.countP_pos_iff.mp hpos
      obtain ⟨hdj, _, hde, _⟩ := h.inv.blk d j hd
      exact hmin d hdj hde
    by_cases hrun : ∃ r, r < s.n ∧ s.status r = .running
    · obtain ⟨r, hrn, hrr⟩ := hrun
      refine ⟨.finish r false (ready s r), ?_⟩
      simp only [List.mem_append, List.mem_flatMap, List.mem_filter, List.mem_range]
      left; right
      exact ⟨r, ⟨hrn, by simp [hrr]⟩, by simp⟩
    · -- nobody is running: j is queued and a worker is free
      have hq : s.status j = .queued := by
        rw [executed_false_iff] at hje
        cases hs : s.status j with
        | waiting => exact absurd hs hnotw
        | queued => rfl
        | running => exact absurd ⟨j, hjn, hs⟩ hrun
        | done => exact absurd hs hje.1
        | skipped => exact absurd hs hje.2
        | dequeued => exact absurd hs (h.lg.l_coarse j).1
        | ending r => exact absurd hs ((h.lg.l_coarse j).2 r)
      have hmem : j ∈ s.queue := (h.q.q_iff j).mpr ⟨hjn, hq⟩
      have hnr : numRunning s = 0 := by
        unfold numRunning
        rw [List.length_eq_zero_iff, List.filter_eq_nil_iff]
        intro r hr hrr
        exact hrun ⟨r, List.mem_range.mp hr, by simpa using hrr⟩
      cases hqq : s.queue with
      | nil => rw [hqq] at hmem; cases hmem
      | cons a rest =>
        have hlt : numRunning s < s.workers := by omega
        by_cases he : s.err.isNone = true
        · exact ⟨.start a, by simp [hlt, he]⟩
        · exact ⟨.skip a (ready s a), by simp [hlt, he]⟩

/-! ## The finest relation (one step per critical section / atomic operation) -/

/-- State form: in every reachable state of the finest relation, a task `j` that has left the
waiting state (sent to the channel, dequeued, running, ending or done) has every earlier
conflicting task `i` past the end of its body (or skipped); the task that is still being
registered is waiting (never sent early). -/
theorem conflict_order_fine_state {w m : Nat} {fs : FState} (hr : ReachableF w m fs) {i j : Nat}
    (hij : i < j) (hj : j < fs.s.n) (hc : conflictKeys (fs.s.keys i) (fs.s.keys j) = true) :
    fs.s.status j = .waiting ∨ ended fs.s i = true := by
  have h := (finv_reachable hr).r
  have hblk := h.blk
  unfold RInv at h
  have hchain : Chain fs.s i j → fs.s.status j = .waiting := by
    intro c
    obtain ⟨x, hx⟩ := c.has_blocker
    exact (hblk x j hx).2.2.2
  split at h
  · rcases h.safe i j hij hj hc with a | a
    · exact Or.inr a
    · exact Or.inl (hchain a)
  · rename_i r _
    by_cases hjt : j = r.t
    · left; rw [hjt]; exact h.linv.st_t
    · have hlt : j < r.t := by have := h.linv.n_eq; omega
      rcases h.linv.safe i j hij hlt hc with a | a
      · exact Or.inr a
      · exact Or.inl (hchain a)

/-- In the finest relation conflicting tasks never have their bodies in progress together. -/
theorem no_overlap_fine {w m : Nat} {fs : FState} (hr : ReachableF w m fs) {i j : Nat}
    (hij : i < j) (hj : j < fs.s.n) (hc : conflictKeys (fs.s.keys i) (fs.s.keys j) = true)
    (hi : fs.s.status i = .running) : fs.s.status j = .waiting := by
  rcases conflict_order_fine_state hr hij hj hc with a | a
  · exact a
  · unfold ended at a; rw [hi] at a; cases a

/-- `conflict_order` over the finest relation: whenever `j` has started (its `err.Load` saw no
error), the end of the body of every earlier conflicting `i` is older in the history. -/
theorem conflict_order_fine {w m : Nat} {fs : FState} (hr : ReachableF w m fs) {i j : Nat}
    (hij : i < j) (hc : conflictKeys (fs.s.keys i) (fs.s.keys j) = true) {l1 l2 : List Event}
    (hl : fs.s.log = l1 ++ Event.start j :: l2) : ∃ f, Event.fin i f ∈ l2 :=
  ((finv2_reachable hr).lg.f_order l1 l2 j hl).2.2 i hij hc

/-- `skip_after_error` over the finest relation, at its real granularity: a task whose
`err.Load` happens after a failure or stop was recorded is skipped — no start event is newer
than an error event. (A task whose `err.Load` came first may still run its body after another
task's CAS; the code comment says so and the property does not forbid it.) -/
theorem skip_after_error_fine {w m : Nat} {fs : FState} (hr : ReachableF w m fs) {j : Nat}
    {l1 l2 : List Event} (hl : fs.s.log = l1 ++ Event.start j :: l2) : firstErr l2 = none :=
  ((finv2_reachable hr).lg.f_order l1 l2 j hl).2.1

/-- `exactly_once` over the finest relation. -/
theorem exactly_once_fine {w m : Nat} {fs : FState} (hr : ReachableF w m fs) :
    (∀ j, fs.s.log.count (.start j) ≤ 1) ∧
    (fs.s.waited = some none → ∀ j, j < fs.s.n →
      fs.s.log.count (.start j) = 1 ∧ ∃ f, Event.fin j f ∈ fs.s.log) := by
  have h := finv2_reachable hr
  constructor
  · intro j; rw [h.lg.f_cnt j]; split <;> omega
  · intro hw j hj
    obtain ⟨he, _, hall⟩ := h.wt.w none hw
    have hex := (allExecuted_iff fs.s).mp hall j hj
    rw [executed_iff] at hex
    rcases hex with a | a
    · exact ⟨by rw [h.lg.f_cnt j, a]; simp [bodyStarted], h.lg.f_fin j (Or.inr a)⟩
    · have := h.lg.f_skip j (Or.inr a)
      rw [← he] at this; cases this

/-- `wait_returns_first_error` over the finest relation. -/
theorem wait_returns_first_error_fine {w m : Nat} {fs : FState} (hr : ReachableF w m fs)
    {e : Option Err} (hw : fs.s.waited = some e) : e = firstErr fs.s.log := by
  have h := finv2_reachable hr
  rw [(h.wt.w e hw).1]
  exact h.lg.f_err

/-- steps of the executor's own goroutines and of the caller inside `Run`/`Wait` -/
def isInternalF : FStep → Bool
  | .runBegin _ => false
  | .stop => false
  | _ => true

/-- No deadlock over the finest relation. ASSUMPTIONS (preconditions of `New`, not modelled
as blocking): the channel has capacity for every task, so the sends of `runEnd`/`notify`
(the latter under `t.l`) never block; and `maxDependencies` exceeds the number of
dependencies of any task (enabling condition of `runKey`, here hypothesis `hmax`). Then in
every reachable state in which `Wait` has not returned, with at least one worker, some step
of a worker, of `Run` in progress, or `Wait`'s return is enabled. (Only "a step is enabled";
that the enabled steps eventually complete every task is not proved — no ranking argument.) -/
theorem no_deadlock_fine {w m : Nat} {fs : FState} (hr : ReachableF w m fs) (hw : 0 < w)
    (hwait : fs.s.waited = none)
    (hmax : ∀ r kr rest, fs.reg = some r → r.pending = kr :: rest →
      (regKey r.t (fs.s, r.ds) kr).2.length < fs.maxDeps) :
    ∃ st, isInternalF st = true ∧ isEnabledF fs st = true := by
  have h := finv2_reachable hr
  cases hreg : fs.reg with
  | some r =>
    cases hp : r.pending with
    | nil => exact ⟨.runEnd, rfl, by simp [isEnabledF, hreg, hp]⟩
    | cons kr rest =>
      exact ⟨.runKey, rfl, by simp [isEnabledF, hreg, hp, hmax r kr rest hreg hp]⟩
  | none =>
    have hinv : Inv fs.s := by have := h.inv.r; unfold RInv at this; rw [hreg] at this; exact this
    have hq := h.inv.q
    have hworkers : fs.s.workers = w := by
      clear hwait h hinv hq hmax hreg
      induction hr with
      | init => rfl
      | @step fs st _ hen ih =>
        cases st with
        | runBegin ks => exact ih
        | runKey =>
          simp only [applyF]
          cases hrg : fs.reg with
          | none => simpa [hrg] using ih
          | some r =>
            cases hp : r.pending with
            | nil => simpa [hrg, hp] using ih
            | cons kr rest =>
              simp only [hp]
              rw [(regKey_same r.t (fs.s, r.ds) kr).workers]; exact ih
        | runEnd =>
          simp only [applyF]
          cases hrg : fs.reg with
          | none => simpa [hrg] using ih
          | some r => simp only []; unfold endRun; dsimp only; split <;> exact ih
        | dequeue j => exact ih
        | check j => simp only [applyF]; split <;> exact ih
        | finish j f => exact ih
        | dereg j o => exact ih
        | notify j o => simp only [applyF]; split <;> exact ih
        | stop => exact ih
        | wait => exact ih
    by_cases hall : allExecuted fs.s = true
    · exact ⟨.wait, rfl, by simp [isEnabledF, hreg, hwait, hall]⟩
    · have hex : ∃ j, j < fs.s.n ∧ executed fs.s j = false := by
        rw [allExecuted_iff] at hall
        apply Classical.byContradiction
        intro hne
        apply hall
        intro x hx
        cases hxe : executed fs.s x with
        | true => rfl
        | false => exact absurd ⟨x, hx, hxe⟩ hne
      obtain ⟨j, hjn, hje, hmin⟩ := exists_min fs.s.n hex
      have hnotw : fs.s.status j ≠ .waiting := by
        intro hwj
        obtain ⟨_, hpos⟩ := hinv.cnt j hjn hwj
        unfold cnt at hpos
        obtain ⟨d, _, hd⟩ := List.countP_pos_iff.mp hpos
        obtain ⟨hdj, _, hde, _⟩ := hinv.blk d j hd
        exact hmin d hdj hde
      -- a task in the hands of a worker can always take its next step
      by_cases hmid : ∃ x, x < fs.s.n ∧ (fs.s.status x = .dequeued ∨ fs.s.status x = .running ∨
          ∃ r, fs.s.status x = .ending r)
      · obtain ⟨x, hxn, hx⟩ := hmid
        rcases hx with hx | hx | ⟨r, hx⟩
        · exact ⟨.check x, rfl, by simp [isEnabledF, hxn, hx]⟩
        · exact ⟨.finish x false, rfl, by simp [isEnabledF, hxn, hx]⟩
        · cases hrd : fs.s.reading x with
          | nil =>
            exact ⟨.notify x (ready fs.s x), rfl,
              by simp [isEnabledF, hxn, hx, hrd, isArrangement, List.isPerm_iff]⟩
          | cons o rest =>
            exact ⟨.dereg x o, rfl, by simp [isEnabledF, hxn, hx, hrd]⟩
      · -- nobody is held by a worker: j is queued and a worker is free
        have hq' : fs.s.status j = .queued := by
          rw [executed_false_iff] at hje
          cases hs : fs.s.status j with
          | waiting => exact absurd hs hnotw
          | queued => rfl
          | dequeued => exact absurd ⟨j, hjn, Or.inl hs⟩ hmid
          | running => exact absurd ⟨j, hjn, Or.inr (Or.inl hs)⟩ hmid
          | ending r => exact absurd ⟨j, hjn, Or.inr (Or.inr ⟨r, hs⟩)⟩ hmid
          | done => exact absurd hs hje.1
          | skipped => exact absurd hs hje.2
        have hmem : j ∈ fs.s.queue := (hq.q_iff j).mpr ⟨hjn, hq'⟩
        have hnb : numBusy fs.s = 0 := by
          unfold numBusy
          rw [List.length_eq_zero_iff, List.filter_eq_nil_iff]
          intro x hx hxx
          have hxn := List.mem_range.mp hx
          cases hs : fs.s.status x with
          | dequeued => exact hmid ⟨x, hxn, Or.inl hs⟩
          | running => exact hmid ⟨x, hxn, Or.inr (Or.inl hs)⟩
          | ending r => exact hmid ⟨x, hxn, Or.inr (Or.inr ⟨r, hs⟩)⟩
          | waiting => rw [hs] at hxx; simp at hxx
          | queued => rw [hs] at hxx; simp at hxx
          | done => rw [hs] at hxx; simp at hxx
          | skipped => rw [hs] at hxx; simp at hxx
        cases hqq : fs.s.queue with
        | nil => rw [hqq] at hmem; cases hmem
        | cons a rest =>
          exact ⟨.dequeue a, rfl, by simp [isEnabledF, hwait, hqq, hnb, hworkers, hw]⟩

/-! Non-vacuity: the hypotheses of `conflict_order` are satisfiable — two writers of key 0
run one after the other on one worker. -/
def demoTrace : List Step :=
  [.run [⟨0, false⟩], .run [⟨0, false⟩], .start 0, .finish 0 false [1], .start 1,
   .finish 1 false [], .wait]

def runTrace (s : State) : List Step → Option State
  | [] => some s
  | st :: r => if isEnabled s st then runTrace (apply s st) r else none

theorem runTrace_reachable {w : Nat} {s : State} (hr : Reachable w s) :
    ∀ (tr : List Step) (s' : State), runTrace s tr = some s' → Reachable w s' := by
  intro tr
  induction tr generalizing s with
  | nil => intro s' h; simp only [runTrace, Option.some.injEq] at h; subst h; exact hr
  | cons st r ih =>
    intro s' h
    simp only [runTrace] at h
    split at h
    · rename_i hen; exact ih (Reachable.step st hr hen) s' h
    · cases h

def demoOk : Bool :=
  match runTrace (init 1) demoTrace with
  | some s => s.waited == some none && s.n == 2 && conflictKeys (s.keys 0) (s.keys 1)
      && s.log == [.fin 1 false, .start 1, .fin 0 false, .start 0]
  | none => false

example : ∃ s, Reachable 1 s ∧ s.waited = some none ∧ s.n = 2 ∧
    conflictKeys (s.keys 0) (s.keys 1) = true ∧
    s.log = [.fin 1 false] ++ Event.start 1 :: [.fin 0 false, .start 0] := by
  have h : demoOk = true := by decide
  unfold demoOk at h
  split at h
  · rename_i s hs
    simp only [Bool.and_eq_true, beq_iff_eq] at h
    exact ⟨s, runTrace_reachable Reachable.init _ _ hs, h.1.1.1, h.1.1.2, h.1.2, h.2⟩
  · cases h

/-- Non-vacuity of the post-error part: task 0 fails; its dependent writer 1 is skipped; a
reader and then a writer of the same key are queued afterwards, both are skipped; `Wait`
returns the error of task 0 and only task 0 ever started. -/
def postErrorTrace : List Step :=
  [.run [⟨0, false⟩], .run [⟨0, false⟩], .start 0, .finish 0 true [1], .skip 1 [],
   .run [⟨0, true⟩], .skip 2 [], .run [⟨0, false⟩], .skip 3 [], .wait]

example : (match runTrace (init 2) postErrorTrace with
    | some s => s.waited == some (some (.task 0)) && s.n == 4 &&
        s.log == [.skip 3, .skip 2, .skip 1, .fin 0 true, .start 0]
    | none => false) = true := by decide

/-- Non-vacuity for the finest relation: task 0 writes key 0, task 1 reads it; task 2 (writer
of keys 1 and 0) is registered while task 1 is between its deregistration from task 0 and its
notification section (a reader finishing while a writer enqueues): task 2 does not wait for
task 1's notification, only for the end of its body. -/
def fineTrace : List FStep :=
  [.runBegin [⟨0, false⟩], .runKey, .runEnd, .runBegin [⟨0, true⟩], .runKey, .runEnd,
   .dequeue 0, .check 0, .finish 0 false, .notify 0 [1],
   .dequeue 1, .check 1,
   .runBegin [⟨1, false⟩, ⟨0, false⟩], .runKey,
   .finish 1 false, .dereg 1 0,          -- reader 1 has left task 0's readers, not yet notified
   .runKey, .runEnd,                     -- writer 2 registers on key 0 now: not blocked on 1
   .dequeue 2, .check 2,                 -- and may start before task 1's notification section
   .notify 1 [], .finish 2 false, .notify 2 [], .wait]

def runTraceF (fs : FState) : List FStep → Option FState
  | [] => some fs
  | st :: r => if isEnabledF fs st then runTraceF (applyF fs st) r else none

example : (match runTraceF (fInit 2 1000) fineTrace with
    | some fs => fs.s.waited == some none && fs.s.log ==
        [.fin 2 false, .start 2, .fin 1 false, .start 1, .fin 0 false, .start 0]
    | none => false) = true := by decide

end HyperModel.Props.C08
