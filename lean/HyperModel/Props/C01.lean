import HyperModel.Proofs.BlockExecProgress
/-!
# C01 Parallel block execution is deterministic and equals sequential execution

`Step` (Model/BlockExec.lean) is the parallel processor: the main loop of `executeTxs` consumes
units and enqueues tasks in block order; a task may start once every earlier *conflicting* task
has finished (the executor's guarantee, imported from C08), then performs its view operations one
at a time against the shared block diff *as it is at that moment*, commits atomically, and
finishes; an error anywhere sets the executor's error flag, after which not-yet-started tasks are
skipped. Any number of tasks may be between `start` and `finish`, so every core count is covered.
`execSeq` applies the transactions one at a time in block order.
-/
namespace HyperModel.Props.C01
open HyperModel.BlockExec HyperModel.BlockExecProofs

/-- **C01** For every block, parent state, prices and limits, and every maximal run of the
parallel processor (every interleaving, every number of concurrently running tasks): what
`executeTxs` returns — block diff, per-tx results, units consumed, or an error — is what
sequential execution in block order returns. (Unit prices are a constant of the block context
in both; `Consume` never touches them.) -/
theorem exec_confluent (c : Ctx) (s : PState) (hr : Reachable c s) (ht : Terminal c s) :
    output c s = (execSeq c).map (fun r => (r.1, r.2.1.map some, r.2.2)) := by
  have hinv := inv_reachable hr
  cases he : s.err with
  | true =>
    have hf := hinv.err_seq he
    have : execSeq c = none := by
      cases hx : execSeq c with
      | none => rfl
      | some x =>
        exfalso
        obtain ⟨d, rs, u⟩ := x
        obtain ⟨_, _, hc, _, hab⟩ := seqAt_some c _ d rs u hx
        rcases hf with h | ⟨i, hi, ha⟩
        · rw [hc] at h; cases h
        · exact hab i hi ha
    simp [output, he, this]
  | false =>
    have g := hinv.good he
    obtain ⟨henq, hdone⟩ := terminal_done hinv ht he
    have hst : s.stopped = false := by
      cases h : s.stopped with
      | false => rfl
      | true => have := hinv.stopped_err h; rw [he] at this; cases this
    have hcons : cons c c.txs.length = some s.consumed := by rw [← henq]; exact hinv.cons_ok hst
    have hcomm : ∀ i, i < c.txs.length → (s.st i).isCommitted = true := fun i hi => by
      rw [hdone i hi]; rfl
    cases hx : execSeq c with
    | none =>
      exfalso
      rcases seqAt_none c _ hx (Nat.le_refl _) with h | ⟨i, hi, ha⟩
      · rw [hcons] at h; cases h
      · exact (g.comm_ok i (hcomm i hi)).1 ha
    | some x =>
      obtain ⟨d, rs, u⟩ := x
      obtain ⟨_, hd, hc, hrs, _⟩ := seqAt_some c _ d rs u hx
      rw [hcons] at hc; cases hc
      have hdiff : s.diff = sd c c.txs.length := by
        rw [g.diff_eq]; exact diffOf_all c _ _ hcomm
      have hres : (List.range c.txs.length).map s.results = rs.map some := by
        rw [hrs]
        apply List.map_congr_left
        intro i hi
        exact (g.comm_ok i (hcomm i (List.mem_range.mp hi))).2
      simp [output, he, hdiff, hd, hres]

/-- **C01 (errors)** if sequential execution fails (a unit limit is exceeded, or some tx's
PreExecute/Execute returns an error on its sequential pre-state), every run of the parallel
processor returns an error — and conversely no run fails when sequential execution succeeds.
Which error is returned is not claimed (the code says so itself). -/
theorem exec_fail_eq (c : Ctx) (s : PState) (hr : Reachable c s) (ht : Terminal c s) :
    (execSeq c = none ↔ s.err = true) := by
  have h := exec_confluent c s hr ht
  constructor
  · intro hn
    rw [hn] at h
    cases he : s.err with
    | true => rfl
    | false => simp [output, he] at h
  · intro he
    cases hx : execSeq c with
    | none => rfl
    | some x => rw [hx] at h; simp [output, he] at h

/-- the invariant behind the theorem, in words: while a task runs, every key it can access shows
it the sequential pre-state of its transaction, whatever the other tasks do (this is why one model
step per view operation loses nothing against the finer real interleaving). -/
theorem running_sees_sequential_prestate (c : Ctx) (s : PState) (hr : Reachable c s)
    (he : s.err = false) (i : Nat) (ls : Local) (rem : List Instr) (t : Tx)
    (hrun : s.st i = .running ls rem) (ht : c.txs[i]? = some t) (k : Key) (hk : Acc t k) :
    baseGet c.parent s.diff k = baseGet c.parent (sd c i) k :=
  base_agree (inv_reachable hr) ((inv_reachable hr).good he) hrun ht k hk

/-- the interpreter confines writes to keys declared with Write permission (C05's guarantee,
here a property of the model's own scope checks) -/
theorem tx_writes_confined (c : Ctx) (t : Tx) (d : Diff) (ls : Local) (h : runTx c t d = .ok ls)
    (k : Key) (hk : ls.pend k ≠ none) : hasPerm (t.perm k) pWrite = true :=
  runTx_wc h k hk

/-- if the total of a block fits the limits, so does every prefix in block order -/
theorem consume_prefix_ok (c : Ctx) (n m : Nat) (u : Dims) (h : cons c m = some u) (hnm : n ≤ m) :
    ∃ u', cons c n = some u' := by
  cases hx : cons c n with
  | some u' => exact ⟨u', rfl⟩
  | none => rw [cons_none_mono c hx m hnm] at h; cases h

/-! ### non-vacuity -/

/-- the hypotheses are satisfiable: the empty block's initial state is a maximal run -/
example : ∃ c s, Reachable c s ∧ Terminal c s :=
  ⟨{ parent := fun _ => none, prices := [1], maxUnits := [5], txs := [] }, _, Reachable.init, by
    rintro ⟨s', h⟩
    cases h <;> simp_all [PState.init]⟩

/-- the intended final states are maximal: main loop through (or stopped), every enqueued task done -/
theorem terminal_of_done (c : Ctx) (s : PState) (hr : Reachable c s)
    (hq : s.enq = c.txs.length ∨ s.stopped = true)
    (hd : ∀ i, i < s.enq → s.st i = .done) : Terminal c s := by
  have hi : ∀ i, s.enq ≤ i → s.st i = .idle := by
    intro i hle
    apply Classical.byContradiction
    intro hn
    have := (inv_reachable hr).started i hn
    omega
  have hne : ∀ i x, s.st i = x → x ≠ .done → x ≠ .idle → False := by
    intro i x hx h1 h2
    by_cases h : i < s.enq
    · exact h1 (by rw [← hx, hd i h])
    · exact h2 (by rw [← hx, hi i (by omega)])
  rintro ⟨s', h⟩
  cases h with
  | enqueueOk hst ht _ =>
    rcases hq with hq | hq
    · have := (List.getElem?_eq_some_iff.mp ht).1; omega
    · rw [hst] at hq; cases hq
  | enqueueFail hst ht _ =>
    rcases hq with hq | hq
    · have := (List.getElem?_eq_some_iff.mp ht).1; omega
    · rw [hst] at hq; cases hq
  | start hlt hidle _ _ _ => rw [hd _ hlt] at hidle; cases hidle
  | skip hlt hidle _ _ => rw [hd _ hlt] at hidle; cases hidle
  | stepCont hr _ _ => exact hne _ _ hr (by intro h; cases h) (by intro h; cases h)
  | stepFail hr _ _ => exact hne _ _ hr (by intro h; cases h) (by intro h; cases h)
  | stepAbort hr _ _ => exact hne _ _ hr (by intro h; cases h) (by intro h; cases h)
  | commit hr _ => exact hne _ _ hr (by intro h; cases h) (by intro h; cases h)
  | finish hr => exact hne _ _ hr (by intro h; cases h) (by intro h; cases h)

/-- **progress (no deadlock)** every reachable state of the parallel processor that is not final
(main loop through or stopped, every enqueued task done) has an enabled step: the main loop can
consume/enqueue or stop; otherwise the least-index unfinished task — all earlier tasks, hence its
earlier conflicting ones, are done — can start (or be skipped after an error), perform its next view
operation, commit or finish. -/
theorem progress (c : Ctx) (s : PState) (hr : Reachable c s) (hnf : ¬ Final c s) :
    ∃ s', Step c s s' :=
  progress_of_inv (inv_reachable hr) hnf

/-- for reachable states, "no step is enabled" is exactly "executeTxs has returned" -/
theorem terminal_iff_final (c : Ctx) (s : PState) (hr : Reachable c s) :
    Terminal c s ↔ Final c s := by
  constructor
  · intro ht
    apply Classical.byContradiction
    intro hnf
    exact ht (progress c s hr hnf)
  · intro hf
    exact terminal_of_done c s hr hf.1 hf.2

/-- **termination** the measure `mu` (main-loop iterations left + per task: program steps left, +2
for commit and finish, +1 for the start) strictly decreases along every step from a reachable state -/
theorem measure_decreases (c : Ctx) (s s' : PState) (hr : Reachable c s) (hs : Step c s s') :
    mu c s' < mu c s :=
  step_decreases (inv_reachable hr) hs

/-- hence there is no infinite run: every run is finite -/
theorem terminates (c : Ctx) (f : Nat → PState) (h0 : Reachable c (f 0))
    (h : ∀ n, Step c (f n) (f (n + 1))) : False :=
  no_infinite_run c f h0 h

/-- from every reachable state — in particular from the initial one, for every block — the run can
be completed: a maximal run exists (non-vacuity of `Reachable ∧ Terminal` for *every* block) -/
theorem maximal_run_exists (c : Ctx) (s : PState) (hr : Reachable c s) :
    ∃ s', Steps c s s' ∧ Reachable c s' ∧ Terminal c s' := by
  obtain ⟨s', h1, h2⟩ := reach_terminal c (mu c s) s (Nat.le_refl _) hr
  exact ⟨s', h1, reachable_of_steps hr h1, h2⟩

theorem terminal_reachable_exists (c : Ctx) : ∃ s, Reachable c s ∧ Terminal c s := by
  obtain ⟨s, _, h1, h2⟩ := maximal_run_exists c _ Reachable.init
  exact ⟨s, h1, h2⟩

/-- **C01, no Terminal hypothesis** a run of the processor is a sequence of states from the initial
one that takes a step whenever one is enabled (and stays put once none is). Every such run — every
interleaving, any number of tasks in flight — reaches, after finitely many steps, a state in which
`executeTxs` has returned, and what it returns there is what sequential execution returns. -/
theorem every_maximal_run_eq_execSeq (c : Ctx) (f : Nat → PState) (h0 : f 0 = PState.init c)
    (hrun : ∀ n, Step c (f n) (f (n + 1)) ∨ (Terminal c (f n) ∧ f (n + 1) = f n)) :
    ∃ n, Final c (f n) ∧ (∀ m, n ≤ m → f m = f n) ∧
      output c (f n) = (execSeq c).map (fun r => (r.1, r.2.1.map some, r.2.2)) := by
  have hreach : ∀ n, Reachable c (f n) := by
    intro n
    induction n with
    | zero => rw [h0]; exact Reachable.init
    | succ n ih =>
      rcases hrun n with h | ⟨_, h⟩
      · exact Reachable.step ih h
      · rw [h]; exact ih
  have hex : ∃ n, Terminal c (f n) := by
    apply Classical.byContradiction
    intro hno
    apply terminates c f (hreach 0)
    intro n
    rcases hrun n with h | ⟨ht, _⟩
    · exact h
    · exact absurd ⟨n, ht⟩ hno
  obtain ⟨n, ht⟩ := hex
  have hstay : ∀ k, f (n + k) = f n := by
    intro k
    induction k with
    | zero => rfl
    | succ k ih =>
      rcases hrun (n + k) with h | ⟨_, h⟩
      · rw [ih] at h; exact absurd ⟨_, h⟩ ht
      · show f (n + k + 1) = f n
        rw [h, ih]
  refine ⟨n, (terminal_iff_final c _ (hreach n)).mp ht, ?_, exec_confluent c _ (hreach n) ht⟩
  intro m hm
  have := hstay (m - n)
  rwa [show n + (m - n) = m by omega] at this

def exTx (id : Nat) (keys : List (Key × Perm)) (acts : List (List Op)) : Tx :=
  { id := id, keys := (9, 5) :: keys, sponsor := 9, units := [2], preOk := true, actions := acts }

def exCtx : Ctx :=
  { parent := fun k => if k = 9 then some 100 else if k = 0 then some 7 else none
    prices := [3], maxUnits := [10]
    txs := [exTx 0 [(0, 5)] [[.get 0, .put 0 8]], exTx 1 [(0, 1)] [[.get 0]],
            exTx 2 [(0, 7)] [[.del 0, .get 0], [.put 1 1]]] }

/-- a block with writer → reader → deleter on one key: the reader sees the first write, the
third tx fails on an undeclared key and is rolled back, fees are charged to the shared sponsor -/
example : (execSeq exCtx).map (fun r => (r.1 0, r.1 9, r.2.1.map (fun x => (x.failed, x.outs, x.fee)), r.2.2)) =
    some (some (some 8), some (some 82),
      [(none, [[some 7]], 6), (none, [[some 8]], 6), (some .perm, [[none]], 6)], [6]) := by
  rfl

/-- the unit limit makes sequential execution fail -/
example : execSeq { exCtx with maxUnits := [5] } = none := by decide

end HyperModel.Props.C01
