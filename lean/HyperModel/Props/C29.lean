import HyperModel.Model.ABI
import HyperModel.Proofs.ABI
/-!
# C29 ABI-driven dynamic encoding agrees with the native action codec — PARTIAL by design

Modelled: the *type description round trip* Go type → `describeStruct` → ABI strings →
`getReflectType` → `reflect.StructOf` type; `shape` = what the linear codec and `encoding/json`
depend on. The third-party codecs themselves are parameters (functions of `shape` and the value).

Proved:
* `shape_roundtrip` — FULL: for every supported struct type `T` (numeric/string primitives,
  `codec.Address`, slices, arrays, nested named structs to any depth; fields serialised, not
  embedded, JSON-named by identifiers that stay distinct after `Title`; same-named structs have
  the same definition) the ABI produced by `describe` lets `getReflectType` rebuild a type of
  exactly the same shape: `roundtrip T = some (.ok (shape T))`;
* `leaf_roundtrip` — for leaf field types the printed name parses back to *exactly* that type
  (prefix/regex parsing incl. the decimal array length), for every ABI;
* `shape_roundtrip_registered` — the instances at every supported registered type of the
  reference VM and of the framework's ABI mock set, by evaluation (also non-vacuity);
* `unsupported_reported` — general: any named non-struct field type (identifier-like name `n`
  with no ABI entry, e.g. `Permissions`, `Bytes`, `ID`) is *reported* (`type n not found in ABI`)
  for `n` and `[]n`: the round trip fails loudly — `c29_counterexample`: the known finding for
  `chaintest.TestAction`. (`bool` is supported since /repo 5a5eff8; output types are encodable by
  `dynamic.Marshal` since /repo 66d834d.)
* `ptr_misdescribed` / `map_misdescribed` — pointers and maps are printed as `[]T` and come
  back as slices with a different shape *without* an error (not used by any registered type).
What stays a parameter (hence the property is PARTIAL): the value-level agreement
`dynamic.Marshal(json v) = v.Bytes()` rests on avalanchego's linear codec and `encoding/json`
being functions of `shape` and the value; it is checked by the value-level oracle, not proved.
-/
namespace HyperModel.Props.C29
open HyperModel.ABI HyperModel.Proofs.ABI

/-- field types without structs: primitives, addresses, slices and arrays of them -/
inductive Leaf : GoTy → Prop
  | prim (p : Prim) : Leaf (.prim p)
  | address : Leaf .address
  | bool : Leaf .bool
  | slice {t : GoTy} : Leaf t → Leaf (.slice t)
  | array (n : Nat) {t : GoTy} : Leaf t → Leaf (.array n t)

/-- **leaf_roundtrip**: the printed name of a leaf type parses back to exactly that type, for
every ABI and every sufficient recursion budget. -/
theorem leaf_roundtrip {t : GoTy} (h : Leaf t) :
    ∃ nm, typeName t = some nm ∧ nm ≠ [] ∧
      ∀ (abi : ABI) (fuel : Nat), depth t ≤ fuel → reflectType abi fuel nm = .ok t := by
  induction h with
  | prim p =>
    refine ⟨p.name, rfl, by cases p <;> decide, fun abi fuel hf => ?_⟩
    cases fuel with
    | zero => simp [depth] at hf
    | succ f => exact prim_roundtrip abi f p
  | address =>
    refine ⟨addressName, rfl, by decide, fun abi fuel hf => ?_⟩
    cases fuel with
    | zero => simp [depth] at hf
    | succ f => exact address_roundtrip abi f
  | bool =>
    refine ⟨boolName, rfl, by decide, fun abi fuel hf => ?_⟩
    cases fuel with
    | zero => simp [depth] at hf
    | succ f => exact bool_roundtrip abi f
  | slice _ ih =>
    obtain ⟨nm, h1, h2, h3⟩ := ih
    refine ⟨'[' :: ']' :: nm, by simp [typeName, h1], by simp, fun abi fuel hf => ?_⟩
    cases fuel with
    | zero => simp [depth] at hf
    | succ f =>
      rw [slice_roundtrip, h3 abi f (by simp [depth] at hf; omega)]; rfl
  | array n _ ih =>
    obtain ⟨nm, h1, h2, h3⟩ := ih
    refine ⟨'[' :: (natDigits n ++ ']' :: nm), by simp [typeName, h1], by simp, fun abi fuel hf => ?_⟩
    cases fuel with
    | zero => simp [depth] at hf
    | succ f =>
      rw [array_roundtrip abi f n nm h2, h3 abi f (by simp [depth] at hf; omega)]; rfl

/-! ### registered types -/

def fld (go json : String) (t : GoTy) : FieldMeta × GoTy :=
  ({ goName := go.toList, jsonTag := some json.toList, serialize := true, embedded := false }, t)

def mkStruct (n : String) (fs : List (FieldMeta × GoTy)) : GoTy := .struct n.toList (Fields.ofList fs)

/-- examples/morpheusvm/actions: `Transfer`, `TransferResult` -/
def transferTy : GoTy := mkStruct "Transfer"
  [fld "To" "to" .address, fld "Value" "value" (.prim .u64), fld "Memo" "memo" (.slice (.prim .u8))]
def transferResultTy : GoTy := mkStruct "TransferResult"
  [fld "SenderBalance" "sender_balance" (.prim .u64), fld "ReceiverBalance" "receiver_balance" (.prim .u64)]

/-- abi/mockabi_test.go (the supported ones) -/
def mockTransferTy : GoTy := mkStruct "MockActionTransfer"
  [fld "To" "to" .address, fld "Value" "value" (.prim .u64), fld "Memo" "memo" (.slice (.prim .u8))]
def allNumbersTy : GoTy := mkStruct "MockObjectAllNumbers"
  [fld "Uint8" "uint8" (.prim .u8), fld "Uint16" "uint16" (.prim .u16), fld "Uint32" "uint32" (.prim .u32),
   fld "Uint64" "uint64" (.prim .u64), fld "Int8" "int8" (.prim .i8), fld "Int16" "int16" (.prim .i16),
   fld "Int32" "int32" (.prim .i32), fld "Int64" "int64" (.prim .i64)]
def stringAndBytesTy : GoTy := mkStruct "MockObjectStringAndBytes"
  [fld "Field1" "field1" (.prim .str), fld "Field2" "field2" (.slice (.prim .u8))]
def arraysTy : GoTy := mkStruct "MockObjectArrays"
  [fld "Strings" "strings" (.slice (.prim .str)), fld "Bytes" "bytes" (.slice (.slice (.prim .u8))),
   fld "Uint8s" "uint8s" (.slice (.prim .u8)), fld "Int64s" "int64s" (.slice (.prim .i64))]
def withTransferTy : GoTy := mkStruct "MockActionWithTransfer" [fld "Transfer" "transfer" mockTransferTy]
def withTransferArrayTy : GoTy :=
  mkStruct "MockActionWithTransferArray" [fld "Transfers" "transfers" (.slice mockTransferTy)]
def innerTy : GoTy := mkStruct "Inner" [fld "Field1" "field1" (.prim .u8)]
def outerTy : GoTy := mkStruct "Outer" [fld "Inner" "inner" innerTy, fld "InnerArr" "innerArr" (.slice innerTy)]
def fixedBytesTy : GoTy := mkStruct "FixedBytes"
  [fld "TwoBytes" "twoBytes" (.array 2 (.prim .u8)), fld "ThirtyTwoBytes" "thirtyTwoBytes" (.array 32 (.prim .u8))]
def singleNumberTy : GoTy := mkStruct "MockObjectSingleNumber"
  [({ goName := "Field1".toList, jsonTag := none, serialize := true, embedded := false }, .prim .u16)]

def topName : GoTy → Name
  | .struct n _ => n
  | _ => []

/-- the round trip of one type, as far as it can be evaluated -/
def roundtrip (t : GoTy) : Option (Except RErr GoTy) :=
  (describe t).map fun abi => (reflectType abi (depth t + 1) (topName t)).map shape

/-- **shape_roundtrip_registered**: `shape_roundtrip` instantiated at every supported registered
type of the reference VM and the framework's mock ABI. -/
theorem shape_roundtrip_registered :
    roundtrip transferTy = some (.ok (shape transferTy)) ∧
    roundtrip transferResultTy = some (.ok (shape transferResultTy)) ∧
    roundtrip mockTransferTy = some (.ok (shape mockTransferTy)) ∧
    roundtrip allNumbersTy = some (.ok (shape allNumbersTy)) ∧
    roundtrip stringAndBytesTy = some (.ok (shape stringAndBytesTy)) ∧
    roundtrip arraysTy = some (.ok (shape arraysTy)) ∧
    roundtrip withTransferTy = some (.ok (shape withTransferTy)) ∧
    roundtrip withTransferArrayTy = some (.ok (shape withTransferArrayTy)) ∧
    roundtrip outerTy = some (.ok (shape outerTy)) ∧
    roundtrip fixedBytesTy = some (.ok (shape fixedBytesTy)) ∧
    roundtrip singleNumberTy = some (.ok (shape singleNumberTy)) := by
  refine ⟨?_, ?_, ?_, ?_, ?_, ?_, ?_, ?_, ?_, ?_, ?_⟩ <;> rfl


/-- **shape_roundtrip** (full strength). -/
theorem shape_roundtrip (n : Name) (fs : Fields) (hsup : SupTy (.struct n fs))
    (hc : Consistent (structsOf (.struct n fs))) :
    roundtrip (.struct n fs) = some (.ok (shape (.struct n fs))) := by
  have hall := (supInfoTy _ hsup).2
  have hd : describe (.struct n fs) = some ((structsOf (.struct n fs)).map entry) :=
    describeAll_eq _ hall
  obtain ⟨nm, t', h1, h2, h3⟩ :=
    rtTy _ hc (.struct n fs) hsup (fun x hx => hx) (depth (.struct n fs) + 1) (Nat.le_succ _)
  have hn : n ≠ [] := by cases hsup with | struct hg _ _ => exact hg.2.2.2.2.2
  have hnm : nm = n := by
    simp only [typeName, hn, if_false, Option.some.injEq] at h1; exact h1.symm
  subst hnm
  simp only [roundtrip, hd, Option.map_some, topName, h2]
  rw [← h3]; rfl

/-- non-vacuity: the reference VM's `Transfer` satisfies the hypotheses -/
example : SupTy transferTy ∧ Consistent (structsOf transferTy) := by
  refine ⟨?_, ?_⟩
  · refine .struct ⟨rfl, rfl, rfl, rfl, rfl, by decide⟩ (by decide) ?_
    refine .cons ⟨rfl, rfl, by decide, by decide⟩ .address ?_
    refine .cons ⟨rfl, rfl, by decide, by decide⟩ (.prim _) ?_
    exact .cons ⟨rfl, rfl, by decide, by decide⟩ (.slice (.prim _)) .nil
  · intro n fs fs' h h'
    simp [transferTy, mkStruct, structsOf, structsOfFields, Fields.ofList, fld] at h h'
    rw [h.2, h'.2]

/-- non-vacuity with nesting: `Outer{inner Inner; innerArr []Inner}` (the same struct twice) -/
example : SupTy outerTy ∧ Consistent (structsOf outerTy) := by
  have hin : SupTy innerTy :=
    .struct ⟨rfl, rfl, rfl, rfl, rfl, by decide⟩ (by decide)
      (.cons ⟨rfl, rfl, by decide, by decide⟩ (.prim _) .nil)
  refine ⟨?_, ?_⟩
  · refine .struct ⟨rfl, rfl, rfl, rfl, rfl, by decide⟩ (by decide) ?_
    refine .cons ⟨rfl, rfl, by decide, by decide⟩ hin ?_
    exact .cons ⟨rfl, rfl, by decide, by decide⟩ (.slice hin) .nil
  · intro n fs fs' h h'
    simp [outerTy, innerTy, mkStruct, structsOf, structsOfFields, Fields.ofList, fld] at h h'
    rcases h with ⟨h1, h2⟩ | ⟨h1, h2⟩ <;> rcases h' with ⟨h1', h2'⟩ | ⟨h1', h2'⟩ <;>
      first | (exfalso; rw [h1] at h1'; revert h1'; decide) | (rw [h2, h2'])

/-! ### the property itself (value level) — partial

Full statement (kept visible; NOT provable here — `linearcodec` and `encoding/json` are
third-party code, and it is FALSE for named non-struct fields (`c29_counterexample`); the
failures for `bool` fields and for output types were repaired in /repo 5a5eff8 and 66d834d):

    theorem dynamic_codec_agrees : ∀ registered T, ∀ v : T,
      dynamic.Marshal(abi, T, json v) = v.Bytes() ∧ dynamic.Unmarshal(abi, v.Bytes(), T) ≡ json v
-/

/-- **dynamic_codec_agrees_partial**: for a supported type the dynamically rebuilt type `d`
exists and *every* function of a Go type that depends on it only through its shape — the
assumption made about the linear codec's `MarshalInto/UnmarshalFrom` and `json.Marshal/Unmarshal`
— takes the same value on `d` and on the native type. Value-level equality of bytes and JSON is
evaluated by the oracle on generated values, not proved. -/
theorem dynamic_codec_agrees_partial {α : Type} (codec : GoTy → α)
    (hshape : ∀ a b, shape a = shape b → codec a = codec b)
    (n : Name) (fs : Fields) (hsup : SupTy (.struct n fs))
    (hc : Consistent (structsOf (.struct n fs))) :
    ∃ abi d, describe (.struct n fs) = some abi ∧
      reflectType abi (depth (.struct n fs) + 1) n = .ok d ∧ codec d = codec (.struct n fs) := by
  have h := shape_roundtrip n fs hsup hc
  unfold roundtrip at h
  cases hd : describe (.struct n fs) with
  | none => rw [hd] at h; cases h
  | some abi =>
    rw [hd] at h
    simp only [Option.map_some, topName, Option.some.injEq] at h
    cases hr : reflectType abi (depth (.struct n fs) + 1) n with
    | error e => rw [hr] at h; cases h
    | ok d =>
      rw [hr] at h
      refine ⟨abi, d, rfl, hr, hshape _ _ ?_⟩
      simpa [Except.map] using h

/-! ### unsupported kinds -/

/-- **unsupported_reported**: a named non-struct field type is printed by its bare Go name `n`
(any identifier-like name: not a built-in spelling, no `[]`/`[k]` prefix) and nothing adds it to
the ABI; whenever the ABI has no type called `n`, `getReflectType` reports `type n not found`
for `n` itself and for `[]n` — the round trip fails loudly, it never yields a wrong type. -/
theorem unsupported_reported (abi : ABI) (fuel : Nat) (n : Name) (hg : goodName n)
    (h : findType abi n = none) :
    reflectType abi (fuel + 1) n = .error .notFound ∧
      reflectType abi (fuel + 2) ('[' :: ']' :: n) = .error .notFound := by
  obtain ⟨h1, hb, h2, h3, h4, _⟩ := hg
  have e : reflectType abi (fuel + 1) n = .error .notFound := by
    simp only [reflectType, h1, hb, h2, h3, h4, h]
    rfl
  refine ⟨e, ?_⟩
  rw [slice_roundtrip, e]; rfl

/-- the names occurring in /repo: `state.Permissions` (chaintest.TestAction), `codec.Bytes`, `ids.ID` -/
example : goodName "Permissions".toList ∧ goodName "Bytes".toList ∧ goodName "ID".toList :=
  ⟨⟨rfl, rfl, rfl, rfl, rfl, by decide⟩, ⟨rfl, rfl, rfl, rfl, rfl, by decide⟩, ⟨rfl, rfl, rfl, rfl, rfl, by decide⟩⟩

def boolsTy : GoTy := mkStruct "Bools" [fld "Bool1" "bool1" .bool, fld "BoolArray" "boolArray" (.slice .bool)]
def permsTy : GoTy := mkStruct "TestAction"
  [fld "SpecifiedStateKeyPermissions" "specifiedStateKeyPermissions" (.slice (.named "Permissions".toList (.prim .u8)))]

/-- the registered type for which the property still fails (named non-struct field) -/
theorem c29_counterexample : roundtrip permsTy = some (.error .notFound) := by rfl

/-- `bool` fields are supported (abi/dynamic `case "bool"`, /repo 5a5eff8) -/
theorem bools_roundtrip : roundtrip boolsTy = some (.ok (shape boolsTy)) := by rfl

def ptrTy : GoTy := mkStruct "XPtr" [fld "P" "p" (.ptr innerTy)]
def mapTy : GoTy := mkStruct "XMap" [fld "M" "m" (.map (.prim .str) (.prim .u8))]

/-- a pointer field comes back as a slice, silently -/
theorem ptr_misdescribed :
    roundtrip ptrTy = some (.ok (shape (mkStruct "XPtr" [fld "P" "p" (.slice innerTy)]))) ∧
    shape ptrTy ≠ shape (mkStruct "XPtr" [fld "P" "p" (.slice innerTy)]) := by
  refine ⟨rfl, ?_⟩
  intro h
  simp [shape, shapeFields, ptrTy, mkStruct, fld, Fields.ofList] at h

theorem map_misdescribed :
    roundtrip mapTy = some (.ok (shape (mkStruct "XMap" [fld "M" "m" (.slice (.prim .u8))]))) ∧
    shape mapTy ≠ shape (mkStruct "XMap" [fld "M" "m" (.slice (.prim .u8))]) := by
  refine ⟨rfl, ?_⟩
  intro h
  simp [shape, shapeFields, mapTy, mkStruct, fld, Fields.ofList] at h

example : Leaf (.array 32 (.slice (.array 0 .address))) := .array _ (.slice (.array _ .address))

end HyperModel.Props.C29
