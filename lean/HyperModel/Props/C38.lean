import HyperModel.Proofs.Bond
/-!
# C38 Fee bonds are released exactly once per bonded transaction

Model: `HyperModel.Bond` (`Model/Bond.lean`) — the bonder db, the *repaired* `Bonder.Bond`
(`/verif/fixes/C38-bond-idempotent.patch`), `Bonder.Unbond`, and the fdsmr node's
`BuildChunk` / `Accept` over the pending-expiry set. Histories are arbitrary lists of
`setmax` / `build` / `buildFail` (inner DSMR build fails) / `accept` operations with arbitrary (also repeated) transactions.

The property's right-hand side is the specification `Spec` of `Model/Bond.lean`: the set of
bonded transactions that are neither accepted nor expired, each with the fee of its bonding.
-/
namespace HyperModel.Props.C38
open HyperModel.Bond

/-- **Refinement.** After every history the fee records of the bonder db are exactly the
specification's unsettled bonds, the node invariant holds (every record is tracked in the
expiry heap; pending = Σ records; no overflow), and the max balances agree. -/
theorem node_refines_spec (ops : List Op) :
    NodeInv (run Node.init ops) ∧ Refines (run Node.init ops) (Spec.run Spec.init ops) :=
  run_refines NodeInv.init ⟨rfl, rfl⟩ ops

/-- `BuildChunk` hands exactly the transactions the specification accepts to the inner DSMR, in
every reachable state. -/
theorem build_output_eq_spec (ops : List Op) (rate : Nat) (txs : List Tx) :
    (buildChunk bond (run Node.init ops) rate txs).2 = ((Spec.run Spec.init ops).build rate txs).2 :=
  let h := node_refines_spec ops
  (build_refines h.1 h.2 rate txs).2.2

/-- **pending = Σ fees of the sponsor's bonded transactions that are neither accepted nor
expired**, after every history (duplicate submissions within and across chunks, accepts and
expiries in any order, any max balances and fee rates). -/
theorem pending_eq_sum_unsettled (ops : List Op) (a : Nat) :
    (run Node.init ops).db.pending a = (Spec.run Spec.init ops).pending a := by
  obtain ⟨hi, _, hr⟩ := node_refines_spec ops
  rw [hi.db.sum a, hr]; rfl

/-- **Returns to zero**: whenever none of the sponsor's bonded transactions is unsettled, its
pending bond is 0. -/
theorem returns_to_zero (ops : List Op) (a : Nat)
    (h : ∀ p ∈ (Spec.run Spec.init ops).unsettled, p.1.sponsor ≠ a) :
    (run Node.init ops).db.pending a = 0 := by
  rw [pending_eq_sum_unsettled]; exact sumFor_eq_zero h

/-- Concretely: accepting a block whose timestamp is past every tracked expiry releases every
bond of every sponsor, whatever happened before. -/
theorem returns_to_zero_after_expiry (ops : List Op) (ts : Int) (txs : List Tx)
    (h : ∀ t ∈ (run Node.init ops).heap, t.expiry < ts) (a : Nat) :
    (run Node.init (ops ++ [Op.accept ts txs])).db.pending a = 0 := by
  apply returns_to_zero
  obtain ⟨hi, _, hr⟩ := node_refines_spec ops
  intro p hp
  exfalso
  simp only [Spec.run, List.foldl_append, List.foldl_cons, List.foldl_nil, Spec.step, Spec.accept,
    List.mem_filter, Bool.and_eq_true, Bool.not_eq_true', decide_eq_false_iff_not] at hp
  have hmem : p ∈ (run Node.init ops).db.recs := by rw [hr]; exact hp.1
  exact hp.2.1 (h p.1 (hi.tracked p hmem))

/-- and a bond that was accepted or expired is gone: nothing settled stays in the sum. -/
theorem settled_not_unsettled (ops : List Op) (ts : Int) (txs : List Tx) (p : Tx × Nat)
    (hp : p ∈ (Spec.run Spec.init (ops ++ [Op.accept ts txs])).unsettled) :
    ¬ p.1.expiry < ts ∧ p.1 ∉ txs := by
  simp only [Spec.run, List.foldl_append, List.foldl_cons, List.foldl_nil, Spec.step, Spec.accept,
    List.mem_filter, Bool.and_eq_true, Bool.not_eq_true', decide_eq_false_iff_not] at hp
  exact hp.2

/-- **Pending never rises above the maximum**: an operation either does not raise a sponsor's
pending bond or leaves it within the sponsor's max balance (the one `Bond` read). No
assumption on the history (`SetMaxBalance` may lower the max at any time). -/
theorem pending_never_rises_above_max (ops : List Op) (op : Op) (a : Nat) :
    (step (run Node.init ops) op).db.pending a ≤ (run Node.init ops).db.pending a
    ∨ (step (run Node.init ops) op).db.pending a ≤ (step (run Node.init ops) op).maxBal a := by
  have hi := (node_refines_spec ops).1
  cases op with
  | setmax s m => exact Or.inl (Nat.le_refl _)
  | build rate txs =>
    simp only [step, build_maxBal]
    rcases build_pending (run Node.init ops) rate txs a with h | h
    · exact Or.inl (Nat.le_of_eq h)
    · exact Or.inr h
  | buildFail rate txs =>
    simp only [step, build_maxBal]
    rcases build_pending (run Node.init ops) rate txs a with h | h
    · exact Or.inl (Nat.le_of_eq h)
    · exact Or.inr h
  | accept ts txs => exact Or.inl (accept_pending_le hi ts txs a)

/-- histories in which `SetMaxBalance` never sets a sponsor's max below its current pending bond -/
def SafeHistory (n : Node) : List Op → Prop
  | [] => True
  | Op.setmax s m :: rest => n.db.pending s ≤ m ∧ SafeHistory (step n (Op.setmax s m)) rest
  | op :: rest => SafeHistory (step n op) rest

theorem pending_le_max_from {n : Node} (hi : NodeInv n) (hle : ∀ a, n.db.pending a ≤ n.maxBal a)
    (ops : List Op) (hs : SafeHistory n ops) (a : Nat) :
    (run n ops).db.pending a ≤ (run n ops).maxBal a := by
  induction ops generalizing n with
  | nil => exact hle a
  | cons op rest ih =>
    have hi' : NodeInv (step n op) := by
      cases op with
      | setmax s m => exact ⟨hi.db, hi.tracked⟩
      | build rate txs => exact (build_refines hi (s := ⟨n.maxBal, n.db.recs⟩) ⟨rfl, rfl⟩ rate txs).1
      | buildFail rate txs => exact (build_refines hi (s := ⟨n.maxBal, n.db.recs⟩) ⟨rfl, rfl⟩ rate txs).1
      | accept ts txs => exact (accept_refines hi (s := ⟨n.maxBal, n.db.recs⟩) ⟨rfl, rfl⟩ ts txs).1
    cases op with
    | setmax s m =>
      simp only [SafeHistory] at hs
      refine ih hi' ?_ hs.2
      intro b
      by_cases hb : b = s
      · subst hb; simpa [step, setMax, setAt] using hs.1
      · simpa [step, setMax, setAt, hb] using hle b
    | build rate txs =>
      simp only [SafeHistory] at hs
      refine ih hi' ?_ hs
      intro b
      simp only [step, build_maxBal]
      rcases build_pending n rate txs b with h | h
      · rw [h]; exact hle b
      · exact h
    | buildFail rate txs =>
      simp only [SafeHistory] at hs
      refine ih hi' ?_ hs
      intro b
      simp only [step, build_maxBal]
      rcases build_pending n rate txs b with h | h
      · rw [h]; exact hle b
      · exact h
    | accept ts txs =>
      simp only [SafeHistory] at hs
      refine ih hi' ?_ hs
      intro b
      exact Nat.le_trans (accept_pending_le hi ts txs b) (by simpa [step, accept] using hle b)

/-- **pending ≤ max** in every state of every history in which the max is never set below the
current pending bond. -/
theorem pending_le_max (ops : List Op) (hs : SafeHistory Node.init ops) (a : Nat) :
    (run Node.init ops).db.pending a ≤ (run Node.init ops).maxBal a :=
  pending_le_max_from NodeInv.init (by simp [Node.init, Db.empty]) ops hs a

/-- db level, for arbitrary interleavings of raw `Bond`/`Unbond` calls (any caller, not only
the fdsmr node): the invariant "pending = Σ records, one record per tx, no overflow" is
preserved by both operations. -/
theorem bond_unbond_preserve_db_invariant {db : Db} (h : DbInv db) :
    (∀ m tx rate, DbInv (bond db m tx rate).1) ∧ (∀ tx, DbInv (unbond db tx)) :=
  ⟨fun m tx rate => bond_inv h m tx rate, fun tx => unbond_inv h tx⟩

/-- **Failed inner builds do not leak bonds**: a `BuildChunk` whose inner `DSMR.BuildChunk`
fails leaves every bonded tx tracked in the expiry heap, so a block past the expiries releases
everything (instance of `returns_to_zero_after_expiry` for histories ending in a failed build). -/
theorem failed_build_released_at_expiry (ops : List Op) (rate : Nat) (txs : List Tx) (ts : Int)
    (h : ∀ t ∈ (run Node.init (ops ++ [Op.buildFail rate txs])).heap, t.expiry < ts) (a : Nat) :
    (run Node.init (ops ++ [Op.buildFail rate txs] ++ [Op.accept ts []])).db.pending a = 0 :=
  returns_to_zero_after_expiry (ops ++ [Op.buildFail rate txs]) ts [] h a

/-- every record of a reachable state is tracked in the heap — also right after a failed build -/
theorem bonded_is_tracked (ops : List Op) (p : Tx × Nat) (hp : p ∈ (run Node.init ops).db.recs) :
    p.1 ∈ (run Node.init ops).heap :=
  (node_refines_spec ops).1.tracked p hp

/-! ### The code before the repair violates the property -/

private def t0 : Tx := { nonce := 0, sponsor := 0, size := 11, expiry := 100 }
private def witness : List Op :=
  [Op.setmax 0 1000000, Op.build 1 [t0], Op.build 1 [t0], Op.accept 50 [t0], Op.accept 200 []]

/-- `bond t; bond t; accept t; expire`: with the unrepaired `Bond` the sponsor's pending bond
stays at one fee forever although nothing is unsettled; the heap is empty, so no later
operation can release it. (Replayed on the Go code by the harness corpus.) -/
theorem c38_counterexample_unrepaired :
    (runOrig Node.init witness).db.pending 0 = 11
    ∧ (runOrig Node.init witness).db.recs = []
    ∧ (runOrig Node.init witness).heap = []
    ∧ (Spec.run Spec.init witness).unsettled = [] := by
  decide

/-- the same history on the repaired code -/
example : (run Node.init witness).db.pending 0 = 0 := by decide

/-! ### Non-vacuity -/

/-- a failed build bonds and tracks; the bond is released at expiry -/
example : (run Node.init [Op.setmax 0 1000, Op.buildFail 1 [t0]]).db.pending 0 = 11
    ∧ (run Node.init [Op.setmax 0 1000, Op.buildFail 1 [t0]]).heap = [t0]
    ∧ (run Node.init [Op.setmax 0 1000, Op.buildFail 1 [t0], Op.accept 200 []]).db.pending 0 = 0 := by decide

/-- `SafeHistory` is satisfiable by a history that bonds, re-bonds, accepts and expires. -/
example : SafeHistory Node.init witness := by
  simp [witness, SafeHistory, Node.init, Db.empty]
/-- the refinement is about non-trivial states: after the two builds one bond is unsettled -/
example : (Spec.run Spec.init (witness.take 3)).unsettled = [(t0, 11)] := by decide
example : (run Node.init (witness.take 3)).db.pending 0 = 11 := by decide
/-- a limit that rejects -/
example : (run Node.init [Op.setmax 0 10, Op.build 1 [t0]]).db.pending 0 = 0 := by decide
/-- the premise of `returns_to_zero_after_expiry` is satisfiable with a non-empty heap -/
example : (run Node.init (witness.take 3)).heap = [t0] ∧ ∀ t ∈ (run Node.init (witness.take 3)).heap, t.expiry < 200 := by
  decide

end HyperModel.Props.C38
