import HyperModel.Proofs.Builder
/-!
# C02 Every block the builder produces verifies identically

`build` (Model/Builder.lean) is `BuildBlock` with its builder-only paths; `verify` is
`Processor.Execute` on the same parent (replay protection, then `execSeq` of C01 between
`createBlockContext` and `writeBlockContext`). By C01 `execSeq` is also what every parallel run of
the verifier returns. A schedule lists, per batch, the closures in the order they took `blockLock`,
each flagged "skipped by the executor"; closures that are not skipped run to the end even after
`stop` (in-flight tasks).
-/
namespace HyperModel.Props.C02
open HyperModel.BlockExec HyperModel.Builder HyperModel.BlockExecProofs HyperModel.BuilderProofs

/-- **C02 (duplicates)** the built block never contains a tx id twice and never a tx that
`IsRepeat` marked (one contained in an ancestor inside the validity window), nor a tx whose
`StateKeys` fails (the builder drops it, the verifier would reject the block) — for every schedule
that only runs closures it was handed and runs no tx id twice (`SchedOK`: executor C08, mempool
C23). -/
theorem built_block_no_duplicates (c : BCtx) (sched : List Tx → List (Tx × Bool))
    (batches : List (List Tx)) (b : Built) (ok : SchedOK c sched batches)
    (hb : build c sched batches = some b) :
    (b.txs.map (·.id)).Nodup ∧ ∀ t, t ∈ b.txs → c.seen t.id = false ∧ t.keysOk = true := by
  have h := block_no_duplicates c sched batches ok
  unfold build at hb
  split at hb
  · cases hb
  · simp only at hb
    split at hb
    · cases hb
    · split at hb
      · cases hb
      · split at hb
        · cases hb
        · cases hb; exact h

/-- **C02** For every parent (whose header agrees with its state: `ParentConsistent`), every
mempool content (any batches, any txs already in an ancestor, sizes, failing / underfunded /
expired / oversized txs), all rules/limits and every schedule satisfying `SchedOK`: if `BuildBlock`
returns a block, then verification of that block on the same parent — replay protection included —
succeeds and yields the builder's post-state, results and units consumed (unit prices are the same
`ComputeNext` value on both sides). -/
theorem build_verifies (c : BCtx) (sched : List Tx → List (Tx × Bool)) (batches : List (List Tx))
    (b : Built) (pc : ParentConsistent c) (ok : SchedOK c sched batches)
    (hb : build c sched batches = some b) :
    ∃ v, verify c b = some v ∧ v.post = applyDiff c.parent b.diff ∧
      v.results = b.results ∧ v.consumed = b.consumed := by
  have hnd := built_block_no_duplicates c sched batches b ok hb
  unfold build at hb
  split at hb
  · cases hb
  · rename_i hgap
    simp only at hb
    split at hb
    · cases hb
    · split at hb
      · cases hb
      · rename_i hempty
        split at hb
        · cases hb
        · rename_i dB eB
          cases hb
          have hinv := buildLoop_inv c sched batches _ (binv_init c)
          generalize buildLoop c sched (BState.init c) batches = s at *
          obtain ⟨dV, eV, hpost⟩ := metadata_same_post pc eB
          have hrf : replayFree c s.block = true :=
            replayFree_of c s.block hnd.1 (fun t ht => (hnd.2 t ht).1)
          have hko : s.block.any (fun t => !t.keysOk) = false := by
            rw [List.any_eq_false]
            intro t ht
            simp [(hnd.2 t ht).2]
          unfold verify
          simp only [pc.1, pc.2.1]
          have e1 : ¬ (c.parentHeight + 1 ≠ c.parentHeight + 1) := fun h => h rfl
          rw [if_neg e1]
          simp only [hrf, hko, Bool.not_true, Bool.false_eq_true, if_false]
          rw [if_neg hgap, if_neg hempty]
          have : execSeq (c.exec s.block) = some (s.diff, s.results, s.consumed) := hinv
          rw [this]
          simp only
          rw [eV]
          exact ⟨_, rfl, hpost, rfl, rfl⟩

/-- a transaction the builder does not include (PreExecute failure; unit-limit skip or stop;
executor already stopped; Execute error) leaves diff, consumption, block and results
untouched — only the restore list / flags change -/
theorem skipped_tx_no_effect (c : BCtx) (s : BState) (t : Tx × Bool)
    (h : (procTx c s t).block = s.block) :
    (procTx c s t).diff = s.diff ∧ (procTx c s t).consumed = s.consumed ∧
      (procTx c s t).results = s.results := by
  rcases procTx_cases c s t with ⟨_, a, b, d⟩ | h2
  · exact ⟨a, b, d⟩
  · rw [h2] at h
    have := congrArg List.length h
    simp at this

/-- the verifier consumes units *before* execution, tx by tx, and fails on the first excess; the
builder consumed the same units after execution. If the total fits, every prefix fits. (Not used by
`build_verifies`, whose invariant `builder_state_verifies` already carries the consumption of every
prefix; it is the reason C01's verifier main loop, which consumes for all txs up front, cannot
fail on a block whose sequential consumption succeeds.) -/
theorem consume_prefix_ok (c : Ctx) (n m : Nat) (u : Dims) (h : cons c m = some u) (hnm : n ≤ m) :
    ∃ u', cons c n = some u' := by
  cases hx : cons c n with
  | some u' => exact ⟨u', rfl⟩
  | none => rw [cons_none_mono c hx m hnm] at h; cases h

/-- see `BuilderProofs.metadata_same_post` -/
theorem metadata_same_diff (c : BCtx) (pc : ParentConsistent c) (d dB : Diff) (h t f : Val)
    (e : writeMeta (metaScopeB c) (fakeStore c) c d h t f = some dB) :
    ∃ dV, writeMeta (fun _ => pAll) (fun _ => none) c d h t f = some dV ∧
      applyDiff c.parent dV = applyDiff c.parent dB :=
  metadata_same_post pc e

/-- the invariant of the builder's loop: at every point, verifying the block built so far
reproduces the builder's diff, results and consumption -/
theorem builder_state_verifies (c : BCtx) (sched : List Tx → List (Tx × Bool)) (batches : List (List Tx)) :
    let s := buildLoop c sched (BState.init c) batches
    execSeq (c.exec s.block) = some (s.diff, s.results, s.consumed) :=
  buildLoop_inv c sched batches _ (binv_init c)

/-! ### non-vacuity -/

def exTx (id : Nat) (keys : List (Key × Perm)) (units : Nat) (acts : List (List Op)) : Tx :=
  { id := id, keys := (9, 5) :: keys, sponsor := 9, units := [units], preOk := true, actions := acts, size := 10 }

def exC : BCtx :=
  { parent := fun k => if k = 9 then some 100 else if k = 20 then some 4 else if k = 21 then some 50
      else if k = 22 then some 0 else none
    prices := [1], maxUnits := [5], targetUnits := [4], targetTxsSize := 35, minBlockGap := 1,
    minEmptyBlockGap := 10, parentHeight := 4, parentTs := 50, parentFee := 0, now := 60,
    hk := 20, tk := 21, fk := 22, feeEnc := fun _ u t => u.foldl (· + ·) t, seen := fun i => i == 1 }

def runAll (l : List Tx) : List (Tx × Bool) := l.map (fun t => (t, false))

example : ParentConsistent exC := ⟨rfl, rfl, rfl, by decide, by decide, by decide⟩

def exPool : List (List Tx) :=
  [[exTx 0 [(0, 7)] 2 [[.put 0 1]], exTx 1 [] 2 [], exTx 2 [(0, 1)] 4 [[.get 0]],
    { exTx 3 [] 1 [] with preOk := false }, exTx 4 [(0, 1)] 3 [[.get 0]]]]

/-- a mempool with an included tx, a tx already in an ancestor (id 1), a tx over the unit limit
(skipped and restored; stop is not reached) and two txs beyond the size cap (restored): a block of
one tx is built, height 5 is written -/
example : (build exC runAll exPool).map
      (fun b => (b.txs.map (·.id), b.consumed, b.restorable.map (·.id), b.diff 20, b.diff 0)) =
    some ([0], [2], [3, 4, 2], some (some 5), some (some 1)) := by
  rfl

example : SchedOK exC runAll exPool := ⟨fun l x hx => by
  obtain ⟨t, ht, rfl⟩ := List.mem_map.mp hx; exact ht, by decide⟩

/-- the replay check of the model's verifier has teeth: a block containing the ancestor's tx, or
one tx twice, does not verify -/
def exBuilt (txs : List Tx) : Built :=
  { txs := txs, height := 5, ts := 60, diff := emptyDiff, results := [], consumed := [2], restorable := [] }

example : verify exC (exBuilt [exTx 1 [] 2 []]) = none := by rfl
example : verify exC (exBuilt [exTx 0 [] 2 [], exTx 0 [] 2 []]) = none := by rfl
example : (verify exC (exBuilt [exTx 0 [] 2 []])).isSome = true := by rfl

/-- StateKeys-error path: the builder drops such a tx (here: the only one, so the block is empty),
and a block that contained it would not verify -/
example : (build exC runAll [[{ exTx 0 [] 2 [] with keysOk := false }]]).map (fun b => b.txs.length) = some 0 := by rfl
example : verify exC (exBuilt [{ exTx 0 [] 2 [] with keysOk := false }]) = none := by rfl

end HyperModel.Props.C02
