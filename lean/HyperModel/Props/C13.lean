import HyperModel.Model.Fees
import HyperModel.Proofs.Fees
/-! # C13 Unit prices follow the fee-market rule exactly

Theorems about `Fees.computeNextPriceWindow` / `Fees.nextPrice`, the transcription of
`internal/fees/manager.go: computeNextPriceWindow` **with the repair**
`fixes/C13-fee-price-128bit.patch`, over the **full 64-bit range** of every argument, and
about `Window.roll/sum/update` and the manager's byte layout.

`specNext` (in `Proofs/Fees.lean`) is the rule of the property in exact, unbounded
arithmetic: above target `min (price + max 1 ⌊⌊price·Δ/target⌋/denom⌋) MaxUint64`, below
target `price ∸ max 1 ⌊⌊price·Δ/target⌋/denom⌋ · (since/10 if since > 10)`, then `max · minPrice`.

Explicit hypotheses: `0 < target`, `0 < denom` (the code divides by both; with a zero the
real code panics with "integer divide by zero" — `zero_target_panics`, `zero_denom_panics`,
and recorded by the harness from the running code on every run).

The unrepaired code (`nextPriceOrig`, 64-bit wrap-around) violates the rule and its
monotonicity: `c13_wrap_witness`; it satisfies the rule when no product wraps:
`orig_eq_spec_partial`. -/
namespace HyperModel.Props.C13
open HyperModel.Window HyperModel.Fees HyperModel.FeesProofs

/-- **C13** the next price is never below the minimum price (any arguments, even zero
target/denominator: whenever the function returns at all). -/
theorem next_ge_min (w : Window) (consumed price target denom minPrice since p : Nat) (nw : Window)
    (h : computeNextPriceWindow w consumed price target denom minPrice since = some (p, nw)) :
    minPrice ≤ p := by
  unfold computeNextPriceWindow at h
  simp only at h
  split at h
  · cases h
  · rename_i q hq
    injection h with h; injection h with h1 h2; subst h1
    exact nextPrice_ge_min _ _ _ _ _ _ _ hq

/-- **C13** for every 64-bit price and all other arguments (any window contents, consumption,
elapsed time, minimum price), with positive target and denominator, the function returns
(no panic), the new window is the rolled/updated one, and the new price is the exact rule
applied to the window's usage. -/
theorem next_eq_spec (w : Window) (consumed price target denom minPrice since : Nat)
    (hp : price < two64) (ht : 0 < target) (hd : 0 < denom) :
    computeNextPriceWindow w consumed price target denom minPrice since =
      some (specNext (sum (nextWindow w consumed since)) price target denom minPrice since,
            nextWindow w consumed since) := by
  unfold computeNextPriceWindow
  simp only [nextPrice_eq_spec _ _ _ _ _ _ hp ht hd]

/-- the result is a `uint64` -/
theorem next_lt_two64 (total price target denom minPrice since : Nat)
    (hp : price < two64) (hmin : minPrice < two64) :
    specNext total price target denom minPrice since < two64 :=
  specNext_lt _ _ _ _ _ _ hp hmin

/-- **C13** direction of the change: above target the price rises by at least one unit
(saturating at MaxUint64), below target it falls by at least one unit (not below 0 / the
minimum), at target it stays. -/
theorem next_direction (total price target denom minPrice since : Nat) (hp : price < two64) :
    (total > target → specNext total price target denom minPrice since ≥ max (min (price + 1) maxU64) minPrice) ∧
    (total < target → specNext total price target denom minPrice since ≤ max (price - 1) minPrice) ∧
    (total = target → specNext total price target denom minPrice since = max price minPrice) :=
  specNext_direction _ _ _ _ _ _ (by have := maxU64_eq; omega)

/-- **C13** a higher window usage never yields a lower next price: for windows `w1 ≤ w2`
slot-wise and parent consumption `c1 ≤ c2`, all other arguments equal. -/
theorem next_monotone_in_usage (w1 w2 : Window) (c1 c2 price target denom minPrice since : Nat)
    (hp : price < two64) (ht : 0 < target) (hd : 0 < denom)
    (hw : ∀ i, i < windowSize → slot w1 i ≤ slot w2 i) (hc : c1 ≤ c2) :
    ∃ p1 p2 nw1 nw2,
      computeNextPriceWindow w1 c1 price target denom minPrice since = some (p1, nw1) ∧
      computeNextPriceWindow w2 c2 price target denom minPrice since = some (p2, nw2) ∧
      p1 ≤ p2 := by
  refine ⟨_, _, _, _, next_eq_spec w1 c1 _ _ _ _ _ hp ht hd, next_eq_spec w2 c2 _ _ _ _ _ hp ht hd, ?_⟩
  apply specNext_mono
  · exact sum_mono (nextWindow_mono since hw hc)
  · have := maxU64_eq; omega

/-- the rule itself is monotone in the usage figure -/
theorem spec_monotone_in_total (t1 t2 price target denom minPrice since : Nat)
    (h : t1 ≤ t2) (hp : price < two64) :
    specNext t1 price target denom minPrice since ≤ specNext t2 price target denom minPrice since :=
  specNext_mono _ _ _ _ _ _ _ h (by have := maxU64_eq; omega)

/-- **C13** windows: `Sum` is the exact sum of the ten slots saturated at MaxUint64; `Roll`
shifts by `r` slots and zero-fills (everything is dropped from `r ≥ WindowSize`); `Update`
adds into one slot, saturating. -/
theorem roll_sum_spec (w : Window) :
    sum w = min (exactSum w) maxU64 ∧
    (∀ r i, i < windowSize →
      slot (roll w r) i = if r ≤ windowSize ∧ i + r < windowSize then slot w (i + r) else 0) ∧
    (∀ j v i, i < windowSize →
      slot (update w j v) i = if i = j then min (slot w j + v) maxU64 else slot w i) :=
  ⟨sum_eq w, fun r _ hi => slot_roll w r hi, fun j v _ hi => slot_update w j v hi⟩

/-- **C13** byte layout: a fee state (timestamp; per dimension price, ten window slots,
last consumption; all `uint64`) encoded to the manager's 488 bytes decodes to itself, the
encoding has the manager's length, and re-encoding any byte string of whole words is the
identity. -/
theorem bytes_roundtrip (s : FeeState) (h5 : s.dims.length = feeDimensions)
    (hw : ∀ d ∈ s.dims, d.window.length = windowSize)
    (hlt : ∀ x ∈ encode s, x < two64) :
    decode (bytesToWords (wordsToBytes (encode s))) = s ∧
    (encode s).length = rawWords := by
  rw [bytesToWords_wordsToBytes _ hlt]
  exact ⟨decode_encode s h5 hw, encode_length s h5⟩

theorem bytes_roundtrip_raw (bs : List UInt8) (h : bs.length % 8 = 0) :
    wordsToBytes (bytesToWords bs) = bs ∧ ∀ x ∈ bytesToWords bs, x < two64 :=
  ⟨wordsToBytes_bytesToWords bs h, bytesToWords_lt bs⟩

/-- `SetUnitPrice` / `SetLastConsumed` store exactly one word: reading any field afterwards -/
theorem setters_spec (r : Raw) (hr : r.length = rawWords) (d v : Nat) (hd : d < feeDimensions) :
    (∀ j, getWord (setUnitPrice r d v) j = if j = priceIdx d then v else getWord r j) ∧
    (∀ j, getWord (setLastConsumed r d v) j = if j = consumedIdx d then v else getWord r j) := by
  have h1 : priceIdx d < r.length := by
    simp only [hr, priceIdx, rawWords, dimWords, windowSize, feeDimensions] at *; omega
  have h2 : consumedIdx d < r.length := by
    simp only [hr, consumedIdx, rawWords, dimWords, windowSize, feeDimensions] at *; omega
  constructor
  · intro j; unfold setUnitPrice; rw [getWord_set _ _ _ _ h1]
    by_cases h : priceIdx d = j
    · simp [h]
    · have : ¬ j = priceIdx d := fun e => h e.symm
      simp [h, this]
  · intro j; unfold setLastConsumed; rw [getWord_set _ _ _ _ h2]
    by_cases h : consumedIdx d = j
    · simp [h]
    · have : ¬ j = consumedIdx d := fun e => h e.symm
      simp [h, this]

/-- elapsed seconds as `ComputeNext` computes them -/
def sinceOf (r : Raw) (currTime : Int) : Nat := toUint64 (currTime.tdiv 1000 - toInt64 (timestamp r))

/-- the state `ComputeNext` is specified to produce -/
def specNextState (r : Raw) (currTime : Int) (targets denoms mins : Dims) : FeeState :=
  { ts := toUint64 (currTime.tdiv 1000),
    dims := (List.range feeDimensions).map fun d =>
      { price := specNext (sum (nextWindow (window r d) (lastConsumed r d) (sinceOf r currTime)))
                  (unitPrice r d) (dget targets d) (dget denoms d) (dget mins d) (sinceOf r currTime),
        window := nextWindow (window r d) (lastConsumed r d) (sinceOf r currTime),
        consumed := 0 } }

theorem computeNextDims_spec (r : Raw) (targets denoms mins : Dims) (since : Nat) (ds : List Nat)
    (hp : ∀ d ∈ ds, unitPrice r d < two64) (ht : ∀ d ∈ ds, 0 < dget targets d)
    (hd : ∀ d ∈ ds, 0 < dget denoms d) :
    computeNextDims r targets denoms mins since ds =
      some (encodeDims (ds.map fun d =>
        { price := specNext (sum (nextWindow (window r d) (lastConsumed r d) since))
                    (unitPrice r d) (dget targets d) (dget denoms d) (dget mins d) since,
          window := nextWindow (window r d) (lastConsumed r d) since,
          consumed := 0 })) := by
  induction ds with
  | nil => rfl
  | cons d rest ih =>
    have h0 := List.mem_cons_self (a := d) (l := rest)
    unfold computeNextDims
    rw [next_eq_spec _ _ _ _ _ _ _ (hp d h0) (ht d h0) (hd d h0)]
    simp only
    rw [ih (fun x hx => hp x (List.mem_cons_of_mem _ hx)) (fun x hx => ht x (List.mem_cons_of_mem _ hx))
      (fun x hx => hd x (List.mem_cons_of_mem _ hx))]
    simp [encodeDims]

/-- **C13** `Manager.ComputeNext` on a 488-byte manager: the result is the encoding of the new
timestamp and, per dimension, the exact-rule price, the rolled/updated window and zero
consumption (so, with `bytes_roundtrip`, it decodes to exactly these values). -/
theorem computeNext_spec (r : Raw) (currTime : Int) (targets denoms mins : Dims)
    (hp : ∀ d, d < feeDimensions → unitPrice r d < two64)
    (ht : ∀ d, d < feeDimensions → 0 < dget targets d)
    (hd : ∀ d, d < feeDimensions → 0 < dget denoms d) :
    computeNext r currTime targets denoms mins = some (encode (specNextState r currTime targets denoms mins)) := by
  unfold computeNext
  simp only
  rw [computeNextDims_spec r targets denoms mins _ _
    (fun d h => hp d (List.mem_range.mp h)) (fun d h => ht d (List.mem_range.mp h))
    (fun d h => hd d (List.mem_range.mp h))]
  rfl

/-! ### outside the property: zero target / zero denominator -/

/-- usage above a zero target: integer division by zero (run-time panic) -/
theorem zero_target_panics (total price denom minPrice since : Nat) (h : 0 < total) :
    nextPrice total price 0 denom minPrice since = none := by
  unfold nextPrice
  simp [h, mulDivDiv_zero_target]

/-- usage different from the target with a zero denominator: panic -/
theorem zero_denom_panics (total price target minPrice since : Nat) (ht : 0 < target)
    (h : total ≠ target) : nextPrice total price target 0 minPrice since = none := by
  unfold nextPrice
  by_cases h1 : total > target
  · simp [h1, mulDivDiv_zero_denom _ _ _ ht]
  · have h2 : total < target := by omega
    simp [h1, h2, mulDivDiv_zero_denom _ _ _ ht]

/-! ### the unrepaired arithmetic -/

/-- **defect of the unrepaired code** (price 2^62, target 1000, denominator 2, elapsed 1 s):
usage 1003 raises the price by 3·2^62/2000, usage 1004 — whose product `2^62·4 = 2^64`
wraps to 0 — only by 1: a higher usage yields a lower price, and the result differs from
the exact rule. -/
theorem c13_wrap_witness :
    nextPriceOrig 1003 (2 ^ 62) 1000 2 1 1 = some 4618603547455028985 ∧
    nextPriceOrig 1004 (2 ^ 62) 1000 2 1 1 = some 4611686018427387905 ∧
    specNext 1004 (2 ^ 62) 1000 2 1 1 = 4620909390464242679 := by
  refine ⟨by decide, by decide, by decide⟩

/-- non-vacuity / the repaired code on the witness -/
example : nextPrice 1004 (2 ^ 62) 1000 2 1 1 = some 4620909390464242679 := by decide

/-- the unrepaired arithmetic agrees with the rule whenever neither product wraps -/
theorem orig_eq_spec_partial (total price target denom minPrice since : Nat)
    (hp : price < two64) (ht : 0 < target) (hd : 0 < denom)
    (h1 : price * (total - target) < two64) (h2 : price * (target - total) < two64)
    (h3 : baseDelta price (target - total) target denom * (since / windowSize) < two64) :
    nextPriceOrig total price target denom minPrice since
      = some (specNext total price target denom minPrice since) := by
  have hm := maxU64_eq
  have hT := two64_pos
  unfold nextPriceOrig specNext baseDelta
  have ht0 : ¬ (target = 0 ∨ denom = 0) := by omega
  by_cases c1 : total > target
  · simp only [c1, if_true, ht0, if_false, Nat.mod_eq_of_lt h1]
    congr 1
    generalize price * (total - target) / target / denom = X
    simp only [Nat.max_def, Nat.min_def]
    repeat' split
    all_goals omega
  · by_cases c2 : total < target
    · simp only [c1, c2, if_true, if_false, ht0, Nat.mod_eq_of_lt h2]
      congr 1
      unfold baseDelta at h3
      have hB : (if price * (target - total) / target / denom < 1 then 1
          else price * (target - total) / target / denom)
          = max 1 (price * (target - total) / target / denom) := by
        simp only [Nat.max_def]; repeat' split
        all_goals omega
      rw [hB]
      by_cases hs : since > windowSize
      · simp only [hs, if_true, Nat.mod_eq_of_lt h3]
        generalize max 1 (price * (target - total) / target / denom) * (since / windowSize) = Y
        simp only [Nat.max_def]
        repeat' split
        all_goals omega
      · simp only [hs, if_false, Nat.mul_one]
        generalize max 1 (price * (target - total) / target / denom) = Y
        simp only [Nat.max_def]
        repeat' split
        all_goals omega
    · simp only [c1, c2, if_false]
      congr 1
      simp only [Nat.max_def]
      repeat' split
      all_goals omega

end HyperModel.Props.C13
