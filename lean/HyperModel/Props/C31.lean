import HyperModel.Model.Indexer
/-!
# C31 The indexer serves exactly the recent accepted blocks and transaction results

The code as it is violates the property (known findings, re-demonstrated on the real indexer in
every run): `c31_counterexample_stale_after_gap`, `c31_counterexample_restart_after_gap`,
`c31_counterexample_redelivery`, `c31_counterexample_window_change` prove the negations on the
model with the same witnesses the harness replays.

`answers_eq_window_spec_partial` is the strongest statement proved: for a fresh indexer with any
valid window and any run of notifications at consecutive heights (starting anywhere),
`GetBlockByHeight` answers exactly the window `(last - window, last]` and `GetLatestBlock` the last
block. Missing for full strength (and false in general, see the counterexamples): histories with
height gaps / re-delivery / window changes; the by-id and by-transaction queries and
`restart_invariant` for consecutive histories are checked by the oracle on every run but not proved.
-/
namespace HyperModel.Props.C31
open HyperModel.Indexer

/-- the state `NewIndexer` produces on an empty directory -/
def fresh (w : Nat) : St :=
  { w := w, db := [], idToHeight := fun _ => none, heightToBlock := fun _ => none,
    txCache := fun _ => none, lastHeight := maxU64 }

theorem newIndexer_empty (w : Nat) (h1 : 0 < w) (h2 : w ≤ maxBlockWindow) :
    newIndexer w [] = some (fresh w) := by
  have : ¬ w > maxBlockWindow := by omega
  have : ¬ w = 0 := by omega
  simp [newIndexer, initBlocks, fresh, dbDeleteRange, *]

/-- notify a list of blocks / restart with a window -/
inductive Op
  | notify (b : Block)
  | restart (w : Nat)

def step (s : St) : Op → St
  | .notify b => notify s b
  | .restart w => (newIndexer w s.db).getD s

def run (s : St) (ops : List Op) : St := ops.foldl step s

def blk (h : Nat) (tx : Nat) : Block :=
  { id := [h], height := h, ts := 10 * h, txs := [tx], results := [100 * h] }

/-! ## the property fails on the code as it is -/

/-- window 2, notify 1, 2, 10: heights 1 and 2 (older than the window (8, 10]) and their
transactions are still served. -/
theorem c31_counterexample_stale_after_gap :
    let s := run (fresh 2) [.notify (blk 1 0), .notify (blk 2 1), .notify (blk 10 2)]
    getBlockByHeight s 1 = some (blk 1 0) ∧ getBlock s [2] = some (blk 2 1) ∧
    getTransaction s 0 = .found 0 10 100 := by
  decide

/-- … the first restart still serves them, the second one does not: a restart changes answers. -/
theorem c31_counterexample_restart_after_gap :
    let s := run (fresh 2) [.notify (blk 1 0), .notify (blk 2 1), .notify (blk 10 2), .restart 2]
    getBlockByHeight s 1 = some (blk 1 0) ∧ getBlockByHeight (step s (.restart 2)) 1 = none ∧
    getTransaction s 0 = .found 0 10 100 ∧ getTransaction (step s (.restart 2)) 0 = .notFound := by
  decide

/-- re-delivery of an older block moves `GetLatestBlock` backwards; a restart moves it forward. -/
theorem c31_counterexample_redelivery :
    let s := run (fresh 3) [.notify (blk 3 0), .notify (blk 4 1), .notify (blk 3 0)]
    getLatestBlock s = some (blk 3 0) ∧ getLatestBlock (step s (.restart 3)) = some (blk 4 1) := by
  decide

/-- consecutive heights, restart onto a smaller window: the block left at `last - window` in the
store is served again after the next restart. -/
theorem c31_counterexample_window_change :
    let s := run (fresh 3) [.notify (blk 4 0), .notify (blk 5 1), .restart 1, .notify (blk 6 2)]
    getBlockByHeight s 4 = none ∧ getBlockByHeight (step s (.restart 1)) 4 = some (blk 4 0) := by
  decide

/-! ## what does hold: consecutive notifications in one process -/

/-- `n` notifications at heights `a, a+1, …` of the chain `c` on a fresh indexer -/
def chainRun (c : Nat → Block) (w a : Nat) : Nat → St
  | 0 => fresh w
  | n + 1 => notify (chainRun c w a n) (c (a + n))

theorem htb_insert (s : St) (b : Block) :
    (insertBlockIntoCache s b).heightToBlock =
      setFn (match s.heightToBlock (sub64 b.height s.w) with
             | some ev => setFn s.heightToBlock ev.height none
             | none => s.heightToBlock) b.height (some b) := by
  cases h : s.heightToBlock (sub64 b.height s.w) <;> simp [insertBlockIntoCache, h]

theorem w_insert (s : St) (b : Block) : (insertBlockIntoCache s b).w = s.w := by
  unfold insertBlockIntoCache
  split <;> rfl

theorem last_insert (s : St) (b : Block) : (insertBlockIntoCache s b).lastHeight = b.height := by
  unfold insertBlockIntoCache
  split <;> rfl

theorem chainRun_inv (c : Nat → Block) (hc : ∀ h, (c h).height = h) (w a : Nat) (hw : 0 < w)
    (hw2 : w < two64) (n : Nat) (hn : a + n < two64) :
    (chainRun c w a n).w = w ∧
    (chainRun c w a n).lastHeight = (if n = 0 then maxU64 else a + n - 1) ∧
    ∀ h, (chainRun c w a n).heightToBlock h =
      if a ≤ h ∧ h < a + n ∧ a + n ≤ h + w then some (c h) else none := by
  induction n with
  | zero =>
    refine ⟨rfl, rfl, ?_⟩
    intro h
    simp only [chainRun, fresh]
    split
    · omega
    · rfl
  | succ n ih =>
    obtain ⟨i1, i2, i3⟩ := ih (by omega)
    simp only [chainRun, notify, storeBlock]
    refine ⟨by rw [w_insert, i1], by rw [last_insert, hc]; simp, ?_⟩
    intro h
    rw [htb_insert, hc, i1, i3]
    have hsub : sub64 (a + n) w = if w ≤ a + n then a + n - w else a + n + two64 - w := by
      simp only [sub64, two64] at *
      split <;> omega
    by_cases hev : a ≤ sub64 (a + n) w ∧ sub64 (a + n) w < a + n ∧ a + n ≤ sub64 (a + n) w + w
    · simp only [hev, and_self, if_true, hc, setFn]
      rw [hsub] at hev ⊢
      split at hev
      · rename_i hle
        simp only [hle, if_true]
        by_cases e1 : h = a + n
        · subst e1
          have : a ≤ a + n ∧ a + n < a + (n + 1) ∧ a + (n + 1) ≤ a + n + w := by omega
          simp [this]
        · simp only [e1, if_false]
          by_cases e2 : h = a + n - w
          · have : ¬ (a ≤ h ∧ h < a + (n + 1) ∧ a + (n + 1) ≤ h + w) := by omega
            rw [if_pos e2, if_neg this]
          · simp only [e2, if_false, i3]
            by_cases e3 : a ≤ h ∧ h < a + n ∧ a + n ≤ h + w
            · have : a ≤ h ∧ h < a + (n + 1) ∧ a + (n + 1) ≤ h + w := by omega
              simp [e3, this]
            · have : ¬ (a ≤ h ∧ h < a + (n + 1) ∧ a + (n + 1) ≤ h + w) := by omega
              simp [e3, this]
      · omega
    · simp only [hev, if_false, setFn]
      rw [hsub] at hev
      by_cases e1 : h = a + n
      · subst e1
        have : a ≤ a + n ∧ a + n < a + (n + 1) ∧ a + (n + 1) ≤ a + n + w := by omega
        simp [this]
      · simp only [e1, if_false, i3]
        by_cases e3 : a ≤ h ∧ h < a + n ∧ a + n ≤ h + w
        · have : a ≤ h ∧ h < a + (n + 1) ∧ a + (n + 1) ≤ h + w := by
            split at hev <;> omega
          simp [e3, this]
        · have : ¬ (a ≤ h ∧ h < a + (n + 1) ∧ a + (n + 1) ≤ h + w) := by omega
          simp [e3, this]

/-- PARTIAL (consecutive heights, one process, by-height and latest queries only).
Full statement of the property: after *any* notification sequence and restarts every query (by
height, by id, by transaction, latest) answers exactly the window — false for the code as it is. -/
theorem answers_eq_window_spec_partial (c : Nat → Block) (hc : ∀ h, (c h).height = h) (w a n : Nat)
    (hw : 0 < w) (hw2 : w ≤ maxBlockWindow) (hn : a + n < two64) :
    (∀ h, getBlockByHeight (chainRun c w a n) h =
      if a ≤ h ∧ h < a + n ∧ a + n ≤ h + w then some (c h) else none) ∧
    (0 < n → getLatestBlock (chainRun c w a n) = some (c (a + n - 1))) := by
  have hw3 : w < two64 := by simp only [maxBlockWindow, two64] at *; omega
  obtain ⟨_, i2, i3⟩ := chainRun_inv c hc w a hw hw3 n hn
  refine ⟨i3, ?_⟩
  intro hpos
  have hne : ¬ n = 0 := by omega
  unfold getLatestBlock getBlockByHeight
  rw [i2, i3]
  have h1 : ¬ (a + n - 1 = maxU64) := by simp only [maxU64, two64] at *; omega
  have h2 : a ≤ a + n - 1 ∧ a + n - 1 < a + n ∧ a + n ≤ a + n - 1 + w := by omega
  simp [hne, h1, h2]

/-- non-vacuity: window 2, heights 5, 6, 7 -/
example : getBlockByHeight (chainRun (fun h => blk h h) 2 5 3) 6 = some (blk 6 6) ∧
    getBlockByHeight (chainRun (fun h => blk h h) 2 5 3) 5 = none := by decide

end HyperModel.Props.C31
