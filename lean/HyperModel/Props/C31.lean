import HyperModel.Model.Indexer
import HyperModel.Proofs.Indexer
/-!
# C31 The indexer serves exactly the recent accepted blocks and transaction results

The code as it is violates the property (known findings, re-demonstrated on the real indexer in
every run): `c31_counterexample_stale_after_gap`, `c31_counterexample_restart_after_gap`,
`c31_counterexample_redelivery`, `c31_counterexample_late_delivery`,
`c31_counterexample_window_change` prove the negations on the
model with the same witnesses the harness replays.

PARTIAL theorems (the strongest true statements): for a fresh indexer with any valid window, the
blocks of one chain delivered at consecutive heights from ANY start (including genesis, height 0),
interleaved with any number of restarts with the same window,
* `answers_eq_window_spec_partial`: every query (by height, latest, by id, by transaction) answers
  exactly the window `(last - window, last]`;
* `restart_invariant_partial`: a restart at any point changes no answer of any of the four queries.
Missing for full strength (and false in general, see the counterexamples): histories with height
gaps / re-delivery / window changes.
-/
namespace HyperModel.Props.C31
open HyperModel.Indexer HyperModel.IndexerProofs

/-- the state `NewIndexer` produces on an empty directory -/
def fresh (w : Nat) : St :=
  { w := w, db := [], idToHeight := fun _ => none, heightToBlock := fun _ => none,
    txCache := fun _ => none, lastHeight := maxU64 }

theorem newIndexer_empty (w : Nat) (h1 : 0 < w) (h2 : w ≤ maxBlockWindow) :
    newIndexer w [] = some (fresh w) := by
  have : ¬ w > maxBlockWindow := by omega
  have : ¬ w = 0 := by omega
  simp [newIndexer, initBlocks, fresh, dbDeleteRange, *]

/-- notify a list of blocks / restart with a window -/
inductive Op
  | notify (b : Block)
  | restart (w : Nat)

def step (s : St) : Op → St
  | .notify b => notify s b
  | .restart w => (newIndexer w s.db).getD s

def run (s : St) (ops : List Op) : St := ops.foldl step s

def blk (h : Nat) (tx : Nat) : Block :=
  { id := [h], height := h, ts := 10 * h, txs := [tx], results := [100 * h] }

/-! ## the property fails on the code as it is -/

/-- window 2, notify 1, 2, 10: heights 1 and 2 (older than the window (8, 10]) and their
transactions are still served. -/
theorem c31_counterexample_stale_after_gap :
    let s := run (fresh 2) [.notify (blk 1 0), .notify (blk 2 1), .notify (blk 10 2)]
    getBlockByHeight s 1 = some (blk 1 0) ∧ getBlock s [2] = some (blk 2 1) ∧
    getTransaction s 0 = .found 0 10 100 := by
  decide

/-- … the first restart still serves them, the second one does not: a restart changes answers. -/
theorem c31_counterexample_restart_after_gap :
    let s := run (fresh 2) [.notify (blk 1 0), .notify (blk 2 1), .notify (blk 10 2), .restart 2]
    getBlockByHeight s 1 = some (blk 1 0) ∧ getBlockByHeight (step s (.restart 2)) 1 = none ∧
    getTransaction s 0 = .found 0 10 100 ∧ getTransaction (step s (.restart 2)) 0 = .notFound := by
  decide

/-- re-delivery of an older block moves `GetLatestBlock` backwards; a restart moves it forward. -/
theorem c31_counterexample_redelivery :
    let s := run (fresh 3) [.notify (blk 3 0), .notify (blk 4 1), .notify (blk 3 0)]
    getLatestBlock s = some (blk 3 0) ∧ getLatestBlock (step s (.restart 3)) = some (blk 4 1) := by
  decide

/-- late delivery (known finding `stale-block-below-window-served-after-late-delivery`): window 2,
notify 5, 6, then 4 — height 4 is already below the window (4, 6] but is inserted and served; a
restart reloads the store in order and drops it. -/
theorem c31_counterexample_late_delivery :
    let s := run (fresh 2) [.notify (blk 5 0), .notify (blk 6 1), .notify (blk 4 2)]
    getBlockByHeight s 4 = some (blk 4 2) ∧ getTransaction s 2 = .found 2 40 400 ∧
    getBlockByHeight (step s (.restart 2)) 4 = none := by
  decide

/-- consecutive heights, restart onto a smaller window: the block left at `last - window` in the
store is served again after the next restart. -/
theorem c31_counterexample_window_change :
    let s := run (fresh 3) [.notify (blk 4 0), .notify (blk 5 1), .restart 1, .notify (blk 6 2)]
    getBlockByHeight s 4 = none ∧ getBlockByHeight (step s (.restart 1)) 4 = some (blk 4 0) := by
  decide

/-! ## consecutive heights with restarts: every answer, restart invariance -/

/-- deliver the next block of the chain / restart with the same window -/
inductive COp
  | next
  | restart
deriving DecidableEq, Repr

/-- state and number of blocks delivered so far -/
def cstep (c : Nat → Block) (w a : Nat) (sn : St × Nat) : COp → St × Nat
  | .next => (notify sn.1 (c (a + sn.2)), sn.2 + 1)
  | .restart => ((newIndexer w sn.1.db).getD sn.1, sn.2)

def crun (c : Nat → Block) (w a : Nat) (ops : List COp) : St × Nat :=
  ops.foldl (cstep c w a) (fresh w, 0)

theorem canon_foldl {c : Nat → Block} (hc : Chain c) {w a : Nat} (hw : 0 < w) (hw2 : w ≤ maxBlockWindow)
    (ops : List COp) : ∀ (sn : St × Nat), Canon c w a sn.2 sn.1 → a + sn.2 + ops.length < two64 →
      Canon c w a (ops.foldl (cstep c w a) sn).2 (ops.foldl (cstep c w a) sn).1 := by
  have hw3 : w < two64 := by simp only [maxBlockWindow, two64] at *; omega
  induction ops with
  | nil => intro sn h _; exact h
  | cons op r ih =>
    intro sn h hb
    simp only [List.length_cons] at hb
    simp only [List.foldl_cons]
    apply ih
    · cases op with
      | next => exact canon_notify hc hw hw3 (by omega) h
      | restart =>
        obtain ⟨s', e, hs'⟩ := canon_restart hc hw hw2 (by omega) h
        simp only [cstep, e, Option.getD_some]
        exact hs'
    · cases op <;> simp only [cstep] <;> omega

theorem canon_crun {c : Nat → Block} (hc : Chain c) {w a : Nat} (hw : 0 < w) (hw2 : w ≤ maxBlockWindow)
    (ops : List COp) (hb : a + ops.length < two64) :
    Canon c w a (crun c w a ops).2 (crun c w a ops).1 :=
  canon_foldl hc hw hw2 ops (fresh w, 0) (canon_fresh c w a) (by simpa using hb)

/-- the window spec, for every query, read off a canonical state -/
theorem answers_of_canon {c : Nat → Block} {w a n : Nat} (hw : 0 < w) (hb : a + n < two64) {s : St}
    (hs : CacheCanon c w a n s) :
    (∀ h, getBlockByHeight s h = if InWin w a n h then some (c h) else none) ∧
    (getLatestBlock s = if n = 0 then none else some (c (a + n - 1))) ∧
    (∀ h, InWin w a n h → getBlock s (c h).id = some (c h)) ∧
    (∀ id, (∀ h, InWin w a n h → id ≠ (c h).id) → getBlock s id = none) ∧
    (∀ (h i tx : Nat), InWin w a n h → (c h).txs[i]? = some tx →
      getTransaction s tx = if (c h).results.length ≤ i then TxAnswer.errNoResult
                            else TxAnswer.found tx (c h).ts ((c h).results.getD i 0)) ∧
    (∀ tx : Nat, (∀ h i : Nat, InWin w a n h → (c h).txs[i]? ≠ some tx) → getTransaction s tx = TxAnswer.notFound) := by
  refine ⟨hs.htb, ?_, ?_, ?_, ?_, ?_⟩
  · unfold getLatestBlock getBlockByHeight
    rw [hs.last]
    by_cases h0 : n = 0
    · simp [h0]
    · have h1 : ¬ (a + n - 1 = maxU64) := by simp only [maxU64, two64] at *; omega
      have h2 : InWin w a n (a + n - 1) := by simp only [InWin]; omega
      simp only [h0, if_false, h1, hs.htb, if_pos h2]
  · intro h hwin
    have := (hs.ith (c h).id h).mpr ⟨hwin, rfl⟩
    simp only [getBlock, this, getBlockByHeight, hs.htb, if_pos hwin]
  · intro id hid
    cases hx : s.idToHeight id with
    | none => simp [getBlock, hx]
    | some h' =>
      have := (hs.ith id h').mp hx
      exact absurd this.2 (hid h' this.1)
  · intro h i tx hwin htx
    have h1 := (hs.txc tx (h, i)).mpr ⟨hwin, htx⟩
    have hlen : ¬ (c h).txs.length ≤ i := by
      intro hle
      rw [List.getElem?_eq_none hle] at htx
      cases htx
    have hget : (c h).txs.getD i 0 = tx := by
      rw [List.getD_eq_getElem?_getD, htx]; rfl
    simp only [getTransaction, h1, hs.htb, if_pos hwin, hlen, if_false, hget]
  · intro tx htx
    cases hx : s.txCache tx with
    | none => simp [getTransaction, hx]
    | some p =>
      have := (hs.txc tx p).mp hx
      exact absurd this.2 (htx p.1 p.2 this.1)

/-- PARTIAL (consecutive heights from any start, restarts with the same window).
Full statement of the property: after *any* notification sequence and restarts every query answers
exactly the window — false for the code as it is (counterexamples above). -/
theorem answers_eq_window_spec_partial {c : Nat → Block} (hc : Chain c) (w a : Nat) (hw : 0 < w)
    (hw2 : w ≤ maxBlockWindow) (ops : List COp) (hb : a + ops.length < two64) :
    let s := (crun c w a ops).1
    let n := (crun c w a ops).2
    (∀ h, getBlockByHeight s h = if InWin w a n h then some (c h) else none) ∧
    (getLatestBlock s = if n = 0 then none else some (c (a + n - 1))) ∧
    (∀ h, InWin w a n h → getBlock s (c h).id = some (c h)) ∧
    (∀ id, (∀ h, InWin w a n h → id ≠ (c h).id) → getBlock s id = none) ∧
    (∀ (h i tx : Nat), InWin w a n h → (c h).txs[i]? = some tx →
      getTransaction s tx = if (c h).results.length ≤ i then TxAnswer.errNoResult
                            else TxAnswer.found tx (c h).ts ((c h).results.getD i 0)) ∧
    (∀ tx : Nat, (∀ h i : Nat, InWin w a n h → (c h).txs[i]? ≠ some tx) → getTransaction s tx = TxAnswer.notFound) := by
  intro s n
  have hcan := canon_crun hc hw hw2 ops hb
  have hn : n ≤ ops.length := by
    have : ∀ (ops : List COp) (sn : St × Nat), (ops.foldl (cstep c w a) sn).2 ≤ sn.2 + ops.length := by
      intro ops
      induction ops with
      | nil => intro sn; simp
      | cons op r ih =>
        intro sn
        simp only [List.foldl_cons, List.length_cons]
        have := ih (cstep c w a sn op)
        cases op <;> simp only [cstep] at this ⊢ <;> omega
    have := this ops (fresh w, 0)
    simp only [Nat.zero_add] at this
    exact this
  exact answers_of_canon hw (by omega) hcan.cache

/-- PARTIAL (same histories): a restart at any point changes no answer. -/
theorem restart_invariant_partial {c : Nat → Block} (hc : Chain c) (w a : Nat) (hw : 0 < w)
    (hw2 : w ≤ maxBlockWindow) (ops : List COp) (hb : a + ops.length < two64) :
    let s := (crun c w a ops).1
    let s' := (cstep c w a (crun c w a ops) .restart).1
    (∀ h, getBlockByHeight s' h = getBlockByHeight s h) ∧ getLatestBlock s' = getLatestBlock s ∧
    (∀ id, getBlock s' id = getBlock s id) ∧ (∀ tx, getTransaction s' tx = getTransaction s tx) := by
  intro s s'
  have hcan := canon_crun hc hw hw2 ops hb
  have hn : a + (crun c w a ops).2 < two64 := by
    have : ∀ (ops : List COp) (sn : St × Nat), (ops.foldl (cstep c w a) sn).2 ≤ sn.2 + ops.length := by
      intro ops
      induction ops with
      | nil => intro sn; simp
      | cons op r ih =>
        intro sn
        simp only [List.foldl_cons, List.length_cons]
        have := ih (cstep c w a sn op)
        cases op <;> simp only [cstep] at this ⊢ <;> omega
    have := this ops (fresh w, 0)
    simp only [crun] at *
    omega
  obtain ⟨s'', e, hs''⟩ := canon_restart hc hw hw2 hn hcan
  have es : s' = s'' := by
    show (cstep c w a (crun c w a ops) .restart).1 = s''
    simp only [cstep, e, Option.getD_some]
  obtain ⟨e1, e2, e3, e4⟩ := canon_caches_eq hs''.cache hcan.cache
  rw [es]
  refine ⟨fun h => e1 h, ?_, ?_, ?_⟩
  · simp only [getLatestBlock, getBlockByHeight, e4, e1]; rfl
  · intro id; simp only [getBlock, getBlockByHeight, e2, e1]; rfl
  · intro tx; simp only [getTransaction, e3, e1]; rfl

/-- non-vacuity: a chain with one transaction per block, from genesis, window 2, with restarts -/
example : getBlockByHeight (crun (fun h => blk h h) 2 0 [.next, .next, .restart, .next, .next, .next, .restart]).1 0 = none ∧
    getBlockByHeight (crun (fun h => blk h h) 2 0 [.next, .next, .restart, .next, .next, .next, .restart]).1 3 = some (blk 3 3) ∧
    getTransaction (crun (fun h => blk h h) 2 0 [.next, .next, .restart, .next, .next, .next, .restart]).1 4 = .found 4 40 400 := by
  decide

example : Chain (fun h => blk h h) :=
  ⟨fun _ => rfl, fun h h' e => by simpa [blk] using e, fun h => by simp [blk],
   fun h h' tx e1 e2 => by simp [blk] at e1 e2; omega⟩

end HyperModel.Props.C31
