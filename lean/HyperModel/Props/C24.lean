import HyperModel.Proofs.Fetcher
import HyperModel.Proofs.BlockFetch
/-! # C24 Block execution reads exactly the declared keys from parent state

Theorems over every reachable state of the fetcher model (`Model/Fetcher.lean`: any interleaving of
`Fetch` calls — duplicate tx ids and overlapping key sets included —, worker steps, `Stop`,
`Wait`, any concurrency, any parent view incl. failing reads). -/
namespace HyperModel.Props.C24
open HyperModel.Fetcher

/-- second invariant: worker accounting (`c` = configured concurrency) -/
structure Inv2 (c : Nat) (s : St) : Prop where
  k1 : s.workers < c → (s.err.isSome ∨ (s.tasksClosed = true ∧ s.queue = []))
  k2 : s.once = true → (s.err.isSome ∨ s.workers = 0)
  k3 : s.inflight.length ≤ s.workers
  k4 : s.workers ≤ c
  k5 : s.err.isSome → s.once = true
  k6 : s.tasksClosed = true → s.sending = []

theorem handleErr_fields (s : St) (e : FErr) :
    (handleErr s e).workers = s.workers ∧ (handleErr s e).queue = s.queue ∧
    (handleErr s e).inflight = s.inflight ∧ (handleErr s e).tasksClosed = s.tasksClosed ∧
    ((handleErr s e).once = true) ∧ (s.once = true → (handleErr s e).err = s.err) ∧
    (s.once = false → (handleErr s e).err = some e) ∧ (s.once = true → (handleErr s e) = s) := by
  unfold handleErr; split <;> simp_all

theorem handleErr_sending (s : St) (e : FErr) : (handleErr s e).sending = s.sending := by
  unfold handleErr; split <;> rfl

theorem setKey_sending (s : St) (k : Key) (d : Option Val) : (setKey s k d).sending = s.sending := rfl

theorem setKey_fields (s : St) (k : Key) (d : Option Val) :
    (setKey s k d).workers = s.workers ∧ (setKey s k d).queue = s.queue ∧
    (setKey s k d).inflight = s.inflight ∧ (setKey s k d).tasksClosed = s.tasksClosed ∧
    (setKey s k d).once = s.once ∧ (setKey s k d).err = s.err ∧ (setKey s k d).txs = s.txs := by
  simp [setKey]

theorem fetchKey_fields (r : Nat) (s : St) (k : Key) :
    (fetchKey r s k).workers = s.workers ∧ (fetchKey r s k).inflight = s.inflight ∧
    (fetchKey r s k).tasksClosed = s.tasksClosed ∧ (fetchKey r s k).once = s.once ∧
    (fetchKey r s k).err = s.err := by
  unfold fetchKey; split <;> simp

theorem foldl_fetchKey_fields (r : Nat) (ks : List Key) : ∀ (s : St),
    (ks.foldl (fetchKey r) s).workers = s.workers ∧ (ks.foldl (fetchKey r) s).inflight = s.inflight ∧
    (ks.foldl (fetchKey r) s).tasksClosed = s.tasksClosed ∧ (ks.foldl (fetchKey r) s).once = s.once ∧
    (ks.foldl (fetchKey r) s).err = s.err := by
  induction ks with
  | nil => intro s; simp
  | cons k ks ih =>
    intro s
    have a := ih (fetchKey r s k)
    have b := fetchKey_fields r s k
    simp only [List.foldl_cons]
    refine ⟨a.1.trans b.1, a.2.1.trans b.2.1, a.2.2.1.trans b.2.2.1, a.2.2.2.1.trans b.2.2.2.1,
      a.2.2.2.2.trans b.2.2.2.2⟩

theorem fetch_fields (s : St) (tx : TxId) (ks : List Key) :
    (fetch s tx ks).1.workers = s.workers ∧ (fetch s tx ks).1.inflight = s.inflight ∧
    (fetch s tx ks).1.tasksClosed = s.tasksClosed ∧ (fetch s tx ks).1.once = s.once ∧
    (fetch s tx ks).1.err = s.err := by
  unfold fetch
  split
  · simp
  · exact foldl_fetchKey_fields s.nrecs ks (newRec s)

theorem fetchKey_queue (r : Nat) (s : St) (k : Key) : (fetchKey r s k).queue = s.queue := by
  unfold fetchKey; split <;> rfl

theorem fetch_queue (s : St) (tx : TxId) (ks : List Key) : (fetch s tx ks).1.queue = s.queue := by
  unfold fetch
  split
  · rfl
  · have : ∀ (ks : List Key) (s0 : St), (ks.foldl (fetchKey s.nrecs) s0).queue = s0.queue := by
      intro ks
      induction ks with
      | nil => intro s0; rfl
      | cons k ks ih => intro s0; simp only [List.foldl_cons]; rw [ih, fetchKey_queue]
    exact this ks (newRec s)

theorem fetch_ok_or_same (s : St) (tx : TxId) (ks : List Key) :
    (fetch s tx ks).1 = s ∨
    ((fetch s tx ks).1.requested = s.requested ∧ (fetch s tx ks).1.inflight = s.inflight ∧
     (fetch s tx ks).1.err = s.err) := by
  by_cases he : s.err.isSome
  · left; simp [fetch, he]
  · right
    unfold fetch
    simp only [he]
    have := foldl_fetchKey_txs s.nrecs ks (newRec s)
    exact ⟨this.2.2.1, this.2.2.2.1, this.2.2.2.2⟩

theorem fetch_queue_of_err (s : St) (tx : TxId) (ks : List Key) (he : s.err.isSome) :
    (fetch s tx ks).1 = s := by
  simp [fetch, he]

theorem erase_length_of_mem {k : Key} {l : List Key} (h : k ∈ l) : (l.erase k).length + 1 = l.length := by
  have := List.length_erase_of_mem h
  have : 0 < l.length := List.length_pos_of_mem h
  omega

theorem inv2_step {parent : Key → Rd} {c cap : Nat} {s s' : St} (h : Inv2 c s) (st : Step parent s s') :
    Inv2 c s' := by
  obtain ⟨k1, k2, k3, k4, k5, k6⟩ := h
  match st with
  | .fetch _ tx ks hcl _ =>
    by_cases he : s.err.isSome
    · rw [fetch_queue_of_err s tx ks he]; exact ⟨k1, k2, k3, k4, k5, k6⟩
    · obtain ⟨f1, f2, f3, f4, f5⟩ := fetch_fields s tx ks
      have fq : (fetch s tx ks).1.queue = s.queue := fetch_queue s tx ks
      generalize (fetch s tx ks).1 = S at f1 f2 f3 f4 f5 fq
      refine ⟨?_, ?_, ?_, ?_, ?_, ?_⟩
      · intro hw
        rw [f1] at hw
        rcases k1 hw with h1 | h1
        · exact absurd h1 he
        · rw [hcl] at h1; cases h1.1
      · intro ho; rw [f4] at ho; rw [f5, f1]; exact k2 ho
      · rw [f2, f1]; exact k3
      · rw [f1]; exact k4
      · rw [f5, f4]; exact k5
      · intro ht; rw [f3, hcl] at ht; cases ht
  | .send _ _ hs =>
    unfold send at hs
    split at hs
    · cases hs
    next k rest hq =>
      split at hs
      · cases hs
        have hnc : s.tasksClosed ≠ true := by
          intro ht; have := k6 ht; rw [hq] at this; cases this
        refine ⟨?_, k2, k3, k4, k5, fun ht => absurd ht hnc⟩
        intro hw
        rcases k1 hw with h1 | h1
        · exact Or.inl h1
        · exact absurd h1.1 hnc
      · cases hs
  | .abort _ _ hs =>
    unfold abort at hs
    split at hs
    · cases hs; exact ⟨k1, k2, k3, k4, k5, fun _ => rfl⟩
    · cases hs
  | .take _ _ ht =>
    unfold take at ht
    split at ht
    · cases ht
    next k q hq =>
      split at ht
      · cases ht
        refine ⟨?_, k2, by simp; omega, k4, k5, k6⟩
        intro hw
        rcases k1 hw with h1 | h1
        · exact Or.inl h1
        · rw [hq] at h1; cases h1.2
      · cases ht
  | .complete _ k _ hc =>
    unfold complete at hc
    split at hc
    next hin =>
      have hl := erase_length_of_mem hin
      have hpos : 0 < s.workers := by have := List.length_pos_of_mem hin; omega
      split at hc
      next v hv =>
        cases hc
        have f := setKey_fields { s with inflight := s.inflight.erase k } k (some v)
        refine ⟨by simpa [f.1, f.2.1, f.2.2.2.1, f.2.2.2.2.2.1] using k1,
          by simpa [f.1, f.2.2.2.2.1, f.2.2.2.2.2.1] using k2, by simp [f.1, f.2.2.1]; omega,
          by simpa [f.1] using k4, by simpa [f.2.2.2.2.1, f.2.2.2.2.2.1] using k5,
          by simpa [f.2.2.2.1, setKey_sending] using k6⟩
      next hv =>
        cases hc
        have f := setKey_fields { s with inflight := s.inflight.erase k } k none
        refine ⟨by simpa [f.1, f.2.1, f.2.2.2.1, f.2.2.2.2.2.1] using k1,
          by simpa [f.1, f.2.2.2.2.1, f.2.2.2.2.2.1] using k2, by simp [f.1, f.2.2.1]; omega,
          by simpa [f.1] using k4, by simpa [f.2.2.2.2.1, f.2.2.2.2.2.1] using k5,
          by simpa [f.2.2.2.1, setKey_sending] using k6⟩
      all_goals
        cases hc
        rename_i e0
        generalize hs1 : ({ s with inflight := s.inflight.erase k } : St) = s1
        have hw1 : s1.workers = s.workers := by subst hs1; rfl
        have hi1 : s1.inflight = s.inflight.erase k := by subst hs1; rfl
        have ho1 : s1.once = s.once := by subst hs1; rfl
        have he1 : s1.err = s.err := by subst hs1; rfl
        first
        | (have f := handleErr_fields s1 .read
           have herr : (handleErr s1 .read).err.isSome := by
             cases ho : s1.once with
             | false => rw [f.2.2.2.2.2.2.1 ho]; rfl
             | true =>
               rw [f.2.2.2.2.2.2.2 ho, he1]
               rcases k2 (ho1 ▸ ho) with h1 | h1
               · exact h1
               · omega
           have hk6 : (handleErr s1 .read).tasksClosed = true → (handleErr s1 .read).sending = [] := by
             rw [f.2.2.2.1, handleErr_sending]; subst hs1; exact k6
           refine ⟨fun _ => Or.inl herr, fun _ => Or.inl herr, ?_, ?_, fun _ => f.2.2.2.2.1, hk6⟩
           · show (handleErr s1 .read).inflight.length ≤ s1.workers - 1
             rw [f.2.2.1, hi1, hw1]; omega
           · show s1.workers - 1 ≤ c
             omega)
        | (have f := handleErr_fields s1 .badValue
           have herr : (handleErr s1 .badValue).err.isSome := by
             cases ho : s1.once with
             | false => rw [f.2.2.2.2.2.2.1 ho]; rfl
             | true =>
               rw [f.2.2.2.2.2.2.2 ho, he1]
               rcases k2 (ho1 ▸ ho) with h1 | h1
               · exact h1
               · omega
           have hk6 : (handleErr s1 .badValue).tasksClosed = true → (handleErr s1 .badValue).sending = [] := by
             rw [f.2.2.2.1, handleErr_sending]; subst hs1; exact k6
           refine ⟨fun _ => Or.inl herr, fun _ => Or.inl herr, ?_, ?_, fun _ => f.2.2.2.2.1, hk6⟩
           · show (handleErr s1 .badValue).inflight.length ≤ s1.workers - 1
             rw [f.2.2.1, hi1, hw1]; omega
           · show s1.workers - 1 ≤ c
             omega)
    · cases hc
  | .exit _ _ he =>
    unfold exit at he; split at he
    next hcond =>
      cases he
      refine ⟨fun _ => hcond.2, ?_, by simp; omega, by simp; omega, k5, k6⟩
      intro ho
      rcases k2 ho with h1 | h1
      · exact Or.inl h1
      · have := hcond.1; omega
    · cases he
  | .stop _ =>
    have f := handleErr_fields s .stopped
    unfold stop
    cases ho : s.once with
    | true => rw [f.2.2.2.2.2.2.2 ho]; exact ⟨k1, k2, k3, k4, k5, k6⟩
    | false =>
      have herr : (handleErr s .stopped).err.isSome := by rw [f.2.2.2.2.2.2.1 ho]; rfl
      exact ⟨fun _ => Or.inl herr, fun _ => Or.inl herr, by rw [f.2.2.1, f.1]; exact k3,
        by rw [f.1]; exact k4, fun _ => f.2.2.2.2.1, by rw [f.2.2.2.1, handleErr_sending]; exact k6⟩
  | .waitCall _ hsd =>
    refine ⟨?_, k2, k3, k4, k5, fun _ => hsd⟩
    intro hw
    rcases k1 hw with h1 | h1
    · exact Or.inl h1
    · exact Or.inr ⟨rfl, h1.2⟩
  | .waitRet _ _ e hw =>
    unfold waitRet at hw; split at hw
    next hcond => cases hw; exact ⟨k1, fun _ => Or.inr hcond.1, k3, k4, fun _ => rfl, k6⟩
    · cases hw

theorem inv2_reach {parent : Key → Rd} {c cap : Nat} {s : St} (h : Reach parent c cap s) : Inv2 c s := by
  induction h with
  | init => exact ⟨by simp [init], by simp [init], by simp [init], by simp [init], by simp [init], by simp [init]⟩
  | step s s' _ st ih => exact inv2_step (cap := cap) ih st

/-- **Reads = declared keys.** In every reachable state the keys requested from the parent view
are pairwise distinct (each key is read at most once) and each of them was declared by some
`Fetch` call; keys still queued are declared too; and once no send is pending, nothing is queued and no error occurred, every
declared key has been requested. -/
theorem requested_keys_eq_declared_union {parent : Key → Rd} {c cap : Nat} {s : St}
    (h : Reach parent c cap s) :
    s.requested.Nodup ∧ (∀ k ∈ s.requested, Declared s k) ∧
    (s.sending = [] → s.queue = [] → s.err = none → ∀ k, Declared s k ↔ k ∈ s.requested) := by
  have i := inv_reach h
  refine ⟨(List.nodup_append.1 i.nodup).2.1, ?_, ?_⟩
  · intro k hk; exact (i.decl k).1 (i.qr1 k (Or.inr (Or.inr hk)))
  · intro hs hq he k
    rw [← i.decl k]
    constructor
    · intro hk
      have := i.qr2 he k hk
      rw [hs, hq] at this; simpa using this
    · intro hk; exact i.qr1 k (Or.inr (Or.inr hk))

/-- When `Wait` returns nil (at least one worker configured), the set of keys read from the
parent is exactly the union of the declared keys. -/
theorem wait_ok_reads_exactly_declared {parent : Key → Rd} {c cap : Nat} {s s' : St}
    (h : Reach parent c cap s) (hc : 0 < c) (hw : waitRet s = some (s', none)) :
    ∀ k, Declared s k ↔ k ∈ s.requested := by
  have i2 := inv2_reach h
  unfold waitRet at hw
  split at hw
  next hcond =>
    simp only [Option.some.injEq, Prod.mk.injEq] at hw
    have : s.queue = [] := by
      rcases i2.k1 (by omega) with h1 | h1
      · rw [hw.2] at h1; cases h1
      · exact h1.2
    exact (requested_keys_eq_declared_union h).2.2 (i2.k6 hcond.2) this hw.2
  · cases hw

/-- **Get returns the parent's values.** Whenever `Get(tx)` can return a storage map (built from
record `r`, the latest `Fetch` with that id), then for every key declared by that `Fetch` the
parent read succeeded and the map holds exactly the parent's value, or nothing if the parent has
none. In particular a key whose read fails is never reported as absent. -/
theorem get_returns_parent_values {parent : Key → Rd} {c cap : Nat} {s : St} (h : Reach parent c cap s)
    (tx : TxId) (r : Nat) (hg : GetRes.vals r ∈ getOutcomes s tx) :
    ∃ rc, s.txs tx = some r ∧ s.recs r = some rc ∧
      ∀ k ∈ rc.keys, ∃ d, parent k = rdOf d ∧ storage s rc.keys k = d := by
  have i := inv_reach h
  unfold getOutcomes at hg
  split at hg
  · simp at hg
  next r0 htx =>
    split at hg
    · simp at hg
    next rc hrc =>
      have hr : r0 = r ∧ (rc.waiter = false ∨ rc.closed = true) := by
        split at hg
        next hw => simp at hg; exact ⟨hg.symm, Or.inl (by simpa using hw)⟩
        next hw =>
          simp only [List.mem_append] at hg
          rcases hg with hg | hg
          · split at hg
            next hcl => simp at hg; exact ⟨hg.symm, Or.inr hcl⟩
            · simp at hg
          · split at hg <;> simp at hg
      obtain ⟨rfl, hdone⟩ := hr
      refine ⟨rc, htx, hrc, ?_⟩
      obtain ⟨ok, hb, hblk⟩ := i.recok r0 rc hrc
      have hb0 : rc.blockers = 0 := by
        rcases hdone with hd | hd
        · exact ok.2 hd
        · exact (ok.1.1 hd).2
      have hcnt : cnt r0 s.blocked = 0 := by omega
      intro k hk
      have hne : s.cache k ≠ none := (i.decl k).2 ⟨r0, rc, hrc, hk⟩
      have hns : s.cache k ≠ some none := by
        intro hsn
        have hm := hblk k hk hsn
        unfold cnt at hcnt
        simp only [List.length_eq_zero_iff, List.filter_eq_nil_iff] at hcnt
        have := hcnt _ hm
        simp at this
      cases hck : s.cache k with
      | none => exact absurd hck hne
      | some o =>
        cases o with
        | none => exact absurd hck hns
        | some d =>
          refine ⟨d, i.vals k d hck, ?_⟩
          unfold storage; simp only [hk, if_true, hck]
          cases d <;> rfl

/-- a key whose parent read fails is never part of a successful `Get` -/
theorem failing_read_never_absence {parent : Key → Rd} {c cap : Nat} {s : St} (h : Reach parent c cap s)
    (tx : TxId) (r : Nat) (hg : GetRes.vals r ∈ getOutcomes s tx) (rc : Rec) (hrc : s.recs r = some rc) :
    ∀ k ∈ rc.keys, parent k ≠ .fail ∧ parent k ≠ .bad := by
  obtain ⟨rc', _, h2, h3⟩ := get_returns_parent_values h tx r hg
  rw [hrc] at h2; cases h2
  intro k hk
  obtain ⟨d, hd, _⟩ := h3 k hk
  cases d <;> simp [hd, rdOf]

/-- the error, once set, is never cleared or replaced -/
theorem error_sticky {parent : Key → Rd} {c cap : Nat} {s s' : St} (h : Reach parent c cap s)
    (st : Step parent s s') (he : s.err.isSome) : s'.err = s.err := by
  have ho : s.once = true := (inv2_reach h).k5 he
  match st with
  | .fetch _ tx ks _ _ => simp [fetch, he]
  | .send _ _ hs =>
    unfold send at hs; split at hs
    · cases hs
    · split at hs <;> cases hs; rfl
  | .abort _ _ hs => unfold abort at hs; split at hs <;> cases hs; rfl
  | .take _ _ ht =>
    unfold take at ht; split at ht
    · cases ht
    · split at ht <;> cases ht; rfl
  | .complete _ k _ hc =>
    unfold complete at hc; split at hc
    · split at hc <;> cases hc
      · exact (setKey_fields _ _ _).2.2.2.2.2.1
      · exact (setKey_fields _ _ _).2.2.2.2.2.1
      · exact (handleErr_fields _ _).2.2.2.2.2.1 ho
      · exact (handleErr_fields _ _).2.2.2.2.2.1 ho
    · cases hc
  | .exit _ _ hx => unfold exit at hx; split at hx <;> cases hx; rfl
  | .stop _ => exact (handleErr_fields _ _).2.2.2.2.2.1 ho
  | .waitCall _ _ => rfl
  | .waitRet _ _ e hw => unfold waitRet at hw; split at hw <;> cases hw; rfl

/-- **A failing read fails the block instead of hanging.** If the parent read of an in-flight key
fails (read error or a value with too many chunks), then after that step: the fetcher's error is
set; no `Get` blocks (each returns the error or — only for a tx all of whose keys had arrived —
correct values, see `get_returns_parent_values`); every later `Fetch` fails; and `Wait` returns
that error (`waitRet` returns `s.err`, which is sticky by `error_sticky`). -/
theorem error_fails_not_hangs {parent : Key → Rd} {c cap : Nat} {s s' : St} (h : Reach parent c cap s)
    (k : Key) (hf : parent k = .fail ∨ parent k = .bad) (hc : complete parent s k = some s') :
    s'.err.isSome ∧ (∀ tx, getOutcomes s' tx ≠ []) ∧ (∀ tx ks, (fetch s' tx ks).2 = false) ∧
    (∀ s'' e, waitRet s' = some (s'', e) → e.isSome) := by
  have i2 := inv2_reach (Reach.step s s' h (Step.complete s k s' hc))
  have herr : s'.err.isSome := by
    have hc' := hc
    unfold complete at hc'
    split at hc'
    next hin =>
      have i2s := inv2_reach h
      have hpos : 0 < s.workers := by have := List.length_pos_of_mem hin; have := i2s.k3; omega
      rcases hf with hf | hf <;> rw [hf] at hc' <;> simp only [Option.some.injEq] at hc' <;> subst hc'
      all_goals
        simp only []
        generalize hs1 : ({ s with inflight := s.inflight.erase k } : St) = s1
        have ho1 : s1.once = s.once := by subst hs1; rfl
        have he1 : s1.err = s.err := by subst hs1; rfl
        cases ho : s1.once with
        | false => rw [(handleErr_fields s1 _).2.2.2.2.2.2.1 ho]; rfl
        | true =>
          rw [(handleErr_fields s1 _).2.2.2.2.2.2.2 ho, he1]
          rcases i2s.k2 (ho1 ▸ ho) with h1 | h1
          · exact h1
          · omega
    · cases hc'
  refine ⟨herr, ?_, ?_, ?_⟩
  · intro tx
    unfold getOutcomes
    cases he : s'.err with
    | none => rw [he] at herr; cases herr
    | some e =>
      split
      · simp
      · split
        · simp
        · split <;> simp
  · intro tx ks; simp [fetch, herr]
  · intro s'' e hw
    unfold waitRet at hw; split at hw
    · simp only [Option.some.injEq, Prod.mk.injEq] at hw; rw [← hw.2]; exact herr
    · cases hw

/-- `Get` never blocks once the fetcher has an error (any reachable or unreachable state). -/
theorem get_never_blocks_after_error (s : St) (tx : TxId) (he : s.err.isSome) :
    getOutcomes s tx ≠ [] := by
  unfold getOutcomes
  cases h : s.err with
  | none => rw [h] at he; cases he
  | some e =>
    split
    · simp
    · split
      · simp
      · split <;> simp

/-- **Wait cannot hang.** After `Wait` closed the task channel, as long as a worker is alive some
worker step is enabled (the parent view answers every read), … -/
theorem wait_no_deadlock {parent : Key → Rd} {c cap : Nat} {s : St} (h : Reach parent c cap s)
    (hcl : s.tasksClosed = true) (hw : 0 < s.workers) :
    (∃ s', take s = some s') ∨ (∃ k s', complete parent s k = some s') ∨ (∃ s', exit s = some s') := by
  cases hin : s.inflight with
  | cons k rest =>
    right; left
    refine ⟨k, ?_⟩
    unfold complete
    simp only [hin, List.mem_cons, true_or, if_true]
    cases parent k <;> exact ⟨_, rfl⟩
  | nil =>
    cases hq : s.queue with
    | nil => right; right; unfold exit; simp [hin, hq, hw, hcl]
    | cons k q => left; unfold take; simp [hin, hq, hw]

/-- … and every worker step strictly decreases `2·|queue| + |inflight| + workers`, which no other
step possible after `Wait` (`Stop`, `Get`) increases: all workers leave after finitely many
steps and `Wait` returns. -/
theorem worker_step_decreases {parent : Key → Rd} {s s' : St} :
    (take s = some s' ∨ (∃ k, complete parent s k = some s') ∨ exit s = some s') →
    2 * s'.queue.length + s'.inflight.length + s'.workers + 1 ≤
      2 * s.queue.length + s.inflight.length + s.workers := by
  rintro (ht | ⟨k, hc⟩ | hx)
  · unfold take at ht; split at ht
    · cases ht
    next k q hq => split at ht <;> cases ht; simp [hq]; omega
  · unfold complete at hc; split at hc
    next hin =>
      have hl := erase_length_of_mem hin
      split at hc <;> cases hc
      · have f := setKey_fields { s with inflight := s.inflight.erase k } k (some ‹_›)
        rw [f.1, f.2.1, f.2.2.1]; simp; omega
      · have f := setKey_fields { s with inflight := s.inflight.erase k } k none
        rw [f.1, f.2.1, f.2.2.1]; simp; omega
      · have f := handleErr_fields { s with inflight := s.inflight.erase k } .read
        simp only []; rw [f.2.1, f.2.2.1]; simp; omega
      · have f := handleErr_fields { s with inflight := s.inflight.erase k } .badValue
        simp only []; rw [f.2.1, f.2.2.1]; simp; omega
    · cases hc
  · unfold exit at hx; split at hx
    next hcond => cases hx; simp; omega
    · cases hx

/-- **A `Fetch` that is still sending its tasks can never be stuck** (bounded channel, any
capacity ≥ 1, at least one worker): either the next send is possible, or the fetcher has an error
and the `select` takes the `stop` branch (`Fetch` returns the error), or some worker can make
progress (which eventually frees room in the channel). In particular a parent read error that
occurs while `Fetch` is blocked on a full channel makes `Fetch` return instead of hanging. -/
theorem fetch_send_never_stuck {parent : Key → Rd} {c cap : Nat} {s : St} (h : Reach parent c cap s)
    (hc : 0 < c) (hcap : 0 < s.cap) (hs : s.sending ≠ []) :
    (∃ s', send s = some s') ∨ (∃ s', abort s = some s') ∨
    (∃ s', take s = some s') ∨ (∃ k s', complete parent s k = some s') := by
  have i2 := inv2_reach h
  cases he : s.err with
  | some e => right; left; exact Option.isSome_iff_exists.1 (by simp [abort, hs, he])
  | none =>
    by_cases hroom : s.queue.length < s.cap
    · left
      cases hsd : s.sending with
      | nil => exact absurd hsd hs
      | cons k rest => exact Option.isSome_iff_exists.1 (by simp [send, hsd, hroom])
    · have hncl : s.tasksClosed ≠ true := fun ht => hs (i2.k6 ht)
      have hw : s.workers = c := by
        rcases Nat.lt_or_ge s.workers c with hlt | hge
        · rcases i2.k1 hlt with h1 | h1
          · rw [he] at h1; cases h1
          · exact absurd h1.1 hncl
        · have := i2.k4; omega
      cases hq : s.queue with
      | nil => rw [hq] at hroom; simp at hroom; omega
      | cons k q =>
        by_cases hidle : s.inflight.length < s.workers
        · right; right; left; exact Option.isSome_iff_exists.1 (by simp [take, hq, hidle])
        · right; right; right
          cases hin : s.inflight with
          | nil => rw [hin] at hidle; simp at hidle; omega
          | cons j rest =>
            refine ⟨j, ?_⟩
            unfold complete
            simp only [hin, List.mem_cons, true_or, if_true]
            cases parent j <;> exact ⟨_, rfl⟩

/-- every send / abort of the `Fetch` in progress shortens its list of pending sends -/
theorem send_step_decreases {s s' : St} (hs : send s = some s' ∨ abort s = some s') :
    s'.sending.length < s.sending.length := by
  rcases hs with hs | hs
  · unfold send at hs; split at hs
    · cases hs
    next k rest hq => split at hs <;> cases hs; simp [hq]
  · unfold abort at hs; split at hs
    next hcond =>
      cases hs
      have := List.length_pos_iff.2 hcond.1
      simpa using this
    · cases hs

/-- `Keys.WithoutPermissions` (repaired) returns exactly the declared keys: no empty key. -/
theorem withoutPermissions_exact (ks : List (Key × Nat)) (k : Key) :
    k ∈ withoutPermissions ks ↔ ∃ p, (k, p) ∈ ks := by
  unfold withoutPermissions
  simp [List.mem_eraseDups]

/-! ## Block level: `Processor.Execute` over the fetcher (`Model/BlockFetch.lean`) -/

theorem fetchKey_cached (r : Nat) (s : St) (k k' : Key) (d : Option Val)
    (h : s.cache k' = some (some d)) : (fetchKey r s k).cache k' = some (some d) := by
  unfold fetchKey
  split
  next hc =>
    show upd s.cache k (some none) k' = _
    have : k' ≠ k := by rintro rfl; rw [hc] at h; cases h
    simp [upd, this, h]
  · exact h
  · exact h

theorem fetch_cached (s : St) (tx : TxId) (ks : List Key) (k' : Key) (d : Option Val)
    (h : s.cache k' = some (some d)) : (fetch s tx ks).1.cache k' = some (some d) := by
  unfold fetch
  split
  · exact h
  · have : ∀ (ks : List Key) (s0 : St), s0.cache k' = some (some d) →
        (ks.foldl (fetchKey s.nrecs) s0).cache k' = some (some d) := by
      intro ks
      induction ks with
      | nil => intro s0 h0; exact h0
      | cons k ks ih => intro s0 h0; exact ih _ (fetchKey_cached _ _ _ _ _ h0)
    exact this ks (newRec s) h

/-- every key already requested from the parent is still in flight, or cached, or the fetcher has
an error -/
def InvR (s : St) : Prop :=
  ∀ k ∈ s.requested, k ∈ s.inflight ∨ (∃ d, s.cache k = some (some d)) ∨ s.err.isSome

theorem invR_reach {parent : Key → Rd} {c cap : Nat} {s : St} (h : Reach parent c cap s) : InvR s := by
  induction h with
  | init => intro k hk; simp [init] at hk
  | step s s' hs st ih =>
    have i2 := inv2_reach hs
    match st with
    | .fetch _ tx ks _ _ =>
      intro k hk
      have fr := (fetch_ok_or_same s tx ks)
      rcases fr with fr | ⟨f1, f2, f3⟩
      · rw [fr] at hk ⊢; exact ih k hk
      · rw [f1] at hk
        rcases ih k hk with h1 | ⟨d, h1⟩ | h1
        · exact Or.inl (by rw [f2]; exact h1)
        · exact Or.inr (Or.inl ⟨d, fetch_cached _ _ _ _ _ h1⟩)
        · exact Or.inr (Or.inr (by rw [f3]; exact h1))
    | .send _ _ hsd =>
      unfold send at hsd; split at hsd
      · cases hsd
      · split at hsd <;> cases hsd; exact ih
    | .abort _ _ hsd => unfold abort at hsd; split at hsd <;> cases hsd; exact ih
    | .take _ _ ht =>
      unfold take at ht; split at ht
      · cases ht
      next k0 q hq =>
        split at ht <;> cases ht
        intro k hk
        simp only [List.mem_append, List.mem_singleton] at hk ⊢
        rcases hk with hk | rfl
        · rcases ih k hk with h1 | h1 | h1
          · exact Or.inl (Or.inl h1)
          · exact Or.inr (Or.inl h1)
          · exact Or.inr (Or.inr h1)
        · exact Or.inl (Or.inr rfl)
    | .complete _ k0 _ hc =>
      have herrOrSet : (s'.requested = s.requested) ∧
          ((∃ d, s' = setKey { s with inflight := s.inflight.erase k0 } k0 d) ∨ s'.err.isSome) := by
        have hc' := hc
        unfold complete at hc'
        split at hc'
        next hin =>
          split at hc' <;> cases hc'
          · exact ⟨rfl, Or.inl ⟨_, rfl⟩⟩
          · exact ⟨rfl, Or.inl ⟨_, rfl⟩⟩
          · refine ⟨(handleErr_recs _ _).2.2.2.1, Or.inr ?_⟩
            exact (error_fails_not_hangs hs k0 (Or.inl ‹_›) hc).1
          · refine ⟨(handleErr_recs _ _).2.2.2.1, Or.inr ?_⟩
            exact (error_fails_not_hangs hs k0 (Or.inr ‹_›) hc).1
        · cases hc'
      obtain ⟨hreq, hcase⟩ := herrOrSet
      intro k hk
      rw [hreq] at hk
      rcases hcase with ⟨d, rfl⟩ | herr
      · by_cases e : k = k0
        · subst e
          exact Or.inr (Or.inl ⟨d, by simp [setKey, upd]⟩)
        · rcases ih k hk with h1 | ⟨d', h1⟩ | h1
          · exact Or.inl (by simp only [setKey]; exact (List.mem_erase_of_ne e).2 h1)
          · exact Or.inr (Or.inl ⟨d', by simp [setKey, upd, e, h1]⟩)
          · exact Or.inr (Or.inr (by simpa [setKey] using h1))
      · exact Or.inr (Or.inr herr)
    | .exit _ _ hx => unfold exit at hx; split at hx <;> cases hx; exact ih
    | .stop _ =>
      have f := handleErr_recs s .stopped
      intro k hk
      have hk' : k ∈ s.requested := by
        have : (stop s).requested = s.requested := f.2.2.2.1
        rw [this] at hk; exact hk
      rcases ih k hk' with h1 | ⟨d, h1⟩ | h1
      · exact Or.inl (by show k ∈ (handleErr s .stopped).inflight; rw [f.2.2.2.2.1]; exact h1)
      · exact Or.inr (Or.inl ⟨d, by show (handleErr s .stopped).cache k = _; rw [f.2.2.2.2.2]; exact h1⟩)
      · refine Or.inr (Or.inr ?_)
        have := error_sticky hs (.stop s) h1
        rw [this]; exact h1
    | .waitCall _ _ => exact ih
    | .waitRet _ _ e hw => unfold waitRet at hw; split at hw <;> cases hw; exact ih

/-- (a), any moment: every key read from the parent while a block executes is a chain metadata
key or a key declared by one of the block's transactions, and no key is read twice.
`hmeta`: no transaction declares a metadata key (prefix separation, C39/C40). -/
theorem block_reads_within_declared_union_meta {parent : Key → Rd} {blk : Block} {c cap : Nat}
    {b : BState}
    (hid : ∀ t1 ∈ blk.txs, ∀ t2 ∈ blk.txs, t1.id = t2.id → t1.fetchKeys = t2.fetchKeys)
    (hnd : blk.mkeys.Nodup) (hmeta : ∀ k ∈ blk.mkeys, ∀ tx ∈ blk.txs, k ∉ tx.fetchKeys)
    (h : BReach parent blk c cap b) :
    b.parentReads.Nodup ∧
    ∀ k ∈ b.parentReads, k ∈ blk.mkeys ∨ ∃ tx ∈ blk.txs, ∃ p, (k, p) ∈ tx.keys := by
  have bi := binv_reach hid h
  have hr := breach_reach h
  obtain ⟨h1, h2, _⟩ := requested_keys_eq_declared_union hr
  obtain ⟨n, hn⟩ := bi.pre
  have hsub : ∀ k ∈ b.metaRead, k ∈ blk.mkeys := by
    intro k hk; rw [hn] at hk; exact List.mem_of_mem_take hk
  have hdecl : ∀ k ∈ b.f.requested, ∃ tx ∈ blk.txs, k ∈ tx.fetchKeys := by
    intro k hk
    obtain ⟨tx, ht, hkt⟩ := (bi.decl k).1 (h2 k hk)
    exact ⟨tx, List.mem_of_mem_take ht, hkt⟩
  unfold BState.parentReads
  refine ⟨List.nodup_append.2 ⟨?_, h1, ?_⟩, ?_⟩
  · rw [hn]; exact (List.take_sublist n blk.mkeys).nodup hnd
  · intro a ha b' hb hab
    subst hab
    obtain ⟨tx, ht, hkt⟩ := hdecl a hb
    exact hmeta a (hsub a ha) tx ht hkt
  · intro k hk
    rcases List.mem_append.1 hk with hk | hk
    · exact Or.inl (hsub k hk)
    · obtain ⟨tx, ht, hkt⟩ := hdecl k hk
      exact Or.inr ⟨tx, ht, (withoutPermissions_exact tx.keys k).1 hkt⟩

/-- **(a) Reads = declared ∪ metadata.** When block execution got through (`Wait` returned nil,
no error returned), the keys read from the parent state are *exactly* the three chain metadata
keys and the keys declared by the block's transactions, each read exactly once. -/
theorem block_reads_eq_declared_union_meta {parent : Key → Rd} {blk : Block} {c cap : Nat}
    {b : BState}
    (hid : ∀ t1 ∈ blk.txs, ∀ t2 ∈ blk.txs, t1.id = t2.id → t1.fetchKeys = t2.fetchKeys)
    (hnd : blk.mkeys.Nodup) (hmeta : ∀ k ∈ blk.mkeys, ∀ tx ∈ blk.txs, k ∉ tx.fetchKeys)
    (hc : 0 < c) (h : BReach parent blk c cap b) (hs : Succeeded b) :
    b.parentReads.Nodup ∧
    ∀ k, k ∈ b.parentReads ↔ (k ∈ blk.mkeys ∨ ∃ tx ∈ blk.txs, ∃ p, (k, p) ∈ tx.keys) := by
  obtain ⟨hnodup, hsub⟩ := block_reads_within_declared_union_meta hid hnd hmeta h
  refine ⟨hnodup, fun k => ⟨hsub k, ?_⟩⟩
  have bi := binv_reach hid h
  have hr := breach_reach h
  obtain ⟨_, s', hw⟩ := hs
  have hcl : b.f.tasksClosed = true := by
    unfold waitRet at hw; split at hw
    next hcond => exact hcond.2
    · cases hw
  obtain ⟨hm, hf⟩ := bi.closed hcl
  have hall := wait_ok_reads_exactly_declared hr hc hw
  unfold BState.parentReads
  rintro (hk | ⟨tx, ht, p, hp⟩)
  · exact List.mem_append.2 (Or.inl (by rw [hm]; exact hk))
  · refine List.mem_append.2 (Or.inr ((hall k).1 ((bi.decl k).2 ⟨tx, ?_, ?_⟩)))
    · rw [hf, List.take_length]; exact ht
    · exact (withoutPermissions_exact tx.keys k).2 ⟨p, hp⟩

/-- **(b) What a transaction observes.** Whenever `Get` hands a storage map to a transaction of
the block whose `Fetch` was issued, the map was built from that transaction's declared keys, and
through its view (layering assumption `visible`: block-level change if an earlier transaction
changed the key, else the storage map — C04 `view_refines`) the transaction sees, for every
declared key *not changed earlier in the block*, exactly the parent's value, or absence if the
parent has none; for a key changed earlier it sees that change. A key whose parent read failed
never shows up as absent: `parent k = rdOf d` excludes failed reads. -/
theorem tx_observes_parent_unless_changed {parent : Key → Rd} {blk : Block} {c cap : Nat}
    {b : BState}
    (hid : ∀ t1 ∈ blk.txs, ∀ t2 ∈ blk.txs, t1.id = t2.id → t1.fetchKeys = t2.fetchKeys)
    (h : BReach parent blk c cap b) (tx : BTx) (htx : tx ∈ blk.txs.take b.fetched)
    (r : Nat) (hg : GetRes.vals r ∈ getOutcomes b.f tx.id)
    (diff : Key → Option (Option Val)) :
    ∃ rc, b.f.recs r = some rc ∧ rc.keys = tx.fetchKeys ∧
      ∀ k, (∃ p, (k, p) ∈ tx.keys) →
        (diff k = none → ∃ d, parent k = rdOf d ∧ visible diff (storage b.f rc.keys) k = d) ∧
        (∀ x, diff k = some x → visible diff (storage b.f rc.keys) k = x) := by
  have bi := binv_reach hid h
  have hr := breach_reach h
  obtain ⟨rc, h1, h2, h3⟩ := get_returns_parent_values hr tx.id r hg
  obtain ⟨r', rc', g1, g2, g3⟩ := bi.recsOk tx htx
  rw [h1] at g1; cases g1
  rw [h2] at g2; cases g2
  refine ⟨rc, h2, g3, ?_⟩
  intro k hk
  have hkm : k ∈ rc.keys := by rw [g3]; exact (withoutPermissions_exact tx.keys k).2 hk
  constructor
  · intro hd
    obtain ⟨d, e1, e2⟩ := h3 k hkm
    exact ⟨d, e1, by simp [visible, hd, e2]⟩
  · intro x hd; simp [visible, hd]

/-- **(c) A failing read fails the block.** If block execution got through, then every metadata
key was found with a value and the parent read of every key declared by any transaction of the
block succeeded (value or genuine absence). Contrapositive: an injected read error (or a value
with too many chunks) on a metadata or declared key makes `Execute` return an error — by
`wait_no_deadlock` / `fetch_send_never_stuck` it does return — and by (b) no transaction ever
observed that key as absent. -/
theorem block_read_error_fails {parent : Key → Rd} {blk : Block} {c cap : Nat} {b : BState}
    (hid : ∀ t1 ∈ blk.txs, ∀ t2 ∈ blk.txs, t1.id = t2.id → t1.fetchKeys = t2.fetchKeys)
    (hc : 0 < c) (h : BReach parent blk c cap b) (hs : Succeeded b) :
    (∀ k ∈ blk.mkeys, ∃ v, parent k = .val v) ∧
    ∀ tx ∈ blk.txs, ∀ k p, (k, p) ∈ tx.keys → parent k ≠ .fail ∧ parent k ≠ .bad := by
  have bi := binv_reach hid h
  have hr := breach_reach h
  have i2 := inv2_reach hr
  obtain ⟨hnf, s', hw⟩ := hs
  have hcond : b.f.workers = 0 ∧ b.f.tasksClosed = true ∧ b.f.err = none := by
    unfold waitRet at hw; split at hw
    next hcond =>
      simp only [Option.some.injEq, Prod.mk.injEq] at hw
      exact ⟨hcond.1, hcond.2, hw.2⟩
    · cases hw
  obtain ⟨hm, hf⟩ := bi.closed hcond.2.1
  refine ⟨fun k hk => bi.metaVals hnf k (by rw [hm]; exact hk), ?_⟩
  intro tx ht k p hp
  have hdecl : Declared b.f k :=
    (bi.decl k).2 ⟨tx, by rw [hf, List.take_length]; exact ht, (withoutPermissions_exact tx.keys k).2 ⟨p, hp⟩⟩
  have hreq : k ∈ b.f.requested := (wait_ok_reads_exactly_declared hr hc hw k).1 hdecl
  have hin : b.f.inflight = [] := by
    have := i2.k3; rw [hcond.1] at this
    exact List.eq_nil_of_length_eq_zero (by omega)
  rcases invR_reach hr k hreq with h1 | ⟨d, h1⟩ | h1
  · rw [hin] at h1; cases h1
  · have := (inv_reach hr).vals k d h1
    cases d <;> simp [this, rdOf]
  · rw [hcond.2.2] at h1; cases h1

/-! Non-vacuity: a concrete run with a duplicate tx id, overlapping keys and a failing read. -/
def exParent : Key → Rd := fun k => if k = "a" then .val "1" else if k = "b" then .fail else .absent

def ex1 : St := (fetch (init 1) "t" ["a"]).1
def ex1s : St := (send ex1).getD ex1
def ex2 : St := (fetch ex1s "t" ["a"]).1
def ex3 : St := (take ex2).getD ex2
def ex4 : St := (complete exParent ex3 "a").getD ex3

example : Reach exParent 1 1000000 ex4 ∧ GetRes.vals 1 ∈ getOutcomes ex4 "t" := by
  have r1 : Reach exParent 1 1000000 ex1 := .step _ _ .init (.fetch _ _ _ rfl rfl)
  have h1s : send ex1 = some ex1s := by
    have : (send ex1).isSome := by decide
    unfold ex1s; cases h : send ex1 <;> simp_all
  have r1s : Reach exParent 1 1000000 ex1s := .step _ _ r1 (.send _ _ h1s)
  have r2 : Reach exParent 1 1000000 ex2 := .step _ _ r1s (.fetch _ _ _ (by decide) (by decide))
  have h3 : take ex2 = some ex3 := by
    have : (take ex2).isSome := by decide
    unfold ex3; cases h : take ex2 <;> simp_all
  have h4 : complete exParent ex3 "a" = some ex4 := by
    have : (complete exParent ex3 "a").isSome := by decide
    unfold ex4; cases h : complete exParent ex3 "a" <;> simp_all
  have r3 : Reach exParent 1 1000000 ex3 := .step _ _ r2 (.take _ _ h3)
  have r4 : Reach exParent 1 1000000 ex4 := .step _ _ r3 (.complete _ "a" _ h4)
  exact ⟨r4, by decide⟩

/-! Non-vacuity at block level: a block with one transaction executes to `Succeeded`. -/
def bParent : Key → Rd := fun k => if k = "a" then .val "" else if k = "b" then .absent else .val "m"
def bBlk : Block := { mkeys := ["h", "t", "f"], txs := [{ id := "x", keys := [("a", 1), ("b", 7)] }] }
def bTx : BTx := { id := "x", keys := [("a", 1), ("b", 7)] }
def bf1 : St := (fetch (init 1 4) "x" bTx.fetchKeys).1
def bf2 : St := (send bf1).getD bf1
def bf3 : St := (send bf2).getD bf2
def bf4 : St := (take bf3).getD bf3
def bf5 : St := (complete bParent bf4 "a").getD bf4
def bf6 : St := (take bf5).getD bf5
def bf7 : St := (complete bParent bf6 "b").getD bf6
def bf8 : St := waitCall bf7
def bf9 : St := (exit bf8).getD bf8

theorem getD_some {α} (o : Option α) (d : α) (h : o.isSome) : o = some (o.getD d) := by
  cases o <;> simp_all

example : ∃ b, BReach bParent bBlk 1 4 b ∧ Succeeded b ∧
    b.parentReads = ["h", "t", "f", "a", "b"] := by
  have r0 : BReach bParent bBlk 1 4 (binit 1 4) := .init
  have r1 := BReach.step _ _ r0 (.metaOk _ "h" "m" rfl rfl (by decide))
  have r2 := BReach.step _ _ r1 (.metaOk _ "t" "m" rfl rfl (by decide))
  have r3 := BReach.step _ _ r2 (.metaOk _ "f" "m" rfl rfl (by decide))
  have r4 := BReach.step _ _ r3 (.fetchOk _ bTx rfl rfl rfl rfl rfl (by decide))
  have r5 := BReach.step _ _ r4 (.inner _ bf2 (.send _ _ (getD_some _ _ (by decide))))
  have r6 := BReach.step _ _ r5 (.inner _ bf3 (.send _ _ (getD_some _ _ (by decide))))
  have r7 := BReach.step _ _ r6 (.inner _ bf4 (.take _ _ (getD_some _ _ (by decide))))
  have r8 := BReach.step _ _ r7 (.inner _ bf5 (.complete _ "a" _ (getD_some _ _ (by decide))))
  have r9 := BReach.step _ _ r8 (.inner _ bf6 (.take _ _ (getD_some _ _ (by decide))))
  have r10 := BReach.step _ _ r9 (.inner _ bf7 (.complete _ "b" _ (getD_some _ _ (by decide))))
  have r11 := BReach.step _ _ r10 (.waitCall _ rfl rfl rfl (by decide))
  have r12 := BReach.step _ _ r11 (.inner _ bf9 (.exit _ _ (getD_some _ _ (by decide))))
  have hw : (waitRet bf9).map (·.2) = some none := by decide
  refine ⟨_, r12, ⟨rfl, ?_⟩, by decide⟩
  show ∃ s', waitRet bf9 = some (s', none)
  cases hq : waitRet bf9 with
  | none => rw [hq] at hw; cases hw
  | some p =>
    obtain ⟨s', e⟩ := p
    rw [hq] at hw
    simp at hw
    exact ⟨s', by rw [hw]⟩

end HyperModel.Props.C24
