import HyperModel.Proofs.ValidityWindow
/-!
# C09 A transaction is never included twice on one chain

Setting. `U` is the tree of valid blocks (`WF U W`: ids identify content, parent links imply
height+1 and non-decreasing non-negative timestamps (C11), every tx was valid at its block
(C10: `ts ≤ expiry ≤ ts + W`), expiries are non-zero, a tx id determines its expiry).
`Reachable U W v la` are the states `v` of one node's `TimeValidityWindow` after any history of
restarts (fresh instance + `populate` over any chain index that is a partial view of `U`,
possibly completed by the syncer's `AcceptHistorical` backfill), `Complete`, `Accept` of
children of the last accepted block `la` (snowman discipline; a window that lags behind
consensus is just an earlier `la`) and `AcceptHistorical` of accepted ancestors.

`no_repeat_on_verified_chain`: in every such state, for every chain index that is a partial
view of `U` (forks, pruning), a block `B` whose parent descends from (or is) `la` and whose
txs pass C10's expiry check, if `VerifyExpiryReplayProtection` returns nil then the tx ids of
`B` are pairwise distinct and disjoint from the tx ids of *all* ancestors of `B` in `U`.
`builder_never_repeats` is the same for `IsRepeat` as used by the builder / pre-executor.
The emap implementation of `seen` is abstracted to a set-with-expiry (refinement = C25).
-/
namespace HyperModel.Props.C09
open HyperModel.ValidityWindow HyperModel.Proofs.ValidityWindow

variable {U : Universe} {W : Int}

theorem hasDup_false {l : List Nat} (h : hasDup l = false) : l.Nodup := by
  induction l with
  | nil => exact List.nodup_nil
  | cons x xs ih =>
    simp only [hasDup, Bool.or_eq_false_iff] at h
    exact List.nodup_cons.mpr ⟨by simpa using h.1, ih h.2⟩

/-- **Core lemma.** If a tx (id ↦ expiry) passes the expiry check in a block at time `ts`
(`ts ≤ expiry`) and is contained in a valid block `A` of the tree, then
`A.ts ≥ oldestAllowed ts = max 0 (ts − W)`: neither the ancestor walk from a block at time `ts`
nor `populate` from a head at time `ts` stops before `A`. -/
theorem ancestor_in_reach (h : WF U W) {A : Block} (hA : InU U A) {t' : Tx} (ht' : t' ∈ A.txs)
    {ts : Int} (hts : ts ≤ t'.expiry) : oldestAllowed W ts ≤ A.ts :=
  oldest_le_of_valid h hA ht' hts

/-- **Invariant.** In every reachable state `lastAcceptedBlockHeight` is the height of the
last accepted block `la`, and `seen` contains every tx of `la` and its ancestors that has not
expired at `la.ts` (and only txs of tree blocks). -/
theorem seen_invariant (h : WF U W) {v : VW} {la : Block} (hr : Reachable U W v la) :
    v.lastAccepted = la.height ∧
    (∀ A, Anc U A la → ∀ t ∈ A.txs, la.ts ≤ t.expiry → v.seen.contains t.id = true) ∧
    Prov U v.seen :=
  let i := (reachable_inv h hr).1
  ⟨i.height, i.complete, i.prov⟩

/-- **C09, verification — core form**, from the invariant alone (so that any route that
establishes `SeenInv` can use it: `Reachable` below, and the state-sync routes of C22,
`forward_done_implies_window_covered` / `backfill_done_implies_window_covered`). -/
theorem no_repeat_of_inv (h : WF U W) {v : VW} {la : Block}
    (hinv : SeenInv U v la) (hla : InU U la)
    {idx : Index} (hidx : ∀ i b, idx i = some b → U i = some b)
    {B P : Block} {fuel : Nat}
    (hpar : U B.parent = some P) (hdesc : Anc U la P)
    (hheight : B.height = P.height + 1) (hts : P.ts ≤ B.ts)
    (hvalid : ∀ t ∈ B.txs, B.ts ≤ t.expiry ∧ t.expiry ≤ B.ts + W)
    (hfun : ∀ t ∈ B.txs, ∀ A, InU U A → ∀ t' ∈ A.txs, t'.id = t.id → t'.expiry = t.expiry)
    (hok : verifyERP idx W v fuel B = .ok) :
    (B.txs.map (·.id)).Nodup ∧
    ∀ A, Anc U A P → ∀ t ∈ B.txs, ∀ t' ∈ A.txs, t'.id ≠ t.id := by
  have _ := hla
  have hPU := inU_of_lookup h hpar
  have hlaP := Anc.le h hdesc hPU
  unfold verifyERP at hok
  have hnot : ¬ B.height ≤ v.lastAccepted := by rw [hinv.height]; omega
  rw [if_neg hnot] at hok
  cases hd : hasDup (B.txs.map (·.id)) with
  | true => simp [hd] at hok
  | false =>
    simp only [hd, Bool.false_eq_true, if_false] at hok
    refine ⟨hasDup_false hd, ?_⟩
    cases hi : idx B.parent with
    | none => simp [hi] at hok
    | some p =>
      have : p = P := by
        have := hidx _ _ hi; rw [hpar] at this; exact (Option.some.inj this).symm
      subst this
      simp only [hi] at hok
      cases hw : isRepeat idx v (oldestAllowed W B.ts) B.txs true fuel p [] with
      | err m => simp [hw] at hok
      | ok m =>
        simp only [hw] at hok
        have hm : m = [] := by
          cases m with
          | nil => rfl
          | cons x xs => simp at hok
        subst hm
        rcases walk_complete h hidx hinv (oldestAllowed W B.ts) B.txs true hfun fuel p [] [] hPU hdesc hw
          with ⟨_, hne⟩ | ⟨_, hall⟩
        · exact absurd rfl hne
        · intro A hA t ht t' ht' hid
          obtain ⟨j, hj⟩ := List.mem_iff_getElem?.mp ht
          have hAU := Anc.inU h hA hPU
          have hexp := hfun t ht A hAU t' ht' hid
          have hv := hvalid t ht
          have hreach : oldestAllowed W B.ts ≤ A.ts :=
            ancestor_in_reach h hAU ht' (by omega)
          have := hall j t hj (by omega) A hA hreach (hits_iff.mpr ⟨t', ht', hid⟩)
          simp at this

/-- **C09, verification.** -/
theorem no_repeat_on_verified_chain (h : WF U W) {v : VW} {la : Block}
    (hr : Reachable U W v la)
    {idx : Index} (hidx : ∀ i b, idx i = some b → U i = some b)
    {B P : Block} {fuel : Nat}
    (hpar : U B.parent = some P) (hdesc : Anc U la P)
    (hheight : B.height = P.height + 1) (hts : P.ts ≤ B.ts)
    (hvalid : ∀ t ∈ B.txs, B.ts ≤ t.expiry ∧ t.expiry ≤ B.ts + W)
    (hfun : ∀ t ∈ B.txs, ∀ A, InU U A → ∀ t' ∈ A.txs, t'.id = t.id → t'.expiry = t.expiry)
    (hok : verifyERP idx W v fuel B = .ok) :
    (B.txs.map (·.id)).Nodup ∧
    ∀ A, Anc U A P → ∀ t ∈ B.txs, ∀ t' ∈ A.txs, t'.id ≠ t.id :=
  let i := reachable_inv h hr
  no_repeat_of_inv h i.1 i.2 hidx hpar hdesc hheight hts hvalid hfun hok

/-- **C09, builder / pre-executor — core form.** Every tx that `IsRepeat(parent, now, txs)`
leaves unmarked and that is valid at `now` occurs in no block of the parent's chain.
This is the *ancestor* half of the builder clause; that the ids inside one built block are
pairwise distinct is not the window's doing: the builder takes its candidates from the mempool,
which never holds two txs with the same id (assumption here; C23 `no_dup_ids`), and the built
block is verified like any other (C02), where the in-block check of
`no_repeat_on_verified_chain` applies. -/
theorem builder_never_repeats_of_inv (h : WF U W) {v : VW} {la : Block}
    (hinv : SeenInv U v la)
    {idx : Index} (hidx : ∀ i b, idx i = some b → U i = some b)
    {P : Block} {fuel : Nat} (hP : InU U P) (hdesc : Anc U la P) {now : Int} (hnow : P.ts ≤ now)
    {txs : List Tx}
    (hfun : ∀ t ∈ txs, ∀ A, InU U A → ∀ t' ∈ A.txs, t'.id = t.id → t'.expiry = t.expiry)
    {m : List Nat} (hok : isRepeatAPI idx W v fuel P now txs = .ok m) :
    ∀ j t, txs[j]? = some t → j ∉ m → now ≤ t.expiry →
      ∀ A, Anc U A P → ∀ t' ∈ A.txs, t'.id ≠ t.id := by
  have hlaP := Anc.le h hdesc hP
  unfold isRepeatAPI at hok
  rcases walk_complete h hidx hinv (oldestAllowed W now) txs false hfun fuel P [] m hP hdesc hok
    with ⟨hf, _⟩ | ⟨_, hall⟩
  · cases hf
  · intro j t hj hnm hexp A hA t' ht' hid
    have hAU := Anc.inU h hA hP
    have he := hfun t (List.mem_of_getElem? hj) A hAU t' ht' hid
    have hreach : oldestAllowed W now ≤ A.ts := ancestor_in_reach h hAU ht' (by omega)
    exact hnm (hall j t hj (by omega) A hA hreach (hits_iff.mpr ⟨t', ht', hid⟩))

/-- **C09, builder / pre-executor.** -/
theorem builder_never_repeats (h : WF U W) {v : VW} {la : Block} (hr : Reachable U W v la)
    {idx : Index} (hidx : ∀ i b, idx i = some b → U i = some b)
    {P : Block} {fuel : Nat} (hP : InU U P) (hdesc : Anc U la P) {now : Int} (hnow : P.ts ≤ now)
    {txs : List Tx}
    (hfun : ∀ t ∈ txs, ∀ A, InU U A → ∀ t' ∈ A.txs, t'.id = t.id → t'.expiry = t.expiry)
    {m : List Nat} (hok : isRepeatAPI idx W v fuel P now txs = .ok m) :
    ∀ j t, txs[j]? = some t → j ∉ m → now ≤ t.expiry →
      ∀ A, Anc U A P → ∀ t' ∈ A.txs, t'.id ≠ t.id :=
  builder_never_repeats_of_inv h (reachable_inv h hr).1 hidx hP hdesc hnow hfun hok

theorem builderSelectFrom_mem {W now : Int} {m : List Nat} : ∀ (txs : List Tx) (i0 : Nat) (t : Tx),
    t ∈ builderSelectFrom W now m i0 txs →
      ∃ j, txs[j]? = some t ∧ (i0 + j) ∉ m ∧ now ≤ t.expiry ∧ t.expiry ≤ now + W := by
  intro txs
  induction txs with
  | nil => intro i0 t h; simp [builderSelectFrom] at h
  | cons x rest ih =>
    intro i0 t h
    unfold builderSelectFrom at h
    have shift : ∀ {t}, t ∈ builderSelectFrom W now m (i0 + 1) rest →
        ∃ j, (x :: rest)[j]? = some t ∧ (i0 + j) ∉ m ∧ now ≤ t.expiry ∧ t.expiry ≤ now + W := by
      intro t ht
      obtain ⟨j, hj, hnm, hv⟩ := ih (i0 + 1) t ht
      exact ⟨j + 1, by simpa using hj, by
        have e : i0 + (j + 1) = i0 + 1 + j := by omega
        rw [e]; exact hnm, hv⟩
    by_cases hc : m.contains i0 = true
    · rw [if_pos hc] at h; exact shift h
    · rw [if_neg hc] at h
      by_cases hv : now ≤ x.expiry ∧ x.expiry ≤ now + W
      · rw [if_pos hv] at h
        cases h with
        | head => exact ⟨0, by simp, by simpa using hc, hv⟩
        | tail _ ht => exact shift ht
      · rw [if_neg hv] at h; exact shift h

/-- **C09, builder.** Nothing the builder selects from a mempool batch (unmarked by the batch's
`IsRepeat` and executable at `nextTime`) occurs in any block of the parent's chain — for batches
with expired, repeated and fresh txs in any order (markers are indices into the batch as
streamed). -/
theorem builder_select_no_repeat (h : WF U W) {v : VW} {la : Block} (hinv : SeenInv U v la)
    {idx : Index} (hidx : ∀ i b, idx i = some b → U i = some b)
    {P : Block} {fuel : Nat} (hP : InU U P) (hdesc : Anc U la P) {now : Int} (hnow : P.ts ≤ now)
    {txs sel : List Tx}
    (hfun : ∀ t ∈ txs, ∀ A, InU U A → ∀ t' ∈ A.txs, t'.id = t.id → t'.expiry = t.expiry)
    (hsel : builderSelect idx W v fuel P now txs = some sel) :
    ∀ t ∈ sel, ∀ A, Anc U A P → ∀ t' ∈ A.txs, t'.id ≠ t.id := by
  unfold builderSelect at hsel
  cases hr : isRepeatAPI idx W v fuel P now txs with
  | err m => simp [hr] at hsel
  | ok m =>
    simp only [hr, Option.some.injEq] at hsel
    subst hsel
    intro t ht
    obtain ⟨j, hj, hnm, hv⟩ := builderSelectFrom_mem txs 0 t ht
    exact builder_never_repeats_of_inv h hinv hidx hP hdesc hnow hfun hr j t hj
      (by simpa using hnm) hv.1

/-! ### global distinctness along a chain -/

/-- What verification establishes for one block (the conclusion of `no_repeat_of_inv`). -/
def StepOK (U : Universe) (b : Block) : Prop :=
  (b.txs.map (·.id)).Nodup ∧
  ∀ P, U b.parent = some P → ∀ A, Anc U A P → ∀ t ∈ b.txs, ∀ t' ∈ A.txs, t'.id ≠ t.id

/-- A tip-first list of blocks linked by parent ids. -/
def LinkedChain (U : Universe) : List Block → Prop
  | [] => True
  | [_] => True
  | b :: p :: rest => U b.parent = some p ∧ LinkedChain U (p :: rest)

theorem linkedChain_anc : ∀ (c : List Block) (p : Block), LinkedChain U (p :: c) →
    ∀ A ∈ p :: c, Anc U A p := by
  intro c
  induction c with
  | nil => intro p _ A hA; have : A = p := by simpa using hA
           subst this; exact Anc.refl _
  | cons q rest ih =>
    intro p hl A hA
    obtain ⟨hp, hl'⟩ := hl
    cases hA with
    | head => exact Anc.refl _
    | tail _ hm => exact Anc.step hp (ih q hl' A hm)

/-- **No transaction id appears twice on a chain**: if every block of a parent-linked chain
passed verification in the sense of `StepOK` (which `no_repeat_on_verified_chain` /
`no_repeat_of_inv` provide for each block verified in normal operation), then all tx ids of all
blocks of the chain, taken together, are pairwise distinct. -/
theorem chain_tx_ids_distinct : ∀ (c : List Block), LinkedChain U c → (∀ b ∈ c, StepOK U b) →
    ((c.flatMap (·.txs)).map (·.id)).Nodup := by
  intro c
  induction c with
  | nil => intro _ _; simp
  | cons b rest ih =>
    intro hl hs
    have hb := hs b List.mem_cons_self
    have hrest : LinkedChain U rest := by
      cases rest with
      | nil => trivial
      | cons p r => exact hl.2
    have ihr := ih hrest (fun x hx => hs x (List.mem_cons_of_mem _ hx))
    simp only [List.flatMap_cons, List.map_append]
    refine List.nodup_append.mpr ⟨hb.1, ihr, ?_⟩
    intro x hx y hy hxy
    obtain ⟨t, ht, rfl⟩ := List.mem_map.mp hx
    obtain ⟨t', ht', rfl⟩ := List.mem_map.mp hy
    obtain ⟨A, hA, htA⟩ := List.mem_flatMap.mp ht'
    cases rest with
    | nil => simp at hA
    | cons p r =>
      have hanc := linkedChain_anc r p hl.2 A hA
      exact hb.2 p hl.1 A hanc t ht t' htA hxy.symm

/-- `populate` that reports a full window covers the window by itself (`hist = []` in
`Reachable.restart`): this is the `Complete(...) == true` gate of `startNormalOp`. -/
theorem populate_full_covers (h : WF U W) {idx : Index}
    (hidx : ∀ i b, idx i = some b → U i = some b) {v0 v : VW} {H : Block} {fuel : Nat}
    {chron : List Block} (hH : InU U H)
    (hpop : populate idx W v0 fuel H = (v, chron, true)) :
    ∀ A, Anc U A H → oldestAllowed W H.ts ≤ A.ts → A ∈ chron ∨ A ∈ ([] : List Block) := by
  unfold populate at hpop
  have e := Prod.mk.inj hpop
  have e2 := Prod.mk.inj e.2
  obtain ⟨pre, hch, _, hcov⟩ := populateWalk_spec h hidx (oldestAllowed W H.ts) fuel H [H] _ _ hH
    (rfl : populateWalk idx (oldestAllowed W H.ts) fuel H [H] = (_, _))
  intro A hA hle
  left
  rw [← e2.1, hch]
  rcases hcov e2.2 A hA hle with rfl | hm
  · simp
  · exact List.mem_append.mpr (Or.inl hm)

/-- The quirk kept by the model that makes `expiry ≠ 0` a necessary hypothesis: `emap.add`
never stores an item whose expiry is 0 ("genesis txs"), so such a tx accepted in a block with
timestamp 0 is not seen afterwards. -/
theorem expiry_zero_not_tracked (s : Seen) (id : Nat) : (s.add id 0).get id = s.get id := by
  simp [Seen.add]

/-! ### Atomicity assumption (concurrency)

`Reachable` treats `Accept(b)` as ONE step: `lastAcceptedBlockHeight := b.height` and
`seen := (seen.setMin b.ts).addAll b.txs` become visible to verification / `IsRepeat` together.
In the Go code this holds because `Accept` performs both updates inside one `v.mu` critical
section and `VerifyExpiryReplayProtection` / `isRepeat` read `lastAcceptedBlockHeight` and
`seen` under the same mutex. The theorems above rely on it; it is *checked against the real
code on every run* by the concurrent tie `TestVerifC09Conc`
(harness/internal/validitywindow/zz_verif_c09conc_test.go): the accepting goroutine is parked
inside every accessor call `Accept` makes on the block, and while it is parked a child of that
block repeating one of its txs is verified (and offered to `IsRepeat`) from another goroutine;
the verdict must be "duplicate" (the verifier may block until `Accept` finishes).

`accept_height_first_unsafe` shows the assumption is needed: in the intermediate state of an
`Accept` that publishes the height before it fills `seen` (lagging async accept racing with
verification) the model accepts a child that repeats a tx of the block being accepted, while
both the state before and the state after `Accept` reject it. -/

def cxG : Block := { id := 0, parent := 999, ts := 0, height := 0, txs := [] }
def cxB : Block := { id := 1, parent := 0, ts := 1, height := 1, txs := [⟨7, 3⟩] }
def cxC : Block := { id := 2, parent := 1, ts := 2, height := 2, txs := [⟨7, 3⟩] }
def cxIdx : Index := fun i => if i = 0 then some cxG else if i = 1 then some cxB else none

theorem accept_height_first_unsafe :
    let v := newWindow cxIdx 5 3 cxG
    let mid : VW := { v with lastAccepted := cxB.height }   -- height published, seen not yet updated
    verifyERP cxIdx 5 v 5 cxC = .dupAncestor ∧
    verifyERP cxIdx 5 (accept v cxB) 5 cxC = .dupAncestor ∧
    verifyERP cxIdx 5 mid 5 cxC = .ok := by
  refine ⟨by decide, by decide, by decide⟩

/-! ### the expiry check must use the exact block timestamp

`WF.txs_valid` (and with it `ancestor_in_reach`, the invariant and the theorems above) is stated
with the comparison the code makes: `block.ts ≤ expiry ≤ block.ts + W` on the raw millisecond
block timestamp, while `Accept` evicts `expiry < block.ts` on the same raw timestamp. The two
must agree: `rounded_expiry_check_unsafe` shows that if the admission check compared against the
block timestamp rounded down to the expiry granularity (1000 ms), a tx expiring at second 1000,
included at t = 500, evicted when a block at t = 1100 is accepted, passes the rounded check again
in a block at t = 1500 and `VerifyExpiryReplayProtection` accepts the repeat. The ties use
millisecond timestamps around second boundaries and take "valid at its block" from the real
`VerifyTimestamp`, so such a change is reported as `repeat-on-verified-chain`. -/

def rxG : Block := { id := 0, parent := 999, ts := 0, height := 0, txs := [] }
def rxA : Block := { id := 1, parent := 0, ts := 500, height := 1, txs := [⟨7, 1000⟩] }
def rxB : Block := { id := 2, parent := 1, ts := 1100, height := 2, txs := [] }
def rxC : Block := { id := 3, parent := 2, ts := 1500, height := 3, txs := [⟨7, 1000⟩] }
def rxIdx : Index := fun i =>
  if i = 0 then some rxG else if i = 1 then some rxA else if i = 2 then some rxB else none

theorem rounded_expiry_check_unsafe :
    let v := accept (accept (newWindow rxIdx 5000 3 rxG) rxA) rxB
    verifyERP rxIdx 5000 v 5 rxC = .ok ∧                           -- the repeat of tx 7 is not seen
    txsValidAt 5000 rxC = false ∧                                  -- exact check: 1500 ≤ 1000 fails
    (decide (rxC.ts / 1000 * 1000 ≤ (1000 : Int)) = true) ∧        -- rounded check: 1000 ≤ 1000 passes
    blockContains rxA 7 = true := by
  refine ⟨by decide, by decide, by decide, by decide⟩

/-! Non-vacuity: a one-block tree is well formed and the fresh window over it is reachable. -/
def g0 : Block := { id := 0, parent := 999, ts := 0, height := 0, txs := [] }
def U0 : Universe := fun i => if i = 0 then some g0 else none

example : WF U0 5 where
  id_eq := by
    intro i b hb; unfold U0 at hb; split at hb
    · next hi => cases hb; simp [g0, hi]
    · cases hb
  link := by
    intro b p hb hp
    unfold InU U0 at hb; split at hb
    · cases hb; simp [U0, g0] at hp
    · cases hb
  ts_nonneg := by
    intro b hb; unfold InU U0 at hb; split at hb
    · cases hb; simp [g0]
    · cases hb
  txs_valid := by
    intro b hb t ht; unfold InU U0 at hb; split at hb
    · cases hb; simp [g0] at ht
    · cases hb
  id_expiry := by
    intro b c hb _ t ht; unfold InU U0 at hb; split at hb
    · cases hb; simp [g0] at ht
    · cases hb

example : Reachable U0 5 (newWindow U0 5 1 g0) g0 := by
  have hp : populate U0 5 VW.fresh 1 g0 = (newWindow U0 5 1 g0, [g0], true) := by
    simp [newWindow, populate, populateWalk, g0]
  have := @Reachable.restart U0 5 U0 1 g0 _ [g0] [] true (fun _ _ hb => hb) (by simp [InU, U0, g0]) hp
    (by intro b hb; simp at hb) (by
      intro A hA _
      cases hA with
      | refl => simp
      | step hp2 _ => simp [U0, g0] at hp2)
  simpa using this

/-! Non-vacuity with a real transaction: genesis plus a block carrying tx 7 (expiry 3, window 5);
the tree is well formed, accepting the block is a reachable history, and in that state the model
rejects a child repeating tx 7. -/
def U1 : Universe := fun i => if i = 0 then some cxG else if i = 1 then some cxB else none

theorem inU1 {b : Block} (hb : InU U1 b) : b = cxG ∨ b = cxB := by
  unfold InU U1 at hb
  split at hb
  · exact Or.inl (Option.some.inj hb).symm
  · split at hb
    · exact Or.inr (Option.some.inj hb).symm
    · cases hb

example : WF U1 5 where
  id_eq := by
    intro i b hb; unfold U1 at hb
    split at hb
    · next hi => cases hb; simp [cxG, hi]
    · split at hb
      · next hi => cases hb; simp [cxB, hi]
      · cases hb
  link := by
    intro b p hb hp
    rcases inU1 hb with rfl | rfl
    · simp [U1, cxG] at hp
    · simp [U1, cxB] at hp; subst hp; simp [cxG, cxB]
  ts_nonneg := by
    intro b hb; rcases inU1 hb with rfl | rfl <;> simp [cxG, cxB]
  txs_valid := by
    intro b hb t ht
    rcases inU1 hb with rfl | rfl
    · simp [cxG] at ht
    · simp [cxB] at ht; subst ht; decide
  id_expiry := by
    intro b c hb hc t ht t' ht' _
    rcases inU1 hb with rfl | rfl
    · simp [cxG] at ht
    · rcases inU1 hc with rfl | rfl
      · simp [cxG] at ht'
      · simp [cxB] at ht ht'; subst ht; subst ht'; rfl

example : Reachable U1 5 (accept (newWindow U1 5 1 cxG) cxB) cxB := by
  have hp : populate U1 5 VW.fresh 1 cxG = (newWindow U1 5 1 cxG, [cxG], true) := by
    simp [newWindow, populate, populateWalk, cxG]
  have h0 := @Reachable.restart U1 5 U1 1 cxG _ [cxG] [] true (fun _ _ hb => hb) (by simp [InU, U1, cxG]) hp
    (by intro b hb; simp at hb) (by
      intro A hA _
      cases hA with
      | refl => simp
      | step hp2 _ => simp [U1, cxG] at hp2)
  have h1 : Reachable U1 5 (newWindow U1 5 1 cxG) cxG := by simpa using h0
  exact Reachable.accept h1 (by simp [InU, U1, cxB]) (by simp [U1, cxB])

example : verifyERP U1 5 (accept (newWindow U1 5 1 cxG) cxB) 5 cxC = .dupAncestor := by decide

end HyperModel.Props.C09
