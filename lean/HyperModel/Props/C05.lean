import HyperModel.Model.Perm
import HyperModel.Model.TState
import HyperModel.Spec.CheckpointMap
import HyperModel.Proofs.TState
import HyperModel.Props.C04
/-!
# C05 State access is confined to declared keys and permissions

Model: `Model/Perm.lean` (`Permissions.Has`, `Keys.Add`, `Keys.Has`, the union loop of
`Transaction.StateKeys`), `Model/TState.lean` (`checkScope` before every operation).
The permission constants come from the running code (`Generated/FactsC05.lean`).
-/
namespace HyperModel.Props.C05
open HyperModel.Keys HyperModel.Perm HyperModel.TState HyperModel.Spec HyperModel.TStateProofs

/-- the generated permission constants, and how they are composed -/
theorem consts : read = 1 ∧ allocate = 3 ∧ write = 5 ∧ all = 7 ∧ noPerm = 0 ∧
    allocate = 2 ||| read ∧ write = 4 ||| read ∧ all = allocate ||| write := by decide

/-- `Has` is bitwise inclusion: every bit required is a bit held (all 2^16 byte pairs). -/
theorem has_iff_bits (p r : Perm) : has p r = true ↔
    ∀ i : Nat, i < 8 → r.toBitVec.getLsbD i = true → p.toBitVec.getLsbD i = true := by
  unfold has
  rw [beq_iff_eq, ← UInt8.toBitVec_inj]
  simp only [UInt8.toBitVec_and, UInt8.toBitVec_not]
  constructor
  · intro h i hi hr
    have := congrArg (fun b => b.getLsbD i) h
    simp [hi, hr] at this
    exact this
  · intro h
    apply BitVec.eq_of_getLsbD_eq
    intro i hi
    simp only [BitVec.getLsbD_and, BitVec.getLsbD_not, hi, decide_true, Bool.true_and]
    have := h i hi
    cases hr : r.toBitVec.getLsbD i <;> simp_all

theorem has_or_require (p r r' : Perm) :
    has p (r ||| r') = true ↔ has p r = true ∧ has p r' = true := by
  simp only [has_iff_bits, UInt8.toBitVec_or, BitVec.getLsbD_or, Bool.or_eq_true]
  constructor
  · intro h; exact ⟨fun i hi hr => h i hi (Or.inl hr), fun i hi hr => h i hi (Or.inr hr)⟩
  · intro h i hi hr; rcases hr with hr | hr
    · exact h.1 i hi hr
    · exact h.2 i hi hr

theorem has_or_left (p q r : Perm) (h : has p r = true) : has (p ||| q) r = true := by
  rw [has_iff_bits] at h ⊢
  intro i hi hr
  simp [UInt8.toBitVec_or, BitVec.getLsbD_or, h i hi hr]

theorem has_or_right (p q r : Perm) (h : has q r = true) : has (p ||| q) r = true := by
  rw [has_iff_bits] at h ⊢
  intro i hi hr
  simp [UInt8.toBitVec_or, BitVec.getLsbD_or, h i hi hr]

/-- **the permission lattice**, for every permission byte: allocate ⇒ read, write ⇒ read,
all ⇔ allocate ∧ write, a union of declarations grants whatever either grants, requiring a
union is requiring both, nothing is needed for `None`, and no bits grant nothing. -/
theorem has_lattice (p q r r' : Perm) :
    (has p allocate = true → has p read = true) ∧
    (has p write = true → has p read = true) ∧
    (has p all = true ↔ has p allocate = true ∧ has p write = true) ∧
    (has p r = true ∨ has q r = true → has (p ||| q) r = true) ∧
    (has p (r ||| r') = true ↔ has p r = true ∧ has p r' = true) ∧
    has p noPerm = true ∧
    (has noPerm read = false ∧ has noPerm allocate = false ∧ has noPerm write = false) ∧
    (has read write = false ∧ has read allocate = false ∧ has allocate write = false ∧
     has write allocate = false) := by
  refine ⟨?_, ?_, ?_, ?_, has_or_require p r r', ?_, by decide, by decide⟩
  · intro h; rw [consts.2.2.2.2.2.1, has_or_require] at h; exact h.2
  · intro h; rw [consts.2.2.2.2.2.2.1, has_or_require] at h; exact h.2
  · rw [consts.2.2.2.2.2.2.2, has_or_require]
  · intro h; rcases h with h | h
    · exact has_or_left p q r h
    · exact has_or_right p q r h
  · rw [has_iff_bits]; intro i hi hr
    have : noPerm = 0 := consts.2.2.2.2.1
    rw [this] at hr; simp at hr

/-! ### declared key sets -/

/-- the permission byte a run of declarations leaves for key `k`, starting from `acc` -/
def orFrom (acc : Perm) : List (Bytes × Perm) → Bytes → Perm
  | [], _ => acc
  | (j, p) :: rest, k => orFrom (if j = k then acc ||| p else acc) rest k

/-- **declarations are unioned**: after `Transaction.StateKeys`' loop, the permission byte of every
key is the OR of all permissions declared for it (by any action or the sponsor), on top of what
the set held before. -/
theorem addAll_union : ∀ (decls : List (Bytes × Perm)) (m m' : KeySet), addAll m decls = some m' →
    ∀ k, (m' k).getD 0 = orFrom ((m k).getD 0) decls k
  | [], m, m', h, k => by simp only [addAll, Option.some.injEq] at h; simp [orFrom, h]
  | (j, p) :: rest, m, m', h, k => by
    simp only [addAll, KeySet.add] at h
    by_cases hv : valid j = true
    · simp only [hv, Bool.not_true, Bool.false_eq_true, if_false] at h
      rw [addAll_union rest _ m' h k]
      simp only [orFrom]
      by_cases hjk : j = k
      · subst hjk; simp
      · have : ¬ k = j := fun e => hjk e.symm
        simp [hjk, this]
    · simp [hv] at h

theorem orFrom_mono (r : Perm) : ∀ (decls : List (Bytes × Perm)) (acc : Perm) (k : Bytes),
    has acc r = true → has (orFrom acc decls k) r = true
  | [], _, _, h => h
  | (j, p) :: rest, acc, k, h => by
    simp only [orFrom]
    apply orFrom_mono r rest
    split
    · exact has_or_left acc p r h
    · exact h

theorem orFrom_grants (r : Perm) : ∀ (decls : List (Bytes × Perm)) (acc : Perm) (k : Bytes) (p : Perm),
    (k, p) ∈ decls → has p r = true → has (orFrom acc decls k) r = true
  | [], _, _, _, hm, _ => by cases hm
  | (j, q) :: rest, acc, k, p, hm, h => by
    simp only [orFrom]
    rcases List.mem_cons.mp hm with e | hm'
    · have hj : j = k := (Prod.mk.inj e).1.symm
      have hq : q = p := (Prod.mk.inj e).2.symm
      simp only [hj, if_true]
      rw [hq]; exact orFrom_mono r rest _ k (has_or_right acc p r h)
    · exact orFrom_grants r rest _ k p hm' h

/-- a permission declared for a key by any action or the sponsor is held by the transaction -/
theorem declared_is_granted (decls : List (List (Bytes × Perm))) (m : KeySet)
    (h : stateKeys decls = some m) (d : List (Bytes × Perm)) (hd : d ∈ decls)
    (k : Bytes) (p r : Perm) (hk : (k, p) ∈ d) (hr : has p r = true) : m.has k r = true := by
  simp only [KeySet.has, addAll_union _ _ _ h k]
  exact orFrom_grants r _ _ k p (List.mem_flatten.mpr ⟨d, hd, hk⟩) hr

theorem orFrom_undeclared : ∀ (decls : List (Bytes × Perm)) (acc : Perm) (k : Bytes),
    (∀ d ∈ decls, d.1 ≠ k) → orFrom acc decls k = acc
  | [], _, _, _ => rfl
  | (j, p) :: rest, acc, k, h => by
    have hj : j ≠ k := h (j, p) (by simp)
    simp only [orFrom, hj, if_false]
    exact orFrom_undeclared rest acc k (fun d hd => h d (by simp [hd]))

/-- **undeclared keys are inaccessible**: a key no action and not the sponsor declared has no
read, write or allocate permission in the transaction's key set -/
theorem undeclared_no_access (decls : List (List (Bytes × Perm))) (m : KeySet)
    (h : stateKeys decls = some m) (k : Bytes) (hk : ∀ d ∈ decls.flatten, d.1 ≠ k) :
    m.has k read = false ∧ m.has k write = false ∧ m.has k allocate = false := by
  have : (m k).getD 0 = 0 := by
    rw [addAll_union _ _ _ h k, orFrom_undeclared _ _ k hk]; rfl
  simp only [KeySet.has, this]
  decide

/-- the union fails exactly when some declared key is malformed (shorter than two bytes) -/
theorem addAll_none_iff : ∀ (decls : List (Bytes × Perm)) (m : KeySet),
    addAll m decls = none ↔ ∃ d ∈ decls, valid d.1 = false
  | [], m => by simp [addAll]
  | (j, p) :: rest, m => by
    simp only [addAll, KeySet.add]
    by_cases hv : valid j = true
    · simp only [hv, Bool.not_true, Bool.false_eq_true, if_false]
      rw [addAll_none_iff rest]
      constructor
      · rintro ⟨d, hd, h⟩; exact ⟨d, by simp [hd], h⟩
      · rintro ⟨d, hd, h⟩
        rcases List.mem_cons.mp hd with e | hd'
        · subst e; rw [hv] at h; cases h
        · exact ⟨d, hd', h⟩
    · have hv' : valid j = false := by simpa using hv
      simp only [hv', Bool.not_false, if_true, true_iff]
      exact ⟨(j, p), by simp, hv'⟩

/-! ### the view checks the scope before every operation -/

/-- **a read succeeds only with read permission** (and is refused with `perm` otherwise) -/
theorem get_requires_read (s : View) (k : Key) : s.get k ≠ .perm ↔ s.scope k read = true := by
  by_cases h : s.scope k read = true
  · simp only [View.get, View.checkScope, h]
    cases s.getValue k <;> simp
  · simp [View.get, View.checkScope, h]

/-- **a write succeeds only with write permission** -/
theorem insert_requires_write (s : View) (k : Key) (v : Val) (h : (s.insert k v).2 = .ok) :
    s.scope k write = true := by
  simp only [View.insert, View.checkScope] at h
  cases hw : s.scope k write
  · simp [hw] at h
  · rfl

/-- **creating a key needs allocate permission as well** -/
theorem create_requires_allocate (s : View) (k : Key) (v : Val) (h : (s.insert k v).2 = .ok)
    (hnew : s.getValue k = .notFound) : s.scope k allocate = true ∧ s.scope k write = true := by
  refine ⟨?_, insert_requires_write s k v h⟩
  simp only [View.insert, View.checkScope, hnew] at h
  cases ha : s.scope k allocate
  · repeat' split at h
    all_goals simp_all
  · rfl

/-- **a delete succeeds only with write permission** -/
theorem remove_requires_write (s : View) (k : Key) (h : (s.remove k).2 = .ok) :
    s.scope k write = true := by
  simp only [View.remove, View.checkScope] at h
  cases hw : s.scope k write
  · simp [hw] at h
  · rfl

/-- **a denied operation changes nothing**: the whole view (pending values, undo log,
bookkeeping, the `TState` behind it) is exactly what it was -/
theorem denied_op_no_change (s : View) (o : VOp) (h : (s.step o).2 = .perm) : (s.step o).1 = s := by
  cases o with
  | get k => rfl
  | opIndex => rfl
  | rollback n => simp only [View.step] at h ⊢; split at h <;> simp_all
  | insert k v =>
    simp only [View.step, View.insert] at h ⊢
    repeat' split at h
    all_goals simp_all
  | remove k =>
    simp only [View.step, View.remove] at h ⊢
    repeat' split at h
    all_goals simp_all

/-- without write permission on `k`, no operation on `k` touches the view at all -/
theorem no_write_no_effect (s : View) (k : Key) (v : Val) (h : s.scope k write = false) :
    (s.insert k v) = (s, .perm) ∧ (s.remove k) = (s, .perm) := by
  simp [View.insert, View.remove, View.checkScope, h]

/-! ### confinement of a whole program -/

/-- spec-level invariant: keys without write permission keep their underlying value, now and
in every checkpoint -/
def Conf (sc : Key → Perm → Bool) (m : CM) : Prop :=
  ∀ j, sc j write = false → m.cur j = m.base j ∧ ∀ sn ∈ m.snaps, sn j = m.base j

theorem popTo_mem (n : Nat) : ∀ (cur : KV) (snaps : List KV),
    ((popTo n cur snaps).1 = cur ∨ (popTo n cur snaps).1 ∈ snaps) ∧
    ∀ x ∈ (popTo n cur snaps).2, x ∈ snaps
  | cur, [] => by simp [popTo]
  | cur, m :: ms => by
    simp only [popTo]
    split
    · have ih := popTo_mem n m ms
      refine ⟨Or.inr ?_, fun x hx => List.mem_cons_of_mem _ (ih.2 x hx)⟩
      rcases ih.1 with h | h
      · rw [h]; simp
      · exact List.mem_cons_of_mem _ h
    · exact ⟨Or.inl rfl, fun x hx => hx⟩

theorem step_base (sc : Key → Perm → Bool) (m : CM) (o : VOp) : (m.step sc o).1.base = m.base := by
  cases o <;> simp only [CM.step] <;> repeat' split
  all_goals rfl

theorem conf_step (sc : Key → Perm → Bool) (m : CM) (o : VOp) (h : Conf sc m) : Conf sc (m.step sc o).1 := by
  intro j hj
  have hb := step_base sc m o
  rw [hb]
  have hc := h j hj
  cases o with
  | get k => simp only [CM.step]; repeat' split
             all_goals exact hc
  | opIndex => exact hc
  | insert k v =>
    simp only [CM.step]
    by_cases hw : sc k write = true
    · have hjk : j ≠ k := fun e => by subst e; rw [hw] at hj; cases hj
      repeat' split
      all_goals first
        | exact hc
        | (refine ⟨by simp [KV.put, hjk, hc.1], ?_⟩
           intro sn hsn
           rcases List.mem_cons.mp hsn with e | hsn'
           · rw [e]; exact hc.1
           · exact hc.2 sn hsn')
    · simp [hw]; exact hc
  | remove k =>
    simp only [CM.step]
    by_cases hw : sc k write = true
    · have hjk : j ≠ k := fun e => by subst e; rw [hw] at hj; cases hj
      repeat' split
      all_goals first
        | exact hc
        | (refine ⟨by simp [KV.put, hjk, hc.1], ?_⟩
           intro sn hsn
           rcases List.mem_cons.mp hsn with e | hsn'
           · rw [e]; exact hc.1
           · exact hc.2 sn hsn')
    · simp [hw]; exact hc
  | rollback n =>
    simp only [CM.step]
    split
    · have pm := popTo_mem n m.cur m.snaps
      refine ⟨?_, fun sn hsn => hc.2 sn (pm.2 sn hsn)⟩
      rcases pm.1 with e | e
      · show (popTo n m.cur m.snaps).1 j = _; rw [e]; exact hc.1
      · exact hc.2 _ e
    · exact hc

theorem conf_run (sc : Key → Perm → Bool) : ∀ (p : List VOp) (m : CM), Conf sc m → Conf sc (m.run sc p).1
  | [], _, h => h
  | o :: rest, m, h => by
    simp only [CM.run]
    exact conf_run sc rest _ (conf_step sc m o h)

/-- **confinement (writes)**: whatever program runs in a view — any operations, in any order,
with rollbacks — a key without write permission in the scope never gets a pending change, reads
(for a reader with access) as the underlying state, and is left untouched by the commit. -/
theorem confinement_writes (ts : TS) (parent : KV) (scope : Key → Perm → Bool) (prog : List VOp)
    (j : Key) (hj : scope j write = false) :
    let s := ((ts.newView scope (stoOf parent)).run prog).1
    s.pendingChangedKeys j = none ∧
    vis s j = underlying ts.changedKeys parent j ∧
    s.commit.ts.changedKeys j = ts.changedKeys j := by
  intro s
  have h := run_refines prog (rel_init ts scope parent)
  have R : Rel s ((CM.init (underlying ts.changedKeys parent)).run scope prog).1 := h.1
  have hf : Frame (ts.newView scope (stoOf parent)) s := h.2.2
  have hbase := rel_base_init R hf
  have hconf : Conf scope ((CM.init (underlying ts.changedKeys parent)).run scope prog).1 :=
    conf_run scope prog _ (fun j _ => ⟨rfl, fun sn hsn => by simp [CM.init] at hsn⟩)
  have hc := (hconf j hj).1
  have hp : s.pendingChangedKeys j = none := by
    rw [pending_eq_diff R j]; simp only [CM.diff]; rw [if_pos hc]
  refine ⟨hp, ?_, ?_⟩
  · rw [← R.hcur, hc, hbase]
  · rw [commit_of_rel R j]
    simp only [if_pos hc]
    exact congrArg (fun t => t.changedKeys j) hf.1

/-- two maps agree on every key the scope may read -/
def AgreeOn (sc : Key → Perm → Bool) (a b : KV) : Prop := ∀ k, sc k read = true → a k = b k

def AgreeL (sc : Key → Perm → Bool) : List KV → List KV → Prop
  | [], [] => True
  | a :: as, b :: bs => AgreeOn sc a b ∧ AgreeL sc as bs
  | _, _ => False

structure Agree (sc : Key → Perm → Bool) (m1 m2 : CM) : Prop where
  cur : AgreeOn sc m1.cur m2.cur
  snaps : AgreeL sc m1.snaps m2.snaps

theorem agreeL_length (sc : Key → Perm → Bool) : ∀ (as bs : List KV), AgreeL sc as bs → as.length = bs.length
  | [], [], _ => rfl
  | [], _ :: _, h => by simp [AgreeL] at h
  | _ :: _, [], h => by simp [AgreeL] at h
  | a :: as, b :: bs, h => by simp only [AgreeL] at h; simp [agreeL_length sc as bs h.2]

theorem popTo_agree (sc : Key → Perm → Bool) (n : Nat) : ∀ (s1 s2 : List KV) (c1 c2 : KV),
    AgreeL sc s1 s2 → AgreeOn sc c1 c2 →
    AgreeOn sc (popTo n c1 s1).1 (popTo n c2 s2).1 ∧ AgreeL sc (popTo n c1 s1).2 (popTo n c2 s2).2
  | [], [], c1, c2, _, hc => by simp [popTo, hc, AgreeL]
  | [], _ :: _, _, _, h, _ => by simp [AgreeL] at h
  | _ :: _, [], _, _, h, _ => by simp [AgreeL] at h
  | a :: as, b :: bs, c1, c2, h, hc => by
    have hl := agreeL_length sc as bs (by simp only [AgreeL] at h; exact h.2)
    simp only [AgreeL] at h
    simp only [popTo, hl]
    split
    · exact popTo_agree sc n as bs a b h.2 h.1
    · exact ⟨hc, by simp only [AgreeL]; exact h⟩

theorem agree_put (sc : Key → Perm → Bool) (a b : KV) (k : Key) (x : Option Val) (h : AgreeOn sc a b) :
    AgreeOn sc (KV.put a k x) (KV.put b k x) := by
  intro j hj; simp only [KV.put]; split
  · rfl
  · exact h j hj

theorem agree_step (sc : Key → Perm → Bool) (hwr : ∀ k, sc k write = true → sc k read = true)
    (m1 m2 : CM) (h : Agree sc m1 m2) (o : VOp) :
    (m1.step sc o).2 = (m2.step sc o).2 ∧ Agree sc (m1.step sc o).1 (m2.step sc o).1 := by
  cases o with
  | get k =>
    simp only [CM.step]
    by_cases hr : sc k read = true
    · have := h.cur k hr
      simp only [hr, Bool.not_true, Bool.false_eq_true, if_false, this]
      cases m2.cur k <;> exact ⟨rfl, h⟩
    · simp [hr]; exact h
  | opIndex =>
    simp only [CM.step, agreeL_length sc _ _ h.snaps]; exact ⟨trivial, h⟩
  | insert k v =>
    simp only [CM.step]
    by_cases hw : sc k write = true
    · have hc := h.cur k (hwr k hw)
      simp only [hw, Bool.not_true, Bool.false_eq_true, if_false, hc]
      repeat' split
      all_goals first
        | exact ⟨rfl, h⟩
        | exact ⟨rfl, ⟨agree_put sc _ _ k _ h.cur, by simp only [AgreeL]; exact ⟨h.cur, h.snaps⟩⟩⟩
    · simp [hw]; exact h
  | remove k =>
    simp only [CM.step]
    by_cases hw : sc k write = true
    · have hc := h.cur k (hwr k hw)
      simp only [hw, Bool.not_true, Bool.false_eq_true, if_false, hc]
      repeat' split
      all_goals first
        | exact ⟨rfl, h⟩
        | exact ⟨rfl, ⟨agree_put sc _ _ k _ h.cur, by simp only [AgreeL]; exact ⟨h.cur, h.snaps⟩⟩⟩
    · simp [hw]; exact h
  | rollback n =>
    simp only [CM.step, agreeL_length sc _ _ h.snaps]
    split
    · have := popTo_agree sc n m1.snaps m2.snaps m1.cur m2.cur h.snaps h.cur
      exact ⟨rfl, ⟨this.1, this.2⟩⟩
    · exact ⟨rfl, h⟩

theorem agree_run (sc : Key → Perm → Bool) (hwr : ∀ k, sc k write = true → sc k read = true) :
    ∀ (p : List VOp) (m1 m2 : CM), Agree sc m1 m2 →
      (m1.run sc p).2 = (m2.run sc p).2 ∧ Agree sc (m1.run sc p).1 (m2.run sc p).1
  | [], _, _, h => ⟨rfl, h⟩
  | o :: rest, m1, m2, h => by
    have h1 := agree_step sc hwr m1 m2 h o
    have h2 := agree_run sc hwr rest _ _ h1.2
    simp only [CM.run]
    exact ⟨by rw [h1.1, h2.1], h2.2⟩

/-- **confinement (reads)**: the outputs of any program depend only on the keys its scope may
read. Two views with the same scope (in which write permission entails read permission, as it
does for every `state.Keys` scope and for `CompletePermissions`) over any two `TState`s and
parents whose underlying states agree on the readable keys produce identical outputs. -/
theorem confinement_reads (ts1 ts2 : TS) (parent1 parent2 : KV) (scope : Key → Perm → Bool)
    (hwr : ∀ k, scope k write = true → scope k read = true)
    (hag : ∀ k, scope k read = true →
      underlying ts1.changedKeys parent1 k = underlying ts2.changedKeys parent2 k)
    (prog : List VOp) :
    ((ts1.newView scope (stoOf parent1)).run prog).2 = ((ts2.newView scope (stoOf parent2)).run prog).2 := by
  have r1 : ((ts1.newView scope (stoOf parent1)).run prog).2 =
      ((CM.init (underlying ts1.changedKeys parent1)).run scope prog).2 :=
    (run_refines prog (rel_init ts1 scope parent1)).2.1
  have r2 : ((ts2.newView scope (stoOf parent2)).run prog).2 =
      ((CM.init (underlying ts2.changedKeys parent2)).run scope prog).2 :=
    (run_refines prog (rel_init ts2 scope parent2)).2.1
  rw [r1, r2]
  have h0 : Agree scope (CM.init (underlying ts1.changedKeys parent1))
      (CM.init (underlying ts2.changedKeys parent2)) := ⟨hag, by simp [CM.init, AgreeL]⟩
  exact (agree_run scope hwr prog _ _ h0).1

/-- the side condition of `confinement_reads` holds for every declared key set and for
`CompletePermissions` -/
theorem scope_write_implies_read (m : KeySet) :
    (∀ k, m.has k write = true → m.has k read = true) ∧
    (∀ k, fullAccess k write = true → fullAccess k read = true) :=
  ⟨fun k h => (has_lattice ((m k).getD 0) 0 0 0).2.1 h, fun _ _ => rfl⟩

/-- **an undeclared key is denied at every operation**: in a view scoped by the transaction's
key set, a key that no action and not the sponsor declared cannot be read, written, created or
deleted, and the attempts leave the view exactly as it was. -/
theorem undeclared_key_denied (decls : List (List (Bytes × Perm))) (m : KeySet)
    (h : stateKeys decls = some m) (k : Bytes) (hk : ∀ d ∈ decls.flatten, d.1 ≠ k)
    (s : View) (hs : s.scope = m.has) (v : Val) :
    s.get k = .perm ∧ s.insert k v = (s, .perm) ∧ s.remove k = (s, .perm) := by
  have hu := undeclared_no_access decls m h k hk
  have hr : s.scope k read = false := by rw [hs]; exact hu.1
  have hw : s.scope k write = false := by rw [hs]; exact hu.2.1
  refine ⟨?_, (no_write_no_effect s k v hw).1, (no_write_no_effect s k v hw).2⟩
  simp [View.get, View.checkScope, hr]

/-! ### several views on one `TState`

The model's `View.ts` is the `TState` as it was when the view was opened, while the Go view
holds a `*TState` and other views may commit to it while this one is open (parallel tasks in
`chain/processor.go`). The executor (C08) never runs two tasks concurrently when one writes a
key the other reads or writes; under that discipline the two theorems below show that the other
view's commit is invisible to this view's outputs and that the order of the commits does not
matter. -/

/-- **another view's commit is invisible**: if view 1 can write no key that view 2 can read,
then whatever view 1 did and committed, view 2's outputs on the resulting `TState` are those on
the original one. -/
theorem other_commit_invisible (ts : TS) (parent : KV) (sc1 sc2 : Key → Perm → Bool)
    (hwr : ∀ k, sc2 k write = true → sc2 k read = true)
    (hdis : ∀ k, sc1 k write = true → sc2 k read = false) (p1 p2 : List VOp) :
    ((((ts.newView sc1 (stoOf parent)).run p1).1.commit.ts.newView sc2 (stoOf parent)).run p2).2 =
      ((ts.newView sc2 (stoOf parent)).run p2).2 := by
  apply confinement_reads _ _ parent parent sc2 hwr
  intro k hr
  have hw1 : sc1 k write = false := by
    cases hw : sc1 k write
    · rfl
    · have := hdis k hw; rw [hr] at this; cases this
  have := (confinement_writes ts parent sc1 p1 k hw1).2.2
  simp only [underlying, this]

/-- **commits of views with disjoint write scopes commute**: two views opened on the same
`TState`, neither able to write a key the other can write; committing one and then the other
(each onto the `TState` the other left, as the shared `*TState` does) gives the same block-level
map and op count in either order. -/
theorem commits_commute (ts : TS) (parent : KV) (sc1 sc2 : Key → Perm → Bool)
    (hdis : ∀ k, sc1 k write = true → sc2 k write = false) (p1 p2 : List VOp) :
    let s1 := ((ts.newView sc1 (stoOf parent)).run p1).1
    let s2 := ((ts.newView sc2 (stoOf parent)).run p2).1
    (∀ k, ({ s2 with ts := s1.commit.ts }).commit.ts.changedKeys k =
          ({ s1 with ts := s2.commit.ts }).commit.ts.changedKeys k) ∧
    ({ s2 with ts := s1.commit.ts }).commit.ts.ops = ({ s1 with ts := s2.commit.ts }).commit.ts.ops := by
  intro s1 s2
  constructor
  · intro k
    show (match s2.pendingChangedKeys k with
          | some v => some v
          | none => match s1.pendingChangedKeys k with | some v => some v | none => s1.ts.changedKeys k) =
         (match s1.pendingChangedKeys k with
          | some v => some v
          | none => match s2.pendingChangedKeys k with | some v => some v | none => s2.ts.changedKeys k)
    have f1 : s1.ts = ts := (run_refines p1 (rel_init ts sc1 parent)).2.2.1
    have f2 : s2.ts = ts := (run_refines p2 (rel_init ts sc2 parent)).2.2.1
    rw [f1, f2]
    cases hw1 : sc1 k write
    · have := (confinement_writes ts parent sc1 p1 k hw1).1
      have e1 : s1.pendingChangedKeys k = none := this
      rw [e1]
    · have hw2 := hdis k hw1
      have := (confinement_writes ts parent sc2 p2 k hw2).1
      have e2 : s2.pendingChangedKeys k = none := this
      rw [e2]
  · have f1 : s1.ts = ts := (run_refines p1 (rel_init ts sc1 parent)).2.2.1
    have f2 : s2.ts = ts := (run_refines p2 (rel_init ts sc2 parent)).2.2.1
    simp only [View.commit, f1, f2]
    omega

/-! ### block level (`Transaction.Execute` + the per-transaction scope of `Processor.executeTxs`) -/

theorem runUntilFail_prefix : ∀ (ops : List VOp) (s : View),
    ∃ pre : List VOp, (s.runUntilFail ops).1 = (s.run pre).1 ∧ ∀ o ∈ pre, o ∈ ops
  | [], s => ⟨[], rfl, fun _ h => h⟩
  | o :: rest, s => by
    simp only [View.runUntilFail]
    by_cases hok : (s.step o).2.isOk = true
    · simp only [hok, if_true]
      obtain ⟨pre, h1, h2⟩ := runUntilFail_prefix rest (s.step o).1
      refine ⟨o :: pre, ?_, ?_⟩
      · rw [h1]; simp [View.run]
      · intro x hx
        rcases List.mem_cons.mp hx with e | e
        · simp [e]
        · exact List.mem_cons_of_mem _ (h2 x e)
    · simp only [hok]
      exact ⟨[o], by simp [View.run], fun x hx => by simp at hx; simp [hx]⟩

theorem act_ops_no_rollback (acts : List Act) (n : Nat) : VOp.rollback n ∉ (acts.map Act.ops).flatten := by
  intro h
  obtain ⟨l, hl, hm⟩ := List.mem_flatten.mp h
  obtain ⟨a, _, rfl⟩ := List.mem_map.mp hl
  simp [Act.ops] at hm

/-- **a failed transaction changes nothing**: when any access of any action of a transaction
fails (in particular an access to an undeclared key), `Transaction.Execute` rolls the view back
to where the first action started: no pending change remains, so the `Commit` that follows leaves
every block-level entry as it was — the writes of the transaction's earlier actions included. -/
theorem failed_tx_changes_nothing (ts : TS) (parent : KV) (scope : Key → Perm → Bool) (acts : List Act)
    (e : Out) (h : ((ts.newView scope (stoOf parent)).execTx acts).2 = some e) :
    ∀ k, ((ts.newView scope (stoOf parent)).execTx acts).1.pendingChangedKeys k = none ∧
         ((ts.newView scope (stoOf parent)).execTx acts).1.commit.ts.changedKeys k = ts.changedKeys k := by
  intro k
  obtain ⟨pre, hpre, hmem⟩ := runUntilFail_prefix (acts.map Act.ops).flatten (ts.newView scope (stoOf parent))
  have hnr : ∀ n, VOp.rollback n ∈ pre → (ts.newView scope (stoOf parent)).opIndex ≤ n := by
    intro n hn; exact absurd (hmem _ hn) (act_ops_no_rollback acts n)
  have hr := (C04.rollback_restores ts parent scope [] pre hnr).2.2.2.2 k
  simp only [View.run] at hr
  have hfr : ((ts.newView scope (stoOf parent)).run pre).1.ts = ts :=
    (run_refines pre (rel_init ts scope parent)).2.2.1
  have hst : ((ts.newView scope (stoOf parent)).execTx acts).1 =
      ((ts.newView scope (stoOf parent)).run pre).1.rollback (ts.newView scope (stoOf parent)).opIndex := by
    simp only [View.execTx] at h ⊢
    cases hrf : (ts.newView scope (stoOf parent)).runUntilFail (acts.map Act.ops).flatten with
    | mk s' r =>
      rw [hrf] at h hpre
      cases r with
      | none => simp at h
      | some e' => simp only; rw [← hpre]
  have hp : ((ts.newView scope (stoOf parent)).execTx acts).1.pendingChangedKeys k = none := by
    rw [hst, hr]; rfl
  refine ⟨hp, ?_⟩
  show (match ((ts.newView scope (stoOf parent)).execTx acts).1.pendingChangedKeys k with
        | some v => some v
        | none => ((ts.newView scope (stoOf parent)).execTx acts).1.ts.changedKeys k) = _
  rw [hp, hst]
  have := (rollback_frame ((ts.newView scope (stoOf parent)).run pre).1 (ts.newView scope (stoOf parent)).opIndex).1
  simp only [this, hfr]

/-- **every transaction of a block runs under its own declared keys**: in the block reference
`TS.execBlock` the view of a transaction is scoped by `Perm.stateKeys` of that transaction's own
action declarations, so (with `undeclared_key_denied`) an access to a key it did not declare is
denied whatever other transactions of the block declare. Stated on the first transaction of any
block suffix; `execBlock` recurses on the rest with the committed `TState`. -/
theorem execBlock_scope_is_own (ts : TS) (parent : KV) (tx : List Act) (rest : List (List Act))
    (keys : KeySet) (hk : stateKeys (tx.map Act.decl) = some keys) :
    ts.execBlock parent (tx :: rest) =
      (let storage : Key → StoRes := fun k =>
         if (keys k).isSome then (match parent k with | some v => .val v | none => .notFound) else .notFound
       let r := (ts.newView keys.has storage).execTx tx
       match r.1.commit.ts.execBlock parent rest with
       | none => none
       | some (ts', rs) => some (ts', r.2 :: rs)) := by
  simp only [TS.execBlock, hk]
  rfl

/-! ### non-vacuity -/
example : has write read = true ∧ has allocate read = true ∧ has all write = true ∧
    has read write = false ∧ has (read ||| 4) write = true := by decide
example : (stateKeys [[([1, 0, 1], read)], [([1, 0, 1], 4)]]).isSome = true := by decide
example : stateKeys [[([1], read)]] = none := by decide

end HyperModel.Props.C05
