import HyperModel.Proofs.Token
import HyperModel.Props.C03
/-!
# C06 Token supply is conserved except for burned fees (reference VM)

Model: `Model/Token.lean` (`Transfer.Execute`, `storage.SubBalance/AddBalance`) executed by
`Model/Tx.lean: txExecute` with the morpheus balance handler; the state view is the abstract
map-with-checkpoints that `TStateView` refines (C04). `total m accts` = sum of the balance
records of a duplicate-free account list that contains every account the block touches
(every other key is untouched, so any superset gives the same statement).
-/
namespace HyperModel.Props.C06
open HyperModel.Tx HyperModel.Token HyperModel.Proofs.Tx HyperModel.Proofs.Token HyperModel.Props.C03

/-- `acts` are transfers signed by `actor` to recipients inside `accts` -/
def IsTransfers (actor : Addr) (accts : List Addr) (acts : List Action) : Prop :=
  ∀ a ∈ acts, ∃ t : Transfer, t.to ∈ accts ∧ a = t.action actor

/-- the fee step (morpheus handler) removes exactly `fee` from the total -/
theorem charge_total (m : Store) (accts : List Addr) (a : Addr) (bal fee : Nat)
    (hnd : accts.Nodup) (ha : a ∈ accts) (hb : readBal .morpheus m a = some bal) (hle : fee ≤ bal) :
    total (charge .morpheus m a bal fee) accts + fee = total m accts := by
  have hbl : bal < u64 := by
    unfold readBal at hb
    cases hk : m (Handler.morpheus.key a) with
    | none => simp [hk] at hb
    | some x => simp [hk] at hb; exact decU64_lt x bal hb
  have hfa : balOf m a = bal := by
    rw [balOf_eq_balance]; simp [balance, hb]
  have hga : balOf (charge .morpheus m a bal fee) a = bal - fee := by
    rw [balOf_eq_balance]; exact balance_charge .morpheus m a bal fee hbl
  have hoth : ∀ b, b ≠ a → balOf (charge .morpheus m a bal fee) b = balOf m b := by
    intro b hba
    have hk : bkey b ≠ Handler.morpheus.key a := fun e => hba (bkey_inj _ _ e)
    simp [balOf, charge_other .morpheus m a bal fee (bkey b) hk]
  have := sum_map_update accts a (balOf m) (balOf (charge .morpheus m a bal fee)) hnd ha hoth
  unfold total
  omega

/-- **C06 (a)** A successful `Transfer` (any sender, any recipient — also the sender itself —,
any amount, also the full balance) neither creates nor destroys tokens, and changes no key
other than the two balance records. -/
theorem transfer_conserves (actor to : Addr) (value memoLen : Nat) (v v' : View) (out : Val)
    (accts : List Addr) (hnd : accts.Nodup) (ha : actor ∈ accts) (ht : to ∈ accts)
    (hr : (transferProg actor to value memoLen).run v = (v', .ok out)) :
    total v'.cur accts = total v.cur accts ∧
    ∀ k, k ≠ bkey actor → k ≠ bkey to → v'.cur k = v.cur k := by
  unfold transferProg at hr
  split at hr
  · simp [Prog.run] at hr
  · split at hr
    · simp [Prog.run] at hr
    · obtain ⟨bal, v1, hb, hle, hc1, hr1⟩ := mSub_run actor value _ v v' out hr
      obtain ⟨v2, hlt, hc2, hr2⟩ := mAdd_run to value _ v1 v' out hr1
      simp [Prog.run] at hr2
      have hv : v'.cur = v2.cur := by rw [← hr2.1]
      have h1 := charge_total v.cur accts actor bal value hnd ha hb hle
      rw [← hc1] at h1
      have h2 := sum_map_update accts to (balOf v1.cur) (balOf v2.cur) hnd ht (by
        intro b hb'; rw [hc2]; exact balOf_upd_other _ _ _ _ hb')
      have hg2 : balOf v2.cur to = balOf v1.cur to + value := by
        rw [hc2]; exact balOf_upd_some _ _ _ hlt
      constructor
      · rw [hv]; unfold total at h1 ⊢; omega
      · intro k hk1 hk2
        rw [hv, hc2, hc1]
        simp only [upd, hk2, if_false]
        exact charge_other .morpheus v.cur actor bal value k hk1

/-- running a list of transfers that all succeed conserves the total -/
theorem applyAll_conserves (actor : Addr) (accts : List Addr) (hnd : accts.Nodup)
    (ha : actor ∈ accts) : ∀ (acts : List Action) (w w' : View) (os : List Val),
    IsTransfers actor accts acts → applyAll acts w = some (w', os) →
    total w'.cur accts = total w.cur accts := by
  intro acts
  induction acts with
  | nil => intro w w' os _ h; simp [applyAll] at h; rw [h.1]
  | cons a rest ih =>
    intro w w' os htr h
    simp only [applyAll] at h
    rcases hrun : a.prog.run w with ⟨w1, r⟩
    rw [hrun] at h
    cases r with
    | error e => simp at h
    | ok o =>
      simp only at h
      cases hrest : applyAll rest w1 with
      | none => simp [hrest] at h
      | some q =>
        simp [hrest] at h
        obtain ⟨t, hto, hat⟩ := htr a (by simp)
        have hrun' : (transferProg actor t.to t.value t.memoLen).run w = (w1, .ok o) := by
          rw [hat] at hrun; exact hrun
        have h1 := (transfer_conserves actor t.to t.value t.memoLen w w1 o accts hnd ha hto hrun').1
        have h2 := ih w1 q.1 q.2 (fun a' ha' => htr a' (by simp [ha'])) (by simp [hrest])
        rw [← h.1, h2, h1]

/-- **C06 (b)** Any transaction of transfers (1..n actions, self-transfers, emptying and
refilling accounts, failing actions at any position, any sponsor): the sum of balances after
equals the sum before minus the fee charged — on success and on failure. -/
theorem tx_conserves (prices : List Nat) (tx : Tx) (actor : Addr) (accts : List Addr)
    (v v' : View) (r : Result) (hnd : accts.Nodup) (hs : tx.sponsor ∈ accts) (ha : actor ∈ accts)
    (htr : IsTransfers actor accts tx.actions)
    (hx : txExecute .morpheus prices tx v = (v', .ok r)) :
    total v'.cur accts + r.fee = total v.cur accts := by
  obtain ⟨units, fee, bal, _, _, _, _, hfee, _, hb, hle, hcv, _, _, _⟩ :=
    fee_charged_first .morpheus prices tx v v' r hx
  have hcharged : total (chargedView .morpheus tx fee v).cur accts + fee = total v.cur accts := by
    rw [hcv]; exact charge_total v.cur accts tx.sponsor bal fee hnd hs hb hle
  cases hsucc : r.success with
  | true =>
    have hall := (success_applies_all .morpheus prices tx v v' r hx hsucc).1
    rw [hfee] at hall
    have := applyAll_conserves actor accts hnd ha tx.actions _ v' r.outputs htr hall
    rw [hfee, this]; exact hcharged
  | false =>
    obtain ⟨bal', hb', _, hcur, _⟩ := failure_reverts_actions_keeps_fee .morpheus prices tx v v' r hx hsucc
    have : bal' = bal := by rw [hb] at hb'; simp at hb'; exact hb'.symm
    subst this
    rw [hcur, hfee, ← hcv]; exact hcharged

/-- **C06 (c)** Any block (sequence of transfer transactions applied in order, C01's sequential
semantics; transactions that error are not committed): the sum of all balances after the block
equals the sum before minus the fees charged in the block. -/
theorem block_conserves (rules : Rules) (prices : List Nat) (now : Int) (accts : List Addr)
    (hnd : accts.Nodup) : ∀ (txs : List ((Key → Nat) × Tx)) (cur cur' : Store) (fees : List Nat),
    (∀ p ∈ txs, p.2.sponsor ∈ accts ∧ ∃ actor ∈ accts, IsTransfers actor accts p.2.actions) →
    runBlock rules prices now txs cur = (cur', fees) →
    total cur' accts + fees.sum = total cur accts := by
  intro txs
  induction txs with
  | nil => intro cur cur' fees _ h; simp [runBlock] at h; rw [h.1, h.2]; simp
  | cons p rest ih =>
    intro cur cur' fees hall h
    obtain ⟨scope, tx⟩ := p
    simp only [runBlock] at h
    rcases hp : processTx rules .morpheus prices now scope tx cur with ⟨c1, o⟩
    rw [hp] at h
    have hrest : ∀ p ∈ rest, p.2.sponsor ∈ accts ∧ ∃ actor ∈ accts, IsTransfers actor accts p.2.actions :=
      fun p hp' => hall p (by simp [hp'])
    cases o with
    | done res =>
      simp only at h
      obtain ⟨_, v', hx, hc1⟩ := processTx_done rules .morpheus prices now scope tx cur c1 res hp
      subst hc1
      obtain ⟨hs, actor, ha, htr⟩ := hall (scope, tx) (by simp)
      have h1 := tx_conserves prices tx actor accts _ v' res hnd hs ha htr hx
      have h2 := ih v'.cur (runBlock rules prices now rest v'.cur).1 (runBlock rules prices now rest v'.cur).2 hrest rfl
      simp at h
      rw [← h.1, ← h.2, List.sum_cons]
      simp only at h1
      omega
    | preErr e =>
      simp only at h
      have := uncommitted_unchanged rules .morpheus prices now scope tx cur c1 _ hp (by simp)
      rw [this] at h
      exact ih cur cur' fees hrest h
    | execErr e =>
      simp only at h
      have := uncommitted_unchanged rules .morpheus prices now scope tx cur c1 _ hp (by simp)
      rw [this] at h
      exact ih cur cur' fees hrest h

/-- the layered execution of a block (one `TState` over the parent storage) and the flat
sequential one agree on the visible state and the fees -/
theorem runBlockB_visible (rules : Rules) (prices : List Nat) (now : Int) :
    ∀ (txs : List ((Key → Nat) × Tx)) (b : Block),
    (runBlockB rules prices now txs b).1.visible = (runBlock rules prices now txs b.visible).1 ∧
    (runBlockB rules prices now txs b).2 = (runBlock rules prices now txs b.visible).2 ∧
    (runBlockB rules prices now txs b).1.parent = b.parent := by
  intro txs
  induction txs with
  | nil => intro b; simp [runBlockB, runBlock]
  | cons p rest ih =>
    intro b
    obtain ⟨scope, tx⟩ := p
    have hv := processTxB_visible rules .morpheus prices now scope tx b
    simp only [runBlockB, runBlock]
    rcases hB : processTxB rules .morpheus prices now scope tx b with ⟨b', o⟩
    rcases hP : processTx rules .morpheus prices now scope tx b.visible with ⟨c', o'⟩
    rw [hB, hP] at hv
    simp only at hv
    obtain ⟨h1, h2, h3⟩ := hv
    subst h2
    have := ih b'
    rw [h1] at this
    cases o with
    | done res => simp only; exact ⟨this.1, by rw [this.2.1], by rw [this.2.2, h3]⟩
    | preErr e => simp only; exact ⟨this.1, this.2.1, by rw [this.2.2, h3]⟩
    | execErr e => simp only; exact ⟨this.1, this.2.1, by rw [this.2.2, h3]⟩

/-- **C06 (d)** the block on the layered state (views committed one after another into one block
diff over the same parent storage, as `Processor`/`Builder` do): the sum of all balances visible
after the block (block diff over parent) equals the sum in the parent storage minus the fees
charged in the block — including accounts emptied by one transaction (record removed) and
refilled by a later one to exactly their pre-block balance. -/
theorem block_conserves_layers (rules : Rules) (prices : List Nat) (now : Int) (accts : List Addr)
    (hnd : accts.Nodup) (txs : List ((Key → Nat) × Tx)) (parent : Store)
    (hall : ∀ p ∈ txs, p.2.sponsor ∈ accts ∧ ∃ actor ∈ accts, IsTransfers actor accts p.2.actions) :
    total (runBlockB rules prices now txs { parent }).1.visible accts
      + (runBlockB rules prices now txs { parent }).2.sum = total parent accts ∧
    (runBlockB rules prices now txs { parent }).1.parent = parent := by
  have hv := runBlockB_visible rules prices now txs { parent }
  have hvis : ({ parent } : Block).visible = parent := by funext k; simp [Block.visible]
  rw [hvis] at hv
  refine ⟨?_, hv.2.2⟩
  rw [hv.1, hv.2.1]
  exact block_conserves rules prices now accts hnd txs parent _ _ hall rfl

/-! ## non-vacuity: the former C04/C06 witness — two full-balance self-transfers in one tx -/
def a1 : Addr := [1]
def wStore : Store := upd (fun _ => none) (bkey a1) (some (encU64 110))
def wT : Transfer := { to := a1, value := 100 }
def wTx : Tx := { sponsor := a1, units := some [1, 1, 1, 1, 1], actions := [wT.action a1, wT.action a1] }
def wView : View := { cur := wStore, scope := fun _ => permAll }

example : (txExecute .morpheus [2, 2, 2, 2, 2] wTx wView).2.toOption.map (fun r => (r.success, r.fee)) = some (true, 10) := by
  decide +kernel
example : total (txExecute .morpheus [2, 2, 2, 2, 2] wTx wView).1.cur [a1] = 100 := by decide +kernel
example : total wStore [a1] = 110 := by decide +kernel

-- a failing transaction: second transfer exceeds the balance -> reverted, fee kept, total = before - fee
def wBad : Transfer := { to := [2], value := 1000 }
def wTxFail : Tx := { sponsor := a1, units := some [1, 1, 1, 1, 1], actions := [wT.action a1, wBad.action a1] }
example : (txExecute .morpheus [2, 2, 2, 2, 2] wTxFail wView).2.toOption.map (fun r => (r.success, r.fee, r.outputs.length)) = some (false, 10, 1) := by
  decide +kernel
example : total (txExecute .morpheus [2, 2, 2, 2, 2] wTxFail wView).1.cur [a1, [2]] = 100 := by decide +kernel
-- an erroring transaction (sponsor cannot pay): nothing is committed, total unchanged
def wPoor : Tx := { sponsor := [2], units := some [1, 1, 1, 1, 1], actions := [wT.action [2]], timestamp := 30000 }
example : (runBlock {} [2, 2, 2, 2, 2] 0 [(fun _ => permAll, wPoor), (fun _ => permAll, { wTxFail with timestamp := 30000 })] wStore).2 = [10] := by
  decide +kernel
example : total (runBlock {} [2, 2, 2, 2, 2] 0 [(fun _ => permAll, wPoor), (fun _ => permAll, { wTxFail with timestamp := 30000 })] wStore).1 [a1, [2]] = 100 := by
  decide +kernel

end HyperModel.Props.C06
