import HyperModel.Proofs.SnowSync
import HyperModel.Proofs.SnowLoop
/-! # C21 Dynamic state sync hands over to normal operation consistently

Model: `HyperModel/Model/Snow.lean` (`start`, `finish`, `finishTail`, `reprocess`, `reverifyOne`,
`health`), transcription of `snow/statesync.go`, `snow/health.go`, `snow/block.go`.
-/
namespace HyperModel.Props.C21
open HyperModel.Snow

/-- **finish_twice_rejected** — `FinishStateSync` on a VM that is in normal operation fails and
changes nothing (no callback, no notification, no state change), whatever the arguments. -/
theorem finish_twice_rejected (s : State) (b : Blk) (st : List Nat) (hr : s.ready = true) :
    step s (.finish b st) = (s, if s.crashed then .err "dead" else .err "ready") := by
  unfold HyperModel.Snow.step
  split
  · rfl
  · simp [finish, hr]

/-- the logging chain's execution of a chain of valid blocks on top of state `st`: the fold of
`VerifyBlock` (and `AcceptBlock`, which copies the state) -/
theorem exec_fold (t : Blk) (st : List Nat) (chain : List Blk) (hv : ∀ b ∈ chain, b.invalid = false) :
    chain.foldl (fun o b => (chainVerify (some o) b).getD o) ⟨t, st⟩ = ⟨lastOr t chain, st ++ chain.map (·.id)⟩ := by
  induction chain generalizing t st with
  | nil => simp [lastOr]
  | cons b r ih =>
    have hb := hv b List.mem_cons_self
    have h1 : (chainVerify (some ⟨t, st⟩) b).getD ⟨t, st⟩ = ⟨b, st ++ [b.id]⟩ := by simp [chainVerify, hb]
    rw [List.foldl_cons, h1, ih b (st ++ [b.id]) (fun x hx => hv x (List.mem_cons_of_mem _ hx))]
    simp [lastOr]

/-- **finish_state_equals_executed_chain (partial)** — `FinishStateSync(t, ⟨t,st⟩, ⟨t,st⟩)` on a syncing VM
whose last accepted tip is the end of a parent-linked chain of valid blocks `chain` above the
target `t` (empty chain = target is the tip), all of them in the index: if it succeeds, the VM is
ready, last processed = last accepted, and the last accepted object is verified and accepted with
Output = Accepted = the state obtained by executing `chain` on the synced state `st` (`exec_fold`) —
for any length of `chain`, i.e. however many blocks were accepted while syncing.
Partial: the hypotheses on the state (tip, index contents, processing objects distinct from the
last accepted object) are invariants of `EngineOK` sync histories that are checked by the tie and
the oracle on every run but not derived here from the call history. -/
theorem finish_state_equals_executed_chain_partial (s : State) (t : Blk) (st : List Nat) (chain : List Blk)
    (hready : s.ready = false)
    (htip : (s.obj s.lastAccepted).blk = lastOr t chain)
    (hl : linked t chain = true) (hv : ∀ b ∈ chain, b.invalid = false)
    (hi : ∀ b ∈ chain, s.idx.byHeight b.height = some b)
    (hid : chain ≠ [] → t.id ≠ (lastOr t chain).id)
    (hvb : ∀ id h, s.vb id = some h → h < s.nobj ∧ h ≠ s.lastAccepted)
    (hok : (finish s t st).2 = .ok) :
    (finish s t st).1.ready = true ∧
    (finish s t st).1.lastProcessed = some (finish s t st).1.lastAccepted ∧
    (finish s t st).1.obj (finish s t st).1.lastAccepted =
      ⟨lastOr t chain, true, some ⟨lastOr t chain, st ++ chain.map (·.id)⟩, true,
        some ⟨lastOr t chain, st ++ chain.map (·.id)⟩⟩ := by
  revert hok
  unfold finish
  simp only [hready, Bool.false_eq_true, if_false]
  by_cases hne : chain = []
  · subst hne
    simp only [lastOr] at htip
    simp only [htip, if_true, lastOr, List.map_nil, List.append_nil]
    intro hok
    obtain ⟨a1, a2, a3, a4, _⟩ := finishTail_ok _ (by intro id hc; exact (hvb id _ hc).2 rfl) hok
    refine ⟨a4, by rw [a3, a1], ?_⟩
    rw [a1, a2]
    show (s.setObj s.lastAccepted _).obj s.lastAccepted = _
    simp [htip]
  · have hidne : ¬ t.id = (s.obj s.lastAccepted).blk.id := by rw [htip]; exact hid hne
    simp only [hidne, if_false]
    obtain ⟨ev, he⟩ := reprocess_chain s.idx t st chain hl hv hi hne
    rw [htip, he]
    dsimp only
    intro hok
    obtain ⟨a1, a2, a3, a4, _⟩ := finishTail_ok _ (by intro id hc; exact absurd (hvb id _ hc).1 (Nat.lt_irrefl _)) hok
    refine ⟨a4, by rw [a3, a1], ?_⟩
    rw [a1, a2]
    simp [State.setLastAccepted, State.alloc, State.obj, Map.set]

/-- after a successful `FinishStateSync` the unresolved-blocks checker is registered -/
theorem finish_registers (s : State) (t : Blk) (st : List Nat) (hok : (finish s t st).2 = .ok) :
    ∃ F, (finish s t st).1.unresolved = some F := by
  revert hok
  unfold finish
  split
  · simp
  · dsimp only
    have key : ∀ s0 : State, (finishTail s0).2 = .ok → ∃ F, (finishTail s0).1.unresolved = some F := by
      intro s0
      unfold finishTail
      dsimp only
      generalize (List.foldl reverifyOne _ _) = res
      obtain ⟨s', bad, failed⟩ := res
      cases failed with
      | true => simp
      | false =>
        dsimp only
        split
        · simp
        · intro _; exact ⟨bad, rfl⟩
    split
    · exact key _
    · split
      · simp
      · exact key _

/-- states reached from `s0` by any normal-operation calls and accepter steps -/
inductive After (s0 : State) : State → Prop
  | refl : After s0 s0
  | step {s : State} (op : Op) : After s0 s →
      (match op with | .start _ | .finish _ _ => false | _ => true) = true → After s0 (step s op).1

/-- **unhealthy_until_invalid_rejected** — let `F` be the set registered by `FinishStateSync` (the
processing blocks that failed re-verification).  After any further normal-operation calls (every engine call and accepter step except
another `StartStateSync`/`FinishStateSync`, see `After`), the health check's
unresolved set is exactly `F` minus the ids announced to the pre-rejected subscribers since (i.e.
the blocks of `F` the engine has rejected): it only shrinks, the check reports an error exactly
while some block of `F` has not been rejected, and reports healthy once all have been. -/
theorem unhealthy_until_invalid_rejected (s0 s : State) (F : List Nat) (h0 : s0.unresolved = some F)
    (ha : After s0 s) :
    ∃ ev, s.log = s0.log ++ ev ∧
      s.unresolved = some (F.filter (fun id => id ∉ npr ev)) ∧
      health s = .health s.ready (some (F.filter (fun id => id ∉ npr ev)).length) ∧
      ((F.filter (fun id => id ∉ npr ev)).length = 0 ↔ ∀ id ∈ F, id ∈ npr ev) := by
  induction ha with
  | refl =>
    refine ⟨[], by simp, by simp [npr, h0, filter_true'], by simp [health, npr, h0, filter_true'], ?_⟩
    simp [npr, filter_true']
    constructor
    · intro h; subst h; simp
    · intro h; cases F with
      | nil => rfl
      | cons a r => exact absurd (h a List.mem_cons_self) (by simp)
  | @step s1 op _ hn ih =>
    obtain ⟨ev, l1, u1, _, _⟩ := ih
    obtain ⟨ev2, l2, u2⟩ := (ustep_step s1 op hn).log
    have hu : (step s1 op).1.unresolved = some (F.filter (fun id => id ∉ npr (ev ++ ev2))) := by
      rw [u2, u1]
      simp only [Option.map_some, List.filter_filter, npr_append, List.mem_append, not_or]
      congr 1
      apply List.filter_congr
      intro x _
      simp [Bool.and_comm]
    refine ⟨ev ++ ev2, by rw [l2, l1, List.append_assoc], hu, by simp only [health, hu, Option.map_some], ?_⟩
    simp only [List.length_eq_zero_iff, List.filter_eq_nil_iff]
    constructor
    · intro h id hid; have := h id hid; simpa using this
    · intro h id hid; simpa using h id hid

/-- the engine's `Reject` of a block that is not verified is exactly what resolves it: it is announced
to the pre-rejected subscribers (a verified block goes to the rejected subscribers instead) -/
theorem reject_unverified_resolves (s : State) (h : Nat) (hv : (s.obj h).verified = false) :
    (reject s h).1.log = s.log ++ [.nPreRejected (s.obj h).blk] ∧
    (reject s h).1.unresolved = s.unresolved.map (fun u => u.filter (· ≠ (s.obj h).blk.id)) := by
  simp [reject, hv, State.emit, State.vbDel]

/-- **processing_reverified (partial)** — one iteration of `verifyProcessingBlocks` on processing block
`h` whose parent lookup yields `p`: the block ends verified (with the output of the inner
`VerifyBlock` on the parent's output) exactly when the parent is verified and the block is valid;
otherwise the object is untouched and its id joins the unresolved set.
One iteration only; the whole height-sorted loop is `processing_reverified_loop` below. -/
theorem processing_reverified_partial (s : State) (bad : List Nat) (h : Nat) (p : Obj)
    (hp : s.view (s.getBlock (s.obj h).blk.parent) = some p) :
    (p.verified = true ∧ (s.obj h).blk.invalid = false →
      ((reverifyOne (s, bad, false) h).1.obj h).verified = true ∧
      ((reverifyOne (s, bad, false) h).1.obj h).out = chainVerify p.out (s.obj h).blk ∧
      (reverifyOne (s, bad, false) h).2.1 = bad) ∧
    (¬(p.verified = true ∧ (s.obj h).blk.invalid = false) →
      (reverifyOne (s, bad, false) h).1.obj h = s.obj h ∧
      (reverifyOne (s, bad, false) h).2.1 = bad ++ [(s.obj h).blk.id]) := by
  unfold reverifyOne
  simp only [Bool.false_eq_true, if_false, hp]
  cases hv : p.verified <;> cases hi : (s.obj h).blk.invalid <;> simp [chainVerify, hv, hi]

/-! non-vacuity: a concrete sync history — start at the tip, accept two blocks while syncing, two
processing blocks (one invalid with a valid child), finish BEHIND the tip, then reject the failures -/
def demoOps : List Op :=
  [.start ⟨100, 99, 0, false, none⟩, .parse ⟨101, 100, 1, false, none⟩, .verify 2 none, .accept 2,
   .parse ⟨102, 101, 2, false, none⟩, .verify 3 none, .accept 3,
   .parse ⟨103, 102, 3, true, none⟩, .verify 4 none, .parse ⟨104, 103, 4, false, none⟩, .verify 5 none,
   .finish ⟨100, 99, 0, false, none⟩ [100]]
def demo : Sys := (Sys.init 2 2 0 ⟨100, 99, 0, false, none⟩ true).run demoOps
example : engineOK (Sys.init 2 2 0 ⟨100, 99, 0, false, none⟩ true) demoOps = true := by decide
example : demo.s.ready = true ∧ demo.s.unresolved = some [103, 104] := by decide
example : ((demo.s.obj demo.s.lastAccepted).out.map (·.st)) = some [100, 101, 102] := by decide
example : health ((demo.run [.reject 4, .reject 5]).s) = .health true (some 0) := by decide


/-- **the registered set is the set of failed blocks** — the hand-over step proper (`finishTail`:
set last processed, `verifyProcessingBlocks`, register the health check, ready) registers as
unresolved exactly the ids of the processing blocks that are NOT verified afterwards, provided the
processing objects are distinct and were only vacuously verified (no object verified before the
sync is still processing — `pre.start` requires an empty processing set).  `finish` is `finishTail`
after populating the last accepted object. -/
theorem failed_set_is_unverified_processing (s : State) (hnd : s.processingSorted.Nodup)
    (hu : ∀ h ∈ s.processingSorted, (s.obj h).verified = false) (hok : (finishTail s).2 = .ok) :
    (finishTail s).1.unresolved =
      some ((s.processingSorted.filter (fun h => !((finishTail s).1.obj h).verified)).map (fun h => (s.obj h).blk.id)) :=
  finishTail_failed_set s hnd hu hok

/-- **failed blocks stay failed until decided** — under `EngineOK` no later call or accepter step changes
the `verified` flag of an object the engine holds as processing (it never re-verifies it), so the
blocks of `F` remain unverified — hence their rejection is announced to the pre-rejected
subscribers and resolves them (`reject_unverified_resolves`, `unhealthy_until_invalid_rejected`). -/
theorem failed_blocks_stay_unverified (y : Sys) (op : Op)
    (hn : (match op with | .start _ | .finish _ _ => false | _ => true) = true)
    (hp : pre y.s y.e op = true) (j : Nat) (hj : j ∈ y.e.processing) (hlt : j < y.s.nobj) :
    ((y.step op).s.obj j).verified = (y.s.obj j).verified := by
  show ((step y.s op).1.obj j).verified = _
  apply verified_flag_stable y.s op hn j hlt
  intro c hc
  subst hc
  exact (pre_verify hp).2.1 hj

/-! non-vacuity of `finish_state_equals_executed_chain_partial`: a concrete syncing state with a
non-empty chain above the target (one block accepted while syncing) AND a non-empty `verifiedBlocks`
(an invalid processing child of the tip) satisfies every hypothesis -/
def exT : Blk := ⟨100, 99, 0, false, none⟩
def exB : Blk := ⟨101, 100, 1, false, none⟩
def exC : Blk := ⟨102, 101, 2, true, none⟩
def exS : State :=
  { objs := (Map.empty.set 0 (some { blk := exB })).set 1 (some { blk := exC }), nobj := 2,
    vb := Map.empty.set 102 (some 1), vbKeys := [102],
    idx := ⟨0, (Map.empty.set 0 (some exT)).set 1 (some exB), Map.empty, Map.empty⟩,
    lastAccepted := 0, ready := false }

example :
    (finish exS exT [100]).1.ready = true ∧
    (finish exS exT [100]).1.obj (finish exS exT [100]).1.lastAccepted =
      ⟨exB, true, some ⟨exB, [100, 101]⟩, true, some ⟨exB, [100, 101]⟩⟩ ∧
    (finish exS exT [100]).1.unresolved = some [102] := by
  have h := finish_state_equals_executed_chain_partial exS exT [100] [exB] rfl rfl (by decide)
    (by intro b hb; simp at hb; subst hb; rfl) (by intro b hb; simp at hb; subst hb; rfl)
    (by intro _; decide)
    (by
      intro id h hh
      simp only [exS, Map.set_apply, Map.empty] at hh
      split at hh
      · simp only [Option.some.injEq] at hh; subst hh; exact ⟨by decide, by decide⟩
      · simp at hh)
    (by decide)
  exact ⟨h.1, h.2.2, by decide⟩

/-- **the verdict** — `VM.HealthCheck` returns an error exactly while the VM is not ready or the
unresolved set is non-empty (`errors.Join` of `errVMNotReady` / `errUnresolvedBlocks`) -/
theorem health_error_iff (s : State) :
    (healthErr s).1 = true ↔ (s.ready = false ∨ ∃ u, s.unresolved = some u ∧ u.length > 0) := by
  unfold healthErr
  cases hr : s.ready <;> cases hu : s.unresolved <;> simp

/-- **processing_reverified (whole loop)** — the hand-over step (`finishTail`, i.e. the complete
height-sorted `verifyProcessingBlocks` loop): every still-processing block ends verified **iff** it is
valid and its parent — as `GetBlock` resolves it after the loop: the populated last accepted block,
or another processing block (to which the same equivalence applies, so by induction: iff the block
and all its processing ancestors are valid) — is verified.  Together with
`failed_set_is_unverified_processing` the registered unresolved set is exactly the complement.
Hypotheses on the pre-state (not derived from the call history, hence still listed as partial):
the processing objects are distinct, were only vacuously verified, and a processing parent is lower
than its child (`pre.verify` enforces height = parent height + 1). -/
theorem processing_reverified_loop (s : State) (hnd : s.processingSorted.Nodup)
    (hu : ∀ h ∈ s.processingSorted, (s.obj h).verified = false)
    (hph : ∀ h ∈ s.processingSorted, ∀ j ∈ s.processingSorted,
      s.getBlock (s.obj h).blk.parent = .obj j → (s.obj j).blk.height < (s.obj h).blk.height)
    (hok : (finishTail s).2 = .ok) :
    ∀ h ∈ s.processingSorted, (((finishTail s).1.obj h).verified = true ↔
      ((s.obj h).blk.invalid = false ∧
        ∃ p, (finishTail s).1.view ((finishTail s).1.getBlock (s.obj h).blk.parent) = some p ∧ p.verified = true)) :=
  finishTail_reverified s hnd hu hph hok

/-! ### Known finding: finish between the rejects of one transitive rejection

`Reject` does not take `chainLock`, so `FinishStateSync` (called from the state-sync client's
goroutine) may run after the engine rejected a block `A` and before it rejects `A`'s child `B`.
`verifyProcessingBlocks` then cannot fetch `B`'s parent and returns a fatal error: the VM never
becomes ready.  The call sequence below satisfies `EngineOK` call by call. -/
def cexOps : List Op :=
  [.start ⟨100, 99, 0, false, none⟩, .parse ⟨101, 100, 1, false, none⟩, .verify 2 none, .parse ⟨102, 101, 2, false, none⟩, .verify 3 none,
   .parse ⟨103, 100, 1, false, none⟩, .verify 4 none, .accept 4, .reject 2]
def cex : Sys := (Sys.init 2 2 0 ⟨100, 99, 0, false, none⟩ true).run cexOps

/-- **c21_counterexample** — an `EngineOK` history on which `FinishStateSync` at the tip fails fatally
and the VM stays not ready (negation of "whenever sync finishes the node ends ready with the executed
state" for this interleaving). -/
theorem c21_counterexample :
    engineOK (Sys.init 2 2 0 ⟨100, 99, 0, false, none⟩ true) (cexOps ++ [.finish ⟨103, 100, 1, false, none⟩ [103]]) = true ∧
    (step cex.s (.finish ⟨103, 100, 1, false, none⟩ [103])).2 = .err "parentfetch" ∧
    (step cex.s (.finish ⟨103, 100, 1, false, none⟩ [103])).1.ready = false := by decide

end HyperModel.Props.C21
