import HyperModel.Model.API
/-!
# C30 Read-only action APIs agree with on-chain execution

For *any* actions (programs over the state interface), actor-instantiated declared keys, any
state and any fee deduction:

* `onchain_eq_execute_postfee` — the outputs of `Transaction.Execute` are the outputs of
  `ExecuteActions` on the state *after the fee was deducted* (for actions that stay inside
  their own declared keys, i.e. the API reply is not a permission error — property C05);
* `execute_outputs_eq_onchain_partial` — the property under the reading adopted in DESIGN: if the
  fee deduction only changes keys on which no action holds any permission (the actions do not
  read the sponsor's fee key), the API outputs on the *same* state equal the on-chain outputs;
* `strict_reading_counterexample` — the strict reading fails on the unchanged code for the
  reference VM's `Transfer` (actor = sponsor, output reports the sender balance):
  known finding `output-reports-sponsor-balance-after-fee`;
* `simulated_keys_sufficient` — running each action under exactly the key set reported by
  `SimulateActions` (or any larger scope, e.g. a transaction declaring them) reproduces the
  simulated outputs.
-/
namespace HyperModel.Props.C30
open HyperModel.API

/-! ### permissions -/

theorem has_or_left (p q r : Perm) (h : p.has r = true) : (p.or q).has r = true := by
  rcases p with ⟨a, b, c⟩; rcases q with ⟨d, e, f⟩; rcases r with ⟨g, i, j⟩
  revert h; cases a <;> cases b <;> cases c <;> cases d <;> cases e <;> cases f <;>
    cases g <;> cases i <;> cases j <;> simp [Perm.has, Perm.or]

theorem has_or_right (p q r : Perm) (h : q.has r = true) : (p.or q).has r = true := by
  rcases p with ⟨a, b, c⟩; rcases q with ⟨d, e, f⟩; rcases r with ⟨g, i, j⟩
  revert h; cases a <;> cases b <;> cases c <;> cases d <;> cases e <;> cases f <;>
    cases g <;> cases i <;> cases j <;> simp [Perm.has, Perm.or]

theorem has_or_self (p r : Perm) : (p.or r).has r = true := by
  rcases p with ⟨a, b, c⟩; rcases r with ⟨g, i, j⟩
  cases a <;> cases b <;> cases c <;> cases g <;> cases i <;> cases j <;> simp [Perm.has, Perm.or]

theorem Scope.le_refl (a : Scope) : Scope.le a a := fun _ _ h => h

theorem Scope.le_trans {a b c : Scope} (h1 : Scope.le a b) (h2 : Scope.le b c) : Scope.le a c :=
  fun k p h => h2 k p (h1 k p h)

theorem le_add (sc : Scope) (k : Key) (p : Perm) : Scope.le sc (sc.add k p) := by
  intro j q h
  unfold Scope.add
  split
  · exact has_or_left _ _ _ h
  · exact h

theorem add_has (sc : Scope) (k : Key) (p : Perm) : ((sc.add k p) k).has p = true := by
  simp [Scope.add, has_or_self]

/-! ### a larger scope never changes a run that stayed within the smaller one -/

theorem run_mono {sc sc' : Scope} (hle : Scope.le sc sc') :
    ∀ (p : Prog) (s : State), (run sc p s).1 ≠ .perm → run sc' p s = run sc p s := by
  intro p
  induction p with
  | ret o => intro s _; rfl
  | fail e => intro s _; rfl
  | get k c ih =>
    intro s h
    simp only [run] at h ⊢
    by_cases hr : (sc k).has Perm.read = true
    · rw [if_pos hr] at h ⊢; rw [if_pos (hle k _ hr)]; exact ih _ s h
    · rw [if_neg hr] at h; exact absurd rfl h
  | put k v c ih =>
    intro s h
    simp only [run] at h ⊢
    by_cases hw : (sc k).has Perm.write = true
    · have hw' := hle k _ hw
      simp only [hw, hw', Bool.not_true, Bool.false_eq_true, if_false] at h ⊢
      cases hs : s k with
      | some old => simp only [hs] at h ⊢; exact ih _ h
      | none =>
        simp only [hs] at h ⊢
        by_cases ha : (sc k).has Perm.allocate = true
        · rw [if_pos ha] at h ⊢; rw [if_pos (hle k _ ha)]; exact ih _ h
        · rw [if_neg ha] at h; exact absurd rfl h
    · simp [hw] at h
  | del k c ih =>
    intro s h
    simp only [run] at h ⊢
    by_cases hw : (sc k).has Perm.write = true
    · have hw' := hle k _ hw
      simp only [hw, hw', Bool.not_true, Bool.false_eq_true, if_false] at h ⊢
      exact ih _ h
    · simp [hw] at h

/-- the transaction loop (one view, scope ⊇ every action's keys) equals the API loop (one view
per action, own keys) unless the API reports a permission error -/
theorem txLoop_eq_execute (sc : Scope) :
    ∀ (acts : List Action) (s : State), (∀ a ∈ acts, Scope.le a.keys sc) →
      (executeActions s acts).2 ≠ some .perm → txLoop sc s acts = executeActions s acts := by
  intro acts
  induction acts with
  | nil => intro s _ _; rfl
  | cons a rest ih =>
    intro s hle h
    have hle_a := hle a (List.mem_cons_self ..)
    have hle_r : ∀ b ∈ rest, Scope.le b.keys sc := fun b hb => hle b (List.mem_cons_of_mem _ hb)
    simp only [executeActions, txLoop] at h ⊢
    cases hr : run a.keys a.prog s with
    | mk r s' =>
      rw [hr] at h
      have hnp : (run a.keys a.prog s).1 ≠ .perm := by
        rw [hr]; intro hp; simp only at hp; subst hp; simp at h
      rw [run_mono hle_a a.prog s hnp, hr]
      cases r with
      | ok o =>
        simp only at h ⊢
        rw [ih s' hle_r (by simpa using h)]
      | err e => rfl
      | perm => rfl

theorem foldl_or_has_acc (k : Key) (p : Perm) :
    ∀ (l : List Action) (acc : Perm), acc.has p = true →
      (l.foldl (fun q a => q.or (a.keys k)) acc).has p = true := by
  intro l
  induction l with
  | nil => intro acc h; exact h
  | cons a r ih => intro acc h; exact ih _ (has_or_left _ _ _ h)

theorem foldl_or_has_mem (k : Key) (p : Perm) :
    ∀ (l : List Action) (acc : Perm) (a : Action), a ∈ l → (a.keys k).has p = true →
      (l.foldl (fun q a => q.or (a.keys k)) acc).has p = true := by
  intro l
  induction l with
  | nil => intro _ _ h; cases h
  | cons b r ih =>
    intro acc a hm h
    rcases List.mem_cons.mp hm with rfl | hm
    · exact foldl_or_has_acc k p r _ (has_or_right _ _ _ h)
    · exact ih _ a hm h

/-- `Transaction.StateKeys` covers every action's declared keys -/
theorem le_txScope (acts : List Action) (sponsor : Scope) (a : Action) (ha : a ∈ acts) :
    Scope.le a.keys (txScope acts sponsor) :=
  fun k p h => has_or_left _ _ _ (foldl_or_has_mem k p acts _ a ha h)

/-- **on-chain = API on the post-fee state.** -/
theorem onchain_eq_execute_postfee (deduct : State → Option State) (sponsor : Scope) (s : State)
    (acts : List Action)
    (hscoped : ∀ s', deduct s = some s' → (executeActions s' acts).2 ≠ some .perm) :
    onchain deduct sponsor s acts = (deduct s).map fun s' => executeActions s' acts := by
  unfold onchain
  cases hd : deduct s with
  | none => rfl
  | some s' =>
    simp only [Option.map_some]
    rw [txLoop_eq_execute _ acts s' (fun a ha => le_txScope acts sponsor a ha) (hscoped s' hd)]

/-! ### states that differ only on keys no action may touch -/

def Agree (F : Key → Prop) (s s' : State) : Prop := ∀ k, ¬ F k → s k = s' k

theorem agree_upd {F : Key → Prop} {s s' : State} (h : Agree F s s') (k : Key) (v : Option Val) :
    Agree F (upd s k v) (upd s' k v) := by
  intro j hj; unfold upd; split
  · rfl
  · exact h j hj

theorem none_has_read : Perm.none.has Perm.read = false := by decide
theorem none_has_write : Perm.none.has Perm.write = false := by decide

theorem run_agree {F : Key → Prop} (sc : Scope) (hF : ∀ k, F k → sc k = Perm.none) :
    ∀ (p : Prog) (s s' : State), Agree F s s' →
      (run sc p s).1 = (run sc p s').1 ∧ Agree F (run sc p s).2 (run sc p s').2 := by
  intro p
  induction p with
  | ret o => intro s s' h; exact ⟨rfl, h⟩
  | fail e => intro s s' h; exact ⟨rfl, h⟩
  | get k c ih =>
    intro s s' h
    simp only [run]
    by_cases hr : (sc k).has Perm.read = true
    · have hk : ¬ F k := fun hf => by rw [hF k hf, none_has_read] at hr; cases hr
      rw [if_pos hr, if_pos hr, h k hk]; exact ih _ s s' h
    · rw [if_neg hr, if_neg hr]; exact ⟨rfl, h⟩
  | put k v c ih =>
    intro s s' h
    simp only [run]
    by_cases hw : (sc k).has Perm.write = true
    · have hk : ¬ F k := fun hf => by rw [hF k hf, none_has_write] at hw; cases hw
      simp only [hw, Bool.not_true, Bool.false_eq_true, if_false]
      rw [← h k hk]
      cases s k with
      | some old => exact ih _ _ (agree_upd h k _)
      | none =>
        simp only
        by_cases ha : (sc k).has Perm.allocate = true
        · rw [if_pos ha, if_pos ha]; exact ih _ _ (agree_upd h k _)
        · rw [if_neg ha, if_neg ha]; exact ⟨rfl, h⟩
    · simp only [hw, Bool.not_false, if_true]; exact ⟨trivial, h⟩
  | del k c ih =>
    intro s s' h
    simp only [run]
    by_cases hw : (sc k).has Perm.write = true
    · simp only [hw, Bool.not_true, Bool.false_eq_true, if_false]
      exact ih _ _ (agree_upd h k _)
    · simp only [hw, Bool.not_false, if_true]; exact ⟨trivial, h⟩

theorem execute_agree {F : Key → Prop} :
    ∀ (acts : List Action), (∀ a ∈ acts, ∀ k, F k → a.keys k = Perm.none) →
      ∀ (s s' : State), Agree F s s' → executeActions s acts = executeActions s' acts := by
  intro acts
  induction acts with
  | nil => intro _ s s' _; rfl
  | cons a rest ih =>
    intro hF s s' h
    have := run_agree a.keys (hF a (List.mem_cons_self ..)) a.prog s s' h
    simp only [executeActions]
    cases h1 : run a.keys a.prog s with
    | mk r t =>
      cases h2 : run a.keys a.prog s' with
      | mk r' t' =>
        rw [h1, h2] at this
        obtain ⟨hr, ht⟩ := this
        simp only at hr ht
        subst hr
        cases r with
        | ok o =>
          simp only
          rw [ih (fun b hb => hF b (List.mem_cons_of_mem _ hb)) t t' ht]
        | err e => rfl
        | perm => rfl

/-- **execute_outputs_eq_onchain_partial** (PARTIAL w.r.t. the statement read strictly — it
holds only when the fee key is not touched; reading adopted in DESIGN §5 C30): when the fee deduction
changes only keys `F` on which no action holds a permission, and the actions stay within their
own declared keys, the outputs of `ExecuteActions` on the current state are exactly the
outputs of `Transaction.Execute` on that state. -/
theorem execute_outputs_eq_onchain_partial (deduct : State → Option State) (sponsor : Scope) (s s' : State)
    (acts : List Action) (F : Key → Prop)
    (hfee : deduct s = some s') (hagree : Agree F s s')
    (hnofee : ∀ a ∈ acts, ∀ k, F k → a.keys k = Perm.none)
    (hscoped : (executeActions s acts).2 ≠ some .perm) :
    onchain deduct sponsor s acts = some (executeActions s acts) := by
  have e := execute_agree acts hnofee s s' hagree
  rw [onchain_eq_execute_postfee deduct sponsor s acts
    (fun t ht => by rw [hfee] at ht; cases ht; rw [← e]; exact hscoped), hfee, e]
  rfl

/-! ### the strict reading fails on the reference VM (known finding) -/

def cexState : State := fun k => if k = 0 then some 100 else none

/-- balance 100, `Transfer{to 1, value 10}`, fee 7, actor = sponsor = account 0: the API reports
sender balance 90, the transaction reports 83. -/
theorem strict_reading_counterexample :
    executeActions cexState [transfer 0 1 10] = ([[90, 10]], none) ∧
    onchain (deductFee 0 7) (sponsorKeys 0) cexState [transfer 0 1 10] = some ([[83, 10]], none) := by
  constructor <;> decide

/-- with a zero fee they agree on this witness -/
example : onchain (deductFee 0 0) (sponsorKeys 0) cexState [transfer 0 1 10]
    = some (executeActions cexState [transfer 0 1 10]) := by decide

/-! ### simulation -/

theorem runRec_sound :
    ∀ (p : Prog) (s : State) (rc : Scope) (res : Res) (s1 : State) (rc' : Scope),
      runRec p s rc = (res, s1, rc') →
        Scope.le rc rc' ∧ ∀ sc, Scope.le rc' sc → run sc p s = (res, s1) := by
  intro p
  induction p with
  | ret o =>
    intro s rc res s1 rc' h
    simp only [runRec, Prod.mk.injEq] at h
    obtain ⟨rfl, rfl, rfl⟩ := h
    exact ⟨Scope.le_refl _, fun _ _ => rfl⟩
  | fail e =>
    intro s rc res s1 rc' h
    simp only [runRec, Prod.mk.injEq] at h
    obtain ⟨rfl, rfl, rfl⟩ := h
    exact ⟨Scope.le_refl _, fun _ _ => rfl⟩
  | get k c ih =>
    intro s rc res s1 rc' h
    simp only [runRec] at h
    obtain ⟨h1, h2⟩ := ih _ _ _ _ _ _ h
    refine ⟨Scope.le_trans (le_add _ _ _) h1, fun sc hsc => ?_⟩
    have : (sc k).has Perm.read = true := hsc k _ (h1 k _ (add_has _ _ _))
    simp only [run, this, if_true]
    exact h2 sc hsc
  | put k v c ih =>
    intro s rc res s1 rc' h
    simp only [runRec] at h
    cases hs : s k with
    | some old =>
      simp only [hs] at h
      obtain ⟨h1, h2⟩ := ih _ _ _ _ _ h
      refine ⟨Scope.le_trans (le_add _ _ _) h1, fun sc hsc => ?_⟩
      have : (sc k).has Perm.write = true := hsc k _ (h1 k _ (add_has _ _ _))
      simp only [run, this, hs, Bool.not_true, Bool.false_eq_true, if_false]
      exact h2 sc hsc
    | none =>
      simp only [hs] at h
      obtain ⟨h1, h2⟩ := ih _ _ _ _ _ h
      refine ⟨Scope.le_trans (Scope.le_trans (le_add _ _ _) (le_add _ _ _)) h1, fun sc hsc => ?_⟩
      have hw : (sc k).has Perm.write = true :=
        hsc k _ (h1 k _ (le_add _ _ _ k _ (add_has _ _ _)))
      have ha : (sc k).has Perm.allocate = true := hsc k _ (h1 k _ (add_has _ _ _))
      simp only [run, hw, ha, hs, Bool.not_true, Bool.false_eq_true, if_false, if_true]
      exact h2 sc hsc
  | del k c ih =>
    intro s rc res s1 rc' h
    simp only [runRec] at h
    obtain ⟨h1, h2⟩ := ih _ _ _ _ _ h
    refine ⟨Scope.le_trans (le_add _ _ _) h1, fun sc hsc => ?_⟩
    have : (sc k).has Perm.write = true := hsc k _ (h1 k _ (add_has _ _ _))
    simp only [run, this, Bool.not_true, Bool.false_eq_true, if_false]
    exact h2 sc hsc

/-- the actions of a simulation, each declared with (at least) its reported key set -/
inductive Declares : List Prog → List (Out × Scope) → List Action → Prop
  | nil : Declares [] [] []
  | cons {p ps o rc rs a as} : a.prog = p → Scope.le rc a.keys → Declares ps rs as →
      Declares (p :: ps) ((o, rc) :: rs) (a :: as)

/-- **simulated_keys_sufficient**: if `SimulateActions` succeeds with results `rs`, then the same
programs, each declared with any key set that includes the one reported for it, execute
without error and with exactly the simulated outputs. -/
theorem simulated_keys_sufficient :
    ∀ (progs : List Prog) (s : State) (rs : List (Out × Scope)) (acts : List Action),
      simulateActions s progs = some rs → Declares progs rs acts →
        executeActions s acts = (rs.map (·.1), none) := by
  intro progs
  induction progs with
  | nil =>
    intro s rs acts h hd
    simp only [simulateActions, Option.some.injEq] at h
    subst h; cases hd; rfl
  | cons p ps ih =>
    intro s rs acts h hd
    simp only [simulateActions] at h
    cases hr : runRec p s Scope.empty with
    | mk res rest =>
      obtain ⟨s', rc⟩ := rest
      rw [hr] at h
      cases res with
      | ok o =>
        simp only at h
        cases hsim : simulateActions s' ps with
        | none => rw [hsim] at h; cases h
        | some rs' =>
          rw [hsim] at h
          simp only [Option.map_some, Option.some.injEq] at h
          subst h
          cases hd with
          | cons hp hle hrest =>
            rename_i a as
            obtain ⟨_, hrun⟩ := runRec_sound p s _ _ _ _ hr
            simp only [executeActions, hp, hrun a.keys hle, ih s' rs' as hsim hrest, List.map_cons]
      | err e => cases h
      | perm => cases h

/-- PARTIAL (same post-fee dependence: the simulation must be taken on the state *after* the fee
deduction, `s'`, not on the state the API sees): a transaction that declares them reproduces the simulated outputs on the
post-fee state (combine with `execute_outputs_eq_onchain_partial` for the same state). -/
theorem simulated_keys_sufficient_onchain_partial (deduct : State → Option State) (sponsor : Scope)
    (s s' : State) (progs : List Prog) (rs : List (Out × Scope)) (acts : List Action)
    (hfee : deduct s = some s') (hsim : simulateActions s' progs = some rs)
    (hd : Declares progs rs acts) :
    onchain deduct sponsor s acts = some (rs.map (·.1), none) := by
  have he := simulated_keys_sufficient progs s' rs acts hsim hd
  rw [onchain_eq_execute_postfee deduct sponsor s acts
    (fun t ht => by rw [hfee] at ht; cases ht; rw [he]; simp), hfee]
  simp [he]

/-! ### admission limits -/

/-- `SimulateActions` has no action limit: a list above `MaxActionsPerTx` simulates exactly like
any other list, while `ExecuteActions` refuses it and a transaction with it is never executed.
Such lists are outside the property's quantifier; recorded as a note, probed by the tie. -/
theorem simulate_above_limit (deduct : State → Option State) (sponsor : Scope) (s : State)
    (acts : List Action) (h : acts.length > maxActions) :
    executeActionsRPC s acts = none ∧ (∃ r, onchainTx deduct sponsor s acts = r ∧ r matches .tooMany) ∧
      simulateActionsRPC s (acts.map (·.prog)) = simulateActions s (acts.map (·.prog)) := by
  refine ⟨by simp [executeActionsRPC, h], ⟨_, rfl, by simp [onchainTx, h]⟩, ?_⟩
  have : (acts.map (·.prog)).isEmpty = false := by
    cases acts with
    | nil => simp at h
    | cons a r => rfl
  simp [simulateActionsRPC, this]

/-- within the limit the entry points are the plain functions the theorems above speak about -/
theorem within_limit (deduct : State → Option State) (sponsor : Scope) (s : State)
    (acts : List Action) (h0 : acts ≠ []) (h : acts.length ≤ maxActions) :
    executeActionsRPC s acts = some (executeActions s acts) ∧
      (∀ r, onchain deduct sponsor s acts = some r → (onchainTx deduct sponsor s acts matches .executed _)) := by
  refine ⟨?_, ?_⟩
  · have : acts.isEmpty = false := by cases acts with | nil => exact absurd rfl h0 | cons _ _ => rfl
    simp [executeActionsRPC, this, Nat.not_lt.mpr h]
  · intro r hr
    simp [onchainTx, Nat.not_lt.mpr h, hr]

/-! ### non-vacuity -/

example : simulateActions cexState [transferProg 0 1 10] ≠ none := by decide
example : (executeActions cexState [transfer 0 1 10]).2 ≠ some .perm := by decide

end HyperModel.Props.C30
