import HyperModel.Proofs.BlockCtx
import HyperModel.Props.C27
/-!
# C11 Verified blocks extend their parent correctly

Model: `HyperModel/Model/BlockCtx.lean` (`execute` transcribes `Processor.Execute` with
`createBlockContext`, `writeBlockContext`, `verifyParentRoot`; `buildHeader` the builder's
timestamp logic; `genesisView` / `genesisBlock` what `NewGenesisCommit` produces).

Result: the four header conditions hold exactly, *against the parent state*
(`verify_iff`); the state written by a verified block equals its header
(`state_matches_header`), hence against the parent *header* for every non-genesis parent
(`child_extends_parent_header`) and timestamps are monotone from height 1 up
(`timestamps_monotone_partial`). Against the *genesis header* the timestamp condition fails
in the unchanged code (`c11_counterexample`): the genesis state timestamp is 0, the genesis
header timestamp is 2023-01-01.
-/
namespace HyperModel.Props.C11
open HyperModel.BlockCtx HyperModel.Genesis HyperModel.Proofs.Genesis HyperModel.Proofs.BlockCtx
open HyperModel.Generated.C11

/-- **C11 (decision logic)** — `Processor.Execute` accepts a block iff (exact conjunction):
the parent state's height/timestamp parse and its fee entry exists; `height = parentHeight+1`
(in `uint64`); `timestamp ≤ now + FutureBound`; `timestamp ≥ parentStateTimestamp +
MinBlockGap` and, for an empty block, `≥ parentStateTimestamp + MinEmptyBlockGap` (in `int64`,
rules taken at the block's timestamp); `StateRoot` = the parent view's root; replay
protection, transaction execution and signatures succeed. The resulting view is `postView`. -/
theorem verify_iff (env : Env) (p : View) (b : Block) :
    (∃ v, execute env p b = .ok v) ↔ Verifies env p b := by
  constructor
  · rintro ⟨v, h⟩
    have := execute_ok_view env p b v h
    subst this
    exact (execute_ok_iff env p b).mp h
  · intro h
    exact ⟨_, (execute_ok_iff env p b).mpr h⟩

/-- the same without machine-integer wrap-around: if parent height + 1 and parent timestamp +
gaps are representable, acceptance implies the four conditions as the property words them
(against the parent *state* `ph`, `pt`). -/
theorem verify_natural (env : Env) (p : View) (b : Block) (ph pt : Nat)
    (hph : p.heightRaw.bind parseU64 = some ph) (hpt : p.tsRaw.bind parseU64 = some pt)
    (hh : ph + 1 < 18446744073709551616)
    (hg : InI64 (toI64 pt + (env.rules b.ts).minBlockGap))
    (he : InI64 (toI64 pt + (env.rules b.ts).minEmptyBlockGap))
    (hok : ∃ v, execute env p b = .ok v) :
    b.height = ph + 1 ∧
    toI64 pt + (env.rules b.ts).minBlockGap ≤ b.ts ∧
    (b.numTxs = 0 → toI64 pt + (env.rules b.ts).minEmptyBlockGap ≤ b.ts) ∧
    b.ts ≤ env.now + (futureBoundMs : Int) ∧
    b.stateRoot = p.root := by
  obtain ⟨ph', pt', h1, h2, _, h4, h5, h6, h7, h8, _⟩ := (verify_iff env p b).mp hok
  rw [hph] at h1; rw [hpt] at h2
  injection h1 with h1; injection h2 with h2
  subst h1; subst h2
  unfold addI64 at h6 h7
  rw [wrapI64_id _ hg] at h6
  rw [wrapI64_id _ he] at h7
  refine ⟨by omega, by omega, fun h0 => by have := h7 h0; omega, by omega, h8⟩

/-! ### verified chains -/

/-- one verified block: the verifying node's environment, the block, the resulting view -/
structure Step where
  env : Env
  block : Block
  view : View

/-- blocks verified one after another, each on the view its predecessor produced -/
inductive Chain : View → List Step → Prop
  | nil (v : View) : Chain v []
  | cons {v : View} {s : Step} {rest : List Step} :
      execute s.env v s.block = .ok s.view → Chain s.view rest → Chain v (s :: rest)

/-- the state written by `s` carries exactly `s`'s header height and timestamp -/
def StateMatchesHeader (s : Step) : Prop :=
  s.view.heightRaw.bind parseU64 = some s.block.height ∧
  (s.view.tsRaw.bind parseU64).map toI64 = some s.block.ts

theorem step_matches (env : Env) (p v : View) (b : Block) (hwf : b.WF)
    (h : execute env p b = .ok v) : StateMatchesHeader ⟨env, b, v⟩ := by
  have := execute_ok_view env p b v h
  subst this
  refine ⟨parse_postView_height env b hwf, ?_⟩
  simp only [parse_postView_ts, Option.map_some, toI64_toU64 _ hwf.2]

/-- **C11 (invariant)** — along every verified chain, from any starting view (the genesis view
included), the state after each verified block holds that block's header height and
timestamp. -/
theorem state_matches_header (v0 : View) (l : List Step) (hc : Chain v0 l)
    (hwf : ∀ s ∈ l, s.block.WF) : ∀ s ∈ l, StateMatchesHeader s := by
  induction hc with
  | nil v => intro s hs; cases hs
  | cons hex _ ih =>
    intro s hs
    rcases List.mem_cons.mp hs with rfl | hs
    · exact step_matches _ _ _ _ (hwf _ (by simp)) hex
    · exact ih (fun s hs => hwf s (by simp [hs])) s hs

def Adjacent (R : Step → Step → Prop) : List Step → Prop
  | s1 :: s2 :: rest => R s1 s2 ∧ Adjacent R (s2 :: rest)
  | _ => True

/-- the property's four conditions, child `c` against the parent block `p`'s *header* -/
def Extends (p c : Step) : Prop :=
  c.block.height = (p.block.height + 1) % 18446744073709551616 ∧
  ¬ c.block.ts < addI64 p.block.ts (c.env.rules c.block.ts).minBlockGap ∧
  (c.block.numTxs = 0 →
    ¬ c.block.ts < addI64 p.block.ts (c.env.rules c.block.ts).minEmptyBlockGap) ∧
  c.block.ts ≤ c.env.now + (futureBoundMs : Int) ∧
  c.block.stateRoot = p.view.root

/-- **C11 (statement, every non-genesis parent)** — in a verified chain every block extends
its predecessor's *header*: height + 1, timestamp ≥ parent header timestamp + gap (empty-block
gap when it has no transactions), within the future bound, and its `StateRoot` is the parent's
post-state root. (For the first block of a chain the parent is the starting view — the
genesis case, see `c11_counterexample`.) -/
theorem child_extends_parent_header (v0 : View) (l : List Step) (hc : Chain v0 l)
    (hwf : ∀ s ∈ l, s.block.WF) : Adjacent Extends l := by
  induction hc with
  | nil v => trivial
  | @cons v s rest hex hrest ih =>
    cases hrest with
    | nil => trivial
    | @cons _ s2 rest2 hex2 hrest2 =>
      refine ⟨?_, ih (fun s hs => hwf s (by simp [hs]))⟩
      have hm := step_matches _ _ _ _ (hwf s (by simp)) hex
      obtain ⟨ph, pt, h1, h2, _, h4, h5, h6, h7, h8, _⟩ :=
        (verify_iff s2.env s.view s2.block).mp ⟨_, hex2⟩
      rw [hm.1] at h1
      injection h1 with h1
      have hts : toI64 pt = s.block.ts := by
        have := hm.2; rw [h2] at this; simpa using this
      subst h1
      rw [hts] at h6 h7
      exact ⟨h4, h6, h7, by omega, h8⟩

/-- the four conditions in ordinary arithmetic, child `c` against the parent block `p`'s header -/
def ExtendsNat (p c : Step) : Prop :=
  c.block.height = p.block.height + 1 ∧
  p.block.ts + (c.env.rules c.block.ts).minBlockGap ≤ c.block.ts ∧
  (c.block.numTxs = 0 → p.block.ts + (c.env.rules c.block.ts).minEmptyBlockGap ≤ c.block.ts) ∧
  c.block.ts ≤ c.env.now + (futureBoundMs : Int) ∧
  c.block.stateRoot = p.view.root

/-- machine-integer side conditions under which the wrapped comparisons are the ordinary ones:
parent height + 1 is a `uint64`, parent header timestamp + either gap is an `int64` -/
def NoWrap (p c : Step) : Prop :=
  p.block.height + 1 < 18446744073709551616 ∧
  InI64 (p.block.ts + (c.env.rules c.block.ts).minBlockGap) ∧
  InI64 (p.block.ts + (c.env.rules c.block.ts).minEmptyBlockGap)

theorem extends_nat_of_extends (p c : Step) (h : Extends p c) (hn : NoWrap p c) : ExtendsNat p c := by
  obtain ⟨h1, h2, h3, h4, h5⟩ := h
  obtain ⟨n1, n2, n3⟩ := hn
  unfold addI64 at h2 h3
  rw [wrapI64_id _ n2] at h2
  rw [wrapI64_id _ n3] at h3
  exact ⟨by omega, by omega, fun h0 => by have := h3 h0; omega, h4, h5⟩

theorem adjacent_imp {R S : Step → Step → Prop} {T : Step → Step → Prop} :
    ∀ (l : List Step), Adjacent R l → Adjacent T l → (∀ a b, R a b → T a b → S a b) →
      Adjacent S l
  | [], _, _, _ => trivial
  | [_], _, _, _ => trivial
  | a :: b :: rest, hR, hT, h =>
    ⟨h a b hR.1 hT.1, adjacent_imp (b :: rest) hR.2 hT.2 h⟩

/-- **C11 (statement in ordinary arithmetic, every non-genesis parent)** — in a verified chain
whose consecutive headers do not hit the machine-integer limits (`NoWrap`: height below
`2^64 − 1`, parent header timestamp + gap within `int64` — e.g. any chain whose verifiers'
clocks are below `2^62` ms and whose gaps are below `2^62`), every block satisfies, against its
predecessor's *header*: `height = parent height + 1`, `timestamp ≥ parent timestamp +
MinBlockGap`, `timestamp ≥ parent timestamp + MinEmptyBlockGap` when it has no transactions,
`timestamp ≤ now + FutureBound`, `StateRoot` = parent post-state root. -/
theorem child_extends_parent_header_natural (v0 : View) (l : List Step) (hc : Chain v0 l)
    (hwf : ∀ s ∈ l, s.block.WF) (hnw : Adjacent NoWrap l) : Adjacent ExtendsNat l :=
  adjacent_imp l (child_extends_parent_header v0 l hc hwf) hnw extends_nat_of_extends

/-- every block of a verified chain passed the future-bound check -/
theorem chain_not_late (v0 : View) (l : List Step) (hc : Chain v0 l) :
    ∀ s ∈ l, s.block.ts ≤ s.env.now + (futureBoundMs : Int) := by
  induction hc with
  | nil v => intro s hs; cases hs
  | @cons v s rest hex _ ih =>
    intro s' hs
    rcases List.mem_cons.mp hs with rfl | hs
    · obtain ⟨_, _, _, _, _, _, h5, _⟩ := (verify_iff _ _ _).mp ⟨_, hex⟩
      omega
    · exact ih s' hs

/-
Full statement of the last sentence of the property ("block timestamps never decrease along
a verified chain, starting from genesis"):

  theorem timestamps_monotone (fee root) (l) (hc : Chain (genesisView fee root) l) … :
      Adjacent (fun a b => a.block.ts ≤ b.block.ts) (⟨_, genesisBlock root, genesisView fee root⟩ :: l)

It is FALSE for the unchanged code (`c11_counterexample`): the first link, genesis header →
block 1, is not enforced. What is proved is the same statement from height 1 up.
-/

/-- **C11 (monotone timestamps, partial: from the first verified block on)** — along every
verified chain, under non-negative gaps and no `int64` overflow of `timestamp + gap` (implied
by every verifier's clock plus future bound plus gap being below `2^63`), block timestamps
never decrease; and the first block after the genesis *state* has timestamp ≥ its gap ≥ 0.
Missing for the full statement: the link genesis header → first block. -/
theorem timestamps_monotone_partial (v0 : View) (l : List Step) (hc : Chain v0 l)
    (hwf : ∀ s ∈ l, s.block.WF)
    (hgap : ∀ s ∈ l, 0 ≤ (s.env.rules s.block.ts).minBlockGap ∧
      (s.env.rules s.block.ts).minBlockGap < two63)
    (hno : ∀ s1 ∈ l, ∀ s2 ∈ l,
      s1.env.now + (futureBoundMs : Int) + (s2.env.rules s2.block.ts).minBlockGap < two63) :
    Adjacent (fun a b => a.block.ts ≤ b.block.ts) l ∧
    (∀ fee root, v0 = genesisView fee root → ∀ s, l.head? = some s →
      0 ≤ s.block.ts ∧ (s.env.rules s.block.ts).minBlockGap ≤ s.block.ts) := by
  have hext := child_extends_parent_header v0 l hc hwf
  have hlate := chain_not_late v0 l hc
  constructor
  · clear hc
    induction l with
    | nil => trivial
    | cons s1 rest ih =>
      cases rest with
      | nil => trivial
      | cons s2 rest2 =>
        obtain ⟨⟨_, h2, _⟩, hrest⟩ := hext
        refine ⟨?_, ih (fun s hs => hwf s (by simp [hs])) (fun s hs => hgap s (by simp [hs]))
          (fun a ha b hb => hno a (by simp [ha]) b (by simp [hb])) hrest
          (fun s hs => hlate s (by simp [hs]))⟩
        have hl1 := hlate s1 (by simp)
        have hg2 := (hgap s2 (by simp)).1
        have hn := hno s1 (by simp) s2 (by simp)
        have hw1 := (hwf s1 (by simp)).2
        have hin : InI64 (s1.block.ts + (s2.env.rules s2.block.ts).minBlockGap) := by
          simp only [InI64, two63] at *
          omega
        unfold addI64 at h2
        rw [wrapI64_id _ hin] at h2
        omega
  · intro fee root hv0 s hs
    cases hc with
    | nil => cases hs
    | @cons _ s' rest hex _ =>
      simp only [List.head?_cons, Option.some.injEq] at hs
      subst hs
      subst hv0
      obtain ⟨ph, pt, _, h2, _, _, h5, h6, _⟩ := (verify_iff _ _ _).mp ⟨_, hex⟩
      have hpt : pt = 0 := by
        simp only [genesisView, Option.bind_some] at h2
        rw [parseU64_be64 0 (by simp [maxU64])] at h2
        injection h2 with h2; exact h2.symm
      subst hpt
      have hg := hgap s' (by simp)
      have hn := hno s' (by simp) s' (by simp)
      have hin : InI64 (toI64 0 + (s'.env.rules s'.block.ts).minBlockGap) := by
        rw [toI64_zero]
        simp only [InI64, two63] at *
        omega
      unfold addI64 at h6
      rw [wrapI64_id _ hin, toI64_zero] at h6
      omega

/-! ### the unchanged code violates the genesis link -/

private def defaultRules : Int → Rules := fun _ => { minBlockGap := 100, minEmptyBlockGap := 750 }

private def witnessEnv : Env :=
  { now := 1700000000000, rules := defaultRules, replayOk := true, txsOk := true, sigsOk := true,
    nextFee := [], newRoot := 1 }

private def witnessBlock : Block := { height := 1, ts := 750, numTxs := 0, stateRoot := 0 }

/-- **C11 counterexample** (replayed on the real `Processor.Execute` in every run, harness
corpus line `exec 1 a750 0 p n` on the real genesis): with the default rules, an empty
height-1 block with timestamp 750 ms (1970) verifies on the genesis view although the genesis
header's timestamp is 2023-01-01 — the child is earlier than its parent block. Hence "a block
verifies only if its timestamp ≥ the parent *block's* timestamp + gap" is false for the
genesis parent, and so is monotonicity starting from genesis. -/
theorem c11_counterexample :
    ¬ (∀ (env : Env) (fee : Bytes) (root : Nat) (b : Block), b.WF →
        (∃ v, execute env (genesisView fee root) b = .ok v) →
        (genesisBlock root).ts ≤ b.ts) := by
  intro h
  have hwf : witnessBlock.WF := by
    refine ⟨by decide, ?_⟩
    simp [InI64, two63, witnessBlock]
  have hex : ∃ v, execute witnessEnv (genesisView [] 0) witnessBlock = .ok v := ⟨_, rfl⟩
  have := h witnessEnv [] 0 witnessBlock hwf hex
  simp [genesisBlock, witnessBlock, genesisHeaderTimestamp] at this

/-! ### genesis: the view `Execute` sees is the state `NewGenesisCommit` committed (C27) -/

/-- the metadata `createBlockContext` reads from the committed genesis state (model of C27,
non-conflicting prefixes) is `genesisView`: height 0, timestamp 0, the initial fee bytes; and
the genesis header (`genesisBlock`) has height 0 and the 2023 timestamp. -/
theorem genesis_view_is_committed_state (root : (Bytes → Option Bytes) → Nat) (c : Config)
    (allocs : List Alloc) (hwf : C27.WF c allocs) (hd : C27.KeysDisjoint c allocs)
    (m : KV) (hdr : Header) (hok : genesisCommit root c allocs = .ok (m, hdr)) :
    genesisView (feeBytes c.minUnitPrice) hdr.stateRoot
      = { heightRaw := content m (heightKey c), tsRaw := content m (timestampKey c),
          feeRaw := content m (feeKey c), root := root (content m) } ∧
    (genesisBlock hdr.stateRoot).height = hdr.height ∧
    (genesisBlock hdr.stateRoot).ts = (HyperModel.Generated.C27.genesisHeaderTimestamp : Int) := by
  obtain ⟨_, h2, h3, h4, _⟩ := C27.genesis_state_exact_disjoint root c allocs hwf hd m hdr hok
  obtain ⟨hr, hh, _⟩ := C27.genesis_root_is_header_root root c allocs hwf m hdr hok
  refine ⟨?_, ?_, rfl⟩
  · simp [genesisView, h2, h3, h4, hr]
  · simp [genesisBlock, hh]

/-- the fee value committed at genesis is a complete fee-manager state, so the first block's
`ComputeNext` cannot hit the truncated-state panic -/
theorem genesis_fee_ok (prices : List Nat)
    (h : prices.length = HyperModel.Generated.C27.feeDimensions) : FeeOk (feeBytes prices) := by
  right
  rw [C27.feeBytes_length prices h]
  exact Nat.le_refl _

/-! ### builder -/

/-- the builder's timestamp logic agrees with the verifier's: a header the builder produces
on a parent whose *state* timestamp does not exceed its *header* timestamp (equal for every
non-genesis parent by `state_matches_header`; `0 ≤ 2023` for genesis) passes the height and
timestamp checks of `createBlockContext`, absent `int64` overflow. -/
theorem builder_header_passes (now : Int) (rules : Int → Rules) (parent : Block) (n : Nat)
    (p : View) (h : Nat) (t : Int) (root : Nat) (pts : Int)
    (hb : buildHeader now rules parent n = .ok (h, t))
    (hwf : parent.WF) (hpts : InI64 pts) (hle : pts ≤ parent.ts)
    (hH : p.heightRaw = some (be64 parent.height)) (hT : p.tsRaw = some (be64 (toU64 pts)))
    (hF : ∃ raw, p.feeRaw = some raw ∧ FeeOk raw)
    (hg1 : InI64 (parent.ts + (rules now).minBlockGap)) (hg2 : InI64 (pts + (rules now).minBlockGap))
    (he1 : InI64 (parent.ts + (rules now).minEmptyBlockGap))
    (he2 : InI64 (pts + (rules now).minEmptyBlockGap)) :
    createBlockContext (rules t) p { height := h, ts := t, numTxs := n, stateRoot := root }
      = .ok () := by
  unfold buildHeader at hb
  simp only [] at hb
  split at hb
  · cases hb
  rename_i hearly
  split at hb
  · cases hb
  rename_i hempty
  injection hb with hb
  injection hb with hh ht
  subst hh; subst ht
  unfold addI64 at hearly hempty
  rw [wrapI64_id _ hg1] at hearly
  rw [wrapI64_id _ he1] at hempty
  obtain ⟨fraw, hfraw, hfok⟩ := hF
  have hph : parseU64 (be64 parent.height) = some parent.height :=
    parseU64_be64 _ (by have := hwf.1; simp only [maxU64]; omega)
  have hpt : parseU64 (be64 (toU64 pts)) = some (toU64 pts) := parseU64_be64 _ (toU64_le _)
  unfold createBlockContext
  simp only [hH, hT, hfraw, hph, hpt, toI64_toU64 _ hpts, addI64, wrapI64_id _ hg2,
    wrapI64_id _ he2, ne_eq, not_true_eq_false, if_false]
  have h1 : ¬ now < pts + (rules now).minBlockGap := by omega
  have h2 : ¬ (n = 0 ∧ now < pts + (rules now).minEmptyBlockGap) := by
    intro ⟨h0, hlt⟩; exact hempty ⟨h0, by omega⟩
  simp only [h1, h2, if_false]
  rw [if_pos hfok]

/-- **C11 (builder emits only extending blocks)** — for *every* mempool content, whatever the
builder drops on the way: if `BuildBlock` hands out a block, that block satisfies the four
header conditions w.r.t. the parent *header*: height + 1, timestamp = the builder's clock
(so within any verifier's future bound that is not behind by more than `FutureBound`),
timestamp ≥ parent timestamp + `MinBlockGap`, and — keyed on the transactions that actually
made it in, not on the mempool — ≥ parent timestamp + `MinEmptyBlockGap` when the block is
empty; its `StateRoot` is the parent view's root. -/
theorem builder_emits_only_extending_blocks (now : Int) (rules : Int → Rules) (parent : Block)
    (parentRoot : Nat) (mempool : List MTx) (b : Block)
    (hb : buildBlock now rules parent parentRoot mempool = .ok b)
    (hg : InI64 (parent.ts + (rules now).minBlockGap))
    (he : InI64 (parent.ts + (rules now).minEmptyBlockGap)) :
    b.height = (parent.height + 1) % 18446744073709551616 ∧
    b.ts = now ∧
    parent.ts + (rules now).minBlockGap ≤ b.ts ∧
    b.numTxs = (mempool.filter (· = .included)).length ∧
    (b.numTxs = 0 → parent.ts + (rules now).minEmptyBlockGap ≤ b.ts) ∧
    b.stateRoot = parentRoot := by
  unfold buildBlock at hb
  simp only [] at hb
  split at hb
  · cases hb
  rename_i h t hhdr
  injection hb with hb
  subst hb
  unfold buildHeader at hhdr
  simp only [] at hhdr
  split at hhdr
  · cases hhdr
  rename_i hearly
  split at hhdr
  · cases hhdr
  rename_i hempty
  injection hhdr with hhdr
  injection hhdr with hh ht
  subst hh; subst ht
  unfold addI64 at hearly hempty
  rw [wrapI64_id _ hg] at hearly
  rw [wrapI64_id _ he] at hempty
  refine ⟨rfl, rfl, by simp only []; omega, rfl, ?_, rfl⟩
  intro h0
  simp only [] at h0 ⊢
  have : ¬ now < parent.ts + (rules now).minEmptyBlockGap := fun hlt => hempty ⟨h0, hlt⟩
  omega

/-- the empty-after-drops path: a non-empty mempool all of whose transactions are dropped
yields either no block or an empty block at least `MinEmptyBlockGap` after its parent. -/
theorem builder_all_dropped_respects_empty_gap (now : Int) (rules : Int → Rules) (parent : Block)
    (parentRoot : Nat) (mempool : List MTx) (b : Block)
    (hall : ∀ t ∈ mempool, t = .dropped)
    (hb : buildBlock now rules parent parentRoot mempool = .ok b)
    (hg : InI64 (parent.ts + (rules now).minBlockGap))
    (he : InI64 (parent.ts + (rules now).minEmptyBlockGap)) :
    b.numTxs = 0 ∧ parent.ts + (rules now).minEmptyBlockGap ≤ b.ts := by
  obtain ⟨_, _, _, hn, hemp, _⟩ :=
    builder_emits_only_extending_blocks now rules parent parentRoot mempool b hb hg he
  have h0 : b.numTxs = 0 := by
    rw [hn, List.length_eq_zero_iff, List.filter_eq_nil_iff]
    intro t ht
    rw [hall t ht]
    decide
  exact ⟨h0, hemp h0⟩

/-- and every block the builder hands out passes the verifier's height/timestamp checks on a
parent whose state timestamp does not exceed its header timestamp (see
`builder_header_passes`), for every mempool. -/
theorem built_block_passes_block_context (now : Int) (rules : Int → Rules) (parent : Block)
    (parentRoot : Nat) (mempool : List MTx) (b : Block) (p : View) (pts : Int)
    (hb : buildBlock now rules parent parentRoot mempool = .ok b)
    (hwf : parent.WF) (hpts : InI64 pts) (hle : pts ≤ parent.ts)
    (hH : p.heightRaw = some (be64 parent.height)) (hT : p.tsRaw = some (be64 (toU64 pts)))
    (hF : ∃ raw, p.feeRaw = some raw ∧ FeeOk raw)
    (hg1 : InI64 (parent.ts + (rules now).minBlockGap)) (hg2 : InI64 (pts + (rules now).minBlockGap))
    (he1 : InI64 (parent.ts + (rules now).minEmptyBlockGap))
    (he2 : InI64 (pts + (rules now).minEmptyBlockGap)) :
    createBlockContext (rules b.ts) p b = .ok () := by
  unfold buildBlock at hb
  simp only [] at hb
  split at hb
  · cases hb
  rename_i h t hhdr
  injection hb with hb
  subst hb
  exact builder_header_passes now rules parent _ p h t parentRoot pts hhdr hwf hpts hle hH hT hF
    hg1 hg2 he1 he2

/-! ### non-vacuity -/

/-- a two-block verified chain from the genesis view exists (so the chain theorems are not
vacuous), with non-negative gaps and no overflow -/
example : Chain (genesisView [] 0)
    [⟨witnessEnv, ⟨1, 1700000000000, 0, 0⟩, postView witnessEnv ⟨1, 1700000000000, 0, 0⟩⟩,
     ⟨witnessEnv, ⟨2, 1700000000100, 1, 1⟩, postView witnessEnv ⟨2, 1700000000100, 1, 1⟩⟩] :=
  .cons rfl (.cons rfl (.nil _))
example : execute witnessEnv (genesisView [] 0) ⟨1, 749, 0, 0⟩ = .error .tooEarlyEmpty := rfl
example : execute witnessEnv (genesisView [] 0) ⟨1, 1700000001001, 0, 0⟩ = .error .tooLate := rfl
example : execute witnessEnv (genesisView [] 0) ⟨2, 750, 0, 0⟩ = .error .height := rfl
example : execute witnessEnv (genesisView [] 0) ⟨1, 750, 0, 5⟩ = .error .root := rfl
/- a fork: siblings A1 (root 1) and A2 (root 2) on the genesis view; a child of A1 verifies
with A1's post-state root and is rejected with A2's — `execute` consults the parent view's
root only, never anything remembered from another execution -/
private def envA (r : Nat) : Env := { witnessEnv with newRoot := r }
private def a1 : Block := ⟨1, 1700000000000, 0, 0⟩
private def a2 : Block := ⟨1, 1700000000001, 1, 0⟩
example : execute (envA 1) (genesisView [] 0) a1 = .ok (postView (envA 1) a1) := rfl
example : execute (envA 2) (genesisView [] 0) a2 = .ok (postView (envA 2) a2) := rfl
example : (postView (envA 1) a1).root = 1 ∧ (postView (envA 2) a2).root = 2 := by decide
example : execute (envA 3) (postView (envA 1) a1) ⟨2, 1700000001000, 0, (postView (envA 2) a2).root⟩
    = .error .root := rfl
example : execute (envA 3) (postView (envA 1) a1) ⟨2, 1700000001000, 0, (postView (envA 1) a1).root⟩
    = .ok (postView (envA 3) ⟨2, 1700000001000, 0, 1⟩) := rfl
example : buildHeader 1700000000000 defaultRules (genesisBlock 0) 0 = .ok (1, 1700000000000) := rfl
example : buildBlock 1000300 defaultRules ⟨1, 1000000, 0, 0⟩ 5 [.dropped] = .error .noTxs := rfl
example : buildBlock 1000300 defaultRules ⟨1, 1000000, 0, 0⟩ 5 [.dropped, .included]
    = .ok ⟨2, 1000300, 1, 5⟩ := rfl
example : buildBlock 1000800 defaultRules ⟨1, 1000000, 0, 0⟩ 5 [.dropped] = .ok ⟨2, 1000800, 0, 5⟩ := rfl

end HyperModel.Props.C11
