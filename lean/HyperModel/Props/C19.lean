import HyperModel.Model.ChainIndex
import HyperModel.Proofs.ChainIndex
/-!
# C19 The block index keeps a complete, bounded window of accepted blocks

Histories: any list of `accept h` / `save h` (historical) / `restart w` over one accepted chain
(`chain : Nat → Block`, one block per height, ids injective), heights and windows uint64, starting
from `New` on an empty database with any window. `stepH` runs the code **with
`/verif/fixes/C19-prune-target-missing.patch`** (`updateLastAccepted true`, committed in /repo as 6de9247); the code before that commit
(`updateLastAccepted false`) violates the first sentence of the property (`update_fails_unpatched`).

* `update_never_fails`, `history_never_fails` — full strength (repaired code).
* `mappings_consistent`, `window_retrievable_consistent` — full strength: whatever is stored is
  mutually consistent, and every height the property requires (`Spec.must`: genesis and every
  block stored while inside the accepted window and never outside it since) is retrievable by
  height and by id.
* `retention_bounded` — **false** for the code as it is (known findings
  `retention-exceeds-window-after-gap`, `…-after-out-of-window-save`): `retention_counterexample_gap`,
  `retention_counterexample_save`. `retention_bounded_partial` proves the bound `retained ≤ window+1`
  (window > 0) for all gap-free histories (`gapFree`: first accept on an empty database, every later
  accept at last+1, saves at or below last and strictly inside the window, restarts with any window
  anywhere) via the invariant `Tidy` (window plus at most one straggler at last-window).
-/
namespace HyperModel.Props.C19
open HyperModel.ChainIndex HyperModel.ChainIndexProofs

/-! ## what the property requires to be retrievable -/

/-- `h` is genesis, or pruning is off, or `h` is inside the accepted window below `last` -/
def inWindow (w : Nat) (last : Option Nat) (h : Nat) : Bool :=
  decide (h = 0 ∨ w = 0 ∨ last.getD 0 < h + w)

/-- the property's bookkeeping: window, last accepted height, heights that must be retrievable -/
structure Spec where
  w : Nat
  last : Option Nat
  must : List Nat

def specStep (s : Spec) : HOp → Spec
  | .accept h => { s with last := some h, must := (h :: s.must).filter (inWindow s.w (some h)) }
  | .save h => if inWindow s.w s.last h then { s with must := h :: s.must } else s
  | .restart w => { s with w := w, must := s.must.filter (inWindow w s.last) }

def specRun (s : Spec) (ops : List HOp) : Spec := ops.foldl specStep s

def specInit (w : Nat) : Spec := { w := w, last := none, must := [] }

/-- implementation state and bookkeeping agree -/
structure Link (c : CI) (s : Spec) : Prop where
  w : c.w = s.w
  last : c.db.last = s.last
  must : ∀ h ∈ s.must, Stored c.db h

theorem step_link {chain : Nat → Block} (hc : Chain chain) {c : CI} {s : Spec}
    (hi : Inv chain c.db) (hw : c.w < two64) (hl : Link c s) (op : HOp) (hop : op.ok64) :
    Inv chain (stepH chain c op).1.db ∧ (stepH chain c op).1.w < two64 ∧
    Link (stepH chain c op).1 (specStep s op) ∧ (stepH chain c op).2 = .ok := by
  cases op with
  | accept h =>
    obtain ⟨h1, h2, h3, h4, h5⟩ := accept_spec hc c hi hw h hop
    refine ⟨h3, by simp only [stepH]; omega, ⟨by simp only [stepH, specStep]; rw [h2, hl.w], by simp only [stepH, specStep]; exact h4, ?_⟩, h1⟩
    intro x hx
    simp only [specStep, List.mem_filter, List.mem_cons, inWindow, decide_eq_true_eq, Option.getD_some] at hx
    simp only [stepH]
    rw [h5]
    refine ⟨?_, ?_⟩
    · rcases hx.1 with e | e
      · exact Or.inl e
      · exact Or.inr (hl.must x e)
    · rintro ⟨a, b, e⟩
      have := hx.2
      rw [← hl.w] at this
      omega
  | save h =>
    obtain ⟨h1, h2, h3, h4, h5⟩ := save_spec hc c hi h
    refine ⟨h3, by simp only [stepH]; omega, ?_, h1⟩
    simp only [stepH, specStep]
    split
    · refine ⟨by rw [h2, hl.w], by rw [h4, hl.last], ?_⟩
      intro x hx
      rw [h5]
      simp only [List.mem_cons] at hx
      rcases hx with e | e
      · exact Or.inl e
      · exact Or.inr (hl.must x e)
    · refine ⟨by rw [h2, hl.w], by rw [h4, hl.last], ?_⟩
      intro x hx
      rw [h5]
      exact Or.inr (hl.must x hx)
  | restart w =>
    obtain ⟨h1, h2, h3, h4, h5⟩ := restart_spec hc c hi w
    have hw' : w < two64 := hop
    refine ⟨h3, by simp only [stepH]; omega, ⟨by simp only [stepH, specStep]; exact h2, by simp only [stepH, specStep]; rw [h4, hl.last], ?_⟩, h1⟩
    intro x hx
    simp only [specStep, List.mem_filter, inWindow, decide_eq_true_eq] at hx
    simp only [stepH]
    rw [h5]
    refine ⟨hl.must x hx.1, ?_⟩
    intro thr hthr hv
    have hv' := mem_victims hv
    simp only [cleanupThr] at hthr
    split at hthr
    · cases hthr
    · rename_i hn
      simp only [Option.some.injEq] at hthr
      rw [hl.last] at hthr hn
      have := hx.2
      omega

/-- every reachable state: consistent tables, linked to the bookkeeping, no operation failed -/
theorem run_link {chain : Nat → Block} (hc : Chain chain) (ops : List HOp) :
    ∀ {c : CI} {s : Spec}, Inv chain c.db → c.w < two64 → Link c s → (∀ op ∈ ops, op.ok64) →
    Inv chain (runH chain c ops).db ∧ Link (runH chain c ops) (specRun s ops) ∧
    (∀ r ∈ outsH chain c ops, r = Res.ok) := by
  induction ops with
  | nil => intro c s hi _ hl _; exact ⟨hi, hl, by simp [outsH]⟩
  | cons op r ih =>
    intro c s hi hw hl hok
    obtain ⟨a, b, cc, d⟩ := step_link hc hi hw hl op (hok op List.mem_cons_self)
    obtain ⟨e, f, g⟩ := ih a b cc (fun o ho => hok o (List.mem_cons_of_mem _ ho))
    refine ⟨e, f, ?_⟩
    intro x hx
    simp only [outsH, List.mem_cons] at hx
    rcases hx with hx | hx
    · rw [hx]; exact d
    · exact g x hx

theorem link_init (w : Nat) : Link (init w) (specInit w) :=
  ⟨rfl, rfl, by intro h hh; simp [specInit] at hh⟩

/-- the `Chain` hypothesis is satisfiable: one block per height with pairwise different ids -/
example : Chain (fun h => ({ id := List.replicate h 0, height := h, bytes := [] } : Block)) :=
  ⟨fun _ => rfl, fun h h' e => by simpa using congrArg List.length e⟩

/-! ## 1. recording an accepted block always succeeds -/

/-- On any database state and for any block the repaired `UpdateLastAccepted` returns no error
(the model has no other error source than the missing prune target: a healthy database). -/
theorem update_never_fails (c : CI) (b : Block) : (updateLastAccepted true c b).2 = Res.ok := by
  by_cases hp : (c.w = 0 ∨ sub64 b.height c.w = 0 ∨ sub64 b.height c.w ≥ b.height)
  · rw [ula_noprune _ _ _ hp]
  · cases hg : aget (sub64 b.height c.w) c.db.hId with
    | none => rw [ula_prune_none _ _ hp hg]
    | some did => rw [ula_prune_some _ _ _ _ hp hg]

/-- … and in every history no operation (accept, historical save, restart) fails. -/
theorem history_never_fails {chain : Nat → Block} (hc : Chain chain) (w0 : Nat) (hw0 : w0 < two64)
    (ops : List HOp) (hok : ∀ op ∈ ops, op.ok64) :
    ∀ r ∈ outsH chain (init w0) ops, r = Res.ok :=
  (run_link hc ops (inv_init chain w0) hw0 (link_init w0) hok).2.2

/-- The code before /repo 6de9247: window 2, accept height 0, then height 100 (first accept
after state sync) → `UpdateLastAccepted` returns `not found` and records nothing. -/
theorem update_fails_unpatched :
    let b0 : Block := { id := [0], height := 0, bytes := [0] }
    let b100 : Block := { id := [100], height := 100, bytes := [100] }
    let c1 := (updateLastAccepted false (init 2) b0).1
    (updateLastAccepted false c1 b100).2 = Res.notfound ∧
    getLast (updateLastAccepted false c1 b100).1 = some 0 := by
  decide

/-! ## 2. genesis and the window stay retrievable, mappings are consistent -/

/-- After any history, the three mappings describe the same set of blocks: a height has an id
iff the id has that height iff the block bytes are stored, and all of them are the chain's. -/
theorem mappings_consistent {chain : Nat → Block} (hc : Chain chain) (w0 : Nat) (hw0 : w0 < two64)
    (ops : List HOp) (hok : ∀ op ∈ ops, op.ok64) :
    let c := runH chain (init w0) ops
    (∀ h id, getBlockIDAtHeight c h = some id ↔ getBlockIDHeight c id = some h) ∧
    (∀ h id, getBlockIDAtHeight c h = some id →
      id = (chain h).id ∧ getBlockByHeight c h = some (chain h).bytes ∧
      getBlock c id = some (chain h).bytes) ∧
    (∀ h, getBlockByHeight c h ≠ none → getBlockIDAtHeight c h ≠ none) := by
  intro c
  have hi : Inv chain c.db := (run_link hc ops (inv_init chain w0) hw0 (link_init w0) hok).1
  refine ⟨fun h id => ((hi.i3 id h)).symm, ?_, ?_⟩
  · intro h id hid
    have hs : Stored c.db h := by unfold Stored; unfold getBlockIDAtHeight at hid; rw [hid]; simp
    have e := hi.i1 h id hid
    obtain ⟨a, _, _, d⟩ := getters_of_stored hi hs
    exact ⟨e, a, e ▸ d⟩
  · intro h hb
    unfold getBlockByHeight at hb
    unfold getBlockIDAtHeight
    rw [hi.i2 h] at hb
    intro hn
    rw [hn] at hb
    exact hb rfl

/-- After any history, every height the property requires — genesis and every block that was
stored (accepted or saved) inside the accepted window and has not left it since, under the
window configured at each moment — is retrievable by height and by id, with the chain's content. -/
theorem window_retrievable_consistent {chain : Nat → Block} (hc : Chain chain) (w0 : Nat)
    (hw0 : w0 < two64) (ops : List HOp) (hok : ∀ op ∈ ops, op.ok64) :
    let c := runH chain (init w0) ops
    ∀ h ∈ (specRun (specInit w0) ops).must,
      getBlockByHeight c h = some (chain h).bytes ∧ getBlockIDAtHeight c h = some (chain h).id ∧
      getBlockIDHeight c (chain h).id = some h ∧ getBlock c (chain h).id = some (chain h).bytes := by
  intro c h hm
  obtain ⟨hi, hl, _⟩ := run_link hc ops (inv_init chain w0) hw0 (link_init w0) hok
  exact getters_of_stored hi (hl.must h hm)

/-- the last accepted height is reported, and that block is retrievable -/
theorem last_accepted_retrievable {chain : Nat → Block} (hc : Chain chain) (w0 : Nat)
    (hw0 : w0 < two64) (ops : List HOp) (hok : ∀ op ∈ ops, op.ok64) (h : Nat) (hh : h < two64) :
    let c := runH chain (init w0) (ops ++ [HOp.accept h])
    getLast c = some h ∧ getBlockByHeight c h = some (chain h).bytes := by
  intro c
  have hok' : ∀ op ∈ ops ++ [HOp.accept h], op.ok64 := by
    intro op ho
    rcases List.mem_append.mp ho with ho | ho
    · exact hok op ho
    · simp only [List.mem_singleton] at ho; rw [ho]; exact hh
  obtain ⟨hi, hl, _⟩ := run_link hc (ops ++ [HOp.accept h]) (inv_init chain w0) hw0 (link_init w0) hok'
  have hm : h ∈ (specRun (specInit w0) (ops ++ [HOp.accept h])).must := by
    simp only [specRun, List.foldl_append, List.foldl_cons, List.foldl_nil, specStep, List.mem_filter,
      List.mem_cons, true_or, inWindow, decide_eq_true_eq, Option.getD_some, true_and]
    omega
  have hlast : (specRun (specInit w0) (ops ++ [HOp.accept h])).last = some h := by
    simp [specRun, List.foldl_append, specStep]
  exact ⟨by unfold getLast; rw [hl.last, hlast], (getters_of_stored hi (hl.must h hm)).1⟩

/-- non-vacuity of `Spec.must`: window 2, accepts 0..4 then a restart: genesis, 3 and 4 are required -/
example : (specRun (specInit 2) [.accept 0, .accept 1, .accept 2, .accept 3, .accept 4, .restart 2]).must
    = [4, 3, 0] := by decide

/-- … and after state sync to height 100 with a backfill of 99, 98 (98 is outside the window) -/
example : (specRun (specInit 2) [.accept 0, .accept 100, .save 99, .save 98]).must = [99, 100, 0] := by
  decide

/-! ## 3. retention -/

def testChain (h : Nat) : Block := { id := [UInt8.ofNat h], height := h, bytes := [UInt8.ofNat h] }

/-- number of retained non-genesis blocks -/
def retained (c : CI) : Nat := ((akeys c.db.hId).filter (· ≠ 0)).length

/-- Known finding `retention-exceeds-window-after-gap`: window 2, accept 3, 4, 10, 11 retains
4 > window+1 non-genesis blocks (the blocks below the gap are only pruned by a restart). -/
theorem retention_counterexample_gap :
    retained (runH testChain (init 2) [.accept 3, .accept 4, .accept 10, .accept 11]) = 4 ∧
    retained (runH testChain (init 2) [.accept 3, .accept 4, .accept 10, .accept 11, .restart 2]) = 2 := by
  decide

/-- Known finding `retention-exceeds-window-after-out-of-window-save`: window 2, accept 20, save
19, 18, 17 retains 4 non-genesis blocks; later accepts never prune 17 and 18. -/
theorem retention_counterexample_save :
    retained (runH testChain (init 2) [.accept 20, .save 19, .save 18, .save 17]) = 4 ∧
    retained (runH testChain (init 2) [.accept 20, .save 19, .save 18, .save 17, .accept 21, .accept 22]) = 4 := by
  decide

/-- Gap-free histories (state: last accepted height, configured window): every accept is the
first one on an empty database or at `last + 1`; historical saves happen after the first accept, at
or below `last` and strictly inside the window; restarts with any window are allowed anywhere. -/
def gapFree : Option Nat → Nat → List HOp → Prop
  | _, _, [] => True
  | none, w, .accept h :: r => gapFree (some h) w r
  | some L, w, .accept h :: r => h = L + 1 ∧ gapFree (some h) w r
  | none, _, .save _ :: _ => False
  | some L, w, .save h :: r => (h ≤ L ∧ (h = 0 ∨ w = 0 ∨ L < h + w)) ∧ gapFree (some L) w r
  | l, _, .restart w' :: r => gapFree l w' r

/-- the retained non-genesis blocks lie in the window, except for at most one straggler
(the block at `last - window` kept by a restart) -/
def Tidy (c : CI) : Prop :=
  match c.db.last with
  | none => ∀ x, ¬ Stored c.db x
  | some L => ∃ st, ∀ x, Stored c.db x → x = 0 ∨ (x ≤ L ∧ (c.w = 0 ∨ L < x + c.w ∨ x = st))

theorem tidy_step {chain : Nat → Block} (hc : Chain chain) {c : CI} (hi : Inv chain c.db)
    (hw : c.w < two64) (ht : Tidy c) (op : HOp) (hop : op.ok64) (r : List HOp)
    (hg : gapFree c.db.last c.w (op :: r)) :
    Tidy (stepH chain c op).1 ∧ gapFree (stepH chain c op).1.db.last (stepH chain c op).1.w r := by
  cases op with
  | accept h =>
    obtain ⟨_, h2, _, h4, h5⟩ := accept_spec hc c hi hw h hop
    simp only [stepH]
    unfold Tidy at ht ⊢
    rw [h4, h2]
    cases hl : c.db.last with
    | none =>
      rw [hl] at ht hg
      refine ⟨⟨0, ?_⟩, hg⟩
      intro x hx
      rcases ((h5 x).mp hx).1 with e | e
      · right; subst e; omega
      · exact absurd e (ht x)
    | some L =>
      rw [hl] at ht hg
      obtain ⟨st, hst⟩ := ht
      obtain ⟨hh, hg'⟩ := hg
      refine ⟨⟨st, ?_⟩, hg'⟩
      intro x hx
      obtain ⟨hx1, hx2⟩ := (h5 x).mp hx
      rcases hx1 with e | e
      · right; subst e; omega
      · rcases hst x e with e0 | ⟨e1, e2⟩
        · exact Or.inl e0
        · by_cases hx0 : x = 0
          · exact Or.inl hx0
          · right
            refine ⟨by omega, ?_⟩
            rcases e2 with e2 | e2 | e2
            · exact Or.inl e2
            · by_cases hxe : x + c.w = L + 1
              · exact absurd ⟨by omega, by omega, by omega⟩ hx2
              · right; left; omega
            · exact Or.inr (Or.inr e2)
  | save h =>
    obtain ⟨_, h2, _, h4, h5⟩ := save_spec hc c hi h
    simp only [stepH]
    unfold Tidy at ht ⊢
    rw [h4, h2]
    cases hl : c.db.last with
    | none => rw [hl] at hg; exact absurd hg (by simp [gapFree])
    | some L =>
      rw [hl] at ht hg
      obtain ⟨st, hst⟩ := ht
      obtain ⟨hh, hg'⟩ := hg
      refine ⟨⟨st, ?_⟩, hg'⟩
      intro x hx
      rcases (h5 x).mp hx with e | e
      · subst e
        rcases hh.2 with e0 | e0 | e0
        · exact Or.inl e0
        · exact Or.inr ⟨hh.1, Or.inl e0⟩
        · exact Or.inr ⟨hh.1, Or.inr (Or.inl e0)⟩
      · exact hst x e
  | restart w =>
    obtain ⟨_, h2, _, h4, _⟩ := restart_spec hc c hi w
    have h5 := restart_stored hc c hi w
    simp only [stepH]
    unfold Tidy at ht ⊢
    rw [h4, h2]
    have hg' : gapFree c.db.last w r := by
      cases hl : c.db.last <;> rw [hl] at hg <;> exact hg
    refine ⟨?_, hg'⟩
    cases hl : c.db.last with
    | none =>
      rw [hl] at ht
      intro x hx
      exact ht x ((h5 x).mp hx).1
    | some L =>
      rw [hl] at ht
      obtain ⟨st, hst⟩ := ht
      refine ⟨L - w, ?_⟩
      intro x hx
      obtain ⟨hx1, hx2⟩ := (h5 x).mp hx
      rcases hst x hx1 with e0 | ⟨e1, _⟩
      · exact Or.inl e0
      · by_cases hx0 : x = 0
        · exact Or.inl hx0
        · right
          refine ⟨e1, ?_⟩
          by_cases hw0 : w = 0
          · exact Or.inl hw0
          · by_cases hLw : L ≤ w
            · right; left; omega
            · have hthr : cleanupThr w c.db.last = some (L - w) := by
                simp [cleanupThr, hl, hw0, hLw]
              have := hx2 _ hthr
              right
              by_cases hlt : L < x + w
              · exact Or.inl hlt
              · right; omega

theorem tidy_run {chain : Nat → Block} (hc : Chain chain) (ops : List HOp) :
    ∀ {c : CI}, Inv chain c.db → c.w < two64 → NodupKeys c.db → Tidy c → (∀ op ∈ ops, op.ok64) →
      gapFree c.db.last c.w ops →
      Tidy (runH chain c ops) ∧ NodupKeys (runH chain c ops).db := by
  induction ops with
  | nil => intro c _ _ hn ht _ _; exact ⟨ht, hn⟩
  | cons op r ih =>
    intro c hi hw hn ht hok hg
    have hop := hok op List.mem_cons_self
    obtain ⟨t1, t2⟩ := tidy_step hc hi hw ht op hop r hg
    have hl : Link c ⟨c.w, c.db.last, []⟩ := ⟨rfl, rfl, by intro h hh; simp at hh⟩
    obtain ⟨a, b, _, _⟩ := step_link hc hi hw hl op hop
    exact ih a b (nodup_step chain c op hn) t1 (fun o ho => hok o (List.mem_cons_of_mem _ ho)) t2

/-- PARTIAL (gap-free histories; the bound is false in general, see the counterexamples above):
no more than window+1 non-genesis blocks are retained (window 0 = pruning switched off). -/
theorem retention_bounded_partial {chain : Nat → Block} (hc : Chain chain) (w0 : Nat) (hw0 : w0 < two64)
    (ops : List HOp) (hok : ∀ op ∈ ops, op.ok64) (hg : gapFree none w0 ops) :
    let c := runH chain (init w0) ops
    c.w ≠ 0 → retained c ≤ c.w + 1 := by
  intro c hw
  have hn0 : NodupKeys (init w0).db := by simp [NodupKeys, init, akeys]
  have ht0 : Tidy (init w0) := by
    simp only [Tidy, init]
    intro x hx
    exact hx rfl
  obtain ⟨ht, hn⟩ : Tidy c ∧ NodupKeys c.db := tidy_run hc ops (inv_init chain w0) hw0 hn0 ht0 hok hg
  have hnd : ((akeys c.db.hId).filter (· ≠ 0)).Nodup := hn.sublist List.filter_sublist
  have hst : ∀ x ∈ (akeys c.db.hId).filter (· ≠ 0), Stored c.db x ∧ x ≠ 0 := by
    intro x hx
    simp only [List.mem_filter, ne_eq, decide_not, Bool.not_eq_eq_eq_not, Bool.not_true,
      decide_eq_false_iff_not] at hx
    exact ⟨(mem_akeys_iff _ _).mp hx.1, hx.2⟩
  unfold retained
  unfold Tidy at ht
  cases hl : c.db.last with
  | none =>
    rw [hl] at ht
    cases hk : (akeys c.db.hId).filter (· ≠ 0) with
    | nil => simp
    | cons a r =>
      have := hst a (by rw [hk]; exact List.mem_cons_self)
      exact absurd this.1 (ht a)
  | some L =>
    rw [hl] at ht
    obtain ⟨st, hstr⟩ := ht
    have h1 := length_filter_ne_of_nodup _ st hnd
    have h2 : (((akeys c.db.hId).filter (· ≠ 0)).filter (· ≠ st)).length ≤ c.w := by
      apply length_le_of_nodup_range c.w (L + 1 - c.w) _ (hnd.sublist List.filter_sublist)
      intro x hx
      rw [List.mem_filter] at hx
      have hxs := hst x hx.1
      have hne : x ≠ st := by simpa using hx.2
      rcases hstr x hxs.1 with e | ⟨e1, e2⟩
      · exact absurd e hxs.2
      · rcases e2 with e2 | e2 | e2
        · exact absurd e2 hw
        · omega
        · exact absurd e2 hne
    omega

/-- non-vacuity: consecutive accepts from genesis, an in-window backfill, restarts with other windows -/
example : gapFree none 2 [.accept 0, .accept 1, .accept 2, .save 1, .restart 1, .accept 3, .restart 5, .accept 4] := by
  simp [gapFree]

/-- after state sync: first accept at 100, backfill 99, then consecutive accepts -/
example : gapFree none 2 [.accept 100, .save 99, .accept 101, .accept 102, .restart 2] := by
  simp [gapFree]

/-- the bound is tight (straggler): window 5, accepts 0..5, restart with window 2 keeps 3,4,5,
accept 6 prunes 4 → 3, 5, 6 retained = window+1 -/
example : retained (runH testChain (init 5) [.accept 0, .accept 1, .accept 2, .accept 3, .accept 4,
    .accept 5, .restart 2, .accept 6]) = 3 := by decide

end HyperModel.Props.C19
