import HyperModel.Model.Backfill
import HyperModel.Proofs.ValidityWindow
/-!
# C22 Validity-window backfill trusts only the hash-linked ancestry of the sync target

The client (`BlockFetcherClient.FetchBlocks`) is run against an *arbitrary* list of peer
events (errors, arbitrary byte strings, wrong / unlinked / out-of-order / forged blocks, any
changes of `minTimestamp`). Assumption (stated, not proved): block ids are injective in content
for the real ancestry (`IdInj`): a parsable block whose id equals the id of a real ancestor is
that ancestor (ids are SHA-256 of the bytes).

The theorems are about the **repaired** loop (`fixed = true`, fixes/C22-stop-at-genesis.patch).
`c22_counterexample` proves that the loop as found (`fixed = false`) never completes when the
oldest local block is a genesis whose timestamp is not below the minimum timestamp.
-/
namespace HyperModel.Props.C22
open HyperModel.ValidityWindow HyperModel.Backfill

/-- `l` is hash-linked below a block whose parent id is `exp`. -/
def Linked : Nat → List Block → Prop
  | _, [] => True
  | exp, b :: rest => b.id = exp ∧ Linked b.parent rest

/-- Block ids are injective in content, for the real ancestry `anc`. -/
def IdInj (parse : Raw → Option Block) (anc : List Block) : Prop :=
  ∀ r b, parse r = some b → ∀ a ∈ anc, a.id = b.id → a = b

def lastOf (start : Block) (l : List Block) : Block := l.getLast?.getD start

theorem lastOf_append_singleton (start b : Block) (l : List Block) : lastOf start (l ++ [b]) = b := by
  simp [lastOf]

/-- Client invariant: what was emitted is a prefix of the real ancestry, `lastBlock` is its last
element, and the rest of the ancestry is linked below `lastBlock`. -/
def CInv (start : Block) (anc : List Block) (c : Client) : Prop :=
  ∃ rest, anc = c.emitted ++ rest ∧ c.last = lastOf start c.emitted ∧ Linked c.last.parent rest

variable {parse : Raw → Option Block} {start : Block} {anc : List Block}

theorem cinv_init (hl : Linked start.parent anc) (min : Int) : CInv start anc (Client.init start min) :=
  ⟨anc, by simp [Client.init], by simp [Client.init, lastOf], by simpa [Client.init] using hl⟩

theorem rest_ne_nil (hgen : (lastOf start anc).height = 0) {c : Client} {rest : List Block}
    (h1 : anc = c.emitted ++ rest) (h2 : c.last = lastOf start c.emitted) (hh : c.last.height ≠ 0) :
    rest ≠ [] := by
  intro hr; subst hr
  simp at h1; subst h1
  rw [h2] at hh; exact hh hgen

theorem pb_inv (hinj : IdInj parse anc) (hgen : (lastOf start anc).height = 0) :
    ∀ (raws : List Raw) (c : Client), CInv start anc c → c.last.height ≠ 0 →
      CInv start anc (processBlocks true parse c c.last.parent raws) := by
  intro raws
  induction raws with
  | nil => intro c hc _; simpa [processBlocks] using hc
  | cons raw rs ih =>
    intro c hc hh
    unfold processBlocks
    cases hp : parse raw with
    | none => simpa using hc
    | some b =>
      simp only []
      by_cases hid : c.last.parent ≠ b.id
      · rw [if_pos hid]; exact hc
      · rw [if_neg hid]
        have hid' : c.last.parent = b.id := Classical.byContradiction hid
        obtain ⟨rest, h1, h2, h3⟩ := hc
        have hne := rest_ne_nil hgen h1 h2 hh
        cases rest with
        | nil => exact absurd rfl hne
        | cons r0 rest' =>
          obtain ⟨hr0, hlk⟩ := h3
          have hmem : r0 ∈ anc := by rw [h1]; simp
          have : r0 = b := hinj raw b hp r0 hmem (by rw [hr0, hid'])
          subst this
          have hc' : ∀ (cl : Bool) (rq : Nat), CInv start anc
              { c with last := r0, emitted := c.emitted ++ [r0], closed := cl, reqHeight := rq } :=
            fun cl rq => ⟨rest', by simp [h1], by simp [lastOf], hlk⟩
          by_cases hs : stopCond true r0 c.min = true
          · rw [if_pos hs]; exact hc' true c.reqHeight
          · rw [if_neg hs]
            have hh' : r0.height ≠ 0 := by
              intro h0; apply hs; simp [stopCond, h0]
            exact ih _ (hc' c.closed (predU64 r0.height)) hh'

theorem height_ne_of_open {c : Client} (h : c.isClosed true = false) : c.last.height ≠ 0 := by
  intro h0
  simp [Client.isClosed, stopCond, h0] at h

theorem step_inv (hinj : IdInj parse anc) (hgen : (lastOf start anc).height = 0) {c : Client}
    (hc : CInv start anc c) (ev : Event) : CInv start anc (c.step true parse ev) := by
  unfold Client.step
  cases ho : c.isClosed true with
  | true => exact hc
  | false =>
    simp only [Bool.false_eq_true, if_false]
    have hh := height_ne_of_open ho
    cases ev.resp with
    | err => exact hc
    | blocks raws =>
      exact pb_inv hinj hgen raws { c with min := ev.newMin } hc hh

theorem run_inv (hinj : IdInj parse anc) (hgen : (lastOf start anc).height = 0) :
    ∀ (evs : List Event) (c : Client), CInv start anc c → CInv start anc (Client.run true parse c evs) := by
  intro evs
  induction evs with
  | nil => intro c hc; exact hc
  | cons ev rest ih => intro c hc; exact ih _ (step_inv hinj hgen hc ev)

/-- **Every emitted block is the next real ancestor, in order**: whatever the peers send, the
blocks handed to `SaveHistorical`/`AcceptHistorical` form a prefix of the hash-linked ancestry
of the oldest local block (which ends at genesis). -/
theorem emitted_is_ancestry_prefix (hl : Linked start.parent anc) (hinj : IdInj parse anc)
    (hgen : (lastOf start anc).height = 0) (min : Int) (evs : List Event) :
    (Client.run true parse (Client.init start min) evs).emitted <+: anc := by
  obtain ⟨rest, h1, _, _⟩ := run_inv hinj hgen evs _ (cinv_init hl min)
  exact ⟨rest, h1.symm⟩

/-! ### tracked set -/

theorem add_contains (s : Seen) (i : Nat) (e : Int) (j : Nat) :
    (s.add i e).contains j = true ↔ s.contains j = true ∨ (j = i ∧ e ≠ 0) := by
  unfold Seen.add Seen.contains
  by_cases he : e = 0
  · simp [he]
  · rw [if_neg he]
    cases hg : s.get i with
    | some x =>
      simp only [he, not_false_eq_true, and_true]
      constructor
      · intro h; exact Or.inl h
      · rintro (h | h)
        · exact h
        · obtain ⟨h, _⟩ := h; subst h; simp [hg]
    | none =>
      by_cases hji : j = i
      · simp [hji, he]
      · simp [hji]

theorem addAll_contains : ∀ (txs : List Tx) (s : Seen) (j : Nat),
    (s.addAll txs).contains j = true ↔
      s.contains j = true ∨ ∃ t ∈ txs, t.id = j ∧ t.expiry ≠ 0 := by
  intro txs
  induction txs with
  | nil => intro s j; simp [Seen.addAll]
  | cons t rest ih =>
    intro s j
    simp only [Seen.addAll]
    rw [ih, add_contains]
    constructor
    · rintro ((h | ⟨h1, h2⟩) | ⟨t', ht', h⟩)
      · exact Or.inl h
      · exact Or.inr ⟨t, List.mem_cons_self, h1.symm, h2⟩
      · exact Or.inr ⟨t', List.mem_cons_of_mem _ ht', h⟩
    · rintro (h | ⟨t', ht', h1, h2⟩)
      · exact Or.inl (Or.inl h)
      · cases ht' with
        | head => exact Or.inl (Or.inr ⟨h1.symm, h2⟩)
        | tail _ hm => exact Or.inr ⟨t', hm, h1, h2⟩

/-- **Tracked = ancestor txs.** After `AcceptHistorical` of the blocks `saved`, the tracked ids
are exactly those tracked before plus the (non-zero-expiry) txs of `saved`. -/
theorem tracked_after_backfill : ∀ (saved : List Block) (v : VW) (j : Nat),
    (saved.foldl acceptHistorical v).seen.contains j = true ↔
      v.seen.contains j = true ∨ ∃ b ∈ saved, ∃ t ∈ b.txs, t.id = j ∧ t.expiry ≠ 0 := by
  intro saved
  induction saved with
  | nil => intro v j; simp
  | cons b rest ih =>
    intro v j
    simp only [List.foldl_cons]
    rw [ih]
    simp only [acceptHistorical, addAll_contains]
    constructor
    · rintro ((h | ⟨t, ht, h⟩) | ⟨b', hb', h⟩)
      · exact Or.inl h
      · exact Or.inr ⟨b, List.mem_cons_self, t, ht, h⟩
      · exact Or.inr ⟨b', List.mem_cons_of_mem _ hb', h⟩
    · rintro (h | ⟨b', hb', t, ht, h⟩)
      · exact Or.inl (Or.inl h)
      · cases hb' with
        | head => exact Or.inl (Or.inr ⟨t, ht, h⟩)
        | tail _ hm => exact Or.inr ⟨b', hm, t, ht, h⟩

/-! ### the syncer's consumer -/

theorem emitted_grows_pb (fixed : Bool) : ∀ (raws : List Raw) (c : Client) (exp : Nat),
    ∃ new, (processBlocks fixed parse c exp raws).emitted = c.emitted ++ new := by
  intro raws
  induction raws with
  | nil => intro c exp; exact ⟨[], by simp [processBlocks]⟩
  | cons raw rs ih =>
    intro c exp
    unfold processBlocks
    cases parse raw with
    | none => exact ⟨[], by simp⟩
    | some b =>
      simp only []
      by_cases hid : exp ≠ b.id
      · rw [if_pos hid]; exact ⟨[], by simp⟩
      · rw [if_neg hid]
        by_cases hs : stopCond fixed b c.min = true
        · rw [if_pos hs]; exact ⟨[b], rfl⟩
        · rw [if_neg hs]
          obtain ⟨new, hn⟩ := ih { c with last := b, emitted := c.emitted ++ [b], reqHeight := predU64 b.height } b.parent
          exact ⟨b :: new, by rw [hn]; simp⟩

theorem emitted_grows_step (fixed : Bool) (c : Client) (ev : Event) :
    ∃ new, (c.step fixed parse ev).emitted = c.emitted ++ new := by
  unfold Client.step
  cases c.isClosed fixed with
  | true => exact ⟨[], by simp⟩
  | false =>
    simp only [Bool.false_eq_true, if_false]
    cases ev.resp with
    | err => exact ⟨[], by simp⟩
    | blocks raws => exact emitted_grows_pb fixed raws _ _

theorem consume_none : ∀ (l : List Block) (s : Sync), s.failed = false →
    Sync.consume none s l =
      { s with vw := l.foldl acceptHistorical s.vw, saved := s.saved ++ l,
               consumed := s.consumed + l.length } := by
  intro l
  induction l with
  | nil => intro s _; simp [Sync.consume]
  | cons b rest ih =>
    intro s hf
    unfold Sync.consume
    simp only [hf, Bool.false_eq_true, if_false]
    have : (none == some s.consumed) = false := rfl
    simp only [this, Bool.false_eq_true, if_false]
    rw [ih _ rfl]
    simp [Nat.add_assoc, Nat.add_comm 1, hf]

/-- Syncer invariant without storage failures: everything the client emitted has been saved
and given to `AcceptHistorical`, in order. -/
def SInv (v0 : VW) (s : Sync) : Prop :=
  s.failed = false ∧ s.fwdDone = false ∧ ∃ c, s.client = some c ∧ s.saved = c.emitted ∧
    s.consumed = c.emitted.length ∧ s.vw = c.emitted.foldl acceptHistorical v0

theorem sync_step_inv (fixed : Bool) {v0 : VW} {s : Sync} (hs : SInv v0 s) (ev : Event) :
    SInv v0 (s.step fixed parse none ev) := by
  obtain ⟨hf, hfd, c, hc, h1, h2, h3⟩ := hs
  unfold Sync.step
  simp only [hc, hfd, Bool.false_eq_true, if_false]
  obtain ⟨new, hn⟩ := emitted_grows_step (parse := parse) fixed c ev
  rw [consume_none _ { s with client := some (c.step fixed parse ev), pendingMin := none, fwdDone := false } hf]
  refine ⟨hf, rfl, c.step fixed parse ev, rfl, ?_, ?_, ?_⟩
  · simp [hn, h1, h2]
  · simp [hn, h2]
  · simp [hn, h2, h3, List.foldl_append]

theorem sync_run_inv (fixed : Bool) {v0 : VW} : ∀ (evs : List Event) (s : Sync), SInv v0 s →
    SInv v0 (Sync.run fixed parse none s evs) := by
  intro evs
  induction evs with
  | nil => intro s hs; exact hs
  | cons ev rest ih => intro s hs; exact ih _ (sync_step_inv fixed hs ev)

/-- **C22, safety.** Start the syncer's fetch from `start` (the oldest local block) with the
window state `v0` obtained from local blocks. After any sequence of peer events (no storage
failure): the saved blocks are a prefix of the real hash-linked ancestry, in order, and a tx id
is tracked iff it was tracked from local blocks or is a (non-zero-expiry) tx of a saved
ancestor. Nothing unparsable, unlinked or out of order is ever recorded or tracked. -/
theorem tracked_equals_ancestor_txs (hl : Linked start.parent anc) (hinj : IdInj parse anc)
    (hgen : (lastOf start anc).height = 0) (v0 : VW) (min : Int) (evs : List Event) :
    let s0 : Sync := { vw := v0, saved := [], failed := false, consumed := 0,
                       client := some (Client.init start min), oldest := start,
                       fwdDone := false, pendingMin := none }
    let s := Sync.run true parse none s0 evs
    s.saved <+: anc ∧
    ∀ j, s.vw.seen.contains j = true ↔
      v0.seen.contains j = true ∨ ∃ b ∈ s.saved, ∃ t ∈ b.txs, t.id = j ∧ t.expiry ≠ 0 := by
  intro s0 s
  have h0 : SInv v0 s0 := ⟨rfl, rfl, Client.init start min, rfl, rfl, rfl, rfl⟩
  obtain ⟨_, _, c, hc, h1, _, h3⟩ := sync_run_inv (parse := parse) true evs s0 h0
  -- the syncer's client state is the client run on the same events
  have hrun : ∀ (evs : List Event) (s : Sync) (c : Client), SInv v0 s → s.client = some c →
      (Sync.run true parse none s evs).client = some (Client.run true parse c evs) := by
    intro evs
    induction evs with
    | nil => intro s c _ hc; exact hc
    | cons ev rest ih =>
      intro s c hs hc
      have hs' := sync_step_inv (parse := parse) true hs ev
      refine ih _ _ hs' ?_
      obtain ⟨hf, hfd, c0, hc0, _⟩ := hs
      rw [hc] at hc0; cases hc0
      unfold Sync.step
      simp only [hc, hfd, Bool.false_eq_true, if_false]
      rw [consume_none _ { s with client := some (c.step true parse ev), pendingMin := none, fwdDone := false } hf]
  have hcr := hrun evs s0 _ h0 rfl
  rw [hc] at hcr
  cases hcr
  refine ⟨?_, fun j => ?_⟩
  · rw [h1]; exact emitted_is_ancestry_prefix hl hinj hgen min evs
  · rw [h3, h1]; exact tracked_after_backfill _ v0 j

/-! ### progress and termination -/

theorem pb_len (fixed : Bool) (raws : List Raw) (c : Client) (exp : Nat) :
    c.emitted.length ≤ (processBlocks fixed parse c exp raws).emitted.length := by
  obtain ⟨new, hn⟩ := emitted_grows_pb (parse := parse) fixed raws c exp
  rw [hn]; simp

/-- The first raw block of the answer parses to the block whose id is `lastBlock.parent`. -/
def honestB (parse : Raw → Option Block) (c : Client) (ev : Event) : Bool :=
  match ev.resp with
  | .blocks (raw :: _) =>
    match parse raw with
    | some b => b.id == c.last.parent
    | none => false
  | _ => false

/-- **Progress.** An open client that receives an answer starting with its real parent block
emits at least one more block. -/
theorem progress_on_honest_response (fixed : Bool) (c : Client) (ev : Event)
    (ho : c.isClosed fixed = false) (hh : honestB parse c ev = true) :
    c.emitted.length + 1 ≤ (c.step fixed parse ev).emitted.length := by
  unfold Client.step
  simp only [ho, Bool.false_eq_true, if_false]
  unfold honestB at hh
  cases hr : ev.resp with
  | err => simp [hr] at hh
  | blocks raws =>
    cases raws with
    | nil => simp [hr] at hh
    | cons raw rs =>
      simp only [hr] at hh
      cases hp : parse raw with
      | none => simp [hp] at hh
      | some b =>
        simp only [hp, beq_iff_eq] at hh
        simp only []
        unfold processBlocks
        simp only [hp, hh, ne_eq, not_true_eq_false, if_false]
        by_cases hs : stopCond fixed b ev.newMin = true
        · simp [hs]
        · simp only [hs, Bool.false_eq_true, if_false]
          refine Nat.le_trans ?_ (pb_len fixed rs _ _)
          simp

def countHonest (parse : Raw → Option Block) : Client → List Event → Nat
  | _, [] => 0
  | c, ev :: evs =>
    (if !c.isClosed true && honestB parse c ev then 1 else 0) +
      countHonest parse (c.step true parse ev) evs

theorem closed_stays (c : Client) (ev : Event) (h : c.isClosed true = true) :
    (c.step true parse ev).isClosed true = true := by
  unfold Client.step
  rw [if_pos h]
  simp [Client.isClosed]

/-- **Termination.** Whatever else the peers send (garbage, errors, forged blocks, in any
order), once they have answered honestly at least as many times as there are ancestors left,
the repaired client has closed the channel: backfill completes at the latest at genesis. -/
theorem terminates_past_window (hinj : IdInj parse anc) (hgen : (lastOf start anc).height = 0) :
    ∀ (evs : List Event) (c : Client), CInv start anc c →
      anc.length - c.emitted.length ≤ countHonest parse c evs →
      (Client.run true parse c evs).isClosed true = true := by
  intro evs
  induction evs with
  | nil =>
    intro c hc hcount
    simp only [countHonest, Nat.le_zero_eq] at hcount
    obtain ⟨rest, h1, h2, _⟩ := hc
    have hlen : anc.length = c.emitted.length + rest.length := by rw [h1]; simp
    have hr : rest = [] := by
      cases rest with
      | nil => rfl
      | cons x xs => simp at hlen; omega
    subst hr
    simp at h1
    have : c.last.height = 0 := by rw [h2, ← h1]; exact hgen
    simp [Client.run, Client.isClosed, stopCond, this]
  | cons ev rest ih =>
    intro c hc hcount
    simp only [Client.run]
    cases ho : c.isClosed true with
    | true =>
      -- closed stays closed
      have : ∀ (evs : List Event) (c : Client), c.isClosed true = true →
          (Client.run true parse c evs).isClosed true = true := by
        intro evs
        induction evs with
        | nil => intro c h; exact h
        | cons e es ih2 => intro c h; exact ih2 _ (closed_stays c e h)
      exact this rest _ (closed_stays c ev ho)
    | false =>
      apply ih _ (step_inv hinj hgen hc ev)
      simp only [countHonest, ho, Bool.not_false, Bool.true_and] at hcount
      obtain ⟨new, hn⟩ := emitted_grows_step (parse := parse) true c ev
      by_cases hh : honestB parse c ev = true
      · have := progress_on_honest_response (parse := parse) true c ev ho hh
        simp only [hh, if_true] at hcount
        omega
      · simp only [hh, Bool.false_eq_true, if_false, Nat.zero_add] at hcount
        rw [hn]; simp; omega

/-! #### why the channel was closed -/

/-- `close(resultChan)` has been executed only if the stop test held for `lastBlock` with the
minimum timestamp read at that moment (which the model freezes in `c.min` from then on). -/
def ClosedOK (fixed : Bool) (c : Client) : Prop :=
  c.closed = true → stopCond fixed c.last c.min = true

theorem pb_closedOK (fixed : Bool) : ∀ (raws : List Raw) (c : Client) (exp : Nat),
    c.closed = false → ClosedOK fixed (processBlocks fixed parse c exp raws) := by
  intro raws
  induction raws with
  | nil => intro c exp hc h; simp [processBlocks, hc] at h
  | cons raw rs ih =>
    intro c exp hc
    unfold processBlocks
    cases parse raw with
    | none => intro h; simp [hc] at h
    | some b =>
      simp only []
      by_cases hid : exp ≠ b.id
      · rw [if_pos hid]; intro h; simp [hc] at h
      · rw [if_neg hid]
        by_cases hs : stopCond fixed b c.min = true
        · rw [if_pos hs]; intro _; exact hs
        · rw [if_neg hs]; exact ih _ _ hc

theorem step_closedOK (fixed : Bool) (c : Client) (ev : Event) (hc : ClosedOK fixed c) :
    ClosedOK fixed (c.step fixed parse ev) := by
  unfold Client.step
  cases ho : c.isClosed fixed with
  | true =>
    simp only [if_true]
    intro _
    cases hcl : c.closed with
    | true => exact hc hcl
    | false => simpa [Client.isClosed, hcl] using ho
  | false =>
    simp only [Bool.false_eq_true, if_false]
    have hcl : c.closed = false := by
      cases h : c.closed with
      | false => rfl
      | true => simp [Client.isClosed, h] at ho
    cases ev.resp with
    | err => intro h; simp [hcl] at h
    | blocks raws => exact pb_closedOK fixed raws _ _ hcl

/-- **Closed for the right reason only, over every run**: whenever the client counts as closed
after any sequence of peer events, `lastBlock` is older than the minimum timestamp that was in
force when it closed, or (repaired loop) is genesis. -/
theorem closed_reason (fixed : Bool) (start : Block) (min0 : Int) (evs : List Event) :
    let c := Client.run fixed parse (Client.init start min0) evs
    c.isClosed fixed = true → c.last.ts < c.min ∨ (fixed = true ∧ c.last.height = 0) := by
  have key : ∀ (evs : List Event) (c : Client), ClosedOK fixed c →
      ClosedOK fixed (Client.run fixed parse c evs) := by
    intro evs
    induction evs with
    | nil => intro c hc; exact hc
    | cons ev rest ih => intro c hc; exact ih _ (step_closedOK fixed c ev hc)
  intro c hcl
  have hok : ClosedOK fixed c := key evs _ (by intro h; simp [Client.init] at h)
  have hs : stopCond fixed c.last c.min = true := by
    cases hcc : c.closed with
    | true => exact hok hcc
    | false => simpa [Client.isClosed, hcc] using hcl
  simpa [stopCond] using hs

theorem lastOf_mem (start : Block) (l : List Block) : lastOf start l ∈ start :: l := by
  unfold lastOf
  cases h : l.getLast? with
  | none => simp
  | some x => simp [List.mem_of_getLast? h]

/-- **Backfill completes only past the window edge.** If the (repaired) client is closed, then
every real ancestor whose timestamp is at least the minimum timestamp in force has been emitted
(hence saved and tracked): the emitted prefix reaches the first ancestor older than the minimum,
or genesis. `hsorted`: along `start :: anc` timestamps do not increase and heights decrease
(C11). -/
theorem closed_covers_min (hl : Linked start.parent anc) (hinj : IdInj parse anc)
    (hgen : (lastOf start anc).height = 0)
    (hsorted : (start :: anc).Pairwise (fun a b => b.ts ≤ a.ts ∧ b.height < a.height))
    (min0 : Int) (evs : List Event) (c : Client)
    (hc : c = Client.run true parse (Client.init start min0) evs) :
    c.isClosed true = true → ∀ A ∈ anc, c.min ≤ A.ts → A ∈ c.emitted := by
  subst hc
  intro hcl A hA hmin
  obtain ⟨rest, h1, h2, _⟩ := run_inv hinj hgen evs _ (cinv_init hl min0)
  have hreason := closed_reason (parse := parse) true start min0 evs hcl
  rw [h1] at hA
  rcases List.mem_append.mp hA with hm | hm
  · exact hm
  · exfalso
    have hsplit : start :: anc = (start :: (Client.run true parse (Client.init start min0) evs).emitted) ++ rest := by
      rw [h1]; simp
    rw [hsplit] at hsorted
    have hrel := (List.pairwise_append.mp hsorted).2.2 _ (lastOf_mem start _) A hm
    rw [← h2] at hrel
    rcases hreason with hlt | ⟨_, h0⟩
    · omega
    · omega

/-! ### the defect in the code as found -/

theorem pb_unfixed_genesis (g : Block) (hparse : ∀ r b, parse r = some b → b.id ≠ g.parent)
    (raws : List Raw) (c : Client) : processBlocks false parse c g.parent raws = c := by
  cases raws with
  | nil => simp [processBlocks]
  | cons raw rs =>
    unfold processBlocks
    cases hp : parse raw with
    | none => rfl
    | some b =>
      have := hparse raw b hp
      simp only []
      rw [if_pos (fun h => this h.symm)]

/-- **Counterexample for the unrepaired loop** (`fixed = false`): if the oldest local block is
a genesis `g` whose timestamp never drops below the minimum timestamp, then for *every* list of
peer events — including perfectly honest peers — the client never closes the channel and
emits nothing: the backfill never completes. (`hparse`: nothing parses to a block whose id is
genesis' parent id, i.e. the empty id.) -/
theorem c22_counterexample (g : Block) (hparse : ∀ r b, parse r = some b → b.id ≠ g.parent)
    (min0 : Int) (h0 : min0 ≤ g.ts) :
    ∀ (evs : List Event), (∀ ev ∈ evs, ev.newMin ≤ g.ts) →
      (Client.run false parse (Client.init g min0) evs).isClosed false = false ∧
      (Client.run false parse (Client.init g min0) evs).emitted = [] := by
  have key : ∀ (evs : List Event) (c : Client), c.last = g → c.min ≤ g.ts → c.closed = false →
      c.emitted = [] → (∀ ev ∈ evs, ev.newMin ≤ g.ts) →
      (Client.run false parse c evs).isClosed false = false ∧
      (Client.run false parse c evs).emitted = [] := by
    intro evs
    induction evs with
    | nil =>
      intro c hl hm hc he _
      refine ⟨?_, he⟩
      simp [Client.run, Client.isClosed, hc, stopCond, hl]; omega
    | cons ev rest ih =>
      intro c hl hm hc he hev
      have hopen : c.isClosed false = false := by
        simp [Client.isClosed, hc, stopCond, hl]; omega
      have hstep : c.step false parse ev = { c with min := ev.newMin } := by
        unfold Client.step
        simp only [hopen, Bool.false_eq_true, if_false]
        cases ev.resp with
        | err => rfl
        | blocks raws =>
          simp only [hl]
          exact pb_unfixed_genesis g hparse raws _
      simp only [Client.run, hstep]
      exact ih _ hl (hev ev List.mem_cons_self) hc he (fun e he' => hev e (List.mem_cons_of_mem _ he'))
  intro evs hev
  exact key evs _ rfl h0 rfl rfl hev

/-! ### the forward path (`UpdateSyncTarget`)

While the backward fetch is slow or failing, consensus keeps delivering new targets; the syncer
`Accept`s each and declares the window complete (`Close()`: done + cancel of the fetch) as soon
as `target.ts - oldestBlock.ts > W` (`forwardRule`, strict), where `oldestBlock` is the oldest
block `populate` found locally at `Start`. Setting as in C09 (`WF U W`). -/

section forward
open HyperModel.Proofs.ValidityWindow
variable {U : Universe} {W : Int}

/-- States of the window under `Start(target0)` followed by any interleaving of forward targets
(each extending the previous one) and backfilled historical blocks. `oldest` is
`validityBlocks[0]` of the `populate` at `Start`; the list is every block given to the window
so far (`populate`'s blocks, targets, historical blocks). -/
inductive Fwd (U : Universe) (W : Int) (oldest : Block) : VW → Block → List Block → Prop
  | start {idx : Index} {fuel : Nat} {t0 : Block} {v0 v : VW} {chron : List Block} {full : Bool} :
      (∀ i b, idx i = some b → U i = some b) → InU U t0 → Prov U v0.seen →
      populate idx W v0 fuel t0 = (v, chron, full) → chron.head? = some oldest →
      Fwd U W oldest v t0 chron
  | target {v : VW} {t t' : Block} {got : List Block} :
      Fwd U W oldest v t got → InU U t' → U t'.parent = some t →
      Fwd U W oldest (accept v t') t' (t' :: got)
  | hist {v : VW} {t b : Block} {got : List Block} :
      Fwd U W oldest v t got → InU U b → Fwd U W oldest (acceptHistorical v b) t (b :: got)

/-- Invariant of these states: every still-includable tx of every block given so far is
tracked, and everything strictly newer than `oldest` on the target's chain has been given. -/
structure FInv (U : Universe) (oldest : Block) (v : VW) (t : Block) (got : List Block) : Prop where
  height : v.lastAccepted = t.height
  prov : Prov U v.seen
  anc : Anc U oldest t
  inU : InU U t
  gotU : ∀ b ∈ got, InU U b
  track : ∀ A ∈ got, ∀ x ∈ A.txs, t.ts ≤ x.expiry → v.seen.contains x.id = true
  chain : ∀ A, Anc U A t → oldest.ts < A.ts → A ∈ got

theorem fwd_inv (h : WF U W) {oldest : Block} {v : VW} {t : Block} {got : List Block}
    (hf : Fwd U W oldest v t got) : FInv U oldest v t got := by
  induction hf with
  | @start idx fuel t0 v0 v chron full hidx hT hp0 hpop hhead =>
    unfold populate at hpop
    have e := Prod.mk.inj hpop
    have e2 := Prod.mk.inj e.2
    obtain ⟨pre, hch, hanc, hlow, hcov⟩ := populateWalk_chain h hidx (oldestAllowed W t0.ts) fuel t0 [t0] _ _ hT
      (rfl : populateWalk idx (oldestAllowed W t0.ts) fuel t0 [t0] = (_, _))
    rw [e2.1] at hch
    have hold : pre.head?.getD t0 = oldest := by
      rw [hch] at hhead
      cases pre with
      | nil => simpa using hhead
      | cons x xs => simpa using hhead
    rw [hold] at hlow hcov
    have hall : ∀ b ∈ chron, InU U b ∧ b.ts ≤ t0.ts := by
      intro b hb
      rw [hch] at hb
      rcases List.mem_append.mp hb with hb | hb
      · exact ⟨Anc.inU h (hanc b hb) hT, (Anc.le h (hanc b hb) hT).2⟩
      · have : b = t0 := by simpa using hb
        subst this; exact ⟨hT, Int.le_refl _⟩
    have hv := e.1
    rw [e2.1] at hv
    obtain ⟨P, _, C⟩ := fold_accept h t0.ts chron v0 hp0 hall
    rw [hv] at P C
    have hlast : v.lastAccepted = t0.height := by
      rw [← hv, hch]; exact fold_accept_last pre t0 v0
    have hoU := Anc.inU h hlow hT
    refine ⟨hlast, P, hlow, hT, fun b hb => (hall b hb).1, C, fun A hA hlt => ?_⟩
    rw [hch]
    rcases hcov A hA with rfl | hm | hlo
    · simp
    · exact List.mem_append.mpr (Or.inl hm)
    · have := (Anc.le h hlo hoU).2; omega
  | @target v t t' got _ hb hpar ih =>
    have hlk := h.link t' t hb hpar
    refine ⟨rfl, prov_accept ih.prov hb, Anc.step hpar ih.anc, hb, ?_, ?_, ?_⟩
    · intro b hb'
      cases hb' with
      | head => exact hb
      | tail _ hm => exact ih.gotU b hm
    · intro A hA x hx hexp
      cases hA with
      | head =>
        obtain ⟨e, hg⟩ := addAll_get_of_mem (s := v.seen.setMin t'.ts) hx (h.txs_valid t' hb x hx).2.2
        exact contains_of_get hg
      | tail _ hm =>
        obtain ⟨e, hg⟩ := get_of_contains (ih.track A hm x hx (by omega))
        have he : e = x.expiry := stored_eq h ih.prov (ih.gotU A hm) hx hg
        exact contains_of_get (addAll_get_of_some (setMin_get.mpr ⟨hg, by omega⟩))
    · intro A hA hlt
      cases hA with
      | refl => exact List.mem_cons_self
      | step hp2 hA2 =>
        rw [hpar] at hp2; cases hp2
        exact List.mem_cons_of_mem _ (ih.chain A hA2 hlt)
  | @hist v t b got _ hb ih =>
    refine ⟨ih.height, prov_addAll ih.prov hb, ih.anc, ih.inU, ?_, ?_, fun A hA hlt =>
      List.mem_cons_of_mem _ (ih.chain A hA hlt)⟩
    · intro b' hb'
      cases hb' with
      | head => exact hb
      | tail _ hm => exact ih.gotU b' hm
    · intro A hA x hx hexp
      cases hA with
      | head =>
        obtain ⟨e, hg⟩ := addAll_get_of_mem (s := v.seen) hx (h.txs_valid b hb x hx).2.2
        exact contains_of_get hg
      | tail _ hm =>
        obtain ⟨e, hg⟩ := get_of_contains (ih.track A hm x hx hexp)
        exact contains_of_get (addAll_get_of_some hg)

/-- **Forward completion is sound.** When the syncer's forward rule fires for target `t`
(`t.ts - oldestBlock.ts > W`), the window state satisfies the full C09 invariant at `t`: every
tx of `t` or of any ancestor of `t` that a later block could still include (`t.ts ≤ expiry`,
hence ancestor timestamp `≥ t.ts − W`) is tracked — so cancelling the backfill is safe. -/
theorem forward_done_implies_window_covered (h : WF U W) {oldest : Block} {v : VW} {t : Block}
    {got : List Block} (hf : Fwd U W oldest v t got) (hd : forwardRule W oldest t = true) :
    SeenInv U v t := by
  have inv := fwd_inv h hf
  have hd' : t.ts - oldest.ts > W := by simpa [forwardRule] using hd
  refine ⟨inv.height, fun A hA x hx hexp => ?_, inv.prov⟩
  have hAU := Anc.inU h hA inv.inU
  have hv := h.txs_valid A hAU x hx
  exact inv.track A (inv.chain A hA (by omega)) x hx hexp

/-- Window level: if the blocks given to the window cover every ancestor-or-self of the
current target `t` with timestamp `≥ oldestAllowed t.ts`, the full C09 invariant holds at `t`.
(The coverage premise is discharged from `Sync.done` in `backfill_done_implies_window_covered`.) -/
theorem window_covered_of_cover (h : WF U W) {oldest : Block} {v : VW}
    {t : Block} {got : List Block} (hf : Fwd U W oldest v t got)
    (hcover : ∀ A, Anc U A t → oldestAllowed W t.ts ≤ A.ts → A ∈ got) : SeenInv U v t := by
  have inv := fwd_inv h hf
  refine ⟨inv.height, fun A hA x hx hexp => ?_, inv.prov⟩
  have hAU := Anc.inU h hA inv.inU
  exact inv.track A (hcover A hA (oldest_le_of_valid h hAU hx hexp)) x hx hexp

/-- Link to the syncer machine, one step each: `Sync.target` is `Fwd.target`, and the consumer
(`Sync.consume`, any `failAt`) is a sequence of `Fwd.hist` steps over a prefix of the blocks. -/
theorem fwd_of_target {oldest : Block} {s : Sync} {t t' : Block} {got : List Block}
    (hf : Fwd U W oldest s.vw t got) (hb : InU U t') (hpar : U t'.parent = some t) :
    Fwd U W oldest (s.target W t').vw t' (t' :: got) := by
  unfold Sync.target
  split <;> exact Fwd.target hf hb hpar

theorem fwd_of_consume {oldest : Block} {t : Block} (failAt : Option Nat) :
    ∀ (l : List Block) (s : Sync) (got : List Block), Fwd U W oldest s.vw t got →
      (∀ b ∈ l, InU U b) → ∃ got', Fwd U W oldest (Sync.consume failAt s l).vw t got' ∧
        (∀ b ∈ got, b ∈ got') ∧ (∀ b ∈ (Sync.consume failAt s l).saved, b ∈ s.saved ∨ b ∈ got') := by
  intro l
  induction l with
  | nil => intro s got hf _; exact ⟨got, hf, fun _ hb => hb, fun b hb => Or.inl hb⟩
  | cons b rest ih =>
    intro s got hf hl
    unfold Sync.consume
    by_cases hfail : s.failed = true
    · simp only [hfail, if_true]; exact ⟨got, hf, fun _ hb => hb, fun b hb => Or.inl hb⟩
    · simp only [hfail, Bool.false_eq_true, if_false]
      by_cases hfa : (failAt == some s.consumed) = true
      · simp only [hfa, if_true]; exact ⟨got, hf, fun _ hb => hb, fun b hb => Or.inl hb⟩
      · simp only [hfa, Bool.false_eq_true, if_false]
        obtain ⟨got', hf', hsub, hsaved⟩ := ih
          { s with vw := acceptHistorical s.vw b, saved := s.saved ++ [b], consumed := s.consumed + 1, failed := false }
          (b :: got) (Fwd.hist hf (hl b List.mem_cons_self)) (fun x hx => hl x (List.mem_cons_of_mem _ hx))
        refine ⟨got', hf', fun x hx => hsub x (List.mem_cons_of_mem _ hx), fun x hx => ?_⟩
        rcases hsaved x hx with h1 | h1
        · rcases List.mem_append.mp h1 with h2 | h2
          · exact Or.inl h2
          · have : x = b := by simpa using h2
            subst this; exact Or.inr (hsub _ List.mem_cons_self)
        · exact Or.inr h1

/-- `UpdateSyncTarget` in the model sets done exactly by the strict rule. -/
theorem target_done_iff (s : Sync) (t : Block) (hs : s.fwdDone = false) :
    (s.target W t).fwdDone = true ↔ t.ts - s.oldest.ts > W := by
  unfold Sync.target
  by_cases hr : forwardRule W s.oldest t = true
  · simp [hr]; simpa [forwardRule] using hr
  · simp [hr, hs]; simpa [forwardRule] using hr

/-! ### end to end: `Sync.done` ⇒ the validity window of the current target is covered

The syncer machine is run over an arbitrary list of operations: peer answers (`ev`: any error
or any list of byte strings; the minimum timestamp the client sees is the one the syncer
stored, `Sync.effMin none`) and forward targets (`tgt`, each a tree block extending the previous
target), with storage failing from any index on (`failAt`). -/

/-- `l` is the list of all proper ancestors of `b` in the tree, nearest first, down to a block
of height 0 (the real hash-linked ancestry). -/
def AncList (U : Universe) : Block → List Block → Prop
  | b, [] => b.height = 0
  | b, p :: rest => U b.parent = some p ∧ AncList U p rest

theorem ancList_linked (h : WF U W) : ∀ (l : List Block) (b : Block), AncList U b l →
    Linked b.parent l := by
  intro l
  induction l with
  | nil => intro b _; trivial
  | cons p rest ih => intro b ⟨hp, hr⟩; exact ⟨h.id_eq _ _ hp, ih p hr⟩

theorem ancList_anc (h : WF U W) : ∀ (l : List Block) (b : Block), AncList U b l →
    ∀ a ∈ l, ∃ p, U b.parent = some p ∧ Anc U a p := by
  intro l
  induction l with
  | nil => intro b _ a ha; simp at ha
  | cons p rest ih =>
    intro b ⟨hp, hr⟩ a ha
    cases ha with
    | head => exact ⟨p, hp, Anc.refl _⟩
    | tail _ hm =>
      obtain ⟨q, hq, haq⟩ := ih p hr a hm
      exact ⟨p, hp, Anc.trans haq (Anc.step hq (Anc.refl _))⟩

theorem ancList_inU (h : WF U W) {l : List Block} {b : Block} (hl : AncList U b l) :
    ∀ a ∈ l, InU U a := by
  intro a ha
  obtain ⟨p, hp, hap⟩ := ancList_anc h l b hl a ha
  exact Anc.inU h hap (inU_of_lookup h hp)

theorem ancList_mem_anc (h : WF U W) {l : List Block} {b : Block} (hl : AncList U b l) :
    ∀ a ∈ l, Anc U a b := by
  intro a ha
  obtain ⟨p, hp, hap⟩ := ancList_anc h l b hl a ha
  exact Anc.step hp hap

theorem lastOf_cons (b p : Block) (rest : List Block) : lastOf b (p :: rest) = lastOf p rest := by
  cases rest with
  | nil => simp [lastOf]
  | cons q r =>
    simp only [lastOf, List.getLast?_cons_cons]
    cases hg : (q :: r).getLast? with
    | none => simp at hg
    | some x => simp

theorem ancList_gen : ∀ (l : List Block) (b : Block), AncList U b l → (lastOf b l).height = 0 := by
  intro l
  induction l with
  | nil => intro b hb; simpa [lastOf, AncList] using hb
  | cons p rest ih => intro b ⟨_, hr⟩; rw [lastOf_cons]; exact ih p hr

theorem ancList_sorted (h : WF U W) : ∀ (l : List Block) (b : Block), InU U b → AncList U b l →
    (b :: l).Pairwise (fun a c => c.ts ≤ a.ts ∧ c.height < a.height) := by
  intro l
  induction l with
  | nil => intro b _ _; simp
  | cons p rest ih =>
    intro b hb hl
    refine List.pairwise_cons.mpr ⟨fun a ha => ?_, ih p (inU_of_lookup h hl.1) hl.2⟩
    obtain ⟨q, hq, haq⟩ := ancList_anc h (p :: rest) b hl a ha
    have h1 := h.link b q hb hq
    have h2 := Anc.le h haq (inU_of_lookup h hq)
    omega

theorem ancList_complete (h : WF U W) : ∀ (l : List Block) (b : Block), InU U b → AncList U b l →
    ∀ A, Anc U A b → A = b ∨ A ∈ l := by
  intro l
  induction l with
  | nil =>
    intro b hb h0 A hA
    cases hA with
    | refl => exact Or.inl rfl
    | step hp _ => have := h.link b _ hb hp; simp [AncList] at h0; omega
  | cons p rest ih =>
    intro b hb ⟨hp, hr⟩ A hA
    cases hA with
    | refl => exact Or.inl rfl
    | step hp2 hA2 =>
      rw [hp] at hp2; cases hp2
      rcases ih p (inU_of_lookup h hp) hr A hA2 with rfl | hm
      · exact Or.inr List.mem_cons_self
      · exact Or.inr (List.mem_cons_of_mem _ hm)

/-- State form of `closed_covers_min`. -/
theorem covers_of_closed {c : Client} (hc : CInv start anc c) (hok : ClosedOK true c)
    (hsorted : (start :: anc).Pairwise (fun a b => b.ts ≤ a.ts ∧ b.height < a.height))
    (hcl : c.isClosed true = true) : ∀ A ∈ anc, c.min ≤ A.ts → A ∈ c.emitted := by
  intro A hA hmin
  obtain ⟨rest, h1, h2, _⟩ := hc
  have hs : stopCond true c.last c.min = true := by
    cases hcc : c.closed with
    | true => exact hok hcc
    | false => simpa [Client.isClosed, hcc] using hcl
  have hreason : c.last.ts < c.min ∨ c.last.height = 0 := by simpa [stopCond] using hs
  rw [h1] at hA
  rcases List.mem_append.mp hA with hm | hm
  · exact hm
  · exfalso
    have hsplit : start :: anc = (start :: c.emitted) ++ rest := by rw [h1]; simp
    rw [hsplit] at hsorted
    have hrel := (List.pairwise_append.mp hsorted).2.2 _ (lastOf_mem start _) A hm
    rw [← h2] at hrel
    rcases hreason with hlt | h0 <;> omega

theorem pb_min (fixed : Bool) : ∀ (raws : List Raw) (c : Client) (exp : Nat),
    (processBlocks fixed parse c exp raws).min = c.min := by
  intro raws
  induction raws with
  | nil => intro c exp; simp [processBlocks]
  | cons raw rs ih =>
    intro c exp
    unfold processBlocks
    cases parse raw with
    | none => rfl
    | some b =>
      simp only []
      by_cases hid : exp ≠ b.id
      · rw [if_pos hid]
      · rw [if_neg hid]
        by_cases hs : stopCond fixed b c.min = true
        · rw [if_pos hs]
        · rw [if_neg hs]; rw [ih]

theorem step_min (fixed : Bool) (c : Client) (ev : Event) :
    (c.step fixed parse ev).min = c.min ∨ (c.step fixed parse ev).min = ev.newMin := by
  unfold Client.step
  cases c.isClosed fixed with
  | true => exact Or.inl rfl
  | false =>
    simp only [Bool.false_eq_true, if_false]
    cases ev.resp with
    | err => exact Or.inr rfl
    | blocks raws => right; rw [pb_min]

theorem oldestAllowed_mono {a b : Int} (hab : a ≤ b) : oldestAllowed W a ≤ oldestAllowed W b := by
  unfold oldestAllowed; omega

/-- One operation of the syncer as the environment sees it. -/
inductive SOp where
  | ev (r : Resp)
  | tgt (t : Block)

def stepOp (parse : Raw → Option Block) (failAt : Option Nat) (W : Int) (s : Sync) : SOp → Sync
  | .ev r => s.step true parse failAt { newMin := s.effMin none, resp := r }
  | .tgt t => s.target W t

def runOps (parse : Raw → Option Block) (failAt : Option Nat) (W : Int) (s : Sync) :
    List SOp → Sync
  | [] => s
  | op :: rest => runOps parse failAt W (stepOp parse failAt W s op) rest

/-- the sync target after the operations -/
def curTarget : Block → List SOp → Block
  | t, [] => t
  | t, .ev _ :: rest => curTarget t rest
  | _, .tgt t' :: rest => curTarget t' rest

/-- every forward target is a tree block extending the previous target -/
def TargetsOK (U : Universe) : Block → List SOp → Prop
  | _, [] => True
  | t, .ev _ :: rest => TargetsOK U t rest
  | t, .tgt t' :: rest => InU U t' ∧ U t'.parent = some t ∧ TargetsOK U t' rest

/-- What the consumer does with a list of freshly emitted blocks. -/
theorem consume_spec (failAt : Option Nat) : ∀ (l : List Block) (s : Sync),
    ∃ k, k ≤ l.length ∧
      (Sync.consume failAt s l).saved = s.saved ++ l.take k ∧
      (Sync.consume failAt s l).consumed = s.consumed + k ∧
      ((Sync.consume failAt s l).failed = false → k = l.length ∧ s.failed = false) ∧
      (Sync.consume failAt s l).client = s.client ∧ (Sync.consume failAt s l).oldest = s.oldest ∧
      (Sync.consume failAt s l).fwdDone = s.fwdDone ∧
      (Sync.consume failAt s l).pendingMin = s.pendingMin := by
  intro l
  induction l with
  | nil => intro s; exact ⟨0, by simp, by simp [Sync.consume], by simp [Sync.consume],
            fun hf => ⟨rfl, by simpa [Sync.consume] using hf⟩, rfl, rfl, rfl, rfl⟩
  | cons b rest ih =>
    intro s
    unfold Sync.consume
    by_cases hfail : s.failed = true
    · simp only [hfail, if_true]
      exact ⟨0, by simp, by simp, by simp, fun hf => by simp_all, by simp, by simp, by simp, by simp⟩
    · simp only [hfail, Bool.false_eq_true, if_false]
      by_cases hfa : (failAt == some s.consumed) = true
      · simp only [hfa, if_true]
        exact ⟨0, by simp, by simp, by simp, fun hf => by simp at hf, by simp, by simp, by simp, by simp⟩
      · simp only [hfa, Bool.false_eq_true, if_false]
        obtain ⟨k, hk, h1, h2, h3, h4, h5, h6, h7⟩ := ih
          { s with vw := acceptHistorical s.vw b, saved := s.saved ++ [b], consumed := s.consumed + 1, failed := false }
        refine ⟨k + 1, by simp; omega, ?_, ?_, ?_, h4, h5, h6, h7⟩
        · rw [h1]; simp
        · rw [h2]; simp; omega
        · intro hf
          have := h3 hf
          exact ⟨by simp; omega, by simpa using hfail⟩

/-- Soundness of the tracked set: every stored (id, expiry) was tracked initially (`base`) or is
a tx of one of the blocks `got` given to the window. -/
def Src (base : Seen) (got : List Block) (s : Seen) : Prop :=
  ∀ j e, s.get j = some e → base.get j = some e ∨ ∃ A ∈ got, ∃ x ∈ A.txs, x.id = j ∧ x.expiry = e

theorem src_mono {base s : Seen} {got got' : List Block} (hsub : ∀ b ∈ got, b ∈ got')
    (hs : Src base got s) : Src base got' s := by
  intro j e hg
  rcases hs j e hg with h1 | ⟨A, hA, hx⟩
  · exact Or.inl h1
  · exact Or.inr ⟨A, hsub A hA, hx⟩

theorem src_addAll {base s : Seen} {got : List Block} (b : Block) (hs : Src base got s) :
    Src base (b :: got) (s.addAll b.txs) := by
  intro j e hg
  rcases addAll_get_cases hg with h1 | ⟨x, hx, h2, h3⟩
  · exact (src_mono (fun a ha => List.mem_cons_of_mem _ ha) hs) j e h1
  · exact Or.inr ⟨b, List.mem_cons_self, x, hx, h2, h3⟩

theorem src_accept {base : Seen} {v : VW} {got : List Block} (b : Block) (hs : Src base got v.seen) :
    Src base (b :: got) (accept v b).seen := by
  apply src_addAll
  intro j e hg
  exact hs j e (setMin_get.mp hg).1

theorem src_fold {base : Seen} {g : List Block} : ∀ (L : List Block) (v : VW), Src base g v.seen →
    (∀ b ∈ L, b ∈ g) → Src base g (L.foldl accept v).seen := by
  intro L
  induction L with
  | nil => intro v hs _; exact hs
  | cons b rest ih =>
    intro v hs hL
    refine ih (accept v b) ?_ (fun x hx => hL x (List.mem_cons_of_mem _ hx))
    refine src_mono (fun a ha => ?_) (src_accept b hs)
    cases ha with
    | head => exact hL b List.mem_cons_self
    | tail _ hm => exact hm

/-- The invariant of the composed machine. `chron` = the blocks `populate` found locally at
`Start(t0)`, `oldest` its first (oldest) element, `anc` the real ancestry below `oldest`. -/
structure SI (U : Universe) (W : Int) (parse : Raw → Option Block) (anc chron : List Block)
    (base : Seen) (t0 oldest : Block) (s : Sync) (T : Block) (got : List Block) : Prop where
  fwd : Fwd U W oldest s.vw T got
  src : Src base got s.vw.seen
  old : s.oldest = oldest
  chronSub : ∀ b ∈ chron, b ∈ got
  j3 : ∀ A, Anc U A T → A ∈ got ∨ Anc U A t0
  tsMono : t0.ts ≤ T.ts
  fwdD : s.fwdDone = true → forwardRule W oldest T = true
  savedPre : s.saved <+: anc
  savedGot : ∀ b ∈ s.saved, b ∈ got
  gotChain : ∀ b ∈ got, Anc U b T
  clNone : s.client = none → ∀ A, Anc U A t0 → oldestAllowed W t0.ts ≤ A.ts → A ∈ chron
  clSome : ∀ c, s.client = some c →
    CInv oldest anc c ∧ ClosedOK true c ∧ c.min ≤ oldestAllowed W T.ts ∧
    (∀ m, s.pendingMin = some m → m ≤ oldestAllowed W T.ts) ∧
    s.consumed ≤ c.emitted.length ∧ s.saved = c.emitted.take s.consumed ∧
    (s.failed = false → s.consumed = c.emitted.length)

theorem populate_facts (h : WF U W) {idx : Index} (hidx : ∀ i b, idx i = some b → U i = some b)
    {v0 v : VW} {t0 : Block} {fuel : Nat} {chron : List Block} {full : Bool} (hT : InU U t0)
    (hpop : populate idx W v0 fuel t0 = (v, chron, full)) :
    chron.head? = some (chron.head?.getD t0) ∧ (chron.head?.getD t0) ∈ chron ∧
    (∀ b ∈ chron, Anc U b t0) ∧
    (∀ A, Anc U A t0 → A ∈ chron ∨ Anc U A (chron.head?.getD t0)) ∧
    (full = true → ∀ A, Anc U A t0 → oldestAllowed W t0.ts ≤ A.ts → A ∈ chron) := by
  unfold populate at hpop
  have e := Prod.mk.inj hpop
  have e2 := Prod.mk.inj e.2
  obtain ⟨pre, hch, hanc, hlow, hcov⟩ := populateWalk_chain h hidx (oldestAllowed W t0.ts) fuel t0 [t0] _ _ hT
    (rfl : populateWalk idx (oldestAllowed W t0.ts) fuel t0 [t0] = (_, _))
  obtain ⟨pre2, hch2, _, hfull⟩ := populateWalk_spec h hidx (oldestAllowed W t0.ts) fuel t0 [t0] _ _ hT
    (rfl : populateWalk idx (oldestAllowed W t0.ts) fuel t0 [t0] = (_, _))
  rw [e2.1] at hch hch2
  have hpre : pre2 = pre := by
    have := hch.symm.trans hch2
    exact (List.append_cancel_right this).symm
  subst hpre
  rw [e2.2] at hfull
  have hhd : chron.head?.getD t0 = pre2.head?.getD t0 := by
    rw [hch]; cases pre2 <;> simp
  rw [hhd]
  have hall : ∀ b ∈ chron, Anc U b t0 := by
    intro b hb; rw [hch] at hb
    rcases List.mem_append.mp hb with hb | hb
    · exact hanc b hb
    · have : b = t0 := by simpa using hb
      subst this; exact Anc.refl _
  refine ⟨by rw [hch]; cases pre2 <;> simp, by rw [hch]; cases pre2 <;> simp, hall, fun A hA => ?_,
    fun hf A hA hle => ?_⟩
  · rcases hcov A hA with rfl | hm | hlo
    · exact Or.inl (by rw [hch]; simp)
    · exact Or.inl (by rw [hch]; exact List.mem_append.mpr (Or.inl hm))
    · exact Or.inr hlo
  · rcases hfull hf A hA hle with rfl | hm
    · rw [hch]; simp
    · rw [hch]; exact List.mem_append.mpr (Or.inl hm)

/-- `fwd_of_consume` with the origin of the new blocks. -/
theorem fwd_of_consume' {oldest : Block} {t : Block} (failAt : Option Nat) :
    ∀ (l : List Block) (s : Sync) (got : List Block), Fwd U W oldest s.vw t got →
      (∀ b ∈ l, InU U b) → ∃ got', Fwd U W oldest (Sync.consume failAt s l).vw t got' ∧
        (∀ b ∈ got, b ∈ got') ∧ (∀ b ∈ got', b ∈ got ∨ b ∈ l) ∧
        (∀ b ∈ (Sync.consume failAt s l).saved, b ∈ s.saved ∨ b ∈ got') ∧
        (∀ base, Src base got s.vw.seen → Src base got' (Sync.consume failAt s l).vw.seen) := by
  intro l
  induction l with
  | nil => intro s got hf _; exact ⟨got, hf, fun _ hb => hb, fun _ hb => Or.inl hb, fun b hb => Or.inl hb, fun _ hs => hs⟩
  | cons b rest ih =>
    intro s got hf hl
    unfold Sync.consume
    by_cases hfail : s.failed = true
    · simp only [hfail, if_true]
      exact ⟨got, hf, fun _ hb => hb, fun _ hb => Or.inl hb, fun b hb => Or.inl hb, fun _ hs => hs⟩
    · simp only [hfail, Bool.false_eq_true, if_false]
      by_cases hfa : (failAt == some s.consumed) = true
      · simp only [hfa, if_true]
        exact ⟨got, hf, fun _ hb => hb, fun _ hb => Or.inl hb, fun b hb => Or.inl hb, fun _ hs => hs⟩
      · simp only [hfa, Bool.false_eq_true, if_false]
        obtain ⟨got', hf', hsub, horig, hsaved, hsrc⟩ := ih
          { s with vw := acceptHistorical s.vw b, saved := s.saved ++ [b], consumed := s.consumed + 1, failed := false }
          (b :: got) (Fwd.hist hf (hl b List.mem_cons_self)) (fun x hx => hl x (List.mem_cons_of_mem _ hx))
        refine ⟨got', hf', fun x hx => hsub x (List.mem_cons_of_mem _ hx), fun x hx => ?_, fun x hx => ?_,
          fun base hs => hsrc base (src_addAll b hs)⟩
        · rcases horig x hx with h1 | h1
          · cases h1 with
            | head => exact Or.inr List.mem_cons_self
            | tail _ hm => exact Or.inl hm
          · exact Or.inr (List.mem_cons_of_mem _ h1)
        · rcases hsaved x hx with h1 | h1
          · rcases List.mem_append.mp h1 with h2 | h2
            · exact Or.inl h2
            · have : x = b := by simpa using h2
              subst this; exact Or.inr (hsub _ List.mem_cons_self)
          · exact Or.inr h1

variable {anc chron : List Block} {t0 oldest : Block} {parse : Raw → Option Block} {base : Seen}

theorem si_tgt (h : WF U W) {s : Sync} {T t' : Block} {got : List Block}
    (hs : SI U W parse anc chron base t0 oldest s T got) (hb : InU U t') (hpar : U t'.parent = some T) :
    SI U W parse anc chron base t0 oldest (s.target W t') t' (t' :: got) := by
  have hlk := h.link t' T hb hpar
  have hvw : (s.target W t').vw = accept s.vw t' := by unfold Sync.target; split <;> rfl
  have hsv : (s.target W t').saved = s.saved := by unfold Sync.target; split <;> rfl
  have hcl : (s.target W t').client = s.client := by unfold Sync.target; split <;> rfl
  have hol : (s.target W t').oldest = s.oldest := by unfold Sync.target; split <;> rfl
  have hco : (s.target W t').consumed = s.consumed := by unfold Sync.target; split <;> rfl
  have hfa : (s.target W t').failed = s.failed := by unfold Sync.target; split <;> rfl
  have hmono := oldestAllowed_mono (W := W) hlk.2
  refine ⟨by rw [hvw]; exact Fwd.target hs.fwd hb hpar, by rw [hvw]; exact src_accept t' hs.src,
    by rw [hol]; exact hs.old,
    fun b hb' => List.mem_cons_of_mem _ (hs.chronSub b hb'), ?_, by have := hs.tsMono; omega, ?_,
    by rw [hsv]; exact hs.savedPre, fun b hb' => List.mem_cons_of_mem _ (hs.savedGot b (by rwa [hsv] at hb')),
    ?_, fun hn => hs.clNone (by rwa [hcl] at hn), ?_⟩
  · intro A hA
    cases hA with
    | refl => exact Or.inl List.mem_cons_self
    | step hp2 hA2 =>
      rw [hpar] at hp2; cases hp2
      rcases hs.j3 A hA2 with h1 | h1
      · exact Or.inl (List.mem_cons_of_mem _ h1)
      · exact Or.inr h1
  · intro hfd
    unfold Sync.target at hfd
    split at hfd
    · next hr => rw [← hs.old]; exact hr
    · have := hs.fwdD hfd
      simp only [forwardRule, decide_eq_true_eq] at this ⊢
      omega
  · intro b hb'
    cases hb' with
    | head => exact Anc.refl _
    | tail _ hm => exact Anc.step hpar (hs.gotChain b hm)
  · intro c hc
    rw [hcl] at hc
    obtain ⟨h1, h2, h3, h4, h5, h6, h7⟩ := hs.clSome c hc
    refine ⟨h1, h2, by omega, ?_, by rw [hco]; exact h5, by rw [hsv, hco]; exact h6,
      by rw [hfa, hco]; exact h7⟩
    intro m hm
    unfold Sync.target at hm
    split at hm
    · have := h4 m hm; omega
    · simp at hm; omega

theorem si_ev (h : WF U W) (hanc : AncList U oldest anc) (hinj : IdInj parse anc)
    (failAt : Option Nat) {s : Sync} {T : Block} {got : List Block}
    (hs : SI U W parse anc chron base t0 oldest s T got) (r : Resp) :
    ∃ got', SI U W parse anc chron base t0 oldest
      (s.step true parse failAt { newMin := s.effMin none, resp := r }) T got' := by
  unfold Sync.step
  by_cases hfd : s.fwdDone = true
  · rw [if_pos hfd]; exact ⟨got, hs⟩
  · rw [if_neg hfd]
    cases hcl : s.client with
    | none => exact ⟨got, hs⟩
    | some c =>
      simp only []
      obtain ⟨hci, hok, hmin, hpend, hcons, hsaved, hall⟩ := hs.clSome c hcl
      have hgen := ancList_gen anc oldest hanc
      obtain ⟨ev, hev⟩ : ∃ ev : Event, ev = { newMin := s.effMin none, resp := r } := ⟨_, rfl⟩
      rw [← hev]
      have hci' := step_inv (parse := parse) hinj hgen hci ev
      have hok' := step_closedOK (parse := parse) true c ev hok
      obtain ⟨new, hnew⟩ := emitted_grows_step (parse := parse) true c ev
      have hmin' : (c.step true parse ev).min ≤ oldestAllowed W T.ts := by
        rcases step_min (parse := parse) true c ev with e | e
        · rw [e]; exact hmin
        · rw [e, hev]
          show s.effMin none ≤ _
          unfold Sync.effMin
          cases hp : s.pendingMin with
          | some m => simp only [hcl]; exact hpend m hp
          | none => simp only [hcl]; exact hmin
      have hpre' : (c.step true parse ev).emitted <+: anc := by
        obtain ⟨rest, h1, _, _⟩ := hci'; exact ⟨rest, h1.symm⟩
      have hlU : ∀ b ∈ (c.step true parse ev).emitted.drop s.consumed, InU U b := fun b hb =>
        ancList_inU h hanc b (hpre'.subset (List.mem_of_mem_drop hb))
      obtain ⟨k, hk, c1, c2, c3, c4, c5, c6, c7⟩ := consume_spec failAt
        ((c.step true parse ev).emitted.drop s.consumed)
        { s with client := some (c.step true parse ev), pendingMin := none }
      obtain ⟨got', hf', hsub, horig, hsv, hsrc⟩ := fwd_of_consume' (U := U) (W := W) failAt
        ((c.step true parse ev).emitted.drop s.consumed)
        { s with client := some (c.step true parse ev), pendingMin := none } got hs.fwd hlU
      have hlen : ((c.step true parse ev).emitted.drop s.consumed).length =
          (c.step true parse ev).emitted.length - s.consumed := by simp
      have hge : c.emitted.length ≤ (c.step true parse ev).emitted.length := by rw [hnew]; simp
      have hsaved' : (Sync.consume failAt { s with client := some (c.step true parse ev), pendingMin := none }
          ((c.step true parse ev).emitted.drop s.consumed)).saved =
          (c.step true parse ev).emitted.take (s.consumed + k) := by
        rw [c1, List.take_add]
        congr 1
        show s.saved = _
        rw [hsaved, hnew, List.take_append_of_le_length hcons]
      have hanO := (fwd_inv h hs.fwd).anc
      have c2' : (Sync.consume failAt { s with client := some (c.step true parse ev), pendingMin := none }
          ((c.step true parse ev).emitted.drop s.consumed)).consumed = s.consumed + k := c2
      have hk' : k ≤ (c.step true parse ev).emitted.length - s.consumed := by rw [← hlen]; exact hk
      refine ⟨got', hf', hsrc base hs.src, (by rw [c5]; exact hs.old), fun b hb => hsub b (hs.chronSub b hb),
        fun A hA => (hs.j3 A hA).imp (hsub A) id, hs.tsMono,
        (fun hx => by rw [c6] at hx; exact hs.fwdD hx),
        ?_, ?_, ?_, (fun hn => by rw [c4] at hn; cases hn), ?_⟩
      · rw [hsaved']; exact (List.take_prefix _ _).trans hpre'
      · intro b hb
        rcases hsv b hb with h1 | h1
        · exact hsub b (hs.savedGot b h1)
        · exact h1
      · intro b hb
        rcases horig b hb with h1 | h1
        · exact hs.gotChain b h1
        · exact Anc.trans (ancList_mem_anc h hanc b (hpre'.subset (List.mem_of_mem_drop h1))) hanO
      · intro c' hc'
        rw [c4] at hc'
        cases hc'
        refine ⟨hci', hok', hmin', (fun m hm => by rw [c7] at hm; cases hm), (by rw [c2']; omega),
          (by rw [hsaved', c2']), fun hf => ?_⟩
        have hkl := (c3 hf).1
        rw [hlen] at hkl
        rw [c2']; omega

theorem si_run (h : WF U W) (hanc : AncList U oldest anc) (hinj : IdInj parse anc)
    (failAt : Option Nat) : ∀ (ops : List SOp) (s : Sync) (T : Block) (got : List Block),
    SI U W parse anc chron base t0 oldest s T got → TargetsOK U T ops →
    ∃ got', SI U W parse anc chron base t0 oldest (runOps parse failAt W s ops) (curTarget T ops) got' := by
  intro ops
  induction ops with
  | nil => intro s T got hs _; exact ⟨got, hs⟩
  | cons op rest ih =>
    intro s T got hs hops
    cases op with
    | ev r =>
      obtain ⟨got', hs'⟩ := si_ev h hanc hinj failAt hs r
      exact ih _ T got' hs' hops
    | tgt t' =>
      obtain ⟨hb, hpar, hrest⟩ := hops
      exact ih _ t' _ (si_tgt h hs hb hpar) hrest

theorem si_start (h : WF U W) {idx : Index} (hidx : ∀ i b, idx i = some b → U i = some b)
    {v0 v : VW} {fuel : Nat} {full : Bool} (hT : InU U t0) (hp0 : Prov U v0.seen)
    (hpop : populate idx W v0 fuel t0 = (v, chron, full)) (hold : oldest = chron.head?.getD t0)
    (hanc : AncList U oldest anc) :
    SI U W parse anc chron v0.seen t0 oldest (Sync.start idx W v0 fuel t0) t0 chron := by
  obtain ⟨f1, _, f3, _, f5⟩ := populate_facts h hidx hT hpop
  have hsrc : Src v0.seen chron v.seen := by
    have hp := hpop
    unfold populate at hp
    have e := Prod.mk.inj hp
    have e2 := Prod.mk.inj e.2
    rw [← e.1, e2.1]
    exact src_fold chron v0 (fun j e hg => Or.inl hg) (fun b hb => hb)
  rw [← hold] at f1
  have hs : Sync.start idx W v0 fuel t0 =
      { vw := v, saved := [], failed := false, consumed := 0, oldest := oldest, fwdDone := false,
        pendingMin := none,
        client := if full then none else some (Client.init oldest (oldestAllowed W t0.ts)) } := by
    unfold Sync.start
    simp only [hpop, hold]
  rw [hs]
  refine ⟨Fwd.start hidx hT hp0 hpop f1, hsrc, rfl, fun b hb => hb, fun A hA => Or.inr hA, Int.le_refl _,
    (fun hx => by simp at hx), List.nil_prefix, (fun b hb => by simp at hb), f3, ?_, ?_⟩
  · intro hn
    cases full with
    | true => exact f5 rfl
    | false => simp at hn
  · intro c hc
    cases full with
    | true => simp at hc
    | false =>
      simp only [Bool.false_eq_true, if_false, Option.some.injEq] at hc
      subst hc
      exact ⟨cinv_init (ancList_linked h anc oldest hanc) _, (fun hx => by simp [Client.init] at hx),
        Int.le_refl _, (fun m hm => by simp at hm), Nat.le_refl _, by simp [Client.init],
        fun _ => by simp [Client.init]⟩

/-- **C22, headline clause.** Start the syncer at target `t0` over any chain index that is a
partial view of the block tree (`WF U W`), with `anc` the real hash-linked ancestry below the
oldest locally available block and block ids injective in content for it (`IdInj`). Run ANY list
of operations: peer answers (errors, arbitrary bytes, wrong / unlinked / out-of-order / forged
blocks) interleaved with forward targets, each extending the previous one, with storage failing
from any index on (`failAt`), the minimum timestamp being updated by the syncer as in the code.
If the syncer then reports done (`Sync.done`: window complete from local blocks, forward rule
fired, or the backfill channel closed and drained without storage failure), then
* the window state satisfies the full C09 invariant at the current target `T`: every tx of `T` or
  of any hash-linked ancestor of `T` that could still be included (`T.ts ≤ expiry`, hence every
  ancestor back past the validity window, or to genesis) is tracked, the last-accepted height is
  `T`'s, and everything tracked is a tx of a tree block;
* what was saved is a prefix, in order, of the real ancestry (nothing unparsable, unlinked or
  out of order is ever saved); every block `got` whose txs were given to the window lies on `T`'s
  hash-linked chain; and the tracked set is sound: every tracked (id, expiry) was tracked
  initially (`v0`) or is a non-zero-expiry tx of one of those blocks (`Src`). Together with the
  first item: tracked = what was tracked locally ∪ txs of `T`'s hash-linked ancestors reached,
  minus what `Accept` evicted as expired, and it contains every tx that is still includable. -/
theorem backfill_done_implies_window_covered (h : WF U W) {idx : Index}
    (hidx : ∀ i b, idx i = some b → U i = some b) {v0 : VW} {fuel : Nat} (hT : InU U t0)
    (hp0 : Prov U v0.seen)
    (hanc : AncList U (Sync.start idx W v0 fuel t0).oldest anc) (hinj : IdInj parse anc)
    (failAt : Option Nat) (ops : List SOp) (hops : TargetsOK U t0 ops) :
    let s := runOps parse failAt W (Sync.start idx W v0 fuel t0) ops
    let T := curTarget t0 ops
    s.done true = true →
      SeenInv U s.vw T ∧ s.saved <+: anc ∧
      ∃ got, (∀ b ∈ s.saved, b ∈ got) ∧ (∀ b ∈ got, Anc U b T) ∧ Src v0.seen got s.vw.seen ∧
        Fwd U W s.oldest s.vw T got := by
  intro s T hdone
  -- unpack the start
  obtain ⟨v, chron, full, hpop⟩ : ∃ v chron full, populate idx W v0 fuel t0 = (v, chron, full) :=
    ⟨_, _, _, rfl⟩
  have hold : (Sync.start idx W v0 fuel t0).oldest = chron.head?.getD t0 := by
    unfold Sync.start; simp only [hpop]
  obtain ⟨oldest, hoe⟩ : ∃ o, o = (Sync.start idx W v0 fuel t0).oldest := ⟨_, rfl⟩
  rw [← hoe] at hanc
  have hold' : oldest = chron.head?.getD t0 := hoe.trans hold
  obtain ⟨_, f2, _, f4, _⟩ := populate_facts h hidx hT hpop
  rw [← hold'] at f2 f4
  have h0 := si_start (parse := parse) (anc := anc) h hidx hT hp0 hpop hold' hanc
  obtain ⟨got, hs⟩ := si_run h hanc hinj failAt ops _ t0 chron h0 hops
  have hfi := fwd_inv h hs.fwd
  have hoU : InU U oldest := Anc.inU h hfi.anc hfi.inU
  have hfw : Fwd U W s.oldest s.vw T got := by rw [hs.old]; exact hs.fwd
  refine ⟨?_, hs.savedPre, got, hs.savedGot, hs.gotChain, hs.src, hfw⟩
  by_cases hfd : s.fwdDone = true
  · exact forward_done_implies_window_covered h hs.fwd (hs.fwdD hfd)
  · -- backward completion or window complete from local blocks: coverage
    apply window_covered_of_cover h hs.fwd
    intro A hA hle
    rcases hs.j3 A hA with hg | hA0
    · exact hg
    · have hmono := oldestAllowed_mono (W := W) hs.tsMono
      cases hcl : s.client with
      | none => exact hs.chronSub A (hs.clNone hcl A hA0 (by omega))
      | some c =>
        obtain ⟨hci, hok, hmin, _, _, hsaved, hall⟩ := hs.clSome c hcl
        have hd : c.isClosed true = true ∧ s.failed = false := by
          have := hdone
          simp only [Sync.done, hcl] at this
          simp only [Bool.not_eq_true] at hfd
          simpa [hfd] using this
        rcases f4 A hA0 with hc | hlo
        · exact hs.chronSub A hc
        · rcases ancList_complete h anc oldest hoU hanc A hlo with rfl | hm
          · exact hs.chronSub _ f2
          · have hem := covers_of_closed hci hok (ancList_sorted h anc oldest hoU hanc) hd.1 A hm (by omega)
            apply hs.savedGot
            rw [hsaved, hall hd.2, List.take_length]
            exact hem

/-! Non-vacuity of the hypotheses of the headline theorem on the blocks of the counterexample
below: the real ancestry of `O` (the oldest local block) and a forward target extending `T0`. -/
example : AncList (fun i => if i = 0 then some ⟨0, 999, 0, 0, []⟩ else
      if i = 1 then some ⟨1, 0, 5, 1, [⟨7, 15⟩]⟩ else none)
    ⟨2, 1, 5, 2, []⟩ [⟨1, 0, 5, 1, [⟨7, 15⟩]⟩, ⟨0, 999, 0, 0, []⟩] := by
  simp [AncList]

example : TargetsOK (fun i => if i = 4 then some ⟨4, 3, 15, 4, []⟩ else
      if i = 3 then some ⟨3, 2, 6, 3, []⟩ else none) ⟨3, 2, 6, 3, []⟩
    [.ev .err, .tgt ⟨4, 3, 15, 4, []⟩, .ev (.blocks [[1, 2]])] := by
  simp [TargetsOK, InU]

end forward

/-! Counterexample for the non-strict variant of the forward rule
(`oldestBlock.ts ≤ target.ts − W`): `X` and `O` share timestamp 5; the node holds only `O` and
`T0`, so `oldestBlock = O`; the target `T1` has timestamp `15 = O.ts + W`. The non-strict rule
fires, the strict one does not, and tx 7 of `X` (expiry 15, still includable in a block at
time 15) is not tracked. -/
def fxX : Block := { id := 1, parent := 0, ts := 5, height := 1, txs := [⟨7, 15⟩] }
def fxO : Block := { id := 2, parent := 1, ts := 5, height := 2, txs := [] }
def fxT0 : Block := { id := 3, parent := 2, ts := 6, height := 3, txs := [] }
def fxT1 : Block := { id := 4, parent := 3, ts := 15, height := 4, txs := [] }
def fxIdx : Index := fun i => if i = 2 then some fxO else if i = 3 then some fxT0 else none

theorem forward_nonstrict_counterexample :
    let r := populate fxIdx 10 VW.fresh 5 fxT0
    r.2.1.head? = some fxO ∧ r.2.2 = false ∧
    decide (fxO.ts ≤ fxT1.ts - 10) = true ∧          -- the non-strict rule says "done"
    forwardRule 10 fxO fxT1 = false ∧                 -- the code's strict rule does not
    (fxT1.ts ≤ 15 ∧ (15 : Int) ≤ fxT1.ts + 10) ∧      -- tx 7 would pass VerifyTimestamp at T1.ts
    (accept r.1 fxT1).seen.contains 7 = false := by   -- but it is not tracked
  refine ⟨by decide, by decide, by decide, by decide, by decide, by decide⟩

/-! Non-vacuity of the hypotheses (a 2-block ancestry ending in genesis, ids injective). -/
example : ∃ (start : Block) (anc : List Block) (parse : Raw → Option Block),
    Linked start.parent anc ∧ IdInj parse anc ∧ (lastOf start anc).height = 0 := by
  let g : Block := { id := 0, parent := 999, ts := 0, height := 0, txs := [] }
  let b1 : Block := { id := 1, parent := 0, ts := 5, height := 1, txs := [] }
  let b2 : Block := { id := 2, parent := 1, ts := 9, height := 2, txs := [] }
  refine ⟨b2, [b1, g], fun r => if r = [1] then some b1 else if r = [0] then some g else none, ?_, ?_, ?_⟩
  · simp [Linked, b1, b2, g]
  · intro r b hb a ha hid
    simp only at hb
    split at hb
    · cases hb; simp at ha; rcases ha with rfl | rfl
      · rfl
      · simp [g, b1] at hid
    · split at hb
      · cases hb; simp at ha; rcases ha with rfl | rfl
        · simp [g, b1] at hid
        · rfl
      · cases hb
  · simp [lastOf, g]

/-! Non-vacuity of the headline theorem's premise `Sync.done`: a concrete run that reaches it by
the backward path. The node holds only `T0` (window 10); a forward target `T1` arrives (the strict
forward rule does not fire: 15 − 6 = 9), then one peer answers with the real ancestry `O, X, G`;
the client stops at the first ancestor older than the new minimum 5 (genesis, timestamp 0), all
three blocks are saved, and the syncer is done with `T1` as last accepted block. -/
def fxG : Block := { id := 0, parent := 999, ts := 0, height := 0, txs := [] }
def fxIdx0 : Index := fun i => if i = 3 then some fxT0 else none
def fxParse : Raw → Option Block := fun r =>
  if r = [2] then some fxO else if r = [1] then some fxX else if r = [0] then some fxG else none

example :
    let s := runOps fxParse none 10 (Sync.start fxIdx0 10 VW.fresh 5 fxT0)
      [.tgt fxT1, .ev (.blocks [[9], [2]]), .ev .err, .ev (.blocks [[2], [1], [0], [7]])]
    s.done true = true ∧ s.fwdDone = false ∧ s.saved = [fxO, fxX, fxG] ∧
      s.vw.lastAccepted = 4 ∧ s.vw.seen.contains 7 = true := by
  refine ⟨by decide, by decide, by decide, by decide, by decide⟩

end HyperModel.Props.C22
