import HyperModel.Model.Prefix
/-! # C39 Metadata prefix conflict detection is exact -/
namespace HyperModel.Props.C39
open HyperModel.Prefix

/-- The property's right-hand side: one of the listed prefixes (at some position) is a
prefix of another one (at a different position); equal prefixes and empty prefixes included. -/
def Conflict (ps : List Bytes) : Prop :=
  ∃ i j, ∃ (hi : i < ps.length) (hj : j < ps.length), i ≠ j ∧ ps[i] <+: ps[j]

theorem clash_iff (p vp : Bytes) : clash p vp = true ↔ (vp <+: p ∨ p <+: vp) := by
  simp [clash, List.isPrefixOf_iff_prefix]

/-- generalised loop invariant -/
theorem loop_iff (vs ps : List Bytes) :
    loop vs ps = true ↔
      (∃ i j, ∃ (hi : i < (vs ++ ps).length) (hj : j < (vs ++ ps).length),
        i ≠ j ∧ vs.length ≤ max i j ∧ (vs ++ ps)[i] <+: (vs ++ ps)[j]) := by
  induction ps generalizing vs with
  | nil =>
    simp only [loop, List.append_nil]
    constructor
    · intro h; cases h
    · rintro ⟨i, j, hi, hj, _, hm, _⟩; exfalso; omega
  | cons p rest ih =>
    unfold loop
    by_cases hany : vs.any (clash p) = true
    · simp only [hany, if_true, true_iff]
      rw [List.any_eq_true] at hany
      obtain ⟨vp, hvp, hc⟩ := hany
      obtain ⟨k, hk, rfl⟩ := List.getElem_of_mem hvp
      rw [clash_iff] at hc
      have hlen : vs.length < (vs ++ p :: rest).length := by simp
      have hkl : k < (vs ++ p :: rest).length := by simp; omega
      have e1 : (vs ++ p :: rest)[vs.length] = p := by simp
      have e2 : (vs ++ p :: rest)[k] = vs[k] := by simp [List.getElem_append_left hk]
      rcases hc with hc | hc
      · exact ⟨k, vs.length, hkl, hlen, by omega, by omega, by rw [e1, e2]; exact hc⟩
      · exact ⟨vs.length, k, hlen, hkl, by omega, by omega, by rw [e1, e2]; exact hc⟩
    · have hany' : vs.any (clash p) = false := by simpa using hany
      simp only [hany', Bool.false_eq_true, if_false]
      rw [ih (vs ++ [p])]
      have happ : vs ++ [p] ++ rest = vs ++ p :: rest := by simp
      constructor
      · rintro ⟨i, j, hi, hj, hne, hm, hp⟩
        refine ⟨i, j, by simpa [happ] using hi, by simpa [happ] using hj, hne, ?_, ?_⟩
        · simp at hm; omega
        · simpa [happ] using hp
      · rintro ⟨i, j, hi, hj, hne, hm, hp⟩
        -- the pair cannot be (k, |vs|) or (|vs|, k) with k < |vs| since no clash
        have hlen : (vs ++ p :: rest).length = vs.length + 1 + rest.length := by simp; omega
        by_cases hbig : vs.length + 1 ≤ max i j
        · refine ⟨i, j, by simpa [happ] using hi, by simpa [happ] using hj, hne, ?_, ?_⟩
          · simpa using hbig
          · simpa [happ] using hp
        · exfalso
          have hmax : max i j = vs.length := by omega
          rw [List.any_eq_false] at hany'
          have e1 : (vs ++ p :: rest)[vs.length]'(by simp) = p := by simp
          rcases Nat.lt_or_ge i j with hij | hij
          · have hj' : j = vs.length := by omega
            subst hj'
            have hi' : i < vs.length := hij
            have e2 : (vs ++ p :: rest)[i] = vs[i] := by simp [List.getElem_append_left hi']
            rw [e1, e2] at hp
            have := hany' vs[i] (List.getElem_mem hi')
            rw [clash_iff] at this
            exact this (Or.inl hp)
          · have hi' : i = vs.length := by omega
            subst hi'
            have hj' : j < vs.length := by omega
            have e2 : (vs ++ p :: rest)[j] = vs[j] := by simp [List.getElem_append_left hj']
            rw [e1, e2] at hp
            have := hany' vs[j] (List.getElem_mem hj')
            rw [clash_iff] at this
            exact this (Or.inr hp)

/-- **C39** the check reports a conflict iff one listed prefix is a prefix of another
(for every list of metadata + VM prefixes, of any length and content). -/
theorem conflict_iff (h f t : Bytes) (vm : List Bytes) :
    hasConflict h f t vm = true ↔ Conflict ([h, f, t] ++ vm) := by
  unfold hasConflict Conflict
  rw [loop_iff]
  simp only [List.nil_append, List.length_nil, Nat.zero_le, true_and]

/-- non-vacuity: both directions are inhabited by concrete inputs -/
example : hasConflict [0] [2] [1] [[3], [2, 7]] = true := by decide
example : hasConflict [0] [2] [1] [[3], [4, 7]] = false := by decide
example : Conflict ([[0], [2], [1]] ++ [[3], [2, 7]]) :=
  ⟨1, 4, by decide, by decide, by decide, by decide⟩

end HyperModel.Props.C39
