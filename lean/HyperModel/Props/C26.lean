import HyperModel.Proofs.Workers
/-!
# C26 Parallel verification jobs run every task and report the first failure

Theorems over every reachable state of the worker-pool relation of `Model/Workers.lean`
(`Reachable r w m s`: any worker count `w`, queue capacity `m`, any number of jobs and tasks,
any failing positions, any interleaving of NewJob/Go/Done/Wait/Stop with the scheduler and
the workers). Except for `c26_counterexample_unrepaired` and where `r` is left general, they
are about the REPAIRED worker loop (`/verif/fixes/C26-worker-exits-on-error.patch`, committed
in /repo as 8459107; the original loop is kept in the model as `repaired = false`).
History fields used: `execs t` (times the body of `t` was started), `finished t`,
`delivered j` (what the scheduler sent on `j.result`), `got j` (what `Wait` returned).
-/
namespace HyperModel.Props.C26
open HyperModel.Workers

variable {r : Bool} {w m : Nat} {s : State}

/-- Every task body is started at most once (repaired or not). -/
theorem task_at_most_once (hr : Reachable r w m s) (t : Nat) : s.execs t ≤ 1 :=
  ((invA_reachable hr).ex_le t).1

/-- the job was taken by the scheduler if something was delivered for it -/
theorem taken_of_delivered (hr : Reachable r w m s) {j : Nat} {x : Res}
    (hd : s.delivered j = some x) : s.taken j = true := by
  cases ht : s.taken j with
  | true => rfl
  | false => rw [(invB_reachable hr).undeliv j ht] at hd; cases hd

/-- A job that completed (its `completed` channel was closed, result published) and none of
whose submitted tasks fails has run every submitted task exactly once, to its end. -/
theorem all_run_if_none_fails (hr : Reachable r w m s) {j : Nat} (hc : s.completed j = true)
    (hnf : ∀ t, t < s.ntasks → s.jobOf t = j → s.fails t = false) :
    ∀ t, t < s.ntasks → s.jobOf t = j → s.execs t = 1 ∧ s.finished t = true := by
  intro t ht hj
  have hA := invA_reachable hr
  have hB := invB_reachable hr
  have hC := invC_reachable hr
  obtain ⟨x, hd, hx⟩ := hC.compl_ok j hc
  have htk := taken_of_delivered hr hd
  obtain ⟨_, hch, _, _⟩ := hC.deliv j x hd hx
  rcases hC.acct t ht (by rw [hj]; exact htk) (by rw [hj, hd]; simpa using hx) with a | ⟨i, hi⟩ | a | a
  · rw [hj, hch] at a; cases a
  · have := hB.w_cur i t hi
    rw [hj] at this
    have := (hB.cur_ok j this).2.2.1
    rw [hd] at this; cases this
  · exact ⟨(hA.ex_le t).2 a, a⟩
  · obtain ⟨t', h1, h2, h3, _⟩ := a.2
    rw [hj] at h2
    rw [hnf t' h1 h2] at h3; cases h3

/-- What `Wait` returns for a job (`got`) is what the scheduler delivered; a delivered
result other than shutdown is an error iff some executed task of the job failed (and then
it is the error of such a task); a job answered with shutdown ran none of its tasks. -/
theorem error_iff_some_failed (hr : Reachable r w m s) {j : Nat} {x : Res} :
    (s.got j = some x → s.delivered j = some x) ∧
    (s.result j = some x → s.delivered j = some x) ∧
    (s.delivered j = some x →
      (x = .shutdown → ∀ t, t < s.ntasks → s.jobOf t = j → s.execs t = 0 ∧ s.finished t = false) ∧
      (x ≠ .shutdown → ((x ≠ .ok ↔ FailedIn s j) ∧
        ∀ t, x = .err t → t < s.ntasks ∧ s.jobOf t = j ∧ s.fails t = true ∧ s.finished t = true ∧
          s.execs t = 1))) := by
  have hA := invA_reachable hr
  have hC := invC_reachable hr
  refine ⟨hC.got_ok j x, hC.res_ok j x, ?_⟩
  intro hd
  constructor
  · intro hx t ht hj
    subst hx
    have := hC.untaken t ht (Or.inr (by rw [hj]; exact hd))
    have := hA.chan_ok _ t this
    exact ⟨this.2.2.1, this.2.2.2.1⟩
  · intro hx
    obtain ⟨_, _, d3, d4⟩ := hC.deliv j x hd hx
    constructor
    · constructor
      · intro hne
        cases x with
        | ok => exact absurd rfl hne
        | shutdown => exact absurd rfl hx
        | err t => exact ⟨t, d4 t rfl⟩
      · rintro ⟨t', h1, h2, h3, h4⟩ hok
        have := d3 hok t' h1 h2 h3
        rw [h4] at this; cases this
    · intro t hxt
      obtain ⟨e1, e2, e3, e4⟩ := d4 t hxt
      exact ⟨e1, e2, e3, e4, (hA.ex_le t).2 e4⟩

/-- Completion callbacks: `Done(f)` runs `f` in a goroutine that first waits for
`j.completed` to be closed. `completed j` is closed only together with a result of the
normal path; a job answered with `ErrShutdown` never gets it closed — its callback never
runs and the goroutine started by `Done` stays blocked (observed on the real code and
recorded by the harness; the property does not promise callbacks for shutdown jobs). -/
theorem shutdown_job_never_completed (hr : Reachable r w m s) {j : Nat}
    (hd : s.delivered j = some .shutdown) : s.completed j = false := by
  cases hc : s.completed j with
  | false => rfl
  | true =>
    obtain ⟨x, h1, h2⟩ := (invC_reachable hr).compl_ok j hc
    rw [hd] at h1
    cases h1
    exact absurd rfl h2

/-- … and a callback can only run after every started task of its job has ended: when
`completed j` is closed, every submitted task of `j` is finished or was skipped without
ever starting, and none is in flight. -/
theorem callback_after_tasks (hr : Reachable r w m s) {j : Nat} (hc : s.completed j = true) :
    ∀ t, t < s.ntasks → s.jobOf t = j →
      (s.finished t = true ∨ s.execs t = 0) ∧ ∀ i, has (s.w i) t = false := by
  intro t ht hj
  have hA := invA_reachable hr
  have hB := invB_reachable hr
  have hC := invC_reachable hr
  obtain ⟨x, hd, hx⟩ := hC.compl_ok j hc
  have htk := taken_of_delivered hr hd
  obtain ⟨_, hch, _, _⟩ := hC.deliv j x hd hx
  have hnot : ∀ i, has (s.w i) t = false := by
    intro i
    cases hh : has (s.w i) t with
    | false => rfl
    | true =>
      have := hB.w_cur i t hh
      rw [hj] at this
      have := (hB.cur_ok j this).2.2.1
      rw [hd] at this; cases this
  refine ⟨?_, hnot⟩
  rcases hC.acct t ht (by rw [hj]; exact htk) (by rw [hj, hd]; simpa using hx) with a | ⟨i, hi⟩ | a | a
  · rw [hj, hch] at a; cases a
  · rw [hnot i] at hi; cases hi
  · exact Or.inl a
  · exact Or.inr a.1

/-- The scheduler never runs or waits for a completion callback: publishing a job's result
(`pqFinish`) takes it straight back to its queue loop, whatever the callback does (block, wait
for a later job, call `NewJob` or `Stop` — in the relation such a callback is an ordinary
client, there is no step of the scheduler for it). So with a job queued the scheduler's next
step is enabled right after the publication. This is the fact the tie pins on the real code
(callbacks that block until `Stop` has returned and callbacks that submit follow-up jobs,
also onto a full queue; oracle keys `callback-blocks-scheduler` / `hang`). -/
theorem callback_does_not_block_scheduler {s : State} (hen : isEnabled s .pqFinish = true) :
    (apply s .pqFinish).pq = .idle ∧
    (∀ j, s.pq = .waitSg j → (apply s .pqFinish).completed j = true) ∧
    ((apply s .pqFinish).queue ≠ [] → isEnabled (apply s .pqFinish) .pqTake = true) := by
  simp only [isEnabled] at hen
  cases hpq : s.pq with
  | waitSg j =>
    refine ⟨by simp [apply, hpq], ?_, ?_⟩
    · intro j' hj'; cases hj'; simp [apply, hpq, upd]
    · intro hq
      have : (apply s .pqFinish).queue = s.queue := by simp [apply, hpq]
      have hpq' : (apply s .pqFinish).pq = .idle := by simp [apply, hpq]
      simp only [isEnabled, hpq', this, Bool.and_eq_true, beq_self_eq_true, true_and]
      rw [this] at hq
      cases hs : s.queue with
      | nil => exact absurd hs hq
      | cons a l => rfl
  | idle => rw [hpq] at hen; simp at hen
  | feeding j => rw [hpq] at hen; simp at hen
  | exited => rw [hpq] at hen; simp at hen

/-- Jobs are processed one at a time: every task that a worker holds or runs belongs to the
job the scheduler is currently processing, and whenever the scheduler is between jobs (in
particular when it takes the next job from the queue) no task is in flight — every started
task of every earlier job has ended. -/
theorem jobs_sequential (hr : Reachable r w m s) :
    (∀ i t, has (s.w i) t = true → cur s = some (s.jobOf t)) ∧
    (cur s = none → ∀ i, busy (s.w i) = false) ∧
    (isEnabled s .pqTake = true → ∀ i, busy (s.w i) = false) := by
  have hB := invB_reachable hr
  refine ⟨hB.w_cur, fun hc => hB.none_busy (hB.idle_pq hc).1, ?_⟩
  intro hen
  simp only [isEnabled, Bool.and_eq_true, beq_iff_eq] at hen
  exact hB.none_busy (hB.idle_pq (by simp [cur, hen.1])).1

/-- work that the pool owes: a queued job while the scheduler is free, a job whose remaining
tasks can be fed or whose tasks channel is closed, a job waiting for its tasks, a task in
flight, or a `Stop` in progress while every job being fed has been `Done`. (A scheduler that
is feeding a job whose channel is empty and not yet closed legitimately waits for the client's
`Go`/`Done`.) -/
def Pending (s : State) : Prop :=
  (s.pq = .idle ∧ s.queue ≠ []) ∨ (∃ j, s.pq = .feeding j ∧ (s.chan j ≠ [] ∨ s.closed j = true)) ∨
  (∃ j, s.pq = .waitSg j) ∨ (∃ i, busy (s.w i) = true) ∨
  (s.stop ≠ .notCalled ∧ s.stop ≠ .returned ∧ ∀ j, s.pq = .feeding j → s.closed j = true)

theorem mem_enabled {s : State} {st : Step} (h1 : st ∈ internalSteps s)
    (h2 : isEnabled s st = true) : st ∈ enabled s := List.mem_filter.mpr ⟨h1, h2⟩

theorem worker_step_mem {s : State} {i : Nat} (hi : i < s.workers) :
    Step.stopCollect i ∈ internalSteps s ∧ Step.feed i ∈ internalSteps s ∧
    Step.wCheck i ∈ internalSteps s ∧ Step.wFinish i ∈ internalSteps s := by
  simp only [internalSteps, List.mem_append, List.mem_flatMap, List.mem_range]
  refine ⟨Or.inr ⟨i, hi, by simp⟩, Or.inr ⟨i, hi, by simp⟩, Or.inr ⟨i, hi, by simp⟩, Or.inr ⟨i, hi, by simp⟩⟩

/-- No deadlock (repaired code, at least one worker): in every reachable state with pending
work some step of the pool's own goroutines (scheduler, a worker, the Stop caller) is
enabled. (`wFinish` of a running task counts: task bodies terminate.) -/
theorem no_deadlock (hr : Reachable true w m s) (hw : 0 < w) (hp : Pending s) :
    ∃ st, st ∈ enabled s ∧ isEnabled s st = true := by
  suffices h : ∃ st, st ∈ enabled s from by
    obtain ⟨st, hst⟩ := h; exact ⟨st, hst, (List.mem_filter.mp hst).2⟩
  have hB := invB_reachable hr
  have hD := invD_reachable hr
  obtain ⟨hrep, hwk⟩ := params_reachable hr
  have hw' : 0 < s.workers := by omega
  by_cases hbusy : ∃ i, busy (s.w i) = true
  · obtain ⟨i, hi⟩ := hbusy
    have hiw : i < s.workers := by
      by_cases h : i < s.workers
      · exact h
      · rw [hB.w_hi i (by omega)] at hi; cases hi
    cases hwi : s.w i with
    | holding t => exact ⟨.wCheck i, mem_enabled (worker_step_mem hiw).2.2.1 (by simp [isEnabled, hiw, hwi])⟩
    | running t => exact ⟨.wFinish i, mem_enabled (worker_step_mem hiw).2.2.2 (by simp [isEnabled, hiw, hwi])⟩
    | idle => rw [hwi] at hi; cases hi
    | acked => rw [hwi] at hi; cases hi
    | dead => rw [hwi] at hi; cases hi
  · have hnb : ∀ i, busy (s.w i) = false := by
      intro i
      cases hb : busy (s.w i) with
      | false => rfl
      | true => exact absurd ⟨i, hb⟩ hbusy
    have hsg : s.sg = 0 := by
      rw [hB.sg]
      apply List.countP_eq_zero.mpr
      intro i _; simp [hnb i]
    -- a worker that is neither busy, dead nor acked is idle
    have hidle : ∀ i, s.w i ≠ .acked → s.w i = .idle := by
      intro i hna
      cases hwi : s.w i with
      | idle => rfl
      | holding t => have := hnb i; rw [hwi] at this; cases this
      | running t => have := hnb i; rw [hwi] at this; cases this
      | acked => exact absurd hwi hna
      | dead => exact absurd hwi (hD.nodead hrep i)
    cases hpq : s.pq with
    | waitSg j =>
      exact ⟨.pqFinish, mem_enabled (by simp [internalSteps]) (by simp [isEnabled, hpq, hsg])⟩
    | feeding j =>
      have hnsw : s.stopWorkers ≠ true := fun h => by have := hD.sw_exited h; rw [hpq] at this; cases this
      have h0 : s.w 0 = .idle := hidle 0 (fun h => hnsw (hD.acked 0 h))
      by_cases hch : s.chan j = []
      · -- the channel is drained: the job must be Done (closed), otherwise nothing is pending
        have hcl : s.closed j = true := by
          rcases hp with h | ⟨j', h1, h2⟩ | ⟨j', h⟩ | h | ⟨_, _, h⟩
          · rw [hpq] at h; cases h.1
          · rw [hpq] at h1; cases h1
            rcases h2 with h2 | h2
            · exact absurd hch h2
            · exact h2
          · rw [hpq] at h; cases h
          · exact absurd h hbusy
          · exact h j hpq
        exact ⟨.endFeed, mem_enabled (by simp [internalSteps]) (by simp [isEnabled, hpq, hch, hcl])⟩
      · exact ⟨.feed 0, mem_enabled (worker_step_mem hw').2.1
          (by
            have : (s.chan j).isEmpty = false := by
              cases hc : s.chan j with
              | nil => exact absurd hc hch
              | cons a l => rfl
            simp [isEnabled, hpq, this, hw', h0])⟩
    | idle =>
      by_cases hq : s.queue = []
      · have hstop : s.stop ≠ .notCalled ∧ s.stop ≠ .returned := by
          rcases hp with h | ⟨j', h1, _⟩ | ⟨j', h⟩ | h | ⟨h1, h2, _⟩
          · exact absurd hq h.2
          · rw [hpq] at h1; cases h1
          · rw [hpq] at h; cases h
          · exact absurd h hbusy
          · exact ⟨h1, h2⟩
        by_cases hfl : s.stop = .flagged
        · exact ⟨.stopClose, mem_enabled (by simp [internalSteps]) (by simp [isEnabled, hfl])⟩
        · have hqc : s.queueClosed = true := hD.qclosed.mpr ⟨hstop.1, hfl⟩
          exact ⟨.pqExit, mem_enabled (by simp [internalSteps]) (by simp [isEnabled, hpq, hq, hqc])⟩
      · have : s.queue.isEmpty = false := by
          cases hc : s.queue with
          | nil => exact absurd hc hq
          | cons a l => rfl
        exact ⟨.pqTake, mem_enabled (by simp [internalSteps]) (by simp [isEnabled, hpq, this])⟩
    | exited =>
      obtain ⟨hqc, hq⟩ := hD.exited hpq
      have hstop : s.stop ≠ .notCalled ∧ s.stop ≠ .returned := by
        rcases hp with h | ⟨j', h1, _⟩ | ⟨j', h⟩ | h | ⟨h1, h2, _⟩
        · exact absurd hq h.2
        · rw [hpq] at h1; cases h1
        · rw [hpq] at h; cases h
        · exact absurd h hbusy
        · exact ⟨h1, h2⟩
      have hnf := (hD.qclosed.mp hqc).2
      cases hst : s.stop with
      | notCalled => exact absurd hst hstop.1
      | returned => exact absurd hst hstop.2
      | flagged => exact absurd hst hnf
      | queueClosed =>
        have := hD.ack.mpr hpq
        exact ⟨.stopAck, mem_enabled (by simp [internalSteps]) (by simp [isEnabled, hst, this])⟩
      | collecting k =>
        have hk := hD.count k hst
        have hsw : s.stopWorkers = true := hD.sw.mpr (Or.inl ⟨k, hst⟩)
        by_cases hkw : k = s.workers
        · exact ⟨.stopReturn, mem_enabled (by simp [internalSteps]) (by simp [isEnabled, hst, hkw])⟩
        · have hle : k ≤ s.workers := by
            rw [hk]; have := List.countP_le_length (p := fun i => isAcked (s.w i)) (l := List.range s.workers)
            simpa using this
          have hlt : k < s.workers := by omega
          -- some worker has not acked yet
          have : ∃ i, i < s.workers ∧ s.w i ≠ .acked := by
            apply Classical.byContradiction
            intro hne
            have hall : ∀ i ∈ List.range s.workers, isAcked (s.w i) = true := by
              intro i hi
              cases hwi : s.w i with
              | acked => rfl
              | _ => exact absurd ⟨i, List.mem_range.mp hi, by rw [hwi]; simp⟩ hne
            have := (List.countP_eq_length (p := fun i => isAcked (s.w i))).mpr hall
            rw [← hk] at this
            simp at this
            omega
          obtain ⟨i, hiw, hna⟩ := this
          have hi := hidle i hna
          exact ⟨.stopCollect i, mem_enabled (worker_step_mem hiw).1
            (by simp [isEnabled, hst, hlt, hiw, hi, hsw])⟩

/-- Stop: once the flag is set `NewJob` reports shutdown (it creates no job), a job taken
from the queue is answered with `ErrShutdown` without running any task, `Stop` makes
progress until it returns (no deadlock while it is in progress and every job being fed was
`Done`), and when it has returned every worker goroutine has exited. -/
theorem stop_reports_shutdown_and_returns (hr : Reachable true w m s) (hw : 0 < w) :
    (s.shouldShutdown = true → (apply s .newJob).njobs = s.njobs ∧
        (apply s .newJob).refused = s.refused + 1) ∧
    (s.shouldShutdown = true → ∀ j rest, s.queue = j :: rest →
        (apply s .pqTake).delivered j = some .shutdown ∧ (apply s .pqTake).result j = some .shutdown ∧
        (apply s .pqTake).pq = s.pq) ∧
    (∀ j, s.delivered j = some .shutdown →
        ∀ t, t < s.ntasks → s.jobOf t = j → s.execs t = 0 ∧ s.finished t = false) ∧
    (s.stop ≠ .notCalled → s.stop ≠ .returned → (∀ j, s.pq = .feeding j → s.closed j = true) →
        ∃ st, st ∈ enabled s ∧ isEnabled s st = true) ∧
    (s.stop = .returned → s.pq = .exited ∧ ∀ i, i < s.workers → s.w i = .acked) := by
  have hD := invD_reachable hr
  refine ⟨?_, ?_, ?_, ?_, ?_⟩
  · intro h; simp [apply, h]
  · intro h j rest hq; simp [apply, hq, h, upd]
  · intro j hd t ht hj
    exact ((error_iff_some_failed hr (j := j) (x := .shutdown)).2.2 hd).1 rfl t ht hj
  · intro h1 h2 h3
    exact no_deadlock hr hw (Or.inr (Or.inr (Or.inr (Or.inr ⟨h1, h2, h3⟩))))
  · intro h
    exact ⟨hD.sw_exited (hD.sw.mpr (Or.inr h)), hD.returned h⟩

/-! ## The unrepaired worker loop deadlocks -/

def runTrace (s : State) : List Step → Option State
  | [] => some s
  | st :: r => if isEnabled s st then runTrace (apply s st) r else none

theorem runTrace_reachable {r : Bool} {w m : Nat} {s : State} (hr : Reachable r w m s) :
    ∀ (tr : List Step) (s' : State), runTrace s tr = some s' → Reachable r w m s' := by
  intro tr
  induction tr generalizing s with
  | nil => intro s' h; simp only [runTrace, Option.some.injEq] at h; subst h; exact hr
  | cons st r ih =>
    intro s' h
    simp only [runTrace] at h
    split at h
    · rename_i hen; exact ih (Reachable.step st hr hen) s' h
    · cases h

/-- 1 worker, one job with tasks [fail, ok, ok], Done: after the failing task the worker
picks up the second task, sees the error and returns. -/
def witness : List Step :=
  [.newJob, .pqTake, .go 0 true, .go 0 false, .go 0 false, .done 0,
   .feed 0, .wCheck 0, .wFinish 0, .feed 0, .wCheck 0]

def witnessStuck (repaired : Bool) : Bool :=
  match runTrace (init repaired 1 4) witness with
  | some s => s.pq == .feeding 0 && s.chan 0 == [2] && s.closed 0 && (enabled s).isEmpty
  | none => false

/-- On the unrepaired code the witness reaches a state with pending work (job 0 is being
fed, task 2 is still in its channel, the job is Done) in which no step of the pool is
enabled: the job never completes, `Wait` and `Stop` hang. -/
theorem c26_counterexample_unrepaired :
    ∃ s, Reachable false 1 4 s ∧ Pending s ∧ enabled s = [] := by
  have h : witnessStuck false = true := by decide
  unfold witnessStuck at h
  split at h
  · rename_i s hs
    simp only [Bool.and_eq_true, beq_iff_eq, List.isEmpty_iff] at h
    refine ⟨s, runTrace_reachable Reachable.init _ _ hs, ?_, h.2⟩
    right; left
    exact ⟨0, h.1.1.1, Or.inl (by rw [h.1.1.2]; simp)⟩
  · cases h

/-- the same schedule on the repaired code is not stuck -/
example : witnessStuck true = false := by decide

/-! ## Recording the error after `sg.Done()` loses it and leaks it into the next job -/

def runLate (l : LState) : List LStep → Option LState
  | [] => some l
  | st :: r => if isEnabledLate l st then runLate (applyLate l st) r else none

theorem runLate_reachable {w m : Nat} {l : LState} (hr : LateReachable w m l) :
    ∀ (tr : List LStep) (l' : LState), runLate l tr = some l' → LateReachable w m l' := by
  intro tr
  induction tr generalizing l with
  | nil => intro l' h; simp only [runLate, Option.some.injEq] at h; subst h; exact hr
  | cons st r ih =>
    intro l' h
    simp only [runLate] at h
    split at h
    · rename_i hen; exact ih (LateReachable.step st hr hen) l' h
    · cases h

/-- 1 worker. Job 0 = [fail]: the worker does `Done` first, the scheduler passes `sg.Wait`,
publishes nil and resets `err`; only then the worker records the error. Job 1 = [ok]: its
only task sees the stale error and is skipped, the job reports task 0's error. -/
def lateWitness : List LStep :=
  [.base .newJob, .base .pqTake, .base (.go 0 true), .base (.done 0), .base (.feed 0),
   .base (.wCheck 0), .lateDone 0, .base .endFeed, .base .pqFinish, .lateRecord 0,
   .base .newJob, .base .pqTake, .base (.go 1 false), .base (.done 1), .base (.feed 0),
   .base (.wCheck 0), .base .endFeed, .base .pqFinish]

def lateWitnessOk : Bool :=
  match runLate { s := init true 1 4, pend := fun _ => none } lateWitness with
  | some l =>
    l.s.delivered 0 == some .ok && l.s.ntasks == 2 && l.s.jobOf 0 == 0 && l.s.fails 0 &&
    l.s.finished 0 && l.s.execs 0 == 1 && l.s.delivered 1 == some (.err 0) && l.s.jobOf 1 == 1 &&
    !l.s.fails 1 && l.s.execs 1 == 0 && l.s.completed 0 && l.s.completed 1
  | none => false

/-- If the worker decrements the completion count before it records the error (the two
halves of `wFinish` in the other order), `error_iff_some_failed` and `all_run_if_none_fails`
fail: a reachable state in which job 0 was answered nil although its executed task 0 failed,
and job 1, none of whose tasks fails, was answered with task 0's error and never ran its
task. (The theorems above hold because `apply (.wFinish i)` records the error and calls
`sg.Done()` in one step, error first — which is the order of the code.) -/
theorem c26_counterexample_error_after_done :
    ∃ l, LateReachable 1 4 l ∧
      l.s.delivered 0 = some .ok ∧ FailedIn l.s 0 ∧
      l.s.completed 1 = true ∧ l.s.delivered 1 = some (.err 0) ∧
      (∀ t, t < l.s.ntasks → l.s.jobOf t = 1 → l.s.fails t = false) ∧
      (1 < l.s.ntasks ∧ l.s.jobOf 1 = 1 ∧ l.s.execs 1 = 0) := by
  have h : lateWitnessOk = true := by decide
  unfold lateWitnessOk at h
  split at h
  · rename_i l hl
    simp only [Bool.and_eq_true, beq_iff_eq, Bool.not_eq_true'] at h
    obtain ⟨⟨⟨⟨⟨⟨⟨⟨⟨⟨⟨h1, h2⟩, h3⟩, h4⟩, h5⟩, h6⟩, h7⟩, h8⟩, h9⟩, h10⟩, h11⟩, h12⟩ := h
    refine ⟨l, runLate_reachable LateReachable.init _ _ hl, h1, ⟨0, by omega, h3, h4, h5⟩, h12, h7, ?_,
      by omega, h8, h10⟩
    intro t ht hj
    have : t = 0 ∨ t = 1 := by omega
    rcases this with rfl | rfl
    · rw [h3] at hj; cases hj
    · exact h9
  · cases h

/-! ## serial_workers.go -/

theorem serial_fold_err (ts : List (Nat × Bool)) (j : SerialJob) (h : j.err.isSome = true) :
    ts.foldl (fun j t => j.go t.1 t.2) j = j := by
  induction ts with
  | nil => rfl
  | cons t ts ih => simp only [List.foldl_cons, SerialJob.go, h, if_true]; exact ih

theorem serial_fold_ok (ts : List (Nat × Bool)) (j : SerialJob) (h : j.err = none)
    (hnf : ∀ t ∈ ts, t.2 = false) :
    ts.foldl (fun j t => j.go t.1 t.2) j = { err := none, ran := (ts.map (·.1)).reverse ++ j.ran } := by
  induction ts generalizing j with
  | nil => cases j; simp_all
  | cons t ts ih =>
    have ht := hnf t (by simp)
    simp only [List.foldl_cons]
    rw [ih _ (by simp [SerialJob.go, h, ht]) (fun t' h' => hnf t' (List.mem_cons_of_mem _ h'))]
    simp [SerialJob.go, h, ht]

theorem serial_fold_isSome (ts : List (Nat × Bool)) (j : SerialJob) :
    (ts.foldl (fun j t => j.go t.1 t.2) j).err.isSome = true ↔
      (j.err.isSome = true ∨ ∃ t ∈ ts, t.2 = true) := by
  induction ts generalizing j with
  | nil => simp
  | cons t ts ih =>
    rw [List.foldl_cons, ih]
    have : (j.go t.1 t.2).err.isSome = true ↔ (j.err.isSome = true ∨ t.2 = true) := by
      unfold SerialJob.go
      cases hj : j.err.isSome <;> cases ht : t.2 <;> simp [hj]
    rw [this]
    simp only [List.mem_cons, exists_eq_or_imp]
    constructor
    · rintro ((h | h) | h)
      · exact Or.inl h
      · exact Or.inr (Or.inl h)
      · exact Or.inr (Or.inr h)
    · rintro (h | h | h)
      · exact Or.inl (Or.inl h)
      · exact Or.inl (Or.inr h)
      · exact Or.inr h

/-- SerialWorkers: a job none of whose tasks fails runs all of them, in order, once each,
and reports no error. -/
theorem serial_all_run_if_none_fails (ts : List (Nat × Bool)) (hnf : ∀ t ∈ ts, t.2 = false) :
    serialRun ts = { err := none, ran := (ts.map (·.1)).reverse } := by
  have := serial_fold_ok ts {} rfl hnf
  simpa [serialRun] using this

/-- SerialWorkers: the job reports an error iff some task fails; it is the error of the first
failing task, which was executed, and nothing after it was. -/
theorem serial_error_iff_some_failed (ts : List (Nat × Bool)) :
    ((serialRun ts).err.isSome = true ↔ ∃ t ∈ ts, t.2 = true) ∧
    (∀ pre t post, ts = pre ++ t :: post → (∀ p ∈ pre, p.2 = false) → t.2 = true →
      serialRun ts = { err := some t.1, ran := t.1 :: (pre.map (·.1)).reverse }) := by
  have hsplit : ∀ pre t post, ts = pre ++ t :: post → (∀ p ∈ pre, p.2 = false) → t.2 = true →
      serialRun ts = { err := some t.1, ran := t.1 :: (pre.map (·.1)).reverse } := by
    intro pre t post hts hpre ht
    subst hts
    unfold serialRun
    rw [List.foldl_append, serial_fold_ok pre {} rfl hpre, List.foldl_cons]
    rw [serial_fold_err]
    · simp [SerialJob.go, ht]
    · simp [SerialJob.go, ht]
  refine ⟨?_, hsplit⟩
  constructor
  · intro h
    apply Classical.byContradiction
    intro hne
    have hnf : ∀ t ∈ ts, t.2 = false := by
      intro t ht
      cases h2 : t.2 with
      | false => rfl
      | true => exact absurd ⟨t, ht, h2⟩ hne
    rw [serial_all_run_if_none_fails ts hnf] at h
    cases h
  · intro hex
    have := (serial_fold_isSome ts {}).mpr (Or.inr hex)
    simpa [serialRun] using this

end HyperModel.Props.C26
