import HyperModel.Model.Keys
import HyperModel.Model.Perm
import HyperModel.Model.TState
/-!
# C40 Size-suffixed state keys bound the values they can hold

Model: `Model/Keys.lean` (`keys/keys.go`), `Model/Perm.lean` (`state.Keys.Add`),
`Model/TState.lean` (`TStateView.Insert`). `chunkSize`, `MaxUint16`, `Uint16Len` come from the
running code (`Generated/FactsC40.lean`); the side conditions on them are discharged by `decide`.
-/
namespace HyperModel.Props.C40
open HyperModel.Keys HyperModel.TState
open HyperModel.Generated.C40 (chunkSize maxUint16 uint16Len)

/-- side conditions on the generated constants -/
theorem facts : 0 < chunkSize ∧ uint16Len = 2 ∧ maxUint16 = 65535 := by decide

theorem be16_u16be (c : Nat) (h : c < 65536) : be16 (u16be c) = c := by
  simp only [u16be, be16, UInt8.toNat_ofNat']
  omega

theorem drop_suffix (pre suf : Bytes) : (pre ++ suf).drop ((pre ++ suf).length - suf.length) = suf := by
  have : (pre ++ suf).length - suf.length = pre.length := by simp
  rw [this, List.drop_left]

/-- **the declared chunk count is the big-endian number in the last two bytes**, for every
prefix and every two suffix bytes -/
theorem maxChunks_is_be_suffix (pre : Bytes) (hi lo : UInt8) :
    maxChunks (pre ++ [hi, lo]) = some (hi.toNat * 256 + lo.toNat) := by
  have hl : ¬ (pre ++ [hi, lo]).length < uint16Len := by simp [uint16Len]
  have hd := drop_suffix pre [hi, lo]
  simp only [maxChunks, hl, if_false]
  have : uint16Len = [hi, lo].length := by simp [uint16Len]
  rw [this, hd]
  rfl

/-- every key of length ≥ 2 is of that form -/
theorem key_split (k : Bytes) (h : 2 ≤ k.length) : ∃ pre hi lo, k = pre ++ [hi, lo] := by
  refine ⟨k.take (k.length - 2), ?_⟩
  have hd : (k.drop (k.length - 2)).length = 2 := by simp; omega
  match hk : k.drop (k.length - 2), hd with
  | [hi, lo], _ => exact ⟨hi, lo, by rw [← hk, List.take_append_drop]⟩

theorem maxChunks_none_iff (k : Bytes) : maxChunks k = none ↔ k.length < 2 := by
  by_cases h : k.length < 2 <;> simp [maxChunks, uint16Len, h]

theorem decodeChunks_eq_maxChunks (k : Bytes) : decodeChunks k = maxChunks k := rfl

theorem maxChunks_lt (k : Bytes) (m : Nat) (h : maxChunks k = some m) : m < 65536 := by
  have hl : 2 ≤ k.length := by
    by_cases hk : k.length < 2
    · rw [(maxChunks_none_iff k).mpr hk] at h; cases h
    · omega
  obtain ⟨pre, hi, lo, rfl⟩ := key_split k hl
  rw [maxChunks_is_be_suffix] at h
  have := hi.toNat_lt; have := lo.toNat_lt
  cases h; omega

/-- `numChunksLen` with the generated constants spelled out -/
theorem numChunks_lit (n : Nat) :
    numChunksLen n =
      if n = 0 then some 0 else if n / 64 + 1 ≤ 65535 then some (n / 64 + 1) else none := by
  unfold numChunksLen
  by_cases h0 : n = 0
  · simp [h0]
  · by_cases h1 : n / 64 + 1 ≤ 65535
    · have : ¬ (n / chunkSize + 1 > maxUint16) := by show ¬ (n / 64 + 1 > 65535); omega
      simp [h0, h1, this]; rfl
    · have : (n / chunkSize + 1 > maxUint16) := by show (n / 64 + 1 > 65535); omega
      simp [h0, h1, this]

/-- **chunk count of a value length**: `0 ↦ 0`, `n ↦ n / chunkSize + 1`, and no chunk count at
all once that exceeds the 16-bit limit -/
theorem numChunks_spec (n : Nat) :
    numChunksLen n =
      if n = 0 then some 0
      else if n / chunkSize + 1 ≤ maxUint16 then some (n / chunkSize + 1) else none :=
  numChunks_lit n

/-- the chunk count brackets the length: a non-empty value of `c` chunks has
`(c-1)·chunkSize ≤ n < c·chunkSize` (so a value of exactly `chunkSize` bytes counts as 2). -/
theorem numChunks_bounds (n c : Nat) (h : numChunksLen n = some c) :
    c ≤ maxUint16 ∧ ((n = 0 ∧ c = 0) ∨ (0 < n ∧ (c - 1) * chunkSize ≤ n ∧ n < c * chunkSize)) := by
  rw [numChunks_lit] at h
  show c ≤ 65535 ∧ ((n = 0 ∧ c = 0) ∨ (0 < n ∧ (c - 1) * 64 ≤ n ∧ n < c * 64))
  split at h
  · cases h; omega
  · split at h
    · cases h; omega
    · cases h

theorem numChunks_none_iff (n : Nat) : numChunksLen n = none ↔ maxUint16 * chunkSize ≤ n := by
  rw [numChunks_lit]
  show _ ↔ 65535 * 64 ≤ n
  split
  · simp; omega
  · split <;> simp <;> omega

/-- chunk counts are monotone in the length -/
theorem numChunks_mono (n m cm : Nat) (hnm : n ≤ m) (h : numChunksLen m = some cm) :
    ∃ cn, numChunksLen n = some cn ∧ cn ≤ cm := by
  rw [numChunks_lit] at h ⊢
  split at h
  · cases h; exact ⟨0, by simp; omega, Nat.le_refl _⟩
  · split at h
    · cases h
      by_cases hn : n = 0
      · exact ⟨0, by simp [hn], by omega⟩
      · refine ⟨n / 64 + 1, ?_, by omega⟩
        have : n / 64 + 1 ≤ 65535 := by omega
        simp [hn, this]
    · cases h

/-- **a value can be written to a key iff its chunk count does not exceed the key's** -/
theorem verifyValue_iff (k v : Bytes) :
    verifyValue k v = true ↔
      ∃ c m, numChunks v = some c ∧ maxChunks k = some m ∧ c ≤ m := by
  simp only [verifyValue, verifyValueLen, numChunks]
  cases numChunksLen v.length <;> cases maxChunks k <;> simp

theorem maxChunks_encodeChunks (k : Bytes) (c : Nat) (h : c < 65536) :
    maxChunks (encodeChunks k c) = some c := by
  simp only [encodeChunks, u16be]
  rw [maxChunks_is_be_suffix]
  simp only [UInt8.toNat_ofNat']
  congr 1; omega

/-- **a key encoded for a maximum size admits every value up to that size**, keeps the
given prefix, and declares exactly the chunk count of the maximum size -/
theorem encode_admits_all_up_to_size (k k' : Bytes) (n : Nat) (h : encode k n = some k') :
    (∃ c, numChunksLen n = some c ∧ k' = k ++ u16be c ∧ maxChunks k' = some c) ∧
    ∀ v : Bytes, v.length ≤ n → verifyValue k' v = true := by
  simp only [encode] at h
  cases hc : numChunksLen n with
  | none => simp [hc] at h
  | some c =>
    simp only [hc, Option.some.injEq] at h
    subst h
    have hb := (numChunks_bounds n c hc).1
    have hb' : c ≤ 65535 := hb
    have hm : maxChunks (k ++ u16be c) = some c := maxChunks_encodeChunks k c (by omega)
    refine ⟨⟨c, rfl, rfl, hm⟩, ?_⟩
    intro v hv
    obtain ⟨cv, hcv, hle⟩ := numChunks_mono v.length n c hv hc
    rw [verifyValue_iff]
    exact ⟨cv, c, hcv, hm, hle⟩

/-- for non-negative sizes Go's `numChunks(int)` is the modelled `numChunksLen` -/
theorem numChunksInt_nat (n : Nat) : numChunksInt (n : Int) = numChunksLen n := by
  simp [numChunksInt]

theorem encodeInt_nat (k : Bytes) (n : Nat) : encodeInt k (n : Int) = encode k n := by
  simp [encodeInt, encode, numChunksInt_nat]

/-- **`Insert` enforces the bound**: whenever the view accepts a write, the value's chunk count
is within the key's declared chunk count — in every state, scope and storage. -/
theorem insert_enforces_value_bound (s : View) (k v : Bytes) (h : (s.insert k v).2 = .ok) :
    ∃ c m, numChunks v = some c ∧ maxChunks k = some m ∧ c ≤ m := by
  rw [← verifyValue_iff]
  simp only [View.insert] at h
  by_cases hvv : verifyValue k v = true
  · exact hvv
  · simp only [hvv] at h
    split at h
    · cases h
    · simp at h

/-- a rejected value leaves the view exactly as it was -/
theorem bad_value_no_change (s : View) (k v : Bytes) (h : (s.insert k v).2 = .badValue) :
    (s.insert k v).1 = s := by
  simp only [View.insert] at h ⊢
  repeat' split at h
  all_goals simp_all

/-- **keys shorter than two bytes are rejected** at every site where a key is declared or
written: `Valid`, `MaxChunks`, `DecodeChunks`, `Verify`, `VerifyValue`, `Keys.Add`, and
`TStateView.Insert` in every state and scope. PARTIAL with respect to the property's "invalid
everywhere they are declared or used": `GetValue` and `Remove` under `CompletePermissions`, and
`SimulatedKeys.Has`, do not reject a short key — see `c40_counterexample` (known finding
`short-key-use-not-rejected`). -/
theorem short_keys_invalid_everywhere_partial (k : Bytes) (h : k.length < 2) :
    valid k = false ∧ maxChunks k = none ∧ decodeChunks k = none ∧
    (∀ a b, verify a b k = false) ∧
    (∀ v, verifyValue k v = false) ∧ (∀ n, verifyValueLen k n = false) ∧
    (∀ (m : Perm.KeySet) p, m.add k p = (m, false)) ∧
    (∀ (s : View) v, (s.insert k v).2 ≠ .ok ∧ (s.insert k v).1 = s) := by
  have hv : valid k = false := by
    simp only [valid, decide_eq_false_iff_not]; show ¬ 2 ≤ k.length; omega
  have hm : maxChunks k = none := (maxChunks_none_iff k).mpr h
  have hvl : ∀ n, verifyValueLen k n = false := by
    intro n; simp only [verifyValueLen, hm]; cases numChunksLen n <;> rfl
  refine ⟨hv, hm, by rw [decodeChunks_eq_maxChunks, hm], ?_, fun v => hvl _, hvl, ?_, ?_⟩
  · intro a b; simp only [verify, hm]; split <;> rfl
  · intro m p; simp [Perm.KeySet.add, hv]
  · intro s v
    have hvv : verifyValue k v = false := hvl _
    simp only [View.insert, hvv]
    split <;> simp

/-- a key set built with `Keys.Add` never contains a short key, so a view scoped by it
refuses every access to one -/
theorem addAll_no_short_keys (k : Bytes) (h : k.length < 2) : ∀ (decls : List (Bytes × Perm.Perm))
    (m m' : Perm.KeySet), m k = none → Perm.addAll m decls = some m' → m' k = none
  | [], m, m', hk, hm => by simp only [Perm.addAll, Option.some.injEq] at hm; rw [← hm]; exact hk
  | (j, p) :: rest, m, m', hk, hm => by
    simp only [Perm.addAll, Perm.KeySet.add] at hm
    by_cases hv : valid j = true
    · simp only [hv, Bool.not_true, Bool.false_eq_true, if_false] at hm
      refine addAll_no_short_keys k h rest _ m' ?_ hm
      have hjk : k ≠ j := by
        intro e; subst e
        have := (short_keys_invalid_everywhere_partial k h).1
        rw [this] at hv; cases hv
      simp [hjk, hk]
    · simp [hv] at hm

/-! ### where a short key is *not* rejected (known finding `short-key-use-not-rejected`) -/

/-- under a `state.Keys` scope a short key can never be declared, so it is denied there too -/
theorem short_key_denied_under_declared_scope (k : Bytes) (h : k.length < 2)
    (decls : List (List (Bytes × Perm.Perm))) (m : Perm.KeySet) (hm : Perm.stateKeys decls = some m)
    (s : View) (hs : s.scope = m.has) :
    s.get k = .perm ∧ (s.remove k) = (s, .perm) := by
  have hk : m k = none := addAll_no_short_keys k h _ _ m rfl hm
  have hr : s.scope k Perm.read = false := by rw [hs]; simp only [Perm.KeySet.has, hk]; decide
  have hw : s.scope k Perm.write = false := by rw [hs]; simp only [Perm.KeySet.has, hk]; decide
  exact ⟨by simp [View.get, View.checkScope, hr], by simp [View.remove, View.checkScope, hw]⟩

/-- `SimulatedKeys.Has` answers true for a short key and records nothing -/
theorem simulatedHas_short (k : Bytes) (h : k.length < 2) (m : Perm.KeySet) (p : Perm.Perm) :
    Perm.simulatedHas m k p = (m, true) := by
  simp [Perm.simulatedHas, (short_keys_invalid_everywhere_partial k h).2.2.2.2.2.2.1 m p]

/-- **counterexample to "invalid everywhere they are used"**: with `CompletePermissions` the
one-byte key `07`, present in the parent storage, is read (`09`), removed (`ok`, one op logged)
and then reads as absent; and a simulated scope grants it. None of these uses is rejected. -/
theorem c40_counterexample :
    let k : Bytes := [7]
    let s := TS.new.newView Perm.fullAccess (fun j => if j = k then .val [9] else .notFound)
    k.length < 2 ∧ s.get k = .val [9] ∧ (s.remove k).2 = .ok ∧ (s.remove k).1.opIndex = 1 ∧
    (s.remove k).1.get k = .notFound ∧ (Perm.simulatedHas Perm.KeySet.empty k Perm.all).2 = true := by
  decide

/-! ### non-vacuity -/
example : numChunksLen 0 = some 0 ∧ numChunksLen 63 = some 1 ∧ numChunksLen 64 = some 2 := by decide
example : numChunksLen (64 * 65534 - 1) = some 65534 ∧ numChunksLen (64 * 65535 - 1) = some 65535 ∧
    numChunksLen (64 * 65535) = none := by decide
example : encode [1] 100 = some [1, 0, 2] := by decide
example : verifyValue [1, 0, 2] (List.replicate 100 7) = true := by decide
example : verifyValue [1, 0, 1] (List.replicate 100 7) = false := by decide
example : maxChunks [7] = none ∧ maxChunks [] = none := by decide

end HyperModel.Props.C40
