import HyperModel.Model.Balance
import HyperModel.Proofs.Balance
/-!
# C34 Balance formatting and parsing round-trip

Model: `Model/Balance.lean` = `utils.FormatBalance / ParseBalance` as of /repo commit f4579f3
("format and parse balances with integer arithmetic" = `fixes/C34-balance-integer-arithmetic.patch`).
Both halves of the property were violated before /repo f4579f3 (float64 code), not only for
balances ≥ 2^53: `FormatBalance(4095) = "0.000004095"` parsed back to 4094; `"0.000000247"`
parsed to 246; 2^53+1, 123456789123456789, 2^64−1 did not round-trip.  These witnesses stay
first in the harness corpus; a regression is flagged by the oracle keys `roundtrip…`,
`format-inexact…`, `parse-inexact…`.

Strings are byte lists; `AllDigits`, `decVal` (the number a digit string denotes) are in
`Proofs/Balance.lean`.
-/
namespace HyperModel.Props.C34
open HyperModel.Balance HyperModel.Proofs.Balance
open HyperModel.Generated.C34 (decimals)

theorem decimals_pos : 0 < decimals := by decide

/-- the amount in base units denoted by whole-part digits `w` and fraction digits `f` -/
def amount (w f : Str) : Nat := decVal w * unit + decVal f * 10 ^ (decimals - f.length)

/-- value of the digit string the parser accumulates -/
theorem digits_value (w f : Str) (hf : f.length ≤ decimals) :
    digitsVal (w ++ f ++ List.replicate (decimals - f.length) 48) 0 = amount w f := by
  rw [digitsVal_append, digitsVal_append, digitsVal_replicate, digitsVal_eq f]
  unfold amount decVal unit
  have : decimals = f.length + (decimals - f.length) := by omega
  rw [Nat.add_mul, Nat.mul_assoc, ← Nat.pow_add, ← this]

/-- `parseBalance` on a string whose `cut` is known -/
theorem parse_of_cut (s w f : Str) (hcut : cut s = (w, f)) (hw : AllDigits w) (hf : AllDigits f)
    (hlen : f.length ≤ decimals) (hne : w ≠ [] ∨ f ≠ []) :
    (amount w f ≤ maxUint64 → parseBalance s = .ok (amount w f)) ∧
    (maxUint64 < amount w f → parseBalance s = .error .range) := by
  have hguard : ¬ ((w.length = 0 ∧ f.length = 0) ∨ f.length > decimals) := by
    rintro (⟨h1, h2⟩ | h)
    · rcases hne with h | h
      · exact h (List.eq_nil_of_length_eq_zero h1)
      · exact h (List.eq_nil_of_length_eq_zero h2)
    · omega
  have hd : AllDigits (w ++ f ++ List.replicate (decimals - f.length) 48) :=
    allDigits_append.mpr ⟨allDigits_append.mpr ⟨hw, hf⟩, allDigits_replicate _⟩
  have hv := digits_value w f hlen
  unfold parseBalance
  simp only [hcut, hguard, if_false]
  constructor
  · intro h
    rw [accumulate_ok _ 0 hd (by rw [hv]; exact h), hv]
  · intro h
    exact accumulate_range _ 0 (Nat.zero_le _) hd (by rw [hv]; exact h)

/-- **C34 (b)** a decimal string `w.f` with at most `Decimals` fractional digits (digits only,
at least one digit overall) parses to *exactly* `w·10^Decimals + f·10^(Decimals−|f|)` base
units when that fits into 64 bits, and is rejected with a range error otherwise.  Same for a
string `w` without a decimal point. -/
theorem parse_exact (w f : Str) (hw : AllDigits w) (hf : AllDigits f)
    (hlen : f.length ≤ decimals) (hne : w ≠ [] ∨ f ≠ []) :
    (amount w f ≤ maxUint64 → parseBalance (w ++ 46 :: f) = .ok (amount w f)) ∧
    (maxUint64 < amount w f → parseBalance (w ++ 46 :: f) = .error .range) ∧
    (w ≠ [] → amount w [] ≤ maxUint64 → parseBalance w = .ok (decVal w * unit)) ∧
    (w ≠ [] → maxUint64 < amount w [] → parseBalance w = .error .range) := by
  have h1 := parse_of_cut (w ++ 46 :: f) w f (cut_dot w f (not_dot_of_digits hw)) hw hf hlen hne
  have hamt : amount w [] = decVal w * unit := by simp [amount, decVal, digitsVal]
  refine ⟨h1.1, h1.2, ?_, ?_⟩
  · intro hwne hfit
    have h2 := parse_of_cut w w [] (cut_no_dot w (not_dot_of_digits hw)) hw allDigits_nil
      (Nat.zero_le _) (Or.inl hwne)
    rw [← hamt]
    exact h2.1 hfit
  · intro hwne hbig
    have h2 := parse_of_cut w w [] (cut_no_dot w (not_dot_of_digits hw)) hw allDigits_nil
      (Nat.zero_le _) (Or.inl hwne)
    exact h2.2 hbig

/-- shape of the formatted text: whole part, `.`, exactly `Decimals` fraction digits -/
theorem format_shape (bal : Nat) :
    ∃ w f, formatBalance bal = w ++ 46 :: f ∧ AllDigits w ∧ AllDigits f ∧ w ≠ [] ∧
      f.length = decimals ∧ decVal w = bal / unit ∧ decVal f = bal % unit := by
  have hF := fmtUint_length_le (bal % unit) decimals decimals_pos (Nat.mod_lt _ (by unfold unit; exact Nat.pow_pos (by decide)))
  refine ⟨fmtUint (bal / unit),
    List.replicate (decimals - (fmtUint (bal % unit)).length) 48 ++ fmtUint (bal % unit), ?_, ?_, ?_, ?_, ?_, ?_, ?_⟩
  · simp [formatBalance]
  · exact fmtUint_digits _
  · exact allDigits_append.mpr ⟨allDigits_replicate _, fmtUint_digits _⟩
  · intro h
    have := fmtUint_length_pos (bal / unit)
    rw [h] at this
    simp at this
  · simp only [List.length_append, List.length_replicate]; omega
  · exact fmtUint_val _
  · unfold decVal
    rw [digitsVal_append, digitsVal_replicate, Nat.zero_mul]
    exact fmtUint_val _

/-- **C34 (a)** formatting any 64-bit balance and parsing it back yields the same balance. -/
theorem roundtrip (bal : Nat) (h : bal ≤ maxUint64) :
    parseBalance (formatBalance bal) = .ok bal := by
  obtain ⟨w, f, hfmt, hw, hf, hwne, hflen, hwv, hfv⟩ := format_shape bal
  have hamt : amount w f = bal := by
    unfold amount
    rw [hwv, hfv, hflen, Nat.sub_self, Nat.pow_zero, Nat.mul_one]
    exact Nat.div_add_mod' bal unit
  have := (parse_exact w f hw hf (by omega) (Or.inl hwne)).1
  rw [hamt] at this
  rw [hfmt]
  exact this h

/-- **C34 (b′), converse** whatever `parseBalance` accepts is a decimal string (`w`, `w.f`,
`w.`, `.f`; digits only, ≤ `Decimals` fraction digits) and the result is exactly its amount. -/
theorem parse_sound (s : Str) (v : Nat) (h : parseBalance s = .ok v) :
    ∃ w f, (s = w ++ 46 :: f ∨ (s = w ∧ f = [])) ∧ AllDigits w ∧ AllDigits f ∧
      f.length ≤ decimals ∧ (w ≠ [] ∨ f ≠ []) ∧ v = amount w f ∧ v ≤ maxUint64 := by
  unfold parseBalance at h
  cases hc : cut s with
  | mk w f =>
    simp only [hc] at h
    by_cases hg : (w.length = 0 ∧ f.length = 0) ∨ f.length > decimals
    · rw [if_pos hg] at h; cases h
    · rw [if_neg hg] at h
      obtain ⟨hd, hv, hmax⟩ := accumulate_sound _ 0 v (Nat.zero_le _) h
      obtain ⟨hwf, _⟩ := allDigits_append.mp hd
      obtain ⟨hw, hf⟩ := allDigits_append.mp hwf
      have hlen : f.length ≤ decimals := by omega
      obtain ⟨_, hs⟩ := cut_spec s w f hc
      refine ⟨w, f, ?_, hw, hf, hlen, ?_, ?_, hmax⟩
      · rcases hs with ⟨h1, h2⟩ | h1
        · exact Or.inr ⟨h1, h2⟩
        · exact Or.inl h1
      · apply Classical.byContradiction
        intro hn
        apply hg
        left
        have hw' : w = [] := Classical.byContradiction fun e => hn (Or.inl e)
        have hf' : f = [] := Classical.byContradiction fun e => hn (Or.inr e)
        simp [hw', hf']
      · rw [hv, digits_value w f hlen]

/-! non-vacuity and the design-time witnesses, now exact -/
example : parseBalance (formatBalance (2 ^ 53 + 1)) = .ok (2 ^ 53 + 1) := roundtrip _ (by decide)
example : parseBalance (formatBalance (2 ^ 64 - 1)) = .ok (2 ^ 64 - 1) := roundtrip _ (by decide)
example : formatBalance 4095 = [48, 46, 48, 48, 48, 48, 48, 52, 48, 57, 53] := by
  simp [formatBalance, fmtUint, unit, decimals]
-- "18446744073.709551616" is one base unit too many
example : parseBalance [49,56,52,52,54,55,52,52,48,55,51,46,55,48,57,53,53,49,54,49,54] = .error .range := by
  rfl
example : parseBalance [49, 46, 53] = .ok 1500000000 := by rfl
example : parseBalance [49, 101, 51] = .error .syntax := by rfl

end HyperModel.Props.C34
