import HyperModel.Proofs.EHeap
import HyperModel.Proofs.EMap
/-!
# C25 — expiry-indexed sets behave like a set of IDs ordered by expiry

Models: `Model/Heap.lean` (the array heap of `internal/heap` with `container/heap`'s `up`/`down`,
per-entry `Index`, `lookup` key set), `Model/EHeap.lean` (`ExpiryHeap`), `Model/EMap.lean` (`EMap`).

**Spec** (what "ordered set" means here): the abstract value of an `ExpiryHeap` is the list
`eh.items` *up to permutation* with pairwise distinct IDs, i.e. a finite set of items keyed by ID;
`add` inserts unless the ID is present, `remove id` deletes the item with that ID, `peekMin` is an
item of minimal expiry, `setMin t` splits the set into the items with expiry `< t` (returned) and
the rest (kept). The theorems below say that the array algorithm refines this, for every
operation sequence (`einv_reachable`, `heap_inv_preserved`).

Full strength: `Heap` (both min and max heaps), `ExpiryHeap`, and `EMap` (abstract value: the
relation `Tr e id t`, "id is tracked with expiry t", a partial map ID → non-zero expiry; invariant
`EMInv`: `seen` ↔ buckets ↔ bucket heap consistent). All theorems quantify over every operation
sequence from the empty structure. Each exported `EMap` method is one atomic step (it holds `e.mu`
for its whole body — an assumption about the code, listed in `checks/C25.json`, exercised by the
concurrent `-race` tie).
-/
namespace HyperModel.Props.C25
open HyperModel.Heap HyperModel.EHeap HyperModel.EMap

variable {α : Type} [Inhabited α]

/-! ## The array heap (`internal/heap`) -/

/-- operations of `Heap` as its callers use them (`Push` with `Index: Len()`) -/
inductive HOp (α : Type) where
  | push (id : ID) (item : α) (val : Int)
  | pop
  | remove (index : Nat)

def happly (h : Heap α) : HOp α → Heap α
  | .push id item val => h.push { id := id, item := item, val := val, index := h.len }
  | .pop => (h.pop).1
  | .remove i => (h.remove i).1

theorem happly_inv (h : Heap α) (hI : Inv h) (op : HOp α) : Inv (happly h op) := by
  cases op with
  | push id item val =>
    by_cases hh : h.lookup id = true
    · simp only [happly]; rw [push_dup h hI _ hh]; exact hI
    · exact (push_new h hI { id := id, item := item, val := val, index := h.len } (by simpa using hh) rfl).1
  | pop =>
    by_cases h0 : h.items.size = 0
    · simp only [happly, pop_none h h0]; exact hI
    · obtain ⟨_, _, _, hinv, _⟩ := pop_spec h hI (by omega); exact hinv
  | remove i =>
    by_cases hi : i < h.items.size
    · obtain ⟨_, _, _, hinv, _⟩ := Heap.remove_spec h hI i hi; exact hinv
    · simp only [happly, remove_none h i (by omega)]; exact hI

/-- **heap_inv_preserved**: after *every* sequence of `Push`/`Pop`/`Remove(index)` on an empty min- or
max-heap: `Index` = slot for every entry, IDs pairwise distinct, `lookup` keys = IDs in the array,
and heap order (`Inv`). -/
theorem heap_inv_preserved (isMin : Bool) (ops : List (HOp α)) :
    Inv (ops.foldl happly (Heap.new isMin : Heap α)) := by
  suffices ∀ (h : Heap α), Inv h → Inv (ops.foldl happly h) from this _ (Inv.new isMin)
  induction ops with
  | nil => intro h hI; exact hI
  | cons op rest ih => intro h hI; exact ih _ (happly_inv h hI op)

/-- **first_is_min** (heap): `First()` is `nil` iff the heap is empty, otherwise the root, and no held
entry comes strictly before it in the heap's order (`key` = `Val` for a min-heap, `-Val` for a max-heap). -/
theorem first_is_min (isMin : Bool) (ops : List (HOp α)) :
    let h := ops.foldl happly (Heap.new isMin : Heap α)
    (h.items.size = 0 → h.first = none) ∧
    (0 < h.items.size → h.first = some h.items[0]! ∧
      ∀ k, k < h.items.size → key h.isMin h.items[0]! ≤ key h.isMin h.items[k]!) :=
  first_spec _ (heap_inv_preserved isMin ops)

/-- `Get`/`Has` agree with the array: absent IDs are not found, a present ID yields the entry of the
slot recorded in its `Index`. -/
theorem heap_get_correct (isMin : Bool) (ops : List (HOp α)) (id : ID) :
    let h := ops.foldl happly (Heap.new isMin : Heap α)
    (h.has id = true ↔ ∃ k, k < h.items.size ∧ h.items[k]!.id = id) ∧
    (h.has id = false → h.get id = none) ∧
    (h.has id = true → ∃ k, k < h.items.size ∧ h.get id = some h.items[k]! ∧ h.items[k]!.id = id ∧
      h.items[k]!.index = k) := by
  intro h
  have hI := heap_inv_preserved isMin ops
  refine ⟨?_, (get_spec h hI id).1, (get_spec h hI id).2⟩
  rw [← mem_ids_iff]; exact hI.lookup id

/-- `Remove(index)` removes exactly the entry of that slot (everything else is kept, as a multiset of
entries without their position field) and returns it. -/
theorem heap_remove_exact (isMin : Bool) (ops : List (HOp α)) (i : Nat) :
    let h := ops.foldl happly (Heap.new isMin : Heap α)
    i < h.items.size →
    ∃ e, (h.remove i).2 = some e ∧ e.core = h.items[i]!.core ∧
      (cores h.items).Perm (h.items[i]!.core :: cores (h.remove i).1.items) := by
  intro h hi
  obtain ⟨e, h1, h2, _, _, h5⟩ := Heap.remove_spec h (heap_inv_preserved isMin ops) i hi
  exact ⟨e, h1, h2, h5⟩

/-! ## `ExpiryHeap` -/

variable [ExpItem α]

inductive EOp (α : Type) where
  | add (x : α)
  | remove (id : ID)
  | setMin (t : Int)
  | popMin

def eapply (eh : EHeap α) : EOp α → EHeap α
  | .add x => eh.add x
  | .remove id => (eh.remove id).1
  | .setMin t => (eh.setMin t).1
  | .popMin => (eh.popMin).1

theorem eapply_inv (eh : EHeap α) (hI : EInv eh) (op : EOp α) : EInv (eapply eh op) := by
  cases op with
  | add x => exact (add_spec eh hI x).1
  | remove id =>
    by_cases hh : eh.has id = true
    · obtain ⟨_, _, _, _, hinv, _⟩ := (EHeap.remove_spec eh hI id).2 hh; exact hinv
    · simp only [eapply, (EHeap.remove_spec eh hI id).1 (by simpa using hh)]; exact hI
  | setMin t => exact (setMin_spec eh hI t).1
  | popMin =>
    cases hp : eh.peekMin with
    | none =>
      have : eh.popMin = (eh, none) := by
        simp only [EHeap.peekMin] at hp
        simp only [EHeap.popMin]
        split at hp
        · rename_i h; simp
        · cases hp
      simp only [eapply, this]; exact hI
    | some x => exact (popMin_spec eh hI x hp).2.1

/-- every `ExpiryHeap` reachable by any operation sequence satisfies the representation invariant
(in particular `heap_inv_preserved` for its inner heap, entries consistent with their items). -/
theorem einv_reachable (ops : List (EOp α)) : EInv (ops.foldl eapply (EHeap.new : EHeap α)) := by
  suffices ∀ (eh : EHeap α), EInv eh → EInv (ops.foldl eapply eh) from this _ EInv.new
  induction ops with
  | nil => intro eh hI; exact hI
  | cons op rest ih => intro eh hI; exact ih _ (eapply_inv eh hI op)

/-- at most one item per ID -/
theorem ids_distinct (ops : List (EOp α)) :
    ((ops.foldl eapply (EHeap.new : EHeap α)).items.map ExpItem.id).Nodup :=
  (einv_reachable ops).ids_nodup

/-- **add_idempotent**: adding an ID that is present (with any expiry) changes nothing at all;
adding a new ID inserts exactly that item. -/
theorem add_idempotent (ops : List (EOp α)) (x : α) :
    let eh := ops.foldl eapply (EHeap.new : EHeap α)
    (eh.has (ExpItem.id x) = true → eh.add x = eh) ∧
    (eh.has (ExpItem.id x) = false → (eh.add x).items.Perm (x :: eh.items)) :=
  (add_spec _ (einv_reachable ops) x).2

/-- **contains_eq_spec**: `Has id` ⇔ some held item has that ID; `Len` = number of held items. -/
theorem contains_eq_spec (ops : List (EOp α)) (id : ID) :
    let eh := ops.foldl eapply (EHeap.new : EHeap α)
    (eh.has id = true ↔ ∃ x, x ∈ eh.items ∧ ExpItem.id x = id) ∧ eh.len = eh.items.length :=
  ⟨(einv_reachable ops).has_iff id, len_eq _⟩

/-- **first_is_min** (`PeekMin`): none iff empty; otherwise a held item whose expiry is ≤ every held expiry. -/
theorem peekMin_is_min (ops : List (EOp α)) :
    let eh := ops.foldl eapply (EHeap.new : EHeap α)
    (eh.items = [] → eh.peekMin = none) ∧
    (eh.items ≠ [] → ∃ x, eh.peekMin = some x ∧ x ∈ eh.items ∧
      ∀ y, y ∈ eh.items → ExpItem.expiry x ≤ ExpItem.expiry y) :=
  peekMin_spec _ (einv_reachable ops)

/-- **remove_keeps_min**: removing an arbitrary ID removes exactly the item with that ID (nothing if
absent) and returns it; the result is again a well-formed heap, so `PeekMin` of the remainder is
still a minimum of what remains. -/
theorem remove_keeps_min (ops : List (EOp α)) (id : ID) :
    let eh := ops.foldl eapply (EHeap.new : EHeap α)
    let eh' := (eh.remove id).1
    (eh.has id = false → eh.remove id = (eh, none)) ∧
    (eh.has id = true → ∃ x, (eh.remove id).2 = some x ∧ ExpItem.id x = id ∧ x ∈ eh.items ∧
      eh.items.Perm (x :: eh'.items)) ∧
    (eh'.items = [] → eh'.peekMin = none) ∧
    (eh'.items ≠ [] → ∃ m, eh'.peekMin = some m ∧ m ∈ eh'.items ∧
      ∀ y, y ∈ eh'.items → ExpItem.expiry m ≤ ExpItem.expiry y) := by
  intro eh eh'
  have hI := einv_reachable ops
  have hI' : EInv eh' := eapply_inv eh hI (.remove id)
  refine ⟨(EHeap.remove_spec eh hI id).1, ?_, (peekMin_spec eh' hI').1, (peekMin_spec eh' hI').2⟩
  intro hh
  obtain ⟨x, h1, h2, h3, _, h5⟩ := (EHeap.remove_spec eh hI id).2 hh
  exact ⟨x, h1, h2, h3, h5⟩

/-- **setMin_removes_exactly_below**: `SetMin t` returns (each once) exactly the held items with
expiry `< t` and keeps exactly the others: held = returned ⊎ kept, all returned `< t`, all kept `≥ t`. -/
theorem setMin_removes_exactly_below (ops : List (EOp α)) (t : Int) :
    let eh := ops.foldl eapply (EHeap.new : EHeap α)
    eh.items.Perm ((eh.setMin t).2 ++ (eh.setMin t).1.items) ∧
    (∀ x, x ∈ (eh.setMin t).2 → ExpItem.expiry x < t) ∧
    (∀ y, y ∈ (eh.setMin t).1.items → t ≤ ExpItem.expiry y) :=
  (setMin_spec _ (einv_reachable ops) t).2

/-! ## `EMap` (replay protection) -/

inductive EMOp where
  | add (items : List (ID × Int))
  | setMin (t : Int)

def emapply (e : EMap) : EMOp → EMap
  | .add items => e.add items
  | .setMin t => (e.setMin t).1

/-- **emap_inv_reachable**: after every sequence of `Add`/`SetMin`: the bucket heap satisfies
`heap_inv_preserved`'s invariant, every heap entry points to a live bucket that lists the entry's ID,
every bucket has exactly one heap entry, `seen` = union of the buckets, buckets are duplicate-free
and pairwise disjoint, and no bucket has timestamp 0. -/
theorem emap_inv_reachable (ops : List EMOp) : EMInv (ops.foldl emapply EMap.new) := by
  suffices ∀ e, EMInv e → EMInv (ops.foldl emapply e) from this _ EMInv.new
  induction ops with
  | nil => intro e hI; exact hI
  | cons op rest ih =>
    intro e hI
    apply ih
    cases op with
    | add items => exact add_inv e hI items
    | setMin t => exact (EMap.setMin_spec e hI t).1

/-- every tracked ID has exactly one, non-zero, expiry; `seen` is exactly the tracked IDs -/
theorem emap_tracked_nonzero (ops : List EMOp) (id : ID) :
    let e := ops.foldl emapply EMap.new
    (e.seen id = true ↔ ∃ t, Tr e id t) ∧
    (∀ t, Tr e id t → t ≠ 0) ∧ (∀ t1 t2, Tr e id t1 → Tr e id t2 → t1 = t2) := by
  intro e
  have hI := emap_inv_reachable ops
  refine ⟨hI.seen id, ?_, hI.disj id⟩
  rintro t ⟨l, hl, _⟩
  exact (hI.nodup t l hl).2

/-- **emap_add_idempotent**: adding a tracked ID (with any expiry) or any ID with expiry 0 changes
nothing at all; adding an untracked ID with non-zero expiry `t` tracks exactly `id ↦ t` in addition. -/
theorem emap_add_idempotent (ops : List EMOp) (id : ID) (t : Int) :
    let e := ops.foldl emapply EMap.new
    ((∃ u, Tr e id u) → e.add1 id t = e) ∧ (t = 0 → e.add1 id t = e) ∧
    (∀ j u, Tr (e.add1 id t) j u ↔ Tr e j u ∨ (j = id ∧ u = t ∧ t ≠ 0 ∧ ¬ ∃ v, Tr e id v)) := by
  intro e
  have hI := emap_inv_reachable ops
  refine ⟨fun h => add1_noop e id t (Or.inr ((hI.seen id).2 h)), fun h => add1_noop e id t (Or.inl h), ?_⟩
  intro j u
  rw [(add1_inv e hI id t).2 j u]
  have : e.seen id = false ↔ ¬ ∃ v, Tr e id v := by
    rw [← hI.seen id]; cases e.seen id <;> simp
  rw [this]

/-- **emap_setMin_removes_exactly_below**: `SetMin t` returns, each once, exactly the tracked IDs whose
expiry is `< t`, and afterwards exactly the others are tracked (with their expiries). By
`emap_tracked_nonzero` these are all entries with non-zero expiry (zero-expiry adds are never tracked). -/
theorem emap_setMin_removes_exactly_below (ops : List EMOp) (t : Int) :
    let e := ops.foldl emapply EMap.new
    (∀ id, id ∈ (e.setMin t).2 ↔ ∃ u, u < t ∧ Tr e id u) ∧ (e.setMin t).2.Nodup ∧
    (∀ id u, Tr (e.setMin t).1 id u ↔ Tr e id u ∧ t ≤ u) :=
  (EMap.setMin_spec _ (emap_inv_reachable ops) t).2

/-- **emap_contains_eq_spec**: `Any` = some listed ID is tracked. `Contains(items, marker, stop)` returns
the initial marker plus — without `stop` — every position whose ID is tracked, or — with `stop` — only
the first position that is unmarked and whose ID is tracked (the early exit). -/
theorem emap_contains_eq_spec (ops : List EMOp) (ids : List ID) (marker : List Nat) (stop : Bool) (j : Nat) :
    let e := ops.foldl emapply EMap.new
    (e.any ids = true ↔ ∃ id, id ∈ ids ∧ ∃ t, Tr e id t) ∧
    (j ∈ e.contains ids marker stop ↔
      j ∈ marker ∨
      ((∃ id, ids[j]? = some id ∧ ∃ t, Tr e id t) ∧
        (stop = true → ∀ j', j' < j → j' ∈ marker ∨ ∀ id, ids[j']? = some id → ¬ ∃ t, Tr e id t))) := by
  intro e
  have hI := emap_inv_reachable ops
  constructor
  · simp only [EMap.any, List.any_eq_true]
    constructor
    · rintro ⟨id, h1, h2⟩; exact ⟨id, h1, (hI.seen id).1 h2⟩
    · rintro ⟨id, h1, h2⟩; exact ⟨id, h1, (hI.seen id).2 h2⟩
  · have hf : ∀ id, e.seen id = false ↔ ¬ ∃ t, Tr e id t := by
      intro id; rw [← hI.seen id]; cases e.seen id <;> simp
    simp only [EMap.contains]
    rw [containsLoop_spec]
    simp only [Nat.zero_le, true_and, Nat.sub_zero, true_implies]
    constructor
    · rintro (h | ⟨⟨id, h1, h2⟩, h3⟩)
      · exact Or.inl h
      · refine Or.inr ⟨⟨id, h1, (hI.seen id).1 h2⟩, fun hs j' hj' => ?_⟩
        rcases h3 hs j' hj' with h | h
        · exact Or.inl h
        · exact Or.inr fun id hid => (hf id).1 (h id hid)
    · rintro (h | ⟨⟨id, h1, h2⟩, h3⟩)
      · exact Or.inl h
      · refine Or.inr ⟨⟨id, h1, (hI.seen id).2 h2⟩, fun hs j' hj' => ?_⟩
        rcases h3 hs j' hj' with h | h
        · exact Or.inl h
        · exact Or.inr fun id hid => (hf id).2 (h id hid)

/-! ## Non-vacuity -/

private structure It where
  id : Nat
  exp : Int
  deriving Inhabited
private instance : ExpItem It := ⟨It.id, It.exp⟩

/-- the hypothesis of `add_idempotent` is satisfiable: after `add ⟨1,5⟩` the ID 1 is present, so a
second add of ID 1 with another expiry is ignored -/
example : ((([EOp.add ⟨1, 5⟩] : List (EOp It)).foldl eapply EHeap.new).has (ExpItem.id (⟨1, 9⟩ : It))) = true := by
  simp [eapply, EHeap.add, EHeap.has, Heap.push, Heap.innerPush, Heap.has, EHeap.new, Heap.new, ExpItem.id]

end HyperModel.Props.C25
