import HyperModel.Model.Sig
/-!
# C17 Signatures are non-malleable and bind to the actor's address — PARTIAL by design

What is proved is the *logic* that hypersdk itself contributes:
* the auth codecs are bijections between well-formed auth values and byte strings of exactly
  the declared size with the declared type id (`auth_roundtrip`, `auth_canonical`) — so there
  is no alternative, truncated or extended encoding of an auth;
* addresses are `typeID :: H(pk)`: typed, of the declared length, determined by the scheme
  and the key hash, and never shared between schemes (`address_typed`, `address_injective`);
* the scalar range rules remove the algebraic re-encodings: for ed25519 every `s + k·ℓ`
  (k ≥ 1) is rejected and two accepted signatures with the same `R` and congruent `s` are
  byte-identical (`s_plus_l_rejected`, `ed_sig_unique`); for P-256 exactly one of `s`, `n − s`
  passes the low-s test (`low_s_unique`), over the real group orders as literals.

NOT proved (outside any executable model here): unforgeability and the absence of *other*
malleability — these are hardness statements about the curves and the hash; the group
equation is a parameter (`groupOK`) of `verify`.
-/
namespace HyperModel.Props.C17
open HyperModel.Sig HyperModel.Generated.C17

/-- side condition on the regenerated constants: the declared sizes are `1 + pk + sig` -/
theorem size_fact (s : Scheme) : authSize s = 1 + pkLen s + sigLen s := by
  cases s <;> decide

theorem typeByte_injective {s s' : Scheme} (h : typeByte s = typeByte s') : s = s' := by
  cases s <;> cases s' <;> first | rfl | (exfalso; revert h; decide)

/-- **auth_roundtrip** (encode then decode): every well-formed auth value decodes from its own
encoding to itself. -/
theorem auth_roundtrip (G : Group) (a : Auth) (h : WF G a) :
    unmarshal G a.scheme (marshal a) = .ok a := by
  obtain ⟨hp, hs, hv⟩ := h
  have hsz := size_fact a.scheme
  have hlen : (marshal a).length = authSize a.scheme := by
    simp [marshal, hp, hs, hsz]; omega
  have e1 : List.take (pkLen a.scheme) (a.pk ++ a.sig) = a.pk := by
    rw [← hp]; exact List.take_left
  have e2 : List.drop (pkLen a.scheme) (a.pk ++ a.sig) = a.sig := by
    rw [← hp]; exact List.drop_left
  have e3 : List.take (sigLen a.scheme) a.sig = a.sig := by
    rw [← hs]; exact List.take_length
  unfold unmarshal
  rw [if_neg (by simp [hlen])]
  rw [if_neg (by simp [marshal])]
  have d1 : List.drop 1 (marshal a) = a.pk ++ a.sig := by simp [marshal]
  have d2 : List.drop (1 + pkLen a.scheme) (marshal a) = a.sig := by
    simp only [marshal]; rw [Nat.add_comm, List.drop_succ_cons, e2]
  simp only [d1, d2, e1, e3, hv, if_true]

/-- **auth_canonical** (decode then encode): a byte string that decodes is *exactly* the
encoding of the decoded value, which is well-formed and of the requested scheme. Hence
truncated, extended or re-typed auth bytes never decode, and no two byte strings decode to the
same auth. -/
theorem auth_canonical (G : Group) (s : Scheme) (b : Bytes) (a : Auth)
    (h : unmarshal G s b = .ok a) : marshal a = b ∧ a.scheme = s ∧ WF G a := by
  unfold unmarshal at h
  dsimp only at h
  split at h
  · cases h
  · rename_i hlen
    split at h
    · cases h
    · rename_i hhd
      split at h
      · rename_i hv
        injection h with h
        subst h
        have hlen : b.length = authSize s := by simpa using hlen
        have hsz := size_fact s
        cases b with
        | nil => simp at hhd
        | cons x tl =>
          have hx : x = typeByte s := by simpa using hhd
          have htl : tl.length = pkLen s + sigLen s := by simp at hlen; omega
          refine ⟨?_, rfl, ?_, ?_, ?_⟩
          · simp only [marshal, List.drop_succ_cons, List.drop_zero, hx]
            congr 1
            rw [Nat.add_comm 1, List.drop_succ_cons]
            have : List.take (sigLen s) (List.drop (pkLen s) tl) = List.drop (pkLen s) tl := by
              apply List.take_of_length_le; simp [htl]
            rw [this, List.take_append_drop]
          · simp [htl]
          · simp [htl]; omega
          · simpa using hv
      · cases h

theorem unmarshal_injective (G : Group) (s : Scheme) (b b' : Bytes) (a : Auth)
    (h : unmarshal G s b = .ok a) (h' : unmarshal G s b' = .ok a) : b = b' := by
  rw [← (auth_canonical G s b a h).1, ← (auth_canonical G s b' a h').1]

/-- BLS: what the theorems assume about the public key is exactly `G.validPk` (subgroup element,
not infinity) — and the codec *enforces* it: every decoded BLS auth carries a valid key and a
valid signature point … -/
theorem bls_accepted_points_valid (G : Group) (b : Bytes) (a : Auth)
    (h : unmarshal G .bls b = .ok a) : G.validPk a.pk = true ∧ G.validSig a.sig = true := by
  obtain ⟨_, hs, _, _, hv⟩ := auth_canonical G .bls b a h
  rw [hs] at hv
  simpa [pointsOK] using hv

/-- … and an auth whose key bytes are not a valid subgroup element (on-curve cofactor points,
`pk + T`, the point at infinity) never decodes, whatever the signature is. -/
theorem bls_invalid_pk_rejected (G : Group) (pk sig : Bytes) (hpl : pk.length = pkLen .bls)
    (h : G.validPk pk = false) (a : Auth) :
    unmarshal G .bls (marshal ⟨.bls, pk, sig⟩) ≠ .ok a := by
  intro hok
  obtain ⟨hm, hs, hp, _, _⟩ := auth_canonical G .bls _ a hok
  have hv := (bls_accepted_points_valid G _ a hok).1
  have e : a.pk ++ a.sig = pk ++ sig := by
    simp only [marshal, List.cons.injEq] at hm; exact hm.2
  rw [hs] at hp
  have hpk : a.pk = pk := by
    have h1 : (a.pk ++ a.sig).take (pkLen .bls) = a.pk := by rw [← hp]; exact List.take_left
    have h2 : (pk ++ sig).take (pkLen .bls) = pk := by rw [← hpl]; exact List.take_left
    rw [← h1, e, h2]
  rw [hpk, h] at hv; cases hv

/-- truncated / extended auth bytes are rejected -/
theorem wrong_size_rejected (G : Group) (s : Scheme) (b : Bytes) (h : b.length ≠ authSize s) :
    unmarshal G s b = .error .size := by
  simp [unmarshal, h]

/-- **address_typed**: the address of an auth starts with the scheme's type id, has the
declared address length and its remaining bytes are the key hash. -/
theorem address_typed (s : Scheme) (id : Bytes) (hid : id.length = idLen) :
    (address s id).head? = some (typeByte s) ∧ (address s id).length = addressLen ∧
      (address s id).tail = id := by
  refine ⟨rfl, ?_, rfl⟩
  simp [address, hid]; decide

/-- NOTE: this is injectivity of the *assembly* `typeID :: id` only. That `Actor()` really is
`CreateAddress(typeID, ToID(pk))` and that `Sponsor() = Actor()` is checked by the oracle on
every decoded auth, not proved (the Go methods are not modelled beyond `address`).
addresses determine scheme and key hash: no address is shared between two schemes, or
between two different key hashes of one scheme. -/
theorem address_injective (s s' : Scheme) (id id' : Bytes) (h : address s id = address s' id') :
    s = s' ∧ id = id' := by
  simp only [address, List.cons.injEq] at h
  exact ⟨typeByte_injective h.1, h.2⟩

/-! ### P-256 low-s rule -/

theorem p256N_odd : p256N % 2 = 1 := by decide

theorem low_gen (N s : Nat) (hodd : N % 2 = 1) (_h0 : 0 < s) (hn : s < N) :
    (s ≤ N / 2 ∧ ¬ (N - s ≤ N / 2)) ∨ (¬ s ≤ N / 2 ∧ N - s ≤ N / 2) := by omega

/-- **low_s_unique**: for `0 < s < n` exactly one of `s`, `n − s` passes `normalizedS`
(arithmetic over the real curve order). -/
theorem low_s_unique (s : Nat) (h0 : 0 < s) (hn : s < p256N) :
    (lowS s = true ∧ lowS (p256N - s) = false) ∨ (lowS s = false ∧ lowS (p256N - s) = true) := by
  unfold lowS halfOrder
  rcases low_gen p256N s p256N_odd h0 hn with ⟨a, b⟩ | ⟨a, b⟩
  · exact Or.inl ⟨decide_eq_true a, decide_eq_false b⟩
  · exact Or.inr ⟨decide_eq_false a, decide_eq_true b⟩

/-- the bound is exact: ⌊n/2⌋ passes, ⌊n/2⌋+1 = n − ⌊n/2⌋ does not, and nothing above does — in
particular no s in the window (⌊n/2⌋, 2^255) whose top bit is clear. -/
theorem lowS_boundary : lowS halfOrder = true ∧ lowS (halfOrder + 1) = false ∧
    p256N - halfOrder = halfOrder + 1 ∧ halfOrder + 1 < 2 ^ 255 := by decide

theorem lowS_above_half_rejected (s : Nat) (h : halfOrder < s) : lowS s = false := by
  simp only [lowS, decide_eq_false_iff_not, Nat.not_le]; exact h

/-- the same on signature bytes `r ‖ s` vs `r' ‖ (n − s)` -/
theorem low_s_unique_bytes (sig sig' : Bytes)
    (h0 : 0 < beNat (sig.drop 32)) (hn : beNat (sig.drop 32) < p256N)
    (hneg : beNat (sig'.drop 32) = p256N - beNat (sig.drop 32)) :
    ¬ (secpRangeOK sig = true ∧ secpRangeOK sig' = true) := by
  have := low_s_unique _ h0 hn
  simp only [secpRangeOK, hneg]
  rcases this with ⟨_, h⟩ | ⟨h, _⟩ <;> simp [h]

/-- whatever the group equation says, `verify` accepts at most one of the two -/
theorem verify_low_s (sig sig' : Bytes) (g g' : Bool)
    (h0 : 0 < beNat (sig.drop 32)) (hn : beNat (sig.drop 32) < p256N)
    (hneg : beNat (sig'.drop 32) = p256N - beNat (sig.drop 32)) :
    ¬ (verify .secp256r1 sig g = true ∧ verify .secp256r1 sig' g' = true) := by
  intro ⟨h1, h2⟩
  simp only [verify, rangeOK, Bool.and_eq_true] at h1 h2
  exact low_s_unique_bytes sig sig' h0 hn hneg ⟨h1.1, h2.1⟩

/-! ### ed25519 `s < ℓ` rule -/

theorem ell_pos : 0 < ell := by decide

/-- **s_plus_l_rejected**: adding any positive multiple of ℓ to a scalar makes it
non-canonical. -/
theorem s_plus_l_rejected (s k : Nat) (hk : 0 < k) : edCanonical (s + k * ell) = false := by
  simp only [edCanonical, decide_eq_false_iff_not, Nat.not_lt]
  calc ell = 1 * ell := (Nat.one_mul _).symm
    _ ≤ k * ell := Nat.mul_le_mul_right _ hk
    _ ≤ s + k * ell := Nat.le_add_left _ _

/-- each residue class mod ℓ has at most one accepted representative -/
theorem ed_scalar_unique (a b : Nat) (ha : edCanonical a = true) (hb : edCanonical b = true)
    (h : a % ell = b % ell) : a = b := by
  simp only [edCanonical, decide_eq_true_eq] at ha hb
  rwa [Nat.mod_eq_of_lt ha, Nat.mod_eq_of_lt hb] at h

theorem leNat_inj : ∀ (a b : Bytes), a.length = b.length → leNat a = leNat b → a = b
  | [], [], _, _ => rfl
  | [], _ :: _, h, _ => by simp at h
  | _ :: _, [], h, _ => by simp at h
  | x :: a, y :: b, hl, h => by
    simp only [leNat] at h
    have hx := x.toNat_lt
    have hy := y.toNat_lt
    have h1 : x.toNat = y.toNat := by omega
    have h2 : leNat a = leNat b := by omega
    have hl' : a.length = b.length := by simpa using hl
    rw [leNat_inj a b hl' h2, UInt8.toNat_inj.mp h1]

/-- the rule on verifier level: a signature whose scalar field encodes `s + k·ℓ` (k ≥ 1) is
rejected whatever the group equation says. -/
theorem verify_rejects_s_plus_l (sig : Bytes) (s k : Nat) (hk : 0 < k)
    (h : leNat (sig.drop 32) = s + k * ell) (g : Bool) : verify .ed25519 sig g = false := by
  simp [verify, rangeOK, edRangeOK, h, s_plus_l_rejected s k hk]

/-- **ed_sig_unique**: two signatures accepted by the range rule that carry the same `R` bytes
and scalars in the same residue class mod ℓ (i.e. that satisfy the same group equation) are
the same byte string — no alternative encoding of `s`. -/
theorem ed_sig_unique (sig sig' : Bytes) (h : edRangeOK sig = true) (h' : edRangeOK sig' = true)
    (hR : sig.take 32 = sig'.take 32)
    (hs : leNat (sig.drop 32) % ell = leNat (sig'.drop 32) % ell) : sig = sig' := by
  simp only [edRangeOK, Bool.and_eq_true, beq_iff_eq] at h h'
  obtain ⟨⟨hl, _⟩, hc⟩ := h
  obtain ⟨⟨hl', _⟩, hc'⟩ := h'
  have hv := ed_scalar_unique _ _ hc hc' hs
  have hd : sig.drop 32 = sig'.drop 32 := leNat_inj _ _ (by simp [hl, hl']) hv
  rw [← List.take_append_drop 32 sig, ← List.take_append_drop 32 sig', hR, hd]

theorem verify_implies_range (s : Scheme) (sig : Bytes) (g : Bool) (h : verify s sig g = true) :
    rangeOK s sig = true ∧ g = true := by
  simpa [verify] using h

/-! ### what is proved about non-malleability, and what is not

Full statement of the property (NOT provable in this model — kept visible):

    theorem non_malleability : ∀ scheme msg pk sig sig',
      Verify scheme msg pk sig → Verify scheme msg pk sig' → sig = sig'
    (and the same for alternative public-key encodings with the same address)

It needs facts about the curves and hashes (the group equation is the parameter `groupOK`):
point re-encodings, torsion components and unforgeability are outside the model. The part
that hypersdk's own code decides is proved: -/

/-- **non_malleability_partial**: (1) an auth decodes from exactly one byte string;
(2) ed25519: two accepted signatures that carry the same `R` *bytes* and satisfy the same group
equation (scalars congruent mod ℓ) are byte-identical; (3) P-256: of `(r, s)` and `(r, n − s)`
at most one is accepted, whatever the group equation says.
Missing (oracle-searched only): alternative *point* encodings of `R` / `A` (ZIP-215 accepts
non-canonical and small-order points — see `non_malleability_counterexample`), BLS point
encodings (blst), and unforgeability. -/
theorem non_malleability_partial :
    (∀ (G : Group) (s : Scheme) (b b' : Bytes) (a : Auth),
        unmarshal G s b = .ok a → unmarshal G s b' = .ok a → b = b') ∧
    (∀ (sig sig' : Bytes) (g g' : Bool), verify .ed25519 sig g = true → verify .ed25519 sig' g' = true →
        sig.take 32 = sig'.take 32 → leNat (sig.drop 32) % ell = leNat (sig'.drop 32) % ell → sig = sig') ∧
    (∀ (sig sig' : Bytes) (g g' : Bool), 0 < beNat (sig.drop 32) → beNat (sig.drop 32) < p256N →
        beNat (sig'.drop 32) = p256N - beNat (sig.drop 32) →
        ¬ (verify .secp256r1 sig g = true ∧ verify .secp256r1 sig' g' = true)) := by
  refine ⟨unmarshal_injective, ?_, ?_⟩
  · intro sig sig' g g' h h' hR hs
    exact ed_sig_unique sig sig' (verify_implies_range _ _ _ h).1 (verify_implies_range _ _ _ h').1 hR hs
  · intro sig sig' g g' h0 hn hneg
    exact verify_low_s sig sig' g g' h0 hn hneg

/-- `R` = the identity `(0,1)`, `s = 0` -/
def torsionSigA : Bytes := (1 :: List.replicate 31 0) ++ List.replicate 32 0
/-- `R` = the order-2 point `(0,−1)`, `s = 0` -/
def torsionSigB : Bytes := (236 :: List.replicate 30 255 ++ [127]) ++ List.replicate 32 0

/-- **non_malleability_counterexample** (known finding
`malleable-signature-ed25519-small-order-key`): the range rules cannot tell apart two signatures
with the same scalar and different `R` bytes. For a small-order public key the real group
equation ([8]([s]B − [k]A − R) = 0) holds for both (the harness re-demonstrates it on
ed25519consensus on every run), so both verify for the same message and key. -/
theorem non_malleability_counterexample :
    torsionSigA ≠ torsionSigB ∧ torsionSigA.drop 32 = torsionSigB.drop 32 ∧
      verify .ed25519 torsionSigA true = true ∧ verify .ed25519 torsionSigB true = true := by
  decide

/-! ### non-vacuity -/

def exG : Group := ⟨fun _ => true, fun _ => true⟩
def exAuth : Auth := ⟨.ed25519, List.replicate 32 7, List.replicate 64 9⟩

example : WF exG exAuth := ⟨by decide, by decide, by decide⟩
example : (unmarshal exG .ed25519 (marshal exAuth)).toOption = some exAuth := by decide
example : lowS 1 = true ∧ lowS (p256N - 1) = false := by decide
example : edCanonical 5 = true ∧ edCanonical (5 + 1 * ell) = false := by decide
example : edRangeOK (List.replicate 32 1 ++ 5 :: List.replicate 31 0) = true := by decide

end HyperModel.Props.C17
