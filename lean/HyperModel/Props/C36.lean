import HyperModel.Model.DSMR
import HyperModel.Proofs.DSMR
/-! # C36 DSMR chunk storage survives restarts unchanged

Model: `HyperModel.DSMR.Storage` with the db as three key prefixes (`dbMin`, `dbPending`,
`dbAccepted`), `reopen` = `NewChunkStorage` on the same db.  The model transcribes
`storage.go` with the repair `/verif/fixes/C36-delete-pending-key-on-save.patch`. -/
namespace HyperModel.Props.C36
open HyperModel.DSMR

/-- total size of the chunks of `ids` produced by `p` -/
def weightOf (cfg : Cfg) : List Nat → Nat → Nat
  | [], _ => 0
  | i :: r, p => (if p = (cfg.U i).producer then (cfg.U i).size else 0) + weightOf cfg r p

theorem weightOf_append (cfg : Cfg) (l : List Nat) (i p : Nat) :
    weightOf cfg (l ++ [i]) p = weightOf cfg l p + (if p = (cfg.U i).producer then (cfg.U i).size else 0) := by
  induction l with
  | nil => simp [weightOf]
  | cons j r ih => simp only [List.cons_append, weightOf, ih]; omega

theorem weightOf_filter (cfg : Cfg) (i p : Nat) : ∀ (l : List Nat), l.Nodup → i ∈ l →
    weightOf cfg l p = weightOf cfg (l.filter (fun j => j != i)) p +
      (if p = (cfg.U i).producer then (cfg.U i).size else 0) := by
  intro l
  induction l with
  | nil => intro _ h; cases h
  | cons j r ih =>
    intro hnd hi
    have hnd' := (List.nodup_cons.1 hnd)
    by_cases hji : j = i
    · subst hji
      have hfr : r.filter (fun k => k != j) = r := by
        rw [List.filter_eq_self]; intro k hk
        have : k ≠ j := fun e => hnd'.1 (e ▸ hk)
        simpa using this
      simp only [List.filter_cons, bne_self_eq_false, Bool.false_eq_true, if_false, hfr, weightOf]
      omega
    · have hir : i ∈ r := by
        rcases List.mem_cons.1 hi with h | h
        · exact absurd h.symm hji
        · exact h
      have hb : (j != i) = true := by simpa using hji
      simp only [List.filter_cons, hb, if_true, weightOf, ih hnd'.2 hir]
      omega

/-- the in-memory part that `discard` maintains -/
def Inv2 (cfg : Cfg) (s : Storage) : Prop :=
  (pids s).Nodup ∧ ∀ p, s.sizes p = weightOf cfg (pids s) p

/-- the invariant tying memory to the db -/
structure Inv (cfg : Cfg) (s : Storage) : Prop where
  db : s.dbPending = pids s
  mem : Inv2 cfg s
  mn : s.min = s.dbMin.getD 0

theorem discard_fields (cfg : Cfg) (s : Storage) (i : Nat) :
    (DSMR.discard cfg s i).dbPending = s.dbPending ∧ (DSMR.discard cfg s i).dbMin = s.dbMin ∧
    (DSMR.discard cfg s i).min = s.min ∧ (DSMR.discard cfg s i).dbAccepted = s.dbAccepted := by
  unfold DSMR.discard; split <;> exact ⟨rfl, rfl, rfl, rfl⟩

theorem inv2_discard (cfg : Cfg) (s : Storage) (i : Nat) (h : Inv2 cfg s) : Inv2 cfg (DSMR.discard cfg s i) := by
  refine ⟨?_, ?_⟩
  · rw [pids_discard]; exact h.1.filter _
  · intro p
    rw [pids_discard]
    unfold DSMR.discard
    split
    · rename_i hp
      have hi : i ∈ pids s := (hasPending_iff s i).1 hp
      have := weightOf_filter cfg i p (pids s) h.1 hi
      have hs := h.2 p
      by_cases hpp : p = (cfg.U i).producer
      · simp only [if_pos hpp] at this ⊢; omega
      · simp only [if_neg hpp] at this ⊢; omega
    · rename_i hp
      have hi : i ∉ pids s := by rw [← hasPending_iff]; exact hp
      have hfr : (pids s).filter (fun k => k != i) = pids s := by
        rw [List.filter_eq_self]; intro k hk
        have : k ≠ i := fun e => hi (e ▸ hk)
        simpa using this
      rw [hfr]; exact h.2 p

theorem filter_step (l sv : List Nat) (i : Nat) :
    (l.filter (fun j => j != i)).filter (fun j => !sv.contains j) = l.filter (fun j => !(i :: sv).contains j) := by
  rw [List.filter_filter]
  apply List.filter_congr
  intro j _
  simp only [List.contains_cons]
  cases h1 : sv.contains j <;> cases h2 : (j == i) <;> simp [bne, h2]

theorem saveLoop_spec (cfg : Cfg) (ids : List Nat) :
    ∀ (s : Storage) (acc : List Nat) (s' : Storage) (acc' : List Nat),
      saveLoop cfg s ids acc = (s', acc', true) → Inv2 cfg s →
      ∃ sv, acc' = acc ++ sv ∧ pids s' = (pids s).filter (fun i => !sv.contains i) ∧ Inv2 cfg s' ∧
        s'.dbPending = s.dbPending ∧ s'.dbMin = s.dbMin ∧ s'.min = s.min ∧ s'.dbAccepted = s.dbAccepted := by
  induction ids with
  | nil =>
    intro s acc s' acc' h hi
    simp only [saveLoop, Prod.mk.injEq, and_true] at h
    obtain ⟨rfl, rfl⟩ := h
    exact ⟨[], by simp, (List.filter_eq_self.2 (fun a _ => by simp)).symm, hi, rfl, rfl, rfl, rfl⟩
  | cons i rest ih =>
    intro s acc s' acc' h hi
    unfold saveLoop at h
    split at h
    · obtain ⟨sv, h1, h2, h3, h4, h5, h6, h7⟩ := ih _ _ _ _ h (inv2_discard cfg s i hi)
      have hf := discard_fields cfg s i
      refine ⟨i :: sv, by simp [h1], ?_, h3, by rw [h4, hf.1], by rw [h5, hf.2.1], by rw [h6, hf.2.2.1], by rw [h7, hf.2.2.2]⟩
      rw [h2, pids_discard, filter_step]
    · simp at h

theorem foldl_discard_spec (cfg : Cfg) (l : List Nat) :
    ∀ (s : Storage), Inv2 cfg s →
      pids (l.foldl (DSMR.discard cfg) s) = (pids s).filter (fun i => !l.contains i) ∧
      Inv2 cfg (l.foldl (DSMR.discard cfg) s) ∧ (l.foldl (DSMR.discard cfg) s).dbPending = s.dbPending ∧
      (l.foldl (DSMR.discard cfg) s).dbMin = s.dbMin ∧ (l.foldl (DSMR.discard cfg) s).min = s.min ∧
      (l.foldl (DSMR.discard cfg) s).dbAccepted = s.dbAccepted := by
  induction l with
  | nil => intro s hi; exact ⟨(List.filter_eq_self.2 (fun a _ => by simp)).symm, hi, rfl, rfl, rfl, rfl⟩
  | cons i rest ih =>
    intro s hi
    obtain ⟨h2, h3, h4, h5, h6, h7⟩ := ih _ (inv2_discard cfg s i hi)
    have hf := discard_fields cfg s i
    refine ⟨?_, h3, by rw [List.foldl_cons, h4, hf.1], by rw [List.foldl_cons, h5, hf.2.1],
      by rw [List.foldl_cons, h6, hf.2.2.1], by rw [List.foldl_cons, h7, hf.2.2.2]⟩
    rw [List.foldl_cons, h2, pids_discard, filter_step]

theorem putVerified_fields (cfg : Cfg) (s : Storage) (i : Nat) (c : Option Cert) :
    (putVerified cfg s i c).dbPending = insertNew s.dbPending i ∧ (putVerified cfg s i c).dbMin = s.dbMin ∧
    (putVerified cfg s i c).min = s.min ∧
    (putVerified cfg s i c).sizes = (if hasPending s i then s.sizes else
      fun p => if p = (cfg.U i).producer then s.sizes p + (cfg.U i).size else s.sizes p) := by
  unfold putVerified
  split
  · cases c <;> exact ⟨rfl, rfl, rfl, rfl⟩
  · exact ⟨rfl, rfl, rfl, rfl⟩

theorem inv_putVerified (cfg : Cfg) (s : Storage) (i : Nat) (c : Option Cert) (h : Inv cfg s) :
    Inv cfg (putVerified cfg s i c) := by
  obtain ⟨f1, f2, f3, f4⟩ := putVerified_fields cfg s i c
  by_cases hp : hasPending s i = true
  · have hi : i ∈ pids s := (hasPending_iff s i).1 hp
    refine ⟨?_, ⟨?_, ?_⟩, by rw [f3, f2]; exact h.mn⟩
    · rw [f1, pids_putVerified, if_pos hp, h.db]
      simp [insertNew, hi]
    · rw [pids_putVerified, if_pos hp]; exact h.mem.1
    · intro p; rw [f4, pids_putVerified, if_pos hp, if_pos hp]; exact h.mem.2 p
  · have hi : i ∉ pids s := by rw [← hasPending_iff]; exact hp
    refine ⟨?_, ⟨?_, ?_⟩, by rw [f3, f2]; exact h.mn⟩
    · rw [f1, pids_putVerified, if_neg hp, h.db]
      simp [insertNew, hi]
    · rw [pids_putVerified, if_neg hp]
      exact List.nodup_append.2 ⟨h.mem.1, by simp, by intro a ha b hb; simp at hb; subst hb; exact fun e => hi (e ▸ ha)⟩
    · intro p
      rw [f4, pids_putVerified, if_neg hp, if_neg hp, weightOf_append, ← h.mem.2 p]
      split <;> simp

theorem inv_verifyRemote (cfg : Cfg) (s : Storage) (i : Nat) (h : Inv cfg s) : Inv cfg (verifyRemote cfg s i).1 := by
  unfold verifyRemote
  split
  · exact h
  · split <;> exact h
  · split
    · exact h
    · exact inv_putVerified cfg s i none h

theorem inv_setCert (cfg : Cfg) (s : Storage) (c : Cert) (h : Inv cfg s) : Inv cfg (setCert s c).1 := by
  unfold setCert
  split
  · exact h
  · split
    · exact h
    · have hp : pids { s with pending := s.pending.map (fun e => if e.1 == c.chunkID then (e.1, some c) else e) } = pids s := by
        simp only [pids, List.map_map]
        apply List.map_congr_left
        intro e _
        by_cases he : e.1 = c.chunkID <;> simp [he]
      exact ⟨by rw [hp]; exact h.db, ⟨by rw [hp]; exact h.mem.1, by intro p; rw [hp]; exact h.mem.2 p⟩, h.mn⟩

theorem inv_setMin (cfg : Cfg) (s s' : Storage) (m : Nat) (ids : List Nat)
    (hs : setMin cfg s m ids = (s', true)) (h : Inv cfg s) : Inv cfg s' := by
  unfold setMin at hs
  generalize hr : saveLoop cfg { s with min := m } ids [] = r at hs
  obtain ⟨s1, saved, ok⟩ := r
  cases ok with
  | false => simp at hs
  | true =>
    simp only [Bool.not_true, Bool.false_eq_true, if_false, Prod.mk.injEq, and_true] at hs
    have h0 : Inv2 cfg { s with min := m } := h.mem
    obtain ⟨sv, e1, e2, e3, e4, e5, e6, _⟩ := saveLoop_spec cfg ids _ _ _ _ hr h0
    simp only [List.nil_append] at e1
    subst e1
    have h1 : Inv2 cfg { s1 with emap := (s1.emap.setMin m).1 } := e3
    obtain ⟨g1, g2, g3, g4, g5, _⟩ := foldl_discard_spec cfg ((s1.emap.setMin m).2.filter (hasPending s1)) _ h1
    subst hs
    refine ⟨?_, ⟨?_, ?_⟩, ?_⟩
    rotate_left 3
    · show Storage.min (List.foldl _ _ _) = m
      rw [g5]; exact e6
    · show List.filter _ _ = _
      rw [g3]
      show List.filter _ s1.dbPending = pids (List.foldl (DSMR.discard cfg) _ _)
      rw [g1, e4]
      show List.filter _ s.dbPending = List.filter _ (pids s1)
      rw [e2, h.db, List.filter_filter]
      apply List.filter_congr
      intro j _
      show _ = (_ && !saved.contains j)
      rw [Bool.and_comm]
    · exact g2.1
    · exact g2.2

/-- one step of `init`'s scan of the pending prefix -/
def roStep (cfg : Cfg) (acc : Storage) (i : Nat) : Storage :=
  { acc with
    emap := acc.emap.add i (cfg.U i).expiry
    pending := acc.pending.filter (fun e => e.1 != i) ++ [(i, none)]
    sizes := fun p => if p = (cfg.U i).producer then acc.sizes p + (cfg.U i).size else acc.sizes p }

theorem reopen_eq (cfg : Cfg) (s : Storage) :
    reopen cfg s = s.dbPending.foldl (roStep cfg)
      { s with pending := [], emap := [], min := s.dbMin.getD 0, sizes := fun _ => 0 } := rfl

theorem fold_ro (cfg : Cfg) (l : List Nat) :
    ∀ (acc : Storage), l.Nodup → (∀ i ∈ l, i ∉ pids acc) →
      pids (l.foldl (roStep cfg) acc) = pids acc ++ l ∧
      (∀ p, (l.foldl (roStep cfg) acc).sizes p = acc.sizes p + weightOf cfg l p) ∧
      (l.foldl (roStep cfg) acc).dbPending = acc.dbPending ∧
      (l.foldl (roStep cfg) acc).dbAccepted = acc.dbAccepted ∧
      (l.foldl (roStep cfg) acc).dbMin = acc.dbMin ∧ (l.foldl (roStep cfg) acc).min = acc.min := by
  induction l with
  | nil => intro acc _ _; simp [weightOf]
  | cons i rest ih =>
    intro acc hnd hdis
    have hnd' := List.nodup_cons.1 hnd
    have hi : i ∉ pids acc := hdis i (by simp)
    have hp : pids (roStep cfg acc i) = pids acc ++ [i] := by
      have hfr : acc.pending.filter (fun e => e.1 != i) = acc.pending := by
        rw [List.filter_eq_self]; intro e he
        have : e.1 ≠ i := fun h => hi (h ▸ List.mem_map_of_mem he)
        simpa using this
      simp [roStep, pids, hfr]
    obtain ⟨h1, h2, h3, h4, h5, h6⟩ := ih (roStep cfg acc i) hnd'.2 (by
      intro j hj
      rw [hp]
      have hji : j ≠ i := fun e => hnd'.1 (e ▸ hj)
      simp [hdis j (by simp [hj]), hji])
    refine ⟨by rw [List.foldl_cons, h1, hp]; simp, ?_, by rw [List.foldl_cons, h3]; rfl,
      by rw [List.foldl_cons, h4]; rfl, by rw [List.foldl_cons, h5]; rfl, by rw [List.foldl_cons, h6]; rfl⟩
    intro p
    rw [List.foldl_cons, h2 p]
    simp only [roStep, weightOf]
    split <;> omega

theorem reopen_spec (cfg : Cfg) (s : Storage) (h : Inv cfg s) :
    pids (reopen cfg s) = pids s ∧ (∀ p, (reopen cfg s).sizes p = s.sizes p) ∧
    (reopen cfg s).dbPending = s.dbPending ∧ (reopen cfg s).dbAccepted = s.dbAccepted ∧
    (reopen cfg s).dbMin = s.dbMin ∧ (reopen cfg s).min = s.min := by
  rw [reopen_eq]
  obtain ⟨h1, h2, h3, h4, h5, h6⟩ := fold_ro cfg s.dbPending
    { s with pending := [], emap := [], min := s.dbMin.getD 0, sizes := fun _ => 0 }
    (by rw [h.db]; exact h.mem.1) (by intro i _; simp [pids])
  refine ⟨by rw [h1, h.db]; simp [pids], ?_, h3, h4, h5, by rw [h6, h.mn]⟩
  intro p
  rw [h2 p, h.db, ← h.mem.2 p]; simp

theorem inv_reopen (cfg : Cfg) (s : Storage) (h : Inv cfg s) : Inv cfg (reopen cfg s) := by
  obtain ⟨h1, h2, h3, _, h5, h6⟩ := reopen_spec cfg s h
  exact ⟨by rw [h3, h1]; exact h.db, ⟨by rw [h1]; exact h.mem.1, by intro p; rw [h2 p, h1]; exact h.mem.2 p⟩,
    by rw [h6, h5]; exact h.mn⟩

theorem inv_empty (cfg : Cfg) : Inv cfg Storage.empty :=
  ⟨rfl, ⟨by simp [pids, Storage.empty], by intro p; simp [pids, Storage.empty, weightOf]⟩, rfl⟩

theorem inv_step (cfg : Cfg) (s s' : Storage) (op : Op) (h : Inv cfg s) (hs : stepOp cfg s op = some s') :
    Inv cfg s' := by
  cases op with
  | addLocal i c => simp only [stepOp, Option.some.injEq] at hs; subst hs; exact inv_putVerified cfg s i c h
  | verifyRemote i => simp only [stepOp, Option.some.injEq] at hs; subst hs; exact inv_verifyRemote cfg s i h
  | setCert c => simp only [stepOp, Option.some.injEq] at hs; subst hs; exact inv_setCert cfg s c h
  | setMin m ids =>
    simp only [stepOp] at hs
    split at hs
    · rename_i hok
      simp only [Option.some.injEq] at hs
      subst hs
      exact inv_setMin cfg s _ m ids (Prod.ext rfl hok) h
    · simp at hs
  | reopen => simp only [stepOp, Option.some.injEq] at hs; subst hs; exact inv_reopen cfg s h

theorem inv_run (cfg : Cfg) (ops : List Op) : ∀ (s s' : Storage), Inv cfg s → runOps cfg s ops = some s' → Inv cfg s' := by
  induction ops with
  | nil => intro s s' h hr; simp only [runOps, Option.some.injEq] at hr; subst hr; exact h
  | cons op rest ih =>
    intro s s' h hr
    simp only [runOps] at hr
    split at hr
    · simp at hr
    · rename_i s1 hs
      exact ih s1 s' (inv_step cfg s s1 op h hs) hr

theorem abs_reopen_of_inv (cfg : Cfg) (s : Storage) (h : Inv cfg s) : abs (reopen cfg s) = abs s := by
  obtain ⟨h1, h2, _, h4, _, h6⟩ := reopen_spec cfg s h
  simp only [abs, Abs.mk.injEq]
  refine ⟨?_, by rw [h4], h6, funext h2⟩
  funext i
  rw [Bool.eq_iff_iff, hasPending_iff, hasPending_iff, h1]

/-- **C36** for every history of local/remote chunk adds, certificate updates, minimum
advances (saving some chunks, expiring others) and earlier reopens — every `SetMin` of the
history having succeeded — reopening the storage on the same database yields the same pending
chunks, the same accepted chunks, the same minimum expiry and the same per-producer pending
weight. (Certificates are not persisted, by design, and are not part of `abs`.) -/
theorem reopen_abs_eq (cfg : Cfg) (ops : List Op) (s : Storage)
    (h : runOps cfg Storage.empty ops = some s) : abs (reopen cfg s) = abs s :=
  abs_reopen_of_inv cfg s (inv_run cfg ops _ _ (inv_empty cfg) h)

/-- what the property observes through the API is a function of `abs` -/
theorem reopen_observations_eq (cfg : Cfg) (ops : List Op) (s : Storage)
    (h : runOps cfg Storage.empty ops = some s) (e i : Nat) :
    getBytes cfg (reopen cfg s) e i = getBytes cfg s e i ∧ rateOk cfg (reopen cfg s) i = rateOk cfg s i := by
  have ha := reopen_abs_eq cfg ops s h
  simp only [abs, Abs.mk.injEq] at ha
  obtain ⟨h1, h2, _, h4⟩ := ha
  have h2' := congrFun h2 i
  exact ⟨by simp only [getBytes, congrFun h1 i, h2'], by simp only [rateOk, h4]⟩

/-- a reopened storage is again a state for which the theorem holds (reopen is idempotent on `abs`) -/
theorem reopen_twice (cfg : Cfg) (ops : List Op) (s : Storage)
    (h : runOps cfg Storage.empty ops = some s) : abs (reopen cfg (reopen cfg s)) = abs s := by
  have hi := inv_run cfg ops _ _ (inv_empty cfg) h
  rw [abs_reopen_of_inv cfg _ (inv_reopen cfg s hi), abs_reopen_of_inv cfg s hi]

/-! ## Repaired defect: `VerifyRemoteChunk` on a pending chunk without certificate

`reopen_abs_eq` is about `abs`; certificates are not persisted by design. Before /repo b8e022c
`VerifyRemoteChunk` dereferenced the certificate of an already pending chunk
(`chunkCertInfo.Cert.Signature`), so the *answer* to a repeated signature request changed across a
restart: before it the chunk's certificate was known, after it the call panicked (nil pointer).
The code now guards the nil certificate (`cfg.nilCertGuard = true`, the model's default, probed
from the running code by the harness): `verifyRemote_pending_guarded`. The two theorems with
`nilCertGuard = false` below are about the code *before* that commit and are kept as the record of
the defect. -/

/-- a pending chunk answers `known` or `panic`, never anything else, and the state is untouched -/
theorem verifyRemote_pending (cfg : Cfg) (s : Storage) (i : Nat) (h : hasPending s i = true) :
    (verifyRemote cfg s i).1 = s ∧ ((verifyRemote cfg s i).2 = .known ∨ (verifyRemote cfg s i).2 = .panic) := by
  unfold verifyRemote
  split
  · exact ⟨rfl, Or.inl rfl⟩
  · split
    · exact ⟨rfl, Or.inl rfl⟩
    · exact ⟨rfl, Or.inr rfl⟩
  · rename_i hnone
    rw [List.find?_eq_none] at hnone
    simp only [hasPending, List.any_eq_true] at h
    obtain ⟨e, he, hei⟩ := h
    exact absurd hei (hnone e he)

theorem find_reopen_none_cert (cfg : Cfg) (l : List Nat) : ∀ (acc : Storage) (e : Nat × Option Cert),
    (∀ x ∈ acc.pending, x.2 = none) → e ∈ (l.foldl (roStep cfg) acc).pending → e.2 = none := by
  induction l with
  | nil => intro acc e h he; exact h e he
  | cons i rest ih =>
    intro acc e h he
    apply ih (roStep cfg acc i) e _ he
    intro x hx
    simp only [roStep, List.mem_append, List.mem_filter, List.mem_singleton] at hx
    rcases hx with hx | rfl
    · exact h x hx.1
    · rfl

/-- **with the guard (the code as it is)** a repeated signature request for a pending chunk is answered `known`
before and after a reopen (and in every other state) -/
theorem verifyRemote_pending_guarded (cfg : Cfg) (hg : cfg.nilCertGuard = true) (s : Storage) (i : Nat)
    (h : hasPending s i = true) : (verifyRemote cfg s i).2 = .known := by
  unfold verifyRemote
  split
  · rfl
  · simp [hg]
  · rename_i hnone
    rw [List.find?_eq_none] at hnone
    simp only [hasPending, List.any_eq_true] at h
    obtain ⟨e, he, hei⟩ := h
    exact absurd hei (hnone e he)

/-- **without the guard (the code before b8e022c; finding `reopen-turns-known-into-panic`, fixed)**
after a reopen *every* pending chunk makes `VerifyRemoteChunk` panic, whatever it answered before -/
theorem verifyRemote_after_reopen_panics (cfg : Cfg) (hg : cfg.nilCertGuard = false) (s : Storage) (i : Nat)
    (h : hasPending (reopen cfg s) i = true) : (verifyRemote cfg (reopen cfg s) i).2 = .panic := by
  have hnone : ∀ e ∈ (reopen cfg s).pending, e.2 = none := by
    intro e he
    rw [reopen_eq] at he
    exact find_reopen_none_cert cfg s.dbPending _ e (by simp) he
  unfold verifyRemote
  split
  · rename_i c hf
    have := hnone _ (List.mem_of_find?_eq_some hf)
    simp at this
  · simp [hg]
  · rename_i hn
    rw [List.find?_eq_none] at hn
    simp only [hasPending, List.any_eq_true] at h
    obtain ⟨e, he, hei⟩ := h
    exact absurd hei (hn e he)

/-- concrete witness for the code before b8e022c: chunk 1 is pending with its certificate;
`VerifyRemoteChunk` answers `known` before the reopen and panics after it -/
def nfCfg : Cfg :=
  { U := fun i => ⟨i % 2, 10 + i, 100 + i, true⟩, window := 20, limit := 1000, maxSkew := 30, nilCertGuard := false }
def nfS : Storage := putVerified nfCfg Storage.empty 1 (some ⟨1, 11, true⟩)
theorem c36_known_becomes_panic :
    (verifyRemote nfCfg nfS 1).2 = .known ∧ (verifyRemote nfCfg (reopen nfCfg nfS) 1).2 = .panic := by decide
example : (verifyRemote { nfCfg with nilCertGuard := true } (reopen nfCfg nfS) 1).2 = .known := by decide

/-! non-vacuity: the history that broke the unrepaired code (save an unexpired chunk, reopen) -/
def exCfg : Cfg := { U := fun i => ⟨i % 2, 10 + i, 100 + i, true⟩, window := 20, limit := 1000, maxSkew := 30 }
def exOps : List Op :=
  [.addLocal 1 (some ⟨1, 11, true⟩), .verifyRemote 2, .addLocal 3 none, .setMin 5 [1], .reopen, .setMin 13 [3]]

example : (runOps exCfg Storage.empty exOps).isSome = true := by decide
example : ((runOps exCfg Storage.empty exOps).map (fun s => (s.dbAccepted, pids s, s.dbPending, s.min))) =
    some ([1, 3], [], [], 13) := by decide

/-! boundary: a chunk with expiry 0 is never tracked by the expiry map (`EMap.add` ignores time 0):
it stays pending in memory *and* on disk across minimum advances, so it survives a reopen. -/
def zCfg : Cfg := { U := fun i => ⟨1, if i = 13 then 0 else 10, 100, true⟩, window := 20, limit := 1000, maxSkew := 30 }
def zOps : List Op := [.verifyRemote 13, .addLocal 1 none, .setMin 4 [], .reopen, .setMin 12 [], .reopen]
example : ((runOps zCfg Storage.empty zOps).map (fun s => (pids s, s.dbPending, s.min, s.sizes 1))) =
    some ([13], [13], 12, 100) := by decide

end HyperModel.Props.C36
