import HyperModel.Proofs.Estimate
/-!
# C14 Generated transactions budget enough fee for their actual units

Model: `Model/Estimate.lean` — `EstimateUnits` *with fixes/C14-estimate-framing.patch* (per-action
and auth framing accounted) and `(*Transaction).Units`; the encoded size of the signed transaction
is `(encodeTx …).length` from `Model/Canoto.lean`.
-/
namespace HyperModel.Props.C14
open HyperModel.Canoto HyperModel.Estimate
open HyperModel.Generated.C14 (maxBaseSize)

/-- the constant the estimate starts from covers a framed `Base` (≤ 1 + 1 + 54 bytes) -/
theorem base_budget : 56 ≤ maxBaseSize + 1 := by decide

/-- Assumptions about the interfaces, all satisfied by ed25519 / secp256r1 / bls and by the
reference VM (checked by the harness on every run):
* `authFactory.MaxUnits()` bounds the size and compute units of the auth it signs;
* the sponsor's state keys have the max-chunks the rules declare;
* the base is a real `Base` (int64 timestamp, 32-byte chain id, 8-byte fee). -/
structure Assumptions {A Au : Type} (env : Env A Au) (r : Rules) (t : Tx A Au) (authBw authCompute : Nat) : Prop where
  authSize : (env.pu.bytes t.auth).length ≤ authBw
  authComp : env.authCompute t.auth ≤ authCompute
  sponsor : (env.sponsorKeys t.auth).map env.chunks = r.sponsorChunks
  /-- the max-chunks of an action's state keys do not depend on the action id (the keys may) -/
  keyChunks : ∀ a id id', (env.keys a id).map env.chunks = (env.keys a id').map env.chunks
  ts : -(2 ^ 63 : Int) ≤ t.base.timestamp ∧ t.base.timestamp < 2 ^ 63
  chainID : t.base.chainID.length = 32
  maxFee : t.base.maxFee.length = 8
  /-- the uint64 bandwidth accumulator does not wrap (sizes of in-memory byte slices) -/
  noWrap : maxBaseSize + 1 + sum ((t.actions.map fun a => (env.pa.bytes a).length).map actionFrame) +
    (1 + sizeUint authBw + authBw) < 2 ^ 64

theorem bandwidth_le {A Au : Type} (env : Env A Au) (r : Rules) (t : Tx A Au) (bw ac : Nat)
    (h : Assumptions env r t bw ac) :
    (encodeTx env.pa env.pu t).length ≤ estBandwidth (t.actions.map fun a => (env.pa.bytes a).length) bw := by
  rw [encodeTx_length]
  unfold estBandwidth
  rw [Nat.mod_eq_of_lt h.noWrap]
  have hb := encodeBase_length_le t.base h.ts h.chainID h.maxFee
  have hb1 : sizeUint (encodeBase t.base).length = 1 := sizeUint_small (by omega)
  have hbase : (if (encodeBase t.base).isEmpty then 0 else
      1 + (sizeUint (encodeBase t.base).length + (encodeBase t.base).length)) ≤ maxBaseSize + 1 := by
    have := base_budget
    split <;> omega
  have hs := sizeUint_mono _ _ h.authSize
  have hauth : (if (env.pu.bytes t.auth).isEmpty then 0 else
      1 + (sizeUint (env.pu.bytes t.auth).length + (env.pu.bytes t.auth).length)) ≤ 1 + sizeUint bw + bw := by
    have := h.authSize
    split <;> omega
  omega

theorem storage_le {A Au : Type} (env : Env A Au) (r : Rules) (t : Tx A Au) (bw ac : Nat)
    (h : Assumptions env r t bw ac) (keyU valU : Nat) :
    storage keyU valU ((stateKeys env t).map env.chunks) ≤
      storage keyU valU ((withIdx 0 t.actions).flatMap
        (fun ai => (env.keys ai.1 (env.actionID emptyID ai.2)).map env.chunks) ++ r.sponsorChunks) := by
  have e : (withIdx 0 t.actions).flatMap
        (fun ai => (env.keys ai.1 (env.actionID emptyID ai.2)).map env.chunks) ++ r.sponsorChunks =
      ((withIdx 0 t.actions).flatMap
        (fun ai => env.keys ai.1 (env.actionID (env.txID (encodeTx env.pa env.pu t)) ai.2))
        ++ env.sponsorKeys t.auth).map env.chunks := by
    rw [List.map_append, h.sponsor, List.map_flatMap]
    congr 1
    exact flatMap_congr' _ (fun ai _ => h.keyChunks ai.1 _ _)
  rw [e]
  unfold storage stateKeys
  rw [List.map_map, List.map_map]
  exact sum_dedup_le _ _

/-- **estimate_ge_units**: whenever `EstimateUnits` succeeds, `Units` of the transaction signed
over the same actions succeeds and is at most the estimate in every dimension — for all action
lists (any number, sizes, compute units and key sets, with keys shared between actions or
derived from the action id), all
auths within their factory's `MaxUnits`, and all rule values. -/
theorem estimate_ge_units {A Au : Type} (env : Env A Au) (r : Rules) (t : Tx A Au) (bw ac : Nat)
    (h : Assumptions env r t bw ac) {e : Dims} (he : estimateUnits env r t.actions bw ac = some e) :
    ∃ u, units env r t = some u ∧ u.le e := by
  unfold estimateUnits at he
  simp only at he
  cases h1 : checked (r.baseCompute + sum (t.actions.map env.compute) + ac) with
  | none => simp [h1] at he
  | some c =>
    simp only [h1] at he
    cases h2 : checked (storage r.keyRead r.valRead
        ((withIdx 0 t.actions).flatMap
          (fun ai => (env.keys ai.1 (env.actionID emptyID ai.2)).map env.chunks) ++ r.sponsorChunks)) with
    | none => simp [h2] at he
    | some rd =>
      simp only [h2] at he
      cases h3 : checked (storage r.keyAlloc r.valAlloc
          ((withIdx 0 t.actions).flatMap
          (fun ai => (env.keys ai.1 (env.actionID emptyID ai.2)).map env.chunks) ++ r.sponsorChunks)) with
      | none => simp [h3] at he
      | some al =>
        simp only [h3] at he
        cases h4 : checked (storage r.keyWrite r.valWrite
            ((withIdx 0 t.actions).flatMap
          (fun ai => (env.keys ai.1 (env.actionID emptyID ai.2)).map env.chunks) ++ r.sponsorChunks)) with
        | none => simp [h4] at he
        | some wr =>
          simp only [h4, Option.some.injEq] at he
          subst he
          have hc := checked_mono (a := r.baseCompute + sum (t.actions.map env.compute) + env.authCompute t.auth)
            (by have := h.authComp; omega) h1
          have hr := checked_mono (storage_le env r t bw ac h r.keyRead r.valRead) h2
          have ha := checked_mono (storage_le env r t bw ac h r.keyAlloc r.valAlloc) h3
          have hw := checked_mono (storage_le env r t bw ac h r.keyWrite r.valWrite) h4
          have hu : units env r t = some ⟨(encodeTx env.pa env.pu t).length,
              r.baseCompute + sum (t.actions.map env.compute) + env.authCompute t.auth,
              storage r.keyRead r.valRead ((stateKeys env t).map env.chunks),
              storage r.keyAlloc r.valAlloc ((stateKeys env t).map env.chunks),
              storage r.keyWrite r.valWrite ((stateKeys env t).map env.chunks)⟩ := by
            unfold units
            simp only [hc.1, hr.1, ha.1, hw.1]
          exact ⟨_, hu, bandwidth_le env r t bw ac h, hc.2, hr.2, ha.2, hw.2⟩

/-- `fees.MulSum(prices, units)` without the overflow error -/
def mulSum (p d : Dims) : Nat :=
  p.bandwidth * d.bandwidth + p.compute * d.compute + p.read * d.read + p.allocate * d.allocate + p.write * d.write

/-- **maxfee_covers_fee**: the `MaxFee` `GenerateTransaction` sets from the estimate is at least
the fee charged for the actual units at the same unit prices. -/
theorem maxfee_covers_fee {A Au : Type} (env : Env A Au) (r : Rules) (t : Tx A Au) (bw ac : Nat)
    (h : Assumptions env r t bw ac) {e : Dims} (he : estimateUnits env r t.actions bw ac = some e)
    (prices : Dims) : ∃ u, units env r t = some u ∧ mulSum prices u ≤ mulSum prices e := by
  obtain ⟨u, hu, h1, h2, h3, h4, h5⟩ := estimate_ge_units env r t bw ac h he
  refine ⟨u, hu, ?_⟩
  unfold mulSum
  have := Nat.mul_le_mul_left prices.bandwidth h1
  have := Nat.mul_le_mul_left prices.compute h2
  have := Nat.mul_le_mul_left prices.read h3
  have := Nat.mul_le_mul_left prices.allocate h4
  have := Nat.mul_le_mul_left prices.write h5
  omega

/-- **c14_counterexample_unrepaired**: the estimate of the unrepaired code (action and auth
framing omitted) is below the real size for 13 actions of 128 bytes with a 145-byte (bls) auth
and a 54-byte base: 91 + 13·128 + 145 = 1900 < 56 + 13·131 + 148 = 1907. -/
theorem c14_counterexample_unrepaired :
    estBandwidthUnrepaired (List.replicate 13 128) 145 = 1900 ∧
    56 + 13 * (1 + (2 + 128)) + (1 + (2 + 145)) = 1907 ∧
    estBandwidth (List.replicate 13 128) 145 ≥ 1907 := by
  refine ⟨by decide, by decide, ?_⟩
  have h128 : sizeUint 128 = 2 := by rw [sizeUint]; simp [sizeUint_small]
  have h145 : sizeUint 145 = 2 := by rw [sizeUint]; simp [sizeUint_small]
  simp [estBandwidth, actionFrame, h128, h145, sum, maxBaseSize, List.replicate]

/-! non-vacuity: the assumptions are satisfiable and the estimate succeeds -/
def exEnv : Env Nat Nat :=
  { pa := ⟨fun _ => none, fun n => List.replicate n 0⟩, pu := ⟨fun _ => none, fun n => List.replicate n 0⟩
    compute := fun _ => 1, keys := fun _ id => [id], actionID := fun tx i => tx ++ [UInt8.ofNat i],
    txID := fun b => b.take 1, chunks := fun _ => 2, authCompute := fun _ => 5
    sponsorKeys := fun _ => [[9]] }
def exRules : Rules := ⟨1, 5, 2, 20, 5, 10, 3, [2]⟩
def exTx : Tx Nat Nat := ⟨⟨0, zeros 32, zeros 8⟩, [3, 3], 4⟩
example : (estimateUnits exEnv exRules exTx.actions 4 5).isSome = true := by
  simp [estimateUnits, checked, exEnv, exRules, exTx, storage, sum, maxU64, withIdx]
example : Assumptions exEnv exRules exTx 4 5 := by
  refine ⟨by simp [exEnv, exTx], by simp [exEnv], rfl, by intros; simp [exEnv], by simp [exTx], by simp [exTx, zeros], by simp [exTx, zeros], ?_⟩
  have h3 : sizeUint 3 = 1 := sizeUint_small (by omega)
  have h4 : sizeUint 4 = 1 := sizeUint_small (by omega)
  simp [exEnv, exTx, actionFrame, sum, maxBaseSize, h3, h4]

end HyperModel.Props.C14
