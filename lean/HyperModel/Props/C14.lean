import HyperModel.Proofs.Estimate
/-!
# C14 Generated transactions budget enough fee for their actual units

Model: `Model/Estimate.lean` — `EstimateUnits` *with fixes/C14-estimate-framing.patch* (per-action
and auth framing accounted) and `(*Transaction).Units`; the encoded size of the signed transaction
is `(encodeTx …).length` from `Model/Canoto.lean`.
-/
namespace HyperModel.Props.C14
open HyperModel.Canoto HyperModel.Estimate
open HyperModel.Generated.C14 (maxBaseSize)

/-- the constant the estimate starts from covers a framed `Base` (≤ 1 + 1 + 54 bytes) -/
theorem base_budget : 56 ≤ maxBaseSize + 1 := by decide

/-- Assumptions about the interfaces, all satisfied by ed25519 / secp256r1 / bls and by the
reference VM (checked by the harness on every run):
* `authFactory.MaxUnits()` bounds the size and compute units of the auth it signs;
* the factory's address is the actor of the auths it signs;
* the sponsor's state keys are well-formed and have the max-chunks the rules declare;
* the max-chunks of an action's keys do not depend on the action id;
* the base is a real `Base` (int64 timestamp, 32-byte chain id, 8-byte fee). -/
structure Assumptions {A Au : Type} (env : Env A Au) (r : Rules) (t : Tx A Au) (addr : Bytes)
    (authBw authCompute : Nat) : Prop where
  /-- `authFactory.Address()` (the actor `EstimateUnits` asks the actions with) is the actor of
  the auth the factory signs (the actor `Units` asks with) -/
  actorEq : env.actor t.auth = addr
  authSize : (env.pu.bytes t.auth).length ≤ authBw
  authComp : env.authCompute t.auth ≤ authCompute
  /-- the sponsor's keys are well-formed and have the max-chunks the rules declare -/
  sponsor : (env.sponsorKeys t.auth).map env.chunks = r.sponsorChunks.map some
  /-- the max-chunks (and well-formedness) of an action's state keys do not depend on the action
  id (the keys may) -/
  keyChunks : ∀ a actor id id', (env.keys a actor id).map env.chunks = (env.keys a actor id').map env.chunks
  ts : -(2 ^ 63 : Int) ≤ t.base.timestamp ∧ t.base.timestamp < 2 ^ 63
  chainID : t.base.chainID.length = 32
  maxFee : t.base.maxFee.length = 8
  /-- the uint64 bandwidth accumulator does not wrap (sizes of in-memory byte slices) -/
  noWrap : maxBaseSize + 1 + sum ((t.actions.map fun a => (env.pa.bytes a).length).map actionFrame) +
    (1 + sizeUint authBw + authBw) < 2 ^ 64

theorem bandwidth_le {A Au : Type} (env : Env A Au) (r : Rules) (t : Tx A Au) (addr : Bytes) (bw ac : Nat)
    (h : Assumptions env r t addr bw ac) :
    (encodeTx env.pa env.pu t).length ≤ estBandwidth (t.actions.map fun a => (env.pa.bytes a).length) bw := by
  rw [encodeTx_length]
  unfold estBandwidth
  rw [Nat.mod_eq_of_lt h.noWrap]
  have hb := encodeBase_length_le t.base h.ts h.chainID h.maxFee
  have hb1 : sizeUint (encodeBase t.base).length = 1 := sizeUint_small (by omega)
  have hbase : (if (encodeBase t.base).isEmpty then 0 else
      1 + (sizeUint (encodeBase t.base).length + (encodeBase t.base).length)) ≤ maxBaseSize + 1 := by
    have := base_budget
    split <;> omega
  have hs := sizeUint_mono _ _ h.authSize
  have hauth : (if (env.pu.bytes t.auth).isEmpty then 0 else
      1 + (sizeUint (env.pu.bytes t.auth).length + (env.pu.bytes t.auth).length)) ≤ 1 + sizeUint bw + bw := by
    have := h.authSize
    split <;> omega
  omega

/-- the keys `Units` charges all have chunks, and their storage cost is at most that of the
chunk list the estimate is computed from -/
theorem storage_le {A Au : Type} (env : Env A Au) (r : Rules) (t : Tx A Au) (addr : Bytes) (bw ac : Nat)
    (h : Assumptions env r t addr bw ac) {css : List (List Nat)}
    (hcss : mapM? (fun ai => mapM? env.chunks (env.keys ai.1 addr (env.actionID emptyID ai.2)))
      (withIdx 0 t.actions) = some css) :
    ∃ cs, mapM? env.chunks (stateKeys env t) = some cs ∧
      ∀ keyU valU, storage keyU valU cs ≤ storage keyU valU (css.flatten ++ r.sponsorChunks) := by
  let c' : Bytes → Nat := fun k => (env.chunks k).getD 0
  have hL : ((withIdx 0 t.actions).flatMap
        (fun ai => env.keys ai.1 (env.actor t.auth) (env.actionID (env.txID (encodeTx env.pa env.pu t)) ai.2))
        ++ env.sponsorKeys t.auth).map env.chunks = (css.flatten ++ r.sponsorChunks).map some := by
    rw [List.map_append, h.sponsor, List.map_append, ← flatMap_chunks env.chunks _ _ _ hcss,
      List.map_flatMap, List.map_flatMap, h.actorEq]
    congr 1
    exact flatMap_congr' _ (fun ai _ => h.keyChunks ai.1 _ _ _)
  obtain ⟨htot, hX⟩ := chunks_total hL
  refine ⟨(stateKeys env t).map c', ?_, ?_⟩
  · exact mapM?_of_forall c' _ (fun k hk => htot k (mem_dedup hk))
  · intro keyU valU
    rw [hX]
    unfold storage stateKeys
    rw [List.map_map, List.map_map]
    exact sum_dedup_le _ _

/-- **estimate_ge_units**: whenever `EstimateUnits` succeeds, `Units` of the transaction signed
over the same actions succeeds and is at most the estimate in every dimension — for all action
lists (any number, sizes, compute units and key sets, with keys shared between actions or
derived from the action id), all
auths within their factory's `MaxUnits`, and all rule values. -/
theorem estimate_ge_units {A Au : Type} (env : Env A Au) (r : Rules) (t : Tx A Au) (addr : Bytes) (bw ac : Nat)
    (h : Assumptions env r t addr bw ac) {e : Dims} (he : estimateUnits env r t.actions addr bw ac = some e) :
    ∃ u, units env r t = some u ∧ u.le e := by
  unfold estimateUnits at he
  simp only at he
  cases hcss : mapM? (fun ai => mapM? env.chunks (env.keys ai.1 addr (env.actionID emptyID ai.2)))
      (withIdx 0 t.actions) with
  | none => simp [hcss] at he
  | some css =>
  simp only [hcss] at he
  obtain ⟨cs, hcs, hst⟩ := storage_le env r t addr bw ac h hcss
  cases h1 : checked (r.baseCompute + sum (t.actions.map env.compute) + ac) with
  | none => simp [h1] at he
  | some c =>
    simp only [h1] at he
    cases h2 : checked (storage r.keyRead r.valRead (css.flatten ++ r.sponsorChunks)) with
    | none => simp [h2] at he
    | some rd =>
      simp only [h2] at he
      cases h3 : checked (storage r.keyAlloc r.valAlloc (css.flatten ++ r.sponsorChunks)) with
      | none => simp [h3] at he
      | some al =>
        simp only [h3] at he
        cases h4 : checked (storage r.keyWrite r.valWrite (css.flatten ++ r.sponsorChunks)) with
        | none => simp [h4] at he
        | some wr =>
          simp only [h4, Option.some.injEq] at he
          subst he
          have hc := checked_mono (a := r.baseCompute + sum (t.actions.map env.compute) + env.authCompute t.auth)
            (by have := h.authComp; omega) h1
          have hr := checked_mono (hst r.keyRead r.valRead) h2
          have ha := checked_mono (hst r.keyAlloc r.valAlloc) h3
          have hw := checked_mono (hst r.keyWrite r.valWrite) h4
          have hu : units env r t = some ⟨(encodeTx env.pa env.pu t).length,
              r.baseCompute + sum (t.actions.map env.compute) + env.authCompute t.auth,
              storage r.keyRead r.valRead cs, storage r.keyAlloc r.valAlloc cs,
              storage r.keyWrite r.valWrite cs⟩ := by
            unfold units
            simp only [hcs, hc.1, hr.1, ha.1, hw.1]
          exact ⟨_, hu, bandwidth_le env r t addr bw ac h, hc.2, hr.2, ha.2, hw.2⟩

theorem mulSum_mono (p : Dims) {u e : Dims} (h : u.le e) : mulSum p u ≤ mulSum p e := by
  obtain ⟨h1, h2, h3, h4, h5⟩ := h
  unfold mulSum
  have := Nat.mul_le_mul_left p.bandwidth h1
  have := Nat.mul_le_mul_left p.compute h2
  have := Nat.mul_le_mul_left p.read h3
  have := Nat.mul_le_mul_left p.allocate h4
  have := Nat.mul_le_mul_left p.write h5
  omega

/-- **maxfee_covers_fee** (arithmetic core): at any unit prices the fee of the actual units is
at most the fee of the estimate. -/
theorem maxfee_covers_fee {A Au : Type} (env : Env A Au) (r : Rules) (t : Tx A Au) (addr : Bytes) (bw ac : Nat)
    (h : Assumptions env r t addr bw ac) {e : Dims} (he : estimateUnits env r t.actions addr bw ac = some e)
    (prices : Dims) : ∃ u, units env r t = some u ∧ mulSum prices u ≤ mulSum prices e := by
  obtain ⟨u, hu, hle⟩ := estimate_ge_units env r t addr bw ac h he
  exact ⟨u, hu, mulSum_mono prices hle⟩

/-- **generated_tx_can_pay**: for every rule source, price vector, timestamp, action list and
auth factory, if `GenerateTransaction` returns a transaction then — under the rules of the same
timestamp — `Units` of that transaction succeeds, `fees.MulSum(prices, units)` does not overflow
and is at most the transaction's `MaxFee` (the uint64 stored in its `Base`).  The assumptions are
about the returned transaction (its auth is what the factory signed). -/
theorem generated_tx_can_pay {A Au : Type} (env : Env A Au) (rs : RuleSource) (prices : Dims) (ts : Int)
    (actions : List A) (fac : Factory Au) {t : Tx A Au}
    (hg : generateTransaction env rs prices ts actions fac = some t)
    (h : Assumptions env (rs.rulesAt ts) t fac.address fac.maxBandwidth fac.maxCompute) :
    ∃ u fee, units env (rs.rulesAt ts) t = some u ∧ mulSumChecked prices u = some fee ∧
      fee ≤ ofLE64 t.base.maxFee := by
  unfold generateTransaction at hg
  cases he : estimateUnits env (rs.rulesAt ts) actions fac.address fac.maxBandwidth fac.maxCompute with
  | none => simp [he] at hg
  | some est =>
    simp only [he] at hg
    cases hm : mulSumChecked prices est with
    | none => simp [hm] at hg
    | some maxFee =>
      simp only [hm, Option.some.injEq] at hg
      subst hg
      obtain ⟨u, hu, hle⟩ := estimate_ge_units env (rs.rulesAt ts) _ fac.address fac.maxBandwidth
        fac.maxCompute h he
      have hmono := mulSum_mono prices hle
      obtain ⟨hfee, hfle⟩ := checked_mono hmono hm
      have hmf : maxFee < 2 ^ 64 := by
        unfold mulSumChecked checked at hm
        split at hm
        · simp only [Option.some.injEq] at hm; subst hm
          rename_i hb; unfold maxU64 at hb; omega
        · cases hm
      exact ⟨u, mulSum prices u, hu, hfee, by simp only [ofLE64_le64 hmf]; exact hfle⟩

/-- **c14_counterexample_unrepaired**: the estimate of the unrepaired code (action and auth
framing omitted) is below the real size for 13 actions of 128 bytes with a 145-byte (bls) auth
and a worst-case 54-byte base (10-byte timestamp varint): 91 + 13·128 + 145 = 1900 < 56 + 13·131 + 148 = 1907.
The run on the real code (13-digit millisecond timestamp: 6-byte varint, framed base 52 bytes) gave
52 + 13·131 + 148 = 1903 > 1900. -/
theorem c14_counterexample_unrepaired :
    estBandwidthUnrepaired (List.replicate 13 128) 145 = 1900 ∧
    56 + 13 * (1 + (2 + 128)) + (1 + (2 + 145)) = 1907 ∧
    estBandwidth (List.replicate 13 128) 145 ≥ 1907 := by
  refine ⟨by decide, by decide, ?_⟩
  have h128 : sizeUint 128 = 2 := by rw [sizeUint]; simp [sizeUint_small]
  have h145 : sizeUint 145 = 2 := by rw [sizeUint]; simp [sizeUint_small]
  simp [estBandwidth, actionFrame, h128, h145, sum, maxBaseSize, List.replicate]

/-! non-vacuity: the assumptions are satisfiable and the estimate succeeds -/
def exEnv : Env Nat Nat :=
  { pa := ⟨fun _ => none, fun n => List.replicate n 0⟩, pu := ⟨fun _ => none, fun n => List.replicate n 0⟩
    compute := fun _ => 1, keys := fun _ _ id => [id], actor := fun _ => [], actionID := fun tx i => tx ++ [UInt8.ofNat i],
    txID := fun b => b.take 1, chunks := fun _ => some 2, authCompute := fun _ => 5
    sponsorKeys := fun _ => [[9]] }
def exRules : Rules := ⟨1, 5, 2, 20, 5, 10, 3, [2]⟩
def exTx : Tx Nat Nat := ⟨⟨0, zeros 32, zeros 8⟩, [3, 3], 4⟩
example : (estimateUnits exEnv exRules exTx.actions [] 4 5).isSome = true := by
  simp [estimateUnits, checked, exEnv, exRules, exTx, storage, sum, maxU64, withIdx, mapM?]
example : Assumptions exEnv exRules exTx [] 4 5 := by
  refine ⟨rfl, by simp [exEnv, exTx], by simp [exEnv], rfl, by intros; simp [exEnv], by simp [exTx], by simp [exTx, zeros], by simp [exTx, zeros], ?_⟩
  have h3 : sizeUint 3 = 1 := sizeUint_small (by omega)
  have h4 : sizeUint 4 = 1 := sizeUint_small (by omega)
  simp [exEnv, exTx, actionFrame, sum, maxBaseSize, h3, h4]

/-- `GenerateTransaction` does return a transaction in the example environment -/
example : (generateTransaction exEnv ⟨fun _ => exRules, fun _ => zeros 32, fun t => t⟩ ⟨0, 1, 4, 1, 5⟩ 7 [3, 3]
    ⟨fun _ => 4, [], 4, 5⟩).isSome = true := by
  simp [generateTransaction, estimateUnits, mulSumChecked, mulSum, checked, exEnv, exRules, storage, sum,
    maxU64, withIdx, mapM?]

end HyperModel.Props.C14
