import HyperModel.Proofs.MempoolHist
import HyperModel.Proofs.MempoolSpec
/-!
# C23 — the mempool keeps its bounds and ordering under any operation sequence

Model: `Model/Mempool.lean` (each exported method = one atomic step, because each holds `m.mu`
for its whole body; so every concurrent schedule of prepare/stream/finish/add/… calls is one of
the op sequences quantified over here). All theorems are about `s = (State.init a b).run ops`
for an **arbitrary** op list `ops` (induction over the list, `run_inv`), under the single
hypothesis `WFOps u ops`: an ID identifies its content (every item passed to `add`, `remove`,
`finishStreaming` is the item `u id` of a fixed universe `u`; in the code IDs are content
hashes). The heap inside is the real array algorithm (`Model/Heap.lean`); what is used of it is
proved in `Proofs/Heap.lean`, `Proofs/EHeap.lean` (C25).
-/
namespace HyperModel.Props.C23
open HyperModel.Heap HyperModel.EHeap HyperModel.Mempool

/-- every item occurring in the op sequence is the universe's item for its ID -/
def WFOps (u : ID → Item) (ops : List Op) : Prop := ∀ op, op ∈ ops → op.WF u

/-- The whole invariant holds after every op sequence, and the limits never change. -/
theorem inv_reachable (u : ID → Item) (a b : Nat) (ops : List Op) (hw : WFOps u ops) :
    MInv u ((State.init a b).run ops) ∧ ((State.init a b).run ops).maxSize = a ∧
      ((State.init a b).run ops).maxSponsor = b :=
  ⟨run_inv (MInv.init u a b) ops hw, (run_limits _ ops).1, (run_limits _ ops).2⟩

/-- never two held items with the same ID -/
theorem no_dup_ids (u : ID → Item) (a b : Nat) (ops : List Op) (hw : WFOps u ops) :
    (((State.init a b).run ops).queue.map (·.id)).Nodup :=
  (inv_reachable u a b ops hw).1.nodup

/-- never more than `maxSize` items; `Len()` is the number of held items -/
theorem len_le_max (u : ID → Item) (a b : Nat) (ops : List Op) (hw : WFOps u ops) :
    ((State.init a b).run ops).queue.length ≤ a ∧
    ((State.init a b).run ops).len = ((State.init a b).run ops).queue.length := by
  obtain ⟨h, ha, _⟩ := inv_reachable u a b ops hw
  refine ⟨by have := h.len; rw [ha] at this; exact this, ?_⟩
  rw [State.len, len_eq]; exact h.same.length_eq

/-- never more than `maxSponsor` items of one sponsor; `owned` is the exact per-sponsor count -/
theorem sponsor_le_max (u : ID → Item) (a b : Nat) (ops : List Op) (hw : WFOps u ops) (sp : Sponsor) :
    qcount ((State.init a b).run ops).queue sp ≤ b ∧
    ((State.init a b).run ops).owned sp = qcount ((State.init a b).run ops).queue sp := by
  obtain ⟨h, _, hb⟩ := inv_reachable u a b ops hw
  exact ⟨by have := h.sponsor sp; rw [hb, h.owned sp] at this; exact this, h.owned sp⟩

/-- `Size()` is the sum of the sizes of the held items -/
theorem size_eq_sum_of_held (u : ID → Item) (a b : Nat) (ops : List Op) (hw : WFOps u ops) :
    ((State.init a b).run ops).size = qsize ((State.init a b).run ops).queue :=
  (inv_reachable u a b ops hw).1.size

/-- queue and expiry heap hold the same items; `Has` answers membership -/
theorem queue_and_heap_same_items (u : ID → Item) (a b : Nat) (ops : List Op) (hw : WFOps u ops) :
    ((State.init a b).run ops).eh.items.Perm ((State.init a b).run ops).queue ∧
    ∀ id, ((State.init a b).run ops).has id = true ↔ ∃ x, x ∈ ((State.init a b).run ops).queue ∧ x.id = id :=
  ⟨(inv_reachable u a b ops hw).1.same, (inv_reachable u a b ops hw).1.has_iff⟩

/-- `SetMinTimestamp t` returns exactly the held items with expiry `< t` (as a set; each once) and
keeps exactly the others, in their order. -/
theorem expire_exact (u : ID → Item) (a b : Nat) (ops : List Op) (hw : WFOps u ops) (t : Int) :
    let s := (State.init a b).run ops
    (s.setMinTimestamp t).2.Perm (s.queue.filter (fun x => decide (x.expiry < t))) ∧
    (s.setMinTimestamp t).1.queue = s.queue.filter (fun x => !decide (x.expiry < t)) := by
  have := setMinTimestamp_spec (inv_reachable u a b ops hw).1 t
  exact ⟨this.2.1, this.2.2.1⟩

/-- (Local, one-step statements; the history-level reading follows by composing them along a
sequence.) Hand-out order = queue order (`peekNext`, `popNext`, `stream`/`prepareStream`, `top` take from the
front); `add` appends the accepted items at the back in the order given; give-backs
(`finishStreaming`, `top`) are put in front of everything else, the accepted ones in the reverse
of the give-back order. -/
theorem fifo_restore_first (u : ID → Item) (a b : Nat) (ops : List Op) (hw : WFOps u ops) :
    let s := (State.init a b).run ops
    s.peekNext = s.queue.head? ∧
    (∀ v rest, s.queue = v :: rest → (s.popNext).2 = some v ∧ (s.popNext).1.queue = rest) ∧
    (s.queue = [] → (s.popNext).2 = none) ∧
    (∀ n, (State.streamItems n s []).2 = s.queue.take n ∧ (State.streamItems n s []).1.queue = s.queue.drop n) ∧
    (∀ ans, ∃ k, (s.top ans).2.1 = s.queue.take k) ∧
    (∀ items, ∃ acc : List Item, acc.Sublist items ∧ (s.addAll false items).queue = s.queue ++ acc) ∧
    (∀ s' : State, ∀ items, ∃ acc : List Item, acc.Sublist items ∧ (s'.addAll true items).queue = acc.reverse ++ s'.queue) := by
  intro s
  have h := (inv_reachable u a b ops hw).1
  obtain ⟨hp0, hp1⟩ := popNext_spec h
  refine ⟨rfl, fun v rest hq => ⟨(hp1 v rest hq).1, (hp1 v rest hq).2.1⟩, fun hq => by rw [hp0 hq], ?_, ?_,
    fun items => addAll_back_shape s items, fun s' items => addAll_front_shape s' items⟩
  · intro n
    have := streamItems_spec (u := u) n s [] h
    exact ⟨by simpa using this.1, this.2.1⟩
  · intro ans
    obtain ⟨_, _, ⟨k, hk, _⟩, _⟩ := topLoop_spec (u := u) s.eh.len s ans [] [] h (by simp)
    exact ⟨k, by simpa [State.top] using hk⟩

/-- Batch level (no protocol assumption): a batch taken from the queue by `stream`/`prepareStream` is
duplicate-free, disjoint from everything recorded in `streamedItems`, and is recorded; the record
stays duplicate-free. (This alone does NOT give the history-level clause: see
`double_handout_without_protocol`.) -/
theorem batch_disjoint_from_streamed (u : ID → Item) (a b : Nat) (ops : List Op) (hw : WFOps u ops) (n : Nat) :
    let s := (State.init a b).run ops
    let r := State.streamItems n s []
    (r.2.map (·.id)).Nodup ∧
    (∀ l, s.streamed = some l → l.Nodup ∧ ∀ x, x ∈ r.2 → x.id ∉ l) ∧
    r.1.streamed = (if r.2 = [] then s.streamed else some (s.streamed.getD [] ++ r.2.map (·.id))) ∧
    (∀ l, r.1.streamed = some l → l.Nodup) := by
  intro s r
  have h := (inv_reachable u a b ops hw).1
  obtain ⟨i1, _, i3, i4, _⟩ := streamItems_spec (u := u) n s [] h
  have e : r.2 = s.queue.take n := by simpa using i1
  refine ⟨?_, ?_, by rw [e]; exact i4, i3.sNodup⟩
  · rw [e]
    exact List.Nodup.sublist ((List.take_sublist n s.queue).map _) h.nodup
  · intro l hl
    refine ⟨h.sNodup l hl, fun x hx => h.sDisj l hl x ?_⟩
    rw [e] at hx; exact List.mem_of_mem_take hx

/-- **no_double_handout_in_stream** (history level). `handed` = the IDs *returned by `Stream`* since
the last successful `StartStreaming` (ghost list of `grun`, cleared by `FinishStreaming`). For every
op sequence in which `PrepareStream` is only called while a stream is open (`ProtoOps`; this is how
`chain/builder.go` uses it), `handed` never contains an ID twice — whatever `add`/`remove`/
`setMinTimestamp`/`top`/… calls are interleaved. -/
theorem no_double_handout_in_stream (u : ID → Item) (a b : Nat) (ops : List Op) (hw : WFOps u ops)
    (hp : ProtoOps (State.init a b) ops) :
    (grun (State.init a b, []) ops).1 = (State.init a b).run ops ∧
    (grun (State.init a b, []) ops).2.Nodup := by
  have hg0 : GInv (State.init a b, []) :=
    ⟨fun _ => ⟨rfl, rfl⟩, fun h => by simp [State.init] at h⟩
  obtain ⟨hg, hrun⟩ := grun_inv (u := u) ops (State.init a b, []) (MInv.init u a b) hg0 hw hp
  refine ⟨hrun, ?_⟩
  cases hl : (grun (State.init a b, []) ops).1.streamLocked with
  | false => rw [(hg.idle hl).1]; exact List.nodup_nil
  | true =>
    obtain ⟨l, _, hnd, _⟩ := hg.busy hl
    exact (List.nodup_append.1 hnd).1

private def x0 : Item := ⟨0, 0, 1, 5⟩
private def y0 : Item := ⟨1, 1, 2, 5⟩

/-- The protocol assumption is needed (API misuse, not reachable from `chain/builder.go`): a prefetch
made *before* `StartStreaming` survives the reset of `streamedItems`, so `add x` re-admits `x` and
`Stream` returns it twice inside one stream: handed = [x, y, x]. Replayed on the Go code in every run
(corpus of the harness; event `ev:double-handout-prefetch-before-start`). -/
theorem double_handout_without_protocol :
    (grun (State.init 8 8, []) [.add [x0, y0], .prepareStream 1, .startStreaming, .add [x0],
      .stream 1, .stream 1, .stream 1]).2 = [0, 1, 0] := by decide +kernel

/-- A second `PrepareStream` before the prefetch is consumed overwrites it: the first batch is neither
returned, nor restored by `FinishStreaming`, nor held (the bounds/size clauses are unaffected: these
items are simply gone), and stays blocked for `add` until the stream ends. Not reachable from
`chain/builder.go` (its `prepareStreamLock` makes `Stream` consume each prefetch first). -/
theorem prepare_overwrites_prefetch (u : ID → Item) (a b : Nat) (ops : List Op) (hw : WFOps u ops) (n : Nat) :
    let s := (State.init a b).run ops
    (s.prepareStream n).nextStream = s.queue.take n ∧ (s.prepareStream n).queue = s.queue.drop n ∧
    (s.prepareStream n).nextStreamFetched = true := by
  intro s
  obtain ⟨i1, i2, _⟩ := streamItems_spec (u := u) n s [] (inv_reachable u a b ops hw).1
  exact ⟨by simpa [State.prepareStream] using i1, by simpa [State.prepareStream] using i2, rfl⟩

/-- An `add` (or give-back) of an ID handed out in the open stream is ignored, and such an ID is
never held while the stream is open. -/
theorem streamed_not_readdable (u : ID → Item) (a b : Nat) (ops : List Op) (hw : WFOps u ops)
    (l : List ID) (x : Item) (front : Bool) :
    let s := (State.init a b).run ops
    s.streamed = some l → x.id ∈ l → s.add1 front x = s ∧ ¬ ∃ y, y ∈ s.queue ∧ y.id = x.id := by
  intro s hl hx
  have h := (inv_reachable u a b ops hw).1
  constructor
  · unfold State.add1
    rw [if_pos (by simp [streamedHas, hl, hx])]
  · rintro ⟨y, hy, hyx⟩
    exact h.sDisj l hl y hy (hyx ▸ hx)

/-- `FinishStreaming(restorable)`: the limits hold afterwards (give-backs that do not fit are
dropped), the stream record is cleared, the returned count is `len(restorable)` plus the pending
prefetch, and the accepted give-backs sit in front of the old queue in reverse give-back order. -/
theorem finish_respects_limits (u : ID → Item) (a b : Nat) (ops : List Op) (hw : WFOps u ops)
    (r : List Item) (hr : ∀ x, x ∈ r → Canon u x) (s' : State) (k : Nat) :
    let s := (State.init a b).run ops
    s.finishStreaming r = some (s', k) →
    s'.queue.length ≤ a ∧ (∀ sp, qcount s'.queue sp ≤ b) ∧ (s'.queue.map (·.id)).Nodup ∧
    s'.streamed = none ∧ s'.streamLocked = false ∧
    k = r.length + (if s.nextStreamFetched then s.nextStream.length else 0) ∧
    ∃ acc : List Item, acc.Sublist (r ++ (if s.nextStreamFetched then s.nextStream else [])) ∧
      s'.queue = acc.reverse ++ s.queue := by
  intro s hf
  obtain ⟨h, ha, hb⟩ := inv_reachable u a b ops hw
  have hinv := finishStreaming_inv h r hr s' k hf
  have hL : L s s' := by
    have := step_limits s (.finishStreaming r)
    simpa [State.step, hf] using this
  have hlim : s'.queue.length ≤ a ∧ (∀ sp, qcount s'.queue sp ≤ b) ∧ (s'.queue.map (·.id)).Nodup := by
    refine ⟨?_, fun sp => ?_, hinv.nodup⟩
    · have := hinv.len; rw [hL.1, ha] at this; exact this
    · have := hinv.sponsor sp; rw [hL.2, hb, hinv.owned sp] at this; exact this
  refine ⟨hlim.1, hlim.2.1, hlim.2.2, ?_⟩
  unfold State.finishStreaming at hf
  split at hf
  · cases hf
  · simp only at hf
    obtain ⟨f1, f2, f3, f4, _, _⟩ := addAll_fields ({ s with streamed := none } : State) true r
    obtain ⟨acc1, hs1, hq1⟩ := addAll_front_shape ({ s with streamed := none } : State) r
    split at hf
    · rename_i hfe
      have hfe' : s.nextStreamFetched = true := by rw [← hfe, f3]
      obtain ⟨g1, _, _, _, _, _⟩ := addAll_fields (({ s with streamed := none } : State).addAll true r) true
        (({ s with streamed := none } : State).addAll true r).nextStream
      obtain ⟨acc2, hs2, hq2⟩ := addAll_front_shape (({ s with streamed := none } : State).addAll true r)
        (({ s with streamed := none } : State).addAll true r).nextStream
      cases hf
      rw [if_pos hfe', if_pos hfe']
      refine ⟨by show (State.addAll _ true _).streamed = none; rw [g1, f1], rfl,
        by show _ + (State.addAll _ true r).nextStream.length = _; rw [f2], acc1 ++ acc2, ?_, ?_⟩
      · rw [f2] at hs2; exact List.Sublist.append hs1 hs2
      · show (State.addAll _ true _).queue = _
        rw [hq2, hq1]; simp
    · rename_i hfe
      have hfe' : s.nextStreamFetched = false := by rw [← f3]; simpa using hfe
      cases hf
      have hn : ¬ s.nextStreamFetched = true := by simp [hfe']
      rw [if_neg hn, if_neg hn, List.append_nil, Nat.add_zero]
      exact ⟨f1, rfl, rfl, acc1, hs1, hq1⟩

/-! ## History level: the mempool refines the list spec `Spec/MempoolQueue.lean` -/

/-- items handed out by one operation (`popNext`, `stream`, `top`), read off its answer -/
def handedOf : Op → Out → List Item
  | .popNext, .item (some v) => [v]
  | .stream _, .items l => l
  | .top _, .topOut vis _ => vis
  | _, _ => []

/-- the whole hand-out sequence of a history -/
def handedSeq : List Op → List Out → List Item
  | op :: ops, o :: os => handedOf op o ++ handedSeq ops os
  | _, _ => []

/-- **handout_order_eq_spec** (history level). For every op sequence from `New` (only hypothesis: an ID
identifies its item), the implementation model and the abstract list spec — `add` appends accepted new
items at the back; `finishStreaming`/`top` give-backs are pushed to the front, ending up in reverse
give-back order before everything else; `popNext`/`peekNext`/`stream`/`prepareStream`/`top` take
from the front; `remove`/`setMinTimestamp` delete wherever the item is — stay in the same abstract
state (queue content *and order*, `streamedItems`, prefetch, stream lock, limits), and every answer
along the history is the spec's answer (`TraceRel`: equal, except that `setMinTimestamp`'s list is
the spec's `queue.filter (expiry < t)` up to permutation — this is `expire_exact` at history level).
Hence the sequence of items handed out over the whole history is exactly the spec's: arrival order,
give-backs first. -/
theorem handout_order_eq_spec (u : ID → Item) (a b : Nat) (ops : List Op) (hw : WFOps u ops) :
    abs ((State.init a b).run ops) = (Spec.init a b).run ops ∧
    TraceRel ops ((State.init a b).trace ops) ((Spec.init a b).trace ops) ∧
    handedSeq ops ((State.init a b).trace ops) = handedSeq ops ((Spec.init a b).trace ops) := by
  obtain ⟨h1, h2⟩ := run_abs (u := u) ops (State.init a b) (MInv.init u a b) hw
  have e : abs (State.init a b) = Spec.init a b := rfl
  rw [e] at h1 h2
  refine ⟨h1, h2, ?_⟩
  -- equal answers give equal hand-outs
  have key : ∀ (ops : List Op) (os os' : List Out), TraceRel ops os os' → handedSeq ops os = handedSeq ops os' := by
    intro ops
    induction ops with
    | nil => intro os os' _; cases os <;> cases os' <;> rfl
    | cons op rest ih =>
      intro os os' h
      cases os with
      | nil => cases os' <;> simp [TraceRel] at h
      | cons o os =>
        cases os' with
        | nil => simp [TraceRel] at h
        | cons o' os' =>
          obtain ⟨hr, ht⟩ := h
          simp only [handedSeq]
          rw [ih os os' ht]
          congr 1
          cases op <;> first
            | (obtain ⟨l, l', rfl, rfl, _⟩ := hr; rfl)
            | (have : o = o' := hr; rw [this])
  exact key ops _ _ h2

/-- **expire_exact** at history level: after any history, `setMinTimestamp t` answers (as a set, each
item once) exactly the items of the *spec* queue of that history with expiry `< t`, and the spec queue
afterwards is the rest in order. -/
theorem expire_exact_history (u : ID → Item) (a b : Nat) (ops : List Op) (hw : WFOps u ops) (t : Int) :
    let s := (State.init a b).run ops
    let sp := (Spec.init a b).run ops
    (s.setMinTimestamp t).2.Perm (sp.q.filter (fun x => decide (x.expiry < t))) ∧
    (s.setMinTimestamp t).1.queue = sp.q.filter (fun x => !decide (x.expiry < t)) := by
  intro s sp
  have hq : sp.q = s.queue := by
    have := (handout_order_eq_spec u a b ops hw).1
    show ((Spec.init a b).run ops).q = _
    rw [← this]; rfl
  rw [hq]
  exact expire_exact u a b ops hw t

/-! ## Non-vacuity: the hypotheses are satisfiable and the limits are really reached -/

private def u0 : ID → Item := fun i => ⟨i, i % 2, 1, 5⟩

example : WFOps u0 [.add [u0 1, u0 2, u0 3], .startStreaming, .stream 1, .add [u0 1],
    .finishStreaming [u0 1], .setMin 6] := by
  intro op hop
  simp only [List.mem_cons, List.mem_nil_iff, or_false] at hop
  rcases hop with rfl | rfl | rfl | rfl | rfl | rfl <;> simp [Op.WF, Canon, u0]

example : ProtoOps (State.init 4 4) [.add [u0 1, u0 2], .startStreaming, .stream 1, .prepareStream 1,
    .stream 1, .finishStreaming [u0 1]] :=
  ⟨trivial, trivial, trivial, by show State.streamLocked _ = true; decide +kernel, trivial, trivial, trivial⟩

/-- the third item is refused by `maxSize = 2`; a streamed item is refused until `finish` -/
example : ((State.init 2 2).run [.add [u0 1, u0 2, u0 3]]).queue.map (·.id) = [1, 2] := by decide
example : ((State.init 4 4).run [.add [u0 1, u0 2], .startStreaming, .stream 1, .add [u0 1]]).queue.map (·.id) = [2] := by
  decide
/-- the spec is not trivial: give-backs come back in front, in reverse give-back order, and the
hand-out sequence of this history is 1, 2, then (after the give-back) 2 -/
example : ((Spec.init 4 4).run [.add [u0 1, u0 2, u0 3], .startStreaming, .stream 2,
    .finishStreaming [u0 1, u0 2]]).q.map (·.id) = [2, 1, 3] := by decide +kernel
example : (handedSeq [.add [u0 1, u0 2], .startStreaming, .stream 2, .finishStreaming [u0 1, u0 2], .popNext]
    ((Spec.init 4 4).trace [.add [u0 1, u0 2], .startStreaming, .stream 2, .finishStreaming [u0 1, u0 2], .popNext])).map (·.id)
    = [1, 2, 2] := by decide +kernel

end HyperModel.Props.C23
