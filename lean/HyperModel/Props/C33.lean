import HyperModel.Model.LargestSet
import HyperModel.Proofs.LargestSet
/-! # C33 The largest-fitting-set selector returns a consistent fitting subset

Theorems about `LargestSet.largestSet`, the transcription of `fees.LargestSet` **with the
repair** `fixes/C33-largestset-compaction.patch`. The unrepaired compaction loop is shown
to break the property by `c33_original_counterexample`.

`sumAt dims k idx` is the exact (unbounded `Nat`) sum of component `k` of the selected
vectors; `get d k` is component `k` of a `fees.Dimensions`. All statements quantify over
every list of vectors and every limit. Only `skipped_did_not_fit` needs the limit to be a
`uint64` (`< 2^64`): with an unbounded limit a vector could also be skipped because the
checked addition overflows. -/
namespace HyperModel.Props.C33
open HyperModel.LargestSet HyperModel.LargestSetProofs

/-- **C33 (a)** the returned indices are pairwise distinct and index the input. -/
theorem indices_distinct (dims : List Dims) (limit : Dims) :
    (largestSet dims limit).1.Nodup ∧ ∀ i ∈ (largestSet dims limit).1, i < dims.length := by
  rw [largestSet_eq]
  have hs := keepList_sublist dims limit (sortedIdx dims limit) zero
  exact ⟨hs.nodup (sortedIdx_nodup dims limit),
    fun i hi => (mem_sortedIdx dims limit i).mp (hs.subset hi)⟩

/-- **C33 (b)** in every dimension the exact sum of the returned vectors is within the limit
(so, the limit being a `uint64`, it does not overflow either). -/
theorem sum_fits (dims : List Dims) (limit : Dims) :
    ∀ k, k < feeDimensions → sumAt dims k (largestSet dims limit).1 ≤ get limit k := by
  intro k hk
  rw [largestSet_eq]
  have h := finalAcc_le dims limit (sortedIdx dims limit) zero
    (fun k _ => by rw [get_zero]; exact Nat.zero_le _) k hk
  rw [finalAcc_eq _ _ _ _ hk, get_zero] at h
  simpa using h

/-- **C33 (c)** the returned total is, in every dimension, exactly the sum of the returned
vectors. -/
theorem total_eq_sum_of_returned (dims : List Dims) (limit : Dims) :
    ∀ k, k < feeDimensions →
      get (largestSet dims limit).2 k = sumAt dims k (largestSet dims limit).1 := by
  intro k hk
  rw [largestSet_eq]
  simp [finalAcc_eq _ _ _ _ hk, get_zero]

/-- the order in which the inputs are considered is a permutation of `0..n-1` … -/
theorem order_perm (dims : List Dims) (limit : Dims) :
    (sortedIdx dims limit).Perm (List.range dims.length) := sortedIdx_perm dims limit

/-- … by ascending weight, and the result lists the kept indices in that order. -/
theorem order_sorted (dims : List Dims) (limit : Dims) :
    (sortedIdx dims limit).Pairwise
      (fun a b => weight limit (dimAt dims a) ≤ weight limit (dimAt dims b)) :=
  isort_sorted _ _

theorem returned_sublist_of_order (dims : List Dims) (limit : Dims) :
    (largestSet dims limit).1.Sublist (sortedIdx dims limit) := by
  rw [largestSet_eq]; exact keepList_sublist _ _ _ _

/-- **C33 (d)** every input that was skipped did not fit when it was considered: if `i` is not
returned and `pre` are the inputs considered before it, then in some dimension the sum of
the returned ones among `pre`, plus vector `i`, exceeds the limit. -/
theorem skipped_did_not_fit (dims : List Dims) (limit : Dims)
    (hl : ∀ k, k < feeDimensions → get limit k < two64)
    (pre : List Nat) (i : Nat) (post : List Nat)
    (horder : sortedIdx dims limit = pre ++ i :: post)
    (hskip : i ∉ (largestSet dims limit).1) :
    ∃ k, k < feeDimensions ∧
      get limit k <
        sumAt dims k (pre.filter (fun j => decide (j ∈ (largestSet dims limit).1)))
          + get (dimAt dims i) k := by
  rw [largestSet_eq] at hskip ⊢
  obtain ⟨k, hk, h⟩ := skipped_aux dims limit hl (sortedIdx dims limit) zero
    (sortedIdx_nodup dims limit) pre i post horder hskip
  exact ⟨k, hk, by simpa [get_zero] using h⟩

/-- every input index is considered exactly once, so it is either returned or skipped -/
theorem considered_all (dims : List Dims) (limit : Dims) (i : Nat) (hi : i < dims.length) :
    ∃ pre post, sortedIdx dims limit = pre ++ i :: post :=
  List.append_of_mem ((mem_sortedIdx dims limit i).mpr hi)

/-- the returned total is a vector of `uint64`s -/
theorem total_lt_two64 (dims : List Dims) (limit : Dims) :
    ∀ k, k < feeDimensions → get (largestSet dims limit).2 k < two64 := by
  intro k hk
  rw [largestSet_eq]
  exact finalAcc_lt dims limit _ zero (fun k _ => by rw [get_zero]; decide) k hk

/-! ### The unrepaired code violates (c) -/

/-- limit `(100,100,0,0,0)`, inputs `(50,0,..)`, `(60,0,..)`, `(0,70,..)`: considered in the
order 0,1,2; input 1 does not fit, input 2 does. -/
def witnessLimit : Dims := [100, 100, 0, 0, 0]
def witnessDims : List Dims := [[50, 0, 0, 0, 0], [60, 0, 0, 0, 0], [0, 70, 0, 0, 0]]

/-- **defect of the unrepaired compaction loop**: it returns only index 0 while the total
also contains input 2 (`total = (50,70,0,0,0)`), so total ≠ sum of the returned vectors. -/
theorem c33_original_counterexample :
    largestSetOrig witnessDims witnessLimit = ([0], [50, 70, 0, 0, 0]) ∧
    ¬ (∀ k, k < feeDimensions →
        get (largestSetOrig witnessDims witnessLimit).2 k
          = sumAt witnessDims k (largestSetOrig witnessDims witnessLimit).1) := by
  have h : largestSetOrig witnessDims witnessLimit = ([0], [50, 70, 0, 0, 0]) := by decide +kernel
  refine ⟨h, ?_⟩
  rw [h]
  intro hall
  have := hall 1 (by decide)
  revert this
  decide

/-- the repaired code on the same input -/
example : largestSet witnessDims witnessLimit = ([0, 2], [50, 70, 0, 0, 0]) := by decide +kernel

/-- non-vacuity of `skipped_did_not_fit`: on the witness, index 1 is skipped after `pre = [0]` -/
example : sortedIdx witnessDims witnessLimit = [0] ++ 1 :: [2] := by decide +kernel
example : 1 ∉ (largestSet witnessDims witnessLimit).1 := by decide +kernel

end HyperModel.Props.C33
