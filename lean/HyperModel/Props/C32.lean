import HyperModel.Model.Pubsub
import HyperModel.Proofs.Pubsub
/-!
# C32 Pubsub message batching delivers in order within the size limit

Model: `Model/Pubsub.lean` = `pubsub.MessageBuffer` + canoto `BatchMessage` encoding as of
/repo commits ae6ebd9 ("message buffer must bound the encoded batch, not the payload bytes")
and 9e4a691 ("MessageBuffer.Close deadlocked with a running timer callback").
`batch_size_le_max` was violated before /repo ae6ebd9 (`pendingSize` counted payload bytes
only: two 5-byte messages with `maxSize = 10` gave a 14-byte batch; one 10-byte message gave
12 bytes).  The atomic-step reading of the code (every locked region completes) was false
before /repo 9e4a691: `Close` held the mutex while `Timer.Stop` waited for a running timer
callback that needs the same mutex (deadlock).  Both witnesses stay first in the harness
corpora (sequential tie; forced schedule in `TestVerifC32Par`) and would be flagged again by
the oracle keys `encoded-batch-exceeds-max` / `close-deadlocks-with-timer`.

All theorems quantify over *every* configuration `c : Cfg` (queue capacity and `maxSize` are
arbitrary naturals), every sequence of atomic steps (`send m | fire | late | close | recv`,
i.e. every interleaving of producers, the timer callback, `Close` and the consumer — each runs
under the mutex / is one channel operation) and every message content and size.  The only
side condition on the configuration is `hmax : c.maxSize < 2 ^ 64` in the three theorems that
decode a batch (`batch_decodes_to_messages`, `consumer_gets_accepted_in_order`,
`frames_eq_batches`): the varint reader rejects lengths ≥ 2^64; `maxSize` is a Go `int`
(< 2^63), so the hypothesis holds for every configuration the code can be given.
-/
namespace HyperModel.Props.C32
open HyperModel.Pubsub HyperModel.Proofs.Pubsub

/-! ### observables of a run -/

/-- the `clearPending` calls of a run, in order -/
def flushes (outs : List Out) : List Flush := outs.filterMap (·.flush)

/-- message accepted by this step: a `send m` that returned `nil` -/
def acceptedOf (op : Op) (o : Out) : List Bytes :=
  match op, o.res with
  | .send m, .ok => [m]
  | _, _ => []

/-- the messages accepted for sending, in order -/
def accepted : List Op → List Out → List Bytes
  | op :: ops, o :: outs => acceptedOf op o ++ accepted ops outs
  | _, _ => []

def receivedOf (o : Out) : List Bytes :=
  match o.res with
  | .batch b => [b]
  | _ => []

/-- the batches the consumer took from `Queue`, in order -/
def received (outs : List Out) : List Bytes := outs.flatMap receivedOf

def flushMsgs (o : Out) : List Bytes :=
  match o.flush with
  | some f => f.msgs
  | none => []

def deliveredOf (o : Out) : List Bytes :=
  match o.flush with
  | some f => if f.delivered then [f.bytes] else []
  | none => []

/-- invariant of `MessageBuffer` (repaired): `pendingSize` *is* the encoded size of the
pending batch, it never exceeds `maxSize`, nothing is pending once closed, and whenever
something is pending the flush timer is armed -/
structure Inv (c : Cfg) (s : State) : Prop where
  size_eq : s.pendingSize = (encodeBatch s.pending).length
  size_le : s.pendingSize ≤ c.maxSize
  closed_empty : s.closed = true → s.pending = []
  armed : s.pending ≠ [] → s.timerArmed = true

theorem inv_init (c : Cfg) : Inv c init :=
  ⟨rfl, Nat.zero_le _, fun _ => rfl, fun h => absurd rfl h⟩

/-- everything one atomic step guarantees -/
structure StepSpec (c : Cfg) (s : State) (op : Op) (s' : State) (o : Out) : Prop where
  inv : Inv c s'
  flush_ok : ∀ f, o.flush = some f →
    f.msgs = s.pending ∧ f.bytes = encodeBatch f.msgs ∧ f.bytes.length ≤ c.maxSize ∧
    (f.delivered = false → c.cap ≤ s.queue.length)
  conserve : flushMsgs o ++ s'.pending = s.pending ++ acceptedOf op o
  fifo : receivedOf o ++ s'.queue = s.queue ++ deliveredOf o
  closed_mono : s.closed = true → s'.closed = true

theorem clearPending_spec (c : Cfg) (s : State)
    (hsz : s.pendingSize = (encodeBatch s.pending).length) (hle : s.pendingSize ≤ c.maxSize) :
    let r := clearPending c s
    r.1.pending = [] ∧ r.1.pendingSize = 0 ∧ r.1.closed = s.closed ∧
    r.2.msgs = s.pending ∧ r.2.bytes = encodeBatch s.pending ∧
    r.2.bytes.length ≤ c.maxSize ∧ (r.2.delivered = false → c.cap ≤ s.queue.length) ∧
    r.1.queue = s.queue ++ (if r.2.delivered then [r.2.bytes] else []) ∧
    r.1.timerArmed = s.timerArmed := by
  have hl : (encodeBatch s.pending).length ≤ c.maxSize := by rw [← hsz]; exact hle
  unfold clearPending
  by_cases hq : s.queue.length < c.cap
  · simp [hq, hl]
  · simp [hq, hl]; omega

theorem armIfFirst_fields (s : State) :
    (armIfFirst s).pending = s.pending ∧ (armIfFirst s).pendingSize = s.pendingSize ∧
    (armIfFirst s).queue = s.queue ∧ (armIfFirst s).closed = s.closed ∧
    (s.pending.length = 1 → (armIfFirst s).timerArmed = true) ∧
    (s.timerArmed = true → (armIfFirst s).timerArmed = true) := by
  unfold armIfFirst
  by_cases h : s.pending.length = 1
  · simp [h]
  · simp [h]

theorem send_spec (c : Cfg) (s : State) (m : Bytes) (h : Inv c s) :
    StepSpec c s (.send m) (send c s m).1 (send c s m).2 := by
  unfold send
  by_cases hc : s.closed = true
  · rw [if_pos hc]
    exact ⟨h, by simp, by simp [flushMsgs, acceptedOf], by simp [receivedOf, deliveredOf], fun _ => hc⟩
  · rw [if_neg hc]
    by_cases hl : entrySize m > c.maxSize
    · simp only [hl, if_true]
      exact ⟨h, by simp, by simp [flushMsgs, acceptedOf], by simp [receivedOf, deliveredOf], fun h' => absurd h' hc⟩
    · simp only [hl, if_false]
      by_cases hf : s.pendingSize + entrySize m > c.maxSize
      · simp only [hf, if_true]
        obtain ⟨c1, c2, c3, c4, c5, c6, c7, c8, _⟩ :=
          clearPending_spec c { s with timerArmed := false } h.size_eq h.size_le
        generalize clearPending c { s with timerArmed := false } = r at c1 c2 c3 c4 c5 c6 c7 c8 ⊢
        obtain ⟨a1, a2, a3, a4, a5, _⟩ := armIfFirst_fields
          { r.1 with pendingSize := r.1.pendingSize + entrySize m, pending := r.1.pending ++ [m] }
        simp only at a1 a2 a3 a4 a5 c3 c4 c5 c7 c8
        refine ⟨⟨?_, ?_, ?_, ?_⟩, ?_, ?_, ?_, ?_⟩
        · rw [a1, a2, c1, c2, List.nil_append, encodeBatch_length_cons]; simp [encodeBatch]
        · rw [a2, c2]; omega
        · intro h'; rw [a4, c3] at h'; exact absurd h' hc
        · intro _; exact a5 (by rw [c1]; rfl)
        · intro f hf'
          simp only [Option.some.injEq] at hf'
          subst hf'
          exact ⟨c4, by rw [c5, c4], c6, c7⟩
        · simp only [flushMsgs, acceptedOf]; rw [a1, c1, c4]; simp
        · simp only [receivedOf, deliveredOf, List.nil_append]; rw [a3]
          exact c8
        · intro h'; exact absurd h' hc
      · simp only [hf, if_false]
        obtain ⟨a1, a2, a3, a4, a5, a6⟩ := armIfFirst_fields
          { s with pendingSize := s.pendingSize + entrySize m, pending := s.pending ++ [m] }
        simp only at a1 a2 a3 a4 a5 a6
        refine ⟨⟨?_, ?_, ?_, ?_⟩, ?_, ?_, ?_, ?_⟩
        · rw [a1, a2, encodeBatch_length_append_single, h.size_eq]
        · rw [a2]; omega
        · intro h'; rw [a4] at h'; exact absurd h' hc
        · intro _
          by_cases hp : s.pending = []
          · exact a5 (by simp [hp])
          · exact a6 (h.armed hp)
        · simp
        · simp only [flushMsgs, acceptedOf]; rw [a1]; simp
        · simp only [receivedOf, deliveredOf]; rw [a3]; simp
        · intro h'; exact absurd h' hc

/-- the callback body run on a state `t` that agrees with `s` except possibly for the timer
flag, as a step of an op that accepts nothing (`fire`, `late`) -/
theorem callback_spec_of_eq (c : Cfg) (s t : State) (op : Op) (h : Inv c s)
    (e1 : t.pending = s.pending) (e2 : t.pendingSize = s.pendingSize) (e3 : t.queue = s.queue)
    (e4 : t.closed = s.closed) (hacc : ∀ o, acceptedOf op o = []) :
    StepSpec c s op (callback c t).1 (callback c t).2 := by
  unfold callback
  by_cases hc : t.closed = true
  · rw [if_pos hc]
    have hcs : s.closed = true := by rw [← e4]; exact hc
    exact ⟨⟨by rw [e1, e2]; exact h.size_eq, by rw [e2]; exact h.size_le,
        fun _ => by rw [e1]; exact h.closed_empty hcs,
        fun hp => absurd (by rw [e1]; exact h.closed_empty hcs) hp⟩,
      by simp, by simp [flushMsgs, hacc, e1], by simp [receivedOf, deliveredOf, e3],
      fun _ => hc⟩
  · rw [if_neg hc]
    have hcs : ¬ s.closed = true := by rw [← e4]; exact hc
    by_cases hp : t.pending.length = 0
    · rw [if_pos hp]
      have hnil : t.pending = [] := List.eq_nil_of_length_eq_zero hp
      exact ⟨⟨by rw [e1, e2]; exact h.size_eq, by rw [e2]; exact h.size_le,
          fun _ => hnil, fun hp' => absurd hnil hp'⟩,
        by simp, by simp [flushMsgs, hacc, e1], by simp [receivedOf, deliveredOf, e3],
        fun h' => absurd h' hcs⟩
    · rw [if_neg hp]
      obtain ⟨c1, c2, c3, c4, c5, c6, c7, c8, _⟩ :=
        clearPending_spec c t (by rw [e1, e2]; exact h.size_eq) (by rw [e2]; exact h.size_le)
      refine ⟨⟨?_, ?_, ?_, ?_⟩, ?_, ?_, ?_, ?_⟩
      · rw [c1, c2]; rfl
      · rw [c2]; exact Nat.zero_le _
      · intro _; exact c1
      · intro hp'; exact absurd c1 hp'
      · intro f hf'
        simp only [Option.some.injEq] at hf'
        subst hf'
        exact ⟨by rw [c4, e1], by rw [c5, c4], c6, by rw [← e3]; exact c7⟩
      · simp only [flushMsgs, hacc]; rw [c1, c4, e1]
      · simp only [receivedOf, deliveredOf, List.nil_append]
        rw [c8, e3]
      · intro h'; exact absurd h' hcs

theorem fire_spec (c : Cfg) (s : State) (h : Inv c s) :
    StepSpec c s .fire (fire c s).1 (fire c s).2 := by
  unfold fire
  by_cases ha : s.timerArmed = true
  · rw [if_pos ha]
    exact callback_spec_of_eq c s { s with timerArmed := false } .fire h rfl rfl rfl rfl
      (fun o => by simp [acceptedOf])
  · rw [if_neg ha]
    exact ⟨h, by simp, by simp [flushMsgs, acceptedOf], by simp [receivedOf, deliveredOf], fun h' => h'⟩

theorem late_spec (c : Cfg) (s : State) (h : Inv c s) :
    StepSpec c s .late (callback c s).1 (callback c s).2 :=
  callback_spec_of_eq c s s .late h rfl rfl rfl rfl (fun o => by simp [acceptedOf])

theorem close_spec (c : Cfg) (s : State) (h : Inv c s) :
    StepSpec c s .close (close c s).1 (close c s).2 := by
  obtain ⟨c1, c2, c3, c4, c5, c6, c7, c8, _⟩ := clearPending_spec c s h.size_eq h.size_le
  unfold close
  by_cases hc : s.closed = true
  · simp only [hc, if_true]
    exact ⟨h, by simp, by simp [flushMsgs, acceptedOf], by simp [receivedOf, deliveredOf], fun _ => hc⟩
  · simp only [hc, Bool.false_eq_true, if_false]
    refine ⟨⟨?_, ?_, ?_, ?_⟩, ?_, ?_, ?_, ?_⟩
    · simp only [c1, c2]; rfl
    · simp only [c2]; exact Nat.zero_le _
    · intro _; exact c1
    · intro hp'; exact absurd c1 hp'
    · intro f hf'
      simp only [Option.some.injEq] at hf'
      subst hf'
      exact ⟨c4, by rw [c5, c4], c6, c7⟩
    · simp [flushMsgs, acceptedOf, c4, c1]
    · simp only [receivedOf, deliveredOf, List.nil_append]
      exact c8
    · intro _; rfl

theorem recv_spec (c : Cfg) (s : State) (h : Inv c s) :
    StepSpec c s .recv (recv s).1 (recv s).2 := by
  unfold recv
  cases hq : s.queue with
  | nil =>
    simp only
    exact ⟨h, by simp, by simp [flushMsgs, acceptedOf], by
      by_cases hc : s.closed = true <;> simp [deliveredOf, receivedOf, hq, hc], fun h' => h'⟩
  | cons b q =>
    simp only
    exact ⟨⟨h.size_eq, h.size_le, h.closed_empty, h.armed⟩, by simp, by simp [flushMsgs, acceptedOf],
      by simp [receivedOf, deliveredOf, hq], fun h' => h'⟩

theorem step_spec (c : Cfg) (s : State) (op : Op) (h : Inv c s) :
    StepSpec c s op (step c s op).1 (step c s op).2 := by
  cases op with
  | send m => exact send_spec c s m h
  | fire => exact fire_spec c s h
  | close => exact close_spec c s h
  | recv => exact recv_spec c s h
  | late => exact late_spec c s h

/-- the invariant holds in every reachable state -/
theorem inv_run (c : Cfg) (s : State) (ops : List Op) (h : Inv c s) : Inv c (run c s ops).1 := by
  induction ops generalizing s with
  | nil => exact h
  | cons op ops ih => exact ih _ (step_spec c s op h).inv

/-- a drop happens only when the outgoing queue is full (any state satisfying the invariant,
in particular every reachable one) -/
theorem drop_only_when_queue_full (c : Cfg) (s : State) (op : Op) (h : Inv c s) (f : Flush)
    (hf : (step c s op).2.flush = some f) (hd : f.delivered = false) :
    c.cap ≤ s.queue.length :=
  ((step_spec c s op h).flush_ok f hf).2.2.2 hd

/-! ### run-level statements (generalised over the start state for the induction) -/

theorem flushes_ok_from (c : Cfg) (s : State) (ops : List Op) (h : Inv c s) :
    ∀ f ∈ flushes (run c s ops).2, f.bytes = encodeBatch f.msgs ∧ f.bytes.length ≤ c.maxSize := by
  induction ops generalizing s with
  | nil => intro f hf; simp [run, flushes] at hf
  | cons op ops ih =>
    intro f hf
    have hs := step_spec c s op h
    simp only [run, flushes, List.filterMap_cons] at hf
    cases ho : (step c s op).2.flush with
    | none =>
      rw [ho] at hf
      exact ih _ hs.inv f hf
    | some g =>
      rw [ho] at hf
      rcases List.mem_cons.mp hf with rfl | hf
      · have := hs.flush_ok f ho
        exact ⟨this.2.1, this.2.2.1⟩
      · exact ih _ hs.inv f hf

theorem conserve_from (c : Cfg) (s : State) (ops : List Op) (h : Inv c s) :
    (flushes (run c s ops).2).flatMap (·.msgs) ++ (run c s ops).1.pending
      = s.pending ++ accepted ops (run c s ops).2 := by
  induction ops generalizing s with
  | nil => simp [run, flushes, accepted]
  | cons op ops ih =>
    have hs := step_spec c s op h
    have ih' := ih _ hs.inv
    have hc := hs.conserve
    simp only [run, accepted]
    have hfl : (flushes ((step c s op).2 :: (run c (step c s op).1 ops).2)).flatMap (·.msgs)
        = flushMsgs (step c s op).2 ++ (flushes (run c (step c s op).1 ops).2).flatMap (·.msgs) := by
      unfold flushes flushMsgs
      cases hfo : (step c s op).2.flush <;> simp [hfo]
    rw [hfl, List.append_assoc, ih', ← List.append_assoc, hc, List.append_assoc]

theorem fifo_from (c : Cfg) (s : State) (ops : List Op) (h : Inv c s) :
    received (run c s ops).2 ++ (run c s ops).1.queue
      = s.queue ++ ((flushes (run c s ops).2).filter (·.delivered)).map (·.bytes) := by
  induction ops generalizing s with
  | nil => simp [run, flushes, received]
  | cons op ops ih =>
    have hs := step_spec c s op h
    have ih' := ih _ hs.inv
    have hf := hs.fifo
    simp only [run]
    have hdl : ((flushes ((step c s op).2 :: (run c (step c s op).1 ops).2)).filter (·.delivered)).map (·.bytes)
        = deliveredOf (step c s op).2 ++
          ((flushes (run c (step c s op).1 ops).2).filter (·.delivered)).map (·.bytes) := by
      unfold flushes deliveredOf
      cases hfo : (step c s op).2.flush with
      | none => simp [hfo]
      | some g =>
        by_cases hd : g.delivered = true
        · simp [hfo, hd]
        · simp [hfo, hd]
    have hrc : received ((step c s op).2 :: (run c (step c s op).1 ops).2)
        = receivedOf (step c s op).2 ++ received (run c (step c s op).1 ops).2 := by
      simp [received]
    rw [hdl, hrc, List.append_assoc, ih', ← List.append_assoc, hf, List.append_assoc]

/-! ### the property -/

/-- **C32 (size)** every batch ever handed to the outgoing queue (or dropped) is the canoto
encoding of the messages it carries and is at most `maxSize` bytes long. -/
theorem batch_size_le_max (c : Cfg) (ops : List Op) :
    ∀ f ∈ flushes (run c init ops).2, f.bytes = encodeBatch f.msgs ∧ f.bytes.length ≤ c.maxSize :=
  flushes_ok_from c init ops (inv_init c)

/-- **C32 (decodes back)** every emitted batch decodes (`ParseBatchMessage`) to exactly the
messages it was built from.  `maxSize < 2^64` is Go's `int`. -/
theorem batch_decodes_to_messages (c : Cfg) (hmax : c.maxSize < 2 ^ 64) (ops : List Op) :
    ∀ f ∈ flushes (run c init ops).2, decodeBatch f.bytes = some f.msgs := by
  intro f hf
  obtain ⟨hb, hl⟩ := batch_size_le_max c ops f hf
  rw [hb]
  apply decodeBatch_encodeBatch
  intro m hm
  have := mem_length_le_encodeBatch f.msgs m hm
  rw [← hb] at this
  omega

/-- **C32 (exactly once, in order)** at any point of any run, the messages of all batches
flushed so far (in flush order), followed by the messages still pending, are exactly the
messages accepted by `Send`, in order, each once. -/
theorem emitted_in_order_once (c : Cfg) (ops : List Op) :
    (flushes (run c init ops).2).flatMap (·.msgs) ++ (run c init ops).1.pending
      = accepted ops (run c init ops).2 := by
  have := conserve_from c init ops (inv_init c)
  simpa [init] using this

/-- the consumer receives exactly the delivered batches, in flush order (FIFO channel) -/
theorem delivered_in_flush_order (c : Cfg) (ops : List Op) :
    received (run c init ops).2 ++ (run c init ops).1.queue
      = ((flushes (run c init ops).2).filter (·.delivered)).map (·.bytes) := by
  have := fifo_from c init ops (inv_init c)
  simpa [init] using this

/-- **C32 (emission)** in every reachable state, whenever messages are pending (and hence the
buffer is not closed) the flush timer is armed.  With the trusted assumption on avalanchego's
timer (an armed timer eventually runs the callback, which flushes), every accepted message is
eventually handed to the queue — it cannot be stranded waiting for another `Send`/`Close`. -/
theorem pending_nonempty_implies_timer_armed (c : Cfg) (ops : List Op)
    (h : (run c init ops).1.pending ≠ []) :
    (run c init ops).1.timerArmed = true ∧ (run c init ops).1.closed = false := by
  have hi := inv_run c init ops (inv_init c)
  refine ⟨hi.armed h, ?_⟩
  cases hc : (run c init ops).1.closed with
  | false => rfl
  | true => exact absurd (hi.closed_empty hc) h

/-- **the unarmed callback is harmless.**  The real callback *can* run while the timer is
unarmed (it was dispatched, blocked on the mutex, and meanwhile `Send` called `Cancel`).  In
any state satisfying the invariant — every reachable one — such a run changes nothing and
emits nothing (unarmed ⇒ nothing pending).  Hence enabling `fire` only while armed loses no
behaviour; the `late` step keeps the armed late-callback schedules in the model as well. -/
theorem callback_unarmed_noop (c : Cfg) (s : State) (h : Inv c s) (hu : s.timerArmed = false) :
    (callback c s).1 = s ∧ (callback c s).2.flush = none := by
  have hp : s.pending = [] := by
    apply Classical.byContradiction
    intro hne
    have := h.armed hne
    rw [hu] at this
    cases this
  unfold callback
  by_cases hc : s.closed = true
  · simp [hc]
  · simp [hc, hp]

/-- an armed timer that fires on pending messages flushes all of them -/
theorem fire_flushes_pending (c : Cfg) (s : State) (ha : s.timerArmed = true)
    (hc : s.closed = false) (hp : s.pending ≠ []) :
    (fire c s).1.pending = [] ∧ ∃ f, (fire c s).2.flush = some f ∧ f.msgs = s.pending := by
  have hl : ¬ s.pending.length = 0 := fun e => hp (List.eq_nil_of_length_eq_zero e)
  unfold fire callback clearPending
  by_cases hq : s.queue.length < c.cap <;> simp [ha, hc, hl, hq]

/-- the websocket frames the write pump puts on the wire: one per dequeued batch -/
def frames (outs : List Out) : List Bytes := (received outs).map writeFrame

/-- **C32 (on the wire)** the frames written by the write pump are exactly the dequeued
batches, one frame per batch in order; hence every frame is at most `maxSize` bytes and decodes
to the messages of the flush it came from.  (The pump itself is a one-line model; that the
real `writePump` writes one frame per batch is *tied* by the oracle-only harness
`TestVerifC32Pump` against a real websocket peer, not proved about gorilla/websocket.) -/
theorem frames_eq_batches (c : Cfg) (hmax : c.maxSize < 2 ^ 64) (ops : List Op) :
    frames (run c init ops).2 = received (run c init ops).2 ∧
    ∀ fr ∈ frames (run c init ops).2,
      fr.length ≤ c.maxSize ∧
      ∃ f ∈ flushes (run c init ops).2, f.delivered = true ∧ fr = f.bytes ∧
        decodeBatch fr = some f.msgs := by
  have hfr : frames (run c init ops).2 = received (run c init ops).2 := by
    unfold frames
    have : writeFrame = id := by funext b; rfl
    rw [this, List.map_id]
  refine ⟨hfr, ?_⟩
  intro fr hmem
  rw [hfr] at hmem
  have hin : fr ∈ ((flushes (run c init ops).2).filter (·.delivered)).map (·.bytes) := by
    rw [← delivered_in_flush_order]
    exact List.mem_append_left _ hmem
  obtain ⟨f, hf, hb⟩ := List.mem_map.mp hin
  obtain ⟨hfm, hdel⟩ := List.mem_filter.mp hf
  subst hb
  exact ⟨(batch_size_le_max c ops f hfm).2, f, hfm, hdel, rfl,
    batch_decodes_to_messages c hmax ops f hfm⟩

/-- nothing stays pending after `Close` -/
theorem closed_nothing_pending (c : Cfg) (ops : List Op)
    (h : (run c init ops).1.closed = true) : (run c init ops).1.pending = [] :=
  (inv_run c init ops (inv_init c)).closed_empty h

/-- **C32 (end to end)** if no batch was dropped (the queue was never full at a flush), then
decoding what the consumer received plus what is still queued, followed by what is still
pending, is exactly the accepted message sequence. -/
theorem consumer_gets_accepted_in_order (c : Cfg) (hmax : c.maxSize < 2 ^ 64) (ops : List Op)
    (hnodrop : ∀ f ∈ flushes (run c init ops).2, f.delivered = true) :
    (received (run c init ops).2 ++ (run c init ops).1.queue).flatMap
        (fun b => (decodeBatch b).getD []) ++ (run c init ops).1.pending
      = accepted ops (run c init ops).2 := by
  rw [delivered_in_flush_order, ← emitted_in_order_once]
  congr 1
  have hdec := batch_decodes_to_messages c hmax ops
  generalize flushes (run c init ops).2 = fl at *
  induction fl with
  | nil => rfl
  | cons f r ih =>
    have hf : f.delivered = true := hnodrop f (List.mem_cons_self ..)
    have hd : decodeBatch f.bytes = some f.msgs := hdec f (List.mem_cons_self ..)
    simp only [List.filter_cons, hf, if_true, List.map_cons, List.flatMap_cons, hd, Option.getD_some]
    rw [ih (fun g hg => hnodrop g (List.mem_cons_of_mem _ hg)) (fun g hg => hdec g (List.mem_cons_of_mem _ hg))]

/-! non-vacuity: the design-time witness on the repaired model — two 5-byte messages with
`maxSize = 10` now go out as two 7-byte batches -/
example :
    (flushes (run ⟨4, 10⟩ init [.send [1,2,3,4,5], .send [6,7,8,9,10], .fire]).2).map
      (fun f => (f.bytes.length, f.msgs.length, f.delivered)) = [(7, 1, true), (7, 1, true)] := by
  have h5 : Nat.log2 5 = 2 := by rw [Nat.log2_eq_iff (by decide)]; decide
  simp [run, step, send, fire, callback, armIfFirst, clearPending, flushes, init, entrySize, sizeUint,
    encodeBatch, encVarint, h5]

end HyperModel.Props.C32
