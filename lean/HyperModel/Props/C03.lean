import HyperModel.Proofs.Tx
/-!
# C03 Transactions are atomic and always pay their fee

Model: `Model/Tx.lean` (`txExecute` = `chain/transaction.go: Transaction.Execute`, both balance
handlers, actions = arbitrary programs over `state.Mutable`). The state view is the abstract
map-with-checkpoints that `TStateView` refines (C04's `view_refines` / `rollback_restores`).

All theorems quantify over every handler, unit prices, units, sponsor balance, view contents and
scope, every number of actions, every action program (any reads / writes / deletes, failing at
any point) and hence every failure position.
-/
namespace HyperModel.Props.C03
open HyperModel.Tx HyperModel.Proofs.Tx

/-- "all action effects are applied": every action runs, in order, each on the state left by
the previous one, and every one succeeds; result = final view and the outputs. -/
def applyAll : List Action → View → Option (View × List Val)
  | [], v => some (v, [])
  | a :: rest, v =>
    match a.prog.run v with
    | (v', .ok o) => (applyAll rest v').map fun r => (r.1, o :: r.2)
    | (_, .error _) => none

/-- outputs of the actions that ran successfully before the first failing one, and its error -/
def firstFailure : List Action → View → Option (List Val × Err)
  | [], _ => none
  | a :: rest, v =>
    match a.prog.run v with
    | (v', .ok o) => (firstFailure rest v').map fun r => (o :: r.1, r.2)
    | (_, .error e) => some ([], e)

/-- the view in which the first action starts: the fee has been deducted through the balance
handler and the checkpoint (`OpIndex`) has been taken. -/
def chargedView (h : Handler) (tx : Tx) (fee : Nat) (v : View) : View :=
  ((h.deduct tx.sponsor fee).run v).1.opIndex.1

theorem applyAll_none_iff (acts : List Action) : ∀ v, applyAll acts v = none ↔ (firstFailure acts v).isSome := by
  induction acts with
  | nil => intro v; simp [applyAll, firstFailure]
  | cons a rest ih =>
    intro v
    simp only [applyAll, firstFailure]
    rcases hrun : a.prog.run v with ⟨v', r⟩
    cases r with
    | error e => simp
    | ok o => simp [ih v']

/-- loop invariant of the action loop: with the checkpoint `s` on top of the stack, the loop
either applies everything or rolls back to `s`. -/
theorem runActions_spec (units : List Nat) (fee : Nat) (base : List Store) (s : Store)
    (acts : List Action) : ∀ (v : View) (outs : List Val), v.cps = base ++ [s] →
    (∀ vf os, applyAll acts v = some (vf, os) →
        runActions units fee base.length acts v outs =
          (vf, { success := true, error := none, outputs := outs ++ os, units, fee })) ∧
    (∀ os e, firstFailure acts v = some (os, e) →
        (runActions units fee base.length acts v outs).1.cur = s ∧
        (runActions units fee base.length acts v outs).1.scope = v.scope ∧
        (runActions units fee base.length acts v outs).2 =
          { success := false, error := some e, outputs := outs ++ os, units, fee }) := by
  induction acts with
  | nil =>
    intro v outs _
    constructor
    · intro vf os h; simp [applyAll] at h; simp [runActions, h.1, ← h.2]
    · intro os e h; simp [firstFailure] at h
  | cons a rest ih =>
    intro v outs hc
    have hfr := run_frame a.prog v
    rcases hrun : a.prog.run v with ⟨v', r⟩
    rw [hrun] at hfr
    simp only at hfr
    cases r with
    | error e =>
      constructor
      · intro vf os h; simp [applyAll, hrun] at h
      · intro os e' h
        simp [firstFailure, hrun] at h
        obtain ⟨h1, h2⟩ := h
        subst h1; subst h2
        simp only [runActions, hrun]
        have hcp : v'.cps = base ++ [s] := by rw [hfr.2, hc]
        have hget : v'.cps[base.length]? = some s := by simp [hcp]
        simp [View.rollback, hget, hfr.1]
    | ok o =>
      have hc' : v'.cps = base ++ [s] := by rw [hfr.2, hc]
      have := ih v' (outs ++ [o]) hc'
      constructor
      · intro vf os h
        simp only [applyAll, hrun] at h
        cases hrest : applyAll rest v' with
        | none => simp [hrest] at h
        | some r =>
          simp [hrest] at h
          obtain ⟨h1, h2⟩ := h
          simp only [runActions, hrun]
          rw [this.1 r.1 r.2 (by simp [hrest])]
          simp [h1, ← h2]
      · intro os e h
        simp only [firstFailure, hrun] at h
        cases hrest : firstFailure rest v' with
        | none => simp [hrest] at h
        | some r =>
          simp [hrest] at h
          obtain ⟨h1, h2⟩ := h
          simp only [runActions, hrun]
          have := this.2 r.1 r.2 (by simp [hrest])
          refine ⟨this.1, by rw [this.2.1, hfr.1], ?_⟩
          rw [this.2.2]
          simp [← h1, h2]

/-- unfolding of a successful `Transaction.Execute` (helper) -/
theorem txExecute_ok (h : Handler) (prices : List Nat) (tx : Tx) (v v' : View) (r : Result)
    (hx : txExecute h prices tx v = (v', .ok r)) :
    ∃ units fee o, tx.units = some units ∧ feeOf prices units 0 = some fee ∧
      ((h.deduct tx.sponsor fee).run v).2 = .ok o ∧
      (v', r) = runActions units fee ((h.deduct tx.sponsor fee).run v).1.cps.length tx.actions
                  (chargedView h tx fee v) [] := by
  unfold txExecute at hx
  split at hx
  · simp at hx
  · rename_i units hu
    split at hx
    · simp at hx
    · rename_i fee hf
      split at hx
      · simp at hx
      · rename_i v1 o hd
        simp at hx
        refine ⟨units, fee, o, hu, hf, by rw [hd], ?_⟩
        simp only [chargedView, hd, View.opIndex] at hx ⊢
        rw [← hx.1, ← hx.2]

/-- **C03 (a)** The sponsor is charged exactly Σ price·units, through the balance handler,
*before any action runs*: whenever `Execute` returns a result (i.e. the transaction can be
included in a block), the fee in the result is `Σ price_d·units_d` (no overflow), the sponsor's
balance record covered it, the state in which the first action starts (`chargedView`) is the
pre-state with only the sponsor's balance record changed, to `balance − fee`, and the whole
action loop runs from that state. -/
theorem fee_charged_first (h : Handler) (prices : List Nat) (tx : Tx) (v v' : View) (r : Result)
    (hx : txExecute h prices tx v = (v', .ok r)) :
    ∃ units fee bal, tx.units = some units ∧ feeOf prices units 0 = some fee ∧
      fee = dot prices units ∧ fee < u64 ∧ r.fee = fee ∧ r.units = units ∧
      readBal h v.cur tx.sponsor = some bal ∧ fee ≤ bal ∧
      (chargedView h tx fee v).cur = charge h v.cur tx.sponsor bal fee ∧
      (∀ k, k ≠ h.key tx.sponsor → (chargedView h tx fee v).cur k = v.cur k) ∧
      balance h (chargedView h tx fee v).cur tx.sponsor = bal - fee ∧
      (v', r) = runActions units fee ((h.deduct tx.sponsor fee).run v).1.cps.length tx.actions
                  (chargedView h tx fee v) [] := by
  obtain ⟨units, fee, o, hu, hf, hd, hrun⟩ := txExecute_ok h prices tx v v' r hx
  have hd' : (h.deduct tx.sponsor fee).run v = (((h.deduct tx.sponsor fee).run v).1, .ok o) := by
    rw [← hd]
  obtain ⟨bal, hb, hle, hcur⟩ := deduct_ok h tx.sponsor fee v _ o hd'
  have hfee := feeOf_spec prices units 0 fee hf
  have hlt := feeOf_lt prices units 0 fee (by unfold u64; omega) hf
  have hcv : (chargedView h tx fee v).cur = charge h v.cur tx.sponsor bal fee := by
    simp [chargedView, View.opIndex, hcur]
  have hbl : bal < u64 := by
    unfold readBal at hb
    cases hk : v.cur (h.key tx.sponsor) with
    | none => simp [hk] at hb
    | some x => simp [hk] at hb; exact decU64_lt x bal hb
  have hres : r.fee = fee ∧ r.units = units := by
    have h2 : r = (runActions units fee ((h.deduct tx.sponsor fee).run v).1.cps.length tx.actions
                  (chargedView h tx fee v) []).2 := by rw [← hrun]
    have hc : (chargedView h tx fee v).cps = ((h.deduct tx.sponsor fee).run v).1.cps ++ [((h.deduct tx.sponsor fee).run v).1.cur] := by
      simp [chargedView, View.opIndex]
    have spec := runActions_spec units fee _ _ tx.actions (chargedView h tx fee v) [] hc
    cases hall : applyAll tx.actions (chargedView h tx fee v) with
    | some p =>
      have := spec.1 p.1 p.2 (by simp [hall])
      rw [h2, this]; simp
    | none =>
      have hsome := (applyAll_none_iff tx.actions _).1 hall
      cases hff : firstFailure tx.actions (chargedView h tx fee v) with
      | none => simp [hff] at hsome
      | some q =>
        have := (spec.2 q.1 q.2 (by simp [hff])).2.2
        rw [h2, this]; simp
  refine ⟨units, fee, bal, hu, hf, by omega, hlt, hres.1, hres.2, hb, hle, hcv, ?_, ?_, hrun⟩
  · intro k hk; rw [hcv]; exact charge_other h v.cur tx.sponsor bal fee k hk
  · rw [hcv]; exact balance_charge h v.cur tx.sponsor bal fee hbl

/-- **C03 (b)** If the result says success, every action ran, in order, from the charged state,
every one succeeded, the post-state is exactly the state they produced and the outputs are
exactly theirs (one per action). -/
theorem success_applies_all (h : Handler) (prices : List Nat) (tx : Tx) (v v' : View) (r : Result)
    (hx : txExecute h prices tx v = (v', .ok r)) (hs : r.success = true) :
    applyAll tx.actions (chargedView h tx r.fee v) = some (v', r.outputs) ∧
    r.outputs.length = tx.actions.length ∧ r.error = none := by
  obtain ⟨units, fee, bal, _, _, _, _, hfee, _, _, _, _, _, _, hrun⟩ :=
    fee_charged_first h prices tx v v' r hx
  rw [hfee]
  have hc : (chargedView h tx fee v).cps = ((h.deduct tx.sponsor fee).run v).1.cps ++ [((h.deduct tx.sponsor fee).run v).1.cur] := by
    simp [chargedView, View.opIndex]
  have spec := runActions_spec units fee _ _ tx.actions (chargedView h tx fee v) [] hc
  cases hall : applyAll tx.actions (chargedView h tx fee v) with
  | some p =>
    have := spec.1 p.1 p.2 (by simp [hall])
    rw [this] at hrun
    simp at hrun
    obtain ⟨h1, h2⟩ := hrun
    subst h1; subst h2
    refine ⟨by simp, ?_, by simp⟩
    -- one output per action
    have hlen : ∀ (acts : List Action) (w : View) (q : View × List Val), applyAll acts w = some q →
        q.2.length = acts.length := by
      intro acts
      induction acts with
      | nil => intro w q hq; simp [applyAll] at hq; simp [← hq]
      | cons a rest ih =>
        intro w q hq
        simp only [applyAll] at hq
        rcases hr : a.prog.run w with ⟨w', rr⟩
        rw [hr] at hq
        cases rr with
        | error e => simp at hq
        | ok o =>
          simp only at hq
          cases hrest : applyAll rest w' with
          | none => simp [hrest] at hq
          | some q' =>
            simp [hrest] at hq
            rw [← hq]; simp [ih w' q' hrest]
    exact hlen _ _ _ hall
  | none =>
    have hsome := (applyAll_none_iff tx.actions _).1 hall
    cases hff : firstFailure tx.actions (chargedView h tx fee v) with
    | none => simp [hff] at hsome
    | some q =>
      have := (spec.2 q.1 q.2 (by simp [hff])).2.2
      have h2 : r = (runActions units fee ((h.deduct tx.sponsor fee).run v).1.cps.length tx.actions
                  (chargedView h tx fee v) []).2 := by rw [← hrun]
      rw [h2, this] at hs
      simp at hs

/-- **C03 (c)** If any action fails, *none* of the action effects is applied while the fee
charge stays: the post-state is the pre-state with only the sponsor's balance record changed,
by exactly the fee — whatever earlier actions (or the failing action before it failed) wrote
or deleted, including the sponsor's own balance record. The result records the failure, the
error of the first failing action and the outputs of the actions that ran before it. -/
theorem failure_reverts_actions_keeps_fee (h : Handler) (prices : List Nat) (tx : Tx)
    (v v' : View) (r : Result)
    (hx : txExecute h prices tx v = (v', .ok r)) (hs : r.success = false) :
    ∃ bal, readBal h v.cur tx.sponsor = some bal ∧ r.fee ≤ bal ∧
      v'.cur = charge h v.cur tx.sponsor bal r.fee ∧
      (∀ k, k ≠ h.key tx.sponsor → v'.cur k = v.cur k) ∧
      balance h v'.cur tx.sponsor = bal - r.fee ∧
      ∃ e, firstFailure tx.actions (chargedView h tx r.fee v) = some (r.outputs, e) ∧
        r.error = some e ∧ r.outputs.length < tx.actions.length := by
  obtain ⟨units, fee, bal, _, _, _, _, hfee, _, hb, hle, hcv, hother, hbal, hrun⟩ :=
    fee_charged_first h prices tx v v' r hx
  rw [hfee]
  have hc : (chargedView h tx fee v).cps = ((h.deduct tx.sponsor fee).run v).1.cps ++ [((h.deduct tx.sponsor fee).run v).1.cur] := by
    simp [chargedView, View.opIndex]
  have hsnap : ((h.deduct tx.sponsor fee).run v).1.cur = (chargedView h tx fee v).cur := by
    simp [chargedView, View.opIndex]
  have spec := runActions_spec units fee _ _ tx.actions (chargedView h tx fee v) [] hc
  have h1 : v' = (runActions units fee ((h.deduct tx.sponsor fee).run v).1.cps.length tx.actions
                  (chargedView h tx fee v) []).1 := by rw [← hrun]
  have h2 : r = (runActions units fee ((h.deduct tx.sponsor fee).run v).1.cps.length tx.actions
                  (chargedView h tx fee v) []).2 := by rw [← hrun]
  cases hall : applyAll tx.actions (chargedView h tx fee v) with
  | some p =>
    have := spec.1 p.1 p.2 (by simp [hall])
    rw [h2, this] at hs
    simp at hs
  | none =>
    have hsome := (applyAll_none_iff tx.actions _).1 hall
    cases hff : firstFailure tx.actions (chargedView h tx fee v) with
    | none => simp [hff] at hsome
    | some q =>
      have hq := spec.2 q.1 q.2 (by simp [hff])
      have hcur : v'.cur = charge h v.cur tx.sponsor bal fee := by
        rw [h1, hq.1, hsnap, hcv]
      refine ⟨bal, hb, hle, hcur, ?_, ?_, q.2, ?_, ?_, ?_⟩
      · intro k hk; rw [hcur]; exact charge_other h v.cur tx.sponsor bal fee k hk
      · rw [hcur, ← hcv]; exact hbal
      · rw [h2, hq.2.2]; simp
      · rw [h2, hq.2.2]
      · rw [h2, hq.2.2]
        simp only []
        have hlen : ∀ (acts : List Action) (w : View) (q : List Val × Err),
            firstFailure acts w = some q → q.1.length < acts.length := by
          intro acts
          induction acts with
          | nil => intro w q hq; simp [firstFailure] at hq
          | cons a rest ih =>
            intro w q hq
            simp only [firstFailure] at hq
            rcases hr : a.prog.run w with ⟨w', rr⟩
            rw [hr] at hq
            cases rr with
            | error e => simp at hq; simp [← hq]
            | ok o =>
              simp only at hq
              cases hrest : firstFailure rest w' with
              | none => simp [hrest] at hq
              | some q' =>
                simp [hrest] at hq
                rw [← hq]; simp; exact ih w' q' hrest
        exact hlen _ _ _ hff

/-- **C03 (d)** The result records what happened: `success` holds iff no action failed; units
and fee are the transaction's units and `Σ price·units`; the outputs are those of the actions
that ran (all of them on success, the ones before the first failure otherwise). -/
theorem result_records (h : Handler) (prices : List Nat) (tx : Tx) (v v' : View) (r : Result)
    (hx : txExecute h prices tx v = (v', .ok r)) :
    tx.units = some r.units ∧ r.fee = dot prices r.units ∧
    (r.success = true ↔ firstFailure tx.actions (chargedView h tx r.fee v) = none) ∧
    (r.success = true → ∃ vf, applyAll tx.actions (chargedView h tx r.fee v) = some (vf, r.outputs)) ∧
    (r.success = false → ∃ e, firstFailure tx.actions (chargedView h tx r.fee v) = some (r.outputs, e) ∧ r.error = some e) := by
  obtain ⟨units, fee, bal, hu, _, hdot, _, hfee, hunits, _, _, _, _, _, _⟩ :=
    fee_charged_first h prices tx v v' r hx
  refine ⟨by rw [hunits]; exact hu, by rw [hfee, hunits]; exact hdot, ?_, ?_, ?_⟩
  · constructor
    · intro hs
      have := (success_applies_all h prices tx v v' r hx hs).1
      cases hff : firstFailure tx.actions (chargedView h tx r.fee v) with
      | none => rfl
      | some q =>
        have : applyAll tx.actions (chargedView h tx r.fee v) = none :=
          (applyAll_none_iff _ _).2 (by simp [hff])
        simp_all
    · intro hnone
      cases hs : r.success with
      | true => rfl
      | false =>
        obtain ⟨_, _, _, _, _, _, e, he, _⟩ := failure_reverts_actions_keeps_fee h prices tx v v' r hx hs
        simp [hnone] at he
  · intro hs; exact ⟨v', (success_applies_all h prices tx v v' r hx hs).1⟩
  · intro hs
    obtain ⟨_, _, _, _, _, _, e, he, herr, _⟩ := failure_reverts_actions_keeps_fee h prices tx v v' r hx hs
    exact ⟨e, he, herr⟩

/-- **C03 (e)** A transaction whose `PreExecute` or `Execute` returns an error is never
committed: the block-level state is unchanged (so a transaction that changes the state has
paid its fee). -/
theorem uncommitted_unchanged (rules : Rules) (h : Handler) (prices : List Nat) (now : Int)
    (scope : Key → Nat) (tx : Tx) (cur cur' : Store) (o : Outcome)
    (hp : processTx rules h prices now scope tx cur = (cur', o)) :
    (∀ res, o ≠ .done res) → cur' = cur := by
  intro hne
  unfold processTx at hp
  dsimp only at hp
  split at hp
  · simp at hp; exact hp.1.symm
  · split at hp
    · simp at hp; exact hp.1.symm
    · simp at hp; exact absurd hp.2.symm (hne _)

/-- **C03 (f)** "always pay": a transaction whose units and fee are computable, whose sponsor
record is readable/writable (it always is: `SponsorStateKeys` declares Read|Write) and covers
the fee, always executes to a result — no action can make `Execute` return an error and thereby
escape the fee. -/
theorem funded_tx_executes (h : Handler) (prices : List Nat) (tx : Tx) (v : View)
    (units : List Nat) (fee bal : Nat)
    (hu : tx.units = some units) (hf : feeOf prices units 0 = some fee)
    (hr : has (v.scope (h.key tx.sponsor)) permRead = true)
    (hw : has (v.scope (h.key tx.sponsor)) permWrite = true)
    (hb : readBal h v.cur tx.sponsor = some bal) (hle : fee ≤ bal) :
    ∃ v' r, txExecute h prices tx v = (v', .ok r) ∧ r.fee = fee := by
  obtain ⟨v1, o, hd⟩ := deduct_succeeds h tx.sponsor fee bal v hr hw hb hle
  obtain ⟨v', r, hx⟩ : ∃ v' r, txExecute h prices tx v = (v', .ok r) := by
    simp [txExecute, hu, hf, hd]
  obtain ⟨units', fee', _, hu', hf', _, _, hfee, _⟩ := fee_charged_first h prices tx v v' r hx
  refine ⟨v', r, hx, ?_⟩
  rw [hu] at hu'; simp at hu'; subst hu'
  rw [hf] at hf'; simp at hf'; rw [hfee, hf']

/-- exact precondition of `funded_tx_executes`: with computable units/fee and a readable and
writable sponsor record, `Execute` returns a result **iff** the sponsor's record exists, parses
and covers the fee. -/
theorem executes_iff_funded (h : Handler) (prices : List Nat) (tx : Tx) (v : View)
    (units : List Nat) (fee : Nat)
    (hu : tx.units = some units) (hf : feeOf prices units 0 = some fee)
    (hr : has (v.scope (h.key tx.sponsor)) permRead = true)
    (hw : has (v.scope (h.key tx.sponsor)) permWrite = true) :
    (∃ v' r, txExecute h prices tx v = (v', .ok r)) ↔
      ∃ bal, readBal h v.cur tx.sponsor = some bal ∧ fee ≤ bal := by
  constructor
  · rintro ⟨v', r, hx⟩
    obtain ⟨units', fee', bal, hu', hf', _, _, _, _, hb, hle, _⟩ := fee_charged_first h prices tx v v' r hx
    rw [hu] at hu'; simp at hu'; subst hu'
    rw [hf] at hf'; simp at hf'; subst hf'
    exact ⟨bal, hb, hle⟩
  · rintro ⟨bal, hb, hle⟩
    obtain ⟨v', r, hx, _⟩ := funded_tx_executes h prices tx v units fee bal hu hf hr hw hb hle
    exact ⟨v', r, hx⟩

/-- The gap between `PreExecute` and `Execute` ("Invariant: PreExecute is called just before
Execute ... should never fail for low balance"): `CanDeduct` accepts but the fee step fails
**only** when the fee is zero and the sponsor has no balance record — `GetBalance` reads an
absent record as 0, `Deduct` insists on an existing record. -/
theorem execute_error_after_preexecute_ok (h : Handler) (a : Addr) (v : View) (fee : Nat)
    (hr : has (v.scope (h.key a)) permRead = true)
    (hc : h.canDeduct a v fee = none)
    (hno : ¬ ∃ bal, readBal h v.cur a = some bal ∧ fee ≤ bal) :
    v.cur (h.key a) = none ∧ fee = 0 := by
  cases hk : v.cur (h.key a) with
  | none =>
    refine ⟨rfl, ?_⟩
    have hg : v.get (h.key a) = .error .notfound := by simp [View.get, hr, hk]
    cases h with
    | pfx p => simp [Handler.canDeduct, Handler.getBalance, hg] at hc; omega
    | morpheus => simp [Handler.canDeduct, Handler.getBalance, hg, mInner, Except.map] at hc; omega
  | some x =>
    exfalso
    have hg : v.get (h.key a) = .ok x := by simp [View.get, hr, hk]
    cases hd : decU64 x with
    | none =>
      cases h with
      | pfx p => simp [Handler.canDeduct, Handler.getBalance, hg, hd] at hc
      | morpheus => simp [Handler.canDeduct, Handler.getBalance, hg, mInner, hd, Except.map] at hc
    | some n =>
      apply hno
      refine ⟨n, by simp [readBal, hk, hd], ?_⟩
      cases h with
      | pfx p => simp [Handler.canDeduct, Handler.getBalance, hg, hd] at hc; omega
      | morpheus => simp [Handler.canDeduct, Handler.getBalance, hg, mInner, hd, Except.map] at hc; omega

/-- witness of the gap (known finding `build-aborts-on-zero-fee-absent-sponsor`): all unit prices
0, sponsor without a balance record: `PreExecute` passes, `Execute` returns an error (no result,
nothing charged — the fee is 0), and a builder that streams this transaction aborts the build. -/
def gapTx : Tx := { sponsor := [1], units := some [100, 3, 7, 25, 13], actions := [], timestamp := 30000 }
def gapScope : Key → Nat := fun _ => permAll
def errOf {α : Type} : Except Err α → Option Err
  | .error e => some e
  | .ok _ => none

theorem zero_fee_absent_sponsor_counterexample :
    preExecute {} (.pfx [3]) [0, 0, 0, 0, 0] gapTx { cur := fun _ => none, scope := gapScope } 0 = none ∧
    (txExecute (.pfx [3]) [0, 0, 0, 0, 0] gapTx { cur := fun _ => none, scope := gapScope }).2.toOption.isNone = true ∧
    errOf (builderBlock {} (.pfx [3]) [0, 0, 0, 0, 0] 0 [1000, 1000, 1000, 1000, 1000] [(gapScope, gapTx)]
        ({ parent := fun _ => none }, [0, 0, 0, 0, 0])) = some Err.insufficient := by
  decide +kernel

/-- **C03 (g)** (definitional: true by construction of `Block.commit`; its content is the
*assumption*, discharged by C04's pending = exact-diff invariant and tied by the harness on
`TState.ChangedKeys` and on the real `Processor`/`Builder` post-state, that the real
`TStateView.Commit` behaves like `Block.commit`.)
Block-level layer (view → block diff → parent storage): committing a
transaction publishes exactly the view's visible values — after the commit the block's visible
map *is* the map the transaction left (so every applied effect of a successful transaction,
including re-creating a key an earlier transaction of the block deleted with the value it had
before the block, is visible to the rest of the block and in the block's result); a transaction
that errors leaves the block diff untouched; the parent storage is never modified. -/
theorem commit_publishes (rules : Rules) (h : Handler) (prices : List Nat) (now : Int)
    (scope : Key → Nat) (tx : Tx) (b : Block) :
    (processTxB rules h prices now scope tx b).1.visible =
      (processTx rules h prices now scope tx b.visible).1 ∧
    (processTxB rules h prices now scope tx b).2 = (processTx rules h prices now scope tx b.visible).2 ∧
    (processTxB rules h prices now scope tx b).1.parent = b.parent ∧
    ∀ cur, (b.commit cur).visible = cur :=
  ⟨(processTxB_visible rules h prices now scope tx b).1, (processTxB_visible rules h prices now scope tx b).2.1,
   (processTxB_visible rules h prices now scope tx b).2.2, commit_visible b⟩

/-! ## non-vacuity: concrete executions (one succeeds, one fails after writing) -/

def exKey : Key := [0xaa, 0, 1]
def exSponsor : Addr := [1]
def exStore : Store := upd (upd (fun _ => none) (Handler.morpheus.key exSponsor) (some (encU64 10))) exKey (some [1])
def exView : View := { cur := exStore, scope := fun _ => permAll }
def exA1 : Action := { prog := scriptProg [Step.write exKey [2], Step.read exKey] [] }
def exA2 : Action := { prog := scriptProg [Step.write exKey [2]] [] }
def exA3 : Action := { prog := scriptProg [Step.del exKey, Step.fail] [] }
def exOk : Tx := { sponsor := exSponsor, units := some [1, 1, 1, 1, 1], actions := [exA1] }
def exFail : Tx := { sponsor := exSponsor, units := some [1, 1, 1, 1, 1], actions := [exA2, exA3] }

example : (txExecute .morpheus [2, 2, 2, 2, 2] exOk exView).2.toOption.map (·.success) = some true := by decide +kernel
-- the hypotheses of `funded_tx_executes` are satisfiable (balance 10 = fee 10)
example : readBal .morpheus exView.cur exOk.sponsor = some 10 ∧ feeOf [2, 2, 2, 2, 2] [1, 1, 1, 1, 1] 0 = some 10 ∧
    has (exView.scope (Handler.morpheus.key exOk.sponsor)) permWrite = true := by decide +kernel
example : (txExecute .morpheus [2, 2, 2, 2, 2] exOk exView).1.cur exKey = some [2] := by decide +kernel
example : (txExecute .morpheus [2, 2, 2, 2, 2] exFail exView).2.toOption.map (fun r => (r.success, r.fee, r.outputs.length))
    = some (false, 10, 1) := by decide +kernel
-- failure: the write and the delete are gone, the fee (the whole balance) stays charged
example : (txExecute .morpheus [2, 2, 2, 2, 2] exFail exView).1.cur exKey = some [1] := by decide +kernel
example : (txExecute .morpheus [2, 2, 2, 2, 2] exFail exView).1.cur (Handler.morpheus.key exSponsor) = none := by decide +kernel

end HyperModel.Props.C03
