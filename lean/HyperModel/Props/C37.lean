import HyperModel.Model.DSMR
import HyperModel.Proofs.DSMR
import HyperModel.Props.C35
/-! # C37 A DSMR chain never references an expired or already-included chunk

Model: `HyperModel.DSMR.verify`, `buildBlock`, `accept` and the validity window (`hasRepeat`,
`repeats`, `seenAccept`), transcribing `node.go` with the repair
`/verif/fixes/C37-verify-cert-validity-window.patch` (every certificate must satisfy
`block.ts ≤ expiry ≤ block.ts + window`, in `Verify` and in the builder's filter).

Standing assumption of the ancestor theorems (`Consistent`): a certificate whose aggregate
signature verifies carries the expiry of the chunk it names (the validators sign the
reference `(id, producer, expiry)` of the chunk they were shown; ids are injective in the
content).  It is a property of the trusted warp layer, not of the code under test. -/
namespace HyperModel.Props.C37
open HyperModel.DSMR

def Consistent (cfg : Cfg) : Prop := ∀ c : Cert, c.sigOk = true → c.expiry = (cfg.U c.chunkID).expiry

/-! ## The pieces of `Verify` -/

theorem dupLoop_false : ∀ (l seen : List Nat), dupLoop seen l = false → l.Nodup ∧ ∀ x ∈ l, x ∉ seen := by
  intro l
  induction l with
  | nil => intro seen _; simp
  | cons i r ih =>
    intro seen h
    unfold dupLoop at h
    split at h
    · cases h
    · rename_i hc
      obtain ⟨h1, h2⟩ := ih (i :: seen) h
      refine ⟨List.nodup_cons.2 ⟨fun hi => (h2 i hi) (by simp), h1⟩, ?_⟩
      intro x hx
      rcases List.mem_cons.1 hx with rfl | hx
      · simpa using hc
      · exact fun hs => h2 x hx (by simp [hs])

theorem certCheck_ok (cfg : Cfg) (ts : Nat) : ∀ (certs : List Cert), certCheck cfg ts certs = .ok →
    ∀ c ∈ certs, c.sigOk = true ∧ ts ≤ c.expiry ∧ c.expiry ≤ ts + cfg.window := by
  intro certs
  induction certs with
  | nil => intro _ c hc; cases hc
  | cons d rest ih =>
    intro h c hc
    unfold certCheck at h
    split at h
    · cases h
    · split at h
      · cases h
      · split at h
        · cases h
        · rename_i h1 h2 h3
          rcases List.mem_cons.1 hc with rfl | hc
          · exact ⟨by simpa using h1, by omega, by omega⟩
          · exact ih h c hc

theorem verify_ok_inv (cfg : Cfg) (n : Node) (p b : Block) (h : verify cfg n p b = .ok) :
    b.parent = p.id ∧ b.height = p.height + 1 ∧ p.ts < b.ts ∧ replayCheck cfg n b = .ok ∧
    certCheck cfg b.ts b.certs = .ok := by
  unfold verify at h
  split at h
  · cases h
  · split at h
    · cases h
    · split at h
      · cases h
      · split at h
        · cases h
        · rename_i h1 h2 h3 _
          have h3' : ¬(b.ts ≤ p.ts) := by
            intro hle; apply h3; simp [hle]
          split at h
          · rename_i hr
            exact ⟨by simpa using h1, by simpa using h2, by omega, hr, h⟩
          · rename_i hne
            exact absurd h (by intro e; exact hne e)

theorem replayCheck_ok (cfg : Cfg) (n : Node) (b : Block) (hh : n.lah < b.height)
    (h : replayCheck cfg n b = .ok) :
    dupLoop [] b.ids = false ∧ ∃ p, findBlock n.index b.parent = some p ∧
      hasRepeat n.index n.lah n.seen (b.ts - cfg.window) b.ids (p.height + 1) p = some false := by
  unfold replayCheck at h
  rw [if_neg (by omega)] at h
  split at h
  · cases h
  · rename_i hd
    split at h
    · cases h
    · rename_i p hp
      refine ⟨by simpa using hd, p, hp, ?_⟩
      split at h
      · cases h
      · cases h
      · rename_i hr; exact hr

/-- **C37 (a)** a block that references the same chunk twice does not verify. (Blocks at or
below the last accepted height are never offered to `Verify` by consensus; for them the
replay check is skipped by the code.) -/
theorem verify_rejects_dup_in_block (cfg : Cfg) (n : Node) (parent b : Block)
    (hh : n.lah < b.height) (hd : ¬ b.ids.Nodup) : verify cfg n parent b ≠ .ok := by
  intro h
  obtain ⟨_, _, _, hr, _⟩ := verify_ok_inv cfg n parent b h
  exact hd (dupLoop_false _ _ (replayCheck_ok cfg n b hh hr).1).1

/-- **C37 (c)** a block that references a chunk whose expiry is before the block timestamp
does not verify — at any height, whatever the state of the validity window. -/
theorem verify_rejects_expired (cfg : Cfg) (n : Node) (parent b : Block) (c : Cert)
    (hc : c ∈ b.certs) (he : c.expiry < b.ts) : verify cfg n parent b ≠ .ok := by
  intro h
  obtain ⟨_, _, _, _, hcc⟩ := verify_ok_inv cfg n parent b h
  have := (certCheck_ok cfg b.ts b.certs hcc c hc).2.1
  omega

/-- companion of (c): nor one whose expiry lies beyond the validity window (this is what makes
the bounded ancestor walk sufficient). -/
theorem verify_rejects_future (cfg : Cfg) (n : Node) (parent b : Block) (c : Cert)
    (hc : c ∈ b.certs) (he : b.ts + cfg.window < c.expiry) : verify cfg n parent b ≠ .ok := by
  intro h
  obtain ⟨_, _, _, _, hcc⟩ := verify_ok_inv cfg n parent b h
  have := (certCheck_ok cfg b.ts b.certs hcc c hc).2.2
  omega

/-! ## The ancestor walk -/

/-- `Walk idx lah a l t`: following parent links through the chain index from `a` visits the
processing blocks `l` (heights above the last accepted one, each one lower than the previous,
as `Verify` enforced when they were indexed) and ends at the block `t` at or below the last
accepted height (or genesis). -/
inductive Walk (idx : List Block) (lah : Nat) : Block → List Block → Block → Prop
  | stop (t : Block) : (t.height ≤ lah ∨ t.height = 0) → Walk idx lah t [] t
  | step (a p : Block) (l : List Block) (t : Block) :
      ¬(a.height ≤ lah ∨ a.height = 0) → findBlock idx a.parent = some p → p.height + 1 = a.height →
      Walk idx lah p l t → Walk idx lah a (a :: l) t

theorem walk_len {idx : List Block} {lah : Nat} {a t : Block} {l : List Block}
    (h : Walk idx lah a l t) : l.length ≤ a.height := by
  induction h with
  | stop t _ => simp
  | step a p l t _ _ hh _ ih => simp; omega

theorem hasRepeat_terminal (idx : List Block) (lah : Nat) (seen : EMap) (oldest : Nat) (ids : List Nat)
    (f : Nat) (t : Block) (ht : t.height ≤ lah ∨ t.height = 0) :
    hasRepeat idx lah seen oldest ids (f + 1) t =
      if t.ts < oldest then some false else some (ids.any seen.has) := by
  have : (decide (t.height ≤ lah) || t.height == 0) = true := by
    rcases ht with h | h <;> simp [h]
  simp [hasRepeat, this]

theorem hasRepeat_processing (idx : List Block) (lah : Nat) (seen : EMap) (oldest : Nat) (ids : List Nat)
    (f : Nat) (a : Block) (ha : ¬(a.height ≤ lah ∨ a.height = 0)) (hts : oldest ≤ a.ts) :
    hasRepeat idx lah seen oldest ids (f + 1) a =
      if ids.any (fun i => a.ids.contains i) then some true
      else match findBlock idx a.parent with
        | none => none
        | some p => hasRepeat idx lah seen oldest ids f p := by
  have h1 : ¬ a.ts < oldest := by omega
  have h2 : (decide (a.height ≤ lah) || a.height == 0) = false := by
    have : ¬ a.height ≤ lah ∧ ¬ a.height = 0 := by
      constructor
      · exact fun h => ha (Or.inl h)
      · exact fun h => ha (Or.inr h)
    simp [this.1, this.2]
  conv => lhs; rw [hasRepeat]
  rw [if_neg h1]
  simp only [h2, Bool.false_eq_true, if_false]
  rfl

/-- the walk reports a repeat when a processing ancestor within reach contains one of the ids -/
theorem hasRepeat_found (idx : List Block) (lah : Nat) (seen : EMap) (oldest : Nat) (ids : List Nat)
    (x : Block) (l2 : List Block) (t : Block) (hx : ids.any (fun i => x.ids.contains i) = true)
    (hxt : oldest ≤ x.ts) :
    ∀ (l1 : List Block) (a : Block) (fuel : Nat), Walk idx lah a (l1 ++ x :: l2) t →
      (l1 ++ x :: l2).length < fuel → (∀ y ∈ l1, oldest ≤ y.ts) →
      hasRepeat idx lah seen oldest ids fuel a = some true := by
  intro l1
  induction l1 with
  | nil =>
    intro a fuel hw hf _
    cases hw with
    | step _ p _ _ ha hfind hh hw' =>
      obtain ⟨f, rfl⟩ : ∃ f, fuel = f + 1 := ⟨fuel - 1, by simp at hf; omega⟩
      rw [hasRepeat_processing idx lah seen oldest ids f x ha hxt, if_pos hx]
  | cons y l1 ih =>
    intro a fuel hw hf hts
    cases hw with
    | step _ p _ _ ha hfind hh hw' =>
      obtain ⟨f, rfl⟩ : ∃ f, fuel = f + 1 := ⟨fuel - 1, by simp at hf; omega⟩
      rw [hasRepeat_processing idx lah seen oldest ids f y ha (hts y (by simp))]
      split
      · rfl
      · rw [hfind]
        exact ih p f hw' (by simp at hf ⊢; omega) (fun z hz => hts z (by simp [hz]))

/-- the walk reports a repeat when it reaches the accepted part of the chain and the accepted
set contains one of the ids -/
theorem hasRepeat_seen (idx : List Block) (lah : Nat) (seen : EMap) (oldest : Nat) (ids : List Nat)
    (t : Block) (hs : ids.any seen.has = true) (htt : oldest ≤ t.ts) :
    ∀ (l : List Block) (a : Block) (fuel : Nat), Walk idx lah a l t → l.length < fuel →
      (∀ y ∈ l, oldest ≤ y.ts) → hasRepeat idx lah seen oldest ids fuel a = some true := by
  intro l
  induction l with
  | nil =>
    intro a fuel hw hf _
    cases hw with
    | stop _ ht =>
      obtain ⟨f, rfl⟩ : ∃ f, fuel = f + 1 := ⟨fuel - 1, by simp at hf; omega⟩
      rw [hasRepeat_terminal idx lah seen oldest ids f t ht, if_neg (by omega), hs]
  | cons y l ih =>
    intro a fuel hw hf hts
    cases hw with
    | step _ p _ _ ha hfind hh hw' =>
      obtain ⟨f, rfl⟩ : ∃ f, fuel = f + 1 := ⟨fuel - 1, by simp at hf; omega⟩
      rw [hasRepeat_processing idx lah seen oldest ids f y ha (hts y (by simp))]
      split
      · rfl
      · rw [hfind]
        exact ih p f hw' (by simp at hf ⊢; omega) (fun z hz => hts z (by simp [hz]))

theorem any_ids_of_mem {ids : List Nat} {f : Nat → Bool} {i : Nat} (hi : i ∈ ids) (hf : f i = true) :
    ids.any f = true := List.any_eq_true.2 ⟨i, hi, hf⟩

/-- **C37 (b), processing ancestor** a block that references a chunk already referenced by a
not yet accepted ancestor `x` does not verify, however far up the chain `x` is: `l1` are the
blocks between the block and `x` (timestamps increase along the chain, as `Verify` enforced),
`x` was itself verified (`certCheck` at `x`). -/
theorem verify_rejects_ancestor_dup (cfg : Cfg) (hcons : Consistent cfg) (n : Node) (parent b p0 x t : Block)
    (l1 l2 : List Block) (c c' : Cert)
    (hh : n.lah < b.height)
    (hp : findBlock n.index b.parent = some p0)
    (hw : Walk n.index n.lah p0 (l1 ++ x :: l2) t)
    (hts : ∀ y ∈ l1, x.ts ≤ y.ts)
    (hxv : certCheck cfg x.ts x.certs = .ok)
    (hc' : c' ∈ x.certs) (hc : c ∈ b.certs) (hid : c.chunkID = c'.chunkID) :
    verify cfg n parent b ≠ .ok := by
  intro h
  obtain ⟨_, _, _, hr, hcc⟩ := verify_ok_inv cfg n parent b h
  obtain ⟨_, p, hp', hrep⟩ := replayCheck_ok cfg n b hh hr
  rw [hp] at hp'
  cases hp'
  have hcb := certCheck_ok cfg b.ts b.certs hcc c hc
  have hcx := certCheck_ok cfg x.ts x.certs hxv c' hc'
  have he : c.expiry = c'.expiry := by rw [hcons c hcb.1, hcons c' hcx.1, hid]
  have hold : b.ts - cfg.window ≤ x.ts := by omega
  have hx : b.ids.any (fun i => x.ids.contains i) = true :=
    any_ids_of_mem (i := c.chunkID) (List.mem_map_of_mem hc)
      (by simp only [Block.ids, List.contains_iff_mem]; rw [hid]; exact List.mem_map_of_mem hc')
  have := hasRepeat_found n.index n.lah n.seen (b.ts - cfg.window) b.ids x l2 t hx hold l1 p0 (p0.height + 1) hw
    (by have := walk_len hw; omega) (fun y hy => by have := hts y hy; omega)
  rw [this] at hrep
  cases hrep

/-- **C37 (b), accepted ancestor** if the accepted set still tracks one of the block's chunks
and the walk reaches the accepted part of the chain inside the window, the block does not
verify. (`reach_inv` below shows that the accepted set tracks every accepted, unexpired chunk.) -/
theorem verify_rejects_seen_dup (cfg : Cfg) (n : Node) (parent b p0 t : Block) (l : List Block) (c : Cert)
    (hh : n.lah < b.height)
    (hp : findBlock n.index b.parent = some p0)
    (hw : Walk n.index n.lah p0 l t)
    (hts : ∀ y ∈ l, b.ts - cfg.window ≤ y.ts) (htt : b.ts - cfg.window ≤ t.ts)
    (hc : c ∈ b.certs) (hs : n.seen.has c.chunkID = true) :
    verify cfg n parent b ≠ .ok := by
  intro h
  obtain ⟨_, _, _, hr, _⟩ := verify_ok_inv cfg n parent b h
  obtain ⟨_, p, hp', hrep⟩ := replayCheck_ok cfg n b hh hr
  rw [hp] at hp'
  cases hp'
  have := hasRepeat_seen n.index n.lah n.seen (b.ts - cfg.window) b.ids t
    (any_ids_of_mem (i := c.chunkID) (List.mem_map_of_mem hc) hs) htt l p0 (p0.height + 1) hw
    (by have := walk_len hw; omega) hts
  rw [this] at hrep
  cases hrep

/-! ## The accepted set -/

theorem has_iff (m : EMap) (id : Nat) : m.has id = true ↔ ∃ t, (id, t) ∈ m := by
  simp only [EMap.has, List.any_eq_true, beq_iff_eq]
  constructor
  · rintro ⟨⟨i, t⟩, he, rfl⟩; exact ⟨t, he⟩
  · rintro ⟨t, he⟩; exact ⟨(id, t), he, rfl⟩

theorem mem_add (m : EMap) (id t : Nat) (e : Nat × Nat) (h : e ∈ m.add id t) : e ∈ m ∨ e = (id, t) := by
  unfold EMap.add at h
  split at h
  · exact Or.inl h
  · split at h
    · exact Or.inl h
    · simpa using h

theorem has_add_mono (m : EMap) (id t j : Nat) (h : m.has j = true) : (m.add id t).has j = true := by
  unfold EMap.add
  split
  · exact h
  · split
    · exact h
    · rw [has_iff] at h ⊢
      obtain ⟨u, hu⟩ := h
      exact ⟨u, by simp [hu]⟩

theorem has_add_self (m : EMap) (id t : Nat) (ht : t ≠ 0) : (m.add id t).has id = true := by
  unfold EMap.add
  rw [if_neg ht]
  split
  · assumption
  · rw [has_iff]; exact ⟨t, by simp⟩

def addCerts (m : EMap) (certs : List Cert) : EMap := certs.foldl (fun m c => m.add c.chunkID c.expiry) m

theorem addCerts_mono (certs : List Cert) : ∀ (m : EMap) (j : Nat), m.has j = true → (addCerts m certs).has j = true := by
  induction certs with
  | nil => intro m j h; exact h
  | cons c r ih => intro m j h; exact ih _ j (has_add_mono m _ _ j h)

theorem addCerts_self (certs : List Cert) : ∀ (m : EMap) (c : Cert), c ∈ certs → c.expiry ≠ 0 →
    (addCerts m certs).has c.chunkID = true := by
  induction certs with
  | nil => intro m c hc; cases hc
  | cons d r ih =>
    intro m c hc he
    rcases List.mem_cons.1 hc with rfl | hc
    · exact addCerts_mono r _ _ (has_add_self m _ _ he)
    · exact ih _ c hc he

theorem mem_addCerts (certs : List Cert) : ∀ (m : EMap) (e : Nat × Nat), e ∈ addCerts m certs →
    e ∈ m ∨ ∃ c ∈ certs, e = (c.chunkID, c.expiry) := by
  induction certs with
  | nil => intro m e h; exact Or.inl h
  | cons d r ih =>
    intro m e h
    rcases ih _ e h with h | ⟨c, hc, rfl⟩
    · rcases mem_add m _ _ e h with h | rfl
      · exact Or.inl h
      · exact Or.inr ⟨d, by simp, rfl⟩
    · exact Or.inr ⟨c, by simp [hc], rfl⟩

theorem seenAccept_eq (seen : EMap) (b : Block) :
    seenAccept seen b = addCerts (seen.filter (fun x => decide (b.ts ≤ x.2))) b.certs := rfl

theorem accept_ok_inv (cfg : Cfg) (n n' : Node) (b : Block) (sc : List Resp) (chunks : List Nat)
    (h : accept cfg n b sc = (n', .ok chunks)) :
    n'.seen = seenAccept n.seen b ∧ n'.lah = b.height ∧ n'.last = b ∧ n'.index = n.index := by
  unfold accept at h
  split at h
  · simp at h
  · split at h
    · simp at h
    · simp only [Prod.mk.injEq] at h
      obtain ⟨rfl, _⟩ := h
      exact ⟨rfl, rfl, rfl, rfl⟩

/-! ## Accepted chains -/

/-- States reachable by a node that starts at genesis and accepts, one after the other, blocks
that it verified against its last accepted block (the chain index returning that block for the
parent id); between two accepts the chunk storage and the contents of the chain index change
arbitrarily (chunks and certificates arrive, other blocks are verified, storage is reopened…).
`acc` are the accepted blocks (newest first), `delivered` the chunks handed to execution. -/
inductive Reach (cfg : Cfg) : Node → List Block → List Nat → Prop
  | init : Reach cfg Node.init [] []
  | env (n : Node) (acc : List Block) (d : List Nat) (st' : Storage) (idx' : List Block) :
      Reach cfg n acc d → Reach cfg { n with st := st', index := idx' } acc d
  | accept (n n' : Node) (acc : List Block) (d : List Nat) (b : Block) (sc : List Resp) (chunks : List Nat) :
      Reach cfg n acc d → findBlock n.index b.parent = some n.last → verify cfg n n.last b = .ok →
      accept cfg n b sc = (n', .ok chunks) → Reach cfg n' (b :: acc) (d ++ chunks)

structure HInv (cfg : Cfg) (n : Node) (acc : List Block) (d : List Nat) : Prop where
  ts : ∀ a ∈ acc, a.ts ≤ n.last.ts
  certs : ∀ a ∈ acc, ∀ c ∈ a.certs, c.expiry = (cfg.U c.chunkID).expiry ∧ c.expiry ≤ a.ts + cfg.window
  seenExp : ∀ e ∈ n.seen, e.2 = (cfg.U e.1).expiry
  seen : ∀ a ∈ acc, ∀ c ∈ a.certs, n.last.ts ≤ c.expiry → c.expiry ≠ 0 → n.seen.has c.chunkID = true
  lah : n.lah = n.last.height
  mem : ∀ i, i ∈ d ↔ ∃ a ∈ acc, i ∈ a.ids
  nodup : d.Nodup

theorem reach_inv (cfg : Cfg) (hcons : Consistent cfg) (n : Node) (acc : List Block) (d : List Nat)
    (h : Reach cfg n acc d) : HInv cfg n acc d := by
  induction h with
  | init =>
    exact ⟨by simp, by simp, by simp [Node.init], by simp, rfl, by simp, by simp⟩
  | env n acc d st' idx' _ ih => exact ⟨ih.ts, ih.certs, ih.seenExp, ih.seen, ih.lah, ih.mem, ih.nodup⟩
  | accept n n' acc d b sc chunks _ hfind hv hacc ih =>
    obtain ⟨_, hht, htsb, hr, hcc⟩ := verify_ok_inv cfg n n.last b hv
    have hh : n.lah < b.height := by rw [ih.lah]; omega
    obtain ⟨hdup, p, hp, hrep⟩ := replayCheck_ok cfg n b hh hr
    rw [hfind] at hp
    cases hp
    have hnd : b.ids.Nodup := (dupLoop_false _ _ hdup).1
    have hchunks : chunks = b.ids := C35.accept_chunks_eq_referenced cfg n n' b sc chunks hacc
    obtain ⟨hseen, hlah, hlast, _⟩ := accept_ok_inv cfg n n' b sc chunks hacc
    have hcb := certCheck_ok cfg b.ts b.certs hcc
    rw [hasRepeat_terminal _ _ _ _ _ _ _ (Or.inl (by rw [ih.lah]; exact Nat.le_refl _))] at hrep
    -- no chunk of `b` was delivered before
    have hfresh : ∀ i ∈ b.ids, i ∉ d := by
      intro i hi hd
      obtain ⟨a, ha, hia⟩ := (ih.mem i).1 hd
      obtain ⟨c, hc, rfl⟩ := List.mem_map.1 hi
      obtain ⟨c', hc', hid⟩ := List.mem_map.1 hia
      have h1 := hcb c hc
      have h2 := ih.certs a ha c' hc'
      have he : c.expiry = c'.expiry := by rw [hcons c h1.1, h2.1, hid]
      have h3 := ih.ts a ha
      have hs := ih.seen a ha c' hc' (by omega) (by omega)
      rw [if_neg (by omega)] at hrep
      have : b.ids.any n.seen.has = true :=
        any_ids_of_mem (i := c.chunkID) hi (by rw [← hid]; exact hs)
      rw [this] at hrep
      cases hrep
    refine ⟨?_, ?_, ?_, ?_, by rw [hlah, hlast], ?_, ?_⟩
    · intro a ha
      rw [hlast]
      rcases List.mem_cons.1 ha with rfl | ha
      · exact Nat.le_refl _
      · have := ih.ts a ha; omega
    · intro a ha c hc
      rcases List.mem_cons.1 ha with rfl | ha
      · exact ⟨hcons c (hcb c hc).1, (hcb c hc).2.2⟩
      · exact ih.certs a ha c hc
    · intro e he
      rw [hseen, seenAccept_eq] at he
      rcases mem_addCerts _ _ e he with he | ⟨c, hc, rfl⟩
      · exact ih.seenExp e (List.mem_filter.1 he).1
      · exact hcons c (hcb c hc).1
    · intro a ha c hc hle hne
      rw [hlast] at hle
      rw [hseen, seenAccept_eq]
      rcases List.mem_cons.1 ha with rfl | ha
      · exact addCerts_self _ _ c hc hne
      · apply addCerts_mono
        have h3 := ih.ts a ha
        have hs := ih.seen a ha c hc (by omega) hne
        obtain ⟨t, ht⟩ := (has_iff _ _).1 hs
        have hte := ih.seenExp _ ht
        have hce := (ih.certs a ha c hc).1
        simp only at hte
        exact (has_iff _ _).2 ⟨t, List.mem_filter.2 ⟨ht, by simp; omega⟩⟩
    · intro i
      rw [List.mem_append, ih.mem i, hchunks]
      constructor
      · rintro (⟨a, ha, hi⟩ | hi)
        · exact ⟨a, by simp [ha], hi⟩
        · exact ⟨b, by simp, hi⟩
      · rintro ⟨a, ha, hi⟩
        rcases List.mem_cons.1 ha with rfl | ha
        · exact Or.inr hi
        · exact Or.inl ⟨a, ha, hi⟩
    · rw [hchunks]
      exact List.nodup_append.2 ⟨ih.nodup, hnd, fun x hx y hy e => hfresh y hy (e ▸ hx)⟩

/-- **C37 corollary** along any accepted chain — whatever certificates of whatever expiry are
re-used at later heights and timestamps, before or after the earlier inclusion left the
accepted set — no chunk is handed to execution twice. -/
theorem no_chunk_delivered_twice (cfg : Cfg) (hcons : Consistent cfg) (n : Node) (acc : List Block)
    (d : List Nat) (h : Reach cfg n acc d) : d.Nodup :=
  (reach_inv cfg hcons n acc d h).nodup

/-- the delivered chunks are exactly the chunks referenced by the accepted blocks -/
theorem delivered_eq_referenced (cfg : Cfg) (hcons : Consistent cfg) (n : Node) (acc : List Block)
    (d : List Nat) (h : Reach cfg n acc d) (i : Nat) : i ∈ d ↔ ∃ a ∈ acc, i ∈ a.ids :=
  (reach_inv cfg hcons n acc d h).mem i

/-- **C37 (b), accepted ancestor, full form** a block on top of the last accepted block that
references a chunk of *any* earlier accepted block does not verify. -/
theorem verify_rejects_accepted_ancestor_dup (cfg : Cfg) (hcons : Consistent cfg) (n : Node)
    (acc : List Block) (d : List Nat) (h : Reach cfg n acc d) (b a : Block) (c : Cert)
    (hfind : findBlock n.index b.parent = some n.last)
    (ha : a ∈ acc) (hc : c ∈ b.certs) (hca : c.chunkID ∈ a.ids) :
    verify cfg n n.last b ≠ .ok := by
  intro hv
  have hi := reach_inv cfg hcons n acc d h
  obtain ⟨_, hht, htsb, hr, hcc⟩ := verify_ok_inv cfg n n.last b hv
  have hh : n.lah < b.height := by rw [hi.lah]; omega
  obtain ⟨c', hc', hid⟩ := List.mem_map.1 hca
  have h1 := certCheck_ok cfg b.ts b.certs hcc c hc
  have h2 := hi.certs a ha c' hc'
  have he : c.expiry = c'.expiry := by rw [hcons c h1.1, h2.1, hid]
  have h3 := hi.ts a ha
  have hs := hi.seen a ha c' hc' (by omega) (by omega)
  exact verify_rejects_seen_dup cfg n n.last b n.last n.last [] c hh hfind
    (Walk.stop _ (Or.inl (by rw [hi.lah]; exact Nat.le_refl _))) (by simp) (by omega) hc (by rw [← hid]; exact hs) hv

/-! ## The builder -/

theorem filter_zip_sublist {α β : Type} (p : α × β → Bool) : ∀ (l : List α) (m : List β),
    (((l.zip m).filter p).map (·.1)).Sublist l := by
  intro l
  induction l with
  | nil => intro m; simp
  | cons a r ih =>
    intro m
    cases m with
    | nil => simp
    | cons x m =>
      simp only [List.zip_cons_cons, List.filter_cons]
      split
      · exact (ih m).cons_cons a
      · exact (ih m).cons a

/-- **C37 builder, window and repetition clauses** a block produced by `BuildBlock` references
no expired chunk (nor one beyond the window), and no chunk twice, provided the pending map
holds at most one certificate per chunk id (`SetChunkCert`/`AddLocalChunkWithCert` store a
certificate under the id it names). The ancestor clause is `builder_no_ancestor_dup`. -/
theorem builder_window_and_nodup (cfg : Cfg) (n : Node) (parent : Block) (ts : Nat) (certs : List Cert)
    (hwf : ((gather n.st).map (·.chunkID)).Nodup)
    (h : buildBlock cfg n parent ts = .ok certs) :
    (∀ c ∈ certs, ts ≤ c.expiry ∧ c.expiry ≤ ts + cfg.window) ∧ (certs.map (·.chunkID)).Nodup ∧ certs ≠ [] := by
  unfold buildBlock at h
  split at h
  · cases h
  · simp only at h
    split at h
    · cases h
    · rename_i marker _
      split at h
      · cases h
      · rename_i hne
        simp only [BuildOut.ok.injEq] at h
        subst h
        refine ⟨?_, ?_, by intro e; rw [e] at hne; simp at hne⟩
        · intro c hc
          obtain ⟨⟨c0, m0⟩, hm, rfl⟩ := List.mem_map.1 hc
          have := (List.mem_filter.1 hm).2
          simp only [Bool.not_eq_true', Bool.or_eq_false_iff, decide_eq_false_iff_not] at this
          dsimp only at this ⊢
          omega
        · exact ((filter_zip_sublist _ (gather n.st) marker).map _).nodup hwf

/-! ### The builder's marker (`isRepeat` with `stop = false`) -/

/-- pointwise relation between the gathered ids and their marker bits -/
inductive FA2 (R : Nat → Bool → Prop) : List Nat → List Bool → Prop
  | nil : FA2 R [] []
  | cons {i : Nat} {b : Bool} {is : List Nat} {bs : List Bool} : R i b → FA2 R is bs → FA2 R (i :: is) (b :: bs)

theorem fa_len_step (ids : List Nat) (g : Nat → Bool) : ∀ (m : List Bool),
    FA2 (fun _ _ => True) ids m →
    FA2 (fun _ _ => True) ids (List.zipWith (fun i b => b || g i) ids m) := by
  intro m h
  induction h with
  | nil => exact FA2.nil
  | cons _ _ ih => exact FA2.cons trivial ih

theorem fa_mark_step (ids : List Nat) (g : Nat → Bool) (Q : Nat → Prop) (hg : ∀ i, Q i → g i = true) :
    ∀ (m : List Bool), FA2 (fun _ _ => True) ids m →
    FA2 (fun i b => Q i → b = true) ids (List.zipWith (fun i b => b || g i) ids m) := by
  intro m h
  induction h with
  | nil => exact FA2.nil
  | cons _ _ ih => exact FA2.cons (fun hq => by simp [hg _ hq]) ih

theorem fa_mono_step (ids : List Nat) (g : Nat → Bool) (Q : Nat → Prop) :
    ∀ (m : List Bool), FA2 (fun i b => Q i → b = true) ids m →
    FA2 (fun i b => Q i → b = true) ids (List.zipWith (fun i b => b || g i) ids m) := by
  intro m h
  induction h with
  | nil => exact FA2.nil
  | cons h1 _ ih => exact FA2.cons (fun hq => by simp [h1 hq]) ih

theorem fa_true_of (ids : List Nat) (Q : Nat → Prop) : ∀ (m : List Bool),
    FA2 (fun i b => Q i → b = true) ids m → FA2 (fun _ _ => True) ids m := by
  intro m h
  induction h with
  | nil => exact FA2.nil
  | cons _ _ ih => exact FA2.cons trivial ih

/-- marks only accumulate along the walk -/
theorem repeats_mono (idx : List Block) (lah : Nat) (seen : EMap) (oldest : Nat) (ids : List Nat) (Q : Nat → Prop) :
    ∀ (fuel : Nat) (a : Block) (m1 m : List Bool), repeats idx lah seen oldest ids fuel a m1 = some m →
      FA2 (fun i b => Q i → b = true) ids m1 → FA2 (fun i b => Q i → b = true) ids m := by
  intro fuel
  induction fuel with
  | zero => intro a m1 m h; rw [repeats] at h; cases h
  | succ f ih =>
    intro a m1 m h hq
    rw [repeats] at h
    split at h
    · cases h; exact hq
    · split at h
      · cases h; exact fa_mono_step ids _ Q m1 hq
      · simp only at h
        split at h
        · cases h
        · exact ih _ _ _ h (fa_mono_step ids _ Q m1 hq)

theorem repeats_processing (idx : List Block) (lah : Nat) (seen : EMap) (oldest : Nat) (ids : List Nat)
    (f : Nat) (a : Block) (m1 : List Bool) (ha : ¬(a.height ≤ lah ∨ a.height = 0)) (hts : oldest ≤ a.ts) :
    repeats idx lah seen oldest ids (f + 1) a m1 =
      match findBlock idx a.parent with
      | none => none
      | some p => repeats idx lah seen oldest ids f p (List.zipWith (fun i m => m || a.ids.contains i) ids m1) := by
  have h1 : ¬ a.ts < oldest := by omega
  have h2 : (decide (a.height ≤ lah) || a.height == 0) = false := by
    have : ¬ a.height ≤ lah ∧ ¬ a.height = 0 := ⟨fun h => ha (Or.inl h), fun h => ha (Or.inr h)⟩
    simp [this.1, this.2]
  conv => lhs; rw [repeats]
  rw [if_neg h1]
  simp only [h2, Bool.false_eq_true, if_false]
  rfl

theorem repeats_found (idx : List Block) (lah : Nat) (seen : EMap) (oldest : Nat) (ids : List Nat)
    (x : Block) (l2 : List Block) (t : Block) (hxt : oldest ≤ x.ts) :
    ∀ (l1 : List Block) (a : Block) (fuel : Nat) (m1 m : List Bool), Walk idx lah a (l1 ++ x :: l2) t →
      (l1 ++ x :: l2).length < fuel → (∀ y ∈ l1, oldest ≤ y.ts) →
      FA2 (fun _ _ => True) ids m1 →
      repeats idx lah seen oldest ids fuel a m1 = some m →
      FA2 (fun i b => i ∈ x.ids → b = true) ids m := by
  intro l1
  induction l1 with
  | nil =>
    intro a fuel m1 m hw hf _ hlen h
    cases hw with
    | step _ p _ _ ha hfind hh hw' =>
      obtain ⟨f, rfl⟩ : ∃ f, fuel = f + 1 := ⟨fuel - 1, by simp at hf; omega⟩
      rw [repeats_processing idx lah seen oldest ids f x m1 ha hxt, hfind] at h
      exact repeats_mono idx lah seen oldest ids _ f p _ m h
        (fa_mark_step ids _ _ (fun i hi => by simpa using hi) m1 hlen)
  | cons y l1 ih =>
    intro a fuel m1 m hw hf hts hlen h
    cases hw with
    | step _ p _ _ ha hfind hh hw' =>
      obtain ⟨f, rfl⟩ : ∃ f, fuel = f + 1 := ⟨fuel - 1, by simp at hf; omega⟩
      rw [repeats_processing idx lah seen oldest ids f y m1 ha (hts y (by simp)), hfind] at h
      exact ih p f _ m hw' (by simp at hf ⊢; omega) (fun z hz => hts z (by simp [hz]))
        (fa_len_step ids _ m1 hlen) h

theorem repeats_seen (idx : List Block) (lah : Nat) (seen : EMap) (oldest : Nat) (ids : List Nat)
    (t : Block) (htt : oldest ≤ t.ts) :
    ∀ (l : List Block) (a : Block) (fuel : Nat) (m1 m : List Bool), Walk idx lah a l t → l.length < fuel →
      (∀ y ∈ l, oldest ≤ y.ts) → FA2 (fun _ _ => True) ids m1 →
      repeats idx lah seen oldest ids fuel a m1 = some m →
      FA2 (fun i b => seen.has i = true → b = true) ids m := by
  intro l
  induction l with
  | nil =>
    intro a fuel m1 m hw hf _ hlen h
    cases hw with
    | stop _ ht =>
      obtain ⟨f, rfl⟩ : ∃ f, fuel = f + 1 := ⟨fuel - 1, by simp at hf; omega⟩
      have hterm : (decide (t.height ≤ lah) || t.height == 0) = true := by
        rcases ht with h' | h' <;> simp [h']
      rw [repeats, if_neg (by omega)] at h
      simp only [hterm, if_true, Option.some.injEq] at h
      subst h
      exact fa_mark_step ids _ _ (fun i hi => hi) m1 hlen
  | cons y l ih =>
    intro a fuel m1 m hw hf hts hlen h
    cases hw with
    | step _ p _ _ ha hfind hh hw' =>
      obtain ⟨f, rfl⟩ : ∃ f, fuel = f + 1 := ⟨fuel - 1, by simp at hf; omega⟩
      rw [repeats_processing idx lah seen oldest ids f y m1 ha (hts y (by simp)), hfind] at h
      exact ih p f _ m hw' (by simp at hf ⊢; omega) (fun z hz => hts z (by simp [hz]))
        (fa_len_step ids _ m1 hlen) h

theorem fa_init (ids : List Nat) : FA2 (fun _ _ => True) ids (ids.map fun _ => false) := by
  induction ids with
  | nil => exact FA2.nil
  | cons _ _ ih => exact FA2.cons trivial ih

theorem fa_zip {R : Nat → Bool → Prop} : ∀ (l : List Cert) (m : List Bool),
    FA2 R (l.map (·.chunkID)) m → ∀ c b, (c, b) ∈ l.zip m → R c.chunkID b := by
  intro l
  induction l with
  | nil => intro m _ c b h; simp at h
  | cons d r ih =>
    intro m h c b hm
    cases m with
    | nil => simp at hm
    | cons x m =>
      simp only [List.map_cons] at h
      cases h with
      | cons h1 h2 =>
        simp only [List.zip_cons_cons, List.mem_cons, Prod.mk.injEq] at hm
        rcases hm with ⟨rfl, rfl⟩ | hm
        · exact h1
        · exact ih m h2 c b hm

/-- what `BuildBlock` returned, unfolded -/
theorem buildBlock_ok (cfg : Cfg) (n : Node) (parent : Block) (ts : Nat) (certs : List Cert)
    (h : buildBlock cfg n parent ts = .ok certs) :
    ∃ marker, repeats n.index n.lah n.seen (ts - cfg.window) ((gather n.st).map (·.chunkID)) (parent.height + 1) parent
        (((gather n.st).map (·.chunkID)).map fun _ => false) = some marker ∧ parent.ts < ts ∧
      ∀ c ∈ certs, ts ≤ c.expiry ∧ c.expiry ≤ ts + cfg.window ∧ (c, false) ∈ (gather n.st).zip marker := by
  unfold buildBlock at h
  split at h
  · cases h
  · rename_i hlt
    simp only at h
    split at h
    · cases h
    · rename_i marker hm
      split at h
      · cases h
      · simp only [BuildOut.ok.injEq] at h
        subst h
        refine ⟨marker, hm, by omega, ?_⟩
        intro c hc
        obtain ⟨⟨c0, m0⟩, hmem, rfl⟩ := List.mem_map.1 hc
        have hf := List.mem_filter.1 hmem
        have := hf.2
        simp only [Bool.not_eq_true', Bool.or_eq_false_iff, decide_eq_false_iff_not] at this
        dsimp only at this ⊢
        obtain ⟨⟨h1, h2⟩, h3⟩ := this
        subst h3
        exact ⟨by omega, by omega, hf.1⟩

/-- **C37 builder, ancestor clause** a block produced by `BuildBlock(parent, ts)` references
no chunk of a processing ancestor (`x`, at any distance above the accepted chain, verified when
it was indexed) and no chunk tracked by the accepted set when the walk reaches the accepted
part of the chain inside the window. Certificates held by the storage verify (`SetChunkCert`
checks them; `BuildChunk` stores the aggregate it has just produced). -/
theorem builder_no_ancestor_dup (cfg : Cfg) (hcons : Consistent cfg) (n : Node) (parent : Block) (ts : Nat)
    (certs : List Cert) (hsig : ∀ c ∈ gather n.st, c.sigOk = true)
    (h : buildBlock cfg n parent ts = .ok certs) :
    (∀ (l1 l2 : List Block) (x t : Block) (c c' : Cert), Walk n.index n.lah parent (l1 ++ x :: l2) t →
        (∀ y ∈ l1, x.ts ≤ y.ts) → certCheck cfg x.ts x.certs = .ok → c' ∈ x.certs → c ∈ certs →
        c.chunkID ≠ c'.chunkID) ∧
    (∀ (l : List Block) (t : Block) (c : Cert), Walk n.index n.lah parent l t →
        (∀ y ∈ l, ts - cfg.window ≤ y.ts) → ts - cfg.window ≤ t.ts → c ∈ certs →
        n.seen.has c.chunkID = false) := by
  obtain ⟨marker, hm, _, hc⟩ := buildBlock_ok cfg n parent ts certs h
  constructor
  · intro l1 l2 x t c c' hw hts hxv hc' hcm hid
    obtain ⟨h1, h2, hz⟩ := hc c hcm
    have hcx := certCheck_ok cfg x.ts x.certs hxv c' hc'
    have hcg : c ∈ gather n.st := (List.of_mem_zip hz).1
    have he : c.expiry = c'.expiry := by rw [hcons c (hsig c hcg), hcons c' hcx.1, hid]
    have hfa := repeats_found n.index n.lah n.seen (ts - cfg.window) ((gather n.st).map (·.chunkID)) x l2 t
      (by omega) l1 parent (parent.height + 1) _ marker hw (by have := walk_len hw; omega)
      (fun y hy => by have := hts y hy; omega) (fa_init _) hm
    have := fa_zip (gather n.st) marker hfa c false hz
      (by simp only [Block.ids]; rw [hid]; exact List.mem_map_of_mem hc')
    cases this
  · intro l t c hw hts htt hcm
    obtain ⟨_, _, hz⟩ := hc c hcm
    have hfa := repeats_seen n.index n.lah n.seen (ts - cfg.window) ((gather n.st).map (·.chunkID)) t htt
      l parent (parent.height + 1) _ marker hw (by have := walk_len hw; omega) hts (fa_init _) hm
    have := fa_zip (gather n.st) marker hfa c false hz
    cases hs : n.seen.has c.chunkID with
    | false => rfl
    | true => exact absurd (this hs) (by simp)

/-- **C37 builder** `BuildBlock` never produces a block that `Verify` would have to reject
for one of the three reasons: every certificate is inside its validity window at the block
timestamp, no chunk is referenced twice, and (`builder_no_ancestor_dup`) none is referenced by an
ancestor within reach; on top of the last accepted block of any accepted chain this covers
*every* accepted ancestor. -/
theorem builder_never_produces_such (cfg : Cfg) (hcons : Consistent cfg) (n : Node) (acc : List Block)
    (d : List Nat) (hr : Reach cfg n acc d) (ts : Nat) (certs : List Cert)
    (hwf : ((gather n.st).map (·.chunkID)).Nodup) (hsig : ∀ c ∈ gather n.st, c.sigOk = true)
    (h : buildBlock cfg n n.last ts = .ok certs) :
    (∀ c ∈ certs, ts ≤ c.expiry ∧ c.expiry ≤ ts + cfg.window) ∧ (certs.map (·.chunkID)).Nodup ∧
    (∀ c ∈ certs, c.chunkID ∉ d) := by
  obtain ⟨h1, h2, _⟩ := builder_window_and_nodup cfg n n.last ts certs hwf h
  refine ⟨h1, h2, ?_⟩
  intro c hc hd
  have hi := reach_inv cfg hcons n acc d hr
  obtain ⟨a, ha, hia⟩ := (hi.mem _).1 hd
  obtain ⟨c', hc', hid⟩ := List.mem_map.1 hia
  obtain ⟨_, _, hlt, hcs⟩ := buildBlock_ok cfg n n.last ts certs h
  obtain ⟨_, _, hz⟩ := hcs c hc
  have hcg : c ∈ gather n.st := (List.of_mem_zip hz).1
  have hb := h1 c hc
  have h2' := hi.certs a ha c' hc'
  have he : c.expiry = c'.expiry := by rw [hcons c (hsig c hcg), h2'.1, hid]
  have h3 := hi.ts a ha
  have hs := hi.seen a ha c' hc' (by omega) (by omega)
  have := (builder_no_ancestor_dup cfg hcons n n.last ts certs hsig h).2 [] n.last c
    (Walk.stop _ (Or.inl (by rw [hi.lah]; exact Nat.le_refl _))) (by simp) (by omega) hc
  rw [hid, this] at hs
  cases hs

/-! ## Non-vacuity: the chain that broke the unrepaired code -/
def exCfg : Cfg := { U := fun i => ⟨1, if i = 4 then 10 else 12, 100, true⟩, window := 5, limit := 1000000, maxSkew := 30 }
def c4 : Cert := ⟨4, 10, true⟩
def c8 : Cert := ⟨8, 12, true⟩
def b1 : Block := ⟨1, 0, 1, 8, [c4]⟩
def b2 : Block := ⟨2, 1, 2, 11, [c8]⟩
def b3 : Block := ⟨3, 2, 3, 12, [c4]⟩
def n0 : Node := { Node.init with st := putVerified exCfg (putVerified exCfg Storage.empty 4 (some c4)) 8 (some c8) }
def n1 : Node := { (accept exCfg n0 b1 []).1 with index := [genesis, b1] }
def n2 : Node := { (accept exCfg n1 b2 []).1 with index := [genesis, b1, b2] }

example : verify exCfg n0 genesis b1 = .ok := by decide
example : (accept exCfg n0 b1 []).2 = .ok [4] := by decide
example : verify exCfg n1 b1 b2 = .ok := by decide
example : (accept exCfg n1 b2 []).2 = .ok [8] := by decide
/-- chunk 4 has left the accepted set at timestamp 11 … -/
example : n2.seen.has 4 = false := by decide
/-- … and the repaired `Verify` rejects its re-inclusion at 12 because it has expired -/
example : verify exCfg n2 b2 b3 = .expired := by decide
example : Consistent exCfg → True := fun _ => trivial
example : ¬ (verify exCfg n1 b1 ⟨9, 1, 2, 9, [c4]⟩ = .ok) := by decide

end HyperModel.Props.C37
