import HyperModel.Model.DSMR
import HyperModel.Proofs.DSMR
import HyperModel.Props.C35
/-! # C37 A DSMR chain never references an expired or already-included chunk

Model: `HyperModel.DSMR.verify`, `buildBlock`, `accept` and the validity window (`hasRepeat`,
`repeats`, `seenAccept`), transcribing `node.go` with the repair
`/verif/fixes/C37-verify-cert-validity-window.patch` (every certificate must satisfy
`block.ts ≤ expiry ≤ block.ts + window`, in `Verify` and in the builder's filter).

Certificates and expiries.  The ancestor theorems need that two certificates naming the same
chunk carry the same expiry.  They are stated
* for **literal certificate reuse** (`… = c'.expiry` as a hypothesis about the two certificates
  involved, resp. `LiteralReuse` over the certificates that occur in the history) — this is what
  the property quantifies over and needs no assumption about signers;
* in the stronger **`ConsistentOn`** form (every *occurring* certificate whose signature verifies
  carries the expiry of the chunk it names).  The code does **not** enforce this:
  `ChunkSignatureRequestVerifier.Verify` ignores the message it is asked to sign, so validators
  sign any reference given any valid chunk (`signReq`, known finding
  `validator-signs-reference-not-matching-chunk`, `c37_signs_mismatching_reference`,
  `c37_forged_certificate_delivered_twice`).  With the check of
  `fixes/C37-verify-signed-message-matches-chunk.*.patch` (`cfg.checksMessage`) it is a
  consequence of "signed by a validator running this code" (`signed_reference_consistent`). -/
namespace HyperModel.Props.C37
open HyperModel.DSMR

/-! ## The pieces of `Verify` -/

theorem dupLoop_false : ∀ (l seen : List Nat), dupLoop seen l = false → l.Nodup ∧ ∀ x ∈ l, x ∉ seen := by
  intro l
  induction l with
  | nil => intro seen _; simp
  | cons i r ih =>
    intro seen h
    unfold dupLoop at h
    split at h
    · cases h
    · rename_i hc
      obtain ⟨h1, h2⟩ := ih (i :: seen) h
      refine ⟨List.nodup_cons.2 ⟨fun hi => (h2 i hi) (by simp), h1⟩, ?_⟩
      intro x hx
      rcases List.mem_cons.1 hx with rfl | hx
      · simpa using hc
      · exact fun hs => h2 x hx (by simp [hs])

theorem certCheck_ok (cfg : Cfg) (ts : Nat) : ∀ (certs : List Cert), certCheck cfg ts certs = .ok →
    ∀ c ∈ certs, c.sigOk = true ∧ ts ≤ c.expiry ∧ c.expiry ≤ ts + cfg.window := by
  intro certs
  induction certs with
  | nil => intro _ c hc; cases hc
  | cons d rest ih =>
    intro h c hc
    unfold certCheck at h
    split at h
    · cases h
    · split at h
      · cases h
      · split at h
        · cases h
        · rename_i h1 h2 h3
          rcases List.mem_cons.1 hc with rfl | hc
          · exact ⟨by simpa using h1, by omega, by omega⟩
          · exact ih h c hc

theorem verify_ok_inv (cfg : Cfg) (n : Node) (p b : Block) (h : verify cfg n p b = .ok) :
    b.parent = p.id ∧ b.height = p.height + 1 ∧ p.ts < b.ts ∧ replayCheck cfg n b = .ok ∧
    certCheck cfg b.ts b.certs = .ok := by
  unfold verify at h
  split at h
  · cases h
  · split at h
    · cases h
    · split at h
      · cases h
      · split at h
        · cases h
        · rename_i h1 h2 h3 _
          have h3' : ¬(b.ts ≤ p.ts) := by
            intro hle; apply h3; simp [hle]
          split at h
          · rename_i hr
            exact ⟨by simpa using h1, by simpa using h2, by omega, hr, h⟩
          · rename_i hne
            exact absurd h (by intro e; exact hne e)

theorem replayCheck_ok (cfg : Cfg) (n : Node) (b : Block) (hh : n.lah < b.height)
    (h : replayCheck cfg n b = .ok) :
    dupLoop [] b.ids = false ∧ ∃ p, findBlock n.index b.parent = some p ∧
      hasRepeat n.index n.lah n.seen (b.ts - cfg.window) b.ids (p.height + 1) p = some false := by
  unfold replayCheck at h
  rw [if_neg (by omega)] at h
  split at h
  · cases h
  · rename_i hd
    split at h
    · cases h
    · rename_i p hp
      refine ⟨by simpa using hd, p, hp, ?_⟩
      split at h
      · cases h
      · cases h
      · rename_i hr; exact hr

/-- **C37 (a)** a block that references the same chunk twice does not verify. (Blocks at or
below the last accepted height are never offered to `Verify` by consensus; for them the
replay check is skipped by the code.) -/
theorem verify_rejects_dup_in_block (cfg : Cfg) (n : Node) (parent b : Block)
    (hh : n.lah < b.height) (hd : ¬ b.ids.Nodup) : verify cfg n parent b ≠ .ok := by
  intro h
  obtain ⟨_, _, _, hr, _⟩ := verify_ok_inv cfg n parent b h
  exact hd (dupLoop_false _ _ (replayCheck_ok cfg n b hh hr).1).1

/-- **C37 (c)** a block that references a chunk whose expiry is before the block timestamp
does not verify — at any height, whatever the state of the validity window. -/
theorem verify_rejects_expired (cfg : Cfg) (n : Node) (parent b : Block) (c : Cert)
    (hc : c ∈ b.certs) (he : c.expiry < b.ts) : verify cfg n parent b ≠ .ok := by
  intro h
  obtain ⟨_, _, _, _, hcc⟩ := verify_ok_inv cfg n parent b h
  have := (certCheck_ok cfg b.ts b.certs hcc c hc).2.1
  omega

/-- companion of (c): nor one whose expiry lies beyond the validity window (this is what makes
the bounded ancestor walk sufficient). -/
theorem verify_rejects_future (cfg : Cfg) (n : Node) (parent b : Block) (c : Cert)
    (hc : c ∈ b.certs) (he : b.ts + cfg.window < c.expiry) : verify cfg n parent b ≠ .ok := by
  intro h
  obtain ⟨_, _, _, _, hcc⟩ := verify_ok_inv cfg n parent b h
  have := (certCheck_ok cfg b.ts b.certs hcc c hc).2.2
  omega

/-! ## The ancestor walk -/

/-- `Walk idx lah a l t`: following parent links through the chain index from `a` visits the
processing blocks `l` (heights above the last accepted one, each one lower than the previous,
as `Verify` enforced when they were indexed) and ends at the block `t` at or below the last
accepted height (or genesis). -/
inductive Walk (idx : List Block) (lah : Nat) : Block → List Block → Block → Prop
  | stop (t : Block) : (t.height ≤ lah ∨ t.height = 0) → Walk idx lah t [] t
  | step (a p : Block) (l : List Block) (t : Block) :
      ¬(a.height ≤ lah ∨ a.height = 0) → findBlock idx a.parent = some p → p.height + 1 = a.height →
      Walk idx lah p l t → Walk idx lah a (a :: l) t

theorem walk_len {idx : List Block} {lah : Nat} {a t : Block} {l : List Block}
    (h : Walk idx lah a l t) : l.length ≤ a.height := by
  induction h with
  | stop t _ => simp
  | step a p l t _ _ hh _ ih => simp; omega

theorem hasRepeat_terminal (idx : List Block) (lah : Nat) (seen : EMap) (oldest : Nat) (ids : List Nat)
    (f : Nat) (t : Block) (ht : t.height ≤ lah ∨ t.height = 0) :
    hasRepeat idx lah seen oldest ids (f + 1) t =
      if t.ts < oldest then some false else some (ids.any seen.has) := by
  have : (decide (t.height ≤ lah) || t.height == 0) = true := by
    rcases ht with h | h <;> simp [h]
  simp [hasRepeat, this]

theorem hasRepeat_processing (idx : List Block) (lah : Nat) (seen : EMap) (oldest : Nat) (ids : List Nat)
    (f : Nat) (a : Block) (ha : ¬(a.height ≤ lah ∨ a.height = 0)) (hts : oldest ≤ a.ts) :
    hasRepeat idx lah seen oldest ids (f + 1) a =
      if ids.any (fun i => a.ids.contains i) then some true
      else match findBlock idx a.parent with
        | none => none
        | some p => hasRepeat idx lah seen oldest ids f p := by
  have h1 : ¬ a.ts < oldest := by omega
  have h2 : (decide (a.height ≤ lah) || a.height == 0) = false := by
    have : ¬ a.height ≤ lah ∧ ¬ a.height = 0 := by
      constructor
      · exact fun h => ha (Or.inl h)
      · exact fun h => ha (Or.inr h)
    simp [this.1, this.2]
  conv => lhs; rw [hasRepeat]
  rw [if_neg h1]
  simp only [h2, Bool.false_eq_true, if_false]
  rfl

/-- the walk reports a repeat when a processing ancestor within reach contains one of the ids -/
theorem hasRepeat_found (idx : List Block) (lah : Nat) (seen : EMap) (oldest : Nat) (ids : List Nat)
    (x : Block) (l2 : List Block) (t : Block) (hx : ids.any (fun i => x.ids.contains i) = true)
    (hxt : oldest ≤ x.ts) :
    ∀ (l1 : List Block) (a : Block) (fuel : Nat), Walk idx lah a (l1 ++ x :: l2) t →
      (l1 ++ x :: l2).length < fuel → (∀ y ∈ l1, oldest ≤ y.ts) →
      hasRepeat idx lah seen oldest ids fuel a = some true := by
  intro l1
  induction l1 with
  | nil =>
    intro a fuel hw hf _
    cases hw with
    | step _ p _ _ ha hfind hh hw' =>
      obtain ⟨f, rfl⟩ : ∃ f, fuel = f + 1 := ⟨fuel - 1, by simp at hf; omega⟩
      rw [hasRepeat_processing idx lah seen oldest ids f x ha hxt, if_pos hx]
  | cons y l1 ih =>
    intro a fuel hw hf hts
    cases hw with
    | step _ p _ _ ha hfind hh hw' =>
      obtain ⟨f, rfl⟩ : ∃ f, fuel = f + 1 := ⟨fuel - 1, by simp at hf; omega⟩
      rw [hasRepeat_processing idx lah seen oldest ids f y ha (hts y (by simp))]
      split
      · rfl
      · rw [hfind]
        exact ih p f hw' (by simp at hf ⊢; omega) (fun z hz => hts z (by simp [hz]))

/-- the walk reports a repeat when it reaches the accepted part of the chain and the accepted
set contains one of the ids -/
theorem hasRepeat_seen (idx : List Block) (lah : Nat) (seen : EMap) (oldest : Nat) (ids : List Nat)
    (t : Block) (hs : ids.any seen.has = true) (htt : oldest ≤ t.ts) :
    ∀ (l : List Block) (a : Block) (fuel : Nat), Walk idx lah a l t → l.length < fuel →
      (∀ y ∈ l, oldest ≤ y.ts) → hasRepeat idx lah seen oldest ids fuel a = some true := by
  intro l
  induction l with
  | nil =>
    intro a fuel hw hf _
    cases hw with
    | stop _ ht =>
      obtain ⟨f, rfl⟩ : ∃ f, fuel = f + 1 := ⟨fuel - 1, by simp at hf; omega⟩
      rw [hasRepeat_terminal idx lah seen oldest ids f t ht, if_neg (by omega), hs]
  | cons y l ih =>
    intro a fuel hw hf hts
    cases hw with
    | step _ p _ _ ha hfind hh hw' =>
      obtain ⟨f, rfl⟩ : ∃ f, fuel = f + 1 := ⟨fuel - 1, by simp at hf; omega⟩
      rw [hasRepeat_processing idx lah seen oldest ids f y ha (hts y (by simp))]
      split
      · rfl
      · rw [hfind]
        exact ih p f hw' (by simp at hf ⊢; omega) (fun z hz => hts z (by simp [hz]))

theorem any_ids_of_mem {ids : List Nat} {f : Nat → Bool} {i : Nat} (hi : i ∈ ids) (hf : f i = true) :
    ids.any f = true := List.any_eq_true.2 ⟨i, hi, hf⟩

/-- **C37 (b), processing ancestor** a block that references a chunk already referenced by a
not yet accepted ancestor `x` does not verify, however far up the chain `x` is: `l1` are the
blocks between the block and `x` (timestamps increase along the chain, as `Verify` enforced),
`x` was itself verified (`certCheck` at `x`); `c` re-uses the certificate `c'` (same chunk,
same expiry). -/
theorem verify_rejects_ancestor_dup (cfg : Cfg) (n : Node) (parent b p0 x t : Block)
    (l1 l2 : List Block) (c c' : Cert)
    (hh : n.lah < b.height)
    (hp : findBlock n.index b.parent = some p0)
    (hw : Walk n.index n.lah p0 (l1 ++ x :: l2) t)
    (hts : ∀ y ∈ l1, x.ts ≤ y.ts)
    (hxv : certCheck cfg x.ts x.certs = .ok)
    (hc' : c' ∈ x.certs) (hc : c ∈ b.certs) (hid : c.chunkID = c'.chunkID) (he : c.expiry = c'.expiry) :
    verify cfg n parent b ≠ .ok := by
  intro h
  obtain ⟨_, _, _, hr, hcc⟩ := verify_ok_inv cfg n parent b h
  obtain ⟨_, p, hp', hrep⟩ := replayCheck_ok cfg n b hh hr
  rw [hp] at hp'
  cases hp'
  have hcb := certCheck_ok cfg b.ts b.certs hcc c hc
  have hcx := certCheck_ok cfg x.ts x.certs hxv c' hc'
  have hold : b.ts - cfg.window ≤ x.ts := by omega
  have hx : b.ids.any (fun i => x.ids.contains i) = true :=
    any_ids_of_mem (i := c.chunkID) (List.mem_map_of_mem hc)
      (by simp only [Block.ids, List.contains_iff_mem]; rw [hid]; exact List.mem_map_of_mem hc')
  have := hasRepeat_found n.index n.lah n.seen (b.ts - cfg.window) b.ids x l2 t hx hold l1 p0 (p0.height + 1) hw
    (by have := walk_len hw; omega) (fun y hy => by have := hts y hy; omega)
  rw [this] at hrep
  cases hrep

/-- **C37 (b), accepted ancestor** if the accepted set still tracks one of the block's chunks
and the walk reaches the accepted part of the chain inside the window, the block does not
verify. (`reach_inv` below shows that the accepted set tracks every accepted, unexpired chunk.) -/
theorem verify_rejects_seen_dup (cfg : Cfg) (n : Node) (parent b p0 t : Block) (l : List Block) (c : Cert)
    (hh : n.lah < b.height)
    (hp : findBlock n.index b.parent = some p0)
    (hw : Walk n.index n.lah p0 l t)
    (hts : ∀ y ∈ l, b.ts - cfg.window ≤ y.ts) (htt : b.ts - cfg.window ≤ t.ts)
    (hc : c ∈ b.certs) (hs : n.seen.has c.chunkID = true) :
    verify cfg n parent b ≠ .ok := by
  intro h
  obtain ⟨_, _, _, hr, _⟩ := verify_ok_inv cfg n parent b h
  obtain ⟨_, p, hp', hrep⟩ := replayCheck_ok cfg n b hh hr
  rw [hp] at hp'
  cases hp'
  have := hasRepeat_seen n.index n.lah n.seen (b.ts - cfg.window) b.ids t
    (any_ids_of_mem (i := c.chunkID) (List.mem_map_of_mem hc) hs) htt l p0 (p0.height + 1) hw
    (by have := walk_len hw; omega) hts
  rw [this] at hrep
  cases hrep

/-! ## The accepted set -/

theorem has_iff (m : EMap) (id : Nat) : m.has id = true ↔ ∃ t, (id, t) ∈ m := by
  simp only [EMap.has, List.any_eq_true, beq_iff_eq]
  constructor
  · rintro ⟨⟨i, t⟩, he, rfl⟩; exact ⟨t, he⟩
  · rintro ⟨t, he⟩; exact ⟨(id, t), he, rfl⟩

theorem mem_add (m : EMap) (id t : Nat) (e : Nat × Nat) (h : e ∈ m.add id t) : e ∈ m ∨ e = (id, t) := by
  unfold EMap.add at h
  split at h
  · exact Or.inl h
  · split at h
    · exact Or.inl h
    · simpa using h

theorem has_add_mono (m : EMap) (id t j : Nat) (h : m.has j = true) : (m.add id t).has j = true := by
  unfold EMap.add
  split
  · exact h
  · split
    · exact h
    · rw [has_iff] at h ⊢
      obtain ⟨u, hu⟩ := h
      exact ⟨u, by simp [hu]⟩

theorem has_add_self (m : EMap) (id t : Nat) (ht : t ≠ 0) : (m.add id t).has id = true := by
  unfold EMap.add
  rw [if_neg ht]
  split
  · assumption
  · rw [has_iff]; exact ⟨t, by simp⟩

def addCerts (m : EMap) (certs : List Cert) : EMap := certs.foldl (fun m c => m.add c.chunkID c.expiry) m

theorem addCerts_mono (certs : List Cert) : ∀ (m : EMap) (j : Nat), m.has j = true → (addCerts m certs).has j = true := by
  induction certs with
  | nil => intro m j h; exact h
  | cons c r ih => intro m j h; exact ih _ j (has_add_mono m _ _ j h)

theorem addCerts_self (certs : List Cert) : ∀ (m : EMap) (c : Cert), c ∈ certs → c.expiry ≠ 0 →
    (addCerts m certs).has c.chunkID = true := by
  induction certs with
  | nil => intro m c hc; cases hc
  | cons d r ih =>
    intro m c hc he
    rcases List.mem_cons.1 hc with rfl | hc
    · exact addCerts_mono r _ _ (has_add_self m _ _ he)
    · exact ih _ c hc he

theorem mem_addCerts (certs : List Cert) : ∀ (m : EMap) (e : Nat × Nat), e ∈ addCerts m certs →
    e ∈ m ∨ ∃ c ∈ certs, e = (c.chunkID, c.expiry) := by
  induction certs with
  | nil => intro m e h; exact Or.inl h
  | cons d r ih =>
    intro m e h
    rcases ih _ e h with h | ⟨c, hc, rfl⟩
    · rcases mem_add m _ _ e h with h | rfl
      · exact Or.inl h
      · exact Or.inr ⟨d, by simp, rfl⟩
    · exact Or.inr ⟨c, by simp [hc], rfl⟩

theorem seenAccept_eq (seen : EMap) (b : Block) :
    seenAccept seen b = addCerts (seen.filter (fun x => decide (b.ts ≤ x.2))) b.certs := rfl

theorem accept_ok_inv (cfg : Cfg) (n n' : Node) (b : Block) (sc : List Resp) (chunks : List Nat)
    (h : accept cfg n b sc = (n', .ok chunks)) :
    n'.seen = seenAccept n.seen b ∧ n'.lah = b.height ∧ n'.last = b ∧ n'.index = n.index := by
  unfold accept at h
  split at h
  · simp at h
  · split at h
    · simp at h
    · simp only [Prod.mk.injEq] at h
      obtain ⟨rfl, _⟩ := h
      exact ⟨rfl, rfl, rfl, rfl⟩

/-! ## Verified and accepted chains -/

/-- `Good b rest`: block `b` on top of the chain `rest` (its ancestors, newest first, down to but
excluding genesis) is one that `Verify` has to accept as far as C37 is concerned. -/
def Good (cfg : Cfg) (b : Block) (rest : List Block) : Prop :=
  b.ids.Nodup ∧ (∀ a ∈ rest, ∀ i ∈ b.ids, i ∉ a.ids) ∧ certCheck cfg b.ts b.certs = .ok ∧
  (∀ a ∈ rest, a.ts < b.ts) ∧ 0 < b.ts

def GoodChain (cfg : Cfg) : List Block → Prop
  | [] => True
  | b :: rest => Good cfg b rest ∧ GoodChain cfg rest

theorem goodChain_suffix (cfg : Cfg) : ∀ (l r : List Block), GoodChain cfg (l ++ r) → GoodChain cfg r := by
  intro l
  induction l with
  | nil => intro r h; exact h
  | cons _ _ ih => intro r h; exact ih r h.2

theorem goodChain_mem (cfg : Cfg) : ∀ (ch : List Block), GoodChain cfg ch → ∀ a ∈ ch,
    certCheck cfg a.ts a.certs = .ok := by
  intro ch
  induction ch with
  | nil => intro _ a ha; cases ha
  | cons b rest ih =>
    intro h a ha
    rcases List.mem_cons.1 ha with rfl | ha
    · exact h.1.2.2.1
    · exact ih h.2 a ha

/-- timestamps strictly decrease down a good chain -/
theorem goodChain_ts (cfg : Cfg) : ∀ (l : List Block) (a : Block) (r : List Block),
    GoodChain cfg (l ++ a :: r) → ∀ y ∈ l, a.ts < y.ts := by
  intro l
  induction l with
  | nil => intro a r _ y hy; cases hy
  | cons z l ih =>
    intro a r h y hy
    rcases List.mem_cons.1 hy with rfl | hy
    · exact h.1.2.2.2.1 a (by simp)
    · exact ih a r h.2 y hy

theorem goodChain_ts' (cfg : Cfg) (l r : List Block) (h : GoodChain cfg (l ++ r)) :
    ∀ y ∈ l, ∀ a ∈ r, a.ts < y.ts := by
  intro y hy a ha
  obtain ⟨r1, r2, rfl⟩ := List.append_of_mem ha
  have : l ++ (r1 ++ a :: r2) = (l ++ r1) ++ a :: r2 := by simp
  rw [this] at h
  exact goodChain_ts cfg (l ++ r1) a r2 h y (by simp [hy])

/-- what the node knows about every chunk id: the expiry `E id` of "the" certificate of `id` -/
def Agree (E : Nat → Nat) (chains : List (List Block)) : Prop :=
  ∀ ch ∈ chains, ∀ a ∈ ch, ∀ c ∈ a.certs, c.sigOk = true → c.expiry = E c.chunkID

/-- States reachable by a node that starts at genesis and, in any order,
* `verify`: verifies a block `b` whose parent `p` is the last accepted block (`l = []`) or the
  head of a chain `l ++ acc` of blocks it verified earlier (`l`: the not yet accepted ones; the
  chain index serves them: `Walk`), and remembers the verified chain `b :: (l ++ acc)`;
* `accept`: accepts a block verified **at any earlier time** — possibly when some of its
  ancestors were still processing — whose parent is the last accepted block, *without verifying
  it again*;
* `env`: in between the chunk storage and the contents of the chain index change arbitrarily
  (chunks and certificates arrive, storage is reopened, blocks are indexed …).
`acc` are the accepted blocks (newest first), `d` the chunks handed to execution, `V` the verified
chains. -/
inductive Reach (cfg : Cfg) : Node → List Block → List Nat → List (List Block) → Prop
  | init : Reach cfg Node.init [] [] []
  | env (n : Node) (acc : List Block) (d : List Nat) (V : List (List Block)) (st' : Storage) (idx' : List Block) :
      Reach cfg n acc d V → Reach cfg { n with st := st', index := idx' } acc d V
  | verify (n : Node) (acc : List Block) (d : List Nat) (V : List (List Block)) (b p : Block) (l : List Block) :
      Reach cfg n acc d V → findBlock n.index b.parent = some p → Walk n.index n.lah p l n.last →
      (l = [] ∨ (l ++ acc) ∈ V) → verify cfg n p b = .ok →
      Reach cfg n acc d ((b :: (l ++ acc)) :: V)
  | accept (n n' : Node) (acc : List Block) (d : List Nat) (V : List (List Block)) (b : Block) (sc : List Resp)
      (chunks : List Nat) :
      Reach cfg n acc d V → (b :: acc) ∈ V → accept cfg n b sc = (n', .ok chunks) →
      Reach cfg n' (b :: acc) (d ++ chunks) V

structure HInv (cfg : Cfg) (E : Nat → Nat) (n : Node) (acc : List Block) (d : List Nat) (V : List (List Block)) : Prop where
  ts : ∀ a ∈ acc, a.ts ≤ n.last.ts
  seenExp : ∀ e ∈ n.seen, e.2 = E e.1
  seen : ∀ a ∈ acc, ∀ c ∈ a.certs, n.last.ts ≤ c.expiry → c.expiry ≠ 0 → n.seen.has c.chunkID = true
  lah : n.lah = n.last.height
  lastMem : acc = [] ∨ n.last ∈ acc
  accIn : acc = [] ∨ acc ∈ V
  good : GoodChain cfg acc
  goodV : ∀ ch ∈ V, GoodChain cfg ch
  mem : ∀ i, i ∈ d ↔ ∃ a ∈ acc, i ∈ a.ids
  nodup : d.Nodup

theorem walk_cases {idx : List Block} {lah : Nat} {p t : Block} {l : List Block} (h : Walk idx lah p l t) :
    (l = [] ∧ p = t) ∨ (∃ l', l = p :: l' ∧ ¬(p.height ≤ lah ∨ p.height = 0)) := by
  cases h with
  | stop _ _ => exact Or.inl ⟨rfl, rfl⟩
  | step _ _ l' _ h1 _ _ _ => exact Or.inr ⟨l', rfl, h1⟩

/-- **C37 (b), combined** in a reachable state, a block `b` that verifies on a parent `p` —
the accepted tip or the head of a chain `l` of verified, still processing blocks — references
each chunk once and *no chunk of any ancestor*: neither of a processing one (`l`, at any
distance) nor of an accepted one (`acc`, however long ago, whether or not it is still in the
accepted set), and all its certificates are inside their validity window. -/
theorem verify_sound (cfg : Cfg) (E : Nat → Nat) (n : Node) (acc : List Block) (d : List Nat) (V : List (List Block))
    (hi : HInv cfg E n acc d V) (b p : Block) (l : List Block)
    (hE : Agree E ((b :: (l ++ acc)) :: V))
    (hfind : findBlock n.index b.parent = some p) (hw : Walk n.index n.lah p l n.last)
    (hl : l = [] ∨ (l ++ acc) ∈ V) (hv : verify cfg n p b = .ok) : Good cfg b (l ++ acc) := by
  obtain ⟨_, hht, htsb, hr, hcc⟩ := verify_ok_inv cfg n p b hv
  have hgl : GoodChain cfg (l ++ acc) := by
    rcases hl with rfl | h
    · simpa using hi.good
    · exact hi.goodV _ h
  have hph : n.lah ≤ p.height := by
    rcases walk_cases hw with ⟨_, rfl⟩ | ⟨_, _, hnt⟩
    · rw [hi.lah]; exact Nat.le_refl _
    · exact Nat.le_of_lt (Nat.lt_of_not_le (fun h => hnt (Or.inl h)))
  have hh : n.lah < b.height := by omega
  obtain ⟨hdup, p', hp', hrep⟩ := replayCheck_ok cfg n b hh hr
  rw [hfind] at hp'
  cases hp'
  have hcb := certCheck_ok cfg b.ts b.certs hcc
  -- every ancestor is at most as recent as the parent
  have hpts : ∀ a ∈ l ++ acc, a.ts ≤ p.ts := by
    intro a ha
    rcases walk_cases hw with ⟨rfl, rfl⟩ | ⟨l', rfl, _⟩
    · exact hi.ts a (by simpa using ha)
    · have ha2 : a = p ∨ a ∈ l' ++ acc := by simpa using ha
      rcases ha2 with rfl | ha'
      · exact Nat.le_refl _
      · exact Nat.le_of_lt (hgl.1.2.2.2.1 a ha')
  have hself : ∀ a ∈ l ++ acc, ∀ c' ∈ a.certs, ∀ c ∈ b.certs, c.chunkID = c'.chunkID →
      c.expiry = c'.expiry ∧ c'.expiry ≤ a.ts + cfg.window := by
    intro a ha c' hc' c hc hid
    have hca := certCheck_ok cfg a.ts a.certs (goodChain_mem cfg _ hgl a ha) c' hc'
    have e1 := hE (b :: (l ++ acc)) List.mem_cons_self b List.mem_cons_self c hc (hcb c hc).1
    have e2 := hE (b :: (l ++ acc)) List.mem_cons_self a (List.mem_cons_of_mem _ ha) c' hc' hca.1
    exact ⟨by rw [e1, e2, hid], hca.2.2⟩
  refine ⟨(dupLoop_false _ _ hdup).1, ?_, hcc, fun a ha => Nat.lt_of_le_of_lt (hpts a ha) htsb, by omega⟩
  intro a ha i hib hia
  obtain ⟨c, hc, rfl⟩ := List.mem_map.1 hib
  obtain ⟨c', hc', hid⟩ := List.mem_map.1 hia
  obtain ⟨he, hwin⟩ := hself a ha c' hc' c hc hid.symm
  have hcbc := hcb c hc
  rcases List.mem_append.1 ha with hal | haa
  · -- a processing ancestor
    obtain ⟨l1, l2, rfl⟩ := List.append_of_mem hal
    have hts : ∀ y ∈ l1, a.ts < y.ts := by
      have : (l1 ++ a :: l2) ++ acc = l1 ++ a :: (l2 ++ acc) := by simp
      rw [this] at hgl
      exact goodChain_ts cfg l1 a _ hgl
    have hx : b.ids.any (fun i => a.ids.contains i) = true :=
      any_ids_of_mem (i := c.chunkID) hib (by simpa using hia)
    have := hasRepeat_found n.index n.lah n.seen (b.ts - cfg.window) b.ids a l2 n.last hx (by omega) l1 p
      (p.height + 1) hw (by have := walk_len hw; omega) (fun y hy => by have := hts y hy; omega)
    rw [this] at hrep
    cases hrep
  · -- an accepted ancestor
    have h3 := hi.ts a haa
    have hlast : n.last.ts ≤ p.ts := by
      rcases hi.lastMem with h | h
      · rw [h] at haa; cases haa
      · exact hpts _ (List.mem_append.2 (Or.inr h))
    have hs := hi.seen a haa c' hc' (by omega) (by omega)
    have hts : ∀ y ∈ l, b.ts - cfg.window ≤ y.ts := by
      intro y hy
      have := goodChain_ts' cfg l acc hgl y hy a haa
      omega
    have := hasRepeat_seen n.index n.lah n.seen (b.ts - cfg.window) b.ids n.last
      (any_ids_of_mem (i := c.chunkID) hib (by rw [← hid]; exact hs)) (by omega) l p (p.height + 1) hw
      (by have := walk_len hw; omega) hts
    rw [this] at hrep
    cases hrep

theorem agree_tail {E : Nat → Nat} {ch : List Block} {V : List (List Block)} (h : Agree E (ch :: V)) : Agree E V :=
  fun c hc => h c (by simp [hc])

theorem reach_inv (cfg : Cfg) (E : Nat → Nat) (n : Node) (acc : List Block) (d : List Nat) (V : List (List Block))
    (h : Reach cfg n acc d V) : Agree E V → HInv cfg E n acc d V := by
  induction h with
  | init =>
    intro _
    exact ⟨by simp, by simp [Node.init], by simp, rfl, Or.inl rfl, Or.inl rfl, trivial, by simp, by simp, by simp⟩
  | env n acc d V st' idx' _ ih =>
    intro hE
    have ih := ih hE
    exact ⟨ih.ts, ih.seenExp, ih.seen, ih.lah, ih.lastMem, ih.accIn, ih.good, ih.goodV, ih.mem, ih.nodup⟩
  | verify n acc d V b p l _ hfind hw hl hv ih =>
    intro hE
    have ih := ih (agree_tail hE)
    have hg := verify_sound cfg E n acc d V ih b p l hE hfind hw hl hv
    have hgl : GoodChain cfg (l ++ acc) := by
      rcases hl with rfl | h
      · simpa using ih.good
      · exact ih.goodV _ h
    refine ⟨ih.ts, ih.seenExp, ih.seen, ih.lah, ih.lastMem, ?_, ih.good, ?_, ih.mem, ih.nodup⟩
    · rcases ih.accIn with h | h
      · exact Or.inl h
      · exact Or.inr (by simp [h])
    · intro ch hch
      rcases List.mem_cons.1 hch with rfl | hch
      · exact ⟨hg, hgl⟩
      · exact ih.goodV ch hch
  | accept n n' acc d V b sc chunks _ hbV hacc ih =>
    intro hE
    have ih := ih hE
    have hgc : GoodChain cfg (b :: acc) := ih.goodV _ hbV
    obtain ⟨hnd, hdis, hcc, hts, hpos⟩ := hgc.1
    have hchunks : chunks = b.ids := C35.accept_chunks_eq_referenced cfg n n' b sc chunks hacc
    obtain ⟨hseen, hlah, hlast, _⟩ := accept_ok_inv cfg n n' b sc chunks hacc
    have hcb := certCheck_ok cfg b.ts b.certs hcc
    have hEb : ∀ c ∈ b.certs, c.expiry = E c.chunkID :=
      fun c hc => hE _ hbV b (by simp) c hc (hcb c hc).1
    have hlastlt : acc = [] ∨ n.last.ts < b.ts := by
      rcases ih.lastMem with h | h
      · exact Or.inl h
      · exact Or.inr (hts _ h)
    refine ⟨?_, ?_, ?_, by rw [hlah, hlast], Or.inr (by rw [hlast]; simp), Or.inr hbV, hgc, ih.goodV, ?_, ?_⟩
    · intro a ha
      rw [hlast]
      rcases List.mem_cons.1 ha with rfl | ha
      · exact Nat.le_refl _
      · exact Nat.le_of_lt (hts a ha)
    · intro e he
      rw [hseen, seenAccept_eq] at he
      rcases mem_addCerts _ _ e he with he | ⟨c, hc, rfl⟩
      · exact ih.seenExp e (List.mem_filter.1 he).1
      · exact hEb c hc
    · intro a ha c hc hle hne
      rw [hlast] at hle
      rw [hseen, seenAccept_eq]
      rcases List.mem_cons.1 ha with rfl | ha
      · exact addCerts_self _ _ c hc hne
      · apply addCerts_mono
        have hlt : n.last.ts < b.ts := by
          rcases hlastlt with h | h
          · rw [h] at ha; cases ha
          · exact h
        have hs := ih.seen a ha c hc (by omega) hne
        obtain ⟨t, ht⟩ := (has_iff _ _).1 hs
        have hte := ih.seenExp _ ht
        have hca := certCheck_ok cfg a.ts a.certs (goodChain_mem cfg _ ih.good a ha) c hc
        have hce : c.expiry = E c.chunkID := by
          rcases ih.accIn with h | h
          · rw [h] at ha; cases ha
          · exact hE _ h a ha c hc hca.1
        simp only at hte
        exact (has_iff _ _).2 ⟨t, List.mem_filter.2 ⟨ht, by simp; omega⟩⟩
    · intro i
      rw [List.mem_append, ih.mem i, hchunks]
      constructor
      · rintro (⟨a, ha, hi⟩ | hi)
        · exact ⟨a, by simp [ha], hi⟩
        · exact ⟨b, by simp, hi⟩
      · rintro ⟨a, ha, hi⟩
        rcases List.mem_cons.1 ha with rfl | ha
        · exact Or.inr hi
        · exact Or.inl ⟨a, ha, hi⟩
    · rw [hchunks]
      refine List.nodup_append.2 ⟨ih.nodup, hnd, ?_⟩
      intro x hx y hy e
      subst e
      obtain ⟨a, ha, hxa⟩ := (ih.mem x).1 hx
      exact hdis a ha x hy hxa

/-- **C37 corollary** along any accepted chain — blocks verified on processing or accepted
parents, accepted later without being verified again, certificates re-used at any later height
and timestamp, before or after the earlier inclusion was accepted and before or after it left
the accepted set — no chunk is handed to execution twice, provided the certificates that occur
agree on each chunk's expiry (`Agree`; see `no_chunk_delivered_twice_literal` and
`no_chunk_delivered_twice_consistent` for the two ways to obtain it). -/
theorem no_chunk_delivered_twice (cfg : Cfg) (E : Nat → Nat) (n : Node) (acc : List Block) (d : List Nat)
    (V : List (List Block)) (h : Reach cfg n acc d V) (hE : Agree E V) : d.Nodup :=
  (reach_inv cfg E n acc d V h hE).nodup

/-- the delivered chunks are exactly the chunks referenced by the accepted blocks -/
theorem delivered_eq_referenced (cfg : Cfg) (E : Nat → Nat) (n : Node) (acc : List Block) (d : List Nat)
    (V : List (List Block)) (h : Reach cfg n acc d V) (hE : Agree E V) (i : Nat) :
    i ∈ d ↔ ∃ a ∈ acc, i ∈ a.ids :=
  (reach_inv cfg E n acc d V h hE).mem i

/-- all certificates occurring in the verified chains -/
def allCerts (V : List (List Block)) : List Cert := V.flatMap (fun ch => ch.flatMap (·.certs))

/-- literal certificate reuse: certificates of the history that name the same chunk carry the same
expiry (they are the same certificate, re-used) -/
def LiteralReuse (V : List (List Block)) : Prop :=
  ∀ c ∈ allCerts V, ∀ c' ∈ allCerts V, c.chunkID = c'.chunkID → c.expiry = c'.expiry

theorem agree_of_literal (V : List (List Block)) (h : LiteralReuse V) :
    Agree (fun i => (((allCerts V).find? (fun c => c.chunkID == i)).map (·.expiry)).getD 0) V := by
  intro ch hch a ha c hc _
  have hmem : c ∈ allCerts V := by
    simp only [allCerts, List.mem_flatMap]
    exact ⟨ch, hch, a, ha, hc⟩
  cases hf : (allCerts V).find? (fun x => x.chunkID == c.chunkID) with
  | none =>
    rw [List.find?_eq_none] at hf
    exact absurd (by simp) (hf c hmem)
  | some c0 =>
    have h0 := List.mem_of_find?_eq_some hf
    have hid : c0.chunkID = c.chunkID := by simpa using List.find?_some hf
    simp only [hf, Option.map_some, Option.getD_some]
    exact h c hmem c0 h0 hid.symm

/-- **C37 corollary, unconditional under literal certificate reuse** (what the property
quantifies over: "chunk certificates of any expiry re-used at later heights and timestamps"). -/
theorem no_chunk_delivered_twice_literal (cfg : Cfg) (n : Node) (acc : List Block) (d : List Nat)
    (V : List (List Block)) (h : Reach cfg n acc d V) (hl : LiteralReuse V) : d.Nodup :=
  no_chunk_delivered_twice cfg _ n acc d V h (agree_of_literal V hl)

/-- every *occurring* certificate whose signature verifies carries the expiry of its chunk -/
def ConsistentOn (cfg : Cfg) (V : List (List Block)) : Prop := Agree (fun i => (cfg.U i).expiry) V

/-- **C37 corollary, stronger variant** also for *different* certificates of the same chunk,
when the signers only sign references that match the chunk (`signed_reference_consistent`; not
enforced by the code as it is, see `c37_forged_certificate_delivered_twice`). -/
theorem no_chunk_delivered_twice_consistent (cfg : Cfg) (n : Node) (acc : List Block) (d : List Nat)
    (V : List (List Block)) (h : Reach cfg n acc d V) (hc : ConsistentOn cfg V) : d.Nodup :=
  no_chunk_delivered_twice cfg _ n acc d V h hc

/-- **C37 (b), any ancestor, reachable states** (literal reuse): in a reachable state a block
that verifies on the accepted tip or on a verified processing chain shares no chunk with any of
its ancestors. -/
theorem verify_rejects_any_ancestor_dup (cfg : Cfg) (n : Node) (acc : List Block) (d : List Nat)
    (V : List (List Block)) (h : Reach cfg n acc d V) (b p : Block) (l : List Block)
    (hl : LiteralReuse ((b :: (l ++ acc)) :: V))
    (hfind : findBlock n.index b.parent = some p) (hw : Walk n.index n.lah p l n.last)
    (hlV : l = [] ∨ (l ++ acc) ∈ V) (a : Block) (ha : a ∈ l ++ acc) (i : Nat) (hib : i ∈ b.ids) (hia : i ∈ a.ids) :
    verify cfg n p b ≠ .ok := by
  intro hv
  have hE := agree_of_literal _ hl
  have hi := reach_inv cfg _ n acc d V h (agree_tail hE)
  exact (verify_sound cfg _ n acc d V hi b p l hE hfind hw hlV hv).2.1 a ha i hib hia

/-! ## What validators sign -/

/-- **with the message check** a validator only signs the reference of the chunk it verified:
chunk id and expiry of every signed reference are those of a chunk of the universe that passed the
chunk verifier — the source of `ConsistentOn` for certificates signed by such validators. -/
theorem signed_reference_consistent (cfg : Cfg) (hm : cfg.checksMessage = true) (s : Storage) (refId refExpiry j : Nat)
    (h : (signReq cfg s refId refExpiry j).2 = .signed) :
    refId = j ∧ refExpiry = (cfg.U refId).expiry ∧ verifyChunk cfg s.vmin j = none := by
  unfold signReq at h
  rw [hm] at h
  split at h
  · cases h
  · rename_i hc
    simp only [Bool.true_and, Bool.not_eq_true', Bool.not_eq_false, Bool.and_eq_true, beq_iff_eq] at hc
    split at h
    · cases h
    · rename_i hv
      obtain ⟨rfl, he⟩ := hc
      exact ⟨rfl, he, hv⟩

/-- **without it (the code as it is; known finding `validator-signs-reference-not-matching-chunk`)**
the validator signs a reference to chunk 1 with expiry 20 when shown chunk 2 (expiry 12) -/
def sgCfg : Cfg := { U := fun i => ⟨1, 10 + i, 100, true⟩, window := 40, limit := 1000000, maxSkew := 30 }
theorem c37_signs_mismatching_reference : (signReq sgCfg Storage.empty 1 20 2).2 = .signed := by decide
example : (signReq { sgCfg with checksMessage := true } Storage.empty 1 20 2).2 = .refused := by decide
example : (signReq { sgCfg with checksMessage := true } Storage.empty 2 12 2).2 = .signed := by decide

/-! ## The builder -/

theorem filter_zip_sublist {α β : Type} (p : α × β → Bool) : ∀ (l : List α) (m : List β),
    (((l.zip m).filter p).map (·.1)).Sublist l := by
  intro l
  induction l with
  | nil => intro m; simp
  | cons a r ih =>
    intro m
    cases m with
    | nil => simp
    | cons x m =>
      simp only [List.zip_cons_cons, List.filter_cons]
      split
      · exact (ih m).cons_cons a
      · exact (ih m).cons a

/-- **C37 builder, window and repetition clauses** a block produced by `BuildBlock` references
no expired chunk (nor one beyond the window), and no chunk twice, provided the pending map
holds at most one certificate per chunk id (`SetChunkCert`/`AddLocalChunkWithCert` store a
certificate under the id it names). The ancestor clause is `builder_no_ancestor_dup`. -/
theorem builder_window_and_nodup (cfg : Cfg) (n : Node) (parent : Block) (ts : Nat) (certs : List Cert)
    (hwf : ((gather n.st).map (·.chunkID)).Nodup)
    (h : buildBlock cfg n parent ts = .ok certs) :
    (∀ c ∈ certs, ts ≤ c.expiry ∧ c.expiry ≤ ts + cfg.window) ∧ (certs.map (·.chunkID)).Nodup ∧ certs ≠ [] := by
  unfold buildBlock at h
  split at h
  · cases h
  · simp only at h
    split at h
    · cases h
    · rename_i marker _
      split at h
      · cases h
      · rename_i hne
        simp only [BuildOut.ok.injEq] at h
        subst h
        refine ⟨?_, ?_, by intro e; rw [e] at hne; simp at hne⟩
        · intro c hc
          obtain ⟨⟨c0, m0⟩, hm, rfl⟩ := List.mem_map.1 hc
          have := (List.mem_filter.1 hm).2
          simp only [Bool.not_eq_true', Bool.or_eq_false_iff, decide_eq_false_iff_not] at this
          dsimp only at this ⊢
          omega
        · exact ((filter_zip_sublist _ (gather n.st) marker).map _).nodup hwf

/-! ### The builder's marker (`isRepeat` with `stop = false`) -/

/-- pointwise relation between the gathered ids and their marker bits -/
inductive FA2 (R : Nat → Bool → Prop) : List Nat → List Bool → Prop
  | nil : FA2 R [] []
  | cons {i : Nat} {b : Bool} {is : List Nat} {bs : List Bool} : R i b → FA2 R is bs → FA2 R (i :: is) (b :: bs)

theorem fa_len_step (ids : List Nat) (g : Nat → Bool) : ∀ (m : List Bool),
    FA2 (fun _ _ => True) ids m →
    FA2 (fun _ _ => True) ids (List.zipWith (fun i b => b || g i) ids m) := by
  intro m h
  induction h with
  | nil => exact FA2.nil
  | cons _ _ ih => exact FA2.cons trivial ih

theorem fa_mark_step (ids : List Nat) (g : Nat → Bool) (Q : Nat → Prop) (hg : ∀ i, Q i → g i = true) :
    ∀ (m : List Bool), FA2 (fun _ _ => True) ids m →
    FA2 (fun i b => Q i → b = true) ids (List.zipWith (fun i b => b || g i) ids m) := by
  intro m h
  induction h with
  | nil => exact FA2.nil
  | cons _ _ ih => exact FA2.cons (fun hq => by simp [hg _ hq]) ih

theorem fa_mono_step (ids : List Nat) (g : Nat → Bool) (Q : Nat → Prop) :
    ∀ (m : List Bool), FA2 (fun i b => Q i → b = true) ids m →
    FA2 (fun i b => Q i → b = true) ids (List.zipWith (fun i b => b || g i) ids m) := by
  intro m h
  induction h with
  | nil => exact FA2.nil
  | cons h1 _ ih => exact FA2.cons (fun hq => by simp [h1 hq]) ih

theorem fa_true_of (ids : List Nat) (Q : Nat → Prop) : ∀ (m : List Bool),
    FA2 (fun i b => Q i → b = true) ids m → FA2 (fun _ _ => True) ids m := by
  intro m h
  induction h with
  | nil => exact FA2.nil
  | cons _ _ ih => exact FA2.cons trivial ih

/-- marks only accumulate along the walk -/
theorem repeats_mono (idx : List Block) (lah : Nat) (seen : EMap) (oldest : Nat) (ids : List Nat) (Q : Nat → Prop) :
    ∀ (fuel : Nat) (a : Block) (m1 m : List Bool), repeats idx lah seen oldest ids fuel a m1 = some m →
      FA2 (fun i b => Q i → b = true) ids m1 → FA2 (fun i b => Q i → b = true) ids m := by
  intro fuel
  induction fuel with
  | zero => intro a m1 m h; rw [repeats] at h; cases h
  | succ f ih =>
    intro a m1 m h hq
    rw [repeats] at h
    split at h
    · cases h; exact hq
    · split at h
      · cases h; exact fa_mono_step ids _ Q m1 hq
      · simp only at h
        split at h
        · cases h
        · exact ih _ _ _ h (fa_mono_step ids _ Q m1 hq)

theorem repeats_processing (idx : List Block) (lah : Nat) (seen : EMap) (oldest : Nat) (ids : List Nat)
    (f : Nat) (a : Block) (m1 : List Bool) (ha : ¬(a.height ≤ lah ∨ a.height = 0)) (hts : oldest ≤ a.ts) :
    repeats idx lah seen oldest ids (f + 1) a m1 =
      match findBlock idx a.parent with
      | none => none
      | some p => repeats idx lah seen oldest ids f p (List.zipWith (fun i m => m || a.ids.contains i) ids m1) := by
  have h1 : ¬ a.ts < oldest := by omega
  have h2 : (decide (a.height ≤ lah) || a.height == 0) = false := by
    have : ¬ a.height ≤ lah ∧ ¬ a.height = 0 := ⟨fun h => ha (Or.inl h), fun h => ha (Or.inr h)⟩
    simp [this.1, this.2]
  conv => lhs; rw [repeats]
  rw [if_neg h1]
  simp only [h2, Bool.false_eq_true, if_false]
  rfl

theorem repeats_found (idx : List Block) (lah : Nat) (seen : EMap) (oldest : Nat) (ids : List Nat)
    (x : Block) (l2 : List Block) (t : Block) (hxt : oldest ≤ x.ts) :
    ∀ (l1 : List Block) (a : Block) (fuel : Nat) (m1 m : List Bool), Walk idx lah a (l1 ++ x :: l2) t →
      (l1 ++ x :: l2).length < fuel → (∀ y ∈ l1, oldest ≤ y.ts) →
      FA2 (fun _ _ => True) ids m1 →
      repeats idx lah seen oldest ids fuel a m1 = some m →
      FA2 (fun i b => i ∈ x.ids → b = true) ids m := by
  intro l1
  induction l1 with
  | nil =>
    intro a fuel m1 m hw hf _ hlen h
    cases hw with
    | step _ p _ _ ha hfind hh hw' =>
      obtain ⟨f, rfl⟩ : ∃ f, fuel = f + 1 := ⟨fuel - 1, by simp at hf; omega⟩
      rw [repeats_processing idx lah seen oldest ids f x m1 ha hxt, hfind] at h
      exact repeats_mono idx lah seen oldest ids _ f p _ m h
        (fa_mark_step ids _ _ (fun i hi => by simpa using hi) m1 hlen)
  | cons y l1 ih =>
    intro a fuel m1 m hw hf hts hlen h
    cases hw with
    | step _ p _ _ ha hfind hh hw' =>
      obtain ⟨f, rfl⟩ : ∃ f, fuel = f + 1 := ⟨fuel - 1, by simp at hf; omega⟩
      rw [repeats_processing idx lah seen oldest ids f y m1 ha (hts y (by simp)), hfind] at h
      exact ih p f _ m hw' (by simp at hf ⊢; omega) (fun z hz => hts z (by simp [hz]))
        (fa_len_step ids _ m1 hlen) h

theorem repeats_seen (idx : List Block) (lah : Nat) (seen : EMap) (oldest : Nat) (ids : List Nat)
    (t : Block) (htt : oldest ≤ t.ts) :
    ∀ (l : List Block) (a : Block) (fuel : Nat) (m1 m : List Bool), Walk idx lah a l t → l.length < fuel →
      (∀ y ∈ l, oldest ≤ y.ts) → FA2 (fun _ _ => True) ids m1 →
      repeats idx lah seen oldest ids fuel a m1 = some m →
      FA2 (fun i b => seen.has i = true → b = true) ids m := by
  intro l
  induction l with
  | nil =>
    intro a fuel m1 m hw hf _ hlen h
    cases hw with
    | stop _ ht =>
      obtain ⟨f, rfl⟩ : ∃ f, fuel = f + 1 := ⟨fuel - 1, by simp at hf; omega⟩
      have hterm : (decide (t.height ≤ lah) || t.height == 0) = true := by
        rcases ht with h' | h' <;> simp [h']
      rw [repeats, if_neg (by omega)] at h
      simp only [hterm, if_true, Option.some.injEq] at h
      subst h
      exact fa_mark_step ids _ _ (fun i hi => hi) m1 hlen
  | cons y l ih =>
    intro a fuel m1 m hw hf hts hlen h
    cases hw with
    | step _ p _ _ ha hfind hh hw' =>
      obtain ⟨f, rfl⟩ : ∃ f, fuel = f + 1 := ⟨fuel - 1, by simp at hf; omega⟩
      rw [repeats_processing idx lah seen oldest ids f y m1 ha (hts y (by simp)), hfind] at h
      exact ih p f _ m hw' (by simp at hf ⊢; omega) (fun z hz => hts z (by simp [hz]))
        (fa_len_step ids _ m1 hlen) h

theorem fa_init (ids : List Nat) : FA2 (fun _ _ => True) ids (ids.map fun _ => false) := by
  induction ids with
  | nil => exact FA2.nil
  | cons _ _ ih => exact FA2.cons trivial ih

theorem fa_zip {R : Nat → Bool → Prop} : ∀ (l : List Cert) (m : List Bool),
    FA2 R (l.map (·.chunkID)) m → ∀ c b, (c, b) ∈ l.zip m → R c.chunkID b := by
  intro l
  induction l with
  | nil => intro m _ c b h; simp at h
  | cons d r ih =>
    intro m h c b hm
    cases m with
    | nil => simp at hm
    | cons x m =>
      simp only [List.map_cons] at h
      cases h with
      | cons h1 h2 =>
        simp only [List.zip_cons_cons, List.mem_cons, Prod.mk.injEq] at hm
        rcases hm with ⟨rfl, rfl⟩ | hm
        · exact h1
        · exact ih m h2 c b hm

/-- what `BuildBlock` returned, unfolded -/
theorem buildBlock_ok (cfg : Cfg) (n : Node) (parent : Block) (ts : Nat) (certs : List Cert)
    (h : buildBlock cfg n parent ts = .ok certs) :
    ∃ marker, repeats n.index n.lah n.seen (ts - cfg.window) ((gather n.st).map (·.chunkID)) (parent.height + 1) parent
        (((gather n.st).map (·.chunkID)).map fun _ => false) = some marker ∧ parent.ts < ts ∧
      ∀ c ∈ certs, ts ≤ c.expiry ∧ c.expiry ≤ ts + cfg.window ∧ (c, false) ∈ (gather n.st).zip marker := by
  unfold buildBlock at h
  split at h
  · cases h
  · rename_i hlt
    simp only at h
    split at h
    · cases h
    · rename_i marker hm
      split at h
      · cases h
      · simp only [BuildOut.ok.injEq] at h
        subst h
        refine ⟨marker, hm, by omega, ?_⟩
        intro c hc
        obtain ⟨⟨c0, m0⟩, hmem, rfl⟩ := List.mem_map.1 hc
        have hf := List.mem_filter.1 hmem
        have := hf.2
        simp only [Bool.not_eq_true', Bool.or_eq_false_iff, decide_eq_false_iff_not] at this
        dsimp only at this ⊢
        obtain ⟨⟨h1, h2⟩, h3⟩ := this
        subst h3
        exact ⟨by omega, by omega, hf.1⟩

/-- **C37 builder, ancestor clause** a block produced by `BuildBlock(parent, ts)` references
no chunk of a processing ancestor (`x`, at any distance above the accepted chain, verified when
it was indexed, whose certificate is the one the storage holds: same expiry) and no chunk tracked
by the accepted set when the walk reaches the accepted part of the chain inside the window. -/
theorem builder_no_ancestor_dup (cfg : Cfg) (n : Node) (parent : Block) (ts : Nat)
    (certs : List Cert) (h : buildBlock cfg n parent ts = .ok certs) :
    (∀ (l1 l2 : List Block) (x t : Block) (c c' : Cert), Walk n.index n.lah parent (l1 ++ x :: l2) t →
        (∀ y ∈ l1, x.ts ≤ y.ts) → certCheck cfg x.ts x.certs = .ok → c' ∈ x.certs → c ∈ certs →
        c.expiry = c'.expiry → c.chunkID ≠ c'.chunkID) ∧
    (∀ (l : List Block) (t : Block) (c : Cert), Walk n.index n.lah parent l t →
        (∀ y ∈ l, ts - cfg.window ≤ y.ts) → ts - cfg.window ≤ t.ts → c ∈ certs →
        n.seen.has c.chunkID = false) := by
  obtain ⟨marker, hm, _, hc⟩ := buildBlock_ok cfg n parent ts certs h
  constructor
  · intro l1 l2 x t c c' hw hts hxv hc' hcm he hid
    obtain ⟨h1, h2, hz⟩ := hc c hcm
    have hcx := certCheck_ok cfg x.ts x.certs hxv c' hc'
    have hfa := repeats_found n.index n.lah n.seen (ts - cfg.window) ((gather n.st).map (·.chunkID)) x l2 t
      (by omega) l1 parent (parent.height + 1) _ marker hw (by have := walk_len hw; omega)
      (fun y hy => by have := hts y hy; omega) (fa_init _) hm
    have := fa_zip (gather n.st) marker hfa c false hz
      (by simp only [Block.ids]; rw [hid]; exact List.mem_map_of_mem hc')
    cases this
  · intro l t c hw hts htt hcm
    obtain ⟨_, _, hz⟩ := hc c hcm
    have hfa := repeats_seen n.index n.lah n.seen (ts - cfg.window) ((gather n.st).map (·.chunkID)) t htt
      l parent (parent.height + 1) _ marker hw (by have := walk_len hw; omega) hts (fa_init _) hm
    have := fa_zip (gather n.st) marker hfa c false hz
    cases hs : n.seen.has c.chunkID with
    | false => rfl
    | true => exact absurd (this hs) (by simp)

/-- **C37 builder** on top of the last accepted block of any reachable state, `BuildBlock` never
produces a block that `Verify` would have to reject for one of the three reasons: every
certificate is inside its validity window at the block timestamp, no chunk is referenced twice,
and no chunk of *any* accepted ancestor is referenced (processing ancestors:
`builder_no_ancestor_dup`). Hypotheses about the storage, which the builder reads: `hwf` the
pending map holds at most one certificate per chunk id (`SetChunkCert`/`AddLocalChunkWithCert`
store a certificate under the id it names), `hEg` its certificates agree with the history on each
chunk's expiry (literal reuse: they are the certificates that were or will be included). -/
theorem builder_never_produces_such (cfg : Cfg) (E : Nat → Nat) (n : Node) (acc : List Block)
    (d : List Nat) (V : List (List Block)) (hr : Reach cfg n acc d V) (hE : Agree E V) (ts : Nat) (certs : List Cert)
    (hwf : ((gather n.st).map (·.chunkID)).Nodup) (hEg : ∀ c ∈ gather n.st, c.expiry = E c.chunkID)
    (h : buildBlock cfg n n.last ts = .ok certs) :
    (∀ c ∈ certs, ts ≤ c.expiry ∧ c.expiry ≤ ts + cfg.window) ∧ (certs.map (·.chunkID)).Nodup ∧
    (∀ c ∈ certs, c.chunkID ∉ d) := by
  obtain ⟨h1, h2, _⟩ := builder_window_and_nodup cfg n n.last ts certs hwf h
  refine ⟨h1, h2, ?_⟩
  intro c hc hd
  have hi := reach_inv cfg E n acc d V hr hE
  obtain ⟨a, ha, hia⟩ := (hi.mem _).1 hd
  obtain ⟨c', hc', hid⟩ := List.mem_map.1 hia
  obtain ⟨_, _, hlt, hcs⟩ := buildBlock_ok cfg n n.last ts certs h
  obtain ⟨_, _, hz⟩ := hcs c hc
  have hcg : c ∈ gather n.st := (List.of_mem_zip hz).1
  have hb := h1 c hc
  have hca := certCheck_ok cfg a.ts a.certs (goodChain_mem cfg _ hi.good a ha) c' hc'
  have hce : c'.expiry = E c'.chunkID := by
    rcases hi.accIn with h' | h'
    · rw [h'] at ha; cases ha
    · exact hE _ h' a ha c' hc' hca.1
  have he : c.expiry = c'.expiry := by rw [hEg c hcg, hce, hid]
  have h3 := hi.ts a ha
  have hs := hi.seen a ha c' hc' (by omega) (by omega)
  have := (builder_no_ancestor_dup cfg n n.last ts certs h).2 [] n.last c
    (Walk.stop _ (Or.inl (by rw [hi.lah]; exact Nat.le_refl _))) (by simp) (by omega) hc
  rw [hid, this] at hs
  cases hs

/-! ## Non-vacuity: the chain that broke the code before a3a0c38 (no expiry check in `Verify`) -/
def exCfg : Cfg := { U := fun i => ⟨1, if i = 4 then 10 else 12, 100, true⟩, window := 5, limit := 1000000, maxSkew := 30 }
def c4 : Cert := ⟨4, 10, true⟩
def c8 : Cert := ⟨8, 12, true⟩
def b1 : Block := ⟨1, 0, 1, 8, [c4]⟩
def b2 : Block := ⟨2, 1, 2, 11, [c8]⟩
def b3 : Block := ⟨3, 2, 3, 12, [c4]⟩
def n0 : Node := { Node.init with st := putVerified exCfg (putVerified exCfg Storage.empty 4 (some c4)) 8 (some c8) }
def n1 : Node := { (accept exCfg n0 b1 []).1 with index := [genesis, b1] }
def n2 : Node := { (accept exCfg n1 b2 []).1 with index := [genesis, b1, b2] }

example : verify exCfg n0 genesis b1 = .ok := by decide
example : (accept exCfg n0 b1 []).2 = .ok [4] := by decide
example : verify exCfg n1 b1 b2 = .ok := by decide
example : (accept exCfg n1 b2 []).2 = .ok [8] := by decide
/-- chunk 4 has left the accepted set at timestamp 11 … -/
example : n2.seen.has 4 = false := by decide
/-- … and the repaired `Verify` rejects its re-inclusion at 12 because it has expired -/
example : verify exCfg n2 b2 b3 = .expired := by decide

/-! ### Known finding: a second certificate for the same chunk with another expiry

The validators sign the reference (chunk 4, expiry 30) when shown any valid chunk
(`c37_signs_mismatching_reference`); that certificate verifies (`sigOk`). Chunk 4 is included
with its real certificate (expiry 10) at 8, leaves the accepted set at 11, and the forged
certificate is accepted at 26: the chunk is delivered twice. `LiteralReuse`/`ConsistentOn` fail
for this history, as they must. The harness replays the same chain on the real code in every run. -/
def c4f : Cert := ⟨4, 30, true⟩
def b3f : Block := ⟨3, 2, 3, 26, [c4f]⟩
def n2f : Node := { n2 with st := putVerified exCfg n2.st 4 (some c4f) }
theorem c37_forged_certificate_delivered_twice :
    (accept exCfg n0 b1 []).2 = .ok [4] ∧ verify exCfg n2f b2 b3f = .ok ∧ (accept exCfg n2f b3f []).2 = .ok [4] := by
  decide
example : ¬ LiteralReuse [[b3f, b2, b1]] := by
  intro h
  have := h c4f (by simp [allCerts, b3f, b2, b1]) c4 (by simp [allCerts, b3f, b2, b1]) rfl
  simp [c4f, c4] at this
/-- a literal-reuse history (non-vacuity of the hypotheses of the chain theorems) -/
example : LiteralReuse [[b2, b1], [b1]] := by
  intro c hc c' hc' hid
  simp [allCerts, b2, b1] at hc hc'
  rcases hc with rfl | rfl | rfl <;> rcases hc' with rfl | rfl | rfl <;> simp_all [c4, c8]

/-! a `Reach` witness for the chain genesis ← b1 ← b2 above: verify b1, accept it, index it,
verify b2 on it, accept it; chunks 4 and 8 are delivered. -/
theorem reach_n0 : Reach exCfg n0 [] [] [] :=
  Reach.env Node.init [] [] [] n0.st [genesis] Reach.init

theorem reach_b1_verified : Reach exCfg n0 [] [] [[b1]] :=
  Reach.verify n0 [] [] [] b1 genesis [] reach_n0 rfl (Walk.stop genesis (Or.inl (by decide)))
    (Or.inl rfl) (by decide)

theorem reach_b1_accepted : Reach exCfg (accept exCfg n0 b1 []).1 [b1] ([] ++ [4]) [[b1]] :=
  Reach.accept n0 _ [] [] [[b1]] b1 [] [4] reach_b1_verified List.mem_cons_self
    (Prod.ext rfl (by decide))

theorem reach_n1 : Reach exCfg n1 [b1] ([] ++ [4]) [[b1]] :=
  Reach.env _ [b1] _ [[b1]] (accept exCfg n0 b1 []).1.st [genesis, b1] reach_b1_accepted

theorem reach_b2_verified : Reach exCfg n1 [b1] ([] ++ [4]) [[b2, b1], [b1]] :=
  Reach.verify n1 [b1] _ [[b1]] b2 b1 [] reach_n1 rfl (Walk.stop b1 (Or.inl (by decide)))
    (Or.inl rfl) (by decide)

theorem reach_b2_accepted :
    Reach exCfg (accept exCfg n1 b2 []).1 [b2, b1] (([] ++ [4]) ++ [8]) [[b2, b1], [b1]] :=
  Reach.accept n1 _ [b1] _ [[b2, b1], [b1]] b2 [] [8] reach_b2_verified List.mem_cons_self
    (Prod.ext rfl (by decide))

theorem literal_b1_b2 : LiteralReuse [[b2, b1], [b1]] := by
  intro c hc c' hc' hid
  simp [allCerts, b2, b1] at hc hc'
  rcases hc with rfl | rfl | rfl <;> rcases hc' with rfl | rfl | rfl <;> simp_all [c4, c8]

/-- `no_chunk_delivered_twice_literal` applied to a history that really delivers chunks -/
example : ((([] : List Nat) ++ [4]) ++ [8]).Nodup :=
  no_chunk_delivered_twice_literal exCfg _ _ _ _ reach_b2_accepted literal_b1_b2
example : ¬ (verify exCfg n1 b1 ⟨9, 1, 2, 9, [c4]⟩ = .ok) := by decide

end HyperModel.Props.C37
