import HyperModel.Model.AuthBatch
/-! # C16 Block verification accepts exactly the blocks whose signatures all verify

For every block (any mix of auth types, any count, any positions of invalid signatures), any
number of cores and any set of batched auth types, over the model `Model/AuthBatch.lean`
(ED25519Batch.Add/Done incl. the re-submission of the last full batch, AuthBatch, the C26 job
contract). Single assumed law: a batch task succeeds iff all its items verify one-by-one. -/
namespace HyperModel.Props.C16
open HyperModel.AuthBatch

variable {α : Type}

/-- Key lemma on `ED25519Batch`: starting from any batch state, the batches handed out by `Add`
plus the one handed out by `Done` contain exactly the items held by the open batch and the items
fed afterwards — nothing is dropped at a batch boundary, nothing foreign is added (the last full
batch may appear twice). Holds even if `total` does not match the number of items. -/
theorem feed_mem (ys : List α) : ∀ (b : EdBatch α) (x : α),
    (∃ t ∈ (feed b ys).2 ++ (feed b ys).1.done, x ∈ t) ↔ x ∈ b.batch.getD [] ++ ys := by
  induction ys with
  | nil =>
    intro b x
    cases hb : b.batch <;> simp [feed, EdBatch.done, hb]
  | cons y ys ih =>
    intro b x
    simp only [feed]
    by_cases hfull : b.counter + 1 = b.batchSize
    · by_cases hmore : b.totalCounter + 1 < b.total
      · have := ih { b with counter := 0, totalCounter := b.totalCounter + 1, batch := some [] } x
        simp [EdBatch.add, hfull, hmore] at this ⊢
        grind
      · have := ih { b with counter := 0, totalCounter := b.totalCounter + 1,
                            batch := some (b.batch.getD [] ++ [y]) } x
        simp [EdBatch.add, hfull, hmore] at this ⊢
        grind
    · have := ih { b with counter := b.counter + 1, totalCounter := b.totalCounter + 1,
                          batch := some (b.batch.getD [] ++ [y]) } x
      simp [EdBatch.add, hfull] at this ⊢
      grind

/-- the batches of one batched auth type cover exactly that type's items -/
theorem typeTasks_mem (cores : Nat) (xs : List α) (x : α) :
    (∃ t ∈ typeTasks cores xs, x ∈ t) ↔ x ∈ xs := by
  have := feed_mem xs { batchSize := batchSizeOf cores xs.length, total := xs.length } x
  simpa [typeTasks, typeEarly, typeDone] using this

theorem mem_typesOf (ty : α → Nat) (items : List α) (t : Nat) :
    t ∈ typesOf ty items ↔ ∃ x ∈ items, ty x = t := by
  simp [typesOf, List.mem_eraseDups]

/-- **Nothing is dropped at batch boundaries and nothing foreign is verified**: an item is
verified by some task submitted to the signature job iff it is an item of the block. -/
theorem every_sig_in_some_batch (ty : α → Nat) (batched : Nat → Bool) (cores : Nat)
    (items : List α) (x : α) :
    (∃ t ∈ blockTasks ty batched cores items, x ∈ t) ↔ x ∈ items := by
  unfold blockTasks
  constructor
  · rintro ⟨t, ht, hx⟩
    rcases List.mem_append.1 ht with ht | ht
    · simp only [List.mem_map, List.mem_filter] at ht
      obtain ⟨y, ⟨hy, _⟩, rfl⟩ := ht
      simp at hx; subst hx; exact hy
    · simp only [List.mem_flatMap, List.mem_filter] at ht
      obtain ⟨t0, _, ht0⟩ := ht
      have := (typeTasks_mem cores (items.filter fun x => ty x == t0) x).1 ⟨t, ht0, hx⟩
      exact (List.mem_filter.1 this).1
  · intro hx
    by_cases hb : batched (ty x) = true
    · have hm : x ∈ items.filter (fun y => ty y == ty x) := by simp [hx]
      obtain ⟨t, ht, hxt⟩ := (typeTasks_mem cores _ x).2 hm
      refine ⟨t, List.mem_append.2 (Or.inr ?_), hxt⟩
      simp only [List.mem_flatMap, List.mem_filter]
      exact ⟨ty x, ⟨(mem_typesOf ty items (ty x)).2 ⟨x, hx, rfl⟩, hb⟩, ht⟩
    · refine ⟨[x], List.mem_append.2 (Or.inl ?_), by simp⟩
      simp only [List.mem_map, List.mem_filter]
      exact ⟨x, ⟨hx, by simpa using hb⟩, rfl⟩

theorem tasks_all_ok_iff (ty : α → Nat) (batched : Nat → Bool) (verify1 : α → Bool) (cores : Nat)
    (items : List α) :
    (∀ t ∈ blockTasks ty batched cores items, taskOk verify1 t = true) ↔
      ∀ x ∈ items, verify1 x = true := by
  constructor
  · intro h x hx
    obtain ⟨t, ht, hxt⟩ := (every_sig_in_some_batch ty batched cores items x).2 hx
    have := h t ht
    simp only [taskOk, List.all_eq_true] at this
    exact this x hxt
  · intro h t ht
    simp only [taskOk, List.all_eq_true]
    intro x hxt
    exact h x ((every_sig_in_some_batch ty batched cores items x).1 ⟨t, ht, hxt⟩)

/-- **Block signature verification succeeds iff every auth verifies** (deterministic outcome:
all submitted tasks succeed), for every mix of types, count, cores and invalid positions. -/
theorem job_ok_iff_all (ty : α → Nat) (batched : Nat → Bool) (verify1 : α → Bool) (cores : Nat)
    (items : List α) :
    blockSigOk ty batched verify1 cores items = true ↔ ∀ x ∈ items, verify1 x = true := by
  unfold blockSigOk
  rw [List.all_eq_true]
  exact tasks_all_ok_iff ty batched verify1 cores items

/-- **… under every schedule of the worker pool.** Whatever subset of the submitted tasks the
job executed and in whatever order (contract of `workers.Job`, property C26), the job reports no
error iff every auth of the block verifies over its tx's unsigned bytes. -/
theorem job_run_ok_iff_all (ty : α → Nat) (batched : Nat → Bool) (verify1 : α → Bool) (cores : Nat)
    (items : List α) (executed : List (List α)) (err : Bool)
    (run : JobRun verify1 (blockTasks ty batched cores items) executed err) :
    err = false ↔ ∀ x ∈ items, verify1 x = true := by
  rw [← tasks_all_ok_iff ty batched verify1 cores items]
  obtain ⟨⟨rest, hperm⟩, herr, hall⟩ := run
  constructor
  · intro he t ht
    have hnone : ∀ t ∈ executed, taskOk verify1 t = true := by
      intro t ht
      cases hk : taskOk verify1 t with
      | true => rfl
      | false =>
        have : err = true := herr.2 ⟨t, ht, hk⟩
        rw [he] at this; cases this
    have hp := hall hnone
    exact hnone t ((hp.mem_iff).2 ht)
  · intro h
    cases he : err with
    | false => rfl
    | true =>
      obtain ⟨t, ht, hk⟩ := herr.1 he
      have hmem : t ∈ blockTasks ty batched cores items :=
        (hperm.mem_iff).1 (List.mem_append.2 (Or.inl ht))
      rw [h t hmem] at hk; cases hk

/-- **Statement of the property with the digest explicit**: block signature verification succeeds
iff every transaction's auth verifies over that transaction's unsigned bytes. -/
theorem block_sigs_ok_iff_all_verify_unsigned {M A : Type} (verify : M → A → Bool) (tyOf : A → Nat)
    (batched : Nat → Bool) (cores : Nat) (txs : List (SigTx M A)) :
    verifyBlockSigs verify tyOf batched cores txs = true ↔
      ∀ tx ∈ txs, verify tx.unsigned tx.auth = true := by
  unfold verifyBlockSigs
  rw [job_ok_iff_all]
  simp [blockItems]

/-- the same under every schedule of the worker pool (C26 job contract) -/
theorem block_sigs_run_ok_iff_all_verify_unsigned {M A : Type} (verify : M → A → Bool) (tyOf : A → Nat)
    (batched : Nat → Bool) (cores : Nat) (txs : List (SigTx M A)) (executed : List (List (M × A)))
    (err : Bool)
    (run : JobRun (fun x => verify x.1 x.2)
      (blockTasks (fun x => tyOf x.2) batched cores (blockItems txs)) executed err) :
    err = false ↔ ∀ tx ∈ txs, verify tx.unsigned tx.auth = true := by
  rw [job_run_ok_iff_all (fun x => tyOf x.2) batched (fun x => verify x.1 x.2) cores (blockItems txs)
    executed err run]
  simp [blockItems]

/-- **Overlapping signature jobs on one pool.** For any sequence of blocks whose signature jobs
share one worker pool (created / submitted / completed in any order, as happens when `Execute`
returns early on another error while its signature job is still running), every block's verdict
is determined by its own auths only: no error iff all of *its* auths verify. -/
theorem pool_verdicts_per_job (ty : α → Nat) (batched : Nat → Bool) (verify1 : α → Bool) (cores : Nat)
    (blocks : List (List α × JobObs α))
    (hsub : ∀ b ∈ blocks, b.2.tasks = blockTasks ty batched cores b.1)
    (run : PoolRun verify1 (blocks.map (·.2))) :
    ∀ b ∈ blocks, (b.2.err = false ↔ ∀ x ∈ b.1, verify1 x = true) := by
  intro b hb
  have hj : JobRun verify1 b.2.tasks b.2.executed b.2.err := run b.2 (List.mem_map.2 ⟨b, hb, rfl⟩)
  rw [hsub b hb] at hj
  exact job_run_ok_iff_all ty batched verify1 cores b.1 b.2.executed b.2.err hj

/-- a batched type's tasks succeed iff all its items verify (so verifying the last full batch a
second time when the count is an exact multiple of the batch size changes nothing) -/
theorem typeTasks_all_eq (verify1 : α → Bool) (cores : Nat) (xs : List α) :
    (typeTasks cores xs).all (taskOk verify1) = xs.all verify1 := by
  rw [Bool.eq_iff_iff, List.all_eq_true, List.all_eq_true]
  constructor
  · intro h x hx
    obtain ⟨t, ht, hxt⟩ := (typeTasks_mem cores xs x).2 hx
    have := h t ht
    simp only [taskOk, List.all_eq_true] at this
    exact this x hxt
  · intro h t ht
    simp only [taskOk, List.all_eq_true]
    intro x hxt
    exact h x ((typeTasks_mem cores xs x).1 ⟨t, ht, hxt⟩)

/-! Non-vacuity / the transcribed quirk: 8 items, 2 cores → batch size 4; the second full batch
is handed out by `Add` and again by `Done`. 5 items, 1 core → one batch of 5 (handed out twice). -/
example : typeTasks 2 [1, 2, 3, 4, 5, 6, 7, 8] = [[1, 2, 3, 4], [5, 6, 7, 8], [5, 6, 7, 8]] := by decide
example : typeTasks 1 [1, 2, 3, 4, 5] = [[1, 2, 3, 4, 5], [1, 2, 3, 4, 5]] := by decide
example : typeTasks 3 [1, 2, 3, 4, 5, 6] = [[1, 2, 3, 4], [5, 6]] := by decide
example : JobRun (fun (x : Nat) => x != 2) [[1], [2], [3]] [[2]] true :=
  ⟨⟨[[1], [3]], by decide⟩, by decide, by decide⟩

end HyperModel.Props.C16
