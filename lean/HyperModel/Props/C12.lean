import HyperModel.Model.Units
import HyperModel.Proofs.Units
/-! # C12 Block resource use is metered from declared keys and capped per block

Theorems about `Units.units` (transcription of `chain/transaction.go: Transaction.Units`,
`StateKeys`, `internal/math.Uint64Operator`), `Fees.consume` (`Manager.Consume`) and
`Units.consumeAll` (the per-block sequence of `Consume` calls made by
`chain/builder.go` / `chain/processor.go` on the manager returned by `ComputeNext`).

`exactCompute`, `exactStorage`, `acceptedSum` are exact (unbounded `Nat`) sums. All
statements hold for every input; `uint64` inputs are `Nat`s below `2^64` where a bound is
needed (stated as a hypothesis). -/
namespace HyperModel.Props.C12
open HyperModel.Window HyperModel.Fees HyperModel.Units HyperModel.FeesProofs HyperModel.UnitsProofs

/-- the declared key set: every declared key (of any action or of the sponsor) exactly once,
and all of them carry a chunk suffix -/
theorem stateKeys_valid (aks : List (List Key)) (sks : List Key) (ks : List Key)
    (h : stateKeys aks sks = some ks) :
    ks.Nodup ∧ (∀ k, k ∈ ks ↔ k ∈ aks.flatten ++ sks) ∧ (∀ k ∈ ks, (maxChunks k).isSome) := by
  unfold stateKeys at h
  simp only at h
  split at h
  · rename_i hall
    injection h with h; subst h
    refine ⟨dedup_nodup _, fun k => mem_dedup _ k, ?_⟩
    intro k hk
    have hk' := (mem_dedup _ k).mp hk
    have := List.all_eq_true.mp hall k hk'
    simp only [keyValid, decide_eq_true_eq] at this
    unfold maxChunks
    have : ¬ k.length < 2 := by omega
    simp [this]
  · cases h

theorem stateKeys_none_iff (aks : List (List Key)) (sks : List Key) :
    stateKeys aks sks = none ↔ ∃ k ∈ aks.flatten ++ sks, k.length < 2 := by
  unfold stateKeys
  simp only
  split
  · rename_i hall
    constructor
    · intro h; cases h
    · rintro ⟨k, hk, hlen⟩
      have := List.all_eq_true.mp hall k hk
      simp only [keyValid, decide_eq_true_eq] at this
      omega
  · rename_i hall
    simp only [true_iff]
    have hf : (aks.flatten ++ sks).all keyValid = false := by simpa using hall
    obtain ⟨k, hk, hlen⟩ := List.all_eq_false.mp hf
    simp only [keyValid, decide_eq_true_eq] at hlen
    exact ⟨k, hk, by omega⟩

/-- **C12** the unit formula with overflow rejected. With `C` the exact compute sum
(base + every action + auth) and `R/A/W` the exact read / allocate / write sums over the
distinct declared keys (`key cost + declared chunks × value cost` each), `Units` returns

* `overflow` if `C ≥ 2^64`;
* otherwise `ErrInvalidKeyValue` if some declared key is shorter than its chunk suffix;
* otherwise `overflow` if one of `R, A, W` is `≥ 2^64`;
* otherwise exactly `(size, C, R, A, W)`. -/
theorem units_formula (size : Nat) (r : UnitRules) (acus : List Nat) (auth : Nat)
    (aks : List (List Key)) (sks : List Key) (hb : r.baseCompute < two64) :
    units size r acus auth aks sks =
      if ¬ exactCompute r.baseCompute acus auth < two64 then .error .overflow
      else match stateKeys aks sks with
        | none => .error .badKey
        | some ks =>
          if exactStorage r.keyRead r.valRead ks < two64 ∧ exactStorage r.keyAlloc r.valAlloc ks < two64
              ∧ exactStorage r.keyWrite r.valWrite ks < two64 then
            .ok [size, exactCompute r.baseCompute acus auth, exactStorage r.keyRead r.valRead ks,
                 exactStorage r.keyAlloc r.valAlloc ks, exactStorage r.keyWrite r.valWrite ks]
          else .error .overflow := by
  unfold units
  rw [computeUnits_eq _ _ _ hb]
  by_cases hc : exactCompute r.baseCompute acus auth < two64
  · simp only [hc, if_true, not_true_eq_false, if_false]
    cases hk : stateKeys aks sks with
    | none => rfl
    | some ks =>
      simp only [storageUnits_eq]
      by_cases h1 : exactStorage r.keyRead r.valRead ks < two64 <;>
      by_cases h2 : exactStorage r.keyAlloc r.valAlloc ks < two64 <;>
      by_cases h3 : exactStorage r.keyWrite r.valWrite ks < two64 <;>
      simp [h1, h2, h3]
  · simp [hc]

/-- the value returned does not depend on the order in which the key set is enumerated
(Go iterates a map): the exact sums are permutation invariant -/
theorem units_order_independent (kc vc : Nat) (ks ks' : List Key) (h : ks.Perm ks') :
    storageUnits kc vc ks = storageUnits kc vc ks' := by
  rw [storageUnits_eq, storageUnits_eq]
  have : exactStorage kc vc ks = exactStorage kc vc ks' := by
    unfold exactStorage
    exact (h.map _).sum_nat
  rw [this]

/-- **C12** `Consume` is all-or-nothing and decides exactly "fits in every dimension":
on a manager of the right size either every dimension fits (no overflow, within the limit),
the call succeeds, each `lastConsumed` grows by the units and nothing else changes; or it
reports the first dimension that does not fit and the manager is unchanged. -/
theorem consume_all_or_nothing (r : Raw) (d l : Dims) (hr : r.length = rawWords) :
    ((∀ k, k < feeDimensions → Fits r d l k) ∧
      ∃ r', consume r d l = ((true, 0), r') ∧ r'.length = rawWords ∧
        (∀ k, k < feeDimensions → lastConsumed r' k = lastConsumed r k + dget d k) ∧
        (∀ j, (∀ k, k < feeDimensions → j ≠ consumedIdx k) → getWord r' j = getWord r j)) ∨
    (∃ i, i < feeDimensions ∧ ¬ Fits r d l i ∧ (∀ j, j < i → Fits r d l j) ∧
      consume r d l = ((false, i), r)) :=
  consume_spec r d l hr

/-- with `uint64` limits, "fits" is just `consumed + units ≤ limit` in exact arithmetic -/
theorem fits_iff (r : Raw) (d l : Dims) (k : Nat) (hl : dget l k < two64) :
    Fits r d l k ↔ lastConsumed r k + dget d k ≤ dget l k := by
  unfold Fits; constructor
  · exact fun h => h.2
  · exact fun h => ⟨by omega, h⟩

/-- **C12** invariant: a block's consumption stays within the per-dimension maximum, after
any sequence of offered transactions (accepted or not) -/
theorem consumed_le_max (l : Dims) (ds : List Dims) (r : Raw) (hr : r.length = rawWords)
    (h0 : ∀ k, k < feeDimensions → lastConsumed r k ≤ dget l k) :
    ∀ k, k < feeDimensions → lastConsumed (consumeAll l r ds).1 k ≤ dget l k :=
  (consumeAll_spec l ds r hr).2.2.2.1 h0

/-- **C12** the recorded block consumption is the consumption at the start of the block
(0 after `ComputeNext`) plus the exact sum of the units of the accepted transactions; a
transaction that does not fit contributes nothing; prices, windows and timestamp are
untouched. -/
theorem block_consumed_eq_sum (l : Dims) (ds : List Dims) (r : Raw) (hr : r.length = rawWords) :
    (∀ k, k < feeDimensions →
      lastConsumed (consumeAll l r ds).1 k = lastConsumed r k + acceptedSum ds (consumeAll l r ds).2 k) ∧
    (∀ j, (∀ k, k < feeDimensions → j ≠ consumedIdx k) →
      getWord (consumeAll l r ds).1 j = getWord r j) :=
  ⟨(consumeAll_spec l ds r hr).2.2.1, (consumeAll_spec l ds r hr).2.2.2.2⟩

/-- `UnitsConsumed()` of the manager `ComputeNext` returns is zero in every dimension, so a
block's recorded consumption is exactly the sum of its accepted transactions' units. -/
theorem block_from_zero (l : Dims) (ds : List Dims) (r : Raw) (hr : r.length = rawWords)
    (hz : ∀ k, k < feeDimensions → lastConsumed r k = 0) :
    ∀ k, k < feeDimensions →
      lastConsumed (consumeAll l r ds).1 k = acceptedSum ds (consumeAll l r ds).2 k := by
  intro k hk
  rw [(block_consumed_eq_sum l ds r hr).1 k hk, hz k hk, Nat.zero_add]

/-- **C12, verified blocks** (`Processor.executeTxs`, abort on the first failing `Consume`).
For a manager of the right size whose consumption is within the maximum `l` (it is 0 after
`ComputeNext`):

1. if the block is accepted, every transaction's `Units` succeeded, the recorded consumption
   is the start value plus the exact sum of **all** the block's transactions' units, it is
   within `l` in every dimension, and nothing but the consumption words changed;
2. a block whose transactions all have units is accepted **iff** in every dimension the
   start value plus the exact sum of all units is `≤ l`; in particular a block exceeding the
   maximum is rejected;
3. and that rejection is `ErrInvalidUnitsConsumed` for some dimension. -/
theorem processor_consumed_eq_sum_and_le_max (l : Dims) (r : Raw) (hr : r.length = rawWords)
    (hl : ∀ k, k < feeDimensions → dget l k < two64)
    (h0 : ∀ k, k < feeDimensions → lastConsumed r k ≤ dget l k) :
    (∀ us r', processTxs l r us = .ok r' →
      ∃ ds, us = ds.map Except.ok ∧
        (∀ k, k < feeDimensions → lastConsumed r' k = lastConsumed r k + sumDims ds k) ∧
        (∀ k, k < feeDimensions → lastConsumed r' k ≤ dget l k) ∧
        (∀ j, (∀ k, k < feeDimensions → j ≠ consumedIdx k) → getWord r' j = getWord r j)) ∧
    (∀ ds : List Dims, (∃ r', processTxs l r (ds.map Except.ok) = .ok r') ↔
      ∀ k, k < feeDimensions → lastConsumed r k + sumDims ds k ≤ dget l k) ∧
    (∀ (ds : List Dims) e, processTxs l r (ds.map Except.ok) = .error e →
      ∃ i, i < feeDimensions ∧ e = .tooLarge i) := by
  refine ⟨?_, ?_, ?_⟩
  · intro us r' h
    obtain ⟨ds, h1, _, h3, h4, h5⟩ := processTxs_ok l us r r' hr h
    exact ⟨ds, h1, h3, h4 h0, h5⟩
  · intro ds; exact (processTxs_accepts_iff l ds r hr hl h0).1
  · intro ds; exact (processTxs_accepts_iff l ds r hr hl h0).2

/-- **C12, the manager a block starts from.** Builder and processor meter every block on
`parent.ComputeNext(blockTime, rules)`; whatever the parent manager holds (its own block's
consumption) and whatever time separates the blocks, that manager has the right size and
zero consumption in every dimension. -/
theorem computeNext_starts_from_zero (rp : Raw) (t : Int) (targets denoms mins : Dims) (r0 : Raw)
    (h : computeNext rp t targets denoms mins = some r0) :
    r0.length = rawWords ∧ ∀ k, k < feeDimensions → lastConsumed r0 k = 0 :=
  computeNext_consumed_zero rp t targets denoms mins r0 h

/-- **C12, a verified block on any parent**: if the metering loop accepts the block on the
manager derived from the parent's fee state, the recorded consumption is exactly the sum of
this block's transactions' units (nothing of the parent's), within the maximum. -/
theorem verified_block_consumed_eq_own_sum (rp : Raw) (t : Int) (targets denoms mins l : Dims)
    (r0 r' : Raw) (us : List (Except UnitsErr Dims))
    (h0 : computeNext rp t targets denoms mins = some r0) (h : processTxs l r0 us = .ok r') :
    ∃ ds, us = ds.map Except.ok ∧
      (∀ k, k < feeDimensions → lastConsumed r' k = sumDims ds k) ∧
      (∀ k, k < feeDimensions → lastConsumed r' k ≤ dget l k) := by
  obtain ⟨hlen, hz⟩ := computeNext_consumed_zero rp t targets denoms mins r0 h0
  obtain ⟨ds, h1, _, h3, h4, _⟩ := processTxs_ok l us r0 r' hlen h
  refine ⟨ds, h1, ?_, ?_⟩
  · intro k hk; rw [h3 k hk, hz k hk, Nat.zero_add]
  · exact h4 (fun k hk => by rw [hz k hk]; exact Nat.zero_le _)

/-- a failing `Units` of some transaction rejects the block with that error, unless an earlier
transaction already exceeded the maximum -/
theorem processor_units_error (l : Dims) (r : Raw) (e : UnitsErr)
    (rest : List (Except UnitsErr Dims)) :
    processTxs l r (.error e :: rest) = .error (.units e) := rfl

/-- **C12, built blocks** (`Builder.BuildBlock`'s metering: skip a transaction that does not
fit, stop once the failing dimension has reached the target): the recorded consumption is the
start value plus the exact sum of the units of the **included** transactions, stays within
the maximum, and nothing else in the manager changes — whatever the target is. -/
theorem builder_consumed_eq_sum_and_le_max (l target : Dims) (ds : List Dims) (r : Raw)
    (hr : r.length = rawWords) :
    (buildAll l target r ds).2.length = ds.length ∧
    (∀ k, k < feeDimensions →
      lastConsumed (buildAll l target r ds).1 k
        = lastConsumed r k + acceptedSum ds (buildAll l target r ds).2 k) ∧
    ((∀ k, k < feeDimensions → lastConsumed r k ≤ dget l k) →
      ∀ k, k < feeDimensions → lastConsumed (buildAll l target r ds).1 k ≤ dget l k) ∧
    (∀ j, (∀ k, k < feeDimensions → j ≠ consumedIdx k) →
      getWord (buildAll l target r ds).1 j = getWord r j) :=
  (buildAll_spec l target ds r hr).2

/-! non-vacuity -/
example : (match processTxs [2, 2, 2, 2, 2] emptyRaw [.ok [1, 1, 1, 1, 1], .ok [1, 1, 1, 1, 2]] with
    | .ok _ => none | .error e => some e) = some (.tooLarge 4) := by decide
example : (match processTxs [2, 2, 2, 2, 2] emptyRaw [.ok [1, 1, 1, 1, 1], .ok [1, 1, 1, 1, 1]] with
    | .ok r => unitsConsumed r | .error _ => []) = [2, 2, 2, 2, 2] := by decide
example : (buildAll [2, 2, 2, 2, 2] [9, 9, 9, 9, 9] emptyRaw [[1, 1, 1, 1, 1], [0, 0, 0, 0, 2], [1, 0, 0, 0, 0]]).2
    = [true, false, true] := by decide
example : (buildAll [2, 2, 2, 2, 2] [9, 9, 9, 9, 1] emptyRaw [[1, 1, 1, 1, 1], [0, 0, 0, 0, 2], [1, 0, 0, 0, 0]]).2
    = [true, false, false] := by decide

def errOf (e : Except UnitsErr Dims) : Option UnitsErr :=
  match e with
  | .error x => some x
  | .ok _ => none

example : (units 100 ⟨1, 5, 2, 20, 5, 10, 10⟩ [3, 4] 2
    [[[0, 1, 0, 2], [0xaa, 0xbb, 0, 3]], [[0, 1, 0, 2]]] [[0xcc, 0, 1]]).toOption
    = some [100, 10, 27, 90, 90] := by decide
example : errOf (units 1 ⟨2 ^ 64 - 1, 0, 0, 0, 0, 0, 0⟩ [] 1 [] []) = some .overflow := by decide
example : errOf (units 1 ⟨1, 0, 0, 0, 0, 0, 0⟩ [] 1 [[[7]]] []) = some .badKey := by decide
example : (consume emptyRaw [1, 1, 1, 1, 3] [2, 2, 2, 2, 2]).1 = (false, 4) := by decide
example : (consume emptyRaw [1, 1, 1, 1, 2] [2, 2, 2, 2, 2]).1 = (true, 0) := by decide
example : emptyRaw.length = rawWords := by decide

end HyperModel.Props.C12
