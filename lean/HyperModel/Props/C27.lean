import HyperModel.Proofs.Genesis
import HyperModel.Model.Fees
/-!
# C27 Genesis state contains exactly the configured allocations and initial metadata

Model: `HyperModel/Model/Genesis.lean` (`genesisCommit` transcribes `chain.NewGenesisCommit`
with `genesis.DefaultGenesis.InitializeState` and the prefix balance handler). merkledb is
the parameter `root`, a function of the committed content.
-/
namespace HyperModel.Props.C27
open HyperModel.Genesis HyperModel.Proofs.Genesis HyperModel.Generated.C27

/-- what Go's types guarantee about the inputs: balances and prices are `uint64`, the
price vector is a `fees.Dimensions` array -/
def WF (c : Config) (allocs : List Alloc) : Prop :=
  (∀ al ∈ allocs, al.bal ≤ maxU64) ∧ c.minUnitPrice.length = feeDimensions

/-- no two state keys written at genesis coincide (what the prefix-conflict check of
property C39 gives a configured VM) -/
def KeysDisjoint (c : Config) (allocs : List Alloc) : Prop :=
  heightKey c ≠ timestampKey c ∧ heightKey c ≠ feeKey c ∧ timestampKey c ≠ feeKey c ∧
  ∀ al ∈ allocs, balanceKey c.balancePrefix al.addr ≠ heightKey c ∧
    balanceKey c.balancePrefix al.addr ≠ timestampKey c ∧
    balanceKey c.balancePrefix al.addr ≠ feeKey c

/-- the specified genesis state, as a total map: the three metadata keys, one key per
allocated address holding the sum of that address's allocations, and nothing else.
(The order of the tests is the order in which later inserts shadow earlier ones, so the
equation below holds even for conflicting prefixes; under `KeysDisjoint` the order is
irrelevant.) -/
def spec (c : Config) (allocs : List Alloc) (k : Bytes) : Option Bytes :=
  if feeKey c = k then some (feeBytes c.minUnitPrice)
  else if timestampKey c = k then some (be64 0)
  else if heightKey c = k then some (be64 0)
  else match allocs.find? (fun al => balanceKey c.balancePrefix al.addr = k) with
    | some al => some (be64 (sumFor al.addr allocs))
    | none => none

/-! ### the metadata inserts never fail -/

theorem verifyValue_encodeChunks (p v : Bytes) (c n : Nat) (hc : c < 65536)
    (hn : numChunks v = some n) (hle : n ≤ c) : verifyValue (encodeChunks p c) v = true := by
  simp [verifyValue, hn, maxChunks_encodeChunks p c hc, hle]

theorem feeDim_length (p : Nat) : (feeDim p).length = 8 + windowSliceSize + 8 := by
  simp only [feeDim, List.length_append, List.length_replicate, be64_length]

theorem feeBytes_length (prices : List Nat) (h : prices.length = feeDimensions) :
    (feeBytes prices).length = 8 + feeDimensions * (8 + windowSliceSize + 8) := by
  simp only [feeDimensions] at h
  match prices, h with
  | [a, b, c, d, e], _ =>
    simp only [feeBytes, feeDimensions, List.take_succ_cons, List.take_zero, List.flatMap_cons,
      List.flatMap_nil, List.length_append, feeDim_length, be64_length, List.length_nil]
    generalize windowSliceSize = w
    omega

theorem insert_height (m : KV) (c : Config) :
    viewInsert m (heightKey c) (be64 0) = .ok ((heightKey c, be64 0) :: m) := by
  unfold viewInsert heightKey
  rw [verifyValue_encodeChunks _ _ heightKeyChunks 1 (by decide) (numChunks_be64 0) (by decide)]
  rfl

theorem insert_timestamp (m : KV) (c : Config) :
    viewInsert m (timestampKey c) (be64 0) = .ok ((timestampKey c, be64 0) :: m) := by
  unfold viewInsert timestampKey
  rw [verifyValue_encodeChunks _ _ timestampKeyChunks 1 (by decide) (numChunks_be64 0) (by decide)]
  rfl

/-- the fee manager bytes (488 bytes = 8 chunks) fit the fee key's `FeeKeyChunks`; checked
against the constants of the running code -/
theorem insert_fee (m : KV) (c : Config) (h : c.minUnitPrice.length = feeDimensions) :
    viewInsert m (feeKey c) (feeBytes c.minUnitPrice)
      = .ok ((feeKey c, feeBytes c.minUnitPrice) :: m) := by
  unfold viewInsert feeKey
  have hn : numChunks (feeBytes c.minUnitPrice) = some 8 := by
    simp [numChunks, feeBytes_length _ h, feeDimensions, windowSliceSize, chunkSize]
  rw [verifyValue_encodeChunks _ _ feeKeyChunks 8 (by decide) hn (by decide)]
  rfl

/-! ### what `NewGenesisCommit` returns -/

/-- closed form of `genesisCommit`: it fails with the overflow error exactly when the
allocations total `2^64` or more, and otherwise returns the balances view topped with the three
metadata bindings and a header carrying the root of exactly that content. -/
theorem genesisCommit_cases (root : (Bytes → Option Bytes) → Nat) (c : Config)
    (allocs : List Alloc) (hwf : WF c allocs) :
    (total allocs > maxU64 ∧ genesisCommit root c allocs = .error .overflow) ∨
    (total allocs ≤ maxU64 ∧ ∃ m0, I1 c.balancePrefix m0 allocs ∧ I2 c.balancePrefix m0 allocs ∧
      let m3 := (feeKey c, feeBytes c.minUnitPrice) :: (timestampKey c, be64 0)
                  :: (heightKey c, be64 0) :: m0
      genesisCommit root c allocs
        = .ok (m3, { height := genesisHeaderHeight, timestamp := genesisHeaderTimestamp,
                     numTxs := 0, stateRoot := root (content m3) })) := by
  have hspec := initLoop_spec c.balancePrefix allocs [] 0 [] (by simp [total]) (by simp [maxU64])
    (by intro al h; cases h) (by intro k _; rfl) hwf.1
  simp only [List.nil_append] at hspec
  by_cases hov : total allocs > maxU64
  · left
    refine ⟨hov, ?_⟩
    unfold genesisCommit initializeState
    rw [hspec.2 hov]
  · right
    have hle : total allocs ≤ maxU64 := by omega
    obtain ⟨m0, hm0, h1, h2⟩ := hspec.1 hle
    refine ⟨hle, m0, h1, h2, ?_⟩
    unfold genesisCommit initializeState
    rw [hm0]
    simp only [insert_height, insert_timestamp, insert_fee _ _ hwf.2]

/-- **C27 (exactness)** — for every allocation list (duplicates, zeros, any order) and price
vector: if `NewGenesisCommit` succeeds, the committed state is *exactly* `spec`: every key
maps to what the specification says and every other key is absent. -/
theorem genesis_state_exact (root : (Bytes → Option Bytes) → Nat) (c : Config)
    (allocs : List Alloc) (hwf : WF c allocs) (m : KV) (hdr : Header)
    (hok : genesisCommit root c allocs = .ok (m, hdr)) :
    ∀ k, content m k = spec c allocs k := by
  rcases genesisCommit_cases root c allocs hwf with ⟨_, herr⟩ | ⟨_, m0, h1, h2, hm⟩
  · rw [herr] at hok; cases hok
  · simp only [] at hm
    rw [hm] at hok
    injection hok with hok
    injection hok with hm3 _
    subst hm3
    intro k
    unfold content spec
    simp only [get_cons]
    by_cases hf : feeKey c = k
    · simp [hf]
    · by_cases ht : timestampKey c = k
      · simp [hf, ht]
      · by_cases hh : heightKey c = k
        · simp [hf, ht, hh]
        · simp only [hf, ht, hh, if_false]
          cases hfind : allocs.find? (fun al => balanceKey c.balancePrefix al.addr = k) with
          | some al =>
            have hmem := List.mem_of_find?_eq_some hfind
            have hkey := List.find?_some hfind
            simp only [decide_eq_true_eq] at hkey
            rw [← hkey]
            exact h1 al hmem
          | none =>
            rw [List.find?_eq_none] at hfind
            apply h2
            intro al hal heq
            exact hfind al hal (by simpa using heq)

/-- under disjoint keys, the readable form of exactness: (1) every allocated address holds
the sum of its allocations, (2)–(4) height 0, timestamp 0, fee manager bytes, (5) no other
key exists. -/
theorem genesis_state_exact_disjoint (root : (Bytes → Option Bytes) → Nat) (c : Config)
    (allocs : List Alloc) (hwf : WF c allocs) (hd : KeysDisjoint c allocs) (m : KV) (hdr : Header)
    (hok : genesisCommit root c allocs = .ok (m, hdr)) :
    (∀ al ∈ allocs, content m (balanceKey c.balancePrefix al.addr)
        = some (be64 (sumFor al.addr allocs))) ∧
    content m (heightKey c) = some (be64 0) ∧
    content m (timestampKey c) = some (be64 0) ∧
    content m (feeKey c) = some (feeBytes c.minUnitPrice) ∧
    (∀ k, k ≠ heightKey c → k ≠ timestampKey c → k ≠ feeKey c →
      (∀ al ∈ allocs, k ≠ balanceKey c.balancePrefix al.addr) → content m k = none) := by
  have hex := genesis_state_exact root c allocs hwf m hdr hok
  obtain ⟨hht, hhf, htf, hbal⟩ := hd
  refine ⟨?_, ?_, ?_, ?_, ?_⟩
  · intro al hal
    rw [hex]
    obtain ⟨b1, b2, b3⟩ := hbal al hal
    unfold spec
    rw [if_neg (Ne.symm b3), if_neg (Ne.symm b2), if_neg (Ne.symm b1)]
    cases hfind : allocs.find? (fun x => balanceKey c.balancePrefix x.addr
        = balanceKey c.balancePrefix al.addr) with
    | some x =>
      have hkey := List.find?_some hfind
      simp only [decide_eq_true_eq] at hkey
      show some (be64 (sumFor x.addr allocs)) = _
      rw [balanceKey_inj _ _ _ hkey]
    | none =>
      rw [List.find?_eq_none] at hfind
      exact absurd (by simp) (hfind al hal)
  · rw [hex]; unfold spec
    rw [if_neg (Ne.symm hhf), if_neg (Ne.symm hht)]; simp
  · rw [hex]; unfold spec
    rw [if_neg (Ne.symm htf)]; simp
  · rw [hex]; unfold spec; simp
  · intro k k1 k2 k3 k4
    rw [hex]; unfold spec
    rw [if_neg (Ne.symm k3), if_neg (Ne.symm k2), if_neg (Ne.symm k1)]
    cases hfind : allocs.find? (fun x => balanceKey c.balancePrefix x.addr = k) with
    | some x =>
      have hmem := List.mem_of_find?_eq_some hfind
      have hkey := List.find?_some hfind
      simp only [decide_eq_true_eq] at hkey
      exact absurd hkey.symm (k4 x hmem)
    | none => rfl

/-- the committed content does not depend on the root function: with another `root'` the same
view is committed and the header differs only in carrying `root'` of that content -/
theorem genesisCommit_root_irrelevant (root root' : (Bytes → Option Bytes) → Nat) (c : Config)
    (allocs : List Alloc) (hwf : WF c allocs) (m : KV) (hdr : Header)
    (hok : genesisCommit root c allocs = .ok (m, hdr)) :
    genesisCommit root' c allocs = .ok (m, { hdr with stateRoot := root' (content m) }) := by
  rcases genesisCommit_cases root c allocs hwf with ⟨_, herr⟩ | ⟨hle, m0, _, _, hm⟩
  · rw [herr] at hok; cases hok
  rcases genesisCommit_cases root' c allocs hwf with ⟨hov, _⟩ | ⟨_, m0', _, _, hm'⟩
  · omega
  simp only [] at hm hm'
  rw [hm] at hok
  injection hok with hok
  injection hok with hm3 hh
  subst hm3; subst hh
  -- both runs start from the same `initializeState` result
  have h0 : m0 = m0' := by
    have e1 : initializeState c.balancePrefix allocs = .ok m0 := by
      unfold genesisCommit at hm
      cases hi : initializeState c.balancePrefix allocs with
      | error e => rw [hi] at hm; cases hm
      | ok x =>
        rw [hi] at hm
        simp only [insert_height, insert_timestamp, insert_fee _ _ hwf.2] at hm
        injection hm with hm; injection hm with hm _
        simp only [List.cons.injEq, true_and] at hm
        rw [hm]
    have e2 : initializeState c.balancePrefix allocs = .ok m0' := by
      unfold genesisCommit at hm'
      cases hi : initializeState c.balancePrefix allocs with
      | error e => rw [hi] at hm'; cases hm'
      | ok x =>
        rw [hi] at hm'
        simp only [insert_height, insert_timestamp, insert_fee _ _ hwf.2] at hm'
        injection hm' with hm'; injection hm' with hm' _
        simp only [List.cons.injEq, true_and] at hm'
        rw [hm']
    rw [e1] at e2
    injection e2
  subst h0
  exact hm'

/-- **C27 (root)** — the genesis block's `StateRoot` is the root of exactly the committed
content, its height is the configured genesis height (0) and it has no transactions; and, if
the root function identifies the committed content (no other map has the same root — the
collision-freeness merkledb provides, assumed here only *at this content*; see the
satisfiability example below), every map with the header's root is the specified state. -/
theorem genesis_root_is_header_root (root : (Bytes → Option Bytes) → Nat) (c : Config)
    (allocs : List Alloc) (hwf : WF c allocs) (m : KV) (hdr : Header)
    (hok : genesisCommit root c allocs = .ok (m, hdr)) :
    hdr.stateRoot = root (content m) ∧ hdr.height = 0 ∧ hdr.numTxs = 0 ∧
    ((∀ f, root f = root (content m) → f = content m) →
      ∀ f, root f = hdr.stateRoot → f = spec c allocs) := by
  have hex := genesis_state_exact root c allocs hwf m hdr hok
  rcases genesisCommit_cases root c allocs hwf with ⟨_, herr⟩ | ⟨_, m0, _, _, hm⟩
  · rw [herr] at hok; cases hok
  · simp only [] at hm
    rw [hm] at hok
    injection hok with hok
    injection hok with hm3 hh
    subst hm3; subst hh
    refine ⟨rfl, rfl, rfl, ?_⟩
    intro hinj f hf
    rw [hinj f hf]
    funext k
    exact hex k

/-- **C27 (overflow)** — allocations whose total does not fit in a `uint64` are rejected:
`NewGenesisCommit` returns the overflow error (an `Except` error carries no block and no
view), and conversely it fails in no other case. -/
theorem overflow_rejected (root : (Bytes → Option Bytes) → Nat) (c : Config)
    (allocs : List Alloc) (hwf : WF c allocs) :
    (total allocs > maxU64 → genesisCommit root c allocs = .error .overflow) ∧
    (total allocs ≤ maxU64 → ∃ m hdr, genesisCommit root c allocs = .ok (m, hdr)) := by
  rcases genesisCommit_cases root c allocs hwf with ⟨hov, herr⟩ | ⟨hle, m0, _, _, hm⟩
  · exact ⟨fun _ => herr, fun h => by omega⟩
  · exact ⟨fun h => by omega, fun _ => ⟨_, _, hm⟩⟩

/-- **C27 (zero allocations)** — observed semantics of "holding the configured allocation"
for the prefix balance handler and the reference VM's handler (same code): an address whose
allocations sum to zero still gets a key, holding eight zero bytes; and appending a zero
allocation for an address that is already allocated changes nothing. -/
theorem zero_allocation_behaviour (root : (Bytes → Option Bytes) → Nat) (c : Config)
    (allocs : List Alloc) (hwf : WF c allocs) (hd : KeysDisjoint c allocs) (m : KV) (hdr : Header)
    (hok : genesisCommit root c allocs = .ok (m, hdr)) :
    (∀ al ∈ allocs, sumFor al.addr allocs = 0 →
      content m (balanceKey c.balancePrefix al.addr) = some [0, 0, 0, 0, 0, 0, 0, 0]) ∧
    (∀ a, (∃ al ∈ allocs, al.addr = a) →
      spec c (allocs ++ [(⟨a, 0⟩ : Alloc)]) = spec c allocs) := by
  constructor
  · intro al hal hz
    rw [(genesis_state_exact_disjoint root c allocs hwf hd m hdr hok).1 al hal, hz]
    rfl
  · rintro a ⟨x, hx, hxa⟩
    funext k
    unfold spec
    have hfind : (allocs ++ [(⟨a, 0⟩ : Alloc)]).find?
          (fun al => balanceKey c.balancePrefix al.addr = k)
        = allocs.find? (fun al => balanceKey c.balancePrefix al.addr = k) := by
      rw [List.find?_append]
      cases h : allocs.find? (fun al => balanceKey c.balancePrefix al.addr = k) with
      | some y => rfl
      | none =>
        rw [List.find?_eq_none] at h
        have hxk := h x hx
        simp only [decide_eq_true_eq] at hxk
        simpa [← hxa] using hxk
    rw [hfind]
    cases allocs.find? (fun al => balanceKey c.balancePrefix al.addr = k) with
    | none => rfl
    | some y =>
      have : sumFor y.addr (allocs ++ [(⟨a, 0⟩ : Alloc)]) = sumFor y.addr allocs := by
        rw [sumFor_snoc]; simp
      simp only [this]

/-! ### the fee bytes decoded by the fee-manager model of C13 (`Model/Fees.lean`) -/

open HyperModel in
theorem b2w_be64 (n : Nat) (h : n ≤ maxU64) (rest : Bytes) :
    Fees.bytesToWords (be64 n ++ rest) = n :: Fees.bytesToWords rest := by
  simp only [be64, List.cons_append, List.nil_append, Fees.bytesToWords, Fees.readBE64,
    UInt8.toNat_ofNat']
  simp only [maxU64] at h
  congr 1
  omega

theorem b2w_zeros (k : Nat) (rest : Bytes) :
    Fees.bytesToWords (List.replicate (8 * k) 0 ++ rest)
      = List.replicate k 0 ++ Fees.bytesToWords rest := by
  induction k with
  | zero => simp
  | succ k ih =>
    have e : List.replicate (8 * (k + 1)) (0 : UInt8)
        = 0 :: 0 :: 0 :: 0 :: 0 :: 0 :: 0 :: 0 :: List.replicate (8 * k) 0 := by
      have : 8 * (k + 1) = 8 * k + 1 + 1 + 1 + 1 + 1 + 1 + 1 + 1 := by omega
      rw [this]
      simp only [List.replicate_succ]
    rw [e]
    simp only [List.cons_append, Fees.bytesToWords, ih]
    simp [Fees.readBE64, List.replicate_succ]

/-- the genesis fee bytes, decoded by the C13 fee-manager model: last-update time 0 and, for
every dimension, unit price = the configured minimum price, an all-zero window, zero
consumption -/
theorem genesis_unit_prices_are_min (a b c d e : Nat) (ha : a ≤ maxU64) (hb : b ≤ maxU64)
    (hc : c ≤ maxU64) (hd : d ≤ maxU64) (he : e ≤ maxU64) :
    let raw := Fees.bytesToWords (feeBytes [a, b, c, d, e])
    Fees.decode raw =
      { ts := 0, dims := [a, b, c, d, e].map fun p =>
          { price := p, window := Window.zeros, consumed := 0 } } := by
  intro raw
  have hz : (0 : Nat) ≤ maxU64 := by simp [maxU64]
  have hw : windowSliceSize = 8 * 10 := rfl
  have hraw : raw = [0, a, 0,0,0,0,0,0,0,0,0,0, 0, b, 0,0,0,0,0,0,0,0,0,0, 0,
      c, 0,0,0,0,0,0,0,0,0,0, 0, d, 0,0,0,0,0,0,0,0,0,0, 0, e, 0,0,0,0,0,0,0,0,0,0, 0] := by
    simp only [raw, feeBytes, feeDimensions, List.take_succ_cons, List.take_zero, List.flatMap_cons,
      List.flatMap_nil, feeDim, hw, List.append_assoc, List.append_nil]
    simp only [b2w_be64 _ hz, b2w_be64 _ ha, b2w_be64 _ hb, b2w_be64 _ hc, b2w_be64 _ hd,
      b2w_be64 _ he, b2w_zeros]
    have : be64 0 = be64 0 ++ [] := by simp
    rw [this, b2w_be64 _ hz]
    simp [Fees.bytesToWords, List.replicate_succ]
  rw [hraw]
  rfl

/-- **C27 (which rules)** — the genesis unit prices are the minimum prices of the rules in
force at the genesis *state* timestamp 0 (`ruleFactory.GetRules(0)`), whatever the rule
factory answers for any other time — in particular for the genesis header's timestamp: two
rule factories that agree at time 0 give the same genesis (state, root, header), and the fee
entry is `feeBytes (rf 0)`. -/
theorem genesis_prices_are_rules_at_zero (root : (Bytes → Option Bytes) → Nat)
    (bp hp tp fp : Bytes) (rf rf' : PriceRules) (allocs : List Alloc) (h0 : rf 0 = rf' 0) :
    genesisCommitRF root bp hp tp fp rf allocs = genesisCommitRF root bp hp tp fp rf' allocs ∧
    (∀ m hdr, (∀ al ∈ allocs, al.bal ≤ maxU64) → (rf 0).length = feeDimensions →
      genesisCommitRF root bp hp tp fp rf allocs = .ok (m, hdr) →
      content m (encodeChunks fp feeKeyChunks) = some (feeBytes (rf 0))) := by
  constructor
  · simp only [genesisCommitRF, h0]
  · intro m hdr hb hl hok
    have hex := genesis_state_exact root _ allocs ⟨hb, hl⟩ m hdr hok (encodeChunks fp feeKeyChunks)
    rw [hex]
    simp [spec, feeKey]

/-- **C27 (reusable genesis)** — in the model `InitializeState` / `NewGenesisCommit` are pure
functions of the genesis value `(c, allocs)`: the value is an input only (it cannot be
altered), so initialising twice — on two fresh databases, or after any encoding round trip
`dec (enc x) = x` of the value — yields the same result: same error, or same committed
content, same header and root. Trivial in Lean; the obligation is on the Go side, where the
genesis is a mutable object (`[]*CustomAllocation`): the tie runs the same object twice and
once after a JSON round trip and compares the allocation list before/after. -/
theorem initialize_idempotent_on_input {E : Type} (root : (Bytes → Option Bytes) → Nat)
    (enc : Config × List Alloc → E) (dec : E → Config × List Alloc)
    (hrt : ∀ x, dec (enc x) = x) (c : Config) (allocs : List Alloc) :
    let first := genesisCommit root c allocs
    let again := genesisCommit root c allocs
    let viaCodec := genesisCommit root (dec (enc (c, allocs))).1 (dec (enc (c, allocs))).2
    again = first ∧ viaCodec = first ∧
    (∀ m hdr, first = .ok (m, hdr) → again = .ok (m, hdr) ∧ hdr.stateRoot = root (content m)) ∧
    initializeState c.balancePrefix allocs = initializeState c.balancePrefix allocs := by
  intro first again viaCodec
  refine ⟨rfl, by simp only [viaCodec, first, hrt], ?_, rfl⟩
  intro m hdr h
  refine ⟨h, ?_⟩
  simp only [first] at h
  unfold genesisCommit at h
  repeat' split at h
  all_goals first | (cases h; done) | skip
  injection h with h
  injection h with hm hh
  subst hm; subst hh
  rfl

/-! ### non-vacuity: concrete runs of the model -/

private def c0 : Config :=
  { balancePrefix := [3], heightPrefix := [0], timestampPrefix := [1], feePrefix := [2],
    minUnitPrice := [100, 100, 100, 100, 100] }

set_option maxRecDepth 8192 in
example : ∃ m hdr, genesisCommit (fun _ => 7) c0 [⟨[9], 5⟩, ⟨[9], 7⟩, ⟨[8], 0⟩] = .ok (m, hdr)
    ∧ content m (balanceKey [3] [9]) = some (be64 12)
    ∧ content m (balanceKey [3] [8]) = some (be64 0) := ⟨_, _, rfl, rfl, rfl⟩
example : genesisCommit (fun _ => 7) c0 [⟨[9], maxU64⟩, ⟨[8], 1⟩] = .error .overflow := rfl
/-- the hypothesis of `genesis_root_is_header_root`'s last clause is satisfiable together with a
successful genesis: a root function that identifies the committed content exists -/
example : ∃ (root : (Bytes → Option Bytes) → Nat) (m : KV) (hdr : Header),
    genesisCommit root c0 [⟨[9], 5⟩, ⟨[9], 7⟩, ⟨[8], 0⟩] = .ok (m, hdr) ∧
    (∀ f, root f = root (content m) → f = content m) := by
  classical
  have hwf : WF c0 [⟨[9], 5⟩, ⟨[9], 7⟩, ⟨[8], 0⟩] := by
    refine ⟨?_, rfl⟩
    intro al h; simp at h; rcases h with rfl | rfl | rfl <;> simp [maxU64]
  obtain ⟨m, hdr, h⟩ := (overflow_rejected (fun _ => 0) c0 _ hwf).2 (by simp [total, maxU64])
  refine ⟨fun f => if f = content m then 0 else 1, m, _,
    genesisCommit_root_irrelevant _ _ c0 _ hwf m hdr h, ?_⟩
  intro f hf
  by_cases hfe : f = content m
  · exact hfe
  · simp [hfe] at hf

example : WF c0 [⟨[9], 5⟩, ⟨[9], 7⟩, ⟨[8], 0⟩] ∧ KeysDisjoint c0 [⟨[9], 5⟩, ⟨[9], 7⟩, ⟨[8], 0⟩] := by
  refine ⟨⟨?_, rfl⟩, ?_⟩
  · intro al h; simp at h; rcases h with rfl | rfl | rfl <;> simp [maxU64]
  · refine ⟨by decide, by decide, by decide, ?_⟩
    intro al h; simp at h; rcases h with rfl | rfl | rfl <;> decide

end HyperModel.Props.C27
