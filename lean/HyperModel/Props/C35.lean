import HyperModel.Model.DSMR
import HyperModel.Proofs.DSMR
/-! # C35 Accepting a DSMR block yields its referenced chunks whether local or fetched

Model: `HyperModel.DSMR.accept` (transcription of `Node.Accept` with the repair
`/verif/fixes/C35-use-fetched-chunk-and-check-id.patch`).  The peer is a script of answers
(`Resp`): application errors, well-formed chunks with any id (valid or not), send failures. -/
namespace HyperModel.Props.C35
open HyperModel.DSMR

/-- the request loop only ever appends the chunk whose id the certificate names -/
theorem fetch_id (cfg : Cfg) (want : Nat) (sc : List Resp) :
    ∀ (s : Storage) (s' : Storage) (sc' : List Resp) (j : Nat),
      fetch cfg want s sc = (s', sc', some j) → j = want := by
  induction sc with
  | nil => intro s s' sc' j h; simp [fetch] at h
  | cons r rest ih =>
    intro s s' sc' j h
    cases r with
    | appErr => exact ih s s' sc' j (by simpa [fetch] using h)
    | sendFail => simp [fetch] at h
    | peer =>
      unfold fetch at h
      split at h
      · exact ih s s' sc' j h
      · split at h
        · simp only [Prod.mk.injEq, Option.some.injEq] at h; omega
        · simp only [Prod.mk.injEq, Option.some.injEq] at h; omega
        · simp at h
        · exact ih s s' sc' j h
    | chunk k =>
      unfold fetch at h
      split at h
      · exact ih s s' sc' j h
      · rename_i hk
        have hk : k = want := by simpa using hk
        split at h
        · simp only [Prod.mk.injEq, Option.some.injEq] at h; omega
        · simp only [Prod.mk.injEq, Option.some.injEq] at h; omega
        · simp at h
        · exact ih s s' sc' j h

theorem acceptLoop_ids (cfg : Cfg) (certs : List Cert) :
    ∀ (s : Storage) (sc : List Resp) (acc : List Nat) (s' : Storage) (r : List Nat),
      acceptLoop cfg s certs sc acc = (s', some r) → r = acc ++ certs.map (·.chunkID) := by
  induction certs with
  | nil => intro s sc acc s' r h; simp [acceptLoop] at h; simp [h.2]
  | cons c rest ih =>
    intro s sc acc s' r h
    unfold acceptLoop at h
    split at h
    · have := ih _ _ _ _ _ h; simpa using this
    · split at h
      · rename_i s1 sc1 j hf
        have hj := fetch_id cfg c.chunkID sc s s1 sc1 j hf
        have := ih _ _ _ _ _ h
        subst hj
        simpa using this
      · simp at h

/-- **C35 (1)** if `Accept` succeeds, the executed block contains exactly the chunks the
block's certificates reference, in certificate order — whatever was local, whatever the
peers answered (errors, invalid chunks, valid chunks with other ids) and in any order. -/
theorem accept_chunks_eq_referenced (cfg : Cfg) (n n' : Node) (b : Block) (script : List Resp)
    (chunks : List Nat) (h : accept cfg n b script = (n', .ok chunks)) :
    chunks = b.certs.map (·.chunkID) := by
  unfold accept at h
  split at h
  · simp at h
  · rename_i st1 cs hl
    have := acceptLoop_ids cfg b.certs _ _ _ _ _ hl
    split at h
    · simp at h
    · simp only [Prod.mk.injEq, AcceptOut.ok.injEq] at h
      rw [← h.2, this]; simp

/-- the chunks of `certs` that `GetChunkBytes` does not find, in certificate order -/
def missing (cfg : Cfg) (s : Storage) (certs : List Cert) : List Nat :=
  (certs.filter (fun c => !getBytes cfg s c.expiry c.chunkID)).map (·.chunkID)

/-- "the peers eventually serve a valid chunk with the requested id for each missing chunk":
for each missing chunk in turn the script continues with any answers other than a send
failure (application errors, invalid chunks, valid chunks with other ids …), then the chunk
with the requested id, which passes the node's chunk verifier. -/
inductive Serves (cfg : Cfg) (vmin : Nat) : List Nat → List Resp → Prop
  | nil (sc : List Resp) : Serves cfg vmin [] sc
  | cons (want : Nat) (rest : List Nat) (pre post : List Resp) :
      (∀ r ∈ pre, r ≠ Resp.sendFail ∧ r ≠ Resp.chunk want ∧ r ≠ Resp.peer) →
      verifyChunk cfg vmin want = none →
      Serves cfg vmin rest post →
      Serves cfg vmin (want :: rest) (pre ++ Resp.chunk want :: post)

theorem fetch_serves (cfg : Cfg) (want : Nat) (post : List Resp) (pre : List Resp) :
    ∀ (s : Storage), hasPending s want = false → verifyChunk cfg s.vmin want = none →
      (∀ r ∈ pre, r ≠ Resp.sendFail ∧ r ≠ Resp.chunk want ∧ r ≠ Resp.peer) →
      fetch cfg want s (pre ++ Resp.chunk want :: post) = (putVerified cfg s want none, post, some want) := by
  induction pre with
  | nil =>
    intro s hp hv _
    simp only [List.nil_append, fetch, ne_eq, not_true_eq_false, if_false]
    simp [verifyRemote, find_none_of_not_pending s want hp, hv]
  | cons r rest ih =>
    intro s hp hv hpre
    have hr := hpre r (by simp)
    have hrest : ∀ r ∈ rest, r ≠ Resp.sendFail ∧ r ≠ Resp.chunk want ∧ r ≠ Resp.peer :=
      fun r' h' => hpre r' (by simp [h'])
    cases r with
    | appErr => simpa [fetch] using ih s hp hv hrest
    | sendFail => exact absurd rfl hr.1
    | peer => exact absurd rfl hr.2.2
    | chunk k =>
      have hk : k ≠ want := fun e => hr.2.1 (by rw [e])
      simp only [List.cons_append, fetch, ne_eq, hk, not_false_eq_true, if_true]
      exact ih s hp hv hrest

theorem vmin_putVerified (cfg : Cfg) (s : Storage) (i : Nat) (c : Option Cert) :
    (putVerified cfg s i c).vmin = s.vmin := by
  unfold putVerified; split
  · cases c <;> rfl
  · rfl

theorem dbAccepted_putVerified (cfg : Cfg) (s : Storage) (i : Nat) (c : Option Cert) :
    (putVerified cfg s i c).dbAccepted = s.dbAccepted := by
  unfold putVerified; split
  · cases c <;> rfl
  · rfl

theorem acceptLoop_ok (cfg : Cfg) (certs : List Cert) :
    ∀ (s : Storage) (sc : List Resp) (acc : List Nat),
      (certs.map (·.chunkID)).Nodup →
      (∀ c ∈ certs, getBytes cfg s c.expiry c.chunkID = true → hasPending s c.chunkID = true) →
      Serves cfg s.vmin (missing cfg s certs) sc →
      ∃ s', acceptLoop cfg s certs sc acc = (s', some (acc ++ certs.map (·.chunkID))) ∧
        (∀ c ∈ certs, hasPending s' c.chunkID = true) ∧
        (∀ i, hasPending s i = true → hasPending s' i = true) := by
  induction certs with
  | nil => intro s sc acc _ _ _; exact ⟨s, by simp [acceptLoop], by simp, fun _ h => h⟩
  | cons c rest ih =>
    intro s sc acc hnd hloc hserve
    have hnd' : (rest.map (·.chunkID)).Nodup := (List.nodup_cons.1 (by simpa using hnd)).2
    have hnotin : c.chunkID ∉ rest.map (·.chunkID) := (List.nodup_cons.1 (by simpa using hnd)).1
    unfold acceptLoop
    by_cases hg : getBytes cfg s c.expiry c.chunkID = true
    · simp only [hg, if_true]
      have hm : missing cfg s (c :: rest) = missing cfg s rest := by simp [missing, hg]
      rw [hm] at hserve
      obtain ⟨s', h1, h2, h3⟩ := ih s sc (acc ++ [c.chunkID]) hnd' (fun c' hc' => hloc c' (by simp [hc'])) hserve
      refine ⟨s', by simpa using h1, ?_, h3⟩
      intro c' hc'
      rcases List.mem_cons.1 hc' with rfl | hc'
      · exact h3 _ (hloc _ (by simp) hg)
      · exact h2 c' hc'
    · have hg' : getBytes cfg s c.expiry c.chunkID = false := by simpa using hg
      have hnp : hasPending s c.chunkID = false := by
        simp only [getBytes, Bool.or_eq_false_iff] at hg'; exact hg'.1
      simp only [hg', Bool.false_eq_true, if_false]
      have hm : missing cfg s (c :: rest) = c.chunkID :: missing cfg s rest := by
        simp [missing, hg']
      rw [hm] at hserve
      cases hserve with
      | cons _ _ pre post hpre hv hrest =>
        rw [fetch_serves cfg c.chunkID post pre s hnp hv hpre]
        simp only
        let s1 := putVerified cfg s c.chunkID none
        have hgb : ∀ c' ∈ rest, getBytes cfg s1 c'.expiry c'.chunkID = getBytes cfg s c'.expiry c'.chunkID := by
          intro c' hc'
          have hne : c'.chunkID ≠ c.chunkID := fun e => hnotin (e ▸ List.mem_map_of_mem hc')
          have hb : (c'.chunkID == c.chunkID) = false := by simpa using hne
          simp [getBytes, s1, hasPending_putVerified, dbAccepted_putVerified, hb]
        have hm' : missing cfg s1 rest = missing cfg s rest := by
          simp only [missing]
          congr 1
          apply List.filter_congr
          intro c' hc'
          rw [hgb c' hc']
        have hv1 : s1.vmin = s.vmin := vmin_putVerified cfg s c.chunkID none
        obtain ⟨s', h1, h2, h3⟩ := ih s1 post (acc ++ [c.chunkID]) hnd'
          (fun c' hc' hg1 => by
            rw [hgb c' hc'] at hg1
            have := hloc c' (by simp [hc']) hg1
            simp [s1, hasPending_putVerified, this])
          (by rw [hm', hv1]; exact hrest)
        refine ⟨s', by simpa using h1, ?_, ?_⟩
        · intro c' hc'
          rcases List.mem_cons.1 hc' with rfl | hc'
          · exact h3 _ (by simp [s1, hasPending_putVerified])
          · exact h2 c' hc'
        · intro i hi
          exact h3 i (by simp [s1, hasPending_putVerified, hi])

theorem saveLoop_ok (cfg : Cfg) (ids : List Nat) :
    ∀ (s : Storage) (acc : List Nat), ids.Nodup → (∀ i ∈ ids, hasPending s i = true) →
      (saveLoop cfg s ids acc).2.2 = true := by
  induction ids with
  | nil => intro s acc _ _; rfl
  | cons i rest ih =>
    intro s acc hnd hp
    have hi := hp i (by simp)
    simp only [saveLoop, hi, if_true]
    apply ih
    · exact (List.nodup_cons.1 hnd).2
    · intro j hj
      have hne : j ≠ i := fun e => (List.nodup_cons.1 hnd).1 (e ▸ hj)
      simp [hasPending_discard, hp j (by simp [hj]), hne]

/-- **C35 (2)** acceptance succeeds once a peer serves a valid chunk: for a block that
references each chunk once (what `Verify` enforces) and none that this node already stored
as accepted only (i.e. none that was included before, C37), and for *every* response script
that, for each missing chunk in turn, eventually contains the requested chunk in a form that
passes the chunk verifier — after any number of failed, invalid or mismatching answers —
`Accept` returns the block's chunks.

There is deliberately **no rate-limit side condition**: `n.st` is any storage, in particular
one whose `sizes` put the chunk's producer at or beyond `cfg.limit` (`rateOk … = false`, a
lagging validator that attested newer pending chunks of the same producer). The per-producer
limit is a policy of the *signature-request* path (`ChunkSignatureRequestVerifier.Verify` calls
`CheckRateLimit` before `VerifyRemoteChunk`); `VerifyRemoteChunk`, which `Accept` uses to store
a chunk that consensus has already ordered, must not consult it — see
`accept_succeeds_at_rate_limit` and `verifyRemote_ignores_rate_limit`. -/
theorem accept_succeeds_once_valid_served (cfg : Cfg) (n : Node) (b : Block) (script : List Resp)
    (hnd : (b.certs.map (·.chunkID)).Nodup)
    (hloc : ∀ c ∈ b.certs, getBytes cfg n.st c.expiry c.chunkID = true → hasPending n.st c.chunkID = true)
    (hserve : Serves cfg n.st.vmin (missing cfg n.st b.certs) script) :
    (accept cfg n b script).2 = .ok (b.certs.map (·.chunkID)) := by
  obtain ⟨s', h1, h2, _⟩ := acceptLoop_ok cfg b.certs n.st script [] hnd hloc hserve
  unfold accept
  rw [h1]
  simp only [List.nil_append]
  have hs : (setMin cfg s' b.ts b.ids).2 = true := by
    unfold setMin
    have := saveLoop_ok cfg b.ids { s' with min := b.ts } [] hnd (by
      intro i hi
      obtain ⟨c, hc, rfl⟩ := List.mem_map.1 hi
      exact h2 c hc)
    simp [this]
  split
  · rename_i st2 heq
    rw [heq] at hs; simp at hs
  · rfl

/-- the shape of a script that "eventually serves the requested chunk for each missing chunk":
for each missing chunk in turn any answers other than a send failure (application errors, invalid
chunks, chunks with other ids …), then the chunk with the requested id. -/
inductive ServesShape : List Nat → List Resp → Prop
  | nil (sc : List Resp) : ServesShape [] sc
  | cons (want : Nat) (rest : List Nat) (pre post : List Resp) :
      (∀ r ∈ pre, r ≠ Resp.sendFail ∧ r ≠ Resp.chunk want ∧ r ≠ Resp.peer) →
      ServesShape rest post → ServesShape (want :: rest) (pre ++ Resp.chunk want :: post)

theorem serves_of_shape (cfg : Cfg) (vmin : Nat) (ms : List Nat) (sc : List Resp) (h : ServesShape ms sc)
    (hv : ∀ i ∈ ms, verifyChunk cfg vmin i = none) : Serves cfg vmin ms sc := by
  induction h with
  | nil sc => exact Serves.nil sc
  | cons want rest pre post hpre _ ih =>
    exact Serves.cons want rest pre post hpre (hv want (by simp)) (ih (fun i hi => hv i (by simp [hi])))

/-- a chunk is valid *for block `b`* in the terms `Verify` applies to its certificate: signed by
a validator, and `b.ts ≤ expiry ≤ b.ts + window`. -/
def validAt (cfg : Cfg) (b : Block) (i : Nat) : Prop :=
  (cfg.U i).valid = true ∧ b.ts ≤ (cfg.U i).expiry ∧ (cfg.U i).expiry ≤ b.ts + cfg.window

/-- **C35 (2), in block terms** the referenced chunks are valid for the block (what `Verify`
checked on the certificates), the node's chunk verifier stands at a timestamp not after the block
(`vmin` = timestamp of the last accepted block), and — the extra condition the code needs, see
`accept_never_succeeds_beyond_verifier_window` — every missing chunk's expiry is also within the
window counted from `vmin` (true for chunks certified by validators that checked them against
their own last accepted timestamp on this chain). Then `Accept` succeeds for every script of the
shape `ServesShape`. -/
theorem accept_succeeds_once_block_valid_served (cfg : Cfg) (n : Node) (b : Block) (script : List Resp)
    (hnd : (b.certs.map (·.chunkID)).Nodup)
    (hloc : ∀ c ∈ b.certs, getBytes cfg n.st c.expiry c.chunkID = true → hasPending n.st c.chunkID = true)
    (hvalid : ∀ c ∈ b.certs, validAt cfg b c.chunkID)
    (hmin : n.st.vmin ≤ b.ts)
    (hwin : ∀ i ∈ missing cfg n.st b.certs, (cfg.U i).expiry ≤ n.st.vmin + cfg.window)
    (hserve : ServesShape (missing cfg n.st b.certs) script) :
    (accept cfg n b script).2 = .ok (b.certs.map (·.chunkID)) := by
  apply accept_succeeds_once_valid_served cfg n b script hnd hloc
  apply serves_of_shape cfg _ _ _ hserve
  intro i hi
  obtain ⟨c, hc, rfl⟩ := List.mem_map.1 hi
  have hv := hvalid c (List.mem_filter.1 hc).1
  have hw := hwin c.chunkID hi
  unfold validAt at hv
  simp only [verifyChunk]
  rw [if_neg (by omega), if_neg (by omega)]
  simp [hv.1]

theorem fetch_none_of_rejected (cfg : Cfg) (want : Nat) (sc : List Resp) :
    ∀ (s : Storage), hasPending s want = false → verifyChunk cfg s.vmin want ≠ none →
      (fetch cfg want s sc).2.2 = none ∧ (fetch cfg want s sc).1 = s := by
  induction sc with
  | nil => intro s _ _; simp [fetch]
  | cons r rest ih =>
    intro s hp hv
    cases r with
    | appErr => simpa [fetch] using ih s hp hv
    | sendFail => simp [fetch]
    | peer =>
      cases hvc : verifyChunk cfg s.vmin want with
      | none => exact absurd hvc hv
      | some e =>
        have : verifyRemote cfg s want = (s, .err e) := by
          simp [verifyRemote, find_none_of_not_pending s want hp, hvc]
        simp only [fetch, this]
        split <;> exact ih s hp hv
    | chunk k =>
      by_cases hk : k = want
      · subst hk
        cases hvc : verifyChunk cfg s.vmin k with
        | none => exact absurd hvc hv
        | some e =>
          have : verifyRemote cfg s k = (s, .err e) := by
            simp [verifyRemote, find_none_of_not_pending s k hp, hvc]
          simp only [fetch, ne_eq, not_true_eq_false, if_false, this]
          exact ih s hp hv
      · simp only [fetch, ne_eq, hk, not_false_eq_true, if_true]
        exact ih s hp hv

/-- **C35 counterexample (known finding `accept-rejects-chunk-valid-at-block-timestamp`)** a
block at timestamp `ts` may reference a chunk with `vmin + window < expiry ≤ ts + window`: the
chunk is valid for the block (`Verify` accepts the certificate) but `VerifyRemoteChunk` judges it
against the node's last `SetMin` and rejects it as "too far in the future" — whatever the peers
serve, and however often they serve the right chunk, `Accept` never succeeds. -/
theorem accept_never_succeeds_beyond_verifier_window (cfg : Cfg) (n : Node) (b : Block) (c : Cert)
    (script : List Resp) (hb : b.certs = [c])
    (hmiss : getBytes cfg n.st c.expiry c.chunkID = false)
    (hbeyond : n.st.vmin + cfg.window < (cfg.U c.chunkID).expiry) :
    (accept cfg n b script).2 = .fetch := by
  have hp : hasPending n.st c.chunkID = false := by
    simp only [getBytes, Bool.or_eq_false_iff] at hmiss; exact hmiss.1
  have hv : verifyChunk cfg n.st.vmin c.chunkID ≠ none := by
    simp only [verifyChunk]
    split
    · simp
    · first
        | simp
        | (rw [if_pos (by omega)]; simp)
  have hf := (fetch_none_of_rejected cfg c.chunkID script n.st hp hv).1
  unfold accept
  rw [hb]
  simp only [acceptLoop, hmiss, Bool.false_eq_true, if_false]
  generalize hfe : fetch cfg c.chunkID n.st script = r at hf
  obtain ⟨s', sc', o⟩ := r
  simp only at hf
  subst hf
  rfl

def futCfg : Cfg := { U := fun _ => ⟨1, 6, 100, true⟩, window := 5, limit := 1000, maxSkew := 30 }
/-- the witness replayed by the harness: verifier minimum 0, window 5, a block at 3 referencing a
valid chunk with expiry 6 ≤ 3 + 5 -/
example : validAt futCfg ⟨1, 0, 1, 3, [⟨2, 6, true⟩]⟩ 2 := by
  simp [validAt, futCfg]
example : (accept futCfg Node.init ⟨1, 0, 1, 3, [⟨2, 6, true⟩]⟩
    [.chunk 2, .chunk 2, .chunk 2]).2 = .fetch := by decide

/-- `VerifyRemoteChunk` does not depend on the rate limit or on the pending weights: a chunk
that is not pending and passes the chunk verifier is stored, whatever `cfg.limit`/`sizes` say. -/
theorem verifyRemote_ignores_rate_limit (cfg : Cfg) (s : Storage) (i : Nat)
    (hp : hasPending s i = false) (hv : verifyChunk cfg s.vmin i = none) :
    verifyRemote cfg s i = (putVerified cfg s i none, .stored) := by
  simp [verifyRemote, find_none_of_not_pending s i hp, hv]

/-- the peer path: a request answered by the peer node's real `GetChunkHandler`, which serves the
chunk whenever `GetChunkBytes` finds it on the peer (pending *or accepted*, whatever the peer's
minimum slot), ends the fetch with the requested chunk stored. -/
theorem fetch_from_serving_peer (cfg : Cfg) (want : Nat) (s : Storage) (post : List Resp)
    (hp : hasPending s want = false) (hv : verifyChunk cfg s.vmin want = none)
    (hs : cfg.peerServes want = true) :
    fetch cfg want s (Resp.peer :: post) = (putVerified cfg s want none, post, some want) := by
  simp [fetch, hs, verifyRemote, find_none_of_not_pending s want hp, hv]

/-- **C35 (2) at the rate limit** the same conclusion when *every* referenced chunk's producer
sits at or beyond its pending-weight limit on the accepting node (`CheckRateLimit` would refuse
each of them): the hypothesis is not needed, acceptance still succeeds. -/
theorem accept_succeeds_at_rate_limit (cfg : Cfg) (n : Node) (b : Block) (script : List Resp)
    (_hlimit : ∀ c ∈ b.certs, rateOk cfg n.st c.chunkID = false)
    (hnd : (b.certs.map (·.chunkID)).Nodup)
    (hloc : ∀ c ∈ b.certs, getBytes cfg n.st c.expiry c.chunkID = true → hasPending n.st c.chunkID = true)
    (hserve : Serves cfg n.st.vmin (missing cfg n.st b.certs) script) :
    (accept cfg n b script).2 = .ok (b.certs.map (·.chunkID)) :=
  accept_succeeds_once_valid_served cfg n b script hnd hloc hserve

/-! non-vacuity: a concrete block with one local and one missing chunk; the peer first
answers with an error, an invalid chunk and a valid chunk with another id. -/
def exU : Nat → Info := fun i => ⟨1, 10, 100, i != 9⟩
def exCfg : Cfg := { U := exU, window := 20, limit := 1000, maxSkew := 30 }
def exNode : Node := { Node.init with st := putVerified exCfg Storage.empty 1 none }
def exBlock : Block := { id := 1, parent := 0, height := 1, ts := 2, certs := [⟨1, 10, true⟩, ⟨2, 10, true⟩] }
def exScript : List Resp := [.appErr, .chunk 9, .chunk 3, .chunk 2, .appErr]

example : (accept exCfg exNode exBlock exScript).2 = .ok [1, 2] := by decide
example : missing exCfg exNode.st exBlock.certs = [2] := by decide
example : Serves exCfg exNode.st.vmin (missing exCfg exNode.st exBlock.certs) exScript := by
  have : missing exCfg exNode.st exBlock.certs = [2] := by decide
  rw [this]
  exact Serves.cons 2 [] [.appErr, .chunk 9, .chunk 3] [.appErr] (by decide) (by decide) (Serves.nil _)
/-- the mismatching valid chunk 3 is not stored by the repaired code -/
example : hasPending (accept exCfg exNode exBlock exScript).1.st 3 = false := by decide

/-! non-vacuity at the rate limit: limit 150, the producer already has 100 pending (chunk 1), so
`CheckRateLimit` refuses every further 100-byte chunk of that producer — the lagging validator
still fetches and accepts the missed chunk 2. -/
def limCfg : Cfg := { exCfg with limit := 150 }
example : rateOk limCfg exNode.st 2 = false := by decide
example : rateOk limCfg exNode.st 1 = false := by decide
example : ∀ c ∈ exBlock.certs, rateOk limCfg exNode.st c.chunkID = false := by decide
example : (accept limCfg exNode exBlock exScript).2 = .ok [1, 2] := by decide
example : Serves limCfg exNode.st.vmin (missing limCfg exNode.st exBlock.certs) exScript := by
  have : missing limCfg exNode.st exBlock.certs = [2] := by decide
  rw [this]
  exact Serves.cons 2 [] [.appErr, .chunk 9, .chunk 3] [.appErr] (by decide) (by decide) (Serves.nil _)
/-- exactly at the limit (pending weight = limit) -/
example : rateOk { exCfg with limit := 100 } exNode.st 2 = false ∧
    (accept { exCfg with limit := 100 } exNode exBlock exScript).2 = .ok [1, 2] := by decide

end HyperModel.Props.C35
