import HyperModel.Proofs.Snow
import HyperModel.Proofs.SnowLink
import HyperModel.Proofs.SnowCache
/-! # C20 The consensus wrapper drives the chain through a valid block lifecycle

Model: `HyperModel/Model/Snow.lean` (transcription of `snow/block.go`, `snow/vm.go`,
`snow/chain_index.go`, `internal/cache/fifo.go`).  `Reach` = the states reachable from a freshly
initialised, ready VM by engine calls and accepter steps (`deq`, `fin`) in **any** interleaving.
`ReachOK` additionally requires every call to satisfy the snowman discipline `pre` (`EngineOK`).
-/
namespace HyperModel.Props.C20
open HyperModel.Snow

/-- calls of normal operation (everything except `StartStateSync` / `FinishStateSync`, see C21) -/
def normal : Op → Bool
  | .start _ | .finish _ _ => false
  | _ => true

/-- reachable by ANY sequence of normal-operation calls and accepter steps (no engine discipline) -/
inductive Reach (c p w : Nat) (g : Blk) : Sys → Prop
  | init : Reach c p w g (Sys.init c p w g true)
  | step {y : Sys} (op : Op) : Reach c p w g y → normal op = true → Reach c p w g (y.step op)

/-- reachable by `EngineOK` call sequences with accepter steps placed anywhere -/
inductive ReachOK (c p w : Nat) (g : Blk) : Sys → Prop
  | init : ReachOK c p w g (Sys.init c p w g true)
  | step {y : Sys} (op : Op) : ReachOK c p w g y → normal op = true → pre y.s y.e op = true →
      ReachOK c p w g (y.step op)

theorem ReachOK.reach {c p w g y} (h : ReachOK c p w g y) : Reach c p w g y := by
  induction h with
  | init => exact .init
  | step op _ hn _ ih => exact .step op ih hn

theorem heap_init (c p w : Nat) (g : Blk) : Heap g (init c p w g true) := by
  have hobj : ∀ h, (init c p w g true).obj h =
      if h = 0 then ⟨g, true, some ⟨g, [g.id]⟩, true, some ⟨g, [g.id]⟩⟩ else default := by
    intro h
    simp only [init, State.obj, State.emit, State.setLastAccepted, if_true]
    by_cases e : h = 0 <;> simp [Map.set, Map.empty, e]
  refine ⟨?_, ?_, ?_, ?_, ?_, ?_, ?_⟩
  · intro h hv
    rw [hobj] at hv ⊢
    by_cases e : h = 0
    · simp only [e, if_true]
      exact ⟨⟨g, [g.id]⟩, rfl, rfl, mem_prodFrom_of_mem _ (by simp [out0])⟩
    · simp [e] at hv
      exact absurd hv (by decide)
  · intro id h hh
    simp [init, State.emit, State.setLastAccepted, Map.empty] at hh
  · intro id h hh
    have hh' : (Fifo.put ⟨max c 1, [], Map.empty⟩ g.id 0).m id = some h := by
      simpa [init, State.emit, State.setLastAccepted, State.obj, Map.set, Map.empty] using hh
    rcases Fifo.put_m _ _ _ _ _ hh' with ⟨rfl, rfl⟩ | h'
    · rw [hobj]; exact ⟨by simp [init, State.emit, State.setLastAccepted], by simp⟩
    · simp [Map.empty] at h'
  · simp [init, State.emit, State.setLastAccepted, checkLog, parentOKEv]
  · simp [init, State.emit, State.setLastAccepted, checkLog, acceptOKEv]
  · intro h hh
    simp [init, State.emit, State.setLastAccepted] at hh
  · simp [init, State.emit, State.setLastAccepted]

theorem heap_step {g : Blk} {s : State} (hs : Heap g s) (op : Op) (hn : normal op = true) :
    Heap g (step s op).1 := by
  unfold HyperModel.Snow.step
  split
  · exact hs
  · cases op with
    | build n c => exact hs.build n c
    | parse b => exact hs.parse b
    | verify h c => dsimp only; split; exact hs.verify h c ‹_›; exact hs
    | accept h => dsimp only; split; exact hs.accept h ‹_›; exact hs
    | reject h => dsimp only; split; exact hs.reject h; exact hs
    | pref id => exact hs.congr rfl rfl rfl rfl rfl rfl rfl rfl
    | get id => exact hs.get id
    | getH ht => exact hs.getH ht
    | last => exact hs
    | deq => exact hs.deq
    | fin => exact hs.fin
    | start b => simp [normal] at hn
    | finish b st => simp [normal] at hn
    | health => exact hs
    | ciLast => exact hs
    | ciPref => exact hs

theorem heap_reach {c p w g y} (h : Reach c p w g y) : Heap g y.s := by
  induction h with
  | init => exact heap_init c p w g
  | step op _ hn ih => exact heap_step ih op hn

/-- **verify_only_on_verified_parent** — in every reachable state (any call sequence, any placement
of the accepter's steps; the engine discipline is not even needed) every inner
`VerifyBlock(parent, b)` call in the log was made with a non-empty parent output that belongs to
block `b.parent` and was produced by a strictly earlier successful `VerifyBlock`/`BuildBlock`
(or is the initial last-accepted output). -/
theorem verify_only_on_verified_parent {c p w g y} (h : Reach c p w g y) :
    checkLog parentOKEv [out0 g] y.s.log = true :=
  (heap_reach h).parents

/-- the same, spelled out for a single call: splitting the log at any `VerifyBlock` event -/
theorem verify_parent_explicit {c p w g y} (h : Reach c p w g y) (pre post : List Event)
    (po : Option Out) (b : Blk) (r : Option Out) (hl : y.s.log = pre ++ .cVerify po b r :: post) :
    ∃ o, po = some o ∧ o.blk.id = b.parent ∧ o ∈ prodFrom [out0 g] pre := by
  have := verify_only_on_verified_parent h
  rw [hl, checkLog_append] at this
  simp only [checkLog, Bool.and_eq_true] at this
  obtain ⟨_, h2, _⟩ := this
  cases po with
  | none => simp [parentOKEv] at h2
  | some o =>
    simp only [parentOKEv, Bool.and_eq_true, beq_iff_eq, List.contains_iff_mem] at h2
    exact ⟨o, rfl, h2.1, h2.2⟩

/-- **accept_in_height_order_once, part "each previously verified"** — every `AcceptBlock(_, o)` call
of the inner chain gets a non-empty output that an earlier successful `VerifyBlock`/`BuildBlock`
produced (any call sequence, any interleaving). -/
theorem accepted_blocks_verified {c p w g y} (h : Reach c p w g y) :
    checkLog acceptOKEv [out0 g] y.s.log = true :=
  (heap_reach h).accepts

/-- every verified object carries the output of its own block, and only accepted-queue members that
passed verification are ever queued (so the accepter never sees an unverified block) -/
theorem queued_blocks_verified {c p w g y} (h : Reach c p w g y) (j : Nat)
    (hj : j ∈ y.s.queue ∨ ∃ pa, y.s.inflight = some (j, pa)) :
    ∃ o, (y.s.obj j).out = some o ∧ o.blk = (y.s.obj j).blk := by
  obtain ⟨_, hv⟩ := (heap_reach h).queue j hj
  obtain ⟨o, a1, a2, _⟩ := (heap_reach h).ver j hv
  exact ⟨o, a1, a2⟩

theorem link_reachOK {c p w g y} (h : ReachOK c p w g y) : Link g y.s y.e := by
  induction h with
  | init => exact Link.init c p w g
  | step op hr hn hp ih =>
    refine ih.step (heap_reach hr.reach) op ?_ hp
    cases op <;> simp_all [normal]

theorem linked_lt (p : Blk) (l : List Blk) (h : linked p l = true) :
    (∀ b ∈ l, p.height < b.height) ∧ l.Pairwise (fun a b => a.height < b.height) := by
  induction l generalizing p with
  | nil => simp
  | cons b r ih =>
    simp only [linked, Bool.and_eq_true, beq_iff_eq] at h
    obtain ⟨⟨_, h2⟩, h3⟩ := h
    obtain ⟨i1, i2⟩ := ih b h3
    refine ⟨?_, List.pairwise_cons.mpr ⟨i1, i2⟩⟩
    intro x hx
    rcases List.mem_cons.mp hx with rfl | hx
    · omega
    · have := i1 x hx; omega

theorem linked_height (p : Blk) (l : List Blk) (h : linked p l = true) (i : Nat) (hi : i < l.length) :
    l[i].height = p.height + i + 1 := by
  induction l generalizing p i with
  | nil => simp at hi
  | cons b r ih =>
    simp only [linked, Bool.and_eq_true, beq_iff_eq] at h
    obtain ⟨⟨_, h2⟩, h3⟩ := h
    cases i with
    | zero => simp [h2]
    | succ j =>
      simp only [List.getElem_cons_succ]
      rw [ih b h3 j (by simpa using hi)]
      omega

/-- **accept_in_height_order_once** — for every `EngineOK` call sequence and every placement of the
accepter's steps: the blocks the inner chain's `AcceptBlock` has been called with, followed by the
blocks still in the accept pipeline, are exactly the engine's accept decisions in order (so the
`AcceptBlock` log is a prefix of them: same order, nothing extra, nothing twice); these decisions
form a parent-linked chain from the initial block with consecutive heights, so the `i`-th
`AcceptBlock` call is for height `g.height + i + 1` and no block is accepted twice; and every
accepted output was produced by an earlier successful `VerifyBlock`/`BuildBlock`. -/
theorem accept_in_height_order_once {c p w g y} (h : ReachOK c p w g y) :
    acceptLog y.s.log ++ y.s.pend.map (fun j => (y.s.obj j).blk) = y.e.accepts
    ∧ linked g y.e.accepts = true
    ∧ (∀ i (hi : i < (acceptLog y.s.log).length), ((acceptLog y.s.log)[i]).height = g.height + i + 1)
    ∧ (acceptLog y.s.log).Nodup
    ∧ checkLog acceptOKEv [out0 g] y.s.log = true := by
  have hl := link_reachOK h
  have hacc := hl.acc
  have hlk := hl.chain.1
  rw [← hacc] at hlk
  refine ⟨hacc, hl.chain.1, ?_, ?_, accepted_blocks_verified h.reach⟩
  · intro i hi
    have := linked_height g _ hlk i (by simp; omega)
    rw [List.getElem_append_left hi] at this
    exact this
  · have hpw := (linked_lt g _ hlk).2
    have hpw' : (acceptLog y.s.log).Pairwise (fun a b => a.height < b.height) :=
      (List.pairwise_append.mp hpw).1
    exact hpw'.imp (fun hab => by intro e; subst e; omega)

/-- **rejected_never_accepted** — no block handed to the inner chain's `AcceptBlock` was ever rejected
by the engine, nor announced to the rejected-subscribers (by id). -/
theorem rejected_never_accepted {c p w g y} (h : ReachOK c p w g y) :
    (∀ a ∈ acceptLog y.s.log, ∀ r ∈ y.e.rejects, a.id ≠ r.id) ∧
    (∀ a ∈ acceptLog y.s.log, ∀ r ∈ nRej y.s.log, a.id ≠ r.id) := by
  have hl := link_reachOK h
  have hsub : ∀ a ∈ acceptLog y.s.log, a ∈ y.e.accepts := by
    intro a ha; rw [← hl.acc]; exact List.mem_append_left _ ha
  refine ⟨fun a ha r hr => hl.disj a (hsub a ha) r hr, fun a ha r hr => ?_⟩
  rw [hl.nrej] at hr
  exact hl.disj a (hsub a ha) r hr

/-- **notifications_match_decisions** — verified-subscribers are notified exactly with the results of
the successful inner `VerifyBlock` calls, in order, and these are the engine's successful `Verify`
decisions on blocks that were not already verified (locally built blocks are skipped, as in the
code); accepted-subscribers are notified with the startup block and then exactly the results of the
`AcceptBlock` calls, in order (which by `accept_in_height_order_once` are the engine's accept
decisions minus the blocks still in the pipeline); rejected-subscribers are notified exactly with
the engine's reject decisions, in order; the pre-ready subscribers are never notified. -/
theorem notifications_match_decisions {c p w g y} (h : ReachOK c p w g y) :
    nVer y.s.log = verifyRes y.s.log ∧ (nVer y.s.log).map (·.blk) = y.e.verifs
    ∧ nAcc y.s.log = acc0 g :: acceptRes y.s.log
    ∧ (nAcc y.s.log).length + y.s.pend.length = y.e.accepts.length + 1
    ∧ nRej y.s.log = y.e.rejects
    ∧ nPre y.s.log = [] := by
  have hl := link_reachOK h
  refine ⟨hl.nver, by rw [hl.nver]; exact hl.verifs, hl.nacc, ?_, hl.nrej, hl.npre⟩
  have h1 : (acceptRes y.s.log).length = (acceptLog y.s.log).length := by
    generalize y.s.log = l
    induction l with
    | nil => rfl
    | cons e r ih =>
      cases e <;> simp_all [acceptRes, acceptLog, List.filterMap_cons]
      rename_i o _; cases o <;> simp_all
  have h2 := congrArg List.length hl.acc
  simp only [List.length_append, List.length_map] at h2
  rw [hl.nacc, List.length_cons, h1]; omega

theorem normal_match (op : Op) :
    normal op = true → (match op with | .start _ | .finish _ _ => false | _ => true) = true := by
  cases op <;> simp [normal]

theorem cache_reachOK {c p w g y} (h : ReachOK c p w g y) : Cache g y.s y.e ∧ y.s.crashed = false := by
  induction h with
  | init => exact ⟨Cache.init c p w g, by simp [Sys.init, HyperModel.Snow.init, State.emit, State.setLastAccepted]⟩
  | @step y op hr hn hp ih =>
    have hn' := normal_match op hn
    have hl := link_reachOK hr
    have hh := heap_reach hr.reach
    exact ⟨ih.1.step hl hh op hn' hp, no_crash_step ih.1 hl op hn' ih.2⟩

/-- **lookups_return_accepted_chain** — for every `EngineOK` history and every placement of the
accepter's steps: `LastAccepted` is the engine's last accept decision; for every accepted block `b`
(the initial block or an accept decision) within index retention (`window = 0`, or fewer than
`window` heights below the tip) `GetBlock(b.id)` returns an object carrying exactly `b` (the accepted
object from the cache or a bare copy from the index, whatever the caches evicted), and
`GetBlockByHeight(b.height)` returns an object carrying exactly `b`.
No id-uniqueness assumption on parsed blocks is needed: the proof only uses that accepted ids are
pairwise distinct, which follows from `EngineOK` (a decided id is never verified again). -/
theorem lookups_return_accepted_chain {c p w g y} (h : ReachOK c p w g y) (b : Blk) (hb : b ∈ g :: y.e.accepts)
    (hret : y.s.idx.window = 0 ∨ y.e.lastAcc.height < b.height + y.s.idx.window) :
    step y.s .last = (y.s, .id y.e.lastAcc.id) ∧ y.e.lastAcc = lastOr g y.e.accepts ∧
    (∃ j, (step y.s (.get b.id)).2 = .handle j ∧ ((step y.s (.get b.id)).1.obj j).blk = b) ∧
    (∃ j, (step y.s (.getH b.height)).2 = .handle j ∧ ((step y.s (.getH b.height)).1.obj j).blk = b) := by
  have hl := link_reachOK h
  have hh := heap_reach h.reach
  obtain ⟨hc, hcr⟩ := cache_reachOK h
  refine ⟨by simp [HyperModel.Snow.step, hcr, hl.la.1], hl.chain.2.symm, ?_, ?_⟩
  · have := get_accepted hc hl hh b hb hret
    simpa [HyperModel.Snow.step, hcr] using this
  · have := getH_accepted hc hl hh b hb hret
    simpa [HyperModel.Snow.step, hcr] using this

/-- **queue_drains** — for every `EngineOK` history (including the listed configuration assumption
`window = 0 ∨ pending + 1 < window` on `accept`): the accepter never crashes; whenever a block is in
flight `fin` succeeds and shortens the pipeline by one; whenever the accepter is idle and the channel
is non-empty `deq` succeeds (its parent lookup finds the parent: it is an accepted block within
index retention), keeps the pipeline and puts the head in flight.  Neither step depends on
`chainLock` or engine state, so the pipeline of `n` blocks drains in `2n` accepter steps. -/
theorem queue_drains {c p w g y} (h : ReachOK c p w g y) :
    y.s.crashed = false ∧
    (∀ j pa, y.s.inflight = some (j, pa) → (fin y.s).2 = .ok ∧ (fin y.s).1.pend.length + 1 = y.s.pend.length) ∧
    (∀ j rest, y.s.inflight = none → y.s.queue = j :: rest →
      (deq y.s).2 = .ok ∧ (deq y.s).1.pend = y.s.pend ∧ ((deq y.s).1.inflight.map (·.1)) = some j) := by
  have hl := link_reachOK h
  obtain ⟨hc, hcr⟩ := cache_reachOK h
  refine ⟨hcr, ?_, ?_⟩
  · intro j pa hi
    simp [fin, hi, State.pend]
    rfl
  · intro j rest hi hq
    have hf := deq_parent_found hc hl j rest hi hq
    cases hview : y.s.view (y.s.getBlock (y.s.obj j).blk.parent) with
    | none => simp [hview] at hf
    | some p' => simp [deq, hi, hq, hview, State.pend]

/-- **preference_only_set_by_engine** — no call other than `SetPreference` (and no accepter step) changes
the VM's preference; in particular `Accept`/`setLastAccepted` does not reset it to the accepted
block (normal operation; `StartStateSync`/`FinishStateSync` are only tied, not proved). -/
theorem preference_only_set_by_engine (s : State) (op : Op)
    (hn : (match op with | .start _ | .finish _ _ | .pref _ => false | _ => true) = true) :
    (step s op).1.preferred = s.preferred :=
  preferred_stable s op hn

/-- `BuildBlock` hands the inner chain the Output of the block `GetBlock(preference)` returns, and
`ConsensusIndex.GetPreferredBlock` reports the same block's Output -/
theorem build_uses_preference (s : State) (n : Nat) (c : Option Nat) (p : Obj)
    (hp : s.view (s.getBlock s.preferred) = some p) :
    (∃ r, (build s n c).1.log = s.log ++ [.cBuild p.out r]) ∧
    (∀ o, p.verified = true → p.out = some o → ciPref s = .out o) := by
  refine ⟨?_, ?_⟩
  · unfold HyperModel.Snow.build
    simp only [hp]
    split
    · exact ⟨none, rfl⟩
    · rename_i b o _; exact ⟨some o, rfl⟩
  · intro o hv ho
    simp [ciPref, hp, hv, ho]

/-! non-vacuity: a concrete EngineOK run (build, verify, fork, accept, reject, process) -/
def demoOps : List Op :=
  [.build 101 none, .verify 1 none, .parse ⟨102, 100, 1, false, none⟩, .verify 2 none, .accept 2, .deq, .reject 1, .fin, .last]
def demo : Sys := (Sys.init 2 2 0 ⟨100, 99, 0, false, none⟩ true).run demoOps
example : engineOK (Sys.init 2 2 0 ⟨100, 99, 0, false, none⟩ true) demoOps = true := by decide
example : acceptLog demo.s.log = [⟨102, 100, 1, false, none⟩] := by decide
example : (verifyRes demo.s.log).length = 1 := by decide

end HyperModel.Props.C20
