import HyperModel.Proofs.CanotoTyped
import HyperModel.Proofs.CanotoTx
/-!
# C15 Transactions, blocks, batches and results have one canonical encoding

Model: `Model/Canoto.lean`.  The registered action/auth parsers are parameters; what the
theorems need of them is stated as `Canonical` (accepted bytes are the value's `Bytes()`), which
is exactly what the unrepaired linearcodec-based parsers violate (`c15_counterexample`) and what
the harness tests on the real parsers in every run.
-/
namespace HyperModel.Props.C15
open HyperModel.Canoto

/-- A registered parser accepts only the `Bytes()` of the value it returns. -/
def Canonical {α} (p : Parser α) : Prop := ∀ b a, p.parse b = some a → p.bytes a = b
/-- A registered parser accepts the `Bytes()` of every value. -/
def Complete {α} (p : Parser α) : Prop := ∀ a, p.parse (p.bytes a) = some a

/-! ## one canoto message (any of the generated codecs) -/

/-- Accepted bytes re-encode identically (so the accepted language is within the image of
`encode`), and the decoded message is valid. -/
theorem flat_encode_decode {spec : Spec} (hs : SpecOK spec) {b : Bytes} {m : Msg}
    (h : decode spec b = some m) : encode spec m = b ∧ validMsg spec 0 m = true :=
  ⟨(decode_sound hs h).1.symm, (decode_sound hs h).2⟩

/-- Every valid message decodes from its encoding (the image of `encode` is accepted). -/
theorem flat_decode_encode {spec : Spec} (hs : SpecOK spec) {m : Msg}
    (h : validMsg spec 0 m = true) : decode spec (encode spec m) = some m :=
  decode_complete hs h

/-- Two accepted byte strings with the same decoded message are equal: unknown fields,
reordered or duplicated fields, padded varints, explicit zero values and trailing bytes are all
rejected, whatever the message type. -/
theorem flat_injective {spec : Spec} (hs : SpecOK spec) {b1 b2 : Bytes} {m : Msg}
    (h1 : decode spec b1 = some m) (h2 : decode spec b2 = some m) : b1 = b2 := by
  rw [(decode_sound hs h1).1, (decode_sound hs h2).1]

/-! ## Base -/

theorem base_encode_decode {b : Bytes} {base : Base} (h : decodeBase b = some base) :
    encodeBase base = b := by
  unfold decodeBase at h
  cases hd : decode baseSpec b with
  | none => simp [hd] at h
  | some m =>
    simp only [hd, Option.some.injEq] at h
    subst h
    obtain ⟨hb, hv⟩ := decode_sound baseSpec_ok hd
    unfold encodeBase Base.toMsg
    simp only [zigzag_unzigzag]
    rw [← base_canon hv]; exact hb.symm

/-! ## transactions -/

section tx
variable {A Au : Type} (pa : Parser A) (pu : Parser Au)

/-- the auth field as it appears at the end of a signed transaction -/
def authField (auth : Bytes) : Bytes := if auth.isEmpty then [] else tagByte 3 2 :: lenPrefixed auth

theorem encode_tx_split (baseB : Bytes) (acts : List Bytes) (auth : Bytes) :
    encode txSpec (serializeTxMsg baseB acts auth) =
      encode txSpec (serializeTxMsg baseB acts []) ++ authField auth := by
  unfold serializeTxMsg authField
  rw [encode_append, encode_append, encode_append]
  congr 1
  · simp [optBytes, encode]
  · unfold optBytes
    split <;> simp [encode, txSpec, encEntry]

/-- **encode_decode**: every byte string accepted by `UnmarshalTx` (with canonical registered
parsers) is exactly the encoding `NewTransaction` produces from the decoded base, actions and
auth. -/
theorem encode_decode (hca : Canonical pa) (hcu : Canonical pu) {b : Bytes} {t : Tx A Au}
    (h : decodeTx pa pu b = some t) : encodeTx pa pu t = b := by
  unfold decodeTx at h
  cases hd : decode txSpec b with
  | none => simp [hd] at h
  | some m =>
    simp only [hd] at h
    cases hbase : decodeBase (getBytes m 1) with
    | none => simp [hbase] at h
    | some base =>
      simp only [hbase] at h
      cases hacts : mapM? pa.parse (getList m 2) with
      | none => simp [hacts] at h
      | some actions =>
        simp only [hacts] at h
        cases hauth : pu.parse (getBytes m 3) with
        | none => simp [hauth] at h
        | some auth =>
          simp only [hauth, Option.some.injEq] at h
          subst h
          obtain ⟨hb, hv⟩ := decode_sound txSpec_ok hd
          unfold encodeTx serializeTxMsg
          simp only [base_encode_decode hbase, mapM?_map hca _ _ hacts, hcu _ _ hauth]
          rw [← tx_canon hv]; exact hb.symm

/-- **decode_encode**: the encoding of every well-formed transaction value (int64 timestamp,
32-byte chain id, 8-byte fee, parsers that accept their own `Bytes()`) is accepted and decodes to
that value; with `encode_decode` the accepted language is exactly the image of `encodeTx`. -/
theorem decode_encode (hpa : Complete pa) (hpu : Complete pu) (t : Tx A Au)
    (hts : -(2 ^ 63 : Int) ≤ t.base.timestamp ∧ t.base.timestamp < 2 ^ 63)
    (hcid : t.base.chainID.length = 32) (hfee : t.base.maxFee.length = 8)
    (hlen : ∀ a ∈ t.actions, (pa.bytes a).length < 2 ^ 64) (hal : (pu.bytes t.auth).length < 2 ^ 64) :
    decodeTx pa pu (encodeTx pa pu t) = some t := by
  have hb := HyperModel.Estimate.encodeBase_length_le t.base hts hcid hfee
  have hlen' : ∀ e ∈ t.actions.map pa.bytes, e.length < 2 ^ 64 := by
    intro e he
    obtain ⟨a, ha, rfl⟩ := List.mem_map.mp he
    exact hlen a ha
  have hv := serializeTxMsg_valid (encodeBase t.base) (t.actions.map pa.bytes) (pu.bytes t.auth)
    (by omega) hlen' hal
  obtain ⟨g1, g2, g3⟩ := serializeTxMsg_get (encodeBase t.base) (t.actions.map pa.bytes) (pu.bytes t.auth)
  unfold decodeTx encodeTx
  rw [decode_complete txSpec_ok hv]
  simp only [g1, g2, g3, base_decode_encode t.base hts hcid hfee, mapM?_of_map hpa, hpu t.auth]

/-- what `UnmarshalCanotoFrom` needs of the flat layer: an accepted `b` is the signed message
(computed by slicing, as the code does) followed by the auth field — no parser assumption. -/
theorem tx_bytes_split {b : Bytes} {m : Msg} (hd : decode txSpec b = some m) :
    b = unsignedSlice b (getBytes m 3) ++ authField (getBytes m 3) ∧
    unsignedSlice b (getBytes m 3) = encode txSpec (serializeTxMsg (getBytes m 1) (getList m 2) []) := by
  obtain ⟨hb, hv⟩ := decode_sound txSpec_ok hd
  have hsplit := encode_tx_split (getBytes m 1) (getList m 2) (getBytes m 3)
  have hm : encode txSpec m = encode txSpec (serializeTxMsg (getBytes m 1) (getList m 2) (getBytes m 3)) := by
    unfold serializeTxMsg; rw [← tx_canon hv]
  rw [hm, hsplit] at hb
  have hlen : (authField (getBytes m 3)).length =
      if (getBytes m 3).isEmpty then 0 else 1 + (sizeUint (getBytes m 3).length + (getBytes m 3).length) := by
    unfold authField; split
    · rfl
    · simp [lenPrefixed, uvarint_length]; omega
  have hu : unsignedSlice b (getBytes m 3) =
      encode txSpec (serializeTxMsg (getBytes m 1) (getList m 2) []) := by
    unfold unsignedSlice
    by_cases he : (getBytes m 3).isEmpty = true
    · simp only [he, if_true]
      rw [hb]; simp [authField, he]
    · simp only [he, if_false] at hlen ⊢
      rw [hb, List.length_append, hlen]
      simp
  exact ⟨by rw [hu]; exact hb, hu⟩

/-- **unsigned_is_prefix**: for an accepted transaction, the bytes the signature is verified
against (the prefix `UnmarshalCanotoFrom` slices off the input) are exactly the encoding of the
decoded body without the auth field (`NewTxData(base, actions).UnsignedBytes()`), and the signed
encoding is that body followed by the auth field. -/
theorem unsigned_is_prefix (hca : Canonical pa) {b : Bytes} {t : Tx A Au}
    (h : decodeTx pa pu b = some t) :
    unsignedSlice b (rawAuth b) = encodeUnsigned pa t ∧
    encodeTx pa pu t = encodeUnsigned pa t ++ authField (pu.bytes t.auth) := by
  refine ⟨?_, encode_tx_split _ _ _⟩
  unfold decodeTx at h
  cases hd : decode txSpec b with
  | none => simp [hd] at h
  | some m =>
    simp only [hd] at h
    cases hbase : decodeBase (getBytes m 1) with
    | none => simp [hbase] at h
    | some base =>
      simp only [hbase] at h
      cases hacts : mapM? pa.parse (getList m 2) with
      | none => simp [hacts] at h
      | some actions =>
        simp only [hacts] at h
        cases hauth : pu.parse (getBytes m 3) with
        | none => simp [hauth] at h
        | some auth =>
          simp only [hauth, Option.some.injEq] at h
          subst h
          have hr : rawAuth b = getBytes m 3 := by simp [rawAuth, hd]
          rw [hr, (tx_bytes_split hd).2]
          unfold encodeUnsigned
          simp only [base_encode_decode hbase, mapM?_map hca _ _ hacts]

/-! ### re-signing parsed transaction data

**Aliasing assumption.**  In the model a decoded `Tx` is an immutable value and `encodeTx` /
`encodeUnsigned` build fresh byte strings.  The Go code caches sub-slices of the accepted input
(`tx.bytes = r.B`, `unsignedBytes = r.B[:n]`, a block's `bytes`) inside the parsed values.  That no
later API call (`Sign` on the parsed `TransactionData`, `MarshalJSON`, `Marshal` of an enclosing
block or batch, …) writes through those slices is therefore *not* a theorem of this model but an
assumption about the implementation; the tie checks it on every run (ops `rtx` / `rblock` /
`rbatch`: parse, `Sign` every parsed transaction again with another auth, then compare the parsed
values' bytes, sizes and IDs with the accepted input; oracle key `accepted-bytes-mutated`).
What `Sign` on parsed data must *return* is a theorem: -/

/-- **resign_is_body_plus_new_auth**: signing the data of an accepted transaction `b` with
another auth `a'` yields the accepted signed message (the slice `UnmarshalCanotoFrom` cached)
followed by the new auth field — a fresh value; `b` itself is not part of the result. -/
theorem resign_is_body_plus_new_auth (hca : Canonical pa) {b : Bytes} {t : Tx A Au}
    (h : decodeTx pa pu b = some t) (a' : Au) :
    encodeTx pa pu { t with auth := a' } = unsignedSlice b (rawAuth b) ++ authField (pu.bytes a') := by
  rw [(unsigned_is_prefix pa pu hca h).1]
  exact encode_tx_split _ _ _

/-- **distinct_encodings_distinct_messages**: two accepted transactions whose signed message
and auth bytes coincide are the same byte string (no assumption on the registered parsers), so
no two distinct accepted encodings share a body and signature. -/
theorem distinct_encodings_distinct_messages {b1 b2 : Bytes} {t1 t2 : Tx A Au}
    (h1 : decodeTx pa pu b1 = some t1) (h2 : decodeTx pa pu b2 = some t2)
    (hmsg : unsignedSlice b1 (rawAuth b1) = unsignedSlice b2 (rawAuth b2))
    (hauth : rawAuth b1 = rawAuth b2) : b1 = b2 := by
  have key : ∀ {b : Bytes} {t : Tx A Au}, decodeTx pa pu b = some t →
      b = unsignedSlice b (rawAuth b) ++ authField (rawAuth b) := by
    intro b t h
    unfold decodeTx at h
    cases hd : decode txSpec b with
    | none => simp [hd] at h
    | some m =>
      have hr : rawAuth b = getBytes m 3 := by simp [rawAuth, hd]
      rw [hr]; exact (tx_bytes_split hd).1
  rw [key h1, key h2, hmsg, hauth]

/-- **id_is_hash_of_bytes**: the cached ID (`utils.ToID` of the input, any function `H`) is the
hash of the canonical encoding of the decoded value. -/
theorem id_is_hash_of_bytes {ID : Type} (H : Bytes → ID) (hca : Canonical pa) (hcu : Canonical pu)
    {b : Bytes} {t : Tx A Au} (h : decodeTx pa pu b = some t) : H b = H (encodeTx pa pu t) := by
  rw [encode_decode pa pu hca hcu h]

/-- entries of a Txs / Transactions field re-encode identically -/
theorem txs_encode_decode (hca : Canonical pa) (hcu : Canonical pu) {es : List Bytes}
    {txs : List (Tx A Au)} (h : decodeTxs pa pu es = some txs) : txs.map (encodeTx pa pu) = es := by
  refine mapM?_map ?_ es txs h
  intro e t he
  split at he
  · cases he
  · exact encode_decode pa pu hca hcu he

/-- **block_encode_decode**: every byte string accepted by `UnmarshalBlock` is what
`NewStatelessBlock` produces from the decoded fields and the re-built transactions. -/
theorem block_encode_decode (hca : Canonical pa) (hcu : Canonical pu) {b : Bytes} {blk : Block A Au}
    (h : decodeBlock pa pu b = some blk) : encodeBlock pa pu blk = b := by
  unfold decodeBlock at h
  cases hd : decode blockSpec b with
  | none => simp [hd] at h
  | some m =>
    simp only [hd] at h
    cases hc : decode ctxSpec (getBytes m 4) with
    | none => simp [hc] at h
    | some c =>
      simp only [hc] at h
      cases ht : decodeTxs pa pu (getList m 5) with
      | none => simp [ht] at h
      | some txs =>
        simp only [ht, Option.some.injEq] at h
        subst h
        obtain ⟨hb, hv⟩ := decode_sound blockSpec_ok hd
        obtain ⟨hcb, hcv⟩ := decode_sound ctxSpec_ok hc
        have hctx : encodeCtx (getNum c 1) = getBytes m 4 := by
          unfold encodeCtx; rw [← ctx_canon hcv]; exact hcb.symm
        unfold encodeBlock
        simp only [hctx, txs_encode_decode pa pu hca hcu ht]
        rw [← block_canon hv]; exact hb.symm

/-- **batch_encode_decode** (`BatchedTransactionSerializer.Unmarshal` / `Marshal`) -/
theorem batch_encode_decode (hca : Canonical pa) (hcu : Canonical pu) {b : Bytes} {txs : List (Tx A Au)}
    (h : decodeBatch pa pu b = some txs) : encodeBatch pa pu txs = b := by
  unfold decodeBatch at h
  cases hd : decode batchSpec b with
  | none => simp [hd] at h
  | some m =>
    simp only [hd] at h
    obtain ⟨hb, hv⟩ := decode_sound batchSpec_ok hd
    unfold encodeBatch
    rw [txs_encode_decode pa pu hca hcu h, ← batch_canon hv]; exact hb.symm

/-- decoding the Txs / Transactions field built from well-formed transactions -/
theorem txs_decode_encode (hpa : Complete pa) (hpu : Complete pu) (txs : List (Tx A Au))
    (h : ∀ t ∈ txs, TxOK pa pu t) : decodeTxs pa pu (txs.map (encodeTx pa pu)) = some txs := by
  unfold decodeTxs
  apply mapM?_map_mem
  intro t ht
  have hne : (encodeTx pa pu t).isEmpty = false := by
    cases he : encodeTx pa pu t with
    | nil => exact absurd he (h t ht).nonempty
    | cons _ _ => rfl
  simp only [hne]
  exact decode_encode pa pu hpa hpu t (h t ht).ts (h t ht).chainID (h t ht).maxFee (h t ht).actions (h t ht).auth

theorem txs_sizes (txs : List (Tx A Au)) (h : ∀ t ∈ txs, TxOK pa pu t) :
    ∀ e ∈ txs.map (encodeTx pa pu), e.length < 2 ^ 64 := by
  intro e he
  obtain ⟨t, ht, rfl⟩ := List.mem_map.mp he
  exact (h t ht).size

/-- **batch_decode_encode**: a batch of well-formed transactions with non-empty encodings
decodes from its encoding to the same list. -/
theorem batch_decode_encode (hpa : Complete pa) (hpu : Complete pu) (txs : List (Tx A Au))
    (h : ∀ t ∈ txs, TxOK pa pu t) : decodeBatch pa pu (encodeBatch pa pu txs) = some txs := by
  unfold decodeBatch encodeBatch
  rw [decode_complete batchSpec_ok (listMsg_valid batchSpec (f := 1) rfl _ (txs_sizes pa pu txs h))]
  simp only [listMsg_get, txs_decode_encode pa pu hpa hpu txs h]

/-- **block_decode_encode**: a block value with well-formed fixed-size fields, uint64 P-chain
height (0 = no context) and well-formed transactions decodes from its encoding to itself. -/
theorem block_decode_encode (hpa : Complete pa) (hpu : Complete pu) (blk : Block A Au)
    (hp : blk.prnt.length = 32) (ht : blk.tmstmp.length = 8) (hh : blk.hght.length = 8)
    (hr : blk.stateRoot.length = 32) (hc : blk.pChainHeight < 2 ^ 64) (htx : ∀ t ∈ blk.txs, TxOK pa pu t) :
    decodeBlock pa pu (encodeBlock pa pu blk) = some blk := by
  obtain ⟨c1, c2, c3⟩ := ctx_decode_encode hc
  have hv := blockMsg_valid blk.prnt blk.tmstmp blk.hght (encodeCtx blk.pChainHeight)
    (blk.txs.map (encodeTx pa pu)) blk.stateRoot hp ht hh c3 (txs_sizes pa pu blk.txs htx) hr
  obtain ⟨g1, g2, g3, g4, g5, g6⟩ := blockMsg_get blk.prnt blk.tmstmp blk.hght (encodeCtx blk.pChainHeight)
    (blk.txs.map (encodeTx pa pu)) blk.stateRoot hp ht hh hr
  unfold decodeBlock encodeBlock
  rw [decode_complete blockSpec_ok hv]
  simp only [g1, g2, g3, g4, g5, g6, c1, c2, txs_decode_encode pa pu hpa hpu blk.txs htx]

end tx

/-! ## results -/

/-- **result_encode_decode** (`UnmarshalResult` / `Marshal`) -/
theorem result_encode_decode {b : Bytes} {r : Result} (h : decodeResult b = some r) :
    encodeResult r = b := by
  unfold decodeResult at h
  cases hd : decode resultSpec b with
  | none => simp [hd] at h
  | some m =>
    simp only [hd, Option.some.injEq] at h
    subst h
    obtain ⟨hb, hv⟩ := decode_sound resultSpec_ok hd
    unfold encodeResult Result.toMsg
    simp only
    rw [← result_canon hv]; exact hb.symm

/-- **results_encode_decode** (`ParseExecutionResults` / `Marshal`) -/
theorem results_encode_decode {b : Bytes} {e : ExecResults} (h : decodeExecResults b = some e) :
    encodeExecResults e = b := by
  unfold decodeExecResults at h
  cases hd : decode execResultsSpec b with
  | none => simp [hd] at h
  | some m =>
    simp only [hd] at h
    cases hr : mapM? decodeResult (getList m 1) with
    | none => simp [hr] at h
    | some rs =>
      simp only [hr, Option.some.injEq] at h
      subst h
      obtain ⟨hb, hv⟩ := decode_sound execResultsSpec_ok hd
      unfold encodeExecResults
      simp only [mapM?_map (fun _ _ h => result_encode_decode h) _ _ hr]
      rw [← execResults_canon hv]; exact hb.symm

/-- **result_decode_encode** (value level): a `Result` with well-formed fields decodes from its
encoding to itself. -/
theorem result_decode_encode (r : Result) (h : ResultOK r) : decodeResult (encodeResult r) = some r :=
  result_dec r h.error h.outputs h.units h.fee

/-- **results_decode_encode** (value level) for `ExecutionResults` (a nil entry is the all-zero
`Result`). -/
theorem results_decode_encode (e : ExecResults) (hr : ∀ r ∈ e.results, ResultOK r)
    (hp : e.unitPrices.length = 40) (hc : e.unitsConsumed.length = 40) :
    decodeExecResults (encodeExecResults e) = some e := by
  have hl : ∀ x ∈ e.results.map encodeResult, x.length < 2 ^ 64 := by
    intro x hx
    obtain ⟨r, hr', rfl⟩ := List.mem_map.mp hx
    exact (hr r hr').size
  obtain ⟨g1, g2, g3⟩ := execResultsMsg_get (e.results.map encodeResult) e.unitPrices e.unitsConsumed hp hc
  unfold decodeExecResults encodeExecResults
  rw [decode_complete execResultsSpec_ok (execResultsMsg_valid _ _ _ hl hp hc)]
  have hm : mapM? decodeResult (e.results.map encodeResult) = some e.results :=
    mapM?_map_mem _ (fun r hr' => result_decode_encode r (hr r hr'))
  simp only [g1, g2, g3, hm]

theorem optEnc_optDec {α} {enc : α → Bytes} {dec : Bytes → Option α}
    (hed : ∀ b a, dec b = some a → enc a = b) {b : Bytes} {o : Option α}
    (h : optDec dec b = some o) : optEnc enc o = b := by
  unfold optDec at h
  split at h
  · rename_i he
    simp only [Option.some.injEq] at h; subst h
    simp only [optEnc]
    cases b with
    | nil => rfl
    | cons _ _ => simp at he
  · cases hdec : dec b with
    | none => simp [hdec] at h
    | some a =>
      simp only [hdec, Option.some.injEq] at h; subst h
      exact hed b a hdec

/-- **executed_block_encode_decode** (`UnmarshalExecutedBlock` / `Marshal`) -/
theorem executed_block_encode_decode {A Au : Type} (pa : Parser A) (pu : Parser Au)
    (hca : Canonical pa) (hcu : Canonical pu) {b : Bytes} {e : ExecutedBlock A Au}
    (h : decodeExecutedBlock pa pu b = some e) : encodeExecutedBlock pa pu e = b := by
  unfold decodeExecutedBlock at h
  cases hd : decode executedBlockSpec b with
  | none => simp [hd] at h
  | some m =>
    simp only [hd] at h
    cases hblk : optDec (decodeBlock pa pu) (getBytes m 1) with
    | none => simp [hblk] at h
    | some blk =>
      simp only [hblk] at h
      cases hrs : optDec decodeExecResults (getBytes m 2) with
      | none => simp [hrs] at h
      | some rs =>
        simp only [hrs, Option.some.injEq] at h
        subst h
        obtain ⟨hb, hv⟩ := decode_sound executedBlockSpec_ok hd
        unfold encodeExecutedBlock
        simp only [optEnc_optDec (fun _ _ h => block_encode_decode pa pu hca hcu h) hblk,
          optEnc_optDec (fun _ _ h => results_encode_decode h) hrs]
        rw [← executedBlock_canon hv]; exact hb.symm

/-! ## the defect: a parser that ignores trailing bytes -/

/-- a one-byte "action" parsed the way `linearcodec.UnmarshalFrom` parses: the value is read from
the front of the input and whatever follows is ignored -/
def lenientParser : Parser UInt8 :=
  { parse := fun b => match b with | x :: _ => some x | [] => none, bytes := fun x => [x] }
def strictParser : Parser UInt8 :=
  { parse := fun b => match b with | [x] => some x | _ => none, bytes := fun x => [x] }

/-- **c15_counterexample** (unrepaired registered parsers): with a parser that ignores trailing
bytes the transaction `actions=[07 ff], auth=[01]` is accepted and re-encodes to a different
byte string, i.e. `Canonical` is necessary. -/
theorem c15_counterexample :
    ∃ b t, decodeTx lenientParser strictParser b = some t ∧ encodeTx lenientParser strictParser t ≠ b := by
  refine ⟨[0x12, 0x02, 0x07, 0xff, 0x1a, 0x01, 0x01], ⟨⟨0, zeros 32, zeros 8⟩, [7], 1⟩, by rfl, ?_⟩
  have : encodeTx lenientParser strictParser ⟨⟨0, zeros 32, zeros 8⟩, [7], 1⟩ =
      [0x12, 0x01, 0x07, 0x1a, 0x01, 0x01] := by
    simp [encodeTx, encode, serializeTxMsg, encodeBase, Base.toMsg, optNum, optFixed, optBytes, optList,
      txSpec, baseSpec, encEntry, lenPrefixed, uvarint_small, zigzag, allZero, zeros, lenientParser,
      strictParser, tagByte]
  rw [this]; decide

theorem strictParser_canonical : Canonical strictParser := by
  intro b a h
  simp only [strictParser] at h ⊢
  split at h
  · simp only [Option.some.injEq] at h; subst h; rfl
  · cases h

/-! ## non-vacuity -/

/-- the hypothesis `Complete` of the value-level converses is satisfiable -/
example : Complete strictParser := by intro a; rfl
example : Canonical strictParser := strictParser_canonical

example : (decodeTx strictParser strictParser [0x12, 0x01, 0x07, 0x1a, 0x01, 0x01]).map
    (fun t => (t.base, t.actions, t.auth)) = some (⟨0, zeros 32, zeros 8⟩, [7], 1) := by decide
example : (decodeTx strictParser strictParser [0x12, 0x02, 0x07, 0xff, 0x1a, 0x01, 0x01]).isNone = true := by decide
example : decodeBase [0x08, 0x03, 0x19, 1, 0, 0, 0, 0, 0, 0, 0] = some ⟨-2, zeros 32, [1, 0, 0, 0, 0, 0, 0, 0]⟩ := by decide
example : decodeBase [0x08, 0x83, 0x00] = none := by decide          -- padded varint
example : decodeBase [0x19, 1, 0, 0, 0, 0, 0, 0, 0, 0x08, 0x03] = none := by decide  -- field order
example : decodeResult [0x08, 0x01, 0x29, 5, 0, 0, 0, 0, 0, 0, 0] =
    some ⟨true, [], [], zeros 40, [5, 0, 0, 0, 0, 0, 0, 0]⟩ := by decide

end HyperModel.Props.C15
