import HyperModel.Proofs.Crash
/-!
# C18 A restarted node recovers the accepted chain after a crash at any point

Model: `HyperModel.Crash`. A history is any list of pipeline events (`indexUpdate`, `enqueue`,
`writeResults`, `commitState`, `notify`) from a fresh node; a crash after any prefix keeps only
the persistent markers `(idx, st, res)`. `restart` transcribes the start-up code as it is
(with `/verif/fixes/C18-pebble-compact-nil-limit.patch`; without it no start after an unclean
shutdown succeeds at all).

**The property is false for the unchanged code** (`c18_counterexample`, `c18_counterexample_depth1`):
start-up succeeds *iff* the index height equals the state height (`restart_succeeds_iff`), i.e.
only if no accepted block was waiting for its state commit when the node stopped. The full
statements

    restart_succeeds_and_agrees :
      ∀ evs, ∃ re, restart (run Node.init evs).p = .ok (run Node.init evs).p.idx re ∧ …
    subscribers_at_least_once_in_order :
      ∀ evs h, 1 ≤ h ≤ idx → h ∈ notified-before ∨ h ∈ notified-at-restart

are therefore proved only under the hypothesis `idx = st` (`…_partial`), and, at full strength,
for the repair design `restartRepaired` (`repair_design_…`), which is *not* applied to /repo.
-/
namespace HyperModel.Props.C18
open HyperModel.Crash

/-- every reachable node satisfies the pipeline invariant (queue = the consecutive blocks after
the last one that left the pipeline; markers consistent with the stage of the head block) -/
theorem reachable_inv (evs : List Ev) : Inv (run Node.init evs) := run_inv Inv.init evs

/-- reachable persistent markers: `st ≤ idx`, and the results height is the state height or one
above it (never above the index) -/
theorem reachable_markers (evs : List Ev) :
    let p := (run Node.init evs).p
    p.st ≤ p.idx ∧ (p.res = none → p.st = 0) ∧ (∀ r, p.res = some r → (r = p.st ∨ r = p.st + 1) ∧ r ≤ p.idx ∧ 1 ≤ r) := by
  obtain ⟨d, _, hd, hq, hs⟩ := reachable_inv evs
  rcases hs with ⟨_, h2, h3⟩ | ⟨_, hne, h2, h3⟩ | ⟨_, hne, h2, h3⟩
  · refine ⟨by omega, ?_, ?_⟩
    · intro _; by_cases h0 : d = 0 <;> simp_all
    · intro r hr; by_cases h0 : d = 0
      · simp [h0] at h3; simp [h3] at hr
      · simp [h0] at h3; rw [h3] at hr; injection hr with hr; omega
  all_goals
    obtain ⟨x, t, hxt⟩ := List.exists_cons_of_ne_nil hne
    obtain ⟨_, hle, _⟩ := head_eq hq hxt
    refine ⟨by omega, by simp [h3], ?_⟩
    intro r hr; rw [h3] at hr; injection hr with hr; omega

/-- **Exactly when start-up succeeds**: after a crash at any point of any history, the restart
returns (the block at the index height) iff the index is not ahead of the committed state. -/
theorem restart_succeeds_iff (evs : List Ev) :
    (∃ re, restart (run Node.init evs).p = .ok (run Node.init evs).p.idx re)
      ↔ (run Node.init evs).p.idx = (run Node.init evs).p.st := by
  obtain ⟨hle, hnone, hsome⟩ := reachable_markers evs
  generalize (run Node.init evs).p = p at *
  unfold restart
  by_cases h0 : p.idx = 0
  · have : p.st = 0 := by omega
    simp [h0, this]
  · rw [if_neg h0]
    by_cases h1 : p.idx = p.st
    · have hne : ¬ (p.idx ≠ p.st ∧ p.idx ≠ p.st + 1) := fun h => h.1 h1
      rw [if_neg hne, if_pos h1]
      cases hr : p.res with
      | none => have := hnone hr; omega
      | some r =>
        have := hsome r hr
        have hrs : r = p.st := by omega
        simp [hrs, h1]
    · by_cases h2 : p.idx = p.st + 1
      · have hne : ¬ (p.idx ≠ p.st ∧ p.idx ≠ p.st + 1) := fun h => h.2 h2
        rw [if_neg hne, if_neg h1]
        simp [h1]
      · rw [if_pos ⟨h1, h2⟩]
        simp [h1]

/-- `restart_succeeds_and_agrees`, **partial**: for every history whose crash leaves the index
at the state height, start-up succeeds, returns the last accepted block of the never-crashed
node and leaves the same persistent state as the never-crashed node.
Missing for the full property: the states with `idx > st` (see the counterexamples). -/
theorem restart_succeeds_and_agrees_partial (evs : List Ev)
    (h : (run Node.init evs).p.idx = (run Node.init evs).p.st) :
    restart (run Node.init evs).p = .ok (run Node.init evs).p.idx [(run Node.init evs).p.idx]
    ∧ afterRestart (run Node.init evs).p = reference (run Node.init evs).p.idx := by
  obtain ⟨re, hre⟩ := (restart_succeeds_iff evs).2 h
  obtain ⟨_, hnone, hsome⟩ := reachable_markers evs
  generalize (run Node.init evs).p = p at *
  have hr : restart p = .ok p.idx [p.idx] := by
    unfold restart at hre ⊢
    by_cases h0 : p.idx = 0
    · simp [h0]
    · have hne : ¬ (p.idx ≠ p.st ∧ p.idx ≠ p.st + 1) := fun hh => hh.1 h
      rw [if_neg h0, if_neg hne, if_pos h] at hre ⊢
      by_cases hres : p.res = some p.st
      · rw [if_pos hres, reprocess, ← h]; simp
      · rw [if_neg hres] at hre; cases hre
  refine ⟨hr, ?_⟩
  unfold afterRestart reference
  rw [hr]
  by_cases h0 : p.idx = 0
  · have hst : p.st = 0 := by omega
    cases hres : p.res with
    | none => cases p; simp_all
    | some r => have := hsome r hres; omega
  · cases p; simp_all

/-- `subscribers_at_least_once_in_order`, **partial** (same hypothesis): every accepted block is
in the log before the crash or in the notifications of the start-up, and each log is in
strictly increasing height order. -/
theorem subscribers_at_least_once_in_order_partial (evs : List Ev)
    (h : (run Node.init evs).p.idx = (run Node.init evs).p.st) :
    (∀ b, 1 ≤ b → b ≤ (run Node.init evs).p.idx →
        b ∈ (run Node.init evs).notified ∨ b ∈ [(run Node.init evs).p.idx])
    ∧ (run Node.init evs).notified.Pairwise (· < ·) := by
  obtain ⟨d, hn, hd, hq, hs⟩ := reachable_inv evs
  refine ⟨?_, by rw [hn]; exact List.pairwise_lt_range⟩
  intro b hb1 hb2
  rw [hn]
  simp only [List.mem_range, List.mem_singleton]
  rcases hs with ⟨_, h2, _⟩ | ⟨_, hne, h2, _⟩ | ⟨_, hne, h2, _⟩
  · omega
  · obtain ⟨x, t, hxt⟩ := List.exists_cons_of_ne_nil hne
    obtain ⟨_, hle, _⟩ := head_eq hq hxt
    omega
  · omega

/-! ### The unchanged code violates the property -/

/-- accept, accept, crash (nothing processed yet): the index is 2 ahead of the state and the
start-up returns "cannot extract latest output block from invalid state". -/
theorem c18_counterexample :
    (run Node.init [.indexUpdate, .enqueue, .indexUpdate, .enqueue]).p = { idx := 2, st := 0, res := none }
    ∧ restart (run Node.init [.indexUpdate, .enqueue, .indexUpdate, .enqueue]).p = .errIndexAhead := by
  decide

/-- Queue depth 1 is enough: accept one block and stop before its state commit (even directly
after the index update, or after the results write): start-up dereferences the not yet
constructed `vm.chain`. -/
theorem c18_counterexample_depth1 :
    restart (run Node.init [.indexUpdate]).p = .panicNil
    ∧ restart (run Node.init [.indexUpdate, .enqueue]).p = .panicNil
    ∧ restart (run Node.init [.indexUpdate, .enqueue, .writeResults]).p = .panicNil := by
  decide

/-- a block whose state was committed but whose subscribers were not yet notified is never
delivered if the index is ahead: with the start-up as it is, only `idx` would be re-notified
(and the start-up fails anyway). Witness: blocks 1,2 accepted, crash after the commit of 1. -/
theorem c18_counterexample_notification :
    let n := run Node.init [.indexUpdate, .enqueue, .indexUpdate, .enqueue, .writeResults, .commitState]
    n.p = { idx := 2, st := 1, res := some 1 } ∧ n.notified = [0] ∧ restart n.p = .panicNil := by
  decide

/-! ### Repair design (model only): full-strength statements -/

/-- With the repaired start-up, restart succeeds after a crash at *every* point of *every*
history and returns the never-crashed node's last accepted block. -/
theorem repair_design_restart_succeeds_and_agrees (evs : List Ev) :
    ∃ re, restartRepaired (run Node.init evs).p = .ok (run Node.init evs).p.idx re := by
  obtain ⟨hle, _, _⟩ := reachable_markers evs
  unfold restartRepaired
  have : ¬ (run Node.init evs).p.idx < (run Node.init evs).p.st := by omega
  simp [this]

/-- and every accepted block is delivered at least once across the restart, each log in
non-decreasing height order. -/
theorem repair_design_subscribers_at_least_once_in_order (evs : List Ev) :
    (∀ b, 1 ≤ b → b ≤ (run Node.init evs).p.idx → b ∈ (run Node.init evs).notified
        ∨ b ∈ ([(run Node.init evs).p.st] ++ reprocess (run Node.init evs).p.st (run Node.init evs).p.idx ++ [(run Node.init evs).p.idx]))
    ∧ (run Node.init evs).notified.Pairwise (· < ·)
    ∧ ([(run Node.init evs).p.st] ++ reprocess (run Node.init evs).p.st (run Node.init evs).p.idx ++ [(run Node.init evs).p.idx]).Pairwise (· ≤ ·) := by
  obtain ⟨d, hn, hd, hq, hs⟩ := reachable_inv evs
  obtain ⟨hle, _, _⟩ := reachable_markers evs
  refine ⟨?_, by rw [hn]; exact List.pairwise_lt_range, ?_⟩
  · intro b hb1 hb2
    rw [hn]
    simp only [List.mem_range, List.mem_append, List.mem_singleton, mem_reprocess]
    rcases hs with ⟨_, h2, _⟩ | ⟨_, _, h2, _⟩ | ⟨_, _, h2, _⟩ <;> omega
  · rw [List.pairwise_append, List.pairwise_append]
    refine ⟨⟨by simp, (reprocess_sorted _ _).imp (fun h => Nat.le_of_lt h), ?_⟩, by simp, ?_⟩
    · intro a ha b hb; simp at ha; rw [mem_reprocess] at hb; omega
    · intro a ha b hb
      simp only [List.mem_append, List.mem_singleton, mem_reprocess] at ha
      simp at hb
      rcases ha with ha | ha <;> omega

/-! ### Non-vacuity -/

/-- the hypothesis `idx = st` of the partial theorems holds in non-trivial reachable states -/
example : (run Node.init [.indexUpdate, .enqueue, .writeResults, .commitState]).p = { idx := 1, st := 1, res := some 1 } := by decide
example : restart (run Node.init [.indexUpdate, .enqueue, .writeResults, .commitState]).p = .ok 1 [1] := by decide
example : (run Node.init [.indexUpdate, .enqueue, .writeResults, .commitState]).notified = [0] := by decide

end HyperModel.Props.C18
