import HyperModel.Proofs.Crash
/-!
# C18 A restarted node recovers the accepted chain after a crash at any point

Model: `HyperModel.Crash`. A history is any list of pipeline events (`indexUpdate`, `enqueue`,
`writeResults`, `commitState`, `notifyA`, `notifyB` — two accepted-subscribers, notified one after
the other) from a fresh node; a crash after any prefix keeps only the persistent markers
`(idx, st, res)`. `restart` transcribes the start-up after
`/verif/fixes/C18-restart-index-ahead.patch`; `restartOrig` the start-up before it.

* Before the repair the first half of the property is false: start-up succeeds *iff* the index
  height equals the state height (`restart_orig_succeeds_iff`, `c18_counterexample_unrepaired`,
  `c18_counterexample_depth1_unrepaired`).
* With the repair, `restart_succeeds_and_agrees` holds at full strength (every crash point of
  every history).
* The second half (every accepted block delivered to every subscriber at least once across the
  restart) is still false when the index is ahead of the state and the node stopped between the
  state commit of a block and its delivery to a subscriber (`c18_counterexample_notification`).
  Full statement, not provable:

      subscribers_at_least_once_in_order :
        ∀ evs b, 1 ≤ b → b ≤ idx → (b ∈ notifiedA ∨ b ∈ re) ∧ (b ∈ notifiedB ∨ b ∈ re)

  It is proved under the hypothesis `idx = st ∨ stage < 2` (`…_partial`), and at full strength
  for the further repair design `restartRenotify` (model only, not applied to /repo).
-/
namespace HyperModel.Props.C18
open HyperModel.Crash

/-- every reachable node satisfies the pipeline invariant -/
theorem reachable_inv (evs : List Ev) : Inv (run Node.init evs) := run_inv Inv.init evs

/-- reachable persistent markers: `st ≤ idx`, and the results height is the state height or one
above it (never above the index) -/
theorem reachable_markers (evs : List Ev) :
    (run Node.init evs).p.st ≤ (run Node.init evs).p.idx
    ∧ ((run Node.init evs).p.res = none → (run Node.init evs).p.st = 0)
    ∧ (∀ r, (run Node.init evs).p.res = some r →
        (r = (run Node.init evs).p.st ∨ r = (run Node.init evs).p.st + 1) ∧ r ≤ (run Node.init evs).p.idx ∧ 1 ≤ r) := by
  obtain ⟨d, _, hd, hq, hs⟩ := reachable_inv evs
  rcases hs with ⟨_, h2, h3, _⟩ | ⟨_, hne, h2, h3, _⟩ | ⟨_, hne, h2, h3, _⟩ | ⟨_, hne, h2, h3, _⟩
  · refine ⟨by omega, ?_, ?_⟩
    · intro _; by_cases h0 : d = 0 <;> simp_all
    · intro r hr; by_cases h0 : d = 0
      · simp [h0] at h3; simp [h3] at hr
      · simp [h0] at h3; rw [h3] at hr; injection hr with hr; omega
  all_goals
    obtain ⟨x, t, hxt⟩ := List.exists_cons_of_ne_nil hne
    obtain ⟨_, hle, _⟩ := head_eq hq hxt
    refine ⟨by omega, by simp [h3], ?_⟩
    intro r hr; rw [h3] at hr; injection hr with hr; omega

/-- **Index before queue**: `Accept` writes a block to the chain index before it hands it to
the async accepter, so every block in the queue (or about to be queued) is already indexed and
the committed state never runs ahead of the index, in every reachable state. The start-up
relies on it (`idx < st` is refused as an invalid state). -/
theorem index_written_before_enqueue (evs : List Ev) :
    (∀ h ∈ (run Node.init evs).queue ++ (run Node.init evs).toEnqueue.toList, h ≤ (run Node.init evs).p.idx)
    ∧ (run Node.init evs).p.st ≤ (run Node.init evs).p.idx := by
  refine ⟨?_, (reachable_markers evs).1⟩
  obtain ⟨d, _, hd, hq, _⟩ := reachable_inv evs
  intro h hh
  rw [hq, mem_consec] at hh
  omega

/-- **Write order**: in every reachable persistent state the stored execution results belong to
the block at the state height or a later one (`VM.AcceptBlock` writes the results before it
commits the state). The start-up relies on it. -/
theorem results_written_before_state_commit (evs : List Ev) :
    (run Node.init evs).p.st = 0 ∨ ∃ r, (run Node.init evs).p.res = some r ∧ (run Node.init evs).p.st ≤ r := by
  obtain ⟨_, hnone, hsome⟩ := reachable_markers evs
  cases hr : (run Node.init evs).p.res with
  | none => exact Or.inl (hnone hr)
  | some r => have := hsome r hr; exact Or.inr ⟨r, rfl, by omega⟩

/-- **restart_succeeds_and_agrees** (full strength, repaired start-up): after a crash at any point
of any history the restart succeeds, its last accepted block is the never-crashed node's
(`idx`), it re-processes and re-notifies exactly `st+1 .. idx` and then `idx` once more, and it
leaves the persistent state of the never-crashed node. -/
theorem restart_succeeds_and_agrees (evs : List Ev) :
    restart (run Node.init evs).p
        = .ok (run Node.init evs).p.idx (reprocess (run Node.init evs).p.st (run Node.init evs).p.idx ++ [(run Node.init evs).p.idx])
    ∧ afterRestart (run Node.init evs).p = reference (run Node.init evs).p.idx := by
  obtain ⟨hle, hnone, hsome⟩ := reachable_markers evs
  generalize (run Node.init evs).p = p at *
  have hr : restart p = .ok p.idx (reprocess p.st p.idx ++ [p.idx]) := by
    unfold restart
    by_cases h0 : p.idx = 0
    · have hst : p.st = 0 := by omega
      simp [h0, hst, reprocess]
    · have hlt : ¬ p.idx < p.st := by omega
      rw [if_neg h0, if_neg hlt]
      cases hres : p.res with
      | none => simp [hnone hres]
      | some r =>
        obtain ⟨h1, h2, _⟩ := hsome r hres
        by_cases hrs : r = p.st
        · simp [hrs]
        · have h3 : r = p.st + 1 ∧ p.st < p.idx := ⟨by omega, by omega⟩
          simp [h3]
  refine ⟨hr, ?_⟩
  unfold afterRestart reference
  rw [hr]
  by_cases h0 : p.idx = 0
  · cases hres : p.res with
    | none => simp [h0]
    | some r => have := hsome r hres; omega
  · simp [h0]

/-- `subscribers_at_least_once_in_order`, **partial**: if the node did not stop between the state
commit of a block and the end of its notifications while the index was ahead (`idx = st ∨ stage < 2`),
every accepted block is, for *each* subscriber, in its log before the crash or among the
notifications of the start-up; every log is in increasing height order. -/
theorem subscribers_at_least_once_in_order_partial (evs : List Ev)
    (h : (run Node.init evs).p.idx = (run Node.init evs).p.st ∨ (run Node.init evs).stage < 2) :
    (∀ b, 1 ≤ b → b ≤ (run Node.init evs).p.idx →
        (b ∈ (run Node.init evs).notifiedA
          ∨ b ∈ reprocess (run Node.init evs).p.st (run Node.init evs).p.idx ++ [(run Node.init evs).p.idx])
        ∧ (b ∈ (run Node.init evs).notifiedB
          ∨ b ∈ reprocess (run Node.init evs).p.st (run Node.init evs).p.idx ++ [(run Node.init evs).p.idx]))
    ∧ (run Node.init evs).notifiedA.Pairwise (· < ·)
    ∧ (run Node.init evs).notifiedB.Pairwise (· < ·)
    ∧ (reprocess (run Node.init evs).p.st (run Node.init evs).p.idx ++ [(run Node.init evs).p.idx]).Pairwise (· ≤ ·) := by
  obtain ⟨d, hn, hd, hq, hs⟩ := reachable_inv evs
  obtain ⟨hle, _, _⟩ := reachable_markers evs
  refine ⟨?_, ?_, by rw [hn]; exact List.pairwise_lt_range, ?_⟩
  · intro b hb1 hb2
    rw [hn]
    simp only [List.mem_range, List.mem_append, List.mem_singleton, mem_reprocess]
    rcases hs with ⟨_, h2, _, hA⟩ | ⟨_, _, h2, _, hA⟩ | ⟨hst, _, h2, _, hA⟩ | ⟨hst, _, h2, _, hA⟩
    all_goals (rw [hA]; simp only [List.mem_range]; omega)
  · rcases hs with ⟨_, _, _, hA⟩ | ⟨_, _, _, _, hA⟩ | ⟨_, _, _, _, hA⟩ | ⟨_, _, _, _, hA⟩
    all_goals (rw [hA]; exact List.pairwise_lt_range)
  · rw [List.pairwise_append]
    refine ⟨(reprocess_sorted _ _).imp (fun h => Nat.le_of_lt h), by simp, ?_⟩
    intro a ha b hb
    rw [mem_reprocess] at ha; simp at hb; omega

/-- **The remaining violation** (repaired start-up): blocks 1, 2 accepted, crash after the state
commit of block 1 and before its notification: the restart succeeds and notifies 2, 2 — block 1
is never delivered. The same for subscriber B alone when the crash falls between A and B. -/
theorem c18_counterexample_notification :
    (let n := run Node.init [.indexUpdate, .enqueue, .indexUpdate, .enqueue, .writeResults, .commitState]
     restart n.p = .ok 2 [2, 2] ∧ 1 ∉ n.notifiedA ∧ 1 ∉ n.notifiedB)
    ∧ (let n := run Node.init [.indexUpdate, .enqueue, .indexUpdate, .enqueue, .writeResults, .commitState, .notifyA]
       restart n.p = .ok 2 [2, 2] ∧ 1 ∈ n.notifiedA ∧ 1 ∉ n.notifiedB) := by
  decide

/-! ### The start-up before the repair -/

/-- before the repair the start-up returns iff the index is not ahead of the committed state -/
theorem restart_orig_succeeds_iff (evs : List Ev) :
    (∃ re, restartOrig (run Node.init evs).p = .ok (run Node.init evs).p.idx re)
      ↔ (run Node.init evs).p.idx = (run Node.init evs).p.st := by
  obtain ⟨hle, hnone, hsome⟩ := reachable_markers evs
  generalize (run Node.init evs).p = p at *
  unfold restartOrig
  by_cases h0 : p.idx = 0
  · have : p.st = 0 := by omega
    simp [h0, this]
  · rw [if_neg h0]
    by_cases h1 : p.idx = p.st
    · have hne : ¬ (p.idx ≠ p.st ∧ p.idx ≠ p.st + 1) := fun h => h.1 h1
      rw [if_neg hne, if_pos h1]
      cases hr : p.res with
      | none => have := hnone hr; omega
      | some r =>
        have := hsome r hr
        have hrs : r = p.st := by omega
        simp [hrs, h1]
    · by_cases h2 : p.idx = p.st + 1
      · have hne : ¬ (p.idx ≠ p.st ∧ p.idx ≠ p.st + 1) := fun h => h.2 h2
        rw [if_neg hne, if_neg h1]
        simp [h1]
      · rw [if_pos ⟨h1, h2⟩]
        simp [h1]

/-- accept, accept, crash: "cannot extract latest output block from invalid state" -/
theorem c18_counterexample_unrepaired :
    (run Node.init [.indexUpdate, .enqueue, .indexUpdate, .enqueue]).p = { idx := 2, st := 0, res := none }
    ∧ restartOrig (run Node.init [.indexUpdate, .enqueue, .indexUpdate, .enqueue]).p = .errIndexAhead := by
  decide

/-- one accepted block not yet committed: nil `vm.chain` dereferenced -/
theorem c18_counterexample_depth1_unrepaired :
    restartOrig (run Node.init [.indexUpdate]).p = .panicNil
    ∧ restartOrig (run Node.init [.indexUpdate, .enqueue]).p = .panicNil
    ∧ restartOrig (run Node.init [.indexUpdate, .enqueue, .writeResults]).p = .panicNil := by
  decide

/-! ### Further repair design (model only) -/

/-- If the start-up also re-delivers the block at the state height, every accepted block reaches
every subscriber at least once across a crash at *every* point of *every* history. -/
theorem repair_design_subscribers_at_least_once_in_order (evs : List Ev) :
    (∃ re, restartRenotify (run Node.init evs).p = .ok (run Node.init evs).p.idx re)
    ∧ (∀ b, 1 ≤ b → b ≤ (run Node.init evs).p.idx →
        (b ∈ (run Node.init evs).notifiedA
          ∨ b ∈ ([(run Node.init evs).p.st] ++ reprocess (run Node.init evs).p.st (run Node.init evs).p.idx ++ [(run Node.init evs).p.idx]))
        ∧ (b ∈ (run Node.init evs).notifiedB
          ∨ b ∈ ([(run Node.init evs).p.st] ++ reprocess (run Node.init evs).p.st (run Node.init evs).p.idx ++ [(run Node.init evs).p.idx])))
    ∧ ([(run Node.init evs).p.st] ++ reprocess (run Node.init evs).p.st (run Node.init evs).p.idx ++ [(run Node.init evs).p.idx]).Pairwise (· ≤ ·) := by
  obtain ⟨d, hn, hd, hq, hs⟩ := reachable_inv evs
  obtain ⟨hle, _, _⟩ := reachable_markers evs
  refine ⟨?_, ?_, ?_⟩
  · unfold restartRenotify
    have : ¬ (run Node.init evs).p.idx < (run Node.init evs).p.st := by omega
    simp [this]
  · intro b hb1 hb2
    rw [hn]
    simp only [List.mem_range, List.mem_append, List.mem_singleton, mem_reprocess]
    rcases hs with ⟨_, h2, _, hA⟩ | ⟨_, _, h2, _, hA⟩ | ⟨_, _, h2, _, hA⟩ | ⟨_, _, h2, _, hA⟩
    all_goals (rw [hA]; simp only [List.mem_range]; omega)
  · rw [List.pairwise_append, List.pairwise_append]
    refine ⟨⟨by simp, (reprocess_sorted _ _).imp (fun h => Nat.le_of_lt h), ?_⟩, by simp, ?_⟩
    · intro a ha b hb; simp at ha; rw [mem_reprocess] at hb; omega
    · intro a ha b hb
      simp only [List.mem_append, List.mem_singleton, mem_reprocess] at ha
      simp at hb
      rcases ha with ha | ha <;> omega

/-! ### Non-vacuity -/

/-- index 3 ahead of the state, results one ahead: the repaired start-up re-processes 2,3,4 -/
example : (run Node.init [.indexUpdate, .enqueue, .indexUpdate, .enqueue, .indexUpdate, .enqueue, .indexUpdate, .enqueue,
    .writeResults, .commitState, .notifyA, .notifyB, .writeResults]).p = { idx := 4, st := 1, res := some 2 } := by decide
example : restart { idx := 4, st := 1, res := some 2 } = .ok 4 [2, 3, 4, 4] := by decide
/-- the start-up's invalid-state branch is live in the model (and unreachable by `index_written_before_enqueue`) -/
example : restart { idx := 3, st := 4, res := some 4 } = .errIndexAhead := by decide
/-- both disjuncts of the partial theorem's hypothesis occur with the index ahead / level -/
example : (run Node.init [.indexUpdate, .enqueue, .indexUpdate, .enqueue, .writeResults]).stage = 1 := by decide
example : (run Node.init [.indexUpdate, .enqueue, .writeResults, .commitState, .notifyA]).p = { idx := 1, st := 1, res := some 1 } := by decide

end HyperModel.Props.C18
