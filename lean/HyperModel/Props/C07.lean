import HyperModel.Props.C03
/-!
# C07 No transaction is charged more than the maximum fee it signed — **known finding**

Intended theorem (`included_fee_le_max`):

  for every transaction `tx`, state, prices and block limits:
  if the builder includes `tx` / the processor accepts a block containing `tx` with result `r`,
  then `r.fee ≤ tx.maxFee`; and admission (`PreExecutor.PreExecute`) rejects `tx` when its fee
  at the next block's prices exceeds `tx.maxFee`.

It is false of the code: `Base.MaxFee` is read nowhere on the admission, build or verification
path (`Model/Tx.lean: preExecute, txExecute, builderIncludes, processorAccepts, admits` transcribe
that). `c07_counterexample` proves the negation with the witness that the harness replays on the
real `PreExecutor`, `Builder` and `Processor` in every run (shape of `vm.TestSubmitTx/valid_tx`:
minimum unit price 100, `MaxFee = 1000`, fee 16 500). What does hold is
`included_fee_le_max_partial`: an included transaction is charged exactly `Σ price·units`,
the sponsor's balance covered it, and `Result.Fee` is what was charged.
-/
namespace HyperModel.Props.C07
open HyperModel.Tx HyperModel.Proofs.Tx HyperModel.Props.C03

/-! ## the witness -/
def wSponsor : Addr := [1]
def wHandler : Handler := .pfx [3]
def wPrices : List Nat := [100, 100, 100, 100, 100]
def wUnits : List Nat := [117, 3, 7, 25, 13]
def wMaxUnits : List Nat := [1800000, 2000, 2000, 2000, 2000]
def wScope : Key → Nat := fun k => if k = wHandler.key wSponsor then permWrite else 0
/-- one empty action, `MaxFee = 1000`, expiry 30 s ahead -/
def wTx : Tx := { sponsor := wSponsor, actions := [{ prog := .done [] }], units := some wUnits,
                  maxFee := 1000, timestamp := 30000 }
def wCur : Store := upd (fun _ => none) (wHandler.key wSponsor) (some (encU64 1000000000))

/-- **C07 counterexample** a transaction that signed `MaxFee = 1000` is admitted to the
mempool, included by the builder and accepted by the processor with `Result.Fee = 16500`. -/
theorem c07_counterexample :
    admits {} wHandler wPrices 0 wScope false true wTx wCur = true ∧
    (builderIncludes {} wHandler wPrices 0 wScope [0, 0, 0, 0, 0] wMaxUnits wTx wCur).map (·.fee) = some 16500 ∧
    (processorAccepts {} wHandler wPrices 0 wScope [0, 0, 0, 0, 0] wMaxUnits wTx wCur).map (·.fee) = some 16500 ∧
    wTx.maxFee = 1000 := by
  decide +kernel

/-- the intended theorem is false of the code as it is -/
theorem included_fee_le_max_false :
    ¬ (∀ (rules : Rules) (h : Handler) (prices : List Nat) (now : Int) (scope : Key → Nat)
        (consumed maxUnits : List Nat) (tx : Tx) (cur : Store) (r : Result),
        (builderIncludes rules h prices now scope consumed maxUnits tx cur = some r ∨
         processorAccepts rules h prices now scope consumed maxUnits tx cur = some r) →
        r.fee ≤ tx.maxFee) := by
  intro hall
  have hce := c07_counterexample
  cases hb : builderIncludes {} wHandler wPrices 0 wScope [0, 0, 0, 0, 0] wMaxUnits wTx wCur with
  | none => simp [hb] at hce
  | some r =>
    have hle := hall {} wHandler wPrices 0 wScope [0, 0, 0, 0, 0] wMaxUnits wTx wCur r (Or.inl hb)
    simp [hb] at hce
    have : wTx.maxFee = 1000 := hce.2.2.2
    omega

theorem included_done (rules : Rules) (h : Handler) (prices : List Nat) (now : Int)
    (scope : Key → Nat) (consumed maxUnits : List Nat) (tx : Tx) (cur : Store) (r : Result)
    (hinc : builderIncludes rules h prices now scope consumed maxUnits tx cur = some r ∨
            processorAccepts rules h prices now scope consumed maxUnits tx cur = some r) :
    ∃ cur', processTx rules h prices now scope tx cur = (cur', .done r) := by
  rcases hinc with hb | hp
  · unfold builderIncludes at hb
    split at hb
    · rename_i cur' res hpt
      split at hb
      · simp at hb; exact ⟨cur', by rw [hpt, hb]⟩
      · simp at hb
    · simp at hb
  · unfold processorAccepts at hp
    split at hp
    · simp at hp
    · split at hp
      · simp at hp
      · split at hp
        · rename_i cur' res hpt
          simp at hp; exact ⟨cur', by rw [hpt, hp]⟩
        · simp at hp

/-- **C07 (partial)** what holds for every included transaction (builder or processor), all
prices, units, limits, states: `PreExecute` passed, the fee in the result is exactly
`Σ price_d·units_d` (without overflow), the sponsor's balance record covered it, the balance
right after the fee step is `balance − Result.Fee`, and no other key changed in that step.
Missing with respect to the property: the bound `Result.Fee ≤ tx.maxFee` (false, see
`c07_counterexample`). -/
theorem included_fee_le_max_partial (rules : Rules) (h : Handler) (prices : List Nat) (now : Int)
    (scope : Key → Nat) (consumed maxUnits : List Nat) (tx : Tx) (cur : Store) (r : Result)
    (hinc : builderIncludes rules h prices now scope consumed maxUnits tx cur = some r ∨
            processorAccepts rules h prices now scope consumed maxUnits tx cur = some r) :
    preExecute rules h prices tx { cur, scope } now = none ∧
    tx.units = some r.units ∧ r.fee = dot prices r.units ∧ r.fee < u64 ∧
    ∃ bal, readBal h cur tx.sponsor = some bal ∧ r.fee ≤ bal ∧
      balance h (chargedView h tx r.fee { cur, scope }).cur tx.sponsor = bal - r.fee ∧
      ∀ k, k ≠ h.key tx.sponsor → (chargedView h tx r.fee { cur, scope }).cur k = cur k := by
  obtain ⟨cur', hpt⟩ := included_done rules h prices now scope consumed maxUnits tx cur r hinc
  obtain ⟨hpre, v', hx, _⟩ := processTx_done rules h prices now scope tx cur cur' r hpt
  obtain ⟨units, fee, bal, hu, _, hdot, hlt, hfee, hunits, hb, hle, _, hother, hbal, _⟩ :=
    fee_charged_first h prices tx _ v' r hx
  subst hfee; subst hunits
  exact ⟨hpre, hu, hdot, hlt, bal, hb, hle, hbal, hother⟩

/-! ## only transactions that are in the block are charged -/

/-- **C07 (skip)** a transaction the builder does not append to the block — `PreExecute` or
`Execute` failed, or it executed but `feeManager.Consume` found no room for its units — leaves
the built state (block diff over parent) and the consumed units exactly as they were: its fee
deduction is never merged into the block. -/
theorem skipped_tx_not_charged (rules : Rules) (h : Handler) (prices : List Nat) (now : Int)
    (maxUnits : List Nat) (p : (Key → Nat) × Tx) (s : Block × List Nat)
    (hskip : (builderStep rules h prices now maxUnits p s).2 = none) :
    (builderStep rules h prices now maxUnits p s).1 = s := by
  unfold builderStep at hskip ⊢
  split
  · rename_i cur' res hp
    rw [hp] at hskip
    simp only at hskip
    split
    · rename_i c' hc; rw [hc] at hskip; simp at hskip
    · rfl
  · rfl

/-- an appended transaction is committed exactly once, with the state its execution left, and
its units fit the block -/
theorem included_tx_committed (rules : Rules) (h : Handler) (prices : List Nat) (now : Int)
    (maxUnits : List Nat) (p : (Key → Nat) × Tx) (s : Block × List Nat) (res : Result)
    (hinc : (builderStep rules h prices now maxUnits p s).2 = some res) :
    ∃ cur' c', processTx rules h prices now p.1 p.2 s.1.visible = (cur', .done res) ∧
      consume s.2 res.units maxUnits = some c' ∧
      (builderStep rules h prices now maxUnits p s).1 = (s.1.commit cur', c') ∧
      (builderStep rules h prices now maxUnits p s).1.1.visible = cur' := by
  unfold builderStep at hinc ⊢
  split at hinc
  · rename_i cur' res' hp
    split at hinc
    · rename_i c' hc
      simp at hinc; subst hinc
      refine ⟨cur', c', hp, hc, ?_, ?_⟩
      · simp [hp, hc]
      · simp [hp, hc, commit_visible]
    · simp at hinc
  · simp at hinc

/-- a built block in which nothing was appended has charged nobody -/
theorem nothing_included_nothing_charged (rules : Rules) (h : Handler) (prices : List Nat) (now : Int)
    (maxUnits : List Nat) : ∀ (txs : List ((Key → Nat) × Tx)) (s : Block × List Nat)
    (out : (Block × List Nat) × List (Option Result)),
    builderBlock rules h prices now maxUnits txs s = .ok out →
    (∀ o ∈ out.2, o = none) → out.1 = s := by
  intro txs
  induction txs with
  | nil => intro s out hb _; simp [builderBlock] at hb; rw [← hb]
  | cons p rest ih =>
    intro s out hb hall
    simp only [builderBlock] at hb
    split at hb
    · simp at hb
    · split at hb
      · simp at hb
      · rename_i out' hrest
        simp at hb
        subst hb
        simp only at hall ⊢
        have h1 : (builderStep rules h prices now maxUnits p s).2 = none := hall _ (by simp)
        have h2 := skipped_tx_not_charged rules h prices now maxUnits p s h1
        rw [h2] at hrest
        exact ih s out' hrest (fun o ho => hall o (by simp [ho]))

/-- **C07 (abort)** `BuildBlock` returns an error — no block at all — only when some streamed
transaction passes `PreExecute` on the state built so far and then makes `Execute` return an
error; by C03's `execute_error_after_preexecute_ok` that is a zero-fee transaction whose sponsor
has no balance record. (Known finding `build-aborts-on-zero-fee-absent-sponsor`.) -/
theorem build_abort_cause (rules : Rules) (h : Handler) (prices : List Nat) (now : Int)
    (maxUnits : List Nat) : ∀ (txs : List ((Key → Nat) × Tx)) (s : Block × List Nat) (e : Err),
    builderBlock rules h prices now maxUnits txs s = .error e →
    ∃ p ∈ txs, ∃ s', builderAbort rules h prices now p s' = some e := by
  intro txs
  induction txs with
  | nil => intro s e hb; simp [builderBlock] at hb
  | cons p rest ih =>
    intro s e hb
    simp only [builderBlock] at hb
    split at hb
    · rename_i e' ha
      simp at hb; subst hb
      exact ⟨p, by simp, s, ha⟩
    · split at hb
      · rename_i e' hrest
        simp at hb; subst hb
        obtain ⟨q, hq, s', hs'⟩ := ih _ e' hrest
        exact ⟨q, by simp [hq], s', hs'⟩
      · simp at hb

/-- `processorAccepts` is `processorOutcome` without the reason -/
theorem processorAccepts_eq_outcome (rules : Rules) (h : Handler) (prices : List Nat) (now : Int)
    (scope : Key → Nat) (consumed maxUnits : List Nat) (tx : Tx) (cur : Store) :
    processorAccepts rules h prices now scope consumed maxUnits tx cur =
      (processorOutcome rules h prices now scope consumed maxUnits tx cur).toOption.map (·.2.2) := by
  unfold processorAccepts processorOutcome
  cases tx.units with
  | none => rfl
  | some units =>
    simp only
    cases consume consumed units maxUnits with
    | none => simp [Except.toOption]
    | some c' =>
      simp only [Option.isNone_some, Bool.false_eq_true, if_false]
      rcases processTx rules h prices now scope tx cur with ⟨c, o⟩
      cases o <;> rfl

/-- `admits` is `admitOutcome` without the reason -/
theorem admits_eq_outcome (rules : Rules) (h : Handler) (prices : List Nat) (now : Int)
    (scope : Key → Nat) (isRepeat authOk : Bool) (tx : Tx) (cur : Store) :
    admits rules h prices now scope isRepeat authOk tx cur =
      (admitOutcome rules h prices now scope isRepeat authOk tx cur).isNone := by
  unfold admits admitOutcome
  cases isRepeat <;> cases authOk <;> cases tx.units <;> simp

/-- the single-transaction decision `builderIncludes` is one `builderStep` on a fresh block -/
theorem builderIncludes_eq_step (rules : Rules) (h : Handler) (prices : List Nat) (now : Int)
    (scope : Key → Nat) (consumed maxUnits : List Nat) (tx : Tx) (cur : Store) :
    builderIncludes rules h prices now scope consumed maxUnits tx cur =
      (builderStep rules h prices now maxUnits (scope, tx) ({ parent := cur }, consumed)).2 := by
  have hv : ({ parent := cur } : Block).visible = cur := by funext k; simp [Block.visible]
  unfold builderIncludes builderStep
  rw [hv]
  rcases processTx rules h prices now scope tx cur with ⟨c', o⟩
  cases o with
  | done res =>
    simp only
    cases consume consumed res.units maxUnits <;> simp
  | preErr e => rfl
  | execErr e => rfl

/-- admission never looks at `maxFee` either: two transactions that differ only in `maxFee`
are admitted alike. -/
theorem admission_ignores_maxfee (rules : Rules) (h : Handler) (prices : List Nat) (now : Int)
    (scope : Key → Nat) (isRepeat authOk : Bool) (tx : Tx) (cur : Store) (m : Nat) :
    admits rules h prices now scope isRepeat authOk { tx with maxFee := m } cur =
    admits rules h prices now scope isRepeat authOk tx cur := by
  simp [admits, preExecute]

end HyperModel.Props.C07
